/-
  EditMore, part 25 — **C16 `comments_survive`, SetRequireSeparateIndirect** (`setRequireSeparateIndirect_comments`).
-/
import ModVerif.Proofs.EditMoreComC
set_option linter.unusedSimpArgs false
namespace ModVerif.Modfile.Edit
open ModVerif ModVerif.Modfile

theorem keepsEq_insertAt (stmts : List Expr) (i : Nat) (y : Expr) : KeepsEq [] stmts (insertAt stmts i y) := by
  unfold insertAt
  intro v hv _
  rw [viewX_append, viewX_cons]
  rw [← List.take_append_drop i stmts, viewX_append] at hv
  rcases List.mem_append.1 hv with h | h
  · exact List.mem_append_left _ h
  · exact List.mem_append_right _ (List.mem_append_right _ h)

theorem keepsEq_append_stmt (stmts : List Expr) (y : Expr) : KeepsEq [] stmts (stmts ++ [y]) := by
  intro v hv _
  rw [viewX_append]; exact List.mem_append_left _ hv

theorem keepsEq_ensureBlock (stmts : List Expr) (d : Nat) (h2 : View2 stmts) (hr : ReqAt stmts d) (s : List Expr)
    (h : ensureBlock stmts d = .ok s) : KeepsEq [] stmts s := by
  rcases hr with ⟨x, hx, hreq⟩
  unfold ensureBlock at h
  cases x with
  | lineBlock b =>
    simp only [hx, Except.ok.injEq] at h
    subst h; exact KeepsEq.refl _ _
  | line l =>
    simp only [hx, Except.ok.injEq] at h
    subst h
    simp only [ReqStmt] at hreq
    have hsp := (split_at hx).1
    have hvl : ⟨l.id, l.token, l.comments.suffix⟩ ∈ view stmts := by
      rw [hsp, view_append, view_cons]
      refine List.mem_append_right _ (List.mem_append_left _ ?_)
      cases hlt : l.token with
      | nil => exact absurd hlt hreq.1
      | cons a as => simp [view, loc, locStmt, liveLoc, mkV, hlt]
    have hlen := h2 _ hvl
    simp only at hlen
    rw [set_split _ hx]
    intro v hv _
    rw [hsp, viewX_append, viewX_cons] at hv
    rw [viewX_append, viewX_cons]
    rcases List.mem_append.1 hv with hv | hv
    · exact List.mem_append_left _ hv
    · rcases List.mem_append.1 hv with hv | hv
      · refine List.mem_append_right _ (List.mem_append_left _ ?_)
        rw [viewX_line] at hv
        rcases hlt : l.token with _ | ⟨a, _ | ⟨a2, as⟩⟩
        · exact absurd hlt hreq.1
        · rw [hlt] at hlen; simp at hlen
        · have ha : a = B "require" := by have := hreq.2; rw [hlt] at this; exact headIs_cons this
          subst ha
          rw [hlt] at hv
          simp only [List.isEmpty_cons, Bool.false_eq_true, if_false, List.mem_singleton] at hv
          subst hv
          rw [viewX_block]
          simp [hlt]
      · exact List.mem_append_right _ (List.mem_append_right _ hv)
  | commentBlock _ => exact hreq.elim
  | lparen _ => exact hreq.elim
  | rparen _ => exact hreq.elim

/-- the block phase of SetRequireSeparateIndirect leaves every line literally as it is -/
theorem sepStage_keepsEq (stmts : List Expr) (hs : ShapeWF stmts) (h2 : View2 stmts) (sc : Scan) (hsc : ScanInv stmts stmts.length sc)
    {s1 : List Expr} {dI : Nat} {dO lI sh : Option Nat} {s2 : List Expr} {iI : Nat} {iO : Option Nat}
    (h1 : sepStage1 stmts sc = .ok (s1, dI, dO, lI, sh)) (h3 : sepStage2 s1 dI lI sh = .ok (s2, iI, iO)) :
    KeepsEq [] stmts s2 := by
  unfold sepStage1 at h1
  have stage2_none : ∀ (s1 : List Expr) (dI : Nat), sepStage2 s1 dI none sh = .ok (s2, iI, iO) → KeepsEq [] s1 s2 := by
    intro s1 dI h3
    simp only [sepStage2, Except.ok.injEq, Prod.mk.injEq] at h3
    obtain ⟨rfl, _, _⟩ := h3
    exact keepsEq_insertAt _ _ _
  have stage2_some : ∀ (s1 : List Expr) (dI j : Nat), view s1 = view stmts → ReqAt s1 j →
      sepStage2 s1 dI (some j) sh = .ok (s2, iI, iO) → KeepsEq [] s1 s2 := by
    intro s1 dI j e1 hr h3
    simp only [sepStage2] at h3
    cases hE : ensureBlock s1 j with
    | error err => simp [hE] at h3
    | ok s =>
      simp only [hE, Except.ok.injEq, Prod.mk.injEq] at h3
      obtain ⟨rfl, _, _⟩ := h3
      exact keepsEq_ensureBlock s1 j (view2_of_eq e1 h2) hr s hE
  have comp : ∀ {a b : List Expr}, KeepsEq [] stmts a → KeepsEq [] a b → KeepsEq [] stmts b := by
    intro a b k1 k2
    have := k1.trans k2
    simpa using this
  cases hld : sc.lastDirect with
  | none =>
    simp only [hld] at h1
    cases hli : sc.lastIndirect with
    | some j =>
      simp only [hli, Except.ok.injEq, Prod.mk.injEq] at h1
      obtain ⟨rfl, rfl, _, rfl, _⟩ := h1
      rcases (hsc.indirect j hli).2 with ⟨x, hx, hreq⟩
      have hlt := (split_at hx).2
      rcases insertAt_empty_spec stmts j (by omega) hs with ⟨f1, _, _, _, _, f6, _⟩
      exact comp (keepsEq_insertAt _ _ _) (stage2_some _ _ _ f1 ⟨x, by rw [f6 j (Nat.le_refl _)]; exact hx, hreq⟩ h3)
    | none =>
      simp only [hli] at h1
      cases hlr : sc.lastRequire with
      | some k =>
        simp only [hlr, Except.ok.injEq, Prod.mk.injEq] at h1
        obtain ⟨rfl, rfl, _, rfl, _⟩ := h1
        exact comp (keepsEq_insertAt _ _ _) (stage2_none _ _ h3)
      | none =>
        simp only [hlr, Except.ok.injEq, Prod.mk.injEq] at h1
        obtain ⟨rfl, rfl, _, rfl, _⟩ := h1
        exact comp (keepsEq_append_stmt _ _) (stage2_none _ _ h3)
  | some d =>
    simp only [hld] at h1
    rcases ensureBlock_spec stmts d hs h2 (hsc.direct d hld).2 with ⟨s, hE, f1, _, _, _, _, f6⟩
    simp only [hE, Except.ok.injEq, Prod.mk.injEq] at h1
    obtain ⟨rfl, rfl, _, rfl, _⟩ := h1
    have k1 := keepsEq_ensureBlock stmts d h2 (hsc.direct d hld).2 _ hE
    cases hli : sc.lastIndirect with
    | none => rw [hli] at h3; exact comp k1 (stage2_none _ _ h3)
    | some j =>
      rw [hli] at h3
      have hne := hsc.ne d j hld hli
      rcases (hsc.indirect j hli).2 with ⟨x, hx, hreq⟩
      exact comp k1 (stage2_some _ _ _ f1 ⟨x, by rw [f6 j (Ne.symm hne)]; exact hx, hreq⟩ h3)

theorem Inv.kill3_lt {e : EFile} (hi : Inv e) : ∀ i ∈ kill3 e.f, i < e.next := by
  intro i hk
  rcases kill3_src e.f _ hk with ⟨z, hz, hzid⟩ | ⟨z, hz, hzid⟩ | ⟨z, hz, hzid⟩
  · cases hzl : liveX z with
    | true => rw [← hzid]; exact hi.mtch.ids_lt hi.tree (entX z) (mem_entries_exclude hz hzl)
    | false =>
      have : z.lineId = 0 := (hi.tinv.wfX z hz).2 hzl
      rw [← hzid, this]; exact hi.tinv.pos
  · cases hzl : liveRp z with
    | true => rw [← hzid]; exact hi.mtch.ids_lt hi.tree (entRp z) (mem_entries_replace hz hzl)
    | false =>
      have : z.lineId = 0 := (hi.tinv.wfR z hz).2 hzl
      rw [← hzid, this]; exact hi.tinv.pos
  · cases hzl : liveT z with
    | true => rw [← hzid]; exact hi.mtch.ids_lt hi.tree (entT z) (mem_entries_tool hz hzl)
    | false =>
      have : z.lineId = 0 := (hi.tinv.wfT z hz).2 hzl
      rw [← hzid, this]; exact hi.tinv.pos


theorem entsOf_append {α : Type} (live : α → Bool) (mk : α → Ent) (l1 l2 : List α) :
    entsOf live mk (l1 ++ l2) = entsOf live mk l1 ++ entsOf live mk l2 := by
  simp [entsOf, List.filter_append]

/-- the step of the loop at the first requirement of a requested path, with comments -/
theorem sepLoop_first_comments (ctx : SepCtx) (need : List Want) (r : Require) (t : List Require) (w : Want)
    (have_ : List Bytes) (syn : FileSyntax) (next : Nat) (rs' : List Require) (have' : List Bytes) (syn' : FileSyntax) (next' : Nat)
    (hw : TreeWF syn.stmts next) (hbd : BlockAt syn.stmts ctx.directIdx) (hbi : BlockAt syn.stmts ctx.indirectIdx)
    (hf : need.find? (fun a => a.path == r.mod.path) = some w) (hc : have_.contains r.mod.path = false)
    (hnd : ((r :: t).map (·.lineId)).Nodup) (hlt : ∀ r' ∈ t, r'.lineId < next)
    (h : sepLoop ctx need (r :: t) have_ syn next = .ok (rs', have', syn', next'))
    (x0 : XLine) (hx0 : x0 ∈ viewX syn.stmts) (hid0 : x0.id = r.lineId) (a ver : Bytes) (htoks : x0.toks = [B "require", a, ver]) :
    ∃ x1 ∈ viewX syn'.stmts, (x1.id = r.lineId ∨ x1.id = next) ∧ x1.toks = [B "require", a, w.vers] ∧
      BeforeKept x0.before x1.before ∧ x1.suffix = sfxAfter w.indirect x0.suffix := by
  rw [sepLoop_cons] at h
  simp only [hf, hc, Bool.false_eq_true, if_false, bind, Except.bind] at h
  cases hd : deref r.lineId with
  | error err => simp [hd] at h
  | ok i =>
    have hi : i = r.lineId := by unfold deref at hd; split at hd <;> simp at hd; exact hd.symm
    subst hi
    simp only [hd] at h
    rcases viewX_setReq syn next r.lineId w.vers w.indirect hw x0 hx0 hid0 a ver htoks with ⟨x1, hx1, e1, e2, e3, e4⟩
    have hw1 := hw.setReq r.lineId w.vers w.indirect
    have hbd1 : BlockAt (syn.updateLine r.lineId fun l => setIndirectLine w.indirect (setVersionLine w.vers l)).stmts ctx.directIdx :=
      hbd.updateLine hw.nodup _ _
    have hbi1 : BlockAt (syn.updateLine r.lineId fun l => setIndirectLine w.indirect (setVersionLine w.vers l)).stmts ctx.indirectIdx :=
      hbi.updateLine hw.nodup _ _
    generalize ht : (if (w.indirect && (ctx.oneFlat || inBlockOrig ctx r.lineId ctx.directOrig)) = true then
        (({ r with mod := { r.mod with version := w.vers }, indirect := w.indirect, lineId := next } : Require),
          moveExisting (syn.updateLine r.lineId fun l => setIndirectLine w.indirect (setVersionLine w.vers l)) r.lineId ctx.indirectIdx next, next + 1)
      else if (!w.indirect && (ctx.oneFlat || inBlockOrig ctx r.lineId ctx.indirectOrig)) = true then
        (({ r with mod := { r.mod with version := w.vers }, indirect := w.indirect, lineId := next } : Require),
          moveExisting (syn.updateLine r.lineId fun l => setIndirectLine w.indirect (setVersionLine w.vers l)) r.lineId ctx.directIdx next, next + 1)
      else (({ r with mod := { r.mod with version := w.vers }, indirect := w.indirect } : Require),
          syn.updateLine r.lineId fun l => setIndirectLine w.indirect (setVersionLine w.vers l), next)) = tt at h
    -- the tracked line after the (possible) move
    have htp : ∃ xt ∈ viewX tt.2.1.stmts, (xt.id = r.lineId ∨ xt.id = next) ∧ xt.toks = x1.toks ∧ xt.before = x1.before ∧ xt.suffix = x1.suffix := by
      have moved : ∀ idx, BlockAt (syn.updateLine r.lineId fun l => setIndirectLine w.indirect (setVersionLine w.vers l)).stmts idx →
          ∃ xt ∈ viewX (moveExisting (syn.updateLine r.lineId fun l => setIndirectLine w.indirect (setVersionLine w.vers l)) r.lineId idx next).stmts,
            (xt.id = r.lineId ∨ xt.id = next) ∧ xt.toks = x1.toks ∧ xt.before = x1.before ∧ xt.suffix = x1.suffix := by
        intro idx hidx
        exact ⟨_, viewX_moveExisting _ next r.lineId idx hw1 x1 hx1 e1 a w.vers e2 hidx, Or.inr rfl, rfl, rfl, rfl⟩
      rw [← ht]; split
      · exact moved _ hbi1
      · split
        · exact moved _ hbd1
        · exact ⟨x1, hx1, Or.inl e1, rfl, rfl, rfl⟩
    rcases tt with ⟨r2, syn2, next2⟩
    simp only at htp h
    cases hr : sepLoop ctx need t (r2.mod.path :: have_) syn2 next2 with
    | error err => simp [hr] at h
    | ok res =>
      rcases res with ⟨rs'', h'', syn'', next''⟩
      simp only [hr, pure, Except.pure, Except.ok.injEq, Prod.mk.injEq] at h
      rcases h with ⟨_, _, rfl, _⟩
      rcases htp with ⟨xt, hxt, hidt, t1, t2, t3⟩
      have hk := sepLoop_keepsEq ctx need t _ syn2 next2 rs'' h'' syn'' next'' hr
      refine ⟨xt, hk xt hxt ?_, hidt, by rw [t1, e2], by rw [t2]; exact e3, by rw [t3, e4]⟩
      intro hmem
      rcases List.mem_map.1 hmem with ⟨r', hr', hid'⟩
      rcases hidt with hh | hh
      · simp only [List.map_cons, List.nodup_cons] at hnd
        apply hnd.1
        rw [← hh, ← hid']
        exact List.mem_map.2 ⟨r', hr', rfl⟩
      · have := hlt r' hr'
        omega

/-- **C16 `comments_survive`, SetRequireSeparateIndirect.**  As `setRequire_comments`; the line may have been moved to
    another block (under a fresh line id) — it keeps its comments all the same. -/
theorem setRequireSeparateIndirect_comments (e e' : EFile) (req : List Want) (perm : List Want → List Want)
    (hg : GoodWant req) (hi : Inv e) (hlive : ∀ r ∈ e.f.require, liveRq r = true)
    (hset : NoNestedIndirectMarker e) (h : setRequireSeparateIndirect e req perm = .ok e')
    (d : List Require) (r : Require) (t : List Require) (hsplit : e.f.require = d ++ r :: t)
    (hfirst : ∀ r' ∈ d, r'.mod.path ≠ r.mod.path) (w : Want) (hw : w ∈ req) (hwp : w.path = r.mod.path)
    (x0 : XLine) (hx0 : x0 ∈ viewX e.f.syn.stmts) (hid0 : x0.id = r.lineId) :
    ∃ x' ∈ viewX (cleanup e').f.syn.stmts, x'.toks = [B "require", autoQuote r.mod.path, w.vers] ∧
      BeforeKept x0.before x'.before ∧ (sfxAfter w.indirect x0.suffix).Sublist x'.suffix := by
  have hr : r ∈ e.f.require := by rw [hsplit]; exact List.mem_append_right _ List.mem_cons_self
  have hlr := hlive r hr
  have htoks : x0.toks = [B "require", autoQuote r.mod.path, r.mod.version] :=
    (hi.acc_of_id hx0 (mem_entries_require hr hlr) hid0.symm).1
  have hfind : req.find? (fun a => a.path == r.mod.path) = some w := by
    have hpw : (fun a : Want => a.path == r.mod.path) w = true := by simp [hwp]
    cases hf : req.find? (fun a => a.path == r.mod.path) with
    | none => exact absurd hpw (by simpa using (List.find?_eq_none.1 hf) w hw)
    | some w' =>
      have hw' := List.mem_of_find?_eq_some hf
      have hp' : w'.path = r.mod.path := by
        have := List.find?_some hf
        exact eq_of_beq this
      have : w' = w := by
        have hpw' := List.pairwise_iff_getElem.1 hg.1
        rcases List.mem_iff_getElem.1 hw' with ⟨i, hi', rfl⟩
        rcases List.mem_iff_getElem.1 hw with ⟨j, hj', rfl⟩
        rcases Nat.lt_trichotomy i j with hlt | heq | hgt
        · exact absurd (hp'.trans hwp.symm) (hpw' i j hi' hj' hlt)
        · subst heq; rfl
        · exact absurd (hwp.trans hp'.symm) (hpw' j i hj' hi' hgt)
      rw [this]
  have hidlt : ∀ r' ∈ e.f.require, r'.lineId < e.next := fun r' hr' =>
    hi.mtch.ids_lt hi.tree (entRq r') (mem_entries_require hr' (hlive r' hr'))
  have hnd := hi.require_ids_nodup hlive
  rw [setRSI_eq] at h
  cases h1 : sepStage1 e.f.syn.stmts (scanStmts e.f.syn.stmts 0 {}) with
  | error err => simp [h1] at h
  | ok r1 =>
    rcases r1 with ⟨s1, dI, dO, lI, sh⟩
    simp only [h1] at h
    cases h2 : sepStage2 s1 dI lI sh with
    | error err => simp [h2] at h
    | ok r2 =>
      rcases r2 with ⟨s2, iI, iO⟩
      simp only [h2] at h
      have hgood := sepStage_spec e.f.syn.stmts hi.tree.shape hi.view2 _ (scan_inv _) h1 h2
      have k0 := sepStage_keepsEq e.f.syn.stmts hi.tree.shape hi.view2 _ (scan_inv _) h1 h2
      have hx0s : x0 ∈ viewX s2 := k0 x0 hx0 (by simp)
      unfold sepTail at h
      rw [needMap_distinct false req [] (by simpa using hg.1)] at h
      simp only [bind, Except.bind, List.nil_append] at h
      generalize hctx : (SepCtx.mk (sepOneFlat e.f.syn.stmts (scanStmts e.f.syn.stmts 0 {})) dI iI dO iO (scanStmts e.f.syn.stmts 0 {}).lineToBlock) = ctx at h
      have hcd : ctx.directIdx = dI := by rw [← hctx]
      have hci : ctx.indirectIdx = iI := by rw [← hctx]
      cases hr' : sepLoop ctx req e.f.require [] { e.f.syn with stmts := s2 } e.next with
      | error err => simp [hr'] at h
      | ok res =>
        rcases res with ⟨rq, have', syn', next'⟩
        simp only [hr', pure, Except.pure, Except.ok.injEq] at h
        subst h
        have hw0 : TreeWF s2 e.next :=
          ⟨by rw [hgood.ids_eq]; exact hi.tree.nodup, by rw [hgood.ids_eq]; exact hi.tree.lt, by rw [hgood.ids_eq]; exact hi.tree.pos,
           hgood.shape.blockTok, hgood.shape.flagTop, hgood.shape.flagIn, hgood.shape.noBlockSuffix⟩
        have hset0 : ∀ r ∈ e.f.require, ∀ v ∈ view s2, v.id = r.lineId → MarkerSettable v.suffix := by
          intro r hr v hv; rw [hgood.view_eq] at hv; exact hset r hr v hv
        -- the whole loop, for the invariant of the result
        have hm0 : Match (segA_require e.f ++ (entsOf liveRq entRq ([] ++ e.f.require) ++ segC_require e.f)) (view s2) := by
          simp only [List.nil_append]; rw [← entries_require, hgood.view_eq]; exact hi.mtch
        rcases sepLoop_inv (A := segA_require e.f) (C := segC_require e.f) ctx req e.f.require [] [] { e.f.syn with stmts := s2 } e.next
          rq have' syn' next' hlive hw0 hi.tinv.pos hm0 (by rw [hcd]; exact hgood.direct) (by rw [hci]; exact hgood.indirect) hset0 hr'
          with ⟨hw', hle, hm', hbd', hbi'⟩
        have hi1 : Inv (⟨{ e.f with require := rq, syn := syn' }, next'⟩ : EFile) := by
          refine ⟨hw', ?_, hi.tinv.of_same rfl rfl rfl hle⟩
          simp only [List.nil_append] at hm'
          rw [entries_require]; exact hm'
        -- split at `r`
        rw [hsplit] at hr' hnd
        rcases sepLoop_split ctx req (r :: t) d [] _ e.next rq have' syn' next' hr' with ⟨d', hm, synm, nextm, rs'', q1, q2, _, q4⟩
        have hmd : Match (segA_require e.f ++ (entsOf liveRq entRq ([] ++ d) ++ (entsOf liveRq entRq (r :: t) ++ segC_require e.f))) (view s2) := by
          simp only [List.nil_append]
          rw [← List.append_assoc (entsOf liveRq entRq d), ← entsOf_append, ← hsplit, ← entries_require, hgood.view_eq]
          exact hi.mtch
        have hlived : ∀ r' ∈ d, liveRq r' = true := fun r' hr' => hlive r' (by rw [hsplit]; exact List.mem_append_left _ hr')
        have hsetd : ∀ r' ∈ d, ∀ v ∈ view s2, v.id = r'.lineId → MarkerSettable v.suffix :=
          fun r' hr' => hset0 r' (by rw [hsplit]; exact List.mem_append_left _ hr')
        rcases sepLoop_inv (A := segA_require e.f) (C := entsOf liveRq entRq (r :: t) ++ segC_require e.f) ctx req d [] []
          { e.f.syn with stmts := s2 } e.next d' hm synm nextm hlived hw0 hi.tinv.pos hmd (by rw [hcd]; exact hgood.direct)
          (by rw [hci]; exact hgood.indirect) hsetd q1 with ⟨hwm, hlem, _, hbdm, hbim⟩
        have hndd : ∀ r' ∈ d, r'.lineId ≠ r.lineId := by
          intro r' hr' e0
          simp only [List.map_append, List.map_cons] at hnd
          rcases List.nodup_append.1 hnd with ⟨_, _, n3⟩
          exact n3 _ (List.mem_map.2 ⟨r', hr', rfl⟩) _ List.mem_cons_self e0
        have hx0m : x0 ∈ viewX synm.stmts := by
          refine sepLoop_keepsEq ctx req d _ _ _ _ _ _ _ q1 x0 hx0s ?_
          intro hmem
          rcases List.mem_map.1 hmem with ⟨r', hr', e0⟩
          exact hndd r' hr' (e0.trans hid0)
        have hcm : hm.contains r.mod.path = false := by
          cases hcc : hm.contains r.mod.path with
          | false => rfl
          | true =>
            have hmem : r.mod.path ∈ hm := by simpa using hcc
            rcases q4 _ hmem with h0 | ⟨r', hr', e0⟩
            · cases h0
            · exact absurd e0 (hfirst r' hr')
        have hndt : ((r :: t).map (·.lineId)).Nodup := by
          simp only [List.map_append] at hnd
          exact (List.nodup_append.1 hnd).2.1
        have hltt : ∀ r' ∈ t, r'.lineId < nextm := fun r' hr' =>
          Nat.lt_of_lt_of_le (hidlt r' (by rw [hsplit]; exact List.mem_append_right _ (List.mem_cons_of_mem _ hr'))) hlem
        rcases sepLoop_first_comments ctx req r t w hm synm nextm rs'' have' syn' next'
          hwm hbdm hbim hfind hcm hndt hltt q2 x0 hx0m hid0 _ _ htoks with ⟨x1, hx1, hid1, e2, e3, e4⟩
        -- the missing entries, SortBlocks, Cleanup
        have k2 := foldl_addSepNew_keeps ctx ((perm req).filter fun w => !have'.contains w.path)
          (⟨{ e.f with require := rq, syn := syn' }, next'⟩ : EFile)
        rcases k2 x1 hx1 (by simp) with ⟨x2, hx2, h12⟩
        have k3 := keeps_sortBlocks (((perm req).filter fun w => !have'.contains w.path).foldl (addSepNew ctx)
          (⟨{ e.f with require := rq, syn := syn' }, next'⟩ : EFile))
        rcases foldl_addSepNew_fields ctx ((perm req).filter fun w => !have'.contains w.path)
          (⟨{ e.f with require := rq, syn := syn' }, next'⟩ : EFile) with ⟨f1, f2, f3⟩
        rw [kill3_congr (g := e.f) f1 f2 f3] at k3
        have hnk : x2.id ∉ kill3 e.f := by
          rw [h12.1]
          rcases hid1 with hh | hh
          · rw [hh]; exact hi.require_not_killed r hr hlr
          · intro hk
            have := hi.kill3_lt _ hk
            omega
        rcases k3 x2 hx2 hnk with ⟨x3, hx3, h23⟩
        rcases keeps_cleanupStmts _ x3 hx3 (by simp) with ⟨x4, hx4, h34⟩
        have hle' := XLine.le_trans (XLine.le_trans h12 h23) h34
        refine ⟨x4, hx4, by rw [hle'.2.1, e2], e3.trans_sub hle'.2.2.1, ?_⟩
        rw [← e4]; exact hle'.2.2.2

/-- what `setIndirect` does to the end-of-line comments: nothing but the first comment's text changes (the marker
    `// indirect` / `// indirect; ` is added or removed); a comment that is only the marker is dropped -/
theorem sfxAfter_cons (b : Bool) (c : Comment) (rest : List Comment) :
    (∃ tok, sfxAfter b (c :: rest) = { c with token := tok } :: rest) ∨
    (b = false ∧ sfxAfter b (c :: rest) = [] ∧ GoStrings.trimSpace (GoStrings.trimPrefix c.token slashSlash) = B "indirect") := by
  unfold sfxAfter setIndirectLine
  split
  · exact Or.inl ⟨c.token, rfl⟩
  · cases b with
    | true => simp only [if_true]; exact Or.inl ⟨_, rfl⟩
    | false =>
      simp only [Bool.false_eq_true, if_false]
      split
      · rename_i hf
        exact Or.inr ⟨trivial, rfl, eq_of_beq hf⟩
      · exact Or.inl ⟨_, rfl⟩

theorem sfxAfter_nil_eq (b : Bool) : sfxAfter b [] = if b then [{ token := indirectTok, suffix := true }] else [] := by
  cases b <;> rfl

end ModVerif.Modfile.Edit
