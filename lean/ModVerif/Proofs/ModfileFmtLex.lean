/-
  C02 stage 1, part c: `TokOK`, `lex_emits_TokOK` and `relex_one` for `readToken`, and the exact
  description of what `readComment` consumes.
-/
import ModVerif.Proofs.ModfileFmtTok
namespace ModVerif.Proofs.ModfileFmtLex
open ModVerif ModVerif.Modfile ModVerif.Proofs.ModfileLex ModVerif.Proofs.ModfileFmtUtf8
open ModVerif.Proofs.ModfileFmtTok

/-! ### what the lexer emits -/

/-- the punctuation bytes other than newline -/
def punctBytes : List UInt8 := [40, 41, 91, 93, 123, 125, 44]

/-- `TokOK k t`: `t` is the text of a token of kind `k` that can occur in a line: one punctuation byte;
    a closed quoted string without newline; or a non-empty identifier (all runes `isIdent`, no `//` or
    `/*` inside, not starting with a quote). -/
inductive TokOK : TokKind → Bytes → Prop
  | punct (c : UInt8) (hc : c ∈ punctBytes) : TokOK (.punct c) [c]
  | string (q : UInt8) (a : Bytes) (hq : q = 34 ∨ q = 96) (hb : StrBody q.toNat a) : TokOK .string (q :: a)
  | ident (a : Bytes) (hne : a ≠ []) (hb : IdentBody a)
      (hnq : quoteRunes.contains (Utf8.decodeRune a).1 = false) : TokOK .ident a

/-- a comment text: starts with `//` and contains no newline -/
def CommentOK (t : Bytes) : Prop := isPrefixOfB [47, 47] t = true ∧ (10 : UInt8) ∉ t

/-- everything `readToken` can deliver -/
inductive LexOK : TokKind → Bytes → Prop
  | eof : LexOK .eof []
  | newline : LexOK (.punct 10) [10]
  | comment (t : Bytes) (h : CommentOK t) : LexOK .comment t
  | eolComment (t : Bytes) (h : CommentOK t) : LexOK .eolComment t
  | tok (k : TokKind) (t : Bytes) (h : TokOK k t) : LexOK k t

/-! ### blanks -/

def isBlank (b : UInt8) : Bool := b == 32 || b == 9 || b == 13

theorem isBlank_cases {b : UInt8} (h : isBlank b = true) : b = 32 ∨ b = 9 ∨ b = 13 := by
  simpa [isBlank, or_assoc] using h

/-- the rune at the head of a non-empty string whose first byte is not a blank is not a blank -/
theorem peek_not_blank (b : UInt8) (t : Bytes) (hb : isBlank b = false) :
    let c := (Utf8.decodeRune (b :: t)).1
    (c == 32 || c == 9 || c == 13) = false := by
  intro c
  by_cases hlt : b.toNat < 0x80
  · have hc : c = b.toNat := by
      show (Utf8.decodeRune (b :: t)).1 = _
      rw [decodeRune_ascii b t hlt]
    rw [hc]
    simp only [isBlank, Bool.or_eq_false_iff, beq_eq_false_iff_ne, ne_eq] at hb
    obtain ⟨⟨h1, h2⟩, h3⟩ := hb
    have e1 : b.toNat ≠ 32 := fun h => h1 (UInt8.toNat_inj.1 (by simpa using h))
    have e2 : b.toNat ≠ 9 := fun h => h2 (UInt8.toNat_inj.1 (by simpa using h))
    have e3 : b.toNat ≠ 13 := fun h => h3 (UInt8.toNat_inj.1 (by simpa using h))
    simp [e1, e2, e3]
  · have := (decodeRune_nonascii b t (by omega)).1
    have e1 : c ≠ 32 := by show (Utf8.decodeRune (b :: t)).1 ≠ 32; omega
    have e2 : c ≠ 9 := by show (Utf8.decodeRune (b :: t)).1 ≠ 9; omega
    have e3 : c ≠ 13 := by show (Utf8.decodeRune (b :: t)).1 ≠ 13; omega
    simp [e1, e2, e3]

/-- `skipSpaces` consumes exactly a run of blanks that is followed by a non-blank (or the end). -/
theorem skipSpaces_relex : ∀ (ws rest : Bytes), (∀ b ∈ ws, isBlank b = true) →
    (∀ b ∈ rest.head?, isBlank b = false) → ∀ (fuel : Nat) (i : Input), i.remaining = ws ++ rest →
    ws.length < fuel → ∃ i', skipSpaces fuel i = .ok i' ∧ Adv i i' ws := by
  intro ws
  induction ws with
  | nil =>
    intro rest _ hrest fuel i hi hf
    obtain ⟨n, rfl⟩ : ∃ n, fuel = n + 1 := ⟨fuel - 1, by omega⟩
    unfold skipSpaces
    cases he : i.eof with
    | true => exact ⟨i, by simp, Adv.refl _⟩
    | false =>
      simp only [Bool.false_eq_true, if_false]
      have hne := (eof_false_iff i).1 he
      simp only [List.nil_append] at hi
      cases hr : rest with
      | nil => rw [hi, hr] at hne; exact absurd rfl hne
      | cons b t =>
        have hb : isBlank b = false := hrest b (by rw [hr]; simp)
        have := peek_not_blank b t hb
        rw [peekRune_eq hne, hi, hr]
        simp only at this
        simp only [this, Bool.false_eq_true, if_false]
        exact ⟨i, rfl, Adv.refl _⟩
  | cons b ws ih =>
    intro rest hws hrest fuel i hi hf
    obtain ⟨n, rfl⟩ : ∃ n, fuel = n + 1 := ⟨fuel - 1, by omega⟩
    have hb := isBlank_cases (hws b (by simp))
    have hlt : b.toNat < 0x80 := by rcases hb with h | h | h <;> subst h <;> decide
    have hne : i.remaining ≠ [] := by rw [hi]; simp
    have hdec : Utf8.decodeRune i.remaining = (b.toNat, 1) := by
      rw [hi]; exact decodeRune_ascii b _ hlt
    obtain ⟨i1, hr1, hadv1, hrem1⟩ := readRune_adv i hne
    rw [hdec] at hr1 hadv1 hrem1
    have hrem1' : i1.remaining = ws ++ rest := by rw [hrem1, hi]; rfl
    have htake : i.remaining.take 1 = [b] := by rw [hi]; rfl
    obtain ⟨i', hr', hadv'⟩ := ih rest (fun c hc => hws c (by simp [hc])) hrest n i1 hrem1' (by simp at hf; omega)
    unfold skipSpaces
    have he : i.eof = false := (eof_false_iff i).2 hne
    have hc : (i.peekRune == 32 || i.peekRune == 9 || i.peekRune == 13) = true := by
      rw [peekRune_eq hne, hdec]
      rcases hb with h | h | h <;> subst h <;> decide
    simp only [he, Bool.false_eq_true, if_false, hc, if_true, hr1, bind, Except.bind, hr']
    refine ⟨i', rfl, ?_⟩
    have := hadv1.trans hadv'
    rwa [htake] at this

/-! ### comments -/

/-- the bytes `consumeLine` consumes: up to and including the first newline, or everything -/
def lineOf : Bytes → Bytes
  | [] => []
  | b :: t => if b = 10 then [10] else b :: lineOf t

theorem lineOf_append (x y : Bytes) (hx : (10 : UInt8) ∉ x) : lineOf (x ++ y) = x ++ lineOf y := by
  induction x with
  | nil => rfl
  | cons b t ih =>
    have hb : b ≠ 10 := fun h => hx (by simp [h])
    simp only [List.cons_append, lineOf, hb, if_false]
    rw [ih (fun h => hx (by simp [h]))]

theorem lineOf_length_le (s : Bytes) : (lineOf s).length ≤ s.length := by
  induction s with
  | nil => simp [lineOf]
  | cons b t ih =>
    simp only [lineOf]
    split <;> simp <;> omega

/-- `consumeLine` consumes exactly `lineOf` of the input. -/
theorem consumeLine_char : ∀ (fuel : Nat) (i : Input), i.remaining.length < fuel →
    ∃ i', consumeLine fuel i = .ok i' ∧ Adv i i' (lineOf i.remaining) := by
  intro fuel
  induction fuel with
  | zero => intro i h; omega
  | succ n ih =>
    intro i h
    unfold consumeLine
    cases he : i.eof with
    | true =>
      have : i.remaining = [] := by
        unfold Input.eof at he
        cases hr : i.remaining with
        | nil => rfl
        | cons _ _ => rw [hr] at he; cases he
      refine ⟨i, by simp, ?_⟩
      rw [this]; exact Adv.refl _
    | false =>
      simp only [Bool.false_eq_true, if_false]
      have hne := (eof_false_iff i).1 he
      obtain ⟨i1, hr1, hadv1, hrem1⟩ := readRune_adv i hne
      simp only [hr1, bind, Except.bind]
      obtain ⟨b, t, hbt⟩ : ∃ b t, i.remaining = b :: t := by
        cases hr : i.remaining with
        | nil => exact absurd hr hne
        | cons b t => exact ⟨b, t, rfl⟩
      have hnl := decodeRune_newline b t
      rw [← hbt] at hnl
      by_cases h10 : (Utf8.decodeRune i.remaining).1 = 10
      · obtain ⟨hb, hw⟩ := hnl.1 h10
        simp only [h10, beq_self_eq_true, if_true]
        refine ⟨i1, rfl, ?_⟩
        have : lineOf i.remaining = i.remaining.take (Utf8.decodeRune i.remaining).2 := by
          rw [hw, hbt, hb]; rfl
        rw [this]; exact hadv1
      · have : ((Utf8.decodeRune i.remaining).1 == 10) = false := by simpa using h10
        simp only [this, Bool.false_eq_true, if_false]
        have hw := decodeRune_width i.remaining hne
        obtain ⟨i', hr', hadv'⟩ := ih i1 (by rw [hrem1]; simp only [List.length_drop]; omega)
        refine ⟨i', hr', ?_⟩
        have hl : lineOf i.remaining = i.remaining.take (Utf8.decodeRune i.remaining).2 ++ lineOf i1.remaining := by
          rw [hrem1, ← lineOf_append _ _ (fun hh => hnl.2 h10 10 hh rfl), List.take_append_drop]
        rw [hl]
        exact hadv1.trans hadv'

/-- remove one trailing LF or CRLF (what `endToken` does to comment tokens) -/
def stripRev : Bytes → Bytes
  | 10 :: 13 :: r => r
  | 10 :: r => r
  | r => r

def stripEOL (s : Bytes) : Bytes := (stripRev s.reverse).reverse

theorem peekPrefix_slashes {i : Input} (hp : i.peekPrefix [47, 47] = true) : ∃ t, i.remaining = 47 :: 47 :: t := by
  unfold Input.peekPrefix at hp
  cases hr : i.remaining with
  | nil => rw [hr] at hp; simp [isPrefixOfB] at hp
  | cons a r1 =>
    rw [hr] at hp
    cases r1 with
    | nil => simp [isPrefixOfB] at hp
    | cons b r2 =>
      simp [isPrefixOfB] at hp
      exact ⟨r2, by rw [← hp.1, ← hp.2]⟩

/-- Exact description of `readComment` (entered when the input starts with `//`): it consumes the rest
    of the line including the newline; the token text is that line without its LF / CRLF; the comment is
    an end-of-line comment iff something other than white space precedes it on its line, and only then
    it is recorded in `commentsRev`. -/
theorem readComment_char (i : Input) (hp : i.peekPrefix [47, 47] = true) :
    ∃ i', readComment i = .ok i' ∧
      i.remaining = lineOf i.remaining ++ i'.remaining ∧
      i'.consumedRev = (lineOf i.remaining).reverse ++ i.consumedRev ∧
      i'.nextId = i.nextId ∧
      i'.token.text = stripEOL (lineOf i.remaining) ∧
      (let suffix := !(GoStrings.trimSpace (i.consumedRev.takeWhile (· != 10)).reverse).isEmpty
       i'.token.kind = (if suffix then TokKind.eolComment else TokKind.comment) ∧
       i'.commentsRev = if suffix then
           ({ start := i'.token.pos, token := i'.token.text, suffix := true } : Comment) :: i.commentsRev
         else i.commentsRev) := by
  obtain ⟨t, ht⟩ := peekPrefix_slashes hp
  unfold readComment
  have hne0 : (startToken i).remaining ≠ [] := by simp [ht]
  obtain ⟨i1, hr1, hadv1, hrem1⟩ := readRune_adv (startToken i) hne0
  have hdec0 : Utf8.decodeRune (startToken i).remaining = (47, 1) := by
    rw [startToken_remaining, ht]; exact decodeRune_ascii 47 _ (by decide)
  rw [hdec0] at hr1 hadv1 hrem1
  have hrem1' : i1.remaining = 47 :: t := by rw [hrem1, startToken_remaining, ht]; rfl
  have hne1 : i1.remaining ≠ [] := by rw [hrem1']; simp
  obtain ⟨i2, hr2, hadv2, hrem2⟩ := readRune_adv i1 hne1
  have hdec1 : Utf8.decodeRune i1.remaining = (47, 1) := by
    rw [hrem1']; exact decodeRune_ascii 47 _ (by decide)
  rw [hdec1] at hr2 hadv2 hrem2
  have hrem2' : i2.remaining = t := by rw [hrem2, hrem1']; rfl
  obtain ⟨i3, hr3, hadv3⟩ := consumeLine_char (i2.remaining.length + 1) i2 (by omega)
  have hadv := (hadv1.trans hadv2).trans hadv3
  have hbytes : (startToken i).remaining.take 1 ++ i1.remaining.take 1 ++ lineOf i2.remaining = lineOf i.remaining := by
    rw [startToken_remaining, ht, hrem1', hrem2']
    simp [lineOf]
  rw [hbytes] at hadv
  have htok : i3.tokRev = (lineOf i.remaining).reverse := by
    have := hadv.tok
    simpa [startToken] using this
  simp only [hr1, hr2, hr3, bind, Except.bind]
  have hrem : i.remaining = lineOf i.remaining ++ i3.remaining := by
    have := hadv.rem; simpa using this
  have hcons : i3.consumedRev = (lineOf i.remaining).reverse ++ i.consumedRev := by
    have := hadv.cons; simpa [startToken] using this
  have hnext : i3.nextId = i.nextId := by
    have := hadv.nextId; simpa using this
  have hcomm : i3.commentsRev = i.commentsRev := by
    have := hadv.comments; simpa using this
  have htext : ∀ k : TokKind, k.isComment = true → (endToken k i3).token.text = stripEOL (lineOf i.remaining) := by
    intro k hk
    simp only [endToken, hk, if_true, htok, stripEOL]
    rfl
  have hsc : (startToken i).consumedRev = i.consumedRev := rfl
  cases hs : (!(GoStrings.trimSpace (List.takeWhile (fun x => x != 10) i.consumedRev).reverse).isEmpty) with
  | false =>
    simp only [hsc, hs, Bool.not_false, if_true, Bool.false_eq_true, if_false]
    exact ⟨_, rfl, hrem, hcons, hnext, htext .comment rfl, rfl, hcomm⟩
  | true =>
    simp only [hsc, hs, Bool.not_true, Bool.false_eq_true, if_false, if_true]
    refine ⟨_, rfl, hrem, hcons, hnext, htext .eolComment rfl, rfl, ?_⟩
    show _ :: i3.commentsRev = _
    rw [hcomm]

theorem lineOf_no_newline_strip (s : Bytes) : (10 : UInt8) ∉ stripEOL (lineOf s) := by
  -- `lineOf s` is a newline-free string, optionally followed by one newline
  have key : ∀ s : Bytes, ∃ body, (10 : UInt8) ∉ body ∧ (lineOf s = body ∨ lineOf s = body ++ [10]) := by
    intro s
    induction s with
    | nil => exact ⟨[], by simp, Or.inl rfl⟩
    | cons b t ih =>
      simp only [lineOf]
      split
      · exact ⟨[], by simp, Or.inr rfl⟩
      · rename_i hb
        obtain ⟨body, hbody, h⟩ := ih
        refine ⟨b :: body, ?_, ?_⟩
        · simp only [List.mem_cons, not_or]
          exact ⟨fun h => hb h.symm, hbody⟩
        · rcases h with h | h
          · exact Or.inl (by rw [h])
          · exact Or.inr (by rw [h]; rfl)
  obtain ⟨body, hbody, h⟩ := key s
  have hrev : (10 : UInt8) ∉ body.reverse := by simpa using hbody
  rcases h with h | h
  · rw [h]
    unfold stripEOL stripRev
    split
    · rename_i r heq; rw [heq] at hrev; simp at hrev
    · rename_i r heq; rw [heq] at hrev; simp at hrev
    · simpa using hbody
  · rw [h]
    unfold stripEOL stripRev
    have hr : (body ++ [10]).reverse = 10 :: body.reverse := by simp
    rw [hr]
    split
    · rename_i r heq
      simp only [List.cons.injEq, true_and] at heq
      intro hmem
      apply hrev
      rw [heq]
      simp only [List.mem_reverse] at hmem
      simp [hmem]
    · rename_i r _ heq
      simp only [List.cons.injEq, true_and] at heq
      intro hmem
      apply hrev
      rw [heq]
      simpa using hmem
    · rename_i h1 h2
      exact absurd rfl (h2 body.reverse)

/-! ### facts about `TokOK` texts -/

theorem isIdent_not_punct {c : Nat} (h : isIdent c = true) : isPunct c = false := by
  cases hp : isPunct c with
  | false => rfl
  | true =>
    exfalso
    have : c = 10 ∨ c = 40 ∨ c = 41 ∨ c = 91 ∨ c = 93 ∨ c = 123 ∨ c = 125 ∨ c = 44 := by
      simpa [isPunct, punctRunes] using hp
    rcases this with h' | h' | h' | h' | h' | h' | h' | h' <;> subst h' <;> revert h <;> decide

theorem punctBytes_cases {c : UInt8} (h : c ∈ punctBytes) :
    c = 40 ∨ c = 41 ∨ c = 91 ∨ c = 93 ∨ c = 123 ∨ c = 125 ∨ c = 44 := by
  simpa [punctBytes] using h

theorem TokOK.ne_nil {k : TokKind} {t : Bytes} (h : TokOK k t) : t ≠ [] := by
  cases h <;> simp_all

/-- a token never starts with a blank -/
theorem TokOK.head_not_blank {k : TokKind} {t : Bytes} (h : TokOK k t) : ∀ b ∈ t.head?, isBlank b = false := by
  cases h with
  | punct c hc =>
    intro b hb; simp at hb; subst hb
    rcases punctBytes_cases hc with h | h | h | h | h | h | h <;> subst h <;> decide
  | string q a hq hb =>
    intro b hb; simp at hb; subst hb
    rcases hq with h | h <;> subst h <;> decide
  | ident _ hne hbody hnq =>
    intro b hb
    cases t with
    | nil => exact absurd rfl hne
    | cons c t' =>
      simp at hb; subst hb
      cases hbl : isBlank c with
      | false => rfl
      | true =>
        exfalso
        cases hbody with
        | cons _ hid _ _ _ =>
          have hc := isBlank_cases hbl
          have hlt : c.toNat < 0x80 := by rcases hc with h | h | h <;> subst h <;> decide
          rw [decodeRune_ascii c t' hlt] at hid
          rcases hc with h | h | h <;> subst h <;> revert hid <;> decide

/-- a token in front of a delimiter does not look like the start of a comment -/
theorem TokOK.no_comment_start {k : TokKind} {t : Bytes} (h : TokOK k t) (rest : Bytes)
    (hrest : DelimStart rest ∨ ∃ c, k = .punct c) :
    isPrefixOfB [47, 47] (t ++ rest) = false ∧ isPrefixOfB [47, 42] (t ++ rest) = false := by
  cases h with
  | punct c hc =>
    rcases punctBytes_cases hc with h | h | h | h | h | h | h <;> subst h <;> simp [isPrefixOfB]
  | string q a hq hb =>
    rcases hq with h | h <;> subst h <;> simp [isPrefixOfB]
  | ident _ hne hb hnq =>
    have hd : DelimStart rest := by
      rcases hrest with h | ⟨c, h⟩
      · exact h
      · cases h
    cases hb with
    | nil => exact absurd rfl hne
    | cons _ _ h1 h2 _ =>
      constructor
      · cases hh : isPrefixOfB [47, 47] (t ++ rest) with
        | false => rfl
        | true =>
          rcases isPrefixOfB_two_append hne hh with h | ⟨_, h⟩
          · rw [h] at h1; cases h1
          · exact absurd h (hd.head_ne (by decide))
      · cases hh : isPrefixOfB [47, 42] (t ++ rest) with
        | false => rfl
        | true =>
          rcases isPrefixOfB_two_append hne hh with h | ⟨_, h⟩
          · rw [h] at h2; cases h2
          · exact absurd h (hd.head_ne (by decide))

/-! ### relex_one -/

/-- ★ `relex_one`: a `TokOK` token, preceded by blanks and followed by a delimiter (end of input, blank,
    newline or punctuation; no condition after a punctuation token), is lexed by `readToken` as itself:
    same kind, same text, and exactly the token and the blanks are consumed. -/
theorem relex_one {k : TokKind} {t : Bytes} (hk : TokOK k t) (ws rest : Bytes)
    (hws : ∀ b ∈ ws, isBlank b = true) (hrest : DelimStart rest ∨ ∃ c, k = .punct c)
    (i : Input) (hi : i.remaining = ws ++ (t ++ rest)) :
    ∃ i', readToken i = .ok i' ∧ i'.token.kind = k ∧ i'.token.text = t ∧ i'.remaining = rest ∧
      i'.consumedRev = (ws ++ t).reverse ++ i.consumedRev ∧
      i'.commentsRev = i.commentsRev ∧ i'.nextId = i.nextId := by
  have htne := hk.ne_nil
  have hhead : ∀ b ∈ (t ++ rest).head?, isBlank b = false := by
    intro b hb
    apply hk.head_not_blank b
    cases t with
    | nil => exact absurd rfl htne
    | cons c t' => simpa using hb
  obtain ⟨i0, hs0, hadv0⟩ := skipSpaces_relex ws (t ++ rest) hws hhead (i.remaining.length + 1) i hi
    (by rw [hi]; simp only [List.length_append]; omega)
  have hrem0 : i0.remaining = t ++ rest := hadv0.rem_of hi
  have hne0 : i0.remaining ≠ [] := by rw [hrem0]; simp [htne]
  have heof0 : i0.eof = false := (eof_false_iff i0).2 hne0
  obtain ⟨hc1, hc2⟩ := hk.no_comment_start rest hrest
  unfold readToken
  simp only [hs0, bind, Except.bind, heof0, Input.peekPrefix, hrem0, hc1, hc2, Bool.not_false, Bool.and_false,
    Bool.false_eq_true, if_false]
  have hj : (startToken i0).remaining = t ++ rest := hrem0
  have hjeof : (startToken i0).eof = false := heof0
  simp only [hjeof, Bool.false_eq_true, if_false]
  have hfin : ∀ (i2 : Input) (k' : TokKind), k'.isComment = false → Adv (startToken i0) i2 t →
      (endToken k' i2).token.kind = k' ∧ (endToken k' i2).token.text = t ∧ (endToken k' i2).remaining = rest ∧
      (endToken k' i2).consumedRev = (ws ++ t).reverse ++ i.consumedRev ∧
      (endToken k' i2).commentsRev = i.commentsRev ∧ (endToken k' i2).nextId = i.nextId := by
    intro i2 k' hk' hadv
    refine ⟨rfl, ?_, ?_, ?_, ?_, ?_⟩
    · have := hadv.tok
      simp only [endToken, hk', Bool.false_eq_true, if_false, this]
      simp [startToken]
    · exact hadv.rem_of hj
    · show i2.consumedRev = _
      rw [hadv.cons]
      show t.reverse ++ i0.consumedRev = _
      rw [hadv0.cons]; simp
    · show i2.commentsRev = _
      rw [hadv.comments]
      show i0.commentsRev = _
      exact hadv0.comments
    · show i2.nextId = _
      rw [hadv.nextId]
      show i0.nextId = _
      exact hadv0.nextId
  cases hk with
  | punct c hc =>
    have hlt : c.toNat < 0x80 := by
      rcases punctBytes_cases hc with h | h | h | h | h | h | h <;> subst h <;> decide
    have hne : (startToken i0).remaining ≠ [] := by rw [hj]; simp
    have hdec : Utf8.decodeRune (startToken i0).remaining = (c.toNat, 1) := by
      rw [hj]; exact decodeRune_ascii c _ hlt
    have hpk : (startToken i0).peekRune = c.toNat := by rw [peekRune_eq hne, hdec]
    have hpunct : isPunct c.toNat = true := by
      rcases punctBytes_cases hc with h | h | h | h | h | h | h <;> subst h <;> decide
    obtain ⟨i1, hr1, hadv1, _⟩ := readRune_adv (startToken i0) hne
    rw [hdec] at hr1 hadv1
    have : (startToken i0).remaining.take 1 = [c] := by rw [hj]; rfl
    simp only [this] at hadv1
    simp only [hpk, hpunct, if_true, hr1]
    have hkk : TokKind.punct (UInt8.ofNat c.toNat) = TokKind.punct c := by simp
    rw [hkk]
    exact ⟨_, rfl, hfin i1 (.punct c) rfl hadv1⟩
  | string q a hq hb =>
    have hlt : q.toNat < 0x80 := by rcases hq with h | h <;> subst h <;> decide
    have hne : (startToken i0).remaining ≠ [] := by rw [hj]; simp
    have hdec : Utf8.decodeRune (startToken i0).remaining = (q.toNat, 1) := by
      rw [hj]; exact decodeRune_ascii q _ hlt
    have hpk : (startToken i0).peekRune = q.toNat := by rw [peekRune_eq hne, hdec]
    have hpunct : isPunct q.toNat = false := by rcases hq with h | h <;> subst h <;> decide
    have hquote : quoteRunes.contains q.toNat = true := by rcases hq with h | h <;> subst h <;> decide
    obtain ⟨i1, hr1, hadv1, hrem1⟩ := readRune_adv (startToken i0) hne
    rw [hdec] at hr1 hadv1 hrem1
    have : (startToken i0).remaining.take 1 = [q] := by rw [hj]; rfl
    simp only [this] at hadv1
    have hrem1' : i1.remaining = a ++ rest := by rw [hrem1, hj]; rfl
    have hd : AsciiStart rest := by
      rcases hrest with h | ⟨c, h⟩
      · exact h.ascii
      · cases h
    obtain ⟨i2, hr2, hadv2⟩ := readString_relex hb rest hd (i1.remaining.length + 1) i1 hrem1'
      (by rw [hrem1']; simp only [List.length_append]; omega)
    simp only [hpk, hpunct, Bool.false_eq_true, if_false, hquote, if_true, hr1, hr2]
    exact ⟨_, rfl, hfin i2 .string rfl (hadv1.trans hadv2)⟩
  | ident _ hne hb hnq =>
    have hd : DelimStart rest := by
      rcases hrest with h | ⟨c, h⟩
      · exact h
      · cases h
    have hrne : (startToken i0).remaining ≠ [] := by rw [hj]; simp [hne]
    have hdec : Utf8.decodeRune (startToken i0).remaining = Utf8.decodeRune t := by
      rw [hj]; exact decodeRune_append t rest hne hd.ascii
    have hpk : (startToken i0).peekRune = (Utf8.decodeRune t).1 := by rw [peekRune_eq hrne, hdec]
    have hid : isIdent (Utf8.decodeRune t).1 = true := by
      cases hb with
      | nil => exact absurd rfl hne
      | cons _ hid _ _ _ => exact hid
    obtain ⟨i2, hr2, hadv2⟩ := readIdent_relex hb rest hd ((startToken i0).remaining.length + 1) (startToken i0) hj
      (by rw [hj]; simp only [List.length_append]; omega)
    simp only [hpk, isIdent_not_punct hid, Bool.false_eq_true, if_false, hnq, hid, Bool.not_true, hr2]
    exact ⟨_, rfl, hfin i2 .ident rfl hadv2⟩

/-! ### lex_emits -/

theorem stripRev_append (r : Bytes) (a b : UInt8) (hb : b ≠ 10 ∧ b ≠ 13) :
    stripRev (r ++ [b, a]) = stripRev r ++ [b, a] := by
  match r with
  | [] =>
    have h1 : b ≠ 10 := hb.1
    simp [stripRev]
    split <;> simp_all
  | [x] =>
    by_cases hx : x = 10
    · subst hx
      simp [stripRev]
      split <;> simp_all
    · simp [stripRev]
      split <;> simp_all
  | x :: y :: r' =>
    by_cases hx : x = 10
    · subst hx
      by_cases hy : y = 13
      · subst hy; simp [stripRev]
      · have e1 : stripRev (10 :: y :: r' ++ [b, a]) = y :: r' ++ [b, a] := by
          show stripRev (10 :: y :: (r' ++ [b, a])) = _
          unfold stripRev
          split
          · rename_i heq; simp only [List.cons.injEq, true_and] at heq; exact absurd heq.1 hy
          · rename_i heq; simp only [List.cons.injEq, true_and] at heq; rw [← heq]; rfl
          · rename_i h1 h2; exact absurd rfl (h2 _)
        have e2 : stripRev (10 :: y :: r') = y :: r' := by
          unfold stripRev
          split
          · rename_i heq; simp only [List.cons.injEq, true_and] at heq; exact absurd heq.1 hy
          · rename_i heq; simp only [List.cons.injEq, true_and] at heq; rw [← heq]
          · rename_i h1 h2; exact absurd rfl (h2 _)
        rw [e1, e2]
    · have e1 : ∀ l, stripRev (x :: l) = x :: l := by
        intro l
        unfold stripRev
        split
        · rename_i heq; simp only [List.cons.injEq] at heq; exact absurd heq.1 hx
        · rename_i heq; simp only [List.cons.injEq] at heq; exact absurd heq.1 hx
        · rfl
      show stripRev (x :: (y :: r' ++ [b, a])) = _
      rw [e1, e1]; rfl

theorem stripEOL_cons_cons (a b : UInt8) (l : Bytes) (hb : b ≠ 10 ∧ b ≠ 13) :
    stripEOL (a :: b :: l) = a :: b :: stripEOL l := by
  unfold stripEOL
  have hrev : (a :: b :: l).reverse = l.reverse ++ [b, a] := by simp
  rw [hrev, stripRev_append _ _ _ hb]
  simp

theorem lineOf_slashes (t : Bytes) : lineOf (47 :: 47 :: t) = 47 :: 47 :: lineOf t := by
  simp [lineOf]

/-- the text of a comment token -/
theorem commentOK_of_slashes (t : Bytes) : CommentOK (stripEOL (lineOf (47 :: 47 :: t))) := by
  refine ⟨?_, lineOf_no_newline_strip _⟩
  rw [lineOf_slashes, stripEOL_cons_cons 47 47 _ (by decide)]
  simp [isPrefixOfB]

/-- an ASCII rune at the head comes from a one-byte sequence -/
theorem ascii_rune_head {s : Bytes} (hs : s ≠ []) (hc : (Utf8.decodeRune s).1 < 0x80) :
    ∃ b t, s = b :: t ∧ b.toNat = (Utf8.decodeRune s).1 ∧ (Utf8.decodeRune s).2 = 1 := by
  cases s with
  | nil => exact absurd rfl hs
  | cons b t =>
    by_cases hb : b.toNat < 0x80
    · refine ⟨b, t, rfl, ?_, ?_⟩ <;> rw [decodeRune_ascii b t hb]
    · have := (decodeRune_nonascii b t (by omega)).1
      omega

theorem skipSpaces_emits : ∀ (fuel : Nat) (i i' : Input), skipSpaces fuel i = .ok i' →
    ∃ ws, (∀ b ∈ ws, isBlank b = true) ∧ Adv i i' ws := by
  intro fuel
  induction fuel with
  | zero => intro i i' h; simp [skipSpaces] at h
  | succ n ih =>
    intro i i' h
    unfold skipSpaces at h
    split at h
    · cases h; exact ⟨[], by simp, Adv.refl _⟩
    · rename_i heof
      simp only at h
      split at h
      · rename_i hc
        have hne : i.remaining ≠ [] := (eof_false_iff i).1 (by simpa using heof)
        obtain ⟨i1, hr1, hadv1, _⟩ := readRune_adv i hne
        simp only [hr1, bind, Except.bind] at h
        obtain ⟨ws, hws, hadv⟩ := ih i1 i' h
        -- the rune read is an ASCII blank
        rw [peekRune_eq hne] at hc
        have hc' : (Utf8.decodeRune i.remaining).1 = 32 ∨ (Utf8.decodeRune i.remaining).1 = 9 ∨
            (Utf8.decodeRune i.remaining).1 = 13 := by
          simpa [or_assoc] using hc
        have hlt : (Utf8.decodeRune i.remaining).1 < 0x80 := by
          rcases hc' with h | h | h <;> rw [h] <;> decide
        obtain ⟨b, t, hbt, hb, hw⟩ := ascii_rune_head hne hlt
        have htake : i.remaining.take (Utf8.decodeRune i.remaining).2 = [b] := by rw [hw, hbt]; rfl
        rw [htake] at hadv1
        refine ⟨b :: ws, ?_, hadv1.trans hadv⟩
        intro x hx
        rcases List.mem_cons.1 hx with rfl | hx
        · rw [← hb] at hc'
          simp only [isBlank, Bool.or_eq_true, beq_iff_eq]
          rcases hc' with h | h | h
          · exact Or.inl (Or.inl (UInt8.toNat_inj.1 (by simpa using h)))
          · exact Or.inl (Or.inr (UInt8.toNat_inj.1 (by simpa using h)))
          · exact Or.inr (UInt8.toNat_inj.1 (by simpa using h))
        · exact hws x hx
      · cases h; exact ⟨[], by simp, Adv.refl _⟩

theorem isIdent_not_space {r : Nat} (h : isIdent r = true) : UnicodePrint.isSpace r = false := by
  unfold isIdent at h
  split at h
  · cases h
  · simp only [Bool.and_eq_true, Bool.not_eq_true'] at h
    exact h.1

/-- What one `readToken` call delivers and consumes, relative to the state `i0` after the leading
    blanks: the end of the input; a comment line; a newline; or a `TokOK` line token, whose first rune
    (decoded in the source context) is not white space and lies inside the token. -/
inductive Emit (i0 i : Input) : Prop
  | eof (hk : i.token.kind = .eof) (ht : i.token.text = []) (hrem : i0.remaining = [])
      (hc : i.consumedRev = i0.consumedRev) (hr : i.remaining = []) (hcm : i.commentsRev = i0.commentsRev) : Emit i0 i
  | comment (hp : i0.peekPrefix [47, 47] = true) (hrem : i0.remaining = lineOf i0.remaining ++ i.remaining)
      (hc : i.consumedRev = (lineOf i0.remaining).reverse ++ i0.consumedRev)
      (hk : i.token.kind =
        (if !(GoStrings.trimSpace (i0.consumedRev.takeWhile (· != 10)).reverse).isEmpty
         then TokKind.eolComment else TokKind.comment))
      (hcm : i.token.kind = .comment → i.commentsRev = i0.commentsRev)
      (hcm2 : i.token.kind = .eolComment → ∃ c : Comment, c.suffix = true ∧ i.commentsRev = c :: i0.commentsRev)
      (ht : CommentOK i.token.text) : Emit i0 i
  | newline (hk : i.token.kind = .punct 10) (ht : i.token.text = [10]) (hrem : i0.remaining = 10 :: i.remaining)
      (hc : i.consumedRev = 10 :: i0.consumedRev) (hcm : i.commentsRev = i0.commentsRev) : Emit i0 i
  | tok (t : Bytes) (hk : TokOK i.token.kind t) (ht : i.token.text = t) (hrem : i0.remaining = t ++ i.remaining)
      (hc : i.consumedRev = t.reverse ++ i0.consumedRev) (hcm : i.commentsRev = i0.commentsRev)
      (hfirst : UnicodePrint.isSpace (Utf8.decodeRune i0.remaining).1 = false)
      (hwidth : (Utf8.decodeRune i0.remaining).2 ≤ t.length) : Emit i0 i

/-- ★ `readToken_emits`: every successful `readToken` call skips blanks and then delivers one of the
    four `Emit` shapes. -/
theorem readToken_emits (j i' : Input) (h : readToken j = .ok i') :
    ∃ ws i0, (∀ b ∈ ws, isBlank b = true) ∧ Adv j i0 ws ∧ Emit i0 i' := by
  unfold readToken at h
  cases h0 : skipSpaces (j.remaining.length + 1) j with
  | error e => simp [h0, bind, Except.bind] at h
  | ok i0 =>
    obtain ⟨ws, hws, hadv0⟩ := skipSpaces_emits _ _ _ h0
    refine ⟨ws, i0, hws, hadv0, ?_⟩
    simp only [h0, bind, Except.bind] at h
    split at h
    · -- comment
      rename_i hc
      simp only [Bool.and_eq_true] at hc
      obtain ⟨i'', hr, hrem, hcons, _, htext, hkind, hcomm⟩ := readComment_char i0 hc.2
      rw [hr] at h
      have : i'' = i' := by cases h; rfl
      subst this
      obtain ⟨t, ht⟩ := peekPrefix_slashes hc.2
      have hok := commentOK_of_slashes t
      rw [← ht, ← htext] at hok
      refine .comment hc.2 hrem hcons hkind ?_ ?_ hok
      · intro hk
        rw [hkind] at hk
        split at hk
        · cases hk
        · rename_i hs
          simp only [hs, Bool.false_eq_true, if_false] at hcomm
          exact hcomm
      · intro hk
        rw [hkind] at hk
        split at hk
        · rename_i hs
          simp only [hs, if_true] at hcomm
          exact ⟨_, rfl, hcomm⟩
        · cases hk
    · split at h
      · cases h
      · rename_i hnc1 hnc2
        generalize hj : startToken i0 = j0 at h
        have hjrem : j0.remaining = i0.remaining := by rw [← hj]; rfl
        have hjcons : j0.consumedRev = i0.consumedRev := by rw [← hj]; rfl
        have hjcomm : j0.commentsRev = i0.commentsRev := by rw [← hj]; rfl
        have hjtok : j0.tokRev = [] := by rw [← hj]; rfl
        split at h
        · -- end of input
          rename_i heof
          have : i' = endToken .eof j0 := by cases h; rfl
          subst this
          have hr : j0.remaining = [] := by
            have : j0.eof = true := heof
            unfold Input.eof at this
            cases hh : j0.remaining with
            | nil => rfl
            | cons _ _ => rw [hh] at this; cases this
          have ht : (endToken TokKind.eof j0).token.text = [] := by
            simp only [endToken, TokKind.isComment, Bool.false_eq_true, if_false, hjtok]; rfl
          exact .eof rfl ht (by rw [← hjrem]; exact hr) hjcons hr hjcomm
        · rename_i heof
          have hne : j0.remaining ≠ [] := (eof_false_iff _).1 (by simpa using heof)
          have hpk := peekRune_eq hne
          have hfin : ∀ (i2 : Input) (k : TokKind) (a : Bytes), k.isComment = false → Adv j0 i2 a →
              (endToken k i2).token.text = a ∧ i0.remaining = a ++ (endToken k i2).remaining ∧
              (endToken k i2).consumedRev = a.reverse ++ i0.consumedRev ∧
              (endToken k i2).commentsRev = i0.commentsRev := by
            intro i2 k a hk hadv
            refine ⟨?_, by rw [← hjrem]; exact hadv.rem, by rw [← hjcons]; exact hadv.cons,
              by rw [← hjcomm]; exact hadv.comments⟩
            have := hadv.tok
            simp only [endToken, hk, Bool.false_eq_true, if_false, this, hjtok]
            simp
          split at h
          · -- punctuation
            rename_i hp
            obtain ⟨i1, hr1, hadv1, _⟩ := readRune_adv j0 hne
            rw [hpk] at h hp
            simp only [hr1] at h
            have hi' : i' = endToken (.punct (UInt8.ofNat (Utf8.decodeRune j0.remaining).1)) i1 := by
              cases h; rfl
            have hcs : (Utf8.decodeRune j0.remaining).1 = 10 ∨ (Utf8.decodeRune j0.remaining).1 = 40 ∨
                (Utf8.decodeRune j0.remaining).1 = 41 ∨ (Utf8.decodeRune j0.remaining).1 = 91 ∨
                (Utf8.decodeRune j0.remaining).1 = 93 ∨ (Utf8.decodeRune j0.remaining).1 = 123 ∨
                (Utf8.decodeRune j0.remaining).1 = 125 ∨ (Utf8.decodeRune j0.remaining).1 = 44 := by
              simpa [isPunct, punctRunes] using hp
            have hlt : (Utf8.decodeRune j0.remaining).1 < 0x80 := by
              rcases hcs with h | h | h | h | h | h | h | h <;> rw [h] <;> decide
            obtain ⟨b, t, hbt, hb, hw⟩ := ascii_rune_head hne hlt
            have htake : j0.remaining.take (Utf8.decodeRune j0.remaining).2 = [b] := by
              rw [hw, hbt]; rfl
            rw [htake] at hadv1
            obtain ⟨htext, hrem, hcons, hcomm⟩ := hfin i1 (.punct (UInt8.ofNat (Utf8.decodeRune j0.remaining).1)) [b] rfl hadv1
            rw [← hi'] at htext hrem hcons hcomm
            have hkind : i'.token.kind = .punct b := by
              rw [hi']
              show TokKind.punct _ = _
              rw [← hb]; simp
            rw [← hb] at hcs
            have hb' : b = 10 ∨ b = 40 ∨ b = 41 ∨ b = 91 ∨ b = 93 ∨ b = 123 ∨ b = 125 ∨ b = 44 := by
              rcases hcs with h | h | h | h | h | h | h | h
              · exact Or.inl (UInt8.toNat_inj.1 (by simpa using h))
              · exact Or.inr (Or.inl (UInt8.toNat_inj.1 (by simpa using h)))
              · exact Or.inr (Or.inr (Or.inl (UInt8.toNat_inj.1 (by simpa using h))))
              · exact Or.inr (Or.inr (Or.inr (Or.inl (UInt8.toNat_inj.1 (by simpa using h)))))
              · exact Or.inr (Or.inr (Or.inr (Or.inr (Or.inl (UInt8.toNat_inj.1 (by simpa using h))))))
              · exact Or.inr (Or.inr (Or.inr (Or.inr (Or.inr (Or.inl (UInt8.toNat_inj.1 (by simpa using h)))))))
              · exact Or.inr (Or.inr (Or.inr (Or.inr (Or.inr (Or.inr (Or.inl (UInt8.toNat_inj.1 (by simpa using h))))))))
              · exact Or.inr (Or.inr (Or.inr (Or.inr (Or.inr (Or.inr (Or.inr (UInt8.toNat_inj.1 (by simpa using h))))))))
            rcases hb' with h10 | hb'
            · subst h10
              exact .newline hkind htext (by simpa using hrem) (by simpa using hcons) hcomm
            · have hpb : b ∈ punctBytes := by simpa [punctBytes] using hb'
              refine .tok [b] (by rw [hkind]; exact .punct b hpb) htext hrem hcons hcomm ?_ ?_
              · rw [← hjrem, ← hb]
                rcases hb' with h | h | h | h | h | h | h <;> subst h <;> decide
              · rw [← hjrem, hw]; simp
          · rename_i hnp
            split at h
            · -- quoted string
              rename_i hq
              obtain ⟨i1, hr1, hadv1, _⟩ := readRune_adv j0 hne
              rw [hpk] at h hq
              simp only [hr1] at h
              cases h2 : readString (Utf8.decodeRune j0.remaining).1 (i1.remaining.length + 1) i1 with
              | error e => simp [h2] at h
              | ok i2 =>
                simp only [h2] at h
                have hi' : i' = endToken .string i2 := by cases h; rfl
                obtain ⟨a, hadv2, hbody⟩ := readString_emits _ _ _ _ h2
                have hcs : (Utf8.decodeRune j0.remaining).1 = 34 ∨ (Utf8.decodeRune j0.remaining).1 = 96 := by
                  simpa [quoteRunes] using hq
                have hlt : (Utf8.decodeRune j0.remaining).1 < 0x80 := by
                  rcases hcs with h | h <;> rw [h] <;> decide
                obtain ⟨b, t, hbt, hb, hw⟩ := ascii_rune_head hne hlt
                have htake : j0.remaining.take (Utf8.decodeRune j0.remaining).2 = [b] := by
                  rw [hw, hbt]; rfl
                rw [htake] at hadv1
                have hadv := hadv1.trans hadv2
                obtain ⟨htext, hrem, hcons, hcomm⟩ := hfin i2 .string ([b] ++ a) rfl hadv
                rw [← hi'] at htext hrem hcons hcomm
                have hkind : i'.token.kind = .string := by rw [hi']; rfl
                rw [← hb] at hcs hbody
                have hbq : b = 34 ∨ b = 96 := by
                  rcases hcs with h | h
                  · exact Or.inl (UInt8.toNat_inj.1 (by simpa using h))
                  · exact Or.inr (UInt8.toNat_inj.1 (by simpa using h))
                refine .tok (b :: a) (by rw [hkind]; exact .string b a hbq hbody) htext hrem hcons hcomm ?_ ?_
                · rw [← hjrem, ← hb]
                  rcases hbq with h | h <;> subst h <;> decide
                · rw [← hjrem, hw]; simp
            · rename_i hnq
              split at h
              · cases h
              · rename_i hid
                cases h2 : readIdent (j0.remaining.length + 1) j0 with
                | error e => simp [h2] at h
                | ok i2 =>
                  simp only [h2] at h
                  have hi' : i' = endToken .ident i2 := by cases h; rfl
                  obtain ⟨a, hadv2, hbody, hdec⟩ := readIdent_emits _ _ _ h2
                  have hid' : isIdent j0.peekRune = true := by simpa using hid
                  have hane : a ≠ [] := by
                    intro ha
                    subst ha
                    -- no progress is impossible: the first rune is an identifier rune and no comment starts here
                    have he0 : i0.eof = false := (eof_false_iff i0).2 (by rw [← hjrem]; exact hne)
                    rcases readIdent_spec (j0.remaining.length + 1) j0 (by omega) with
                      ⟨i3, h3, _, _, _, hprog⟩ | ⟨e, h3, _⟩
                    · rw [h2] at h3
                      have : i2 = i3 := by cases h3; rfl
                      subst this
                      have hp1 : j0.peekPrefix [47, 47] = false := by
                        have : j0.peekPrefix [47, 47] = i0.peekPrefix [47, 47] := by rw [← hj]; rfl
                        rw [this]
                        cases hh : i0.peekPrefix [47, 47] with
                        | false => rfl
                        | true => exact absurd (by simp [he0, hh]) hnc1
                      have hp2 : j0.peekPrefix [47, 42] = false := by
                        have : j0.peekPrefix [47, 42] = i0.peekPrefix [47, 42] := by rw [← hj]; rfl
                        rw [this]
                        cases hh : i0.peekPrefix [47, 42] with
                        | false => rfl
                        | true => exact absurd (by simp [he0, hh]) hnc2
                      have := hprog ⟨hid', hp1, hp2⟩
                      have hr := hadv2.rem
                      simp only [List.nil_append] at hr
                      rw [hr] at this
                      omega
                    · rw [h2] at h3; cases h3
                  obtain ⟨htext, hrem, hcons, hcomm⟩ := hfin i2 .ident a rfl hadv2
                  rw [← hi'] at htext hrem hcons hcomm
                  have hkind : i'.token.kind = .ident := by rw [hi']; rfl
                  have hnq' : quoteRunes.contains (Utf8.decodeRune a).1 = false := by
                    rw [hdec hane, ← hpk]
                    simpa using hnq
                  refine .tok a (by rw [hkind]; exact .ident a hane hbody hnq') htext hrem hcons hcomm ?_ ?_
                  · rw [← hjrem, ← hpk]
                    exact isIdent_not_space hid'
                  · rw [← hjrem, ← hdec hane]
                    exact (decodeRune_width a hane).2

/-- ★ `lex_emits_TokOK`: every token `readToken` delivers is the end of input, a newline, a comment
    text (`//…` without newline) or a `TokOK` line token of the delivered kind. -/
theorem lex_emits_LexOK (i i' : Input) (h : readToken i = .ok i') : LexOK i'.token.kind i'.token.text := by
  obtain ⟨ws, i0, _, _, hem⟩ := readToken_emits i i' h
  cases hem with
  | eof hk ht _ _ _ _ => rw [hk, ht]; exact .eof
  | comment _ _ _ hk _ _ ht =>
    rw [hk]
    split
    · exact .eolComment _ ht
    · exact .comment _ ht
  | newline hk ht _ _ _ => rw [hk, ht]; exact .newline
  | tok t hk ht _ _ _ _ _ => rw [ht]; exact .tok _ _ hk

end ModVerif.Proofs.ModfileFmtLex
