/-
  Helper lemmas for Tie/FnModfileCmp.lean: the block-sorting comparators `lineLess`, `lineExcludeLess`,
  `lineRetractLess` (+ its hoisted closure `interval`) and `checkCanonicalVersion` of modfile/rule.go, regenerated in
  Generated/FnModfile.lean, against the hand model Model/Modfile/Edit.lean.
-/
import ModVerif.Generated.FnModfile
import ModVerif.Model.Modfile.Edit
import ModVerif.Proofs.GoRtLemmasList
import ModVerif.Tie.FnSemver
import ModVerif.Tie.FnModule
namespace ModVerif.TieFnModfileCmp
open ModVerif ModVerif.GoRt ModVerif.Modfile

/-! ### lineLess -/

/-- what loop 1 of `lineLess` returns when started at index `n` with the remaining tokens `a`, `b` -/
def loopRes : Nat → List Bytes → List Bytes → Ctl Bool Int
  | n, a :: as, b :: bs => if a ≠ b then Ctl.ret (bytesLt a b) else loopRes (n + 1) as bs
  | n, _, _ => Ctl.next (n : Int)

theorem idxL_append_length {α : Type} (pre : List α) (a : α) (as : List α) (n : Nat) (h : pre.length = n) :
    idxL (pre ++ a :: as) (n : Int) = .ok a := by
  subst h
  rw [GoRtList.idxL_natCast _ _ (by simp)]
  simp

theorem lineLess_loop1_spec (li lj : Generated.Modfile.Line) :
    ∀ (a b pre pre' : List Bytes) (n fuel : Nat), li.Token = pre ++ a → lj.Token = pre' ++ b →
      pre.length = n → pre'.length = n → min a.length b.length < fuel →
      Generated.Modfile.lineLess_loop1 li lj fuel (n : Int) = .ok (loopRes n a b) := by
  intro a
  induction a with
  | nil =>
    intro b pre pre' n fuel hi hj hn hn' hf
    cases fuel with
    | zero => omega
    | succ fuel =>
      have : ¬ ((n : Int) < len li.Token) := by rw [hi, GoRtList.len_eq]; simp; omega
      simp only [Generated.Modfile.lineLess_loop1, this, decide_false, Bool.false_and, Bool.false_eq_true, if_false,
        GoRtList.pure_eq_ok]
      cases b <;> rfl
  | cons x as ih =>
    intro b pre pre' n fuel hi hj hn hn' hf
    cases b with
    | nil =>
      cases fuel with
      | zero => omega
      | succ fuel =>
        have : ¬ ((n : Int) < len lj.Token) := by rw [hj, GoRtList.len_eq]; simp; omega
        simp only [Generated.Modfile.lineLess_loop1, this, decide_false, Bool.and_false, Bool.false_eq_true, if_false,
          GoRtList.pure_eq_ok]
        rfl
    | cons y bs =>
      cases fuel with
      | zero => omega
      | succ fuel =>
        have h1 : (n : Int) < len li.Token := by rw [hi, GoRtList.len_eq]; simp; omega
        have h2 : (n : Int) < len lj.Token := by rw [hj, GoRtList.len_eq]; simp; omega
        have e1 : idxL li.Token (n : Int) = .ok x := by rw [hi]; exact idxL_append_length pre x as n hn
        have e2 : idxL lj.Token (n : Int) = .ok y := by rw [hj]; exact idxL_append_length pre' y bs n hn'
        simp only [Generated.Modfile.lineLess_loop1, h1, h2, decide_true, Bool.and_self, if_true, e1, e2, GoRtList.ok_bind]
        by_cases hxy : x = y
        · subst hxy
          have hrec := ih bs (pre ++ [x]) (pre' ++ [x]) (n + 1) fuel (by rw [hi]; simp) (by rw [hj]; simp)
            (by simp; omega) (by simp; omega) (by simp at hf; omega)
          simp only [decide_true, Bool.not_true, Bool.false_eq_true, if_false]
          have hc : ((n : Int) + 1) = ((n + 1 : Nat) : Int) := by omega
          rw [hc, hrec]
          simp [loopRes]
        · simp only [hxy, decide_false, Bool.not_false, if_true, GoRtList.pure_eq_ok, loopRes, ne_eq, not_false_eq_true, strLt]

/-- the result of the loop, post-processed as `lineLess` does, is the model's `lineLess` on the remaining tokens -/
theorem loopRes_lineLess : ∀ (a b : List Bytes) (n : Nat) (p q : Nat), p = q →
    (match loopRes n a b with
     | Ctl.ret v => v
     | Ctl.next _ => decide (((p + a.length : Nat) : Int) < ((q + b.length : Nat) : Int))) = Edit.lineLess a b
  | [], [], n, p, q, h => by subst h; simp [loopRes, Edit.lineLess]
  | [], _ :: _, n, p, q, h => by subst h; simp [loopRes, Edit.lineLess]; omega
  | _ :: _, [], n, p, q, h => by subst h; simp [loopRes, Edit.lineLess]; omega
  | a :: as, b :: bs, n, p, q, h => by
    subst h
    by_cases hab : a = b
    · subst hab
      have := loopRes_lineLess as bs (n + 1) (p + 1) (p + 1) rfl
      simp only [loopRes, ne_eq, not_true_eq_false, if_false, Edit.lineLess, bne_self_eq_false, Bool.false_eq_true,
        List.length_cons]
      rw [← this]
      have e1 : p + (as.length + 1) = p + 1 + as.length := by omega
      have e2 : p + (bs.length + 1) = p + 1 + bs.length := by omega
      simp only [e1, e2]
    · have : (a != b) = true := by simp [hab]
      simp [loopRes, hab, Edit.lineLess, this]

theorem lineLess_ok (fuel : Nat) (li lj : Generated.Modfile.Line)
    (hf : min li.Token.length lj.Token.length + 1 ≤ fuel) :
    Generated.Modfile.lineLess fuel li lj = .ok (Edit.lineLess li.Token lj.Token) := by
  have h := lineLess_loop1_spec li lj li.Token lj.Token [] [] 0 fuel rfl rfl rfl rfl (by omega)
  have h2 := loopRes_lineLess li.Token lj.Token 0 0 0 rfl
  simp only [Generated.Modfile.lineLess]
  have hz : ((0 : Nat) : Int) = (0 : Int) := rfl
  rw [hz] at h
  rw [h]
  simp only [GoRtList.ok_bind]
  rw [← h2]
  cases loopRes 0 li.Token lj.Token with
  | ret v => simp
  | next k => simp [GoRtList.len_eq]
