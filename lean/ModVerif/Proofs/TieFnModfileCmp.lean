/-
  Helper lemmas for Tie/FnModfileCmp.lean: the block-sorting comparators `lineLess`, `lineExcludeLess`,
  `lineRetractLess` (+ its hoisted closure `interval`) and `checkCanonicalVersion` of modfile/rule.go, regenerated in
  Generated/FnModfile.lean, against the hand model Model/Modfile/Edit.lean.
-/
import ModVerif.Generated.FnModfile
import ModVerif.Model.Modfile.Edit
import ModVerif.Proofs.GoRtLemmasList
import ModVerif.Tie.FnSemver
import ModVerif.Tie.FnModule
namespace ModVerif.TieFnModfileCmp
open ModVerif ModVerif.GoRt ModVerif.Modfile

/-! ### lineLess -/

/-- what loop 1 of `lineLess` returns when started at index `n` with the remaining tokens `a`, `b` -/
def loopRes : Nat → List Bytes → List Bytes → Ctl Bool Int
  | n, a :: as, b :: bs => if a ≠ b then Ctl.ret (bytesLt a b) else loopRes (n + 1) as bs
  | n, _, _ => Ctl.next (n : Int)

theorem idxL_append_length {α : Type} (pre : List α) (a : α) (as : List α) (n : Nat) (h : pre.length = n) :
    idxL (pre ++ a :: as) (n : Int) = .ok a := by
  subst h
  rw [GoRtList.idxL_natCast _ _ (by simp)]
  simp

theorem lineLess_loop1_spec (li lj : Generated.Modfile.Line) :
    ∀ (a b pre pre' : List Bytes) (n fuel : Nat), li.Token = pre ++ a → lj.Token = pre' ++ b →
      pre.length = n → pre'.length = n → min a.length b.length < fuel →
      Generated.Modfile.lineLess_loop1 li lj fuel (n : Int) = .ok (loopRes n a b) := by
  intro a
  induction a with
  | nil =>
    intro b pre pre' n fuel hi hj hn hn' hf
    cases fuel with
    | zero => omega
    | succ fuel =>
      have : ¬ ((n : Int) < len li.Token) := by rw [hi, GoRtList.len_eq]; simp; omega
      simp only [Generated.Modfile.lineLess_loop1, this, decide_false, Bool.false_and, Bool.false_eq_true, if_false,
        GoRtList.pure_eq_ok]
      cases b <;> rfl
  | cons x as ih =>
    intro b pre pre' n fuel hi hj hn hn' hf
    cases b with
    | nil =>
      cases fuel with
      | zero => omega
      | succ fuel =>
        have : ¬ ((n : Int) < len lj.Token) := by rw [hj, GoRtList.len_eq]; simp; omega
        simp only [Generated.Modfile.lineLess_loop1, this, decide_false, Bool.and_false, Bool.false_eq_true, if_false,
          GoRtList.pure_eq_ok]
        rfl
    | cons y bs =>
      cases fuel with
      | zero => omega
      | succ fuel =>
        have h1 : (n : Int) < len li.Token := by rw [hi, GoRtList.len_eq]; simp; omega
        have h2 : (n : Int) < len lj.Token := by rw [hj, GoRtList.len_eq]; simp; omega
        have e1 : idxL li.Token (n : Int) = .ok x := by rw [hi]; exact idxL_append_length pre x as n hn
        have e2 : idxL lj.Token (n : Int) = .ok y := by rw [hj]; exact idxL_append_length pre' y bs n hn'
        simp only [Generated.Modfile.lineLess_loop1, h1, h2, decide_true, Bool.and_self, if_true, e1, e2, GoRtList.ok_bind]
        by_cases hxy : x = y
        · subst hxy
          have hrec := ih bs (pre ++ [x]) (pre' ++ [x]) (n + 1) fuel (by rw [hi]; simp) (by rw [hj]; simp)
            (by simp; omega) (by simp; omega) (by simp at hf; omega)
          simp only [decide_true, Bool.not_true, Bool.false_eq_true, if_false]
          have hc : ((n : Int) + 1) = ((n + 1 : Nat) : Int) := by omega
          rw [hc, hrec]
          simp [loopRes]
        · simp only [hxy, decide_false, Bool.not_false, if_true, GoRtList.pure_eq_ok, loopRes, ne_eq, not_false_eq_true, strLt]

/-- the result of the loop, post-processed as `lineLess` does, is the model's `lineLess` on the remaining tokens -/
theorem loopRes_lineLess : ∀ (a b : List Bytes) (n : Nat) (p q : Nat), p = q →
    (match loopRes n a b with
     | Ctl.ret v => v
     | Ctl.next _ => decide (((p + a.length : Nat) : Int) < ((q + b.length : Nat) : Int))) = Edit.lineLess a b
  | [], [], n, p, q, h => by subst h; simp [loopRes, Edit.lineLess]
  | [], _ :: _, n, p, q, h => by subst h; simp [loopRes, Edit.lineLess]; omega
  | _ :: _, [], n, p, q, h => by subst h; simp [loopRes, Edit.lineLess]; omega
  | a :: as, b :: bs, n, p, q, h => by
    subst h
    by_cases hab : a = b
    · subst hab
      have := loopRes_lineLess as bs (n + 1) (p + 1) (p + 1) rfl
      simp only [loopRes, ne_eq, not_true_eq_false, if_false, Edit.lineLess, bne_self_eq_false, Bool.false_eq_true,
        List.length_cons]
      rw [← this]
      have e1 : p + (as.length + 1) = p + 1 + as.length := by omega
      have e2 : p + (bs.length + 1) = p + 1 + bs.length := by omega
      simp only [e1, e2]
    · have : (a != b) = true := by simp [hab]
      simp [loopRes, hab, Edit.lineLess, this]

theorem lineLess_ok (fuel : Nat) (li lj : Generated.Modfile.Line)
    (hf : min li.Token.length lj.Token.length + 1 ≤ fuel) :
    Generated.Modfile.lineLess fuel li lj = .ok (Edit.lineLess li.Token lj.Token) := by
  have h := lineLess_loop1_spec li lj li.Token lj.Token [] [] 0 fuel rfl rfl rfl rfl (by omega)
  have h2 := loopRes_lineLess li.Token lj.Token 0 0 0 rfl
  simp only [Generated.Modfile.lineLess]
  have hz : ((0 : Nat) : Int) = (0 : Int) := rfl
  rw [hz] at h
  rw [h]
  simp only [GoRtList.ok_bind]
  rw [← h2]
  cases loopRes 0 li.Token lj.Token with
  | ret v => simp
  | next k => simp [GoRtList.len_eq]

/-! ### lineExcludeLess -/

theorem idxL_zero {α : Type} (a : α) (as : List α) : idxL (a :: as) (0 : Int) = .ok a := by
  simp [idxL]

theorem idxL_one {α : Type} (a b : α) (as : List α) : idxL (a :: b :: as) (1 : Int) = .ok b := by
  simp [idxL]

theorem idxL_two {α : Type} (a b c : α) (as : List α) : idxL (a :: b :: c :: as) (2 : Int) = .ok c := by
  simp [idxL]

theorem idxL_three {α : Type} (a b c d : α) (as : List α) : idxL (a :: b :: c :: d :: as) (3 : Int) = .ok d := by
  simp [idxL]

theorem idxL_four {α : Type} (a b c d e : α) (as : List α) : idxL (a :: b :: c :: d :: e :: as) (4 : Int) = .ok e := by
  simp [idxL]

theorem len_ne_two_iff {α : Type} (s : List α) : (!decide (len s = (2 : Int))) = (s.length != 2) := by
  rw [GoRtList.len_eq, Bool.eq_iff_iff]
  simp
  omega

theorem length_two {α : Type} {s : List α} (h : s.length = 2) : ∃ a b, s = [a, b] := by
  rcases s with _ | ⟨a, _ | ⟨b, _ | ⟨c, t⟩⟩⟩ <;> simp at h
  exact ⟨a, b, rfl⟩

theorem lineExcludeLess_ok (fuel : Nat) (li lj : Generated.Modfile.Line)
    (hf1 : min li.Token.length lj.Token.length + 1 ≤ fuel)
    (hf2 : 2 * max (li.Token.getD 1 []).length (lj.Token.getD 1 []).length ≤ fuel) :
    Generated.Modfile.lineExcludeLess fuel li lj = .ok (Edit.lineExcludeLess li.Token lj.Token) := by
  simp only [Generated.Modfile.lineExcludeLess, Edit.lineExcludeLess, len_ne_two_iff]
  by_cases hc : (li.Token.length != 2 || lj.Token.length != 2) = true
  · rw [if_pos hc, if_pos hc, lineLess_ok fuel li lj hf1]
  · rw [if_neg hc, if_neg hc]
    simp only [Bool.or_eq_true, bne_iff_ne, ne_eq, not_or, Decidable.not_not] at hc
    obtain ⟨p, v, hi⟩ := length_two hc.1
    obtain ⟨q, w, hj⟩ := length_two hc.2
    rw [hi, hj] at hf2 ⊢
    simp only [idxL_zero, idxL_one, GoRtList.ok_bind, List.headD_cons]
    by_cases hpq : p = q
    · have hcmp := Tie.FnSemver.Compare_tie v w fuel (by simpa using hf2)
      simp only [hpq, decide_true, Bool.not_true, Bool.false_eq_true, if_false, bne_self_eq_false]
      rw [hcmp]
      simp
    · have hb : (p != q) = true := by simp [hpq]
      simp [hpq, hb, strLt]

/-! ### lineRetractLess -/

/-- the model's interval as the regenerated `VersionInterval` structure -/
def ivOf (t : List Bytes) : Generated.Modfile.VersionInterval :=
  { Low := (Edit.retractInterval t).low, High := (Edit.retractInterval t).high }

theorem interval_ok (fuel : Nat) (l : Generated.Modfile.Line) :
    Generated.Modfile.lineRetractLess_interval fuel l = .ok (ivOf l.Token) := by
  unfold Generated.Modfile.lineRetractLess_interval ivOf
  generalize l.Token = t
  rcases t with _ | ⟨a, _ | ⟨b, _ | ⟨c, _ | ⟨d, _ | ⟨e, _ | ⟨f, t⟩⟩⟩⟩⟩⟩
  · simp [len, Edit.retractInterval]; rfl
  · simp [len, Edit.retractInterval, idxL_zero]
  · simp [len, Edit.retractInterval]; rfl
  · simp [len, Edit.retractInterval]; rfl
  · simp [len, Edit.retractInterval]; rfl
  · simp only [len, Edit.retractInterval, idxL_zero, idxL_one, idxL_two, idxL_three, idxL_four, GoRtList.ok_bind,
      GoRtList.pure_eq_ok, List.length_cons, List.length_nil]
    by_cases h1 : a = [91] <;> by_cases h2 : c = [44] <;> by_cases h3 : e = [93] <;> simp [h1, h2, h3] <;> rfl
  · have : ¬ ((t.length : Int) + 1 + 1 + 1 + 1 + 1 + 1 = 1) := by omega
    have h5 : ¬ ((t.length : Int) + 1 + 1 + 1 + 1 + 1 + 1 = 5) := by omega
    simp [len, Edit.retractInterval, this, h5]; rfl

theorem lineRetractLess_ok (fuel : Nat) (li lj : Generated.Modfile.Line)
    (hf1 : 2 * max (Edit.retractInterval li.Token).low.length (Edit.retractInterval lj.Token).low.length ≤ fuel)
    (hf2 : 2 * max (Edit.retractInterval li.Token).high.length (Edit.retractInterval lj.Token).high.length ≤ fuel) :
    Generated.Modfile.lineRetractLess fuel li lj = .ok (Edit.lineRetractLess li.Token lj.Token) := by
  simp only [Generated.Modfile.lineRetractLess, interval_ok, GoRtList.ok_bind, ivOf, Edit.lineRetractLess]
  rw [Tie.FnSemver.Compare_tie _ _ fuel hf1]
  simp only [GoRtList.ok_bind]
  by_cases hc : Semver.compare (Edit.retractInterval li.Token).low (Edit.retractInterval lj.Token).low = 0
  · rw [Tie.FnSemver.Compare_tie _ _ fuel hf2]
    simp [hc]
  · simp [hc]

/-! ### checkCanonicalVersion -/

open ModVerif.TieFnModule in
/-- the `error` value of `checkCanonicalVersion` (Go `error` is `Option String`, `nil` = `none`; message texts are the
    format strings, `&module.InvalidVersionError{…}` is `wrapErr "InvalidVersionError" …`):
    * not canonical (or empty): "must be of the form v1.2.3" when the path has no major suffix, else
      "must be of the form %s.2.3";
    * canonical, path ok, but the version's major does not match the path's: CheckPathMajor's own error (`majorErr`,
      "should be %s, not %s") when the path has a suffix, else "should be %s+incompatible (or module %s/%v)";
    * `nil` otherwise. -/
def canonErrOf (path vers : Bytes) : Option String :=
  let pathMajor := (Module.splitPathVersion path).2.1
  let ok := (Module.splitPathVersion path).2.2
  if vers = [] ∨ vers ≠ Semver.canonicalVersion vers then
    (if pathMajor = [] then wrapErr "InvalidVersionError" (some "must be of the form v1.2.3")
     else wrapErr "InvalidVersionError" (some "must be of the form %s.2.3"))
  else if ok = true ∧ Module.checkPathMajor vers pathMajor = false then
    (if pathMajor = [] then wrapErr "InvalidVersionError" (some "should be %s+incompatible (or module %s/%v)")
     else majorErr)
  else none

theorem majorErr_ne_none : TieFnModule.majorErr ≠ none := by
  simp [TieFnModule.majorErr, wrapErr]

theorem canonErrOf_none_iff (path vers : Bytes) :
    canonErrOf path vers = none ↔ Edit.checkCanonicalVersion path vers = true := by
  unfold canonErrOf Edit.checkCanonicalVersion
  rcases hs : Module.splitPathVersion path with ⟨pre, maj, ok⟩
  simp only []
  by_cases hv : vers = [] ∨ vers ≠ Semver.canonicalVersion vers
  · have hb : (vers.isEmpty || vers != Semver.canonicalVersion vers) = true := by
      rcases hv with h | h
      · simp [h]
      · simp [h]
    rw [if_pos hv, if_pos hb]
    split <;> simp [wrapErr]
  · have hb : ¬ ((vers.isEmpty || vers != Semver.canonicalVersion vers) = true) := by
      intro h
      apply hv
      simp only [Bool.or_eq_true, List.isEmpty_iff, bne_iff_ne, ne_eq] at h
      exact h
    rw [if_neg hv, if_neg hb]
    cases ok with
    | false => simp
    | true =>
      cases hcp : Module.checkPathMajor vers maj with
      | true => simp
      | false =>
        simp only [and_self, if_true, Bool.false_eq_true, iff_false]
        split
        · simp [wrapErr]
        · exact majorErr_ne_none

theorem checkCanonicalVersion_ok (fuel : Nat) (path vers : Bytes)
    (hf1 : path.length + 1 ≤ fuel) (hf2 : 2 * vers.length ≤ fuel) :
    Generated.Modfile.checkCanonicalVersion fuel path vers = .ok (canonErrOf path vers) := by
  unfold Generated.Modfile.checkCanonicalVersion canonErrOf
  rw [Tie.FnModule.SplitPathVersion_tie path fuel hf1]
  rcases hs : Module.splitPathVersion path with ⟨pre, maj, ok⟩
  simp only [GoRtList.ok_bind, Tie.FnModule.CanonicalVersion_tie vers fuel hf2, GoRtList.pure_eq_ok]
  by_cases hv0 : vers = []
  · subst hv0
    simp only [decide_true, if_true, GoRtList.ok_bind, true_or]
    by_cases hm : maj = [] <;> simp [hm]
  · simp only [hv0, decide_false, Bool.false_eq_true, if_false, GoRtList.ok_bind, false_or]
    by_cases hv : vers = Semver.canonicalVersion vers
    · have h1 : (!decide (vers = Semver.canonicalVersion vers)) = false := by simp [← hv]
      have h2 : ¬ (vers ≠ Semver.canonicalVersion vers) := by simpa using hv
      rw [h1, if_neg h2]
      simp only [Bool.false_eq_true, if_false]
      cases ok with
      | false => simp
      | true =>
        simp only [if_true, Tie.FnModule.CheckPathMajor_tie vers maj fuel hf2, GoRtList.ok_bind, true_and]
        cases hcp : Module.checkPathMajor vers maj with
        | true => simp
        | false =>
          have : (!(TieFnModule.majorErr).isNone) = true := by simp [TieFnModule.majorErr, wrapErr]
          simp only [Bool.false_eq_true, if_false, this, if_true]
          by_cases hm : maj = [] <;> simp [hm]
    · have h1 : (!decide (vers = Semver.canonicalVersion vers)) = true := by simp [hv]
      have h2 : vers ≠ Semver.canonicalVersion vers := hv
      rw [h1, if_pos h2]
      simp only [if_true]
      by_cases hm : maj = [] <;> simp [hm]

/-! ### the arguments of the error messages (dropped by the translator) cannot panic

  `fmt.Errorf("must be of the form %s.2.3", module.PathMajorPrefix(pathMajor))` evaluates `PathMajorPrefix`, which
  panics on a malformed suffix; `pathMajor` is the suffix `SplitPathVersion` returned and is non-empty on that branch. -/

theorem split_not_ok_major_nil (path pre maj : Bytes) (h : Module.splitPathVersion path = (pre, maj, false)) :
    maj = [] := by
  unfold Module.splitPathVersion Module.splitGopkgIn at h
  simp only [] at h
  repeat' split at h
  all_goals
    (injection h with _ h2
     injection h2 with h3 h4
     first | exact h3.symm | cases h4)

theorem pathMajorPrefix_ok_on_split (path : Bytes) (fuel : Nat)
    (hf : 2 * (Module.splitPathVersion path).2.1.length ≤ fuel) :
    ∃ m, Generated.Module.PathMajorPrefix fuel (Module.splitPathVersion path).2.1 = .ok m := by
  rcases hs : Module.splitPathVersion path with ⟨pre, maj, ok⟩
  rw [hs] at hf
  rw [Tie.FnModule.PathMajorPrefix_tie maj fuel hf]
  cases ok with
  | false =>
    have := split_not_ok_major_nil path pre maj hs
    subst this
    exact ⟨[], rfl⟩
  | true =>
    rcases Props.C06.pathMajorPrefix_no_panic_on_split path pre maj hs with ⟨_, h⟩ | ⟨n, _, h, _⟩
    · rw [h]; exact ⟨_, rfl⟩
    · rw [h]; exact ⟨_, rfl⟩

theorem splitPathVersion_major_le (path : Bytes) : (Module.splitPathVersion path).2.1.length ≤ path.length := by
  rcases hs : Module.splitPathVersion path with ⟨pre, maj, ok⟩
  cases ok with
  | false =>
    have := split_not_ok_major_nil path pre maj hs
    subst this; simp
  | true =>
    have h := (Props.C06.split_spec path pre maj hs).1
    have : (pre ++ maj).length = path.length := by rw [h]
    simp at this ⊢
    omega

/-! ### the fuel the driver passes (Drv/CmpOps.lean): `4 * (total bytes of both token lists) + 64` -/

/-- total number of bytes of a token list -/
def tokBytes (l : List Bytes) : Nat := (l.map List.length).sum

theorem tokBytes_append (a b : List Bytes) : tokBytes (a ++ b) = tokBytes a + tokBytes b := by
  simp [tokBytes]

theorem length_le_tokBytes : ∀ (l : List Bytes), (∀ t ∈ l, t ≠ []) → l.length ≤ tokBytes l
  | [], _ => by simp [tokBytes]
  | t :: l, h => by
    have h1 : t ≠ [] := h t (by simp)
    have h2 := length_le_tokBytes l (fun x hx => h x (by simp [hx]))
    have : 0 < t.length := List.length_pos_iff.mpr h1
    simp only [tokBytes, List.map_cons, List.sum_cons, List.length_cons] at h2 ⊢
    omega

theorem mem_length_le_tokBytes : ∀ (l : List Bytes) (v : Bytes), v ∈ l → v.length ≤ tokBytes l
  | [], v, h => by cases h
  | t :: l, v, h => by
    simp only [tokBytes, List.map_cons, List.sum_cons]
    rcases List.mem_cons.mp h with rfl | h
    · omega
    · have := mem_length_le_tokBytes l v h
      simp only [tokBytes] at this
      omega

theorem getD_length_le_tokBytes (l : List Bytes) (k : Nat) : (l.getD k []).length ≤ tokBytes l := by
  rw [List.getD_eq_getElem?_getD]
  cases h : l[k]? with
  | none => simp
  | some v =>
    simp only [Option.getD_some]
    exact mem_length_le_tokBytes l v (List.mem_of_getElem? h)

theorem retractInterval_le_tokBytes (t : List Bytes) :
    (Edit.retractInterval t).low.length ≤ tokBytes t ∧ (Edit.retractInterval t).high.length ≤ tokBytes t := by
  rcases t with _ | ⟨a, _ | ⟨b, _ | ⟨c, _ | ⟨d, _ | ⟨e, _ | ⟨f, t⟩⟩⟩⟩⟩⟩ <;>
    simp only [Edit.retractInterval] <;> (try split) <;>
    simp [tokBytes] <;> omega

theorem min_length_le (a b : List Bytes) (h : (∀ t ∈ a, t ≠ []) ∨ (∀ t ∈ b, t ≠ [])) :
    min a.length b.length ≤ tokBytes (a ++ b) := by
  rw [tokBytes_append]
  rcases h with h | h
  · have := length_le_tokBytes a h; omega
  · have := length_le_tokBytes b h; omega
end ModVerif.TieFnModfileCmp
