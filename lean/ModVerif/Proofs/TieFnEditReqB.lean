/-
  Helper lemmas for Tie/FnEditReq.lean, part B: `File_AddNewRequire` and `File_AddRequire` of the regenerated go.mod edit
  operations (Generated/FnEdit.lean) against the model's `addNewRequire` / `addRequire` (`firstRest`).

  * the model's `addLine`: the new line is in the tree and has no comments (`addLine_new`);
  * `AddLineSpec`: the simulation statement of `FileSyntax_addLine` that the operations are proved against (it IS
    `Tie.FnEditAddLine.addLine_tie` of edit-tree; discharged in Tie/FnEditReq.lean), `addLine_file`: its file-level form;
  * file-level frame lemmas: `RepFAt.ofFrame`, `RepFAt.setMods`, `RepF.ofSetMods`, `RepFAt.push{Require,Exclude,Replace,Retract}`;
  * `File_AddNewRequire_simAt`, the loop `AddRequire_loop_sim` ("first match updated, later matches cleared"),
    `File_AddRequire_sim`.

  Owner: edit-req.
-/
import ModVerif.Proofs.TieFnEditReqA
import ModVerif.Proofs.TieFnEditTreeB
import ModVerif.Proofs.TieFnEditAddLineC
set_option linter.unusedSimpArgs false
set_option linter.unusedVariables false
namespace ModVerif.Tie.FnEditReqB
open ModVerif ModVerif.GoRt ModVerif.Generated.Edit ModVerif.Tie.FnEditRep ModVerif.Tie.FnEditTreeA ModVerif.Tie.FnEditReqA
open ModVerif.Modfile.Edit (clearAll firstRest markAll markRemoved deref nilId EditErr EFile addLine addLineWalk Hint mkLine
  insertAfterId loc locStmt treeIds)
open ModVerif.TieFnEditAddLine (nodeCount Frame walk_line walk_block walk_cb)
open ModVerif.Drv.GenEdit (isPrintI quoteI)

/-! ### the model's `addLine`: the new line is in the tree, without comments -/

theorem insertAfterId_mem (id : Nat) (nl : Modfile.Line) : ∀ (ls ls' : List Modfile.Line), insertAfterId id nl ls = some ls' → nl ∈ ls'
  | [], _, h => by simp [insertAfterId] at h
  | l :: ls, ls', h => by
    simp only [insertAfterId] at h
    split at h
    · cases h; simp
    · cases hr : insertAfterId id nl ls with
      | none => rw [hr] at h; cases h
      | some r =>
        rw [hr] at h; cases h
        exact List.mem_cons_of_mem _ (insertAfterId_mem id nl ls r hr)

/-- the new line of `addLine`: id `new`, no comments -/
def IsNew (new : Nat) (l : Modfile.Line) : Prop := l.id = new ∧ l.comments = {}

theorem isNew_mkLine (new : Nat) (t : List Bytes) (b : Bool) : IsNew new (mkLine new t b) := ⟨rfl, rfl⟩

theorem addLineWalk_new (hint : Hint) (tokens : List Bytes) (new : Nat) :
    ∀ (stmts : List Modfile.Expr) (i : Nat) (stmts' : List Modfile.Expr), addLineWalk hint tokens new stmts i = some stmts' →
      ∃ q ∈ loc stmts', IsNew new q.2
  | [], i, _, h => by simp [addLineWalk] at h
  | s :: xs, i, stmts', h => by
    have hrest : ∀ r, (addLineWalk hint tokens new xs (i + 1)).map (s :: ·) = some r → ∃ q ∈ loc r, IsNew new q.2 := by
      intro r hr
      cases hw : addLineWalk hint tokens new xs (i + 1) with
      | none => rw [hw] at hr; cases hr
      | some w =>
        rw [hw] at hr; cases hr
        obtain ⟨q, hq, hn⟩ := addLineWalk_new hint tokens new xs (i + 1) w hw
        exact ⟨q, by rw [Modfile.Edit.loc_cons]; exact List.mem_append_right _ hq, hn⟩
    have hafter : ∃ q ∈ loc (s :: Modfile.Expr.line (mkLine new tokens false) :: xs), IsNew new q.2 :=
      ⟨([], mkLine new tokens false), by simp [Modfile.Edit.loc_cons, locStmt], isNew_mkLine _ _ _⟩
    cases s with
    | line l =>
      rw [walk_line] at h
      split at h
      · split at h
        · cases h; exact hafter
        · cases h
          exact ⟨(l.token.take 1, mkLine new (tokens.drop 1) true), by simp [Modfile.Edit.loc_cons, locStmt], isNew_mkLine _ _ _⟩
      · exact hrest _ h
    | lineBlock b =>
      rw [walk_block] at h
      split at h
      · split at h
        · cases h; exact hafter
        · cases h
          exact ⟨(b.token, mkLine new (tokens.drop 1) true), by simp [Modfile.Edit.loc_cons, locStmt], isNew_mkLine _ _ _⟩
      · split at h
        · split at h
          · split at h
            · cases h; exact hafter
            · split at h
              · rename_i ls hls
                cases h
                exact ⟨(b.token, mkLine new (tokens.drop 1) true),
                  by rw [Modfile.Edit.loc_cons]
                     exact List.mem_append_left _ (List.mem_map.2 ⟨_, insertAfterId_mem _ _ _ _ hls, rfl⟩), isNew_mkLine _ _ _⟩
              · exact hrest _ h
          · exact hrest _ h
        · exact hrest _ h
    | commentBlock c => rw [walk_cb] at h; exact hrest _ h
    | lparen c => exact hrest _ h
    | rparen c => exact hrest _ h

theorem addLine_new (fs : Modfile.FileSyntax) (hint : Option Nat) (tokens : List Bytes) (new : Nat) :
    ∃ q ∈ loc (addLine fs hint tokens new).stmts, IsNew new q.2 := by
  rcases Modfile.Edit.addLine_cases fs hint tokens new with h | ⟨hh, stmts', hw, he⟩
  · rw [h]
    exact ⟨([], mkLine new tokens false), by simp [Modfile.Edit.loc_append, Modfile.Edit.loc_cons, locStmt, loc], isNew_mkLine _ _ _⟩
  · rw [he]; exact addLineWalk_new hh tokens new fs.stmts 0 stmts' hw


/-! ### what the operations need of `FileSyntax.addLine` (Tie/FnEditAddLine.lean, owner edit-tree) -/

/-- the hint as the Go interface value: nil, or a `*Line` (possibly a nil `*Line`) -/
def hintE : Option Nat → Expr
  | none => Expr.nil
  | some id => Expr.Line (id : Int)

/-- the simulation statement of `FileSyntax_addLine` -/
def AddLineSpec : Prop :=
  ∀ (h : Heap) (x : Int) (fs : Modfile.FileSyntax) (hint : Option Nat) (t0 : Bytes) (trest : List Bytes) (fuel : Nat),
    RepSyn h x fs → BlockTokOK fs.stmts → nodeCount fs.stmts + 3 ≤ fuel →
    ∃ h', FileSyntax_addLine fuel x (hintE hint) (t0 :: trest) h = .ok (((h.lines.length + 1 : Nat) : Int), h') ∧
      RepSyn h' x (addLine fs hint (t0 :: trest) (h.lines.length + 1)) ∧
      BlockTokOK (addLine fs hint (t0 :: trest) (h.lines.length + 1)).stmts ∧ (LinesG h → LinesG h') ∧
      h'.lines.length = h.lines.length + 1 ∧ Frame h h'

/-! ### file-level frame lemmas -/

theorem get_of_eq {α : Type} {l l' : List α} (he : l' = l) : ∀ (p : Int) (v : α), heapGet l p = .ok v → heapGet l' p = .ok v := by
  subst he; exact fun _ _ x => x

/-- the syntax graph changed (typed object lists untouched, lines only added): the typed part of the representation stays -/
theorem RepFAt.ofFrame {h h' : Heap} {o : File} {e : EFile} (R : RepFAt h o e) (F : Frame h h') {syn' : Modfile.FileSyntax}
    (hs : RepSyn h' o.Syntax syn') (ht : BlockTokOK syn'.stmts) (hG : LinesG h') (hn : h.lines.length ≤ h'.lines.length) :
    RepFAt h' o { f := { e.f with syn := syn' }, next := h'.lines.length + 1 } where
  syn := hs
  tok := ht
  linesG := hG
  next := rfl
  module := R.module.mono (get_of_eq F.modules) hn
  go := R.go.mono (get_of_eq F.gos) hn
  toolchain := R.toolchain.mono (get_of_eq F.toolchains) hn
  godebug := R.godebug.mono (get_of_eq F.godebugs) hn
  require := R.require.mono (get_of_eq F.requires) hn
  exclude := R.exclude.mono (get_of_eq F.excludes) hn
  replace := R.replace.mono (get_of_eq F.replaces) hn
  retract := R.retract.mono (get_of_eq F.retracts) hn
  tool := R.tool.mono (get_of_eq F.tools) hn

/-- `mods` (the `File` objects themselves) is not part of the representation of a given `File` value -/
theorem RepFAt.setMods {h : Heap} {o : File} {e : EFile} (R : RepFAt h o e) (m : List File) : RepFAt { h with mods := m } o e where
  syn := RepSyn.congr (h := h) (h' := { h with mods := m }) rfl rfl rfl rfl R.syn
  tok := R.tok
  linesG := LinesG.congr (h := h) (h' := { h with mods := m }) R.linesG rfl
  next := R.next
  module := R.module
  go := R.go
  toolchain := R.toolchain
  godebug := R.godebug
  require := R.require
  exclude := R.exclude
  replace := R.replace
  retract := R.retract
  tool := R.tool

/-- the `File` object at `fp` is overwritten by `o'`, which the heap represents -/
theorem RepF.ofSetMods {h : Heap} {fp : Int} {o o' : File} {e : EFile} (ho : heapGet h.mods fp = .ok o) (R : RepFAt h o' e) :
    ∃ m, heapSet h.mods fp o' = .ok m ∧ RepF { h with mods := m } fp e :=
  ⟨_, heapSet_of_get _ ho, o', heapGet_listSet_same _ ho, RepFAt.setMods R _⟩

/-- `addLine` on a represented file: the new line has the pointer `e.next`, is in the tree, has no comments -/
theorem addLine_file (A : AddLineSpec) {h : Heap} {o : File} {e : EFile} (R : RepFAt h o e) (hint : Option Nat) (t0 : Bytes)
    (trest : List Bytes) (fuel : Nat) (hf : nodeCount e.f.syn.stmts + 3 ≤ fuel) :
    ∃ h' l, FileSyntax_addLine fuel o.Syntax (hintE hint) (t0 :: trest) h = .ok ((e.next : Int), h') ∧ Frame h h' ∧
      RepFAt h' o { f := { e.f with syn := addLine e.f.syn hint (t0 :: trest) e.next }, next := e.next + 1 } ∧
      heapGet h'.lines (e.next : Int) = .ok (lineG l) ∧ IsNew e.next l ∧
      (addLine e.f.syn hint (t0 :: trest) e.next).findLine e.next = some l := by
  obtain ⟨h', h1, h2, h3, h4, h5, h6⟩ := A h o.Syntax e.f.syn hint t0 trest fuel R.syn R.tok hf
  have hn := R.next
  rw [← hn] at h1 h2 h3
  obtain ⟨q, hq, hnew⟩ := addLine_new e.f.syn hint (t0 :: trest) e.next
  obtain ⟨es, r⟩ := h2
  have hloc := (r.stmts.loc q hq).2.2
  rw [hnew.1] at hloc
  have hfind := Modfile.Edit.findLine_of_loc _ r.nodupL q hq
  rw [hnew.1] at hfind
  refine ⟨h', q.2, h1, h6, ?_, hloc, hnew, hfind⟩
  have := RepFAt.ofFrame R h6 ⟨es, r⟩ h3 (h4 R.linesG) (by omega)
  rw [h5, ← hn] at this
  exact this

/-- a new `Require` object is allocated and appended to the typed list -/
theorem RepFAt.pushRequire {h : Heap} {o : File} {e : EFile} (R : RepFAt h o e) (y : Modfile.Require) (hy : y.lineId ≤ h.lines.length) :
    RepFAt { h with requires := h.requires ++ [requireG y] } { o with Require := o.Require ++ [((h.requires.length + 1 : Nat) : Int)] }
      { e with f := { e.f with require := e.f.require ++ [y] } } where
  syn := RepSyn.congr (h := h) (h' := { h with requires := h.requires ++ [requireG y] }) rfl rfl rfl rfl R.syn
  tok := R.tok
  linesG := LinesG.congr (h := h) (h' := { h with requires := h.requires ++ [requireG y] }) R.linesG rfl
  next := R.next
  module := R.module
  go := R.go
  toolchain := R.toolchain
  godebug := R.godebug
  require := by
    refine ⟨REntsL.append (R.require.rel.mono (fun p v hp => heapGet_alloc_old _ hp) (Nat.le_refl _)) ⟨⟨heapGet_alloc_new _ _, hy⟩, trivial⟩, ?_⟩
    refine List.nodup_append.2 ⟨R.require.nodup, List.pairwise_singleton _ _, ?_⟩
    intro a ha b hb
    rw [List.mem_singleton] at hb
    have := (R.require.rel.mem_alloc a ha).2
    omega
  exclude := R.exclude
  replace := R.replace
  retract := R.retract
  tool := R.tool

/-- a new `Exclude` object is allocated and appended to the typed list -/
theorem RepFAt.pushExclude {h : Heap} {o : File} {e : EFile} (R : RepFAt h o e) (y : Modfile.Exclude) (hy : y.lineId ≤ h.lines.length) :
    RepFAt { h with excludes := h.excludes ++ [excludeG y] } { o with Exclude := o.Exclude ++ [((h.excludes.length + 1 : Nat) : Int)] }
      { e with f := { e.f with exclude := e.f.exclude ++ [y] } } where
  syn := RepSyn.congr (h := h) (h' := { h with excludes := h.excludes ++ [excludeG y] }) rfl rfl rfl rfl R.syn
  tok := R.tok
  linesG := LinesG.congr (h := h) (h' := { h with excludes := h.excludes ++ [excludeG y] }) R.linesG rfl
  next := R.next
  module := R.module
  go := R.go
  toolchain := R.toolchain
  godebug := R.godebug
  require := R.require
  exclude := by
    refine ⟨REntsL.append (R.exclude.rel.mono (fun p v hp => heapGet_alloc_old _ hp) (Nat.le_refl _)) ⟨⟨heapGet_alloc_new _ _, hy⟩, trivial⟩, ?_⟩
    refine List.nodup_append.2 ⟨R.exclude.nodup, List.pairwise_singleton _ _, ?_⟩
    intro a ha b hb
    rw [List.mem_singleton] at hb
    have := (R.exclude.rel.mem_alloc a ha).2
    omega
  replace := R.replace
  retract := R.retract
  tool := R.tool

/-- a new `Replace` object is allocated and appended to the typed list -/
theorem RepFAt.pushReplace {h : Heap} {o : File} {e : EFile} (R : RepFAt h o e) (y : Modfile.Replace) (hy : y.lineId ≤ h.lines.length) :
    RepFAt { h with replaces := h.replaces ++ [replaceG y] } { o with Replace := o.Replace ++ [((h.replaces.length + 1 : Nat) : Int)] }
      { e with f := { e.f with replace := e.f.replace ++ [y] } } where
  syn := RepSyn.congr (h := h) (h' := { h with replaces := h.replaces ++ [replaceG y] }) rfl rfl rfl rfl R.syn
  tok := R.tok
  linesG := LinesG.congr (h := h) (h' := { h with replaces := h.replaces ++ [replaceG y] }) R.linesG rfl
  next := R.next
  module := R.module
  go := R.go
  toolchain := R.toolchain
  godebug := R.godebug
  require := R.require
  exclude := R.exclude
  replace := by
    refine ⟨REntsL.append (R.replace.rel.mono (fun p v hp => heapGet_alloc_old _ hp) (Nat.le_refl _)) ⟨⟨heapGet_alloc_new _ _, hy⟩, trivial⟩, ?_⟩
    refine List.nodup_append.2 ⟨R.replace.nodup, List.pairwise_singleton _ _, ?_⟩
    intro a ha b hb
    rw [List.mem_singleton] at hb
    have := (R.replace.rel.mem_alloc a ha).2
    omega
  retract := R.retract
  tool := R.tool

/-- a new `Retract` object is allocated and appended to the typed list -/
theorem RepFAt.pushRetract {h : Heap} {o : File} {e : EFile} (R : RepFAt h o e) (y : Modfile.Retract) (hy : y.lineId ≤ h.lines.length) :
    RepFAt { h with retracts := h.retracts ++ [retractG y] } { o with Retract := o.Retract ++ [((h.retracts.length + 1 : Nat) : Int)] }
      { e with f := { e.f with retract := e.f.retract ++ [y] } } where
  syn := RepSyn.congr (h := h) (h' := { h with retracts := h.retracts ++ [retractG y] }) rfl rfl rfl rfl R.syn
  tok := R.tok
  linesG := LinesG.congr (h := h) (h' := { h with retracts := h.retracts ++ [retractG y] }) R.linesG rfl
  next := R.next
  module := R.module
  go := R.go
  toolchain := R.toolchain
  godebug := R.godebug
  require := R.require
  exclude := R.exclude
  replace := R.replace
  retract := by
    refine ⟨REntsL.append (R.retract.rel.mono (fun p v hp => heapGet_alloc_old _ hp) (Nat.le_refl _)) ⟨⟨heapGet_alloc_new _ _, hy⟩, trivial⟩, ?_⟩
    refine List.nodup_append.2 ⟨R.retract.nodup, List.pairwise_singleton _ _, ?_⟩
    intro a ha b hb
    rw [List.mem_singleton] at hb
    have := (R.retract.rel.mem_alloc a ha).2
    omega
  tool := R.tool

/-! ### AutoQuote -/

theorem AutoQuote_ok (s : Bytes) (fuel : Nat) (hf : s.length + 1 ≤ fuel) :
    AutoQuote isPrintI quoteI fuel s = .ok (Modfile.autoQuote s) := by
  rw [FnEditTreeB.AutoQuote_eq]; exact Tie.FnModfile.AutoQuote_tie s fuel hf

/-! ### AddNewRequire -/

theorem isIndirect_of_isNew {new : Nat} {l : Modfile.Line} (hn : IsNew new l) : Modfile.isIndirect l = false := by
  simp [Modfile.isIndirect, hn.2]

theorem set_snoc_last {α : Type} (xs : List α) (y z : α) {n : Nat} (hn : n = xs.length) : (xs ++ [y]).set n z = xs ++ [z] := by
  subst hn; exact set_alloc_last xs y z

/-- the tail of `AddNewRequire`: the `Require` object is allocated with the new line, then `setIndirect` -/
theorem newRequire_heap {h1 : Heap} {o : File} {e1 : EFile} (R1 : RepFAt h1 o e1) {id : Nat} {l : Modfile.Line}
    (hl : heapGet h1.lines (id : Int) = .ok (lineG l)) (hI : Modfile.isIndirect l = false) (hid : id ≤ h1.lines.length)
    (m : Modfile.ModVersion) (ind : Bool) :
    Require_setIndirect ((h1.requires.length + 1 : Nat) : Int) ind
        { h1 with requires := h1.requires ++ [requireG { mod := m, indirect := false, lineId := id }] } =
      .ok ((), { setLineH h1 (id : Int) (Modfile.Edit.setIndirectLine ind l) with
                   requires := h1.requires ++ [requireG { mod := m, indirect := ind, lineId := id }] }) ∧
    RepFAt { setLineH h1 (id : Int) (Modfile.Edit.setIndirectLine ind l) with
               requires := h1.requires ++ [requireG { mod := m, indirect := ind, lineId := id }] }
      { o with Require := o.Require ++ [((h1.requires.length + 1 : Nat) : Int)] }
      { e1 with f := { e1.f with require := e1.f.require ++ [{ mod := m, indirect := ind, lineId := id }],
                                 syn := e1.f.syn.updateLine id (Modfile.Edit.setIndirectLine ind) } } := by
  constructor
  · have hr : heapGet (h1.requires ++ [requireG { mod := m, indirect := false, lineId := id }]) ((h1.requires.length + 1 : Nat) : Int)
        = .ok (requireG { mod := m, indirect := false, lineId := id }) := heapGet_alloc_new _ _
    have hs := Require_setIndirect_eq (h := { h1 with requires := h1.requires ++ [requireG { mod := m, indirect := false, lineId := id }] })
      (rq := { mod := m, indirect := false, lineId := id }) (l := l) ind hr hl
      (fun _ hi => by rw [hI] at hi; cases hi)
    rw [hs]
    simp [setLineH, set_alloc_last]
  · have R2 := R1.setLine (IdEquiv_setIndirectLine ind) hl
    have R3 := RepFAt.pushRequire R2 { mod := m, indirect := ind, lineId := id } (by simpa using hid)
    simpa using R3

theorem File_AddNewRequire_simAt (A : AddLineSpec) {h : Heap} {fp : Int} {o : File} {e : EFile} (ho : heapGet h.mods fp = .ok o)
    (R : RepFAt h o e) (path vers : Bytes) (indirect : Bool) (fuel : Nat) (hf : nodeCount e.f.syn.stmts + 3 ≤ fuel)
    (hq : path.length + 1 ≤ fuel) :
    ∃ h', File_AddNewRequire isPrintI quoteI fuel fp path vers indirect h = .ok ((), h') ∧
      RepF h' fp (Modfile.Edit.addNewRequire e path vers indirect) := by
  obtain ⟨h1, l, a1, F, R1, hl, hnew, _⟩ := addLine_file A R none (B "require") [Modfile.autoQuote path, vers] fuel hf
  have hlen1 : h1.lines.length = e.next := by have := R1.next; simp at this; omega
  obtain ⟨hs, R3⟩ := newRequire_heap R1 hl (isIndirect_of_isNew hnew) (by omega) { path := path, version := vers } indirect
  have hm : h1.mods = h.mods := F.mods
  obtain ⟨m, hset, RF⟩ := RepF.ofSetMods (h := _) (fp := fp) (o := o) (by show heapGet h1.mods fp = .ok o; rw [hm]; exact ho) R3
  refine ⟨_, ?_, RF⟩
  unfold File_AddNewRequire
  simp only [ho, bind_ok, AutoQuote_ok path fuel hq]
  have hB : ([114, 101, 113, 117, 105, 114, 101] : Bytes) = B "require" := by decide +kernel
  rw [hB, show (Expr.nil) = hintE none from rfl, a1]
  simp only [bind_ok, heapAlloc]
  erw [hs]
  have hg1 : heapGet h1.mods fp = .ok o := by rw [hm]; exact ho
  have hset' : heapSet h1.mods fp { o with Require := o.Require ++ [((h1.requires.length + 1 : Nat) : Int)] } = .ok m := hset
  simp only [bind_ok, setLineH_mods, hg1, hset', pure_eq_ok]

/-! ### AddRequire: the loop "first match updated, later matches cleared" -/

theorem firstRest_false_first {α : Type} (m : α → Bool) (id : α → Nat) (upd : α → α) (cleared : α) :
    ∀ (xs : List α) (rest : List α) (first : Option Nat) (dead : List Nat),
      firstRest m id upd cleared xs false = .ok (rest, first, dead) → first = none
  | [], rest, first, dead, h => by simp [firstRest] at h; exact h.2.1.symm
  | x :: xs, rest, first, dead, h => by
    simp only [firstRest] at h
    split at h
    · cases hd : deref (id x) with
      | error err => rw [hd] at h; cases h
      | ok i =>
        rw [hd] at h
        cases hr : firstRest m id upd cleared xs false with
        | error err => rw [hr] at h; cases h
        | ok v =>
          obtain ⟨r1, f1, d1⟩ := v
          rw [hr] at h
          simp only [bind, Except.bind, pure, Except.pure, Bool.false_eq_true, if_false] at h
          cases h
          exact firstRest_false_first m id upd cleared xs _ _ _ hr
    · cases hr : firstRest m id upd cleared xs false with
      | error err => rw [hr] at h; cases h
      | ok v =>
        obtain ⟨r1, f1, d1⟩ := v
        rw [hr] at h
        simp only [bind, Except.bind, pure, Except.pure] at h
        cases h
        exact firstRest_false_first m id upd cleared xs _ _ _ hr

/-- the tokens of a `require` line -/
def reqTokens (path vers : Bytes) : List Bytes := [B "require", Modfile.autoQuote path, vers]

/-- the model after the "update the first match" step -/
def updStepReq (e : EFile) (i : Nat) (x : Modfile.Require) (path vers : Bytes) : EFile :=
  { e with f := { e.f with require := e.f.require.set i { x with mod := { x.mod with version := vers } },
                           syn := Modfile.Edit.updateLine e.f.syn x.lineId (reqTokens path vers) } }

theorem updStep_req {h : Heap} {o : File} {e : EFile} (R : RepFAt h o e) {i : Nat} {r : Int} {x : Modfile.Require}
    (hr : o.Require[i]? = some r) (hx : e.f.require[i]? = some x) (h0 : x.lineId ≠ 0) (path vers : Bytes) :
    ∃ l, heapGet h.lines (x.lineId : Int) = .ok (lineG l) ∧
      RepFAt (setLineH { h with requires := h.requires.set (r.toNat - 1) (requireG { x with mod := { x.mod with version := vers } }) }
          (x.lineId : Int) (updateTokLine (reqTokens path vers) l)) o (updStepReq e i x path vers) := by
  obtain ⟨hg, hle⟩ := R.require.rel.get i r x hr hx
  obtain ⟨l, hl, hid⟩ := R.linesG.ofId h0 hle
  refine ⟨l, hl, ?_⟩
  have R1 := R.setRequire (i := i) (r := r) hr { x with mod := { x.mod with version := vers } } hle
  have R2 := R1.setLine (IdEquiv_updateTok (reqTokens path vers)) (p := (x.lineId : Int)) (l0 := l) hl
  simpa [updStepReq, Modfile.Edit.updateLine, updateTokLine] using R2

/-- the model at the end of the loop -/
def addReqRest (e : EFile) (xpre rest : List Modfile.Require) (syn : Modfile.FileSyntax) (dead : List Nat) : EFile :=
  { e with f := { e.f with require := xpre ++ rest, syn := markAll syn dead } }

def firstSyn (syn : Modfile.FileSyntax) (tokens : List Bytes) : Option Nat → Modfile.FileSyntax
  | some i => Modfile.Edit.updateLine syn i tokens
  | none => syn

theorem AddRequire_loop_sim (f : Int) (path vers : Bytes) (o : File) :
    ∀ (suf : List Int) (xsuf : List Modfile.Require) (pre : List Int) (xpre : List Modfile.Require) (h : Heap) (e : EFile)
      (fuel : Nat) (need : Bool),
      RepFAt h o e → heapGet h.mods f = .ok o → o.Require = pre ++ suf → e.f.require = xpre ++ xsuf → pre.length = xpre.length →
      suf.length + path.length + 2 ≤ fuel →
      match firstRest (fun r : Modfile.Require => r.mod.path == path) (·.lineId)
          (fun r => { r with mod := { r.mod with version := vers } }) Modfile.Edit.clearedRequire xsuf need with
      | .ok (rest, first, dead) =>
        ∃ h', File_AddRequire_loop1 isPrintI quoteI o.Require f path vers fuel (pre.length : Int) h need
            = .ok (len o.Require, h', need && first.isNone) ∧
          h'.mods = h.mods ∧ RepFAt h' o (addReqRest e xpre rest (firstSyn e.f.syn (reqTokens path vers) first) dead)
      | .error _ => File_AddRequire_loop1 isPrintI quoteI o.Require f path vers fuel (pre.length : Int) h need = .error .panic
  | [], xsuf, pre, xpre, h, e, fuel, need, R, hmo, ho, he, hl, hf => by
    obtain ⟨fuel, rfl⟩ : ∃ k, fuel = k + 1 := ⟨fuel - 1, by omega⟩
    have hx : xsuf = [] := REntsL.nil_of_nil (by have := R.require.rel; rwa [ho, he] at this) hl
    subst hx
    simp only [firstRest]
    refine ⟨h, ?_, rfl, ?_⟩
    · unfold File_AddRequire_loop1
      have : o.Require = pre := by simpa using ho
      simp [this, not_lt_len_end, len_eq]
    · have : addReqRest e xpre [] (firstSyn e.f.syn (reqTokens path vers) none) [] = e := by
        simp only [addReqRest, firstSyn, markAll, List.foldl_nil, List.append_nil]
        rw [show xpre = e.f.require by simpa using he.symm]
      rw [this]; exact R
  | r :: suf, xsuf, pre, xpre, h, e, fuel, need, R, hmo, ho, he, hl, hf => by
    obtain ⟨fuel, rfl⟩ : ∃ k, fuel = k + 1 := ⟨fuel - 1, by omega⟩
    obtain ⟨x, xsuf, rfl⟩ := REntsL.cons_of_cons (by have := R.require.rel; rwa [ho, he] at this) hl
    have hr : o.Require[pre.length]? = some r := by rw [ho]; simp
    have hx : e.f.require[pre.length]? = some x := by rw [he, hl]; simp
    obtain ⟨hg, hle⟩ := R.require.rel.get _ r x hr hx
    have hB : ([114, 101, 113, 117, 105, 114, 101] : Bytes) = B "require" := by decide +kernel
    have hstep : File_AddRequire_loop1 isPrintI quoteI o.Require f path vers (fuel + 1) (pre.length : Int) h need =
        (if (x.mod.path == path) = true then
          (if need = true then (do
            let t7 ← heapSet h.requires r (requireG { x with mod := { x.mod with version := vers } })
            let t11 ← FileSyntax_updateLine o.Syntax (x.lineId : Int) (reqTokens path vers) { h with requires := t7 }
            File_AddRequire_loop1 isPrintI quoteI o.Require f path vers fuel ((pre.length : Int) + 1) t11.2 false)
          else (do
            let t7 ← (Line_markRemoved (x.lineId : Int) h)
            let t9 ← heapGet t7.2.requires r
            let t10 ← heapSet t7.2.requires r (default : Require)
            File_AddRequire_loop1 isPrintI quoteI o.Require f path vers fuel ((pre.length : Int) + 1) { t7.2 with requires := t10 } need))
        else File_AddRequire_loop1 isPrintI quoteI o.Require f path vers fuel ((pre.length : Int) + 1) h need) := by
      conv => lhs; unfold File_AddRequire_loop1
      rw [ho]
      simp only [lt_len_mid, decide_true, if_true, idxL_mid, bind_ok, hg]
      by_cases hm : x.mod.path = path
      · have h1 : decide ((requireG x).Mod.Path = path) = true := decide_eq_true hm
        have h2 : (x.mod.path == path) = true := by simpa using hm
        rw [if_pos h1, if_pos h2]
        cases need with
        | false => simp only [Bool.false_eq_true, if_false]; rfl
        | true =>
          simp only [if_true]
          have hs : heapSet h.requires r { requireG x with Mod := { (requireG x).Mod with Version := vers } } =
              .ok (h.requires.set (r.toNat - 1) (requireG { x with mod := { x.mod with version := vers } })) := heapSet_of_get _ hg
          rw [hs, heapSet_of_get _ hg]
          simp only [bind_ok, hmo, heapGet_listSet_same _ hg, AutoQuote_ok path fuel (by omega), hB]
          rfl
      · have h1 : ¬ (decide ((requireG x).Mod.Path = path) = true) := by
          intro hd; exact hm (of_decide_eq_true hd)
        have h2 : ¬ ((x.mod.path == path) = true) := by simpa using hm
        rw [if_neg h1, if_neg h2]
    rw [hstep, succ_len_snoc pre r]
    simp only [firstRest]
    by_cases hm : (x.mod.path == path) = true
    · simp only [hm, ↓reduceIte]
      by_cases h0 : x.lineId = 0
      · simp only [deref, h0, nilId, beq_self_eq_true, if_true, bind, Except.bind]
        cases need with
        | false =>
          simp only [Bool.false_eq_true, if_false]
          rw [Line_markRemoved_nil (by simp)]
        | true =>
          simp only [if_true]
          rw [heapSet_of_get _ hg]
          simp only [bind_ok]
          rw [FileSyntax_updateLine_nil _ (by simp)]
      · have hd : deref x.lineId = .ok x.lineId := by simp [deref, nilId, h0]
        simp only [hd, bind, Except.bind]
        cases need with
        | true =>
          simp only [if_true]
          obtain ⟨l, hline, R'⟩ := updStep_req R hr hx h0 path vers
          rw [heapSet_of_get _ hg]
          simp only [bind_ok]
          have hU := FileSyntax_updateLine_eq
            (h := { h with requires := h.requires.set (r.toNat - 1) (requireG { x with mod := { x.mod with version := vers } }) })
            (x := o.Syntax) (l := l) (tokens := reqTokens path vers) hline (fun _ => by simp [reqTokens])
          rw [hU]
          dsimp only
          have ih := AddRequire_loop_sim f path vers o suf xsuf (pre ++ [r])
            (xpre ++ [{ x with mod := { x.mod with version := vers } }]) _ _ fuel false R' hmo
            (by simp [ho]) (by simp [updStepReq, he, hl]) (by simp [hl]) (by simp at hf; omega)
          cases hc : firstRest (fun r : Modfile.Require => r.mod.path == path) (·.lineId)
              (fun r => { r with mod := { r.mod with version := vers } }) Modfile.Edit.clearedRequire xsuf false with
          | error err => rw [hc] at ih; simpa using ih
          | ok v =>
            obtain ⟨rest, first, dead⟩ := v
            have hfn := firstRest_false_first _ _ _ _ _ _ _ _ hc
            subst hfn
            rw [hc] at ih
            obtain ⟨h', h1, hm', h2⟩ := ih
            dsimp only [pure, Except.pure]
            refine ⟨h', by simpa using h1, hm', ?_⟩
            have : addReqRest (updStepReq e pre.length x path vers) (xpre ++ [{ x with mod := { x.mod with version := vers } }]) rest
                (firstSyn (updStepReq e pre.length x path vers).f.syn (reqTokens path vers) none) dead =
              addReqRest e xpre ({ x with mod := { x.mod with version := vers } } :: rest)
                (firstSyn e.f.syn (reqTokens path vers) (some x.lineId)) dead := by
              simp [addReqRest, updStepReq, firstSyn]
            rw [← this]; exact h2
        | false =>
          simp only [Bool.false_eq_true, if_false]
          obtain ⟨l, hline, R'⟩ := dropStep_req R hr hx h0
          rw [Line_markRemoved_eq hline]
          simp only [bind_ok, setLineH_requires, hg, heapSet_of_get _ hg]
          have ih := AddRequire_loop_sim f path vers o suf xsuf (pre ++ [r]) (xpre ++ [Modfile.Edit.clearedRequire]) _ _ fuel false R' hmo
            (by simp [ho]) (by simp [dropStepReq, he, hl]) (by simp [hl]) (by simp at hf; omega)
          cases hc : firstRest (fun r : Modfile.Require => r.mod.path == path) (·.lineId)
              (fun r => { r with mod := { r.mod with version := vers } }) Modfile.Edit.clearedRequire xsuf false with
          | error err => rw [hc] at ih; simpa using ih
          | ok v =>
            obtain ⟨rest, first, dead⟩ := v
            have hfn := firstRest_false_first _ _ _ _ _ _ _ _ hc
            subst hfn
            rw [hc] at ih
            obtain ⟨h', h1, hm', h2⟩ := ih
            dsimp only [pure, Except.pure]
            refine ⟨h', by simpa using h1, hm', ?_⟩
            have : addReqRest (dropStepReq e pre.length x) (xpre ++ [Modfile.Edit.clearedRequire]) rest
                (firstSyn (dropStepReq e pre.length x).f.syn (reqTokens path vers) none) dead =
              addReqRest e xpre (Modfile.Edit.clearedRequire :: rest) (firstSyn e.f.syn (reqTokens path vers) none) (x.lineId :: dead) := by
              simp [addReqRest, dropStepReq, firstSyn, markAll]
            rw [← this]; exact h2
    · simp only [hm, Bool.false_eq_true, ↓reduceIte]
      have ih := AddRequire_loop_sim f path vers o suf xsuf (pre ++ [r]) (xpre ++ [x]) h e fuel need R hmo
        (by simp [ho]) (by simp [he]) (by simp [hl]) (by simp at hf; omega)
      simp only [bind, Except.bind]
      cases hc : firstRest (fun r : Modfile.Require => r.mod.path == path) (·.lineId)
          (fun r => { r with mod := { r.mod with version := vers } }) Modfile.Edit.clearedRequire xsuf need with
      | error err => rw [hc] at ih; simpa using ih
      | ok v =>
        obtain ⟨rest, first, dead⟩ := v
        rw [hc] at ih
        obtain ⟨h', h1, hm', h2⟩ := ih
        dsimp only [pure, Except.pure]
        refine ⟨h', h1, hm', ?_⟩
        have : addReqRest e (xpre ++ [x]) rest (firstSyn e.f.syn (reqTokens path vers) first) dead =
            addReqRest e xpre (x :: rest) (firstSyn e.f.syn (reqTokens path vers) first) dead := by
          simp [addReqRest]
        rw [← this]; exact h2

theorem firstRest_true_none {α : Type} (m : α → Bool) (id : α → Nat) (upd : α → α) (cleared : α) :
    ∀ (xs : List α) (rest : List α) (dead : List Nat),
      firstRest m id upd cleared xs true = .ok (rest, none, dead) → rest = xs ∧ dead = []
  | [], rest, dead, h => by simp [firstRest] at h; exact ⟨h.1, h.2⟩
  | x :: xs, rest, dead, h => by
    simp only [firstRest] at h
    split at h
    · cases hd : deref (id x) with
      | error err => rw [hd] at h; cases h
      | ok i =>
        rw [hd] at h
        cases hr : firstRest m id upd cleared xs false with
        | error err => rw [hr] at h; cases h
        | ok v =>
          rw [hr] at h
          simp only [bind, Except.bind, pure, Except.pure, if_true] at h
          cases h
    · cases hr : firstRest m id upd cleared xs true with
      | error err => rw [hr] at h; cases h
      | ok v =>
        obtain ⟨r1, f1, d1⟩ := v
        rw [hr] at h
        simp only [bind, Except.bind, pure, Except.pure] at h
        cases h
        obtain ⟨h1, h2⟩ := firstRest_true_none m id upd cleared xs _ _ hr
        exact ⟨by rw [h1], h2⟩

theorem File_AddRequire_sim (A : AddLineSpec) {h : Heap} {fp : Int} {e : EFile} (R : RepF h fp e) (path vers : Bytes) (fuel : Nat)
    (hf : e.f.require.length + path.length + 2 ≤ fuel) (hf2 : nodeCount e.f.syn.stmts + 3 ≤ fuel) :
    match Modfile.Edit.addRequire e path vers with
    | .ok e' => ∃ h', File_AddRequire isPrintI quoteI fuel fp path vers h = .ok (none, h') ∧ RepF h' fp e'
    | .error _ => File_AddRequire isPrintI quoteI fuel fp path vers h = .error .panic := by
  obtain ⟨o, ho, R⟩ := R
  have hlen := R.require.rel.length
  have := AddRequire_loop_sim fp path vers o o.Require e.f.require [] [] h e fuel true R ho rfl rfl rfl (by omega)
  unfold File_AddRequire Modfile.Edit.addRequire
  simp only [ho, bind_ok]
  simp only [List.length_nil, show ((0 : Nat) : Int) = 0 from rfl] at this
  cases hc : firstRest (fun r : Modfile.Require => r.mod.path == path) (·.lineId)
      (fun r => { r with mod := { r.mod with version := vers } }) Modfile.Edit.clearedRequire e.f.require true with
  | error err => rw [hc] at this; simp [this, bind, Except.bind]
  | ok v =>
    obtain ⟨rest, first, dead⟩ := v
    rw [hc] at this
    obtain ⟨h', h1, hm, h2⟩ := this
    rw [h1]
    simp only [bind, Except.bind]
    cases first with
    | some i =>
      simp only [Option.isNone_some, Bool.and_false, Bool.false_eq_true, if_false, pure, Except.pure]
      exact ⟨h', rfl, o, by rw [hm]; exact ho, by simpa [addReqRest, firstSyn, reqTokens] using h2⟩
    | none =>
      obtain ⟨hr1, hd1⟩ := firstRest_true_none _ _ _ _ _ _ _ hc
      subst hr1 hd1
      have he : addReqRest e [] e.f.require (firstSyn e.f.syn (reqTokens path vers) none) [] = e := by
        simp [addReqRest, firstSyn, markAll]
      rw [he] at h2
      obtain ⟨h'', a1, a2⟩ := File_AddNewRequire_simAt A (fp := fp) (by rw [hm]; exact ho) h2 path vers false fuel hf2 (by omega)
      simp only [Option.isNone_none, Bool.and_true, if_true, a1, pure, Except.pure]
      exact ⟨h'', rfl, a2⟩

end ModVerif.Tie.FnEditReqB
