/-
  Round trips of the text encodings of /repo/sumdb/tlog (note.go, Hash text forms):
  `parseHash ∘ hashString`, `unmarshalJSON ∘ marshalJSON`, `parseTree ∘ formatTree`,
  `parseRecord ∘ formatRecord`.
-/
import ModVerif.Model.TlogNote
import ModVerif.Proofs.Base64
import ModVerif.Proofs.Decimal
namespace ModVerif.TlogNote
open ModVerif ModVerif.Tlog

/-! ### hashes -/

theorem parseHash_hashString (h : Bytes) (hl : h.length = 32) : parseHash (hashString h) = some h := by
  simp [parseHash, hashString, Base64.decodeStd_encodeStd, hl, HashSize]

theorem unmarshalJSON_marshalJSON (h : Bytes) (hl : h.length = 32) :
    unmarshalJSON (marshalJSON h) = some h := by
  have hraw := Base64.encodeRawStd_length_32 h hl
  have hdec := Base64.decodeRawStd_encodeRawStd h
  have heq : marshalJSON h = 34 :: (Base64.encodeRawStd h ++ [61, 34]) := by
    simp [marshalJSON, hashString, Base64.encodeStd_eq_raw_append h (by omega)]
  have hlen : (marshalJSON h).length = 46 := by rw [heq]; simp [hraw]
  have h0 : (marshalJSON h)[0]? = some 34 := by rw [heq]; rfl
  have h44 : (marshalJSON h)[44]? = some 61 := by
    rw [heq, List.getElem?_cons_succ, List.getElem?_append_right (by omega)]
    simp [hraw]
  have h45 : (marshalJSON h)[45]? = some 34 := by
    rw [heq, List.getElem?_cons_succ, List.getElem?_append_right (by omega)]
    simp [hraw]
  have htd : ((marshalJSON h).take 44).drop 1 = Base64.encodeRawStd h := by
    rw [heq]
    simp only [List.take_succ_cons, List.drop_succ_cons, List.drop_zero]
    rw [List.take_append_of_le_length (by omega)]
    exact List.take_of_length_le (by omega)
  unfold unmarshalJSON
  simp only [hlen, h0, h44, h45, htd, hdec]
  simp [hl, HashSize]

/-! ### generic list facts -/

theorem isPrefixOfB_append : ∀ (p x : Bytes), isPrefixOfB p (p ++ x) = true
  | [], _ => by simp [isPrefixOfB]
  | a :: p, x => by simp [isPrefixOfB, isPrefixOfB_append p x]

theorem countNL_append (a b : Bytes) : countNL (a ++ b) = countNL a + countNL b := by
  simp [countNL]

theorem span_loop_no_nl : ∀ (a rest acc : Bytes), (10 : UInt8) ∉ a →
    List.span.loop (· != 10) (a ++ 10 :: rest) acc = (acc.reverse ++ a, 10 :: rest)
  | [], rest, acc, _ => by simp [List.span.loop]
  | c :: a, rest, acc, h => by
    have hc : c ≠ 10 := fun e => h (by simp [e])
    have ha : (10 : UInt8) ∉ a := fun e => h (by simp [e])
    have hc' : (c != 10) = true := by simpa using hc
    simp [List.span.loop, hc', span_loop_no_nl a rest (c :: acc) ha]

theorem span_no_nl (a rest : Bytes) (h : (10 : UInt8) ∉ a) :
    (a ++ 10 :: rest).span (· != 10) = (a, 10 :: rest) := by
  simp [List.span, span_loop_no_nl a rest [] h]

/-! ### tree heads -/

theorem treePrefix_eq : treePrefix =
    [103, 111, 46, 115, 117, 109, 32, 100, 97, 116, 97, 98, 97, 115, 101, 32, 116, 114, 101, 101] ++ [10] := by
  decide +kernel

theorem formatInt_length_le (n : Int) (hn : 0 ≤ n) (hm : n ≤ Decimal.int64Max) :
    (Decimal.formatInt n).length ≤ 19 := by
  cases n with
  | ofNat k =>
    apply Decimal.formatNat_length_le k 19 (by omega)
    have : (10 : Nat) ^ 19 = 10000000000000000000 := by decide
    rw [this]
    simp only [Decimal.int64Max, Int.ofNat_eq_natCast] at hm
    omega
  | negSucc k => omega

theorem parseTree_formatTree (t : Tree) (hn : 0 ≤ t.n) (hm : t.n ≤ Decimal.int64Max)
    (hl : t.hash.length = 32) : parseTree (formatTree t) = some t := by
  obtain ⟨n, hash⟩ := t
  simp only at hn hm hl
  have hnl1 := Decimal.formatInt_no_newline n
  have hnl2 : (10 : UInt8) ∉ hashString hash := Base64.encodeStd_no_newline hash
  have hlen1 := formatInt_length_le n hn hm
  have hlen2 : (hashString hash).length = 44 := Base64.encodeStd_length_32 hash hl
  have hmin : Decimal.int64Min ≤ n := by simp only [Decimal.int64Min]; omega
  have hpi := Decimal.parseInt64_formatInt n hmin hm
  have hdec : Base64.decodeStd (hashString hash) = some hash := Base64.decodeStd_encodeStd hash
  have hpre : isPrefixOfB treePrefix (formatTree ⟨n, hash⟩) = true := by
    simp only [formatTree, List.append_assoc]
    exact isPrefixOfB_append _ _
  have hcnt : ¬ countNL (formatTree ⟨n, hash⟩) < 3 := by
    simp only [formatTree, countNL_append]
    have h1 : countNL treePrefix = 1 := by decide +kernel
    have h2 : countNL [10] = 1 := by decide
    omega
  have hlen : ¬ (formatTree ⟨n, hash⟩).length > 1000000 := by
    simp only [formatTree, List.length_append, hlen2]
    have : treePrefix.length = 21 := by decide +kernel
    simp only [this, List.length_cons, List.length_nil]
    omega
  have hsplit : splitN 4 (formatTree ⟨n, hash⟩) =
      [[103, 111, 46, 115, 117, 109, 32, 100, 97, 116, 97, 98, 97, 115, 101, 32, 116, 114, 101, 101],
        Decimal.formatInt n, hashString hash, []] := by
    have e : formatTree ⟨n, hash⟩ =
        [103, 111, 46, 115, 117, 109, 32, 100, 97, 116, 97, 98, 97, 115, 101, 32, 116, 114, 101, 101] ++
          10 :: (Decimal.formatInt n ++ 10 :: (hashString hash ++ 10 :: [])) := by
      simp [formatTree, treePrefix_eq]
    rw [e]
    have hnl0 : (10 : UInt8) ∉ ([103, 111, 46, 115, 117, 109, 32, 100, 97, 116, 97, 98, 97, 115,
        101, 32, 116, 114, 101, 101] : Bytes) := by decide
    rw [splitN, span_no_nl _ _ hnl0]
    simp only
    rw [splitN, span_no_nl _ _ hnl1]
    simp only
    rw [splitN, span_no_nl _ _ hnl2]
    simp only [splitN]
  unfold parseTree
  simp only [hpre, hcnt, hlen, hsplit, hpi, hdec]
  simp [hl, HashSize, hn]

/-! ### records -/

/-- no two adjacent newline bytes -/
def noDbl : Bytes → Bool
  | a :: b :: rest => !(a == 10 && b == 10) && noDbl (b :: rest)
  | _ => true

theorem noDbl_cons (b : UInt8) (l : Bytes) (h : noDbl l = true) (hb : b = 10 → l.head? ≠ some 10) :
    noDbl (b :: l) = true := by
  cases l with
  | nil => simp [noDbl]
  | cons c l =>
    simp only [noDbl, Bool.and_eq_true, h, and_true]
    simp only [List.head?_cons, ne_eq, Option.some.injEq] at hb
    simp only [Bool.not_eq_true', Bool.and_eq_false_iff, beq_eq_false_iff_ne, ne_eq]
    by_cases e : b = 10
    · exact Or.inr (hb e)
    · exact Or.inl e

theorem noDbl_append_ne : ∀ (cs l : Bytes), (∀ c ∈ cs, c ≠ 10) → noDbl l = true →
    noDbl (cs ++ l) = true
  | [], l, _, h => h
  | c :: cs, l, hc, h => by
    have := noDbl_append_ne cs l (fun x hx => hc x (by simp [hx])) h
    exact noDbl_cons c (cs ++ l) this (fun e => absurd e (hc c (by simp)))

theorem splitBlank_noDbl : ∀ (pre rest : Bytes), noDbl (pre ++ [10]) = true →
    splitBlank (pre ++ 10 :: 10 :: rest) = some (pre, rest)
  | [], rest, _ => by simp [splitBlank]
  | [a], rest, h => by
    have ha : a ≠ 10 := by simpa [noDbl] using h
    simp [splitBlank, ha]
  | a :: b :: pre, rest, h => by
    simp only [List.cons_append, noDbl, Bool.and_eq_true] at h
    have ih := splitBlank_noDbl (b :: pre) rest h.2
    simp only [List.cons_append] at ih
    have hab : (a == 10 && b == 10) = false := by
      have := h.1
      revert this
      cases (a == 10 && b == 10) <;> simp
    simp only [List.cons_append, splitBlank, hab, Bool.false_eq_true, if_false, ih]

/-- what a successful `Utf8.decode` says about the bytes it consumed, as far as '\n' is concerned -/
theorem decode_shape (b : UInt8) (rest : Bytes) (r w : Nat)
    (h : Utf8.decode (b :: rest) = some (r, w)) :
    ∃ cs rest', rest = cs ++ rest' ∧ cs.length = w - 1 ∧ (∀ c ∈ cs, c ≠ 10) ∧
      (r = 10 ↔ b = 10) ∧ (r = 10 → cs = []) := by
  have hb10 : b = 10 ↔ b.toNat = 10 := by
    constructor
    · intro e; subst e; rfl
    · intro e; exact UInt8.toNat_inj.1 e
  have ne10 : ∀ c : UInt8, 11 ≤ c.toNat → c ≠ 10 := by
    intro c hc e; subst e; exact absurd hc (by decide)
  unfold Utf8.decode at h
  simp only at h
  split at h
  · -- ASCII
    simp only [Option.some.injEq, Prod.mk.injEq] at h
    refine ⟨[], rest, rfl, by simp; omega, by simp, ?_, fun _ => rfl⟩
    rw [hb10]; omega
  split at h
  · exact absurd h (by simp)
  split at h
  · -- two bytes
    cases rest with
    | nil => exact absurd h (by simp)
    | cons b1 t =>
      simp only [Option.ite_none_right_eq_some, Option.some.injEq, Prod.mk.injEq] at h
      obtain ⟨hc1, hr, hw⟩ := h
      simp only [Utf8.isCont, Bool.and_eq_true, decide_eq_true_eq] at hc1
      refine ⟨[b1], t, rfl, by simp; omega, ?_, ?_, ?_⟩
      · intro c hc; simp only [List.mem_singleton] at hc; subst hc; exact ne10 _ (by omega)
      · rw [hb10]; omega
      · intro e; omega
  split at h
  · -- three bytes
    cases rest with
    | nil => exact absurd h (by simp)
    | cons b1 t =>
      cases t with
      | nil => exact absurd h (by simp)
      | cons b2 t =>
        simp only [Option.ite_none_right_eq_some, Option.some.injEq, Prod.mk.injEq,
          Bool.and_eq_true] at h
        obtain ⟨⟨hc1, hc2⟩, hr, hw⟩ := h
        simp only [Utf8.isCont, Bool.and_eq_true, decide_eq_true_eq] at hc2
        have hb1 : 0x80 ≤ b1.toNat ∧ (b.toNat = 0xE0 → 0xA0 ≤ b1.toNat) := by
          by_cases e : b.toNat = 0xE0
          · simp [e, Utf8.inRange] at hc1; omega
          · simp only [beq_iff_eq, e, if_false] at hc1
            split at hc1 <;> simp [Utf8.inRange] at hc1 <;> omega
        refine ⟨[b1, b2], t, rfl, by simp; omega, ?_, ?_, ?_⟩
        · intro c hcm
          simp only [List.mem_cons, List.not_mem_nil, or_false] at hcm
          rcases hcm with rfl | rfl
          · exact ne10 _ (by omega)
          · exact ne10 _ (by omega)
        · rw [hb10]
          by_cases e : b.toNat = 0xE0
          · have := hb1.2 e; omega
          · omega
        · intro e'
          by_cases e : b.toNat = 0xE0
          · have := hb1.2 e; omega
          · omega
  split at h
  · -- four bytes
    cases rest with
    | nil => exact absurd h (by simp)
    | cons b1 t =>
      cases t with
      | nil => exact absurd h (by simp)
      | cons b2 t =>
        cases t with
        | nil => exact absurd h (by simp)
        | cons b3 t =>
          simp only [Option.ite_none_right_eq_some, Option.some.injEq, Prod.mk.injEq,
            Bool.and_eq_true] at h
          obtain ⟨⟨⟨hc1, hc2⟩, hc3⟩, hr, hw⟩ := h
          simp only [Utf8.isCont, Bool.and_eq_true, decide_eq_true_eq] at hc2 hc3
          have hb1 : 0x80 ≤ b1.toNat ∧ (b.toNat = 0xF0 → 0x90 ≤ b1.toNat) := by
            by_cases e : b.toNat = 0xF0
            · simp [e, Utf8.inRange] at hc1; omega
            · simp only [beq_iff_eq, e, if_false] at hc1
              split at hc1 <;> simp [Utf8.inRange] at hc1 <;> omega
          refine ⟨[b1, b2, b3], t, rfl, by simp; omega, ?_, ?_, ?_⟩
          · intro c hcm
            simp only [List.mem_cons, List.not_mem_nil, or_false] at hcm
            rcases hcm with rfl | rfl | rfl
            · exact ne10 _ (by omega)
            · exact ne10 _ (by omega)
            · exact ne10 _ (by omega)
          · rw [hb10]
            by_cases e : b.toNat = 0xF0
            · have := hb1.2 e; omega
            · omega
          · intro e'
            by_cases e : b.toNat = 0xF0
            · have := hb1.2 e; omega
            · omega
  · exact absurd h (by simp)

theorem isValidAux_skip : ∀ (cs : Bytes) (last : Nat) (l : Bytes),
    isValidRecordTextAux cs.length last (cs ++ l) = isValidRecordTextAux 0 last l
  | [], _, _ => rfl
  | c :: cs, last, l => by
    simp only [List.length_cons, List.cons_append, isValidRecordTextAux]
    exact isValidAux_skip cs last l

/-- the invariant of the validity scan, `last` being the previous rune -/
def Good (last : Nat) (l : Bytes) : Prop :=
  noDbl l = true ∧ (last = 10 → l.head? ≠ some 10) ∧ (l = [] → last = 10) ∧
    (l ≠ [] → l.getLast? = some 10)

theorem isValidAux_good : ∀ (n : Nat) (l : Bytes) (last : Nat), l.length ≤ n →
    isValidRecordTextAux 0 last l = true → Good last l := by
  intro n
  induction n with
  | zero =>
    intro l last hl h
    have : l = [] := List.length_eq_zero_iff.1 (by omega)
    subst this
    simp only [isValidRecordTextAux, beq_iff_eq] at h
    exact ⟨rfl, by simp, fun _ => h, fun e => absurd rfl e⟩
  | succ n ih =>
    intro l last hl h
    cases l with
    | nil =>
      simp only [isValidRecordTextAux, beq_iff_eq] at h
      exact ⟨rfl, by simp, fun _ => h, fun e => absurd rfl e⟩
    | cons b rest =>
      rw [isValidRecordTextAux] at h
      cases hd : Utf8.decode (b :: rest) with
      | none => rw [hd] at h; exact absurd h (by simp)
      | some rw' =>
        obtain ⟨r, w⟩ := rw'
        rw [hd] at h
        simp only at h
        split at h
        · exact absurd h (by simp)
        · rename_i hcond
          obtain ⟨cs, rest', hrest, hcl, hcs, hr10, hrcs⟩ := decode_shape b rest r w hd
          subst hrest
          rw [← hcl, isValidAux_skip] at h
          have hlen : rest'.length ≤ n := by
            simp only [List.length_cons, List.length_append] at hl; omega
          obtain ⟨g1, g2, g3, g4⟩ := ih rest' r hlen h
          have hlast : ¬ (last = 10 ∧ r = 10) := by
            intro ⟨e1, e2⟩
            apply hcond
            simp [e1, e2]
          refine ⟨?_, ?_, fun e => by simp at e, fun _ => ?_⟩
          · apply noDbl_cons
            · exact noDbl_append_ne cs rest' hcs g1
            · intro e
              have hr := hr10.2 e
              rw [hrcs hr]
              exact g2 hr
          · intro e
            simp only [List.head?_cons, ne_eq, Option.some.injEq]
            intro eb
            exact hlast ⟨e, hr10.2 eb⟩
          · by_cases hne : rest' = []
            · have hr := g3 hne
              subst hne
              rw [hrcs hr, hr10.1 hr]; rfl
            · rw [show b :: (cs ++ rest') = (b :: cs) ++ rest' from rfl,
                List.getLast?_append, g4 hne]
              rfl

theorem isValidRecordText_shape (text : Bytes) (h : isValidRecordText text = true) :
    ∃ pre, text = pre ++ [10] ∧ noDbl text = true := by
  obtain ⟨g1, _, g3, g4⟩ := isValidAux_good text.length text 0 (Nat.le_refl _) h
  have hne : text ≠ [] := fun e => absurd (g3 e) (by decide)
  have hl := g4 hne
  obtain ⟨pre, hpre⟩ := List.getLast?_eq_some_iff.1 hl
  exact ⟨pre, hpre, g1⟩

theorem parseRecord_formatRecord (id : Int) (text rest msg : Bytes)
    (h1 : Decimal.int64Min ≤ id) (h2 : id ≤ Decimal.int64Max)
    (hf : formatRecord id text = some msg) :
    parseRecord (msg ++ rest) = some (id, text, rest) := by
  unfold formatRecord at hf
  split at hf
  · exact absurd hf (by simp)
  · rename_i hv
    simp only [Bool.not_eq_true, Bool.not_eq_false'] at hv
    simp only [Option.some.injEq] at hf
    subst hf
    obtain ⟨pre, hpre, hnd⟩ := isValidRecordText_shape text hv
    subst hpre
    have hnl := Decimal.formatInt_no_newline id
    have hpi := Decimal.parseInt64_formatInt id h1 h2
    have hsb := splitBlank_noDbl pre rest hnd
    unfold parseRecord
    simp only [List.append_assoc, List.cons_append, List.nil_append]
    rw [span_no_nl _ _ hnl]
    simp only [hpi]
    rw [hsb]
    simp only [hv]
    simp

end ModVerif.TlogNote
