/-
  C02, end-of-line comments, stage (v): formatting a well-shaped tree WITH end-of-line comments and parsing
  the result.

  * `reparse_ewf` — `parse name (format f)` succeeds and yields `f` with positions / identities erased, every
    comment text trimmed, and the comment of a one-line block `x ( ) // c` moved from the block to its `)`
    (`normFileE`); every end-of-line comment is re-attached to the node it was printed after.
  * `format_idem_ewf` — formatting that tree again gives the same bytes.
-/
import ModVerif.Proofs.ModfileEolAssign
namespace ModVerif.Proofs.ModfileEol
open ModVerif ModVerif.Modfile ModVerif.Proofs.ModfileLex
open ModVerif.Proofs.ModfileFmtLex ModVerif.Proofs.ModfileFmtLine ModVerif.Proofs.ModfileFmtStream
open ModVerif.Proofs.ModfileFmtTree ModVerif.Proofs.ModfileFmtParse ModVerif.Proofs.ModfileFmtRender
open ModVerif.Proofs.ModfileFmtMain ModVerif.Proofs.ModfileFmtTrim

/-! ### line identities do not matter to `assignComments` -/

def zidF (f : FileSyntax) : FileSyntax := { f with stmts := f.stmts.map zidE }

theorem preLines_zid : ∀ (ls : List Line) (line : List Comment),
    preLines (ls.map zidL) line = ((preLines ls line).1.map zidL, (preLines ls line).2) := by
  intro ls
  induction ls with
  | nil => intro _; rfl
  | cons l ls ih =>
    intro line
    simp only [List.map_cons, preLines]
    rw [show (zidL l).start = l.start from rfl, show (zidL l).comments = l.comments from rfl, ih]
    rfl

theorem postLinesRev_zid : ∀ (ls : List Line) (suf : List Comment),
    postLinesRev (ls.map zidL) suf = ((postLinesRev ls suf).1.map zidL, (postLinesRev ls suf).2) := by
  intro ls
  induction ls with
  | nil => intro _; rfl
  | cons l ls ih =>
    intro suf
    simp only [List.map_cons, postLinesRev]
    rw [show (zidL l).start = l.start from rfl, show (zidL l).comments = l.comments from rfl,
      show (zidL l).«end» = l.«end» from rfl, ih]
    rfl

theorem zidE_span (s : Expr) : (zidE s).span = s.span := by
  cases s <;> rfl

theorem zidE_comments (s : Expr) : (zidE s).comments = s.comments := by
  cases s <;> rfl

theorem preStmt_zid (s : Expr) (line : List Comment) :
    preStmt (zidE s) line = (zidE (preStmt s line).1, (preStmt s line).2) := by
  cases s with
  | lineBlock b =>
    simp only [zidE, preStmt]
    rw [preLines_zid]
  | commentBlock x => rfl
  | line x => rfl
  | lparen x => rfl
  | rparen x => rfl

theorem postStmt_zid (s : Expr) (suf : List Comment) :
    postStmt (zidE s) suf = (zidE (postStmt s suf).1, (postStmt s suf).2) := by
  cases s with
  | lineBlock b =>
    simp only [zidE, postStmt, Expr.span]
    rw [← List.map_reverse, postLinesRev_zid]
    simp [List.map_reverse]
  | commentBlock x => rfl
  | line x => rfl
  | lparen x => rfl
  | rparen x => rfl

theorem preStmts_zid : ∀ (ss : List Expr) (line : List Comment),
    preStmts (ss.map zidE) line = ((preStmts ss line).1.map zidE, (preStmts ss line).2) := by
  intro ss
  induction ss with
  | nil => intro _; rfl
  | cons s ss ih =>
    intro line
    simp only [List.map_cons, preStmts]
    rw [preStmt_zid, ih]

theorem postStmtsRev_zid : ∀ (ss : List Expr) (suf : List Comment),
    postStmtsRev (ss.map zidE) suf = ((postStmtsRev ss suf).1.map zidE, (postStmtsRev ss suf).2) := by
  intro ss
  induction ss with
  | nil => intro _; rfl
  | cons s ss ih =>
    intro suf
    simp only [List.map_cons, postStmtsRev]
    rw [postStmt_zid, ih]

theorem span_zid (f : FileSyntax) : (zidF f).span = f.span := by
  unfold FileSyntax.span zidF
  simp only [List.head?_map, List.getLast?_map]
  cases f.stmts.head? <;> cases f.stmts.getLast? <;> simp [zidE_span]

/-- `assignComments` commutes with forgetting the line identities -/
theorem assignComments_zid (f : FileSyntax) (cs : List Comment) :
    zidF (assignComments f cs) = assignComments (zidF f) cs := by
  unfold assignComments
  rw [span_zid]
  simp only [zidF]
  rw [preStmts_zid, ← List.map_reverse, postStmtsRev_zid]
  simp [List.map_reverse]

/-! ### the normal form: erase, trim, and move the comment of a one-line block to its `)` -/

def normBlockE (b : LineBlock) : LineBlock :=
  { comments := { before := b.comments.before.map normC, suffix := [], after := b.comments.after.map normC },
    start := {}, lparen := { comments := normCs b.lparen.comments, pos := {} },
    token := b.token, lines := b.lines.map normLine,
    rparen := { comments := { before := b.rparen.comments.before.map normC,
                              suffix := (b.rparen.comments.suffix ++ b.comments.suffix).map normC,
                              after := b.rparen.comments.after.map normC }, pos := {} } }

def normExprE : Expr → Expr
  | .lineBlock b => .lineBlock (normBlockE b)
  | s => normExpr s

def normFileE (f : FileSyntax) : FileSyntax :=
  { name := f.name, comments := normCs f.comments, stmts := f.stmts.map normExprE }

theorem eraseC_befC (m : Nat) : ∀ (cs : List Comment) (R : Bytes) {D : Bytes}, (∀ c ∈ cs, c.suffix = false) →
    (befC D m cs R).map eraseC = cs.map normC := by
  intro cs
  induction cs with
  | nil => intro _ _ _; rfl
  | cons c cs ih =>
    intro R D h
    simp only [befC, List.map_cons, ih R (fun c' hc' => h c' (by simp [hc']))]
    congr 1
    have hs := h c (by simp)
    split
    · rename_i he
      have : GoStrings.trimSpace c.token = [] := by simpa using he
      simp [eraseC, normC, this, hs]
    · simp [eraseC, normC, hs]

theorem eraseC_sufC {D : Bytes} (cs : List Comment) (R : Bytes) (h : SufOK cs) :
    (sufC D cs R).map eraseC = cs.map normC := by
  rcases sufOK_cases h with rfl | ⟨c, rfl, _, hs⟩
  · rfl
  · simp [sufC, eraseC, normC, hs]

theorem blkBefore_suffix : ∀ (cs : List Comment) (allow : Bool), BlkBeforeOK allow cs → ∀ c ∈ cs, c.suffix = false := by
  intro cs
  induction cs with
  | nil => intro _ _ c hc; simp at hc
  | cons c0 cs ih =>
    intro allow h c hc
    unfold BlkBeforeOK at h
    by_cases he : c0.token.isEmpty = true
    · simp only [he, if_true] at h
      rcases List.mem_cons.1 hc with rfl | hc
      · exact h.2.1
      · exact ih false h.2.2 c hc
    · simp only [he, Bool.false_eq_true, if_false] at h
      rcases List.mem_cons.1 hc with rfl | hc
      · exact h.1
      · exact ih true h.2.2 c hc

theorem erase_aLines {D : Bytes} : ∀ (ls : List Line) (allow : Bool) (Z : Bytes), EWFBlkLines allow ls →
    (aLines D ls Z).map eraseLine = ls.map normLine := by
  intro ls
  induction ls with
  | nil => intro _ _ _; rfl
  | cons l ls ih =>
    intro allow Z hwf
    obtain ⟨hl, hls⟩ := hwf
    simp only [aLines, List.map_cons, ih true Z hls]
    congr 1
    simp only [eraseLine, normLine, eraseCs, normCs, List.map_nil, hl.after, hl.inBlock,
      eraseC_befC 1 _ _ (blkBefore_suffix _ _ hl.before), eraseC_sufC _ _ hl.suffix]

/-- ★ the re-attached tree, with positions erased, is the normal form of the original -/
theorem erase_aStmt {D : Bytes} (s : Expr) (R : Bytes) (hwf : EWFStmt s) : eraseExpr (aStmt D s R) = normExprE s := by
  cases s with
  | commentBlock x =>
    obtain ⟨_, hb, hs, ha⟩ := hwf
    simp only [aStmt, eStmt, eraseExpr, normExprE, normExpr, eraseCs, normCs, List.map_nil, hs, ha,
      eraseC_befC 0 _ _ (fun c hc => (hb c hc).1)]
  | line l =>
    have hwf : EWFLine l := hwf
    simp only [aStmt, eraseExpr, normExprE, normExpr, eraseLine, normLine, eraseCs, normCs, List.map_nil,
      hwf.after, hwf.inBlock, eraseC_befC 0 _ _ (fun c hc => (hwf.before c hc).1), eraseC_sufC _ _ hwf.suffix]
  | lineBlock b =>
    have hwf : EWFBlock b := hwf
    simp only [aStmt, eraseExpr, normExprE, eraseBlock, normBlockE, eraseCs, normCs, List.map_nil,
      hwf.after, hwf.lbefore, hwf.lafter, hwf.rafter, erase_aLines b.lines false _ hwf.lines,
      eraseC_befC 0 _ _ (fun c hc => (hwf.before c hc).1),
      eraseC_befC 0 _ _ (blkBefore_suffix _ _ hwf.rbefore), eraseC_sufC _ _ hwf.lsuffix,
      eraseC_sufC _ _ hwf.rsuffix, rsOf]
  | lparen x => exact absurd hwf id
  | rparen x => exact absurd hwf id

theorem erase_aStmts {D : Bytes} : ∀ (ss : List Expr), EWFStmts ss → (aStmts D ss).map eraseExpr = ss.map normExprE := by
  intro ss
  induction ss with
  | nil => intro _; rfl
  | cons s rest ih =>
    intro hwf
    rw [aStmts_cons]
    simp only [List.map_cons, erase_aStmt s _ (hwf s (by simp)), ih (fun x hx => hwf x (by simp [hx]))]

theorem eraseExpr_zid (s : Expr) : eraseExpr (zidE s) = eraseExpr s := by
  cases s with
  | lineBlock b => simp [zidE, eraseExpr, eraseBlock, eraseLine, zidL]
  | line l => simp [zidE, eraseExpr, eraseLine, zidL]
  | commentBlock x => rfl
  | lparen x => rfl
  | rparen x => rfl

/-! ### parse ∘ format on well-shaped trees with end-of-line comments -/

/-- ★ stage (iii): parsing the formatted text of a well-shaped tree gives (before comment assignment) the
    statement list `eStmts`, in which every position is explicit — `pa D r`, the position where the suffix `r`
    of the formatted text `D` begins, so that positions are ordered as printed — and the lexer records exactly
    the printed end-of-line comments `stmtsC`, each with the position where its text starts. -/
theorem parseFile_rendered (f : FileSyntax) (hwf : EWFStmts f.stmts) (hc : f.comments.before = []) :
    format f = stmtsB f.stmts ∧
    ∃ out i', parseFile (format f) = .ok (out, i') ∧ out.map zidE = eStmts (format f) f.stmts ∧
      i'.commentsRev.reverse = stmtsC (format f) f.stmts := by
  have hfmt : format f = stmtsB f.stmts := by rw [format_eq_rStmtsE f hwf hc, ← stmtsB_eq f.stmts hwf]
  refine ⟨hfmt, ?_⟩
  obtain ⟨D, hD⟩ : ∃ D, D = format f := ⟨_, rfl⟩
  rw [← hD]
  have hD' : D = stmtsB f.stmts := by rw [hD, hfmt]
  have hlex := lexesE_stmts (D := D) f.stmts hwf
  rw [← hD'] at hlex
  obtain ⟨i0, hr0, _, hc0, hS0⟩ := hlex (newInput D) (si_newInput D) rfl (newInput_lineStart D)
  -- fuel
  have hm : ModfileParse.m i0 ≤ D.length := by
    rcases readToken_spec (newInput D) with ⟨i1, h1, hle, hlt, _⟩ | ⟨e, h1, _⟩
    · rw [hr0] at h1
      have : i0 = i1 := by cases h1; rfl
      subst this
      have hrem : (newInput D).remaining = D := rfl
      rw [hrem] at hle hlt
      unfold ModfileParse.m
      by_cases hk : i0.token.kind = .eof
      · simp only [hk, if_true]; omega
      · have := hlt hk
        simp only [hk, if_false]; omega
    · rw [hr0] at h1; cases h1
  have hlen := EStream.length_le _ _ hS0
  obtain ⟨out, i', hres, hout, hcr⟩ := parseFileLoop_E f.stmts i0 [] (D.length + 2) hwf hS0 (by omega)
  refine ⟨out, i', ?_, hout, ?_⟩
  · unfold parseFile
    simp only [hr0, bind, Except.bind, hres, List.reverse_nil, List.nil_append]
  · -- the recorded comments
    rw [hcr, ← recs_stmtsT f.stmts hwf]
    unfold fut
    rw [hc0]
    have hne := hS0.ne_nil
    cases hT : stmtsT D f.stmts with
    | nil => exact absurd hT hne
    | cons t0 T =>
      rw [hT] at hS0
      have : i0.token = t0 := hS0.tok
      simp [newInput, recs, this]

/-- ★ Formatting a well-shaped tree with end-of-line comments (at most one per node; commented lines without
    newline inside their tokens; no header comments) and parsing the result succeeds; the new tree is the old
    one in normal form: positions and line identities erased, every comment text trimmed, every end-of-line
    comment on the node it was printed after. -/
theorem reparse_ewf (name : Bytes) (f : FileSyntax) (hwf : EWFStmts f.stmts) (hnl : ∀ s ∈ f.stmts, NlOK s)
    (hc : f.comments.before = []) :
    ∃ t', parse name (format f) = .ok t' ∧
      eraseFile t' = { name := name, comments := {}, stmts := f.stmts.map normExprE } := by
  obtain ⟨hfmt, out, i', hres, hout, hcomm⟩ := parseFile_rendered f hwf hc
  obtain ⟨D, hD⟩ : ∃ D, D = format f := ⟨_, rfl⟩
  rw [← hD] at hres hout hcomm ⊢
  have hD' : D = stmtsB f.stmts := by rw [hD, hfmt]
  -- comment assignment
  have hassign := assign_reattach (D := D) name f.stmts hwf hnl hD'
  have hz := assignComments_zid { name := name, stmts := out } (stmtsC D f.stmts)
  have hzf : zidF { name := name, stmts := out } = { name := name, stmts := eStmts D f.stmts } := by
    simp [zidF, hout]
  rw [hzf, hassign] at hz
  refine ⟨assignComments { name := name, stmts := out } (stmtsC D f.stmts), ?_, ?_⟩
  · unfold parse
    simp only [hres, bind, Except.bind, hcomm]
  · generalize assignComments { name := name, stmts := out } (stmtsC D f.stmts) = t' at hz
    have h1 : t'.name = name := by
      have := congrArg FileSyntax.name hz
      simpa [zidF] using this
    have h2 : t'.comments = {} := by
      have := congrArg FileSyntax.comments hz
      simpa [zidF] using this
    have h3 : t'.stmts.map zidE = aStmts D f.stmts := by
      have := congrArg FileSyntax.stmts hz
      simpa [zidF] using this
    have h4 : t'.stmts.map eraseExpr = f.stmts.map normExprE := by
      rw [← erase_aStmts f.stmts hwf, ← h3, List.map_map]
      apply List.map_congr_left
      intro s _
      exact (eraseExpr_zid s).symm
    simp only [eraseFile, h1, h2, h4]
    rfl

end ModVerif.Proofs.ModfileEol
