/-
  Helper lemmas for Tie/FnEditWork.lean, part C: the ADD operations of go.work that go through `FileSyntax.addLine`
  (tie: Tie/FnEditAddLine.lean, agent edit-tree) — `WorkFile_AddNewUse`, `WorkFile_addNewGodebug`, and the loops of
  `WorkFile_AddUse` / `WorkFile_AddGodebug` (the first matching entry is updated and its line rewritten, every later one is
  cleared and its line marked removed) against the model's `firstRest` / `markAll`, as simulations over `FnEditRep.RepW`.
  Owner: edit-work.
-/
import ModVerif.Proofs.TieFnEditWorkA
import ModVerif.Tie.FnEditAddLine
import ModVerif.Proofs.EditRefineInv
set_option linter.unusedSimpArgs false
set_option linter.unusedVariables false
namespace ModVerif.Tie.FnEditWorkC
open ModVerif ModVerif.GoRt ModVerif.Generated.Edit ModVerif.Tie.FnEditRep ModVerif.Tie.FnEditTreeA ModVerif.Tie.FnEditWorkA
open ModVerif.TieFnEditAddLine (Frame nodeCount hintG)
open ModVerif.Modfile.Edit (EWork clearAll firstRest markAll deref nilId clearedUse clearedGodebug clearedReplace treeIds)

theorem B_use : B "use" = [117, 115, 101] := by decide +kernel
theorem B_godebug : B "godebug" = [103, 111, 100, 101, 98, 117, 103] := by decide +kernel

/-! ### `RepWAt` after `addLine`, after pushing a new typed entry -/

section
variable {h : Heap} {o : WorkFile} {e : EWork}

/-- the typed part of the representation only needs the typed object lists kept and `lines` not shrunk -/
theorem RepWAt_ofFrame (R : RepWAt h o e) {h1 : Heap} {fs' : Modfile.FileSyntax} {n : Nat} (F : Frame h h1)
    (hsyn : RepSyn h1 o.Syntax fs') (htok : BlockTokOK fs'.stmts) (hG : LinesG h1) (hlen : h.lines.length ≤ h1.lines.length)
    (hn : n = h1.lines.length + 1) :
    RepWAt h1 o { f := { e.f with syn := fs' }, next := n } where
  syn := hsyn
  tok := htok
  linesG := hG
  next := hn
  go := by have := R.go.mono (objs' := h1.gos) (nl' := h1.lines.length) (by rw [F.gos]; exact fun _ _ x => x) hlen; exact this
  toolchain := by
    have := R.toolchain.mono (objs' := h1.toolchains) (nl' := h1.lines.length) (by rw [F.toolchains]; exact fun _ _ x => x) hlen
    exact this
  godebug := R.godebug.mono (objs' := h1.godebugs) (nl' := h1.lines.length) (by rw [F.godebugs]; exact fun _ _ x => x) hlen
  use := R.use.mono (objs' := h1.uses) (nl' := h1.lines.length) (by rw [F.uses]; exact fun _ _ x => x) hlen
  replace := R.replace.mono (objs' := h1.replaces) (nl' := h1.lines.length) (by rw [F.replaces]; exact fun _ _ x => x) hlen

theorem nodup_push {ps : List Int} {n : Nat} (hnd : ps.Nodup) (hb : ∀ p ∈ ps, 0 < p ∧ p.toNat ≤ n) :
    (ps ++ [((n + 1 : Nat) : Int)]).Nodup := by
  rw [List.nodup_append]
  refine ⟨hnd, by simp, ?_⟩
  intro a ha b hbm
  simp only [List.mem_singleton] at hbm
  subst hbm
  have := (hb a ha).2
  omega

/-- a new `Use` object is allocated and its pointer appended to `f.Use` -/
theorem RepWAt_pushUse (R : RepWAt h o e) (y : Modfile.Use) (hy : y.lineId ≤ h.lines.length) :
    RepWAt { h with uses := h.uses ++ [useG y] } { o with Use := o.Use ++ [((h.uses.length + 1 : Nat) : Int)] }
      { e with f := { e.f with use := e.f.use ++ [y] } } where
  syn := RepSyn.congr (h := h) (h' := { h with uses := h.uses ++ [useG y] }) rfl rfl rfl rfl R.syn
  tok := R.tok
  linesG := LinesG.congr (h := h) (h' := { h with uses := h.uses ++ [useG y] }) R.linesG rfl
  next := R.next
  go := R.go
  toolchain := R.toolchain
  godebug := R.godebug
  use := ⟨REntsL.append (R.use.rel.mono (fun p v hp => heapGet_alloc_old _ hp) (Nat.le_refl _))
      ⟨⟨heapGet_alloc_new _ _, hy⟩, trivial⟩, nodup_push R.use.nodup (R.use.rel.mem_alloc)⟩
  replace := R.replace

theorem RepWAt_pushGodebug (R : RepWAt h o e) (y : Modfile.Godebug) (hy : y.lineId ≤ h.lines.length) :
    RepWAt { h with godebugs := h.godebugs ++ [godebugG y] }
      { o with Godebug := o.Godebug ++ [((h.godebugs.length + 1 : Nat) : Int)] }
      { e with f := { e.f with godebug := e.f.godebug ++ [y] } } where
  syn := RepSyn.congr (h := h) (h' := { h with godebugs := h.godebugs ++ [godebugG y] }) rfl rfl rfl rfl R.syn
  tok := R.tok
  linesG := LinesG.congr (h := h) (h' := { h with godebugs := h.godebugs ++ [godebugG y] }) R.linesG rfl
  next := R.next
  go := R.go
  toolchain := R.toolchain
  godebug := ⟨REntsL.append (R.godebug.rel.mono (fun p v hp => heapGet_alloc_old _ hp) (Nat.le_refl _))
      ⟨⟨heapGet_alloc_new _ _, hy⟩, trivial⟩, nodup_push R.godebug.nodup (R.godebug.rel.mem_alloc)⟩
  use := R.use
  replace := R.replace

theorem RepWAt_pushReplace (R : RepWAt h o e) (y : Modfile.Replace) (hy : y.lineId ≤ h.lines.length) :
    RepWAt { h with replaces := h.replaces ++ [replaceG y] }
      { o with Replace := o.Replace ++ [((h.replaces.length + 1 : Nat) : Int)] }
      { e with f := { e.f with replace := e.f.replace ++ [y] } } where
  syn := RepSyn.congr (h := h) (h' := { h with replaces := h.replaces ++ [replaceG y] }) rfl rfl rfl rfl R.syn
  tok := R.tok
  linesG := LinesG.congr (h := h) (h' := { h with replaces := h.replaces ++ [replaceG y] }) R.linesG rfl
  next := R.next
  go := R.go
  toolchain := R.toolchain
  godebug := R.godebug
  use := R.use
  replace := ⟨REntsL.append (R.replace.rel.mono (fun p v hp => heapGet_alloc_old _ hp) (Nat.le_refl _))
      ⟨⟨heapGet_alloc_new _ _, hy⟩, trivial⟩, nodup_push R.replace.nodup (R.replace.rel.mem_alloc)⟩

end

/-! ### AddNewUse -/

theorem WorkFile_AddNewUse_sim {h : Heap} {fp : Int} {e : EWork} (R : RepW h fp e) (diskPath modulePath : Bytes) (fuel : Nat)
    (hf : nodeCount e.f.syn.stmts + 3 ≤ fuel) (hq : diskPath.length + 1 ≤ fuel) :
    ∃ h', WorkFile_AddNewUse Drv.GenEdit.isPrintI Drv.GenEdit.quoteI fuel fp diskPath modulePath h = .ok ((), h') ∧
      RepW h' fp (Modfile.Edit.addNewUse e diskPath modulePath) := by
  obtain ⟨o, hw, R⟩ := R
  obtain ⟨h1, ha, hsyn, htok, hG, hlen, _, F, _⟩ :=
    FnEditAddLine.addLine_tie R.syn R.tok none [117, 115, 101] [Modfile.autoQuote diskPath] fuel hf
  have hw1 : heapGet h1.works fp = .ok o := by rw [F.works]; exact hw
  have R1 := RepWAt_ofFrame R (n := h.lines.length + 1 + 1) F hsyn htok (hG R.linesG) (by omega) (by rw [hlen])
  have R2 := RepWAt_pushUse R1 { path := diskPath, modulePath := modulePath, lineId := h.lines.length + 1 } (by
    show h.lines.length + 1 ≤ h1.lines.length
    omega)
  have R3 := RepWAt_works R2 (h1.works.set (fp.toNat - 1) { o with Use := o.Use ++ [((h1.uses.length + 1 : Nat) : Int)] })
  refine ⟨{ h1 with uses := h1.uses ++ [useG { path := diskPath, modulePath := modulePath, lineId := h.lines.length + 1 }],
                    works := h1.works.set (fp.toNat - 1) { o with Use := o.Use ++ [((h1.uses.length + 1 : Nat) : Int)] } },
    ?_, _, heapGet_listSet_same _ hw1, ?_⟩
  rotate_left
  · unfold Modfile.Edit.addNewUse
    rw [B_use, R.next]
    exact R3
  · unfold WorkFile_AddNewUse
    simp only [hw, bind, Except.bind, AutoQuote_eq diskPath fuel hq]
    have ha' : FileSyntax_addLine fuel o.Syntax Expr.nil [[117, 115, 101], Modfile.autoQuote diskPath] h = _ := ha
    rw [ha']
    simp only [hw1, heapAlloc, heapSet_of_get _ hw1, pure, Except.pure]
    rfl

/-! ### addNewGodebug -/

theorem WorkFile_addNewGodebug_sim {h : Heap} {fp : Int} {e : EWork} (R : RepW h fp e) (key value : Bytes) (fuel : Nat)
    (hf : nodeCount e.f.syn.stmts + 3 ≤ fuel) :
    ∃ h', WorkFile_addNewGodebug fuel fp key value h = .ok ((), h') ∧
      RepW h' fp { f := { e.f with godebug := e.f.godebug ++ [{ key := key, value := value, lineId := e.next }],
                                   syn := Modfile.Edit.addLine e.f.syn none [B "godebug", key ++ [61] ++ value] e.next },
                   next := e.next + 1 } := by
  obtain ⟨o, hw, R⟩ := R
  obtain ⟨h1, ha, hsyn, htok, hG, hlen, _, F, _⟩ :=
    FnEditAddLine.addLine_tie R.syn R.tok none [103, 111, 100, 101, 98, 117, 103] [key ++ [61] ++ value] fuel hf
  have hw1 : heapGet h1.works fp = .ok o := by rw [F.works]; exact hw
  have R1 := RepWAt_ofFrame R (n := h.lines.length + 1 + 1) F hsyn htok (hG R.linesG) (by omega) (by rw [hlen])
  have R2 := RepWAt_pushGodebug R1 { key := key, value := value, lineId := h.lines.length + 1 } (by
    show h.lines.length + 1 ≤ h1.lines.length
    omega)
  have R3 := RepWAt_works R2 (h1.works.set (fp.toNat - 1) { o with Godebug := o.Godebug ++ [((h1.godebugs.length + 1 : Nat) : Int)] })
  refine ⟨{ h1 with godebugs := h1.godebugs ++ [godebugG { key := key, value := value, lineId := h.lines.length + 1 }],
                    works := h1.works.set (fp.toNat - 1) { o with Godebug := o.Godebug ++ [((h1.godebugs.length + 1 : Nat) : Int)] } },
    ?_, _, heapGet_listSet_same _ hw1, ?_⟩
  rotate_left
  · rw [B_godebug, R.next]
    exact R3
  · unfold WorkFile_addNewGodebug
    simp only [hw, bind, Except.bind]
    have ha' : FileSyntax_addLine fuel o.Syntax Expr.nil [[103, 111, 100, 101, 98, 117, 103], key ++ [61] ++ value] h = _ := ha
    rw [ha']
    simp only [hw1, heapAlloc, heapSet_of_get _ hw1, pure, Except.pure]
    rfl

/-- the syntax tree after the "first match" of an Add loop was rewritten -/
def updFirst (syn : Modfile.FileSyntax) (first : Option Nat) (tokens : List Bytes) : Modfile.FileSyntax :=
  match first with
  | some i => Modfile.Edit.updateLine syn i tokens
  | none => syn

/-! ### AddUse: the loop against `firstRest` -/

theorem AddUse_loop (fp : Int) (diskPath modulePath : Bytes) (o : WorkFile) :
    ∀ (xsuf : List Modfile.Use) (suf pre : List Int) (xpre : List Modfile.Use) (h : Heap) (e : EWork) (need : Bool) (fuel : Nat),
      RepWAt h o e → heapGet h.works fp = .ok o → o.Use = pre ++ suf → e.f.use = xpre ++ xsuf → pre.length = xpre.length →
      xsuf.length + diskPath.length + 1 ≤ fuel →
      (∀ rest first dead, firstRest (fun u : Modfile.Use => u.path == diskPath) (·.lineId) (fun u : Modfile.Use => { u with modulePath := modulePath }) clearedUse xsuf need = .ok (rest, first, dead) →
        ∃ h', WorkFile_AddUse_loop1 Drv.GenEdit.isPrintI Drv.GenEdit.quoteI o.Use fp diskPath modulePath fuel (pre.length : Int) h need =
            .ok (len o.Use, h', need && first.isNone) ∧ h'.works = h.works ∧
          RepWAt h' o { e with f := { e.f with use := xpre ++ rest,
                                               syn := markAll (updFirst e.f.syn first ([[117, 115, 101], Modfile.autoQuote diskPath])) dead } }) ∧
      (∀ er, firstRest (fun u : Modfile.Use => u.path == diskPath) (·.lineId) (fun u : Modfile.Use => { u with modulePath := modulePath }) clearedUse xsuf need = .error er →
        WorkFile_AddUse_loop1 Drv.GenEdit.isPrintI Drv.GenEdit.quoteI o.Use fp diskPath modulePath fuel (pre.length : Int) h need = .error .panic)
  | [], suf, pre, xpre, h, e, need, fuel, R, hw, ho, he, hl, hf => by
    obtain ⟨f, rfl⟩ : ∃ f, fuel = f + 1 := ⟨fuel - 1, by omega⟩
    have hlen := R.use.rel.length
    have hs : suf = [] := by
      rw [ho, he] at hlen; simp at hlen
      cases suf with
      | nil => rfl
      | cons a t => simp at hlen; omega
    subst hs
    simp only [List.append_nil] at ho he
    refine ⟨?_, ?_⟩
    · intro rest first dead hc
      simp only [firstRest, Except.ok.injEq, Prod.mk.injEq] at hc
      obtain ⟨rfl, rfl, rfl⟩ := hc
      refine ⟨h, ?_, rfl, ?_⟩
      · unfold WorkFile_AddUse_loop1
        rw [← ho]
        simp only [len_eq, Int.lt_irrefl, decide_false, Bool.false_eq_true, if_false, pure, Except.pure, Option.isNone_none,
          Bool.and_true]
      · simp only [List.append_nil, markAll_nil, updFirst, ← he]
        exact R
    · intro er hc
      simp [firstRest] at hc
  | x :: xs, suf, pre, xpre, h, e, need, fuel, R, hw, ho, he, hl, hf => by
    obtain ⟨f, rfl⟩ : ∃ f, fuel = f + 1 := ⟨fuel - 1, by omega⟩
    have hlen := R.use.rel.length
    obtain ⟨p, suf', rfl⟩ : ∃ p suf', suf = p :: suf' := by
      cases suf with
      | nil => rw [ho, he] at hlen; simp at hlen; omega
      | cons a t => exact ⟨a, t, rfl⟩
    obtain ⟨hget, hidle⟩ := RepWAt_useAt R ho he hl
    have hi : o.Use[pre.length]? = some p := by rw [ho]; exact getElem?_append_mid _ _ _
    have hlt : ((pre.length : Nat) : Int) < len o.Use := by rw [ho]; exact lt_len_mid _ _ _
    have hidx : idxL o.Use (pre.length : Int) = .ok p := by rw [ho]; exact idxL_mid _ _ _ rfl
    have hcast : ((pre.length : Nat) : Int) + 1 = (((pre ++ [p]).length : Nat) : Int) := by simp
    have ho' : o.Use = (pre ++ [p]) ++ suf' := by simp [ho]
    have hf' : xs.length + diskPath.length + 1 ≤ f := by simp at hf; omega
    cases hm : (fun u : Modfile.Use => u.path == diskPath) x with
    | true =>
      have hp := hm
      simp only [beq_iff_eq] at hp
      by_cases h0 : x.lineId = 0
      · -- nil dereference
        refine ⟨?_, ?_⟩
        · intro rest first dead hc
          simp [firstRest, hm, h0, deref_zero, bind, Except.bind] at hc
        · intro er _
          unfold WorkFile_AddUse_loop1
          cases need with
          | true =>
            simp only [hlt, decide_true, if_true, hidx, hget, bind, Except.bind, pure, Except.pure, useG_Path, useG_Syntax, hp, h0, hw,
              heapSet_of_get _ hget, heapGet_listSet_same _ hget, AutoQuote_eq diskPath f (by omega)]
            rw [FileSyntax_updateLine_nil _ (by simp)]
          | false =>
            simp only [hlt, decide_true, if_true, hidx, hget, bind, Except.bind, pure, Except.pure, useG_Path, useG_Syntax, hp, h0,
              Bool.false_eq_true, if_false]
            rw [Line_markRemoved_nil (by simp)]
      · obtain ⟨l, hgl, hlid⟩ := R.linesG.ofId h0 hidle
        cases need with
        | true =>
          have R1 := RepWAt_setUse R hi ((fun u : Modfile.Use => { u with modulePath := modulePath }) x) hidle
          have R2 := RepWAt.setLine R1 (g := updateTokLine ([[117, 115, 101], Modfile.autoQuote diskPath])) (IdEquiv_updateTok _) hgl
          have ih := AddUse_loop fp diskPath modulePath o xs suf' (pre ++ [p]) (xpre ++ [(fun u : Modfile.Use => { u with modulePath := modulePath }) x]) _ _ false f R2 hw ho'
            (by simp [he, hl, set_append_mid]) (by simp [hl]) hf'
          have hup : FileSyntax_updateLine o.Syntax (x.lineId : Int) ([[117, 115, 101], Modfile.autoQuote diskPath])
              { h with uses := h.uses.set (p.toNat - 1) (({ useG x with ModulePath := modulePath } : Use)) } =
              .ok ((), setLineH { h with uses := h.uses.set (p.toNat - 1) (useG ((fun u : Modfile.Use => { u with modulePath := modulePath }) x)) } (x.lineId : Int)
                (updateTokLine ([[117, 115, 101], Modfile.autoQuote diskPath]) l)) :=
            FileSyntax_updateLine_eq (l := l) hgl (by intro _; simp)
          simp only [useG_Path, useG_Syntax] at hup
          have hdec : decide (x.path = diskPath) = true := by simp [hp]
          have hstep : WorkFile_AddUse_loop1 Drv.GenEdit.isPrintI Drv.GenEdit.quoteI o.Use fp diskPath modulePath (f + 1) (pre.length : Int) h true =
              WorkFile_AddUse_loop1 Drv.GenEdit.isPrintI Drv.GenEdit.quoteI o.Use fp diskPath modulePath f (((pre ++ [p]).length : Nat) : Int)
                (setLineH { h with uses := h.uses.set (p.toNat - 1) (useG ((fun u : Modfile.Use => { u with modulePath := modulePath }) x)) } (x.lineId : Int)
                  (updateTokLine ([[117, 115, 101], Modfile.autoQuote diskPath]) l)) false := by
            conv => lhs; unfold WorkFile_AddUse_loop1
            simp only [hlt, decide_true, if_true, hidx, hget, bind, Except.bind, pure, Except.pure, useG_Path, useG_Syntax, hdec, hw,
              heapSet_of_get _ hget, heapGet_listSet_same _ hget, AutoQuote_eq diskPath f (by omega), hup, hcast]
            rw [if_pos (by simp [hp])]
          rw [hstep]
          refine ⟨?_, ?_⟩
          · intro rest first dead hc
            simp only [firstRest, hm, if_true, deref_pos h0, bind, Except.bind] at hc
            cases hcx : firstRest (fun u : Modfile.Use => u.path == diskPath) (·.lineId) (fun u : Modfile.Use => { u with modulePath := modulePath }) clearedUse xs false with
            | error er => rw [hcx] at hc; cases hc
            | ok r =>
              obtain ⟨rest', first', dead'⟩ := r
              rw [hcx] at hc
              simp only [pure, Except.pure, Except.ok.injEq, Prod.mk.injEq] at hc
              obtain ⟨rfl, rfl, rfl⟩ := hc
              have hfn := firstRest_false_first _ _ _ _ xs rest' first' dead' hcx
              subst hfn
              obtain ⟨h', h1, h2, h3⟩ := ih.1 rest' none dead' hcx
              refine ⟨h', by simpa using h1, h2, ?_⟩
              simpa [updFirst, updateLine_eq] using h3
          · intro er hc
            simp only [firstRest, hm, if_true, deref_pos h0, bind, Except.bind] at hc
            cases hcx : firstRest (fun u : Modfile.Use => u.path == diskPath) (·.lineId) (fun u : Modfile.Use => { u with modulePath := modulePath }) clearedUse xs false with
            | error er' => exact ih.2 er' hcx
            | ok r => rw [hcx] at hc; cases hc
        | false =>
          have R1 := RepWAt.setLine R (g := markRemovedLine) IdEquiv_markRemoved hgl
          have R2 := RepWAt_setUse R1 hi clearedUse (Nat.zero_le _)
          have ih := AddUse_loop fp diskPath modulePath o xs suf' (pre ++ [p]) (xpre ++ [clearedUse]) _ _ false f R2 hw ho'
            (by simp [he, hl, set_append_mid]) (by simp [hl]) hf'
          have hstep : WorkFile_AddUse_loop1 Drv.GenEdit.isPrintI Drv.GenEdit.quoteI o.Use fp diskPath modulePath (f + 1) (pre.length : Int) h false =
              WorkFile_AddUse_loop1 Drv.GenEdit.isPrintI Drv.GenEdit.quoteI o.Use fp diskPath modulePath f (((pre ++ [p]).length : Nat) : Int)
                { setLineH h (x.lineId : Int) (markRemovedLine l) with uses := h.uses.set (p.toNat - 1) (useG clearedUse) } false := by
            conv => lhs; unfold WorkFile_AddUse_loop1
            simp only [hlt, decide_true, if_true, hidx, hget, bind, Except.bind, pure, Except.pure, useG_Path, useG_Syntax, hp,
              Bool.false_eq_true, if_false, Line_markRemoved_eq hgl, setLineH_uses, heapSet_of_get _ hget, hcast]
            rfl
          rw [hstep]
          refine ⟨?_, ?_⟩
          · intro rest first dead hc
            simp only [firstRest, hm, if_true, deref_pos h0, bind, Except.bind] at hc
            cases hcx : firstRest (fun u : Modfile.Use => u.path == diskPath) (·.lineId) (fun u : Modfile.Use => { u with modulePath := modulePath }) clearedUse xs false with
            | error er => rw [hcx] at hc; cases hc
            | ok r =>
              obtain ⟨rest', first', dead'⟩ := r
              rw [hcx] at hc
              simp only [Bool.false_eq_true, if_false, pure, Except.pure, Except.ok.injEq, Prod.mk.injEq] at hc
              obtain ⟨rfl, rfl, rfl⟩ := hc
              have hfn := firstRest_false_first _ _ _ _ xs rest' first' dead' hcx
              subst hfn
              obtain ⟨h', h1, h2, h3⟩ := ih.1 rest' none dead' hcx
              refine ⟨h', by simpa using h1, h2, ?_⟩
              simpa [updFirst, markAll_cons, markRemoved_eq] using h3
          · intro er hc
            simp only [firstRest, hm, if_true, deref_pos h0, bind, Except.bind] at hc
            cases hcx : firstRest (fun u : Modfile.Use => u.path == diskPath) (·.lineId) (fun u : Modfile.Use => { u with modulePath := modulePath }) clearedUse xs false with
            | error er' => exact ih.2 er' hcx
            | ok r => rw [hcx] at hc; cases hc
    | false =>
      have hp := hm
      simp only [beq_eq_false_iff_ne, ne_eq] at hp
      have ih := AddUse_loop fp diskPath modulePath o xs suf' (pre ++ [p]) (xpre ++ [x]) h e need f R hw ho'
        (by simp [he]) (by simp [hl]) hf'
      have hstep : WorkFile_AddUse_loop1 Drv.GenEdit.isPrintI Drv.GenEdit.quoteI o.Use fp diskPath modulePath (f + 1) (pre.length : Int) h need =
          WorkFile_AddUse_loop1 Drv.GenEdit.isPrintI Drv.GenEdit.quoteI o.Use fp diskPath modulePath f (((pre ++ [p]).length : Nat) : Int) h need := by
        conv => lhs; unfold WorkFile_AddUse_loop1
        simp only [hlt, decide_true, if_true, hidx, hget, bind, Except.bind, useG_Path, useG_Syntax, hp, decide_false,
          Bool.false_eq_true, if_false, hcast]
      rw [hstep]
      refine ⟨?_, ?_⟩
      · intro rest first dead hc
        simp only [firstRest, hm, Bool.false_eq_true, if_false, bind, Except.bind] at hc
        cases hcx : firstRest (fun u : Modfile.Use => u.path == diskPath) (·.lineId) (fun u : Modfile.Use => { u with modulePath := modulePath }) clearedUse xs need with
        | error er => rw [hcx] at hc; cases hc
        | ok r =>
          obtain ⟨rest', first', dead'⟩ := r
          rw [hcx] at hc
          simp only [pure, Except.pure, Except.ok.injEq, Prod.mk.injEq] at hc
          obtain ⟨rfl, rfl, rfl⟩ := hc
          obtain ⟨h', h1, h2, h3⟩ := ih.1 rest' first' dead' hcx
          refine ⟨h', h1, h2, ?_⟩
          simpa using h3
      · intro er hc
        simp only [firstRest, hm, Bool.false_eq_true, if_false, bind, Except.bind] at hc
        cases hcx : firstRest (fun u : Modfile.Use => u.path == diskPath) (·.lineId) (fun u : Modfile.Use => { u with modulePath := modulePath }) clearedUse xs need with
        | error er' => exact ih.2 er' hcx
        | ok r => rw [hcx] at hc; cases hc

/-! ### AddGodebug: the loop against `firstRest` -/

theorem AddGodebug_loop (fp : Int) (key value : Bytes) (o : WorkFile) :
    ∀ (xsuf : List Modfile.Godebug) (suf pre : List Int) (xpre : List Modfile.Godebug) (h : Heap) (e : EWork) (need : Bool) (fuel : Nat),
      RepWAt h o e → heapGet h.works fp = .ok o → o.Godebug = pre ++ suf → e.f.godebug = xpre ++ xsuf → pre.length = xpre.length →
      xsuf.length + 0 + 1 ≤ fuel →
      (∀ rest first dead, firstRest (fun g : Modfile.Godebug => g.key == key) (·.lineId) (fun g : Modfile.Godebug => { g with value := value }) clearedGodebug xsuf need = .ok (rest, first, dead) →
        ∃ h', WorkFile_AddGodebug_loop1  o.Godebug fp key value fuel (pre.length : Int) h need =
            .ok (len o.Godebug, h', need && first.isNone) ∧ h'.works = h.works ∧
          RepWAt h' o { e with f := { e.f with godebug := xpre ++ rest,
                                               syn := markAll (updFirst e.f.syn first ([[103, 111, 100, 101, 98, 117, 103], key ++ [61] ++ value])) dead } }) ∧
      (∀ er, firstRest (fun g : Modfile.Godebug => g.key == key) (·.lineId) (fun g : Modfile.Godebug => { g with value := value }) clearedGodebug xsuf need = .error er →
        WorkFile_AddGodebug_loop1  o.Godebug fp key value fuel (pre.length : Int) h need = .error .panic)
  | [], suf, pre, xpre, h, e, need, fuel, R, hw, ho, he, hl, hf => by
    obtain ⟨f, rfl⟩ : ∃ f, fuel = f + 1 := ⟨fuel - 1, by omega⟩
    have hlen := R.godebug.rel.length
    have hs : suf = [] := by
      rw [ho, he] at hlen; simp at hlen
      cases suf with
      | nil => rfl
      | cons a t => simp at hlen; omega
    subst hs
    simp only [List.append_nil] at ho he
    refine ⟨?_, ?_⟩
    · intro rest first dead hc
      simp only [firstRest, Except.ok.injEq, Prod.mk.injEq] at hc
      obtain ⟨rfl, rfl, rfl⟩ := hc
      refine ⟨h, ?_, rfl, ?_⟩
      · unfold WorkFile_AddGodebug_loop1
        rw [← ho]
        simp only [len_eq, Int.lt_irrefl, decide_false, Bool.false_eq_true, if_false, pure, Except.pure, Option.isNone_none,
          Bool.and_true]
      · simp only [List.append_nil, markAll_nil, updFirst, ← he]
        exact R
    · intro er hc
      simp [firstRest] at hc
  | x :: xs, suf, pre, xpre, h, e, need, fuel, R, hw, ho, he, hl, hf => by
    obtain ⟨f, rfl⟩ : ∃ f, fuel = f + 1 := ⟨fuel - 1, by omega⟩
    have hlen := R.godebug.rel.length
    obtain ⟨p, suf', rfl⟩ : ∃ p suf', suf = p :: suf' := by
      cases suf with
      | nil => rw [ho, he] at hlen; simp at hlen; omega
      | cons a t => exact ⟨a, t, rfl⟩
    obtain ⟨hget, hidle⟩ := RepWAt_godebugAt R ho he hl
    have hi : o.Godebug[pre.length]? = some p := by rw [ho]; exact getElem?_append_mid _ _ _
    have hlt : ((pre.length : Nat) : Int) < len o.Godebug := by rw [ho]; exact lt_len_mid _ _ _
    have hidx : idxL o.Godebug (pre.length : Int) = .ok p := by rw [ho]; exact idxL_mid _ _ _ rfl
    have hcast : ((pre.length : Nat) : Int) + 1 = (((pre ++ [p]).length : Nat) : Int) := by simp
    have ho' : o.Godebug = (pre ++ [p]) ++ suf' := by simp [ho]
    have hf' : xs.length + 0 + 1 ≤ f := by simp at hf; omega
    cases hm : (fun g : Modfile.Godebug => g.key == key) x with
    | true =>
      have hp := hm
      simp only [beq_iff_eq] at hp
      by_cases h0 : x.lineId = 0
      · -- nil dereference
        refine ⟨?_, ?_⟩
        · intro rest first dead hc
          simp [firstRest, hm, h0, deref_zero, bind, Except.bind] at hc
        · intro er _
          unfold WorkFile_AddGodebug_loop1
          cases need with
          | true =>
            simp only [hlt, decide_true, if_true, hidx, hget, bind, Except.bind, pure, Except.pure, godebugG_Key, godebugG_Syntax, hp, h0, hw,
              heapSet_of_get _ hget, heapGet_listSet_same _ hget]
            rw [FileSyntax_updateLine_nil _ (by simp)]
          | false =>
            simp only [hlt, decide_true, if_true, hidx, hget, bind, Except.bind, pure, Except.pure, godebugG_Key, godebugG_Syntax, hp, h0,
              Bool.false_eq_true, if_false]
            rw [Line_markRemoved_nil (by simp)]
      · obtain ⟨l, hgl, hlid⟩ := R.linesG.ofId h0 hidle
        cases need with
        | true =>
          have R1 := RepWAt_setGodebug R hi ((fun g : Modfile.Godebug => { g with value := value }) x) hidle
          have R2 := RepWAt.setLine R1 (g := updateTokLine ([[103, 111, 100, 101, 98, 117, 103], key ++ [61] ++ value])) (IdEquiv_updateTok _) hgl
          have ih := AddGodebug_loop fp key value o xs suf' (pre ++ [p]) (xpre ++ [(fun g : Modfile.Godebug => { g with value := value }) x]) _ _ false f R2 hw ho'
            (by simp [he, hl, set_append_mid]) (by simp [hl]) hf'
          have hup : FileSyntax_updateLine o.Syntax (x.lineId : Int) ([[103, 111, 100, 101, 98, 117, 103], key ++ [61] ++ value])
              { h with godebugs := h.godebugs.set (p.toNat - 1) (({ godebugG x with Value := value } : Godebug)) } =
              .ok ((), setLineH { h with godebugs := h.godebugs.set (p.toNat - 1) (godebugG ((fun g : Modfile.Godebug => { g with value := value }) x)) } (x.lineId : Int)
                (updateTokLine ([[103, 111, 100, 101, 98, 117, 103], key ++ [61] ++ value]) l)) :=
            FileSyntax_updateLine_eq (l := l) hgl (by intro _; simp)
          simp only [godebugG_Key, godebugG_Syntax] at hup
          have hdec : decide (x.key = key) = true := by simp [hp]
          have hstep : WorkFile_AddGodebug_loop1  o.Godebug fp key value (f + 1) (pre.length : Int) h true =
              WorkFile_AddGodebug_loop1  o.Godebug fp key value f (((pre ++ [p]).length : Nat) : Int)
                (setLineH { h with godebugs := h.godebugs.set (p.toNat - 1) (godebugG ((fun g : Modfile.Godebug => { g with value := value }) x)) } (x.lineId : Int)
                  (updateTokLine ([[103, 111, 100, 101, 98, 117, 103], key ++ [61] ++ value]) l)) false := by
            conv => lhs; unfold WorkFile_AddGodebug_loop1
            simp only [hlt, decide_true, if_true, hidx, hget, bind, Except.bind, pure, Except.pure, godebugG_Key, godebugG_Syntax, hdec, hw,
              heapSet_of_get _ hget, heapGet_listSet_same _ hget, hup, hcast]
            rw [if_pos (by simp [hp])]
          rw [hstep]
          refine ⟨?_, ?_⟩
          · intro rest first dead hc
            simp only [firstRest, hm, if_true, deref_pos h0, bind, Except.bind] at hc
            cases hcx : firstRest (fun g : Modfile.Godebug => g.key == key) (·.lineId) (fun g : Modfile.Godebug => { g with value := value }) clearedGodebug xs false with
            | error er => rw [hcx] at hc; cases hc
            | ok r =>
              obtain ⟨rest', first', dead'⟩ := r
              rw [hcx] at hc
              simp only [pure, Except.pure, Except.ok.injEq, Prod.mk.injEq] at hc
              obtain ⟨rfl, rfl, rfl⟩ := hc
              have hfn := firstRest_false_first _ _ _ _ xs rest' first' dead' hcx
              subst hfn
              obtain ⟨h', h1, h2, h3⟩ := ih.1 rest' none dead' hcx
              refine ⟨h', by simpa using h1, h2, ?_⟩
              simpa [updFirst, updateLine_eq] using h3
          · intro er hc
            simp only [firstRest, hm, if_true, deref_pos h0, bind, Except.bind] at hc
            cases hcx : firstRest (fun g : Modfile.Godebug => g.key == key) (·.lineId) (fun g : Modfile.Godebug => { g with value := value }) clearedGodebug xs false with
            | error er' => exact ih.2 er' hcx
            | ok r => rw [hcx] at hc; cases hc
        | false =>
          have R1 := RepWAt.setLine R (g := markRemovedLine) IdEquiv_markRemoved hgl
          have R2 := RepWAt_setGodebug R1 hi clearedGodebug (Nat.zero_le _)
          have ih := AddGodebug_loop fp key value o xs suf' (pre ++ [p]) (xpre ++ [clearedGodebug]) _ _ false f R2 hw ho'
            (by simp [he, hl, set_append_mid]) (by simp [hl]) hf'
          have hstep : WorkFile_AddGodebug_loop1  o.Godebug fp key value (f + 1) (pre.length : Int) h false =
              WorkFile_AddGodebug_loop1  o.Godebug fp key value f (((pre ++ [p]).length : Nat) : Int)
                { setLineH h (x.lineId : Int) (markRemovedLine l) with godebugs := h.godebugs.set (p.toNat - 1) (godebugG clearedGodebug) } false := by
            conv => lhs; unfold WorkFile_AddGodebug_loop1
            simp only [hlt, decide_true, if_true, hidx, hget, bind, Except.bind, pure, Except.pure, godebugG_Key, godebugG_Syntax, hp,
              Bool.false_eq_true, if_false, Line_markRemoved_eq hgl, setLineH_godebugs, heapSet_of_get _ hget, hcast]
            rfl
          rw [hstep]
          refine ⟨?_, ?_⟩
          · intro rest first dead hc
            simp only [firstRest, hm, if_true, deref_pos h0, bind, Except.bind] at hc
            cases hcx : firstRest (fun g : Modfile.Godebug => g.key == key) (·.lineId) (fun g : Modfile.Godebug => { g with value := value }) clearedGodebug xs false with
            | error er => rw [hcx] at hc; cases hc
            | ok r =>
              obtain ⟨rest', first', dead'⟩ := r
              rw [hcx] at hc
              simp only [Bool.false_eq_true, if_false, pure, Except.pure, Except.ok.injEq, Prod.mk.injEq] at hc
              obtain ⟨rfl, rfl, rfl⟩ := hc
              have hfn := firstRest_false_first _ _ _ _ xs rest' first' dead' hcx
              subst hfn
              obtain ⟨h', h1, h2, h3⟩ := ih.1 rest' none dead' hcx
              refine ⟨h', by simpa using h1, h2, ?_⟩
              simpa [updFirst, markAll_cons, markRemoved_eq] using h3
          · intro er hc
            simp only [firstRest, hm, if_true, deref_pos h0, bind, Except.bind] at hc
            cases hcx : firstRest (fun g : Modfile.Godebug => g.key == key) (·.lineId) (fun g : Modfile.Godebug => { g with value := value }) clearedGodebug xs false with
            | error er' => exact ih.2 er' hcx
            | ok r => rw [hcx] at hc; cases hc
    | false =>
      have hp := hm
      simp only [beq_eq_false_iff_ne, ne_eq] at hp
      have ih := AddGodebug_loop fp key value o xs suf' (pre ++ [p]) (xpre ++ [x]) h e need f R hw ho'
        (by simp [he]) (by simp [hl]) hf'
      have hstep : WorkFile_AddGodebug_loop1  o.Godebug fp key value (f + 1) (pre.length : Int) h need =
          WorkFile_AddGodebug_loop1  o.Godebug fp key value f (((pre ++ [p]).length : Nat) : Int) h need := by
        conv => lhs; unfold WorkFile_AddGodebug_loop1
        simp only [hlt, decide_true, if_true, hidx, hget, bind, Except.bind, godebugG_Key, godebugG_Syntax, hp, decide_false,
          Bool.false_eq_true, if_false, hcast]
      rw [hstep]
      refine ⟨?_, ?_⟩
      · intro rest first dead hc
        simp only [firstRest, hm, Bool.false_eq_true, if_false, bind, Except.bind] at hc
        cases hcx : firstRest (fun g : Modfile.Godebug => g.key == key) (·.lineId) (fun g : Modfile.Godebug => { g with value := value }) clearedGodebug xs need with
        | error er => rw [hcx] at hc; cases hc
        | ok r =>
          obtain ⟨rest', first', dead'⟩ := r
          rw [hcx] at hc
          simp only [pure, Except.pure, Except.ok.injEq, Prod.mk.injEq] at hc
          obtain ⟨rfl, rfl, rfl⟩ := hc
          obtain ⟨h', h1, h2, h3⟩ := ih.1 rest' first' dead' hcx
          refine ⟨h', h1, h2, ?_⟩
          simpa using h3
      · intro er hc
        simp only [firstRest, hm, Bool.false_eq_true, if_false, bind, Except.bind] at hc
        cases hcx : firstRest (fun g : Modfile.Godebug => g.key == key) (·.lineId) (fun g : Modfile.Godebug => { g with value := value }) clearedGodebug xs need with
        | error er' => exact ih.2 er' hcx
        | ok r => rw [hcx] at hc; cases hc

/-! ### AddUse -/

theorem WorkFile_AddUse_sim {h : Heap} {fp : Int} {e : EWork} (R : RepW h fp e) (diskPath modulePath : Bytes) (fuel : Nat)
    (hf : nodeCount e.f.syn.stmts + 3 ≤ fuel) (hf2 : e.f.use.length + diskPath.length + 1 ≤ fuel) :
    (∀ e', Modfile.Edit.addUse e diskPath modulePath = .ok e' →
      ∃ h', WorkFile_AddUse Drv.GenEdit.isPrintI Drv.GenEdit.quoteI fuel fp diskPath modulePath h = .ok (none, h') ∧
        RepW h' fp e') ∧
    (∀ er, Modfile.Edit.addUse e diskPath modulePath = .error er →
      WorkFile_AddUse Drv.GenEdit.isPrintI Drv.GenEdit.quoteI fuel fp diskPath modulePath h = .error .panic) := by
  obtain ⟨o, hw, R⟩ := R
  have L := AddUse_loop fp diskPath modulePath o e.f.use o.Use [] [] h e true fuel R hw rfl rfl rfl hf2
  have hrun : WorkFile_AddUse Drv.GenEdit.isPrintI Drv.GenEdit.quoteI fuel fp diskPath modulePath h =
      (do let r ← WorkFile_AddUse_loop1 Drv.GenEdit.isPrintI Drv.GenEdit.quoteI o.Use fp diskPath modulePath fuel 0 h true
          if r.2.2 then (do
            let t ← WorkFile_AddNewUse Drv.GenEdit.isPrintI Drv.GenEdit.quoteI fuel fp diskPath modulePath r.2.1
            pure ((none : Option String), t.2)) else pure ((none : Option String), r.2.1)) := by
    unfold WorkFile_AddUse
    simp only [hw, bind, Except.bind]
  rw [hrun]
  unfold Modfile.Edit.addUse
  simp only [bind, Except.bind]
  cases hc : firstRest (fun u : Modfile.Use => u.path == diskPath) (·.lineId)
      (fun u : Modfile.Use => { u with modulePath := modulePath }) clearedUse e.f.use true with
  | error er =>
    have h1 : WorkFile_AddUse_loop1 Drv.GenEdit.isPrintI Drv.GenEdit.quoteI o.Use fp diskPath modulePath fuel 0 h true =
        .error .panic := L.2 er hc
    refine ⟨fun e' he' => (by cases he'), fun er' _ => ?_⟩
    simp only [h1, bind, Except.bind]
  | ok r =>
    obtain ⟨rest, first, dead⟩ := r
    obtain ⟨h1, hl1, hw1, R1⟩ := L.1 rest first dead hc
    have hl1' : WorkFile_AddUse_loop1 Drv.GenEdit.isPrintI Drv.GenEdit.quoteI o.Use fp diskPath modulePath fuel 0 h true =
        .ok (len o.Use, h1, true && first.isNone) := hl1
    simp only [hl1', bind, Except.bind]
    cases first with
    | some i =>
      simp only [Option.isNone_some, Bool.and_false, Bool.false_eq_true, if_false, pure, Except.pure]
      refine ⟨fun e' he' => ?_, fun er' he' => (by cases he')⟩
      simp only [Except.ok.injEq] at he'
      subst he'
      refine ⟨h1, rfl, o, by rw [hw1]; exact hw, ?_⟩
      simpa [updFirst, B_use] using R1
    | none =>
      obtain ⟨_, hrest, hdead⟩ := Modfile.Edit.firstRest_none _ _ _ _ e.f.use rest dead hc
      subst hrest; subst hdead
      have R1' : RepWAt h1 o e := by simpa [updFirst, markAll_nil] using R1
      obtain ⟨h2, hn, R2⟩ := WorkFile_AddNewUse_sim ⟨o, by rw [hw1]; exact hw, R1'⟩ diskPath modulePath fuel hf (by omega)
      simp only [Option.isNone_none, Bool.and_true, if_true, hn, pure, Except.pure]
      refine ⟨fun e' he' => ?_, fun er' he' => (by cases he')⟩
      simp only [Except.ok.injEq] at he'
      subst he'
      exact ⟨h2, rfl, R2⟩

/-! ### AddGodebug -/

theorem WorkFile_AddGodebug_sim {h : Heap} {fp : Int} {e : EWork} (R : RepW h fp e) (key value : Bytes) (fuel : Nat)
    (hf : nodeCount e.f.syn.stmts + 3 ≤ fuel) (hf2 : e.f.godebug.length + 1 ≤ fuel) :
    (∀ e', Modfile.Edit.workAddGodebug e key value = .ok e' →
      ∃ h', WorkFile_AddGodebug fuel fp key value h = .ok (none, h') ∧ RepW h' fp e') ∧
    (∀ er, Modfile.Edit.workAddGodebug e key value = .error er → WorkFile_AddGodebug fuel fp key value h = .error .panic) := by
  obtain ⟨o, hw, R⟩ := R
  have L := AddGodebug_loop fp key value o e.f.godebug o.Godebug [] [] h e true fuel R hw rfl rfl rfl (by omega)
  have hrun : WorkFile_AddGodebug fuel fp key value h =
      (do let r ← WorkFile_AddGodebug_loop1 o.Godebug fp key value fuel 0 h true
          if r.2.2 then (do
            let t ← WorkFile_addNewGodebug fuel fp key value r.2.1
            pure ((none : Option String), t.2)) else pure ((none : Option String), r.2.1)) := by
    unfold WorkFile_AddGodebug
    simp only [hw, bind, Except.bind]
  rw [hrun]
  unfold Modfile.Edit.workAddGodebug Modfile.Edit.addGodebugCore
  simp only [bind, Except.bind]
  cases hc : firstRest (fun g : Modfile.Godebug => g.key == key) (·.lineId)
      (fun g : Modfile.Godebug => { g with value := value }) clearedGodebug e.f.godebug true with
  | error er =>
    have h1 : WorkFile_AddGodebug_loop1 o.Godebug fp key value fuel 0 h true = .error .panic := L.2 er hc
    refine ⟨fun e' he' => (by cases he'), fun er' _ => ?_⟩
    simp only [h1, bind, Except.bind]
  | ok r =>
    obtain ⟨rest, first, dead⟩ := r
    obtain ⟨h1, hl1, hw1, R1⟩ := L.1 rest first dead hc
    have hl1' : WorkFile_AddGodebug_loop1 o.Godebug fp key value fuel 0 h true =
        .ok (len o.Godebug, h1, true && first.isNone) := hl1
    simp only [hl1', bind, Except.bind]
    cases first with
    | some i =>
      simp only [Option.isNone_some, Bool.and_false, Bool.false_eq_true, if_false, pure, Except.pure]
      refine ⟨fun e' he' => ?_, fun er' he' => (by cases he')⟩
      simp only [Except.ok.injEq] at he'
      subst he'
      refine ⟨h1, rfl, o, by rw [hw1]; exact hw, ?_⟩
      simpa [updFirst, B_godebug] using R1
    | none =>
      obtain ⟨_, hrest, hdead⟩ := Modfile.Edit.firstRest_none _ _ _ _ e.f.godebug rest dead hc
      subst hrest; subst hdead
      have R1' : RepWAt h1 o e := by simpa [updFirst, markAll_nil] using R1
      obtain ⟨h2, hn, R2⟩ := WorkFile_addNewGodebug_sim ⟨o, by rw [hw1]; exact hw, R1'⟩ key value fuel hf
      simp only [Option.isNone_none, Bool.and_true, if_true, hn, pure, Except.pure]
      refine ⟨fun e' he' => ?_, fun er' he' => (by cases he')⟩
      simp only [Except.ok.injEq] at he'
      subst he'
      exact ⟨h2, rfl, R2⟩
end ModVerif.Tie.FnEditWorkC
