/-
  C02, end-of-line comments, stage (iv): the second `assignComments`.

  On the statement list `eStmts D ss` the parser builds from a rendered tree (all positions explicit) and the
  end-of-line comments `stmtsC D ss` the lexer recorded, the backwards post-order walk of `assignComments`
  gives every node the comment that was printed after it: `assign_reattach`.  The walk compares
  `end.byte ≤ c.start.byte` and skips nodes with `start.line ≠ end.line`; both are decided here from the
  positions `pa D r` (byte = `D.length - r.length`, line = 1 + newlines before), i.e. from the lengths of the
  suffixes and the newlines between them.

  Hypothesis `NlOK`: a line that carries an end-of-line comment has no newline byte inside its tokens (a
  quoted string with an escaped newline) — such a line spans two source lines and is skipped by the walk,
  which is the mechanism behind `C02_violated_format_not_idempotent`.
-/
import ModVerif.Proofs.ModfileEolParse3
import ModVerif.Proofs.ModfileFmtMain
namespace ModVerif.Proofs.ModfileEol
open ModVerif ModVerif.Modfile
open ModVerif.Proofs.ModfileFmtLex ModVerif.Proofs.ModfileFmtLine ModVerif.Proofs.ModfileFmtStream
open ModVerif.Proofs.ModfileFmtTree ModVerif.Proofs.ModfileFmtParse ModVerif.Proofs.ModfileFmtRender
open ModVerif.Proofs.ModfileFmtMain

variable {D : Bytes}

/-! ### positions of suffixes -/

theorem pa_len {r : Bytes} (h : r <:+ D) : (pa D r).byte + r.length = D.length := by
  obtain ⟨p, rfl⟩ := h
  simp [pa, posOf]

theorem pa_line {x r : Bytes} (h : (x ++ r) <:+ D) : (pa D r).line = (pa D (x ++ r)).line + x.count 10 := by
  obtain ⟨p, rfl⟩ := h
  have h1 : (p ++ (x ++ r)).length - r.length = (p ++ x).length := by simp; omega
  have h2 : (p ++ (x ++ r)).length - (x ++ r).length = p.length := by simp
  simp only [pa, posOf, h1, h2]
  rw [show p ++ (x ++ r) = (p ++ x) ++ r by simp, List.take_left]
  rw [show (p ++ x) ++ r = p ++ (x ++ r) by simp, List.take_left]
  simp [List.count_append]; omega

theorem pa_mono {r r' : Bytes} (h : r'.length ≤ r.length) : (pa D r).byte ≤ (pa D r').byte := by
  simp only [pa_byte]; omega

theorem pa_lt {x r : Bytes} (h : (x ++ r) <:+ D) (hx : x ≠ []) : (pa D (x ++ r)).byte < (pa D r).byte := by
  have h1 := pa_len h
  have h2 : (pa D r).byte + r.length = D.length := pa_len ((List.suffix_append x r).trans h)
  have : 0 < x.length := List.length_pos_iff.mpr hx
  simp only [List.length_append] at h1
  omega

theorem suf_app {a b : Bytes} (h : (a ++ b) <:+ D) : b <:+ D := (List.suffix_append a b).trans h
theorem suf_cons {a : UInt8} {b : Bytes} (h : (a :: b) <:+ D) : b <:+ D := (List.suffix_cons a b).trans h

@[simp] theorem add1_line (p : Position) : p.add1.line = p.line := rfl
@[simp] theorem add1_byte (p : Position) : p.add1.byte = p.byte + 1 := rfl

/-! ### the walk at one node -/

/-- all comments start before byte `n` -/
def Below (P : List Comment) (n : Nat) : Prop := ∀ p ∈ P, p.start.byte < n

theorem Below.mono {P : List Comment} {n m : Nat} (h : Below P n) (hnm : n ≤ m) : Below P m :=
  fun p hp => Nat.lt_of_lt_of_le (h p hp) hnm

theorem Below.append {P Q : List Comment} {n : Nat} (h1 : Below P n) (h2 : Below Q n) : Below (P ++ Q) n := by
  intro p hp
  rcases List.mem_append.1 hp with h | h
  · exact h1 p h
  · exact h2 p h

theorem below_nil (n : Nat) : Below [] n := by intro p hp; cases hp

theorem takeSuffix_stop (e : Position) (acc : List Comment) (L : List Comment) (h : Below L e.byte) :
    takeSuffix e acc L.reverse = (acc, L.reverse) := by
  rcases List.eq_nil_or_concat L with rfl | ⟨L', p, rfl⟩
  · simp [takeSuffix]
  · have hp := h p (by simp)
    simp only [List.concat_eq_append, List.reverse_append, List.reverse_cons, List.reverse_nil, List.nil_append,
      List.singleton_append]
    unfold takeSuffix
    have : ¬ e.byte ≤ p.start.byte := by omega
    simp [this]

theorem assignSuffix_none (span : Position × Position) (cs : Comments) (hs : cs.suffix = []) (P : List Comment)
    (hP : Below P span.2.byte) : assignSuffix span cs P.reverse = (cs, P.reverse) := by
  cases cs
  simp only at hs
  subst hs
  unfold assignSuffix
  split
  · simp
  · rw [takeSuffix_stop _ _ _ hP]
    simp

theorem assignSuffix_skip (span : Position × Position) (cs : Comments) (hs : cs.suffix = [])
    (hl : span.1.line ≠ span.2.line) (L : List Comment) : assignSuffix span cs L = (cs, L) := by
  cases cs
  simp only at hs
  subst hs
  unfold assignSuffix
  have : (span.1.line != span.2.line) = true := by simpa using hl
  rw [if_pos this]
  simp

theorem assignSuffix_take (span : Position × Position) (cs : Comments) (hs : cs.suffix = [])
    (hl : span.1.line = span.2.line) (c : Comment) (hc : span.2.byte ≤ c.start.byte) (P : List Comment)
    (hP : Below P span.2.byte) : assignSuffix span cs (P ++ [c]).reverse = ({ cs with suffix := [c] }, P.reverse) := by
  cases cs
  simp only at hs
  subst hs
  unfold assignSuffix
  have : (span.1.line != span.2.line) = false := by simp [hl]
  simp only [this, Bool.false_eq_true, if_false, List.reverse_append, List.reverse_cons, List.reverse_nil,
    List.nil_append, List.singleton_append]
  unfold takeSuffix
  simp only [hc, if_true]
  rw [takeSuffix_stop _ _ _ hP]
  simp

/-- the node gets back the comment that was printed after it -/
theorem assignSuffix_sufC (span : Position × Position) (bf : List Comment) (cs : List Comment) (R' : Bytes)
    (P : List Comment) (hl : cs ≠ [] → span.1.line = span.2.line)
    (hc : ∀ c, cs = [c] → span.2.byte ≤ (pa D (GoStrings.trimSpace c.token ++ 10 :: R')).byte)
    (hP : Below P span.2.byte) :
    assignSuffix span { before := bf } (P ++ sufC D cs R').reverse =
      ({ before := bf, suffix := sufC D cs R' }, P.reverse) := by
  cases cs with
  | nil => simpa [sufC] using assignSuffix_none span { before := bf } rfl P hP
  | cons c r =>
    cases r with
    | nil =>
      simp only [sufC]
      exact assignSuffix_take span { before := bf } rfl (hl (by simp)) _ (hc c rfl) P hP
    | cons d r2 => simpa [sufC] using assignSuffix_none span { before := bf } rfl P hP

theorem postLinesRev_append : ∀ (A B : List Line) (suf : List Comment),
    postLinesRev (A ++ B) suf =
      ((postLinesRev A suf).1 ++ (postLinesRev B (postLinesRev A suf).2).1, (postLinesRev B (postLinesRev A suf).2).2) := by
  intro A
  induction A with
  | nil => intro B suf; simp [postLinesRev]
  | cons a A ih =>
    intro B suf
    simp only [List.cons_append, postLinesRev]
    rw [ih]

theorem postStmtsRev_append : ∀ (A B : List Expr) (suf : List Comment),
    postStmtsRev (A ++ B) suf =
      ((postStmtsRev A suf).1 ++ (postStmtsRev B (postStmtsRev A suf).2).1, (postStmtsRev B (postStmtsRev A suf).2).2) := by
  intro A
  induction A with
  | nil => intro B suf; simp [postStmtsRev]
  | cons a A ih =>
    intro B suf
    simp only [List.cons_append, postStmtsRev]
    rw [ih]

/-! ### the comments the lexer records on a rendered tree -/

def linesC (D : Bytes) : List Line → Bytes → List Comment
  | [], _ => []
  | l :: ls, Z => sufC D l.comments.suffix (linesB ls Z) ++ linesC D ls Z

def stmtC (D : Bytes) : Expr → Bytes → List Comment
  | .line l, R => sufC D l.comments.suffix R
  | .lineBlock b, R => sufC D b.lparen.comments.suffix (linesB b.lines (closeB b R)) ++
      (linesC D b.lines (closeB b R) ++ sufC D (rsOf b) R)
  | _, _ => []

def stmtsC (D : Bytes) : List Expr → List Comment
  | [] => []
  | s :: rest => stmtC D s (sepR rest) ++ stmtsC D rest

theorem recs_append (A B : List Token) : recs (A ++ B) = recs A ++ recs B := by simp [recs]
theorem recs_cons (t : Token) (S : List Token) : recs (t :: S) = recOf t ++ recs S := by simp [recs]
theorem recs_nil : recs [] = [] := rfl

theorem recs_befT (m : Nat) (cs : List Comment) (R : Bytes) : recs (befT D m cs R) = [] := by
  induction cs with
  | nil => rfl
  | cons c cs ih =>
    simp only [befT, recs, List.flatMap_cons] at ih ⊢
    rw [ih]
    split <;> simp [recOf, nlT, comT]

theorem recOf_tokT (t rest : Bytes) (h : TokText t) : recOf (tokT D t rest) = [] := by
  have : kindOf t ≠ .eolComment := by
    rcases tokText_kind_cases h with hk | hk | ⟨c, _, hk, _⟩ <;> rw [hk] <;> simp
  simp [recOf, tokT, this]

theorem recs_tokStrT (ts : List Bytes) (hts : ∀ t ∈ ts, TokText t) (rest : Bytes) : recs (tokStrT D ts rest) = [] := by
  induction ts with
  | nil => rfl
  | cons t ts ih =>
    have := ih (fun t' h => hts t' (by simp [h]))
    simp only [tokStrT, recs, List.flatMap_cons] at this ⊢
    rw [this, recOf_tokT t _ (hts t (by simp))]
    rfl

theorem recOf_sufT (cs : List Comment) (R : Bytes) : recOf (sufT D cs R) = sufC D cs R := by
  unfold sufT sufC
  split <;> simp [recOf, eolT, nlT]

theorem recs_linesT : ∀ (ls : List Line) (allow : Bool) (Z : Bytes), EWFBlkLines allow ls →
    recs (linesT D ls Z) = linesC D ls Z := by
  intro ls
  induction ls with
  | nil => intro _ _ _; rfl
  | cons l ls ih =>
    intro allow Z hwf
    simp only [linesT, linesC, recs_append, recs_cons, recs_befT, List.nil_append, recs_tokStrT l.token hwf.1.tok,
      ih true Z hwf.2, recOf_sufT]

theorem recs_stmtT (s : Expr) (R : Bytes) (hwf : EWFStmt s) : recs (stmtT D s R) = stmtC D s R := by
  cases s with
  | commentBlock x => simp [stmtT, stmtC, recs_befT]
  | line l =>
    have hwf : EWFLine l := hwf
    simp only [stmtT, stmtC, recs_append, recs_cons, recs_nil, recs_befT, List.nil_append, List.append_nil,
      recs_tokStrT l.token hwf.tok, recOf_sufT]
  | lineBlock b =>
    have hwf : EWFBlock b := hwf
    have h40 : recOf (tokT D [40] (bodyB b R)) = [] := recOf_tokT _ _ (tokOK_tokText (TokOK.punct 40 (by decide)))
    have h41 : recOf (tokT D [41] (sufB (rsOf b) R)) = [] := recOf_tokT _ _ (tokOK_tokText (TokOK.punct 41 (by decide)))
    have hl := recs_linesT (D := D) b.lines false (closeB b R) hwf.lines
    simp only [stmtT, stmtC, recs_append, recs_cons, recs_nil, recs_befT, List.nil_append, List.append_nil,
      recs_tokStrT b.token hwf.tok, recOf_sufT, h40, h41, hl]
  | lparen x => exact absurd hwf id
  | rparen x => exact absurd hwf id

theorem recs_stmtsT : ∀ (ss : List Expr), EWFStmts ss → recs (stmtsT D ss) = stmtsC D ss := by
  intro ss
  induction ss with
  | nil => intro _; simp [stmtsT, stmtsC, recs, recOf, eofT]
  | cons s rest ih =>
    intro hwf
    rw [stmtsT_cons, recs_append, recs_stmtT s _ (hwf s (by simp))]
    have := ih (fun x hx => hwf x (by simp [hx]))
    cases rest with
    | nil => simp [stmtsC, sepT, recs, recOf, eofT]
    | cons r rs =>
      simp only [stmtsC, sepT, recs_cons] at this ⊢
      rw [this]
      simp [recOf, nlT]

/-! ### no newline inside the tokens of a commented line -/

/-- a line that carries an end-of-line comment has no newline byte inside its tokens -/
def NlLine (l : Line) : Prop := l.comments.suffix ≠ [] → ∀ t ∈ l.token, (10 : UInt8) ∉ t

def NlOK : Expr → Prop
  | .line l => NlLine l
  | .lineBlock b => ∀ l ∈ b.lines, NlLine l
  | _ => True

theorem tokStr_count10 : ∀ (ts : List Bytes) (sep : Bytes), (sep = [] ∨ sep = [32]) → (∀ t ∈ ts, (10 : UInt8) ∉ t) →
    (tokStr ts sep).count 10 = 0 := by
  intro ts
  induction ts with
  | nil => intro _ _ _; rfl
  | cons t ts ih =>
    intro sep hsep h
    have h1 : t.count 10 = 0 := List.count_eq_zero.2 (h t (by simp))
    have h2 := ih (sepAfter t) (sepAfter_cases t) (fun t' ht' => h t' (by simp [ht']))
    have h3 : (if Printer.noSepBefore.contains t then [] else sep : Bytes).count 10 = 0 := by
      split
      · rfl
      · rcases hsep with rfl | rfl <;> decide
    simp only [tokStr, List.count_append, h1, h2, h3]

/-! ### block lines -/

theorem sufB_length (cs : List Comment) (X : Bytes) : X.length < (sufB cs X).length := by
  simp [sufB]; omega

theorem sufB_suffix (cs : List Comment) (X : Bytes) : X <:+ sufB cs X := by
  unfold sufB
  exact (List.suffix_cons 10 X).trans (List.suffix_append _ _)

/-- the comment of the node starts before what follows the end of its line -/
theorem sufC_below (cs : List Comment) (X : Bytes) (h : sufB cs X <:+ D) : Below (sufC D cs X) (pa D X).byte := by
  intro p hp
  unfold sufC at hp
  split at hp
  · rename_i c
    simp only [List.mem_singleton] at hp
    subst hp
    have h2 : (GoStrings.trimSpace c.token ++ [10]) ++ X <:+ D := by
      have : (32 :: GoStrings.trimSpace c.token ++ 10 :: X) <:+ D := by simpa [sufB, rSuf] using h
      have := suf_cons this
      simpa using this
    have := pa_lt h2 (by simp)
    simpa using this
  · cases hp

theorem postLines_E : ∀ (ls : List Line) (allow : Bool) (Z : Bytes) (P : List Comment), EWFBlkLines allow ls →
    (∀ l ∈ ls, NlLine l) → linesB ls Z <:+ D → Below P (pa D (linesB ls Z)).byte →
    postLinesRev (eLines D ls Z).reverse (P ++ linesC D ls Z).reverse = ((aLines D ls Z).reverse, P.reverse) := by
  intro ls
  induction ls with
  | nil =>
    intro _ Z P _ _ _ _
    simp [eLines, aLines, linesC, postLinesRev]
  | cons l ls ih =>
    intro allow Z P hwf hnl hsuf hP
    obtain ⟨hl, hls⟩ := hwf
    obtain ⟨X, hX⟩ : ∃ X, X = linesB ls Z := ⟨_, rfl⟩
    have hB : linesB (l :: ls) Z = rBefore 1 l.comments.before ++ (9 :: (tokStr l.token [] ++ sufB l.comments.suffix X)) := by
      rw [hX]; rfl
    rw [hB] at hsuf hP
    have hs1 : (tokStr l.token [] ++ sufB l.comments.suffix X) <:+ D := suf_cons (suf_app hsuf)
    have hs2 : sufB l.comments.suffix X <:+ D := suf_app hs1
    have hs3 : X <:+ D := (sufB_suffix _ _).trans hs2
    -- the later lines
    have hP' : Below (P ++ sufC D l.comments.suffix X) (pa D X).byte := by
      apply Below.append
      · apply hP.mono
        apply pa_mono
        have := sufB_length l.comments.suffix X
        simp only [List.length_append, List.length_cons]
        omega
      · exact sufC_below _ _ hs2
    have ih' := ih true Z (P ++ sufC D l.comments.suffix (linesB ls Z)) hls (fun l' h => hnl l' (by simp [h]))
      (by rw [← hX]; exact hs3) (by rw [← hX]; exact hP')
    simp only [eLines, aLines, linesC, List.reverse_cons]
    rw [postLinesRev_append, ← List.append_assoc, ih']
    simp only [postLinesRev]
    rw [← hX]
    -- this line
    have hnode := assignSuffix_sufC (D := D)
      (pa D (tokStr l.token [] ++ sufB l.comments.suffix X), pa D (sufB l.comments.suffix X))
      (befC D 1 l.comments.before (9 :: (tokStr l.token [] ++ sufB l.comments.suffix X))) l.comments.suffix X P
      (by
        intro hne
        have := pa_line hs1
        rw [tokStr_count10 l.token [] (Or.inl rfl) (hnl l (by simp) hne)] at this
        simpa using this.symm)
      (by
        intro c hc
        apply pa_mono
        simp [hc, sufB, rSuf])
      (by
        apply hP.mono
        apply pa_mono
        simp only [List.length_append, List.length_cons]
        omega)
    rw [hnode]

/-- the comments of the lines start before what follows the lines -/
theorem linesC_below : ∀ (ls : List Line) (Z : Bytes), linesB ls Z <:+ D → Below (linesC D ls Z) (pa D Z).byte := by
  intro ls
  induction ls with
  | nil => intro Z _; exact below_nil _
  | cons l ls ih =>
    intro Z hsuf
    have hs2 : sufB l.comments.suffix (linesB ls Z) <:+ D := suf_app (suf_cons (suf_app hsuf))
    have hs3 : linesB ls Z <:+ D := (sufB_suffix _ _).trans hs2
    have hlen : ∀ (ls : List Line), Z.length ≤ (linesB ls Z).length := by
      intro ls
      induction ls with
      | nil => simp [linesB]
      | cons l ls ih => simp only [linesB, sufB, List.length_append, List.length_cons]; omega
    apply Below.append
    · exact (sufC_below _ _ hs2).mono (pa_mono (hlen ls))
    · exact ih Z hs3

/-! ### statements -/

theorem linesB_append : ∀ (ls : List Line) (A B : Bytes), linesB ls (A ++ B) = linesB ls A ++ B := by
  intro ls
  induction ls with
  | nil => intro A B; rfl
  | cons l ls ih => intro A B; simp [linesB, sufB, ih, List.append_assoc]

theorem stmtC_below (s : Expr) (R : Bytes) (hsuf : stmtB s R <:+ D) : Below (stmtC D s R) (pa D R).byte := by
  cases s with
  | commentBlock x => exact below_nil _
  | line l => exact sufC_below _ _ (suf_app (suf_app hsuf))
  | lineBlock b =>
    have h1 : bodyB b R <:+ D := suf_cons (suf_cons (suf_app (suf_app hsuf)))
    have h2 : linesB b.lines (closeB b R) <:+ D := (sufB_suffix _ _).trans h1
    have h3 : closeB b R <:+ D := by
      have hh : ∀ (ls : List Line) (Z : Bytes), Z <:+ linesB ls Z := by
        intro ls
        induction ls with
        | nil => intro Z; exact List.suffix_refl _
        | cons l ls ih =>
          intro Z
          simp only [linesB]
          exact (ih Z).trans ((sufB_suffix _ _).trans ((List.suffix_append _ _).trans
            ((List.suffix_cons _ _).trans (List.suffix_append _ _))))
      exact (hh _ _).trans h2
    have h4 : sufB (rsOf b) R <:+ D := suf_cons (suf_app h3)
    have hl1 : R.length ≤ (closeB b R).length := by
      simp only [closeB, sufB, List.length_append, List.length_cons]; omega
    have hlen : ∀ (ls : List Line) (Z : Bytes), Z.length ≤ (linesB ls Z).length := by
      intro ls
      induction ls with
      | nil => intro Z; simp [linesB]
      | cons l ls ih => intro Z; have := ih Z; simp only [linesB, sufB, List.length_append, List.length_cons]; omega
    apply Below.append
    · exact (sufC_below _ _ h1).mono (pa_mono (Nat.le_trans hl1 (hlen _ _)))
    · apply Below.append
      · exact (linesC_below _ _ h2).mono (pa_mono hl1)
      · exact sufC_below _ _ h4
  | lparen x => exact below_nil _
  | rparen x => exact below_nil _

theorem count_pos_of_mem {x : Bytes} (h : (10 : UInt8) ∈ x) : 0 < x.count 10 := List.count_pos_iff.2 h

/-- ★ one statement: every node gets back the comment printed after it -/
theorem postStmt_E (s : Expr) (R : Bytes) (P : List Comment) (hwf : EWFStmt s) (hnl : NlOK s)
    (hsuf : stmtB s R <:+ D) (hP : Below P (pa D (stmtB s R)).byte) :
    postStmt (eStmt D s R) (P ++ stmtC D s R).reverse = (aStmt D s R, P.reverse) := by
  cases s with
  | commentBlock x =>
    simp only [eStmt, aStmt, stmtC, List.append_nil, postStmt, Expr.span, Expr.comments, Expr.setComments]
    rw [assignSuffix_none _ _ rfl P (by simpa [stmtB] using hP)]
  | line l =>
    have hwf : EWFLine l := hwf
    have hnl : NlLine l := hnl
    simp only [stmtB] at hsuf hP
    have hs1 : (tokStr l.token [] ++ sufB l.comments.suffix R) <:+ D := suf_app hsuf
    have hnode := assignSuffix_sufC (D := D)
      (pa D (tokStr l.token [] ++ sufB l.comments.suffix R), pa D (sufB l.comments.suffix R))
      (befC D 0 l.comments.before (tokStr l.token [] ++ sufB l.comments.suffix R)) l.comments.suffix R P
      (by
        intro hne
        have := pa_line hs1
        rw [tokStr_count10 l.token [] (Or.inl rfl) (hnl hne)] at this
        simpa using this.symm)
      (by
        intro c hc
        apply pa_mono
        simp [hc, sufB, rSuf])
      (by
        apply hP.mono
        apply pa_mono
        simp only [List.length_append]
        omega)
    simp only [eStmt, aStmt, stmtC, postStmt, Expr.span, Expr.comments, Expr.setComments]
    rw [hnode]
  | lineBlock b =>
    have hwf : EWFBlock b := hwf
    have hnl : ∀ l ∈ b.lines, NlLine l := hnl
    simp only [stmtB] at hsuf hP
    obtain ⟨Z, hZ⟩ : ∃ Z, Z = closeB b R := ⟨_, rfl⟩
    obtain ⟨X, hX⟩ : ∃ X, X = linesB b.lines Z := ⟨_, rfl⟩
    have hbody : bodyB b R = sufB b.lparen.comments.suffix X := by rw [hX, hZ]; rfl
    have hclose : Z = rBefore 0 b.rparen.comments.before ++ (41 :: sufB (rsOf b) R) := by rw [hZ]; rfl
    rw [hbody] at hsuf hP
    -- suffixes of the input
    have hs1 : (tokStr b.token [] ++ (32 :: 40 :: sufB b.lparen.comments.suffix X)) <:+ D := suf_app hsuf
    have hs2 : (40 :: sufB b.lparen.comments.suffix X) <:+ D := suf_cons (suf_app hs1)
    have hs3 : sufB b.lparen.comments.suffix X <:+ D := suf_cons hs2
    have hs4 : X <:+ D := (sufB_suffix _ _).trans hs3
    have hZX : Z <:+ X := by
      rw [hX]
      have hh : ∀ (ls : List Line) (Z : Bytes), Z <:+ linesB ls Z := by
        intro ls
        induction ls with
        | nil => intro Z; exact List.suffix_refl _
        | cons l ls ih =>
          intro Z
          simp only [linesB]
          exact (ih Z).trans ((sufB_suffix _ _).trans ((List.suffix_append _ _).trans
            ((List.suffix_cons _ _).trans (List.suffix_append _ _))))
      exact hh _ _
    have hs5 : Z <:+ D := hZX.trans hs4
    have hs6 : (41 :: sufB (rsOf b) R) <:+ D := by rw [hclose] at hs5; exact suf_app hs5
    have hs7 : sufB (rsOf b) R <:+ D := suf_cons hs6
    -- lengths
    have hlZX : Z.length ≤ X.length := hZX.length_le
    have hlcl : (41 :: sufB (rsOf b) R).length ≤ Z.length := by rw [hclose]; simp
    -- the order of the comments
    have hPX : Below P (pa D X).byte := by
      apply hP.mono; apply pa_mono
      have := sufB_length b.lparen.comments.suffix X
      simp only [List.length_append, List.length_cons]; omega
    have hlpC : Below (sufC D b.lparen.comments.suffix X) (pa D X).byte := sufC_below _ _ hs3
    have hlinesC : Below (linesC D b.lines Z) (pa D Z).byte := linesC_below _ _ (by rw [← hX]; exact hs4)
    -- the block node spans several lines: skipped
    have hskip : (pa D (tokStr b.token [] ++ (32 :: 40 :: sufB b.lparen.comments.suffix X))).line ≠
        (pa D (41 :: sufB (rsOf b) R)).add1.line := by
      have hsplit : tokStr b.token [] ++ (32 :: 40 :: sufB b.lparen.comments.suffix X) =
          (tokStr b.token [] ++ (32 :: 40 :: (rSuf b.lparen.comments.suffix ++
            10 :: linesB b.lines (rBefore 0 b.rparen.comments.before)))) ++ (41 :: sufB (rsOf b) R) := by
        rw [hX, hclose, linesB_append]
        simp [sufB, List.append_assoc]
      have hline := pa_line (D := D) (x := tokStr b.token [] ++ (32 :: 40 :: (rSuf b.lparen.comments.suffix ++
            10 :: linesB b.lines (rBefore 0 b.rparen.comments.before)))) (r := 41 :: sufB (rsOf b) R)
        (by rw [← hsplit]; exact hs1)
      have hpos : 0 < (tokStr b.token [] ++ (32 :: 40 :: (rSuf b.lparen.comments.suffix ++
            10 :: linesB b.lines (rBefore 0 b.rparen.comments.before)))).count 10 :=
        count_pos_of_mem (by simp)
      rw [hsplit]
      simp only [add1_line]
      omega
    -- `)`
    have hrp := assignSuffix_sufC (D := D)
      (pa D (41 :: sufB (rsOf b) R), (pa D (41 :: sufB (rsOf b) R)).add1)
      (befC D 0 b.rparen.comments.before (41 :: sufB (rsOf b) R)) (rsOf b) R
      (P ++ (sufC D b.lparen.comments.suffix X ++ linesC D b.lines Z))
      (fun _ => rfl)
      (by
        intro c hc
        have h1 := pa_len hs6
        have h2 : (GoStrings.trimSpace c.token ++ [10]) ++ R <:+ D := by
          have : (32 :: GoStrings.trimSpace c.token ++ 10 :: R) <:+ D := by simpa [sufB, rSuf, hc] using hs7
          simpa using suf_cons this
        have h3 := pa_len h2
        simp only [List.append_assoc, List.singleton_append] at h3
        have hlen : (41 :: sufB (rsOf b) R).length = (GoStrings.trimSpace c.token).length + R.length + 3 := by
          simp [hc, sufB, rSuf]; omega
        rw [hlen] at h1
        simp only [add1_byte]
        simp only [List.length_cons, List.length_append] at h3
        omega)
      (by
        have hb : (pa D Z).byte < (pa D (41 :: sufB (rsOf b) R)).add1.byte := by
          have h1 := pa_len hs6
          have h2 := pa_len hs5
          simp only [add1_byte]
          omega
        apply Below.append
        · exact (hPX.mono (pa_mono hlZX)).mono (Nat.le_of_lt hb)
        · apply Below.append
          · exact (hlpC.mono (pa_mono hlZX)).mono (Nat.le_of_lt hb)
          · exact hlinesC.mono (Nat.le_of_lt hb))
    -- the lines
    have hlines := postLines_E (D := D) b.lines false Z (P ++ sufC D b.lparen.comments.suffix X) hwf.lines hnl
      (by rw [← hX]; exact hs4) (by rw [← hX]; exact hPX.append hlpC)
    -- `(`
    have hlp := assignSuffix_sufC (D := D)
      (pa D (40 :: sufB b.lparen.comments.suffix X), (pa D (40 :: sufB b.lparen.comments.suffix X)).add1)
      [] b.lparen.comments.suffix X P
      (fun _ => rfl)
      (by
        intro c hc
        have h1 := pa_len hs2
        have h2 : (GoStrings.trimSpace c.token ++ [10]) ++ X <:+ D := by
          have : (32 :: GoStrings.trimSpace c.token ++ 10 :: X) <:+ D := by simpa [sufB, rSuf, hc] using hs3
          simpa using suf_cons this
        have h3 := pa_len h2
        simp only [List.append_assoc, List.singleton_append] at h3
        have hlen : (40 :: sufB b.lparen.comments.suffix X).length = (GoStrings.trimSpace c.token).length + X.length + 3 := by
          simp [hc, sufB, rSuf]; omega
        rw [hlen] at h1
        simp only [add1_byte]
        simp only [List.length_cons, List.length_append] at h3
        omega)
      (by
        apply hP.mono
        have h1 := pa_len hs2
        have h2 := pa_len hsuf
        simp only [add1_byte]
        simp only [List.length_cons, List.length_append] at h1 h2
        omega)
    simp only [eStmt, aStmt, stmtC, postStmt, Expr.span, ← hZ, ← hX, hbody]
    have hreassoc : (P ++ (sufC D b.lparen.comments.suffix X ++ (linesC D b.lines Z ++ sufC D (rsOf b) R))) =
        (P ++ (sufC D b.lparen.comments.suffix X ++ linesC D b.lines Z)) ++ sufC D (rsOf b) R := by simp
    rw [hreassoc]
    -- block node
    rw [assignSuffix_skip _ _ rfl hskip]
    simp only
    rw [hrp]
    simp only
    have hre2 : P ++ (sufC D b.lparen.comments.suffix X ++ linesC D b.lines Z) =
        (P ++ sufC D b.lparen.comments.suffix X) ++ linesC D b.lines Z := by simp
    rw [hre2, hlines]
    simp only
    rw [hlp]
    simp
  | lparen x => exact absurd hwf id
  | rparen x => exact absurd hwf id

/-! ### statement lists and files -/

theorem stmtsB_cons (s : Expr) (rest : List Expr) : stmtsB (s :: rest) = stmtB s (sepR rest) := by
  cases rest <;> rfl

theorem aStmts_cons (s : Expr) (rest : List Expr) : aStmts D (s :: rest) = aStmt D s (sepR rest) :: aStmts D rest := by
  cases rest <;> rfl

theorem suffix_stmtB (s : Expr) (R : Bytes) : R <:+ stmtB s R := by
  cases s with
  | commentBlock x => exact List.suffix_append _ _
  | line l => exact (sufB_suffix _ _).trans ((List.suffix_append _ _).trans (List.suffix_append _ _))
  | lineBlock b =>
    have hh : ∀ (ls : List Line) (Z : Bytes), Z <:+ linesB ls Z := by
      intro ls
      induction ls with
      | nil => intro Z; exact List.suffix_refl _
      | cons l ls ih =>
        intro Z
        simp only [linesB]
        exact (ih Z).trans ((sufB_suffix _ _).trans ((List.suffix_append _ _).trans
          ((List.suffix_cons _ _).trans (List.suffix_append _ _))))
    simp only [stmtB, bodyB, closeB]
    exact (sufB_suffix _ _).trans ((List.suffix_cons _ _).trans ((List.suffix_append _ _).trans ((hh _ _).trans
      ((sufB_suffix _ _).trans ((List.suffix_cons _ _).trans ((List.suffix_cons _ _).trans
        ((List.suffix_append _ _).trans (List.suffix_append _ _))))))))
  | lparen x => exact List.suffix_refl _
  | rparen x => exact List.suffix_refl _

theorem postStmts_E : ∀ (ss : List Expr) (P : List Comment), EWFStmts ss → (∀ s ∈ ss, NlOK s) →
    stmtsB ss <:+ D → Below P (pa D (stmtsB ss)).byte →
    postStmtsRev (eStmts D ss).reverse (P ++ stmtsC D ss).reverse = ((aStmts D ss).reverse, P.reverse) := by
  intro ss
  induction ss with
  | nil => intro P _ _ _ _; simp [eStmts, aStmts, stmtsC, postStmtsRev]
  | cons s rest ih =>
    intro P hwf hnl hsuf hP
    rw [stmtsB_cons] at hsuf hP
    have hR : sepR rest <:+ D := (suffix_stmtB s _).trans hsuf
    have hrest : stmtsB rest <:+ D := by
      cases rest with
      | nil => exact List.nil_suffix
      | cons r rs => exact suf_cons hR
    have hlenR : (stmtsB rest).length ≤ (sepR rest).length := by
      cases rest with
      | nil => simp [stmtsB]
      | cons r rs => simp [sepR]
    have hP' : Below (P ++ stmtC D s (sepR rest)) (pa D (stmtsB rest)).byte := by
      apply Below.append
      · apply hP.mono
        apply pa_mono
        exact Nat.le_trans hlenR (suffix_stmtB s _).length_le
      · exact (stmtC_below s _ hsuf).mono (pa_mono hlenR)
    have ih' := ih (P ++ stmtC D s (sepR rest)) (fun x hx => hwf x (by simp [hx])) (fun x hx => hnl x (by simp [hx]))
      hrest hP'
    rw [eStmts_cons, aStmts_cons]
    simp only [stmtsC, List.reverse_cons]
    rw [postStmtsRev_append, ← List.append_assoc, ih']
    simp only [postStmtsRev]
    rw [postStmt_E s (sepR rest) P (hwf s (by simp)) (hnl s (by simp)) hsuf hP]

/-- ★ stage (iv) `assign_reattach`: on the re-parsed statement list of a rendered tree, `assignComments` gives
    every node the end-of-line comment that was printed after it and leaves no comment over for the file. -/
theorem assign_reattach (name : Bytes) (ss : List Expr) (hwf : EWFStmts ss) (hnl : ∀ s ∈ ss, NlOK s)
    (hD : D = stmtsB ss) :
    assignComments { name := name, stmts := eStmts D ss } (stmtsC D ss) =
      { name := name, comments := {}, stmts := aStmts D ss } := by
  have hall : ∀ c ∈ stmtsC D ss, c.suffix = true := by
    rw [← recs_stmtsT ss hwf]
    intro c hc
    simp only [recs, List.mem_flatMap] at hc
    obtain ⟨tok, _, hc⟩ := hc
    unfold recOf at hc
    split at hc
    · simp only [List.mem_singleton] at hc; rw [hc]
    · cases hc
  have hfl : (stmtsC D ss).filter (fun c => !c.suffix) = [] := by
    rw [List.filter_eq_nil_iff]
    intro c hc
    simp [hall c hc]
  have hfs : (stmtsC D ss).filter (fun c => c.suffix) = stmtsC D ss := by
    rw [List.filter_eq_self]
    intro c hc
    exact hall c hc
  have hpost := postStmts_E (D := D) ss [] hwf hnl (by rw [hD]; exact List.suffix_refl _) (below_nil _)
  simp only [List.nil_append, List.reverse_nil] at hpost
  unfold assignComments
  simp only [hfl, hfs, assignBefore_nil, preStmts_nil, hpost]
  simp

end ModVerif.Proofs.ModfileEol
