/- Helper lemmas for C18: PseudoVersion produces a pseudo-version text; Compare on such texts. -/
import ModVerif.Proofs.PseudoParse
namespace ModVerif.Proofs.Pseudo
open ModVerif ModVerif.PseudoSpec
open ModVerif.Pseudo hiding isDigit isAlnum

/-! ### PseudoVersion builds a pseudo-version text -/

theorem canonical_none {older : Bytes} (h : Semver.parse older = none) :
    Semver.canonical older = [] ∧ Semver.build older = [] := by
  simp [Semver.canonical, Semver.build, h]

/-- form (1) -/
theorem pseudoVersion_nobase {major older ts rev m : Bytes} (h : Semver.parse older = none)
    (hmajor : (major = [] ∧ m = [48]) ∨ major = 118 :: m) :
    pseudoVersion major older ts rev = .ok (pvText m [48] [48] [] ts rev []) := by
  obtain ⟨c1, c2⟩ := canonical_none h
  unfold pseudoVersion
  simp only [c1, c2, List.isEmpty_nil, if_true]
  rcases hmajor with ⟨rfl, rfl⟩ | rfl
  · simp [pvText, pvPre]
  · simp [pvText, pvPre]

theorem canonical_parts {older : Bytes} {p : Semver.Parsed} (h : Semver.parse older = some p) :
    Semver.canonical older = 118 :: p.major ++ 46 :: p.minor ++ 46 :: p.patch ++ p.prerelease ∧
    Semver.prerelease (Semver.canonical older) = p.prerelease ∧ Semver.build older = p.build := by
  obtain ⟨n1, n2, n3, hpre, _, _⟩ := parse_inv h
  have hc := canonical_of_parse h
  refine ⟨hc, ?_, build_of_parse h⟩
  have := parse_full n1 n2 n3 hpre buildOK_nil
  simp only [List.append_nil] at this
  rw [hc]; unfold Semver.prerelease; rw [this]

/-- forms (4), (5) -/
theorem pseudoVersion_prerelease {major older ts rev body : Bytes} {p : Semver.Parsed}
    (h : Semver.parse older = some p) (hpre : p.prerelease = 45 :: body) :
    pseudoVersion major older ts rev
      = .ok (pvText p.major p.minor p.patch (body ++ [46, 48, 46]) ts rev p.build) := by
  obtain ⟨c1, c2, c3⟩ := canonical_parts h
  unfold pseudoVersion
  simp only [c2, c3]
  rw [c1, hpre]
  simp [pvText, pvPre]

/-- forms (2), (3) -/
theorem pseudoVersion_release {major older ts rev : Bytes} {p : Semver.Parsed}
    (h : Semver.parse older = some p) (hpre : p.prerelease = []) :
    ∃ pat', incDecimal p.patch = some pat' ∧
      pseudoVersion major older ts rev = .ok (pvText p.major p.minor pat' [48, 46] ts rev p.build) := by
  obtain ⟨c1, c2, c3⟩ := canonical_parts h
  obtain ⟨_, _, n3, _, _, _⟩ := parse_inv h
  obtain ⟨pat', hinc, _⟩ := incDecimal_num n3
  refine ⟨pat', hinc, ?_⟩
  have hsplit : splitLast 46 (118 :: p.major ++ 46 :: p.minor ++ 46 :: p.patch)
      = some (118 :: p.major ++ 46 :: p.minor, p.patch) :=
    splitLast_append 46 (118 :: p.major ++ 46 :: p.minor) p.patch (digits_no p.patch n3.2.1).2.1
  unfold pseudoVersion
  simp only [c2, c3]
  rw [c1, hpre, List.append_nil, hsplit]
  simp [hinc, pvText, pvPre]

/-! ### Compare -/

theorem compareInt_self (x : Bytes) : Semver.compareInt x x = 0 := by simp [Semver.compareInt]

/-- equal major and minor, smaller patch -/
theorem compare_patch_lt {v w : Bytes} {p q : Semver.Parsed} (hv : Semver.parse v = some p) (hw : Semver.parse w = some q)
    (h1 : p.major = q.major) (h2 : p.minor = q.minor) (h3 : Semver.compareInt p.patch q.patch = -1) :
    Semver.compare v w = -1 := by
  simp [Semver.compare, hv, hw, h1, h2, h3, compareInt_self]

/-- equal numbers: the prerelease parts decide -/
theorem compare_same_nums {v w : Bytes} {p q : Semver.Parsed} (hv : Semver.parse v = some p) (hw : Semver.parse w = some q)
    (h1 : p.major = q.major) (h2 : p.minor = q.minor) (h3 : p.patch = q.patch) :
    Semver.compare v w = Semver.comparePrerelease p.prerelease q.prerelease := by
  simp [Semver.compare, hv, hw, h1, h2, h3, compareInt_self]

/-- a prerelease sorts below the release -/
theorem comparePrerelease_nil (x : Bytes) (hx : x ≠ []) : Semver.comparePrerelease x [] = -1 := by
  cases x with
  | nil => exact absurd rfl hx
  | cons c cs => simp [Semver.comparePrerelease]

/-- the identifiers of the prerelease part of a pseudo-version: a fixed list, then `ts-rev` -/
theorem splitOn_mid {min pat R0 : Bytes} (hR : Mid min pat R0) :
    ∃ l : List Bytes, (∀ seg : Bytes, 46 ∉ seg → splitOn 46 (R0 ++ seg) = l ++ [seg]) ∧
      (∀ body, R0 = body ++ [46, 48, 46] → l = splitOn 46 body ++ [[48]]) := by
  cases hR with
  | nobase => exact ⟨[], fun seg h => by simp [splitOn_noSep 46 seg h], fun body e => by cases body <;> simp at e⟩
  | release =>
    refine ⟨[[48]], fun seg h => ?_, fun body e => ?_⟩
    · have : ([48, 46] ++ seg : Bytes) = [48] ++ 46 :: seg := by simp
      rw [this, splitOn_two 46 _ _ (by decide) h]; rfl
    · exfalso
      have := congrArg List.length e
      simp at this
  | prerelease _ _ body hb hs =>
    refine ⟨splitOn 46 body ++ [[48]], fun seg h => ?_, fun body' e => ?_⟩
    · have : (body ++ [46, 48, 46] ++ seg : Bytes) = body ++ 46 :: ([48] ++ 46 :: seg) := by simp
      rw [this, splitOn_append_sep, splitOn_two 46 _ _ (by decide) h]
      simp
    · have := List.append_inj_left' e rfl
      rw [this]

theorem seg_nodot {ts rev : Bytes} (hts : Ts ts) (hrev : Rev rev) : 46 ∉ ts ++ 45 :: rev := by
  intro h
  rcases List.mem_append.mp h with h | h
  · exact (digits_no ts hts.2).2.1 h
  · rcases List.mem_cons.mp h with h | h
    · exact absurd h (by decide)
    · exact (alnums_no rev hrev.2).2.1 h

theorem isNum_seg (ts rev : Bytes) : Semver.isNum (ts ++ 45 :: rev) = false := by
  unfold Semver.isNum
  rw [List.all_eq_false]
  exact ⟨45, by simp, by decide⟩

/-- same base, earlier time stamp: the prerelease parts compare as -1, whatever the revisions -/
theorem comparePrerelease_time {min pat R0 ts1 ts2 rev1 rev2 : Bytes} (hR : Mid min pat R0)
    (h1 : Ts ts1) (h2 : Ts ts2) (r1 : Rev rev1) (r2 : Rev rev2) (hlt : bytesLt ts1 ts2 = true) :
    Semver.comparePrerelease (pvPre R0 ts1 rev1) (pvPre R0 ts2 rev2) = -1 := by
  have hsegLt : bytesLt (ts1 ++ 45 :: rev1) (ts2 ++ 45 :: rev2) = true :=
    bytesLt_append_of_lt ts1 ts2 _ _ (by rw [h1.1, h2.1]) hlt
  have hsegNe : ts1 ++ 45 :: rev1 ≠ ts2 ++ 45 :: rev2 := bytesLt_ne _ _ hsegLt
  have hne : pvPre R0 ts1 rev1 ≠ pvPre R0 ts2 rev2 := by
    intro e
    simp only [pvPre, List.append_assoc] at e
    injection e with _ e
    exact hsegNe (List.append_cancel_left e)
  obtain ⟨l, hl, _⟩ := splitOn_mid hR
  unfold Semver.comparePrerelease
  rw [if_neg hne]
  simp only [pvPre, List.isEmpty_cons, Bool.false_eq_true, if_false, List.drop_succ_cons, List.drop_zero,
    List.append_assoc]
  rw [hl _ (seg_nodot h1 r1), hl _ (seg_nodot h2 r2), cmpIdents_common l _ _ [] [] hsegNe]
  simp [Semver.cmpIdent, isNum_seg, hsegLt]

/-- the base's prerelease against the pseudo-version's: a proper prefix of the identifier list -/
theorem comparePrerelease_ext {min pat body ts rev : Bytes}
    (hR : Mid min pat (body ++ [46, 48, 46])) (hts : Ts ts) (hrev : Rev rev) :
    Semver.comparePrerelease (45 :: body) (pvPre (body ++ [46, 48, 46]) ts rev) = -1 := by
  have hne : (45 :: body : Bytes) ≠ pvPre (body ++ [46, 48, 46]) ts rev := by
    intro e
    have := congrArg List.length e
    simp [pvPre] at this
  obtain ⟨l, hl, hl2⟩ := splitOn_mid hR
  have hl' := hl2 body rfl
  unfold Semver.comparePrerelease
  rw [if_neg hne]
  simp only [pvPre, List.isEmpty_cons, Bool.false_eq_true, if_false, List.drop_succ_cons, List.drop_zero,
    List.append_assoc]
  have e : (body ++ ([46, 48, 46] ++ (ts ++ 45 :: rev)) : Bytes) = (body ++ [46, 48, 46]) ++ (ts ++ 45 :: rev) := by simp
  rw [e, hl _ (seg_nodot hts hrev), hl', List.append_assoc]
  exact cmpIdents_prefix _ _ _


/-- Whatever the time and revision, PseudoVersion on an admissible (major, base) produces the text of a
    pseudo-version whose fixed parts depend on (major, base) only. -/
theorem pseudoVersion_shape {major older : Bytes}
    (hbase : Semver.isValid older = true ∨ (older = [] ∧ MajorArg major)) :
    ∃ maj min pat R0 bld, Num maj ∧ Num min ∧ Num pat ∧ Mid min pat R0 ∧ BuildOK bld ∧
      ∀ ts rev, pseudoVersion major older ts rev = .ok (pvText maj min pat R0 ts rev bld) := by
  rcases hbase with hv | ⟨rfl, hm⟩
  · unfold Semver.isValid at hv
    cases hp : Semver.parse older with
    | none => simp [hp] at hv
    | some p =>
      obtain ⟨n1, n2, n3, hpre, hbld, _⟩ := parse_inv hp
      rcases hpre with h0 | ⟨body, hb, hb1, hb2⟩
      · obtain ⟨pat', hinc, npat', _⟩ := incDecimal_num n3
        refine ⟨p.major, p.minor, pat', [48, 46], p.build, n1, n2, npat', Mid.release _ _, hbld, ?_⟩
        intro ts rev
        obtain ⟨pat'', hinc', hpv⟩ := pseudoVersion_release (major := major) (ts := ts) (rev := rev) hp h0
        rw [hinc] at hinc'
        injection hinc' with e
        rw [e]; exact hpv
      · exact ⟨p.major, p.minor, p.patch, body ++ [46, 48, 46], p.build, n1, n2, n3,
          Mid.prerelease _ _ body hb1 hb2, hbld, fun ts rev => pseudoVersion_prerelease hp hb⟩
  · have hnone : Semver.parse [] = none := rfl
    rcases hm with rfl | ⟨m, nm, rfl⟩
    · exact ⟨[48], [48], [48], [], [], num0, num0, num0, Mid.nobase, buildOK_nil,
        fun ts rev => pseudoVersion_nobase hnone (Or.inl ⟨rfl, rfl⟩)⟩
    · exact ⟨m, [48], [48], [], [], nm, num0, num0, Mid.nobase, buildOK_nil,
        fun ts rev => pseudoVersion_nobase hnone (Or.inr rfl)⟩

end ModVerif.Proofs.Pseudo
