/-
  ClientRefine, part 2c — for ONE client the in-memory head at the end of an honest run does not depend on the
  interleaving either (up to equivalence): two more invariants of the latest-head machine.
   * `PosInv`: a goroutine that has entered the flush loop of `mergeLatest` (or has read the configuration) was
     presented a tree of positive size (it installed it over a smaller head).
   * `BaseInv` (honest runs): a client's in-memory head is the empty tree, or it contains the initial configuration's
     tree, or one of the client's goroutines is still going to merge the configuration content into it.
  Helper for Props/C14.lean.
-/
import ModVerif.Proofs.ClientMoreSeq
namespace ModVerif.ClientLatest
variable {M T : Type}

/-- the goroutine has installed its presented head and not yet returned -/
def FlushPC (p : PC) : Prop :=
  p = .memInstall .first ∨ p = .readConfig ∨ p = .memRead .loop ∨ p = .memCheck .loop ∨ p = .memInstall .loop ∨
  p = .readLatestMsg ∨ p = .writeConfig

/-- the goroutine is still going to merge the configuration content into the in-memory head -/
def PendingPC (p : PC) : Prop :=
  p = .readConfig ∨ p = .memRead .loop ∨ p = .memCheck .loop ∨ p = .memInstall .loop

/-- the goroutine holds a configuration content it read -/
def HoldsCfg (p : PC) : Prop :=
  p = .memRead .loop ∨ p = .memCheck .loop ∨ p = .memInstall .loop ∨ p = .readLatestMsg ∨ p = .writeConfig

structure PosInv (P : Params M T) (presented : Nat → Option M) (s : St M T) : Prop where
  pos : ∀ t, (FlushPC (s.th t).pc ∨ (s.th t).cfg ≠ none) →
    ∃ m pt, presented t = some m ∧ P.parse m = some pt ∧ 0 < P.size pt

variable [DecidableEq M] [DecidableEq T]

theorem pos_step (P : Params M T) (le : T → T → Prop) (cl : Nat → Nat) (presented : Nat → Option M)
    (priv : Nat → Bool) (s s' : St M T) (t : Nat) (r : Res)
    (hI : Inv P le cl presented priv s) (hK : PosInv P presented s)
    (h : step P cl presented priv s t r = some s') : PosInv P presented s' := by
  constructor
  intro t'
  by_cases ht : t' = t
  · rw [ht]
    have k := hK.pos t
    have i1 := hI.snap t .first
    have i2 := hI.first_msg t
    step_cases
    all_goals (simp only [FlushPC] at *; grind [upd])
  · rw [step_th_frame P cl presented priv s s' t r h t' ht]
    exact hK.pos t'

theorem pos_reachable (P : Params M T) (le : T → T → Prop) (hS : Sound P le) (cl : Nat → Nat)
    (presented : Nat → Option M) (priv : Nat → Bool) (c0 : Option M) (s : St M T)
    (h : Reachable P cl presented priv c0 s) : PosInv P presented s := by
  induction h with
  | init => exact ⟨fun t h => by simp [init, FlushPC] at h⟩
  | step t r hr hs ih =>
    exact pos_step P le cl presented priv _ _ t r (inv_reachable P le hS cl presented priv c0 _ hr) ih hs

structure BaseInv (P : Params M T) (le : T → T → Prop) (cl : Nat → Nat) (c0 : Option M) (s : St M T) : Prop where
  cfg_base : ∀ t, HoldsCfg (s.th t).pc → le (cfgTree P c0) (cfgTree P (s.th t).cfg)
  base : ∀ c, s.latest c = P.zero ∨ le (cfgTree P c0) (s.latest c) ∨ ∃ t, cl t = c ∧ PendingPC (s.th t).pc

omit [DecidableEq M] [DecidableEq T] in
theorem base_init (P : Params M T) (le : T → T → Prop) (cl : Nat → Nat) (c0 : Option M) :
    BaseInv P le cl c0 (init P c0) :=
  ⟨fun t h => by simp [init, HoldsCfg] at h, fun c => Or.inl rfl⟩

theorem base_step_cfg (P : Params M T) (le : T → T → Prop) (cl : Nat → Nat) (presented : Nat → Option M)
    (priv : Nat → Bool) (c0 : Option M) (s s' : St M T) (t : Nat) (r : Res)
    (hge : le (cfgTree P c0) (cfgTree P s.config)) (hB : BaseInv P le cl c0 s)
    (h : step P cl presented priv s t r = some s') :
    ∀ t', HoldsCfg (s'.th t').pc → le (cfgTree P c0) (cfgTree P (s'.th t').cfg) := by
  intro t'
  by_cases ht : t' = t
  · rw [ht]
    have b := hB.cfg_base t
    step_cases
    all_goals (simp only [HoldsCfg] at *; grind [upd])
  · rw [step_th_frame P cl presented priv s s' t r h t' ht]
    exact hB.cfg_base t'

/-- what a step of `t` does to the base clause of its own client -/
theorem base_step_own (P : Params M T) (le : T → T → Prop) (Ch : T → Prop) (cl : Nat → Nat)
    (presented : Nat → Option M) (priv : Nat → Bool) (c0 : Option M) (hH : Honest P le Ch presented c0)
    (s s' : St M T) (t : Nat) (r : Res)
    (hI : Inv P le cl presented priv s) (hC : ChainInv P Ch s) (hB : BaseInv P le cl c0 s) (hok : CfgOk s t r)
    (h : step P cl presented priv s t r = some s')
    (hpre : PendingPC (s.th t).pc ∨ s'.latest (cl t) ≠ s.latest (cl t)) :
    le (cfgTree P c0) (s'.latest (cl t)) ∨ PendingPC (s'.th t).pc := by
  have b1 := hB.cfg_base t
  have i1 := hI.snap t
  have i3 := hI.loop_msg t
  have c1 := hC.th_msg t; have c2 := hC.th_tree t; have c3 := hC.th_latest t
  have gp := goodMsg_parse_ne P Ch
  have hc := hH.chk_honest
  obtain ⟨s1, s2, s3, s4⟩ := hH.sound
  unfold CfgOk at hok
  step_cases
  all_goals (simp only [PendingPC, HoldsCfg] at *; grind [upd, cfgTree_some, cfgTree_none])

theorem base_step (P : Params M T) (le : T → T → Prop) (Ch : T → Prop) (cl : Nat → Nat)
    (presented : Nat → Option M) (priv : Nat → Bool) (c0 : Option M) (hH : Honest P le Ch presented c0)
    (s s' : St M T) (t : Nat) (r : Res)
    (hI : Inv P le cl presented priv s) (hC : ChainInv P Ch s) (hge : le (cfgTree P c0) (cfgTree P s.config))
    (hB : BaseInv P le cl c0 s) (hok : CfgOk s t r)
    (h : step P cl presented priv s t r = some s') : BaseInv P le cl c0 s' := by
  refine ⟨base_step_cfg P le cl presented priv c0 s s' t r hge hB h, fun c => ?_⟩
  have hown := base_step_own P le Ch cl presented priv c0 hH s s' t r hI hC hB hok h
  have hmono := step_latest_mono P le hH.sound cl presented priv s s' t r hI h
  by_cases hl : s'.latest c = s.latest c
  · rcases hB.base c with h1 | h1 | ⟨t0, ht0, hp0⟩
    · left; rw [hl]; exact h1
    · right; left; rw [hl]; exact h1
    · by_cases ht : t0 = t
      · subst ht
        subst ht0
        rcases hown (Or.inl hp0) with h2 | h2
        · exact Or.inr (Or.inl h2)
        · exact Or.inr (Or.inr ⟨t0, rfl, h2⟩)
      · right; right
        refine ⟨t0, ht0, ?_⟩
        rw [step_th_frame P cl presented priv s s' t r h t0 ht]; exact hp0
  · have hc : c = cl t := by
      by_cases hne : c = cl t
      · exact hne
      · exact absurd (step_latest_frame P cl presented priv s s' t r h c hne) hl
    subst hc
    rcases hown (Or.inr hl) with h2 | h2
    · exact Or.inr (Or.inl h2)
    · exact Or.inr (Or.inr ⟨t, rfl, h2⟩)

theorem base_reachable (P : Params M T) (le : T → T → Prop) (Ch : T → Prop) (cl : Nat → Nat)
    (presented : Nat → Option M) (priv : Nat → Bool) (c0 : Option M) (hH : Honest P le Ch presented c0)
    (s : St M T) (h : HReachable P cl presented priv c0 s) : BaseInv P le cl c0 s := by
  induction h with
  | init => exact base_init P le cl c0
  | step t r hr hok hs ih =>
    exact base_step P le Ch cl presented priv c0 hH _ _ t r
      (inv_reachable P le hH.sound cl presented priv c0 _ hr.reachable)
      (honest_invs P le Ch cl presented priv c0 hH _ hr).1
      (config_ge_c0 P le hH.sound cl presented priv c0 _ hr.reachable) ih hok hs

/-- a client none of whose goroutines exists keeps the empty tree -/
theorem latest_untouched (P : Params M T) (cl : Nat → Nat) (presented : Nat → Option M) (priv : Nat → Bool)
    (c0 : Option M) (s : St M T) (h : Reachable P cl presented priv c0 s) (c : Nat) (hc : ∀ t, cl t ≠ c) :
    s.latest c = P.zero := by
  induction h with
  | init => rfl
  | step t r _ hs ih =>
    rw [step_latest_frame P cl presented priv _ _ t r hs c (fun e => hc t e.symm)]; exact ih

/-- **One client: the in-memory head at the end does not depend on the interleaving.**  Two terminal states of honest
runs in which the same goroutines ran, all goroutines belonging to client `c`: the in-memory head of `c` in the first
is a prefix of the one in the second (hence, by symmetry, they are equivalent).  `hsz`: a prefix is not larger;
`hz`: the empty tree has size 0. -/
theorem single_client_mem_le (P : Params M T) (le : T → T → Prop) (Ch : T → Prop) (cl : Nat → Nat)
    (presented : Nat → Option M) (priv : Nat → Bool) (c0 : Option M) (hH : Honest P le Ch presented c0)
    (hsz : ∀ a b, le a b → P.size a ≤ P.size b) (hz : P.size P.zero = 0)
    (s1 s2 : St M T) (h1 : HReachable P cl presented priv c0 s1) (h2 : HReachable P cl presented priv c0 s2)
    (q1 : Quiescent s1) (q2 : Quiescent s2)
    (hsame : ∀ t, (s1.th t).pc = .entry ↔ (s2.th t).pc = .entry) (c : Nat) (hone : ∀ t, cl t = c) :
    le (s1.latest c) (s2.latest c) := by
  have hS := hH.sound
  have hI2 := inv_reachable P le hS cl presented priv c0 s2 h2.reachable
  have hV1 := seen_reachable P le hS cl presented priv c0 s1 h1.reachable
  have hF1 := flush_reachable P le Ch cl presented priv c0 hH s1 h1
  have hK1 := pos_reachable P le hS cl presented priv c0 s1 h1.reachable
  have hB2 := base_reachable P le Ch cl presented priv c0 hH s2 h2
  obtain ⟨hpcs, hc12, _⟩ := terminal_states_agree P le Ch cl presented priv c0 hH s1 s2 h1 h2 q1 q2 hsame
  obtain ⟨_, _, _, _, hcfg2⟩ := latest_ends_at_max_inv P le Ch cl presented priv c0 hH s2 h2 q2
  -- a goroutine that returned success in `s1` was accepted in `s2`
  have hacc : ∀ t m pt, presented t = some m → P.parse m = some pt → (s1.th t).pc = .done .ok → le pt (s2.latest c) := by
    intro t m pt hm hp hd
    have := hI2.accepted t m pt hm hp (by rw [← hpcs t]; simp [PastFirst, hd])
    rwa [hone t] at this
  rcases hV1.saw c with hz1 | ⟨t, m, _, hst, hm, hp⟩ | ⟨t, _, hd, hx⟩
  · rw [hz1]; exact hS.zero_le _
  · -- a presented tree
    have hd : (s1.th t).pc = .done .ok := by
      obtain ⟨_, _, hres⟩ := honest_all_succeed_inv P le Ch cl presented priv c0 hH s1 h1
      rcases q1 t with e | ⟨x, e⟩
      · exact absurd e hst.2
      · rw [e, (hres t x e).1 hst.1]
    exact hacc t m _ hm hp hd
  · -- a configuration content read by a goroutine that returned success
    rw [hx]
    cases hcfg : (s1.th t).cfg with
    | none => exact hS.zero_le _
    | some mc =>
      obtain ⟨m, pt, hm, hp, hpos⟩ := hK1.pos t (Or.inr (by rw [hcfg]; simp))
      have hle2 := hacc t m pt hm hp hd
      -- the in-memory head of `s2` is not the empty tree, so it contains the initial configuration
      have hbase : le (cfgTree P c0) (s2.latest c) := by
        rcases hB2.base c with e | e | ⟨t0, _, hp0⟩
        · have := hsz _ _ hle2
          rw [e, hz] at this
          omega
        · exact e
        · exfalso
          rcases q2 t0 with e | ⟨x, e⟩ <;> simp [PendingPC, e] at hp0
      have hx1 : le (cfgTree P (some mc)) (cfgTree P s2.config) := by
        have := hF1.cfg_le t
        rw [hcfg] at this
        exact hS.trans _ _ _ this hc12
      rcases hcfg2 with e | ⟨c', e1, _⟩
      · rw [e] at hx1; exact hS.trans _ _ _ hx1 hbase
      · by_cases hcc : c' = c
        · subst hcc; exact hS.trans _ _ _ hx1 e1
        · have : s2.latest c' = P.zero :=
            latest_untouched P cl presented priv c0 s2 h2.reachable c' (fun t e => hcc (by rw [← e, hone t]))
          rw [this] at e1
          exact hS.trans _ _ _ (hS.trans _ _ _ hx1 e1) (hS.zero_le _)

end ModVerif.ClientLatest
