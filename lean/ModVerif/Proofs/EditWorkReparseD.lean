/-
  EditWorkReparse, part D — go.work: readable values along a session, read off the STARTING file and the OPERATION LIST
  (C15 `typed_eq_reparse`, C08 `refines_abs`, re-parse half, go.work; the counterpart of Proofs/EditReparseF.lean).

  `AbsOKW` is preserved by every step of the specification's step table when the arguments of the operation are readable
  (`ArgsOKW`; go / toolchain / godebug / replace: `AbsOKF.step` of the go.mod proof, `use`: `UseOK.step`), and it is invariant
  under `Rel`.  With C08's `sessionWork_refines` this turns the condition `AbsOKW o.typed` on the FINAL state into `AbsOKW` of
  the starting file plus `ArgsOKW` of every operation.
-/
import ModVerif.Proofs.EditWorkReparseC
set_option linter.unusedSimpArgs false
set_option linter.unusedVariables false
namespace ModVerif.Modfile.Edit.W
open ModVerif ModVerif.Modfile ModVerif.EditSpec
open ModVerif.Proofs.ModfileFmtDir (PathOK pathOKB pathOKB_sound)

/-- every `use` directory of the abstract file is a readable path -/
def UseOK (a : AbsFile) : Prop := ∀ u ∈ a.use, PathOK u

/-- the values a go.work operation may write are readable -/
def ArgsOKW : EditSpec.Op → Prop
  | .addGo v => Edit.ItemOK (.go v)
  | .addToolchain n => Edit.ItemOK (.toolchain n)
  | .addGodebug k v => Edit.ItemOK (.godebug k v)
  | .addReplace a b c d => Edit.ItemOK (.replace ⟨a, b⟩ ⟨c, d⟩)
  | .addUse d _ => PathOK d
  | .addNewUse d _ => PathOK d
  | .setUse want => ∀ w ∈ want, PathOK w.1
  | _ => True

def argsOKWB : EditSpec.Op → Bool
  | .addGo v => Edit.itemOKB (.go v)
  | .addToolchain n => Edit.itemOKB (.toolchain n)
  | .addGodebug k v => Edit.itemOKB (.godebug k v)
  | .addReplace a b c d => Edit.itemOKB (.replace ⟨a, b⟩ ⟨c, d⟩)
  | .addUse d _ => pathOKB d
  | .addNewUse d _ => pathOKB d
  | .setUse want => want.all fun w => pathOKB w.1
  | _ => true

theorem argsOKWB_sound {op : EditSpec.Op} (h : argsOKWB op = true) : ArgsOKW op := by
  cases op <;> simp only [argsOKWB, ArgsOKW] at h ⊢ <;>
    first
      | trivial
      | exact Edit.itemOKB_sound h
      | exact pathOKB_sound h
      | (intro w hw; exact pathOKB_sound (List.all_eq_true.1 h w hw))

/-- for a go.work operation, `ArgsOKW` is the go.mod `ArgsOK` on the shared fields -/
theorem argsOK_of_W {op : Op} (hw : IsWorkOp op) (h : ArgsOKW op.toSpec) : Edit.ArgsOK op.toSpec := by
  cases op <;> simp only [Op.toSpec, Edit.ArgsOK, ArgsOKW, IsWorkOp] at h hw ⊢ <;> first | exact h | trivial | exact hw.elim

/-- **one step of the step table keeps the `use` directories readable** -/
theorem UseOK.step (V : Validity) {a : AbsFile} (h : UseOK a) (op : EditSpec.Op) (ho : ArgsOKW op) : UseOK (step V a op) := by
  unfold EditSpec.step
  split
  · exact h
  · cases op with
    | addUse d m =>
      intro u hu
      rcases mem_setKeyed _ _ _ _ u hu with hu | ⟨x, hx, _, he⟩ | rfl
      · exact h u hu
      · rw [he]; exact h x hx
      · exact ho
    | addNewUse d m =>
      intro u hu
      rcases List.mem_append.1 hu with hu | hu
      · exact h u hu
      · simp only [List.mem_singleton] at hu; subst hu; exact ho
    | dropUse d => exact fun u hu => h u (mem_dropAll _ _ _ hu)
    | setUse want =>
      intro u hu
      have : u ∈ want.map Prod.fst := mem_setExact _ _ _ u hu
      obtain ⟨w, hw, rfl⟩ := List.mem_map.1 this
      exact ho w hw
    | addExclude p v => dsimp only; split <;> exact h
    | addTool p => dsimp only; split <;> exact h
    | addModule p => exact h
    | addGo v => exact h
    | dropGo => exact h
    | addToolchain n => exact h
    | dropToolchain => exact h
    | addGodebug k v => exact h
    | dropGodebug k => exact h
    | addRequire p v => exact h
    | addNewRequire p v i => exact h
    | dropRequire p => exact h
    | setRequire want => exact h
    | setRequireSeparateIndirect want => exact h
    | dropExclude p v => exact h
    | addReplace a1 b1 c1 d1 => exact h
    | dropReplace a1 b1 => exact h
    | addRetract lo hi why => exact h
    | dropRetract lo hi => exact h
    | dropTool p => exact h
    | sortBlocks => exact h
    | cleanup => exact h

theorem UseOK.run (V : Validity) : ∀ (ops : List EditSpec.Op) (a : AbsFile), UseOK a → (∀ op ∈ ops, ArgsOKW op) →
    UseOK (run V a ops) := by
  intro ops
  induction ops with
  | nil => intro a h _; exact h
  | cons op ops ih =>
    intro a h ho
    unfold EditSpec.run
    rw [List.foldl_cons]
    exact ih _ (h.step V op (ho op (by simp))) (fun o' ho' => ho o' (by simp [ho']))

theorem UseOK.of_rel {a b : AbsFile} (hr : Rel a b) (h : UseOK b) : UseOK a :=
  fun u hu => h u (hr.use.perm.mem_iff.1 hu)

/-! ### `AbsOKW` and the go.mod `AbsOKF` -/

/-- the abstract file of a go.work file has no go.mod-only directive, so readable go.work values are readable in the go.mod
    sense too -/
theorem absOKF_of_W {f : WorkFile} (h : AbsOKW (absOfWork f)) : AbsOKF (absOfWork f) ∧ UseOK (absOfWork f) := by
  have key : ∀ it ∈ absItems (absOfWork f), ItemOK it := h
  refine ⟨⟨?_, ?_, ?_, ?_, ?_, ?_, ?_, ?_, ?_⟩, ?_⟩
  · intro p hp; simp [absOfWork] at hp
  · intro v hv; exact key (.go v) (by simp [absItems, hv])
  · intro v hv; exact key (.toolchain v) (by simp [absItems, hv])
  · intro g hg
    exact key (.godebug g.1 g.2) (by
      simp only [absItems, List.mem_append, List.mem_map]
      exact Or.inr (Or.inr (Or.inl ⟨g, hg, rfl⟩)))
  · intro r hr; simp [absOfWork] at hr
  · intro r hr; simp [absOfWork] at hr
  · intro r hr
    exact key (.replace ⟨r.oldPath, r.oldVers⟩ ⟨r.newPath, r.newVers⟩) (by
      simp only [absItems, List.mem_append, List.mem_map]
      exact Or.inr (Or.inr (Or.inr (Or.inr ⟨r, hr, rfl⟩))))
  · intro r hr; simp [absOfWork] at hr
  · intro r hr; simp [absOfWork] at hr
  · intro u hu
    exact key (.use u) (by
      simp only [absItems, List.mem_append, List.mem_map]
      exact Or.inr (Or.inr (Or.inr (Or.inl ⟨u, hu, rfl⟩))))

theorem absOKW_of_F {a : AbsFile} (h : AbsOKF a) (hu : UseOK a) : AbsOKW a := by
  intro it hit
  simp only [absItems, List.mem_append, List.mem_map, Option.mem_toList, Option.mem_def] at hit
  rcases hit with ⟨x, hx, rfl⟩ | ⟨x, hx, rfl⟩ | ⟨x, hx, rfl⟩ | ⟨x, hx, rfl⟩ | ⟨x, hx, rfl⟩
  · exact h.go x hx
  · exact h.toolchain x hx
  · exact h.godebug x hx
  · exact hu x hx
  · exact h.replace x hx

/-! ### statically valid go.work sessions have C08-valid arguments -/

theorem validArgs_of_W {op : Op} (h : ValidArgsW op) (hw : IsWorkOp op) : ValidArgs op := by
  cases op <;> simp only [ValidArgsW, ValidArgs, IsWorkOp] at h hw ⊢ <;> first | exact h | trivial | exact hw.elim | exact h.elim

theorem StaticValidW.validArgs : ∀ (ops : List Op) (c : Bool), StaticValidW c ops → (∀ op ∈ ops, IsWorkOp op) →
    ∀ op ∈ ops, ValidArgs op := by
  intro ops
  induction ops with
  | nil => intro _ _ _ op hop; cases hop
  | cons o ops ih =>
    intro c hs hwk op hop
    rcases List.mem_cons.1 hop with rfl | hop
    · have := hs.1
      have hm := hwk op (by simp)
      cases op <;> first
        | exact ⟨List.pairwise_map.2 this.1.1, this.1.2⟩
        | exact validArgs_of_W this hm
    · exact ih _ hs.2 (fun o' ho' => hwk o' (by simp [ho'])) op hop

/-- `Rel` implies `AbsPermW` (uses per path ⇒ as multisets) -/
theorem absPermW_of_rel {a b : AbsFile} (h : Rel a b) : AbsPermW a b :=
  ⟨h.go, h.toolchain, .of_eq h.godebug, h.use.perm, .of_eq h.replace⟩

/-! ### the session-level theorem, conditions on the starting file and the operation list -/

/-- **typed_eq_reparse (go.work), on `sessionWork`, values conditions on the STARTING file and the OPERATION LIST.**  As
    `typed_eq_reparse_work_session`, with the condition on the values of the FINAL typed lists replaced by `AbsOKW` of the
    starting file and `ArgsOKW` of every operation; also returns C08's `Rel o.typed (run …)` and the per-operation results. -/
theorem typed_eq_reparse_work_session2 (file : Bytes) (ops : List Op) (o : Outcome) (f : WorkFile)
    (hf : parseWork (B "go.work") file none = .ok f) (hk : WorkKeys f) (hs : NoBlockSuffix f.syn)
    (hstart : AbsOKW (absOfWork f)) (hv : StaticValidW false ops)
    (hw : ∀ op ∈ ops, IsWorkOp op) (hargs : ∀ op ∈ ops, ArgsOKW op.toSpec)
    (h : sessionWork file ops = some o) (hcom : comShapeB o.tree = true) :
    ∃ r, o.reparsed = some r ∧ AbsPermW r o.typed ∧ Rel o.typed (run stdValidity o.start (ops.map Op.toSpec)) ∧
      o.res = runOk stdValidity o.start (ops.map Op.toSpec) := by
  obtain ⟨h1, h2, h3⟩ := sessionWork_refines file ops o f hf (parseWork_startOK hf hk) (StaticValidW.validArgs ops false hv hw) h
  rw [mV_eq_std] at h2 h3
  obtain ⟨hF, hU⟩ := absOKF_of_W hstart
  have hrunF : AbsOKF (run stdValidity o.start (ops.map Op.toSpec)) := by
    apply AbsOKF.run
    · rw [h1]; exact hF
    · intro op hop
      obtain ⟨op', hop', rfl⟩ := List.mem_map.1 hop
      exact argsOK_of_W (hw op' hop') (hargs op' hop')
  have hrunU : UseOK (run stdValidity o.start (ops.map Op.toSpec)) := by
    apply UseOK.run
    · rw [h1]; exact hU
    · intro op hop
      obtain ⟨op', hop', rfl⟩ := List.mem_map.1 hop
      exact hargs op' hop'
  have hok : AbsOKW o.typed := absOKW_of_F (AbsOKF.of_rel h2 hrunF) (UseOK.of_rel h2 hrunU)
  obtain ⟨r, hr, hp⟩ := typed_eq_reparse_work_session file ops o f hf hk hs hv h hok hcom
  exact ⟨r, hr, hp, h2, h3⟩

end ModVerif.Modfile.Edit.W
