/-
  Helper lemmas for C19, zip/directory agreement: on clean relative paths `filepath.Join(prefix, rel)` is
  `prefix/rel`, `filepath.Join(dir, TrimPrefix(name, prefix))` names `rel` again, and the zip-side and
  directory-side `open` functions agree on the listed names.  Core Lean only.
-/
import ModVerif.Proofs.Dirhash
namespace ModVerif.Dirhash
open ModVerif

/-- a clean relative slash path: no empty, `.` or `..` element (in particular not empty, not rooted) -/
def CleanRel (p : Bytes) : Prop := ∀ c ∈ splitOn slash p, c ≠ [] ∧ c ≠ [46] ∧ c ≠ dotdot

def compOK (c : Bytes) : Bool := !c.isEmpty && c != [46] && c != dotdot

/-- executable form of `CleanRel` -/
def cleanRelB (p : Bytes) : Bool := (splitOn slash p).all compOK

theorem cleanRel_of_check (p : Bytes) (h : cleanRelB p = true) : CleanRel p := by
  intro c hc
  have := List.all_eq_true.1 h c hc
  simp only [compOK, Bool.and_eq_true, Bool.not_eq_true', bne_iff_ne, ne_eq, List.isEmpty_eq_false_iff] at this
  exact ⟨this.1.1, this.1.2, this.2⟩

/-! ### splitOn / joinWith -/

theorem splitOn_ne_nil (sep : UInt8) : ∀ p : Bytes, splitOn sep p ≠ []
  | [] => by simp [splitOn]
  | c :: rest => by
    unfold splitOn
    split
    · simp
    · split <;> simp

theorem splitOn_append_sep (sep : UInt8) (b : Bytes) : ∀ a : Bytes,
    splitOn sep (a ++ sep :: b) = splitOn sep a ++ splitOn sep b
  | [] => by simp [splitOn]
  | c :: a => by
    have ih := splitOn_append_sep sep b a
    simp only [List.cons_append, splitOn]
    split
    · simp [ih]
    · rw [ih]
      cases h : splitOn sep a with
      | nil => exact absurd h (splitOn_ne_nil sep a)
      | cons s ss => simp

theorem joinWith_cons_cons (sep : Bytes) (c : UInt8) (s : Bytes) : ∀ ss : List Bytes,
    joinWith sep ((c :: s) :: ss) = c :: joinWith sep (s :: ss)
  | [] => by simp [joinWith]
  | _ :: _ => by simp [joinWith]

theorem joinWith_splitOn (sep : UInt8) : ∀ p : Bytes, joinWith [sep] (splitOn sep p) = p
  | [] => by simp [splitOn, joinWith]
  | c :: rest => by
    have ih := joinWith_splitOn sep rest
    unfold splitOn
    split
    · rename_i hc
      have hc : c = sep := by simpa using hc
      cases h : splitOn sep rest with
      | nil => exact absurd h (splitOn_ne_nil sep rest)
      | cons s ss => rw [h] at ih; simp [joinWith, ih, hc]
    · cases h : splitOn sep rest with
      | nil => exact absurd h (splitOn_ne_nil sep rest)
      | cons s ss => rw [h] at ih; simp only []; rw [joinWith_cons_cons, ih]

theorem cleanRel_ne_nil {p : Bytes} (h : CleanRel p) : p ≠ [] := by
  intro e; subst e
  exact (h [] (by simp [splitOn])).1 rfl

theorem cleanRel_not_rooted {p : Bytes} (h : CleanRel p) : p.head? ≠ some slash := by
  intro e
  cases p with
  | nil => simp at e
  | cons c rest =>
    have hc : c = slash := by simpa using e
    subst hc
    exact (h [] (by simp [splitOn])).1 rfl

theorem cleanRel_append {a b : Bytes} (ha : CleanRel a) (hb : CleanRel b) : CleanRel (a ++ slash :: b) := by
  intro c hc
  rw [splitOn_append_sep] at hc
  rcases List.mem_append.1 hc with h | h
  · exact ha c h
  · exact hb c h

/-! ### Clean and Join on clean relative paths -/

theorem foldl_cleanStep_ok (rooted : Bool) : ∀ (comps st : List Bytes),
    (∀ c ∈ comps, c ≠ [] ∧ c ≠ [46] ∧ c ≠ dotdot) → comps.foldl (cleanStep rooted) st = comps.reverse ++ st
  | [], _, _ => rfl
  | c :: comps, st, h => by
    have ⟨h1, h2, h3⟩ := h c List.mem_cons_self
    have hstep : cleanStep rooted st c = c :: st := by
      unfold cleanStep
      have e1 : c.isEmpty = false := by simpa using h1
      have e2 : (c == [46]) = false := by simpa using h2
      have e3 : (c == dotdot) = false := by simpa using h3
      simp [e1, e2, e3]
    simp only [List.foldl_cons, hstep, List.reverse_cons, List.append_assoc, List.singleton_append]
    exact foldl_cleanStep_ok rooted comps (c :: st) (fun d hd => h d (List.mem_cons_of_mem _ hd))

theorem clean_of_cleanRel {p : Bytes} (h : CleanRel p) : clean p = p := by
  have hne := cleanRel_ne_nil h
  have hroot : (p.head? == some slash) = false := by simpa using cleanRel_not_rooted h
  have he : p.isEmpty = false := by simpa using hne
  unfold clean
  simp only [he, hroot, foldl_cleanStep_ok false _ [] h, List.append_nil, List.reverse_reverse,
    joinWith_splitOn]
  simp

theorem joinPath_cleanRel {a b : Bytes} (ha : CleanRel a) (hb : CleanRel b) :
    joinPath a b = a ++ slash :: b := by
  have e1 : a.isEmpty = false := by simpa using cleanRel_ne_nil ha
  have e2 : b.isEmpty = false := by simpa using cleanRel_ne_nil hb
  unfold joinPath
  simp only [e1, e2]
  have := clean_of_cleanRel (cleanRel_append ha hb)
  simpa using this

/-! ### the directory-side `open` -/

theorem isPrefixOfB_append : ∀ a b : Bytes, isPrefixOfB a (a ++ b) = true
  | [], _ => by simp [isPrefixOfB]
  | x :: a, b => by simp [isPrefixOfB, isPrefixOfB_append a b]

theorem trimPrefix_append (a b : Bytes) : trimPrefix (a ++ b) a = b := by
  simp [trimPrefix, isPrefixOfB_append]

theorem foldl_resolveStep_ok : ∀ (comps st : List Bytes),
    (∀ c ∈ comps, c ≠ [] ∧ c ≠ [46] ∧ c ≠ dotdot) →
    comps.foldl resolveStep (some st) = some (comps.reverse ++ st)
  | [], _, _ => rfl
  | c :: comps, st, h => by
    have ⟨h1, h2, h3⟩ := h c List.mem_cons_self
    have hstep : resolveStep (some st) c = some (c :: st) := by
      unfold resolveStep
      have e1 : c.isEmpty = false := by simpa using h1
      have e2 : (c == [46]) = false := by simpa using h2
      have e3 : (c == dotdot) = false := by simpa using h3
      simp [e1, e2, e3]
    simp only [List.foldl_cons, hstep, List.reverse_cons, List.append_assoc, List.singleton_append]
    exact foldl_resolveStep_ok comps (c :: st) (fun d hd => h d (List.mem_cons_of_mem _ hd))

theorem resolveRel_slash_cleanRel {rel : Bytes} (h : CleanRel rel) : resolveRel (slash :: rel) = some rel := by
  unfold resolveRel
  have : splitOn slash (slash :: rel) = [] :: splitOn slash rel := by simp [splitOn]
  rw [this]
  simp only [List.foldl_cons]
  have hs : resolveStep (some []) [] = some [] := by simp [resolveStep]
  rw [hs, foldl_resolveStep_ok _ [] h]
  simp [joinWith_splitOn]

theorem osOpen_joined (files : List (Bytes × Bytes)) (pfx rel : Bytes) (h : CleanRel rel) :
    osOpen files pfx (pfx ++ slash :: rel) = files.lookup rel := by
  unfold osOpen
  rw [trimPrefix_append, resolveRel_slash_cleanRel h]

/-! ### the two hashes -/

theorem hash1_perm_congr (sha : Bytes → Bytes) {l₁ l₂ : List Bytes} {o₁ o₂ : Bytes → Option Bytes}
    (hp : l₁.Perm l₂) (ho : ∀ n ∈ l₁, o₁ n = o₂ n) : hash1 sha l₁ o₁ = hash1 sha l₂ o₂ := by
  unfold hash1 summary
  rw [← sortStrings_eq_of_perm hp,
    summaryLoop_congr sha o₁ o₂ _ (fun n hn => ho n ((sortStrings_perm l₁).subset hn))]

theorem hashModZip_eq_hashUnzipped (sha : Bytes → Bytes) (path version : Bytes) (files : List (Bytes × Bytes))
    (hpfx : CleanRel (modPrefix path version)) (hrel : ∀ f ∈ files, CleanRel f.1)
    (hnd : (files.map (·.1)).Nodup) :
    hashModZip sha path version files = hashUnzipped sha path version files := by
  let pfx := modPrefix path version
  let g : Bytes → Bytes := fun r => pfx ++ slash :: r
  have hg : ∀ a b, g a = g b → a = b := by
    intro a b h
    have := List.append_cancel_left h
    simpa using this
  -- names listed on the zip side
  have hzipNames : hashZipNames (modZipEntries path version files) = (files.map (·.1)).map g := by
    simp [hashZipNames, modZipEntries, List.map_map, Function.comp_def, g, pfx]
  -- names listed on the directory side
  have hwalk : (walkOrder (files.map (·.1))).Perm (files.map (·.1)) := insertionSort_perm _
  have hdirNames : (walkOrder (files.map (·.1))).map (fun rel => joinPath pfx rel)
      = (walkOrder (files.map (·.1))).map g := by
    apply List.map_congr_left
    intro r hr
    obtain ⟨f, hf, rfl⟩ := List.mem_map.1 (hwalk.subset hr)
    exact joinPath_cleanRel hpfx (hrel f hf)
  -- the entries have distinct names
  have hentNd : ((modZipEntries path version files).reverse.map (·.1)).Nodup := by
    have : (modZipEntries path version files).map (·.1) = (files.map (·.1)).map g := hzipNames
    rw [List.map_reverse, this]
    unfold List.Nodup
    rw [List.pairwise_reverse]
    exact List.Pairwise.map g (fun a b hne e => hne (hg b a e).symm) hnd
  unfold hashModZip hashUnzipped hashZip hashDir dirFiles
  simp only [rootFiles]
  rw [hzipNames]
  show _ = hash1 sha ((walkOrder (files.map (·.1))).map (fun rel => joinPath pfx rel)) (osOpen files pfx)
  rw [hdirNames]
  apply hash1_perm_congr sha (hwalk.map g).symm
  intro n hn
  obtain ⟨r, hr, rfl⟩ := List.mem_map.1 hn
  obtain ⟨f, hf, rfl⟩ := List.mem_map.1 hr
  rw [osOpen_joined files pfx f.1 (hrel f hf), lookup_of_mem_nodup files f.1 f.2 hnd hf]
  unfold lookupLast
  apply lookup_of_mem_nodup _ _ _ hentNd
  rw [List.mem_reverse]
  exact List.mem_map.2 ⟨f, hf, by simp [g, pfx]⟩

end ModVerif.Dirhash
