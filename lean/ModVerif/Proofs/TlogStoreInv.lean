/-
  C09 ★ store invariant: appending records one at a time to the empty log (`buildStore`) never fails, yields a
  store of the documented length, and every position holds the RFC 6962 hash of the complete subtree whose
  coordinate the specification's layout assigns to that position.
-/
import ModVerif.Proofs.TlogStoreMth
namespace ModVerif.TlogStore
open ModVerif ModVerif.Tlog ModVerif.RFC6962

/-! ### coordinates of the layout -/

theorem layoutRec_get (n j l k : Nat) (h : (layoutRec n)[j]? = some (l, k)) :
    j ≤ tz (n + 1) ∧ l = j ∧ k = n >>> j := by
  simp only [layoutRec, List.getElem?_map] at h
  by_cases hj : j < tz (n + 1) + 1
  · rw [List.getElem?_range hj] at h
    simp at h
    omega
  · rw [List.getElem?_eq_none (by simp; omega)] at h
    simp at h

/-- every coordinate of the layout of `n` records is a complete subtree of the first `n` records -/
theorem layout_bound : ∀ n p l k : Nat, (layout n)[p]? = some (l, k) → (k + 1) * 2 ^ l ≤ n := by
  intro n
  induction n with
  | zero => intro p l k h; simp [layout] at h
  | succ n ih =>
    intro p l k h
    rw [layout_succ] at h
    by_cases hp : p < (layout n).length
    · rw [List.getElem?_append_left hp] at h
      have := ih p l k h
      omega
    · rw [List.getElem?_append_right (by omega)] at h
      obtain ⟨h1, h2, h3⟩ := layoutRec_get n _ l k h
      subst h2 h3
      rw [shiftRight_of_le_tz n _ h1]
      exact Nat.le_refl _

section
variable {H : Type}

/-! ### the honest reader -/

theorem storeReader_map {ι : Type} (st : List H) (idx : ι → Nat) (val : ι → H) :
    ∀ is : List ι, (∀ i ∈ is, st[idx i]? = some (val i)) → storeReader st (is.map idx) = some (is.map val) := by
  intro is
  induction is with
  | nil => intro _; simp [storeReader]
  | cons i is ih =>
    intro h
    have h1 := h i (by simp)
    have h2 := ih (fun j hj => h j (by simp [hj]))
    simp only [storeReader] at h2 ⊢
    simp [List.mapM_cons, h1, h2]

theorem readChecked_store {ι : Type} (st : List H) (idx : ι → Nat) (val : ι → H) (is : List ι)
    (h : ∀ i ∈ is, st[idx i]? = some (val i)) :
    readChecked (storeReader st) (is.map idx) = .ok (is.map val) := by
  unfold readChecked
  rw [storeReader_map st idx val is h]
  simp

/-! ### the hashes written with one record -/

theorem buildHashes_length (node : H → H → H) : ∀ (os : List H) (h : H), (buildHashes node os h).length = os.length := by
  intro os
  induction os with
  | nil => intro h; rfl
  | cons o os ih => intro h; simp [buildHashes, ih]

/-- `hashes[l+1] = NodeHash(old[l], hashes[l])` -/
theorem buildHashes_get (node : H → H → H) : ∀ (os : List H) (h : H) (l : Nat) (o x : H),
    os[l]? = some o → (h :: buildHashes node os h)[l]? = some x →
    (h :: buildHashes node os h)[l + 1]? = some (node o x) := by
  intro os
  induction os with
  | nil => intro h l o x h1 _; simp at h1
  | cons o' os ih =>
    intro h l o x h1 h2
    cases l with
    | zero =>
      simp at h1 h2
      subst h1 h2
      simp [buildHashes]
    | succ l =>
      simp only [buildHashes, List.getElem?_cons_succ] at h1 h2 ⊢
      exact ih (node o' h) l o x h1 h2

/-! ### the invariant -/

/-- the store invariant for the log `D` (for any value `empty` of the empty-tree hash: it never occurs) -/
def StoreOK (leaf : Bytes → H) (node : H → H → H) (empty : H) (D : List Bytes) (st : List H) : Prop :=
  st.length = S D.length ∧
  ∀ p l k : Nat, (layout D.length)[p]? = some (l, k) → st[p]? = some (mth node empty (leavesOf (D.map leaf) l k))

variable (leaf : Bytes → H) (node : H → H → H) (empty : H)

theorem storeOK_nil : StoreOK leaf node empty [] ([] : List H) := by
  refine ⟨by simp [S_zero], ?_⟩
  intro p l k h
  simp [layout] at h

/-- the hashes `StoredHashes` returns for record `n = D.length`, given a store satisfying the invariant -/
theorem storedHashes_ok (D : List Bytes) (d : Bytes) (st : List H) (hok : StoreOK leaf node empty D st)
    (hr : D.length + 1 < 2 ^ 64) :
    ∃ hs, storedHashes leaf node D.length d (storeReader st) = .ok hs ∧
      hs.length = 1 + tz (D.length + 1) ∧
      ∀ l, l ≤ tz (D.length + 1) →
        hs[l]? = some (mth node empty (leavesOf ((D ++ [d]).map leaf) l (D.length >>> l))) := by
  let n := D.length
  let m := tz (n + 1)
  let LD := D.map leaf
  let idx : Nat → Nat := fun i => storedHashIndex i ((n >>> i) - 1)
  let val : Nat → H := fun i => mth node empty (leavesOf LD i ((n >>> i) - 1))
  have hLD : LD.length = n := by simp [LD, n]
  have hLD' : (D ++ [d]).map leaf = LD ++ [leaf d] := by simp [LD]
  -- the left siblings are in the store
  have hread : ∀ i ∈ (List.range m).reverse, st[idx i]? = some (val i) := by
    intro i hi
    have hi' : i < m := by simpa using hi
    have h1 := shiftRight_succ_of_lt_tz n i hi'
    have h2 := shiftRight_of_le_tz n i (Nat.le_of_lt hi')
    have hp := Nat.two_pow_pos i
    apply hok.2
    apply storedHashIndex_layout
    rw [show n >>> i - 1 + 1 = n >>> i by omega]
    rw [Nat.add_mul] at h2
    omega
  have hrc := readChecked_store st idx val (List.range m).reverse hread
  have htz : trailingZeros64 (n + 1) = m := trailingZeros64_eq_tz (n + 1) (by omega) hr
  have hidx : ((List.range (trailingZeros64 (n + 1))).map fun i => storedHashIndex i ((n >>> i) - 1)).reverse =
      (List.range m).reverse.map idx := by
    rw [htz, List.map_reverse]
  refine ⟨leaf d :: buildHashes node ((List.range m).map val) (leaf d), ?_, ?_, ?_⟩
  · simp only [storedHashes, storedHashesForRecordHash, bind, Except.bind]
    rw [hidx, hrc]
    simp [pure, Except.pure, List.map_reverse]
  · simp [buildHashes_length, m, n]; omega
  · intro l
    induction l with
    | zero =>
      intro _
      rw [hLD', Nat.shiftRight_zero, leavesOf_zero _ n (by simp [hLD])]
      simp [hLD]
    | succ l ih =>
      intro hl
      have hl' : l < m := hl
      have ih' := ih (by omega)
      have ho : ((List.range m).map val)[l]? = some (val l) := by
        rw [List.getElem?_map, List.getElem?_range hl']; rfl
      rw [buildHashes_get node _ (leaf d) l _ _ ho ih']
      have h1 := shiftRight_succ_of_lt_tz n l hl'
      have h2 := shiftRight_of_le_tz n (l + 1) hl
      have h3 := shiftRight_of_le_tz n l (Nat.le_of_lt hl')
      rw [mth_leavesOf_succ node empty ((D ++ [d]).map leaf) l (n >>> (l + 1)) (by rw [h2]; simp [n])]
      congr 2
      · -- the left child was read from the old store
        show mth node empty (leavesOf LD l (n >>> l - 1)) = _
        rw [hLD', leavesOf_append _ _ _ _ (by
          rw [hLD]
          have hp := Nat.two_pow_pos l
          rw [h1, Nat.add_mul] at h3
          omega)]
        rw [h1]; rfl
      · rw [h1]

/-- one `appendRecord` step preserves the invariant -/
theorem appendRecord_ok (D : List Bytes) (d : Bytes) (st : List H) (hok : StoreOK leaf node empty D st)
    (hr : D.length + 1 < 2 ^ 64) :
    ∃ st', appendRecord leaf node (D.length, st) d = .ok ((D ++ [d]).length, st') ∧
      StoreOK leaf node empty (D ++ [d]) st' := by
  obtain ⟨hs, h1, h2, h3⟩ := storedHashes_ok leaf node empty D d st hok hr
  refine ⟨st ++ hs, ?_, ?_, ?_⟩
  · simp only [appendRecord, bind, Except.bind]
    rw [h1]
    simp [pure, Except.pure]
  · rw [List.length_append, hok.1, h2]
    simp only [List.length_append, List.length_singleton]
    rw [S_succ]; omega
  · intro p l k hp
    simp only [List.length_append, List.length_singleton] at hp
    rw [layout_succ] at hp
    have hll := layout_length D.length
    by_cases hlt : p < S D.length
    · rw [List.getElem?_append_left (by omega)] at hp
      have hb := layout_bound _ _ _ _ hp
      rw [List.getElem?_append_left (by rw [hok.1]; exact hlt)]
      rw [hok.2 p l k hp]
      congr 2
      rw [List.map_append, leavesOf_append _ _ _ _ (by simpa using hb)]
    · rw [List.getElem?_append_right (by omega), hll] at hp
      obtain ⟨a, b, c⟩ := layoutRec_get _ _ _ _ hp
      rw [List.getElem?_append_right (by rw [hok.1]; omega), hok.1]
      rw [h3 _ a, b, c]

theorem appendAll_ok : ∀ (ds pre : List Bytes) (st : List H), StoreOK leaf node empty pre st →
    (pre ++ ds).length < 2 ^ 64 →
    ∃ st', appendAll leaf node ds (pre.length, st) = .ok ((pre ++ ds).length, st') ∧
      StoreOK leaf node empty (pre ++ ds) st' := by
  intro ds
  induction ds with
  | nil => intro pre st hok _; exact ⟨st, by simp [appendAll], by simpa using hok⟩
  | cons d ds ih =>
    intro pre st hok hr
    have hr' : pre.length + 1 < 2 ^ 64 := by simp at hr; omega
    obtain ⟨st1, h1, h2⟩ := appendRecord_ok leaf node empty pre d st hok hr'
    have e : pre ++ d :: ds = (pre ++ [d]) ++ ds := by simp
    obtain ⟨st2, h3, h4⟩ := ih (pre ++ [d]) st1 h2 (by rw [← e]; exact hr)
    refine ⟨st2, ?_, ?_⟩
    · simp only [appendAll, bind, Except.bind]
      rw [h1]
      simp only []
      rw [h3, e]
    · rw [e]; exact h4

/-- ★ the store invariant, for every sequence of records of length below `2^64`
    (`trailingZeros64` is the 2-adic valuation only there) -/
theorem buildStore_ok (D : List Bytes) (hD : D.length < 2 ^ 64) :
    ∃ st, buildStore leaf node D = .ok st ∧ StoreOK leaf node empty D st := by
  obtain ⟨st, h1, h2⟩ := appendAll_ok leaf node empty D [] [] (storeOK_nil leaf node empty) (by simpa using hD)
  refine ⟨st, ?_, by simpa using h2⟩
  simp only [buildStore]
  have : appendAll leaf node D (0, []) = .ok (D.length, st) := by simpa using h1
  rw [this]
  rfl

theorem storeOK_of_buildStore (D : List Bytes) (hD : D.length < 2 ^ 64) (st : List H)
    (h : buildStore leaf node D = .ok st) : StoreOK leaf node empty D st := by
  obtain ⟨st', h1, h2⟩ := buildStore_ok leaf node empty D hD
  rw [h1] at h
  cases h
  exact h2

/-- every coordinate of a complete subtree of the log is in the store, at `storedHashIndex` -/
theorem storeOK_get (D : List Bytes) (st : List H) (hok : StoreOK leaf node empty D st) (l k : Nat)
    (h : (k + 1) * 2 ^ l ≤ D.length) :
    st[storedHashIndex l k]? = some (mth node empty (leavesOf (D.map leaf) l k)) :=
  hok.2 _ l k (storedHashIndex_layout D.length l k h)

end
end ModVerif.TlogStore
