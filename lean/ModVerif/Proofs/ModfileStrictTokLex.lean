/-
  C02, strictly accepted inputs, part a: from the TREE back to the SOURCE.

  `DG t` ("quote-good"): a token text that starts with a double quote contains no newline byte.  If every token of
  every line / block header of the tree `parse` returns is `DG`, then no token of the source spans two source
  lines (`NoMultiLineToken`), `parse_noMultiLineToken`.

  Route: a BACKWARD pass over the five parser loops.  `All i`: the pending token of the lexer state `i` and every
  token `readToken` delivers after it are free of newline bytes (other than the newline token itself).  Each loop
  that runs from `i` to `i'` and whose result has only `DG` tokens satisfies `All i' → All i`: every token the loop
  consumes is an end-of-line token / a comment / `(` / `)` — never a string, hence newline-free by `LexOK` — or is
  pushed to the token list of the line (block header) it builds, where it is `DG`; and a `DG` token the lexer
  delivers is newline-free (only a double-quoted string can contain a newline: identifiers, punctuation, comment
  texts and back-quoted strings never do).  `parseFile` ends at the end-of-input token, after which the lexer
  delivers only end-of-input tokens.  Comment assignment does not touch tokens.
-/
import ModVerif.Proofs.ModfileSrcBytes
import ModVerif.Proofs.ModfileFmtEmits
namespace ModVerif.Proofs.ModfileStrictTok
open ModVerif ModVerif.Modfile ModVerif.Proofs.ModfileLex
open ModVerif.Proofs.ModfileFmtLex ModVerif.Proofs.ModfileFmtTok ModVerif.Proofs.ModfileFmtClass
open ModVerif.Proofs.ModfilePos ModVerif.Proofs.ModfileC20 ModVerif.Proofs.ModfileC20Utf8
open ModVerif.Proofs.ModfileFmtEmits ModVerif.Proofs.ModfileSrc

/-- "quote-good": a text that starts with a double quote contains no newline byte -/
def DG (t : Bytes) : Prop := t.head? = some 34 → (10 : UInt8) ∉ t

/-! ### lexer level -/

/-- the body of a back-quoted string contains no newline byte (no escapes in raw strings) -/
theorem strBody_raw_no_nl {a : Bytes} (h : StrBody 96 a) : (10 : UInt8) ∉ a := by
  induction h with
  | @close a hne hnl hq hend =>
    intro hm
    rcases mem_take_or_drop (n := (Utf8.decodeRune a).2) hm with h1 | h1
    · exact decodeRune_ne_newline hne hnl 10 h1 rfl
    · rw [hend] at h1; cases h1
  | @esc a hne hnl hq hbs hraw hne2 hrest ih => exact absurd rfl hraw
  | @other a hne hnl hq hno hrest ih =>
    intro hm
    rcases mem_take_or_drop (n := (Utf8.decodeRune a).2) hm with h1 | h1
    · exact decodeRune_ne_newline hne hnl 10 h1 rfl
    · exact ih h1

/-- a token the lexer delivers, other than the newline token, is newline-free if it is `DG` (needed for string
    tokens only) -/
theorem lexOK_cur {k : TokKind} {t : Bytes} (h : LexOK k t) (hd : k = .string → DG t) (hk : k ≠ .punct 10) :
    (10 : UInt8) ∉ t := by
  intro hm
  cases h with
  | eof => cases hm
  | newline => exact hk rfl
  | comment t h => exact h.2 hm
  | eolComment t h => exact h.2 hm
  | tok k t h =>
    cases h with
    | punct c hc =>
      simp only [List.mem_singleton] at hm
      subst hm
      revert hc; decide
    | string q a hq hb =>
      rcases hq with rfl | rfl
      · exact hd rfl rfl hm
      · rcases List.mem_cons.1 hm with h | h
        · cases h
        · exact strBody_raw_no_nl hb h
    | ident a hne hb hnq => exact identBody_no_newline hb hm

/-- forward invariant of the lexer states the parser sees -/
structure L (i : Input) : Prop where
  lok : LexOK i.token.kind i.token.text
  eof : i.token.kind = .eof → i.remaining = []

theorem L.step {i j : Input} (h : readToken i = .ok j) : L j :=
  ⟨lex_emits_LexOK i j h, fun hk => ((readToken_lay h).eof hk).1⟩

theorem L.setId {i : Input} (h : L i) (n : Nat) : L { i with nextId := n } := ⟨h.lok, h.eof⟩

/-- no newline byte in a token other than the newline token -/
def TokGood (t : Token) : Prop := t.kind ≠ .punct 10 → (10 : UInt8) ∉ t.text

def FutOK (i : Input) : Prop := ∀ f, ∀ t ∈ lexAll f i, TokGood t

/-- the pending token and all later tokens are good -/
def All (i : Input) : Prop := TokGood i.token ∧ FutOK i

theorem lexAll_withId (n : Nat) : ∀ (f : Nat) (i : Input), lexAll f (withId n i) = lexAll f i := by
  intro f
  induction f with
  | zero => intro i; rfl
  | succ f ih =>
    intro i
    simp only [lexAll, readToken_withId]
    cases hr : readToken i with
    | error e => rfl
    | ok j =>
      simp only [Except.map, withId_token]
      rw [ih j]
      rfl

theorem All.ofSetId {i : Input} {n : Nat} (h : All { i with nextId := n }) : All i := by
  refine ⟨h.1, ?_⟩
  intro f t ht
  have := h.2 f t
  rw [show ({ i with nextId := n } : Input) = withId n i from rfl, lexAll_withId] at this
  exact this ht

theorem futOK_step {i j : Input} (h : readToken i = .ok j) (ha : All j) : FutOK i := by
  intro f t ht
  cases f with
  | zero => cases ht
  | succ f =>
    rw [lexAll_succ_ok h] at ht
    rcases List.mem_cons.1 ht with rfl | ht
    · exact ha.1
    · split at ht
      · cases ht
      · exact ha.2 f t ht

/-- one `readToken` step backwards -/
theorem all_back {i j : Input} (hL : L i) (h : readToken i = .ok j) (hd : i.token.kind = .string → DG i.token.text)
    (ha : All j) : All i :=
  ⟨lexOK_cur hL.lok hd, futOK_step h ha⟩

theorem all_eof {i : Input} (hL : L i) (hk : i.token.kind = .eof) : All i := by
  refine ⟨lexOK_cur hL.lok (fun hs => by rw [hk] at hs; cases hs), ?_⟩
  intro f t ht
  cases f with
  | zero => cases ht
  | succ f =>
    cases hr : readToken i with
    | error e => simp [lexAll, hr] at ht
    | ok j =>
      rw [lexAll_succ_ok hr] at ht
      have hkj := readToken_at_eof (hL.eof hk) hr
      rw [if_pos hkj] at ht
      simp only [List.mem_singleton] at ht
      subst ht
      exact lexOK_cur (L.step hr).lok (fun hs => by rw [hkj] at hs; cases hs)

theorem eol_not_string {k : TokKind} (h : k.isEOL = true) : k = .string → DG t := by
  intro hs; rw [hs] at h; cases h

/-! ### parser level -/

/-- all token texts of a statement: line tokens, or block header tokens and the tokens of the block's lines -/
def allToks : Expr → List Bytes
  | .line l => l.token
  | .lineBlock b => b.token ++ b.lines.flatMap (·.token)
  | _ => []

def StmtDG (s : Expr) : Prop := ∀ t ∈ allToks s, DG t

theorem parseLineLoop_bk : ∀ (fuel : Nat) (i : Input) (s e : Position) (acc : List Bytes) (l : Line) (i' : Input),
    L i → parseLineLoop fuel i s e acc = .ok (l, i') →
    L i' ∧ (∀ t ∈ acc, t ∈ l.token) ∧ ((∀ t ∈ l.token, DG t) → All i' → All i) := by
  intro fuel
  induction fuel with
  | zero => intro i s e acc l i' _ h; simp [parseLineLoop] at h
  | succ n ih =>
    intro i s e acc l i' hL h
    unfold parseLineLoop at h
    cases hl : lex i with
    | error err => simp [hl, bind, Except.bind] at h
    | ok v =>
      obtain ⟨tok, i1⟩ := v
      simp only [hl, bind, Except.bind] at h
      obtain ⟨htok, hrt⟩ := lex_inv hl
      subst htok
      have hL1 : L i1 := L.step hrt
      by_cases he : i.token.kind.isEOL = true
      · simp only [he, if_true, Except.ok.injEq, Prod.mk.injEq] at h
        obtain ⟨rfl, rfl⟩ := h
        refine ⟨hL1.setId _, ?_, ?_⟩
        · intro t ht; simpa using ht
        · intro _ ha
          exact all_back hL hrt (eol_not_string he) ha.ofSetId
      · have he' : i.token.kind.isEOL = false := by simpa using he
        simp only [he', Bool.false_eq_true, if_false] at h
        obtain ⟨hL', hsub, hall⟩ := ih i1 s i.token.endPos _ l i' hL1 h
        refine ⟨hL', fun t ht => hsub t (List.mem_cons_of_mem _ ht), fun hd ha => ?_⟩
        exact all_back hL hrt (fun _ => hd _ (hsub _ (by simp))) (hall hd ha)

theorem parseLine_bk (fuel : Nat) (i : Input) (l : Line) (i' : Input) (hL : L i)
    (h : parseLine fuel i = .ok (l, i')) : L i' ∧ ((∀ t ∈ l.token, DG t) → All i' → All i) := by
  unfold parseLine at h
  cases hl : lex i with
  | error err => simp [hl, bind, Except.bind] at h
  | ok v =>
    obtain ⟨tok, i1⟩ := v
    simp only [hl, bind, Except.bind] at h
    obtain ⟨htok, hrt⟩ := lex_inv hl
    subst htok
    split at h
    · cases h
    · obtain ⟨hL', hsub, hall⟩ := parseLineLoop_bk fuel i1 _ _ _ l i' (L.step hrt) h
      exact ⟨hL', fun hd ha => all_back hL hrt (fun _ => hd _ (hsub _ (by simp))) (hall hd ha)⟩

theorem parseLineBlockLoop_bk : ∀ (fuel : Nat) (i : Input) (x : LineBlock) (linesRev : List Line)
    (crev : List Comment) (b : LineBlock) (i' : Input), L i →
    parseLineBlockLoop fuel i x linesRev crev = .ok (b, i') →
    L i' ∧ b.token = x.token ∧ (∀ l ∈ linesRev, l ∈ b.lines) ∧
      ((∀ l ∈ b.lines, ∀ t ∈ l.token, DG t) → All i' → All i) := by
  intro fuel
  induction fuel with
  | zero => intro i x linesRev crev b i' _ h; simp [parseLineBlockLoop] at h
  | succ n ih =>
    intro i x linesRev crev b i' hL h
    unfold parseLineBlockLoop at h
    simp only [Input.peek] at h
    -- the three "skip one end-of-line / comment token" branches
    have hskip : ∀ (crev' : List Comment), i.token.kind ≠ .string →
        (do let (_, i) ← lex i; parseLineBlockLoop n i x linesRev crev') = .ok (b, i') →
        L i' ∧ b.token = x.token ∧ (∀ l ∈ linesRev, l ∈ b.lines) ∧
          ((∀ l ∈ b.lines, ∀ t ∈ l.token, DG t) → All i' → All i) := by
      intro crev' hns h
      cases hl : lex i with
      | error err => simp [hl, bind, Except.bind] at h
      | ok v =>
        simp only [hl, bind, Except.bind] at h
        obtain ⟨_, hrt⟩ := lex_inv hl
        obtain ⟨hL', htk, hsub, hall⟩ := ih v.2 x linesRev crev' b i' (L.step hrt) h
        exact ⟨hL', htk, hsub, fun hd ha => all_back hL hrt (fun hs => absurd hs hns) (hall hd ha)⟩
    split at h
    · rename_i hk
      exact hskip _ (by rw [hk]; intro hc; cases hc) h
    · rename_i hk
      exact hskip _ (by rw [hk]; intro hc; cases hc) h
    · rename_i hk
      refine hskip ({ start := i.token.pos, token := i.token.text } :: crev) (by rw [hk]; intro hc; cases hc) ?_
      cases hl : lex i with
      | error err => simp [hl, bind, Except.bind] at h
      | ok v =>
        obtain ⟨htok, _⟩ := lex_inv hl
        simp only [hl, bind, Except.bind] at h ⊢
        rw [← htok]
        exact h
    · cases h
    · rename_i hk
      cases hl : lex i with
      | error err => simp [hl, bind, Except.bind] at h
      | ok v =>
        obtain ⟨rp, i1⟩ := v
        simp only [hl, bind, Except.bind] at h
        obtain ⟨_, hrt⟩ := lex_inv hl
        have hL1 : L i1 := L.step hrt
        by_cases heol : i1.token.kind.isEOL = true
        · simp only [heol, Bool.not_true, Bool.false_eq_true, if_false] at h
          cases hl2 : lex i1 with
          | error err => simp [hl2] at h
          | ok w =>
            simp only [hl2, Except.ok.injEq, Prod.mk.injEq] at h
            obtain ⟨rfl, rfl⟩ := h
            obtain ⟨_, hrt2⟩ := lex_inv hl2
            refine ⟨L.step hrt2, rfl, (by intro l hl'; simpa using hl'), fun _ ha => ?_⟩
            exact all_back hL hrt (by rw [hk]; intro hc; cases hc) (all_back hL1 hrt2 (eol_not_string heol) ha)
        · simp [heol] at h
    · cases hp : parseLine (n + 1) i with
      | error err => simp [hp, bind, Except.bind] at h
      | ok v =>
        simp only [hp, bind, Except.bind] at h
        obtain ⟨hL1, hback⟩ := parseLine_bk (n + 1) i v.1 v.2 hL hp
        obtain ⟨hL', htk, hsub, hall⟩ := ih v.2 x _ [] b i' hL1 h
        refine ⟨hL', htk, fun l hl' => hsub l (List.mem_cons_of_mem _ hl'), fun hd ha => ?_⟩
        have hm := hsub _ (List.mem_cons_self ..)
        exact hback (fun t ht => hd _ hm t ht) (hall hd ha)

theorem parseStmtLoop_bk : ∀ (fuel : Nat) (i : Input) (s e : Position) (acc : List Bytes) (x : Expr) (i' : Input),
    L i → parseStmtLoop fuel i s e acc = .ok (x, i') →
    L i' ∧ (∀ t ∈ acc, t ∈ allToks x) ∧ (StmtDG x → All i' → All i) := by
  intro fuel
  induction fuel with
  | zero => intro i s e acc x i' _ h; simp [parseStmtLoop] at h
  | succ n ih =>
    intro i s e acc x i' hL h
    unfold parseStmtLoop at h
    cases hl : lex i with
    | error err => simp [hl, bind, Except.bind] at h
    | ok v =>
      obtain ⟨tok, i1⟩ := v
      simp only [hl, bind, Except.bind] at h
      obtain ⟨htok, hrt⟩ := lex_inv hl
      subst htok
      have hL1 : L i1 := L.step hrt
      by_cases he : i.token.kind.isEOL = true
      · simp only [he, if_true, Except.ok.injEq, Prod.mk.injEq] at h
        obtain ⟨rfl, rfl⟩ := h
        refine ⟨hL1.setId _, ?_, ?_⟩
        · intro t ht; simpa [allToks] using ht
        · intro _ ha
          exact all_back hL hrt (eol_not_string he) ha.ofSetId
      · have he' : i.token.kind.isEOL = false := by simpa using he
        simp only [he', Bool.false_eq_true, if_false] at h
        by_cases hlp : (i.token.kind == TokKind.punct 40) = true
        · simp only [hlp, if_true] at h
          have hns : i.token.kind = .string → DG i.token.text := by
            intro hs; rw [hs] at hlp; cases hlp
          split at h
          · -- start of a block
            cases hb2 : parseLineBlock (n + 1) i1 s acc.reverse i.token with
            | error err => simp [hb2] at h
            | ok w =>
              simp only [hb2, Except.ok.injEq, Prod.mk.injEq] at h
              obtain ⟨rfl, rfl⟩ := h
              unfold parseLineBlock at hb2
              obtain ⟨hL', htk, _, hall⟩ := parseLineBlockLoop_bk (n + 1) i1 _ [] [] w.1 w.2 hL1 hb2
              refine ⟨hL', ?_, fun hd ha => ?_⟩
              · intro t ht
                simp only [allToks, htk, List.mem_append, List.mem_reverse]
                exact Or.inl ht
              · refine all_back hL hrt hns (hall ?_ ha)
                intro l hl' t ht
                apply hd
                simp only [allToks, List.mem_append, List.mem_flatMap]
                exact Or.inr ⟨l, hl', ht⟩
          · split at h
            · cases hl2 : lex i1 with
              | error err => simp [hl2] at h
              | ok w =>
                obtain ⟨rp, i2⟩ := w
                simp only [hl2] at h
                obtain ⟨htok2, hrt2⟩ := lex_inv hl2
                subst htok2
                have hL2 : L i2 := L.step hrt2
                rename_i hrp
                have hns1 : i1.token.kind = .string → DG i1.token.text := by
                  intro hs
                  simp only [Input.peek] at hrp
                  rw [hs] at hrp; cases hrp
                split at h
                · -- empty block
                  rename_i heol
                  have heol : i2.token.kind.isEOL = true := by simpa [Input.peek] using heol
                  cases hl3 : lex i2 with
                  | error err => simp [hl3] at h
                  | ok u =>
                    simp only [hl3, Except.ok.injEq, Prod.mk.injEq] at h
                    obtain ⟨rfl, rfl⟩ := h
                    obtain ⟨_, hrt3⟩ := lex_inv hl3
                    refine ⟨L.step hrt3, ?_, fun _ ha => ?_⟩
                    · intro t ht; simpa [allToks] using ht
                    · exact all_back hL hrt hns (all_back hL1 hrt2 hns1 (all_back hL2 hrt3 (eol_not_string heol) ha))
                · -- `( )` in the middle of the line
                  obtain ⟨hL', hsub, hall⟩ := ih i2 s e _ x i' hL2 h
                  refine ⟨hL', fun t ht => hsub t (List.mem_cons_of_mem _ (List.mem_cons_of_mem _ ht)), fun hd ha => ?_⟩
                  exact all_back hL hrt hns (all_back hL1 hrt2 hns1 (hall hd ha))
            · -- `(` in the middle of the line
              obtain ⟨hL', hsub, hall⟩ := ih i1 s e _ x i' hL1 h
              refine ⟨hL', fun t ht => hsub t (List.mem_cons_of_mem _ ht), fun hd ha => ?_⟩
              exact all_back hL hrt hns (hall hd ha)
        · simp only [hlp, Bool.false_eq_true, if_false] at h
          obtain ⟨hL', hsub, hall⟩ := ih i1 s i.token.endPos _ x i' hL1 h
          refine ⟨hL', fun t ht => hsub t (List.mem_cons_of_mem _ ht), fun hd ha => ?_⟩
          exact all_back hL hrt (fun _ => hd _ (hsub _ (by simp))) (hall hd ha)

theorem parseStmt_bk (fuel : Nat) (i : Input) (x : Expr) (i' : Input) (hL : L i)
    (h : parseStmt fuel i = .ok (x, i')) : L i' ∧ (StmtDG x → All i' → All i) := by
  unfold parseStmt at h
  cases hl : lex i with
  | error err => simp [hl, bind, Except.bind] at h
  | ok v =>
    obtain ⟨tok, i1⟩ := v
    simp only [hl, bind, Except.bind] at h
    obtain ⟨htok, hrt⟩ := lex_inv hl
    subst htok
    obtain ⟨hL', hsub, hall⟩ := parseStmtLoop_bk fuel i1 _ _ _ x i' (L.step hrt) h
    exact ⟨hL', fun hd ha => all_back hL hrt (fun _ => hd _ (hsub _ (by simp))) (hall hd ha)⟩

theorem allToks_setComments (c : Comments) (s : Expr) : allToks (s.setComments c) = allToks s := by
  cases s <;> rfl

theorem parseFileLoop_bk : ∀ (fuel : Nat) (i : Input) (stmtsRev : List Expr) (cb : Option CommentBlock)
    (out : List Expr) (i' : Input), L i → parseFileLoop fuel i stmtsRev cb = .ok (out, i') →
    (∀ s ∈ stmtsRev, s ∈ out) ∧ ((∀ s ∈ out, StmtDG s) → All i) := by
  intro fuel
  induction fuel with
  | zero => intro i stmtsRev cb out i' _ h; simp [parseFileLoop] at h
  | succ n ih =>
    intro i stmtsRev cb out i' hL h
    unfold parseFileLoop at h
    simp only [Input.peek] at h
    split at h
    · rename_i hk
      cases hl : lex i with
      | error err => simp [hl, bind, Except.bind] at h
      | ok v =>
        simp only [hl, bind, Except.bind] at h
        obtain ⟨_, hrt⟩ := lex_inv hl
        have hb : All v.2 → All i := all_back hL hrt (by rw [hk]; intro hc; cases hc)
        split at h
        · obtain ⟨hsub, hall⟩ := ih v.2 _ none out i' (L.step hrt) h
          exact ⟨fun s hs => hsub s (List.mem_cons_of_mem _ hs), fun hd => hb (hall hd)⟩
        · obtain ⟨hsub, hall⟩ := ih v.2 _ none out i' (L.step hrt) h
          exact ⟨hsub, fun hd => hb (hall hd)⟩
    · rename_i hk
      cases hl : lex i with
      | error err => simp [hl, bind, Except.bind] at h
      | ok v =>
        simp only [hl, bind, Except.bind] at h
        obtain ⟨_, hrt⟩ := lex_inv hl
        have hb : All v.2 → All i := all_back hL hrt (by rw [hk]; intro hc; cases hc)
        obtain ⟨hsub, hall⟩ := ih v.2 _ _ out i' (L.step hrt) h
        exact ⟨hsub, fun hd => hb (hall hd)⟩
    · rename_i hk
      have ha : All i := all_eof hL hk
      split at h
      · simp only [Except.ok.injEq, Prod.mk.injEq] at h
        obtain ⟨rfl, _⟩ := h
        exact ⟨fun s hs => List.mem_reverse.2 (List.mem_cons_of_mem _ hs), fun _ => ha⟩
      · simp only [Except.ok.injEq, Prod.mk.injEq] at h
        obtain ⟨rfl, _⟩ := h
        exact ⟨fun s hs => List.mem_reverse.2 hs, fun _ => ha⟩
    · cases hp : parseStmt (n + 1) i with
      | error err => simp [hp, bind, Except.bind] at h
      | ok v =>
        simp only [hp, bind, Except.bind] at h
        obtain ⟨hL1, hback⟩ := parseStmt_bk (n + 1) i v.1 v.2 hL hp
        split at h
        · obtain ⟨hsub, hall⟩ := ih v.2 _ none out i' hL1 h
          refine ⟨fun s hs => hsub s (List.mem_cons_of_mem _ hs), fun hd => hback ?_ (hall hd)⟩
          have := hd _ (hsub _ (List.mem_cons_self ..))
          unfold StmtDG at this ⊢
          rwa [allToks_setComments] at this
        · obtain ⟨hsub, hall⟩ := ih v.2 _ none out i' hL1 h
          have hm := hsub _ (List.mem_cons_self ..)
          exact ⟨fun s hs => hsub s (List.mem_cons_of_mem _ hs), fun hd => hback (hd _ hm) (hall hd)⟩

/-- ★ if every token of the statement list `parseFile` builds is quote-good, no token of the source spans two
    source lines -/
theorem parseFile_noMultiLineToken {data : Bytes} {stmts : List Expr} {i : Input}
    (h : parseFile data = .ok (stmts, i)) (hd : ∀ s ∈ stmts, StmtDG s) : NoMultiLineToken data := by
  unfold parseFile at h
  cases hr : readToken (newInput data) with
  | error err => simp [hr, bind, Except.bind] at h
  | ok i0 =>
    simp only [hr, bind, Except.bind] at h
    obtain ⟨_, hall⟩ := parseFileLoop_bk _ i0 [] none stmts i (L.step hr) h
    exact futOK_step hr (hall hd) _

/-! ### comment assignment does not touch tokens -/

theorem preLines_tok : ∀ (ls : List Line) (line : List Comment),
    (preLines ls line).1.map (·.token) = ls.map (·.token) := by
  intro ls
  induction ls with
  | nil => intro line; rfl
  | cons l rest ih =>
    intro line
    unfold preLines
    simp only [List.map_cons, ih]

theorem postLinesRev_tok : ∀ (ls : List Line) (suf : List Comment),
    (postLinesRev ls suf).1.map (·.token) = ls.map (·.token) := by
  intro ls
  induction ls with
  | nil => intro suf; rfl
  | cons l rest ih =>
    intro suf
    unfold postLinesRev
    simp only [List.map_cons, ih]

theorem flatMap_token_eq {a b : List Line} (h : a.map (·.token) = b.map (·.token)) :
    a.flatMap (·.token) = b.flatMap (·.token) := by
  rw [List.flatMap_def, List.flatMap_def, h]

theorem preStmt_toks (s : Expr) (line : List Comment) : allToks (preStmt s line).1 = allToks s := by
  cases s with
  | lineBlock b =>
    simp only [preStmt, allToks]
    rw [flatMap_token_eq (preLines_tok _ _)]
  | _ => rfl

theorem postStmt_toks (s : Expr) (suf : List Comment) : allToks (postStmt s suf).1 = allToks s := by
  cases s with
  | lineBlock b =>
    simp only [postStmt, allToks]
    congr 1
    apply flatMap_token_eq
    rw [List.map_reverse, postLinesRev_tok, List.map_reverse, List.reverse_reverse]
  | _ => rfl

theorem preStmts_toks : ∀ (ss : List Expr) (line : List Comment),
    (preStmts ss line).1.map allToks = ss.map allToks := by
  intro ss
  induction ss with
  | nil => intro line; rfl
  | cons s rest ih =>
    intro line
    unfold preStmts
    simp only [List.map_cons, ih, preStmt_toks]

theorem postStmtsRev_toks : ∀ (ss : List Expr) (suf : List Comment),
    (postStmtsRev ss suf).1.map allToks = ss.map allToks := by
  intro ss
  induction ss with
  | nil => intro suf; rfl
  | cons s rest ih =>
    intro suf
    unfold postStmtsRev
    simp only [List.map_cons, ih, postStmt_toks]

theorem assignComments_toks (f : FileSyntax) (cs : List Comment) :
    (assignComments f cs).stmts.map allToks = f.stmts.map allToks := by
  unfold assignComments
  simp only
  rw [List.map_reverse, postStmtsRev_toks, List.map_reverse, List.reverse_reverse, preStmts_toks]

theorem stmtDG_of_map {ss ss' : List Expr} (h : ss'.map allToks = ss.map allToks) (hd : ∀ s ∈ ss', StmtDG s) :
    ∀ s ∈ ss, StmtDG s := by
  intro s hs
  have : allToks s ∈ ss'.map allToks := by rw [h]; exact List.mem_map_of_mem hs
  obtain ⟨s', hs', heq⟩ := List.mem_map.1 this
  have := hd s' hs'
  unfold StmtDG at this ⊢
  rwa [heq] at this

/-- ★ if every token of the tree `parse` returns is quote-good, no token of the source spans two source lines -/
theorem parse_noMultiLineToken {name x : Bytes} {t : FileSyntax} (h : parse name x = .ok t)
    (hd : ∀ s ∈ t.stmts, StmtDG s) : NoMultiLineToken x := by
  unfold parse at h
  cases hp : parseFile x with
  | error e => simp [hp, bind, Except.bind] at h
  | ok v =>
    obtain ⟨stmts, i⟩ := v
    simp only [hp, bind, Except.bind, Except.ok.injEq] at h
    subst h
    exact parseFile_noMultiLineToken hp (stmtDG_of_map (assignComments_toks _ _) hd)

end ModVerif.Proofs.ModfileStrictTok
