/-
  C20 `modulePath_agrees`, tree level: the top-level lines of the tree `parse` returns have the source
  layout `TopLay` (comment assignment does not touch start / end / tokens), and the module directive of a
  strictly accepted file comes from one `module <token>` line.
-/
import ModVerif.Proofs.ModfileC20Top
import ModVerif.Proofs.ModfileC20Ids
import ModVerif.Proofs.ModfileC20Ignore
import ModVerif.Proofs.ModfileC20Lax
namespace ModVerif.Proofs.ModfileC20
open ModVerif ModVerif.Modfile

/-- what comment assignment and the directive layer's retract fixing never change of a top-level line -/
def topCores (xs : List Expr) : List (Nat × Position × List Bytes × Position) :=
  xs.filterMap fun
    | .line l => some (l.id, l.start, l.token, l.«end»)
    | _ => none

theorem topCores_cons (x : Expr) (xs : List Expr) : topCores (x :: xs) = topCores [x] ++ topCores xs := by
  simp only [topCores, List.filterMap_cons, List.filterMap_nil]
  split <;> simp

theorem preStmt_core (s : Expr) (line : List Comment) : topCores [(preStmt s line).1] = topCores [s] := by
  cases s <;> simp [preStmt, topCores, Expr.setComments]

theorem postStmt_core (s : Expr) (suf : List Comment) : topCores [(postStmt s suf).1] = topCores [s] := by
  cases s <;> simp [postStmt, topCores, Expr.setComments]

theorem preStmts_cores : ∀ (ss : List Expr) (line : List Comment), topCores (preStmts ss line).1 = topCores ss := by
  intro ss
  induction ss with
  | nil => intro line; rfl
  | cons s rest ih =>
    intro line
    unfold preStmts
    simp only
    rw [topCores_cons, topCores_cons s rest, ih, preStmt_core]

theorem postStmtsRev_cores : ∀ (ss : List Expr) (suf : List Comment), topCores (postStmtsRev ss suf).1 = topCores ss := by
  intro ss
  induction ss with
  | nil => intro line; rfl
  | cons s rest ih =>
    intro suf
    unfold postStmtsRev
    simp only
    rw [topCores_cons, topCores_cons s rest, ih, postStmt_core]

theorem topCores_reverse (xs : List Expr) : topCores xs.reverse = (topCores xs).reverse := by
  simp [topCores, List.filterMap_reverse]

theorem assignComments_cores (f : FileSyntax) (cs : List Comment) :
    topCores (assignComments f cs).stmts = topCores f.stmts := by
  unfold assignComments
  simp only
  rw [topCores_reverse, postStmtsRev_cores, topCores_reverse, List.reverse_reverse, preStmts_cores]

theorem mem_topCores {xs : List Expr} {c : Nat × Position × List Bytes × Position} :
    c ∈ topCores xs ↔ ∃ l, Expr.line l ∈ xs ∧ c = (l.id, l.start, l.token, l.«end») := by
  unfold topCores
  rw [List.mem_filterMap]
  constructor
  · rintro ⟨x, hx, h⟩
    cases x with
    | line l => simp at h; exact ⟨l, hx, h.symm⟩
    | _ => simp at h
  · rintro ⟨l, hl, rfl⟩
    exact ⟨.line l, hl, rfl⟩

/-- every top-level line of the tree `parse` returns has the source layout -/
theorem parse_topLay {name data : Bytes} {t : FileSyntax} (h : parse name data = .ok t) :
    ∀ l, Expr.line l ∈ t.stmts → TopLay data l := by
  unfold parse at h
  cases hp : parseFile data with
  | error e => simp [hp, bind, Except.bind] at h
  | ok v =>
    simp only [hp, bind, Except.bind, Except.ok.injEq] at h
    subst h
    intro l hl
    have hc := assignComments_cores { name := name, stmts := v.1 } v.2.commentsRev.reverse
    have hm : (l.id, l.start, l.token, l.«end») ∈ topCores v.1 := by
      rw [← hc]; exact mem_topCores.mpr ⟨l, hl, rfl⟩
    obtain ⟨l0, hl0, heq⟩ := mem_topCores.mp hm
    have hlay : TopLay data l0 := parseFile_lay (show parseFile data = .ok (v.1, v.2) by rw [hp]) _ hl0
    simp only [Prod.mk.injEq] at heq
    obtain ⟨_, hs, ht, he⟩ := heq
    unfold TopLay at hlay ⊢
    rw [hs, ht, he]; exact hlay


/-! ### where the module directive comes from -/

/-- the module field of the first component is `old`, or was set for `line` -/
def FstMod {β : Type} (line : Line) (old : Option Module) (r : AddState × β) : Prop :=
  r.1.file.module = old ∨ ∃ m, r.1.file.module = some m ∧ m.lineId = line.id

macro "mod_auto" : tactic =>
  `(tactic| (repeat' (first | split | (dsimp only))) <;> (first | exact Or.inl rfl | exact Or.inr ⟨_, rfl, rfl⟩))

theorem add_mod_id (st : AddState) (block : Option Comments) (line : Line) (verb : Bytes) (args : List Bytes)
    (fix : Option Fixer) (strict : Bool) :
    FstMod line st.file.module (File.add st block line verb args fix strict) := by
  rw [add_eq]
  split
  · exact Or.inl rfl
  split
  · unfold addGo; mod_auto
  split
  · unfold addToolchain; mod_auto
  split
  · unfold addModule; mod_auto
  split
  · unfold addGodebugV; mod_auto
  split
  · unfold addReqExc; mod_auto
  split
  · unfold addReplaceV; mod_auto
  split
  · unfold addRetractV; mod_auto
  split
  · unfold addToolV; mod_auto
  · exact Or.inl rfl

/-- the module field is `old`, or `old` is empty and the line is an accepted `module <token>` directive -/
def FstModSet {β : Type} (line : Line) (verb : Bytes) (args : List Bytes) (old : Option Module) (r : AddState × β) : Prop :=
  r.1.file.module = old ∨
  (verb = B "module" ∧ ∃ a s a' m, args = [a] ∧ parseString a = some (s, a') ∧ r.1.file.module = some m ∧
    m.mod.path = s ∧ m.lineId = line.id)

theorem addModule_modset (st : AddState) (block : Option Comments) (line : Line) (args : List Bytes)
    (hok : (addModule st block line args).1.errsRev = st.errsRev) :
    FstModSet line (B "module") args st.file.module (addModule st block line args) := by
  unfold addModule at hok ⊢
  simp only at hok ⊢
  split
  · rename_i hsome
    simp only [hsome, if_true] at hok
    exact absurd hok (err_ne _ _ _)
  · rename_i hsome
    simp only [hsome] at hok
    match args, hok with
    | [a], hok =>
      simp only at hok ⊢
      cases hps : parseString a with
      | none =>
        simp only [hps] at hok
        exact absurd hok (by simp [AddState.err])
      | some v =>
        simp only
        exact Or.inr ⟨rfl, a, v.1, v.2, _, rfl, hps, rfl, rfl, rfl⟩
    | [], hok => exact absurd hok (by simp [AddState.err])
    | _ :: _ :: _, hok => exact absurd hok (by simp [AddState.err])

theorem add_modset (st : AddState) (block : Option Comments) (line : Line) (verb : Bytes) (args : List Bytes)
    (fix : Option Fixer) (hok : (File.add st block line verb args fix true).1.errsRev = st.errsRev) :
    FstModSet line verb args st.file.module (File.add st block line verb args fix true) := by
  rw [add_eq] at hok ⊢
  simp only [Bool.not_true, Bool.false_and, Bool.false_eq_true, if_false] at hok ⊢
  split
  · left; unfold addGo; (repeat' (first | split | (dsimp only))) <;> rfl
  split
  · left; unfold addToolchain; (repeat' (first | split | (dsimp only))) <;> rfl
  split
  · rename_i h1 h2 hv
    have hv : verb = B "module" := by simpa using hv
    subst hv
    simp only [h1, h2, Bool.false_eq_true, if_false, beq_self_eq_true, if_true] at hok
    exact addModule_modset st block line args hok
  split
  · left; unfold addGodebugV; (repeat' (first | split | (dsimp only))) <;> rfl
  split
  · left; unfold addReqExc; (repeat' (first | split | (dsimp only))) <;> rfl
  split
  · left; unfold addReplaceV; (repeat' (first | split | (dsimp only))) <;> rfl
  split
  · left; unfold addRetractV; (repeat' (first | split | (dsimp only))) <;> rfl
  split
  · left; unfold addToolV; (repeat' (first | split | (dsimp only))) <;> rfl
  · left; rfl


/-- the module directive `m` was set by a top-level `module <token>` line, or by a line of a block -/
def ModFrom (xs : List Expr) (m : Module) : Prop :=
  (∃ l tok tok', Expr.line l ∈ xs ∧ l.id = m.lineId ∧ l.token = [B "module", tok] ∧
    parseString tok = some (m.mod.path, tok')) ∨
  (∃ b l, Expr.lineBlock b ∈ xs ∧ l ∈ b.lines ∧ l.id = m.lineId)

theorem ModFrom.tail {x : Expr} {xs : List Expr} {m : Module} (h : ModFrom xs m) : ModFrom (x :: xs) m := by
  rcases h with ⟨l, tok, tok', h1, h2⟩ | ⟨b, l, h1, h2⟩
  · exact Or.inl ⟨l, tok, tok', List.mem_cons_of_mem _ h1, h2⟩
  · exact Or.inr ⟨b, l, List.mem_cons_of_mem _ h1, h2⟩

theorem addBlockLines_module (block : Comments) (verb : Bytes) (fix : Option Fixer) (strict : Bool) :
    ∀ (ls : List Line) (st : AddState) (m : Module),
    (addBlockLines block verb fix strict st ls).1.file.module = some m →
    st.file.module = some m ∨ ∃ l ∈ ls, l.id = m.lineId := by
  intro ls
  induction ls with
  | nil => intro st m h; exact Or.inl h
  | cons l rest ih =>
    intro st m h
    unfold addBlockLines at h
    rcases ih _ m h with h1 | ⟨l', hl', hid⟩
    · rcases add_mod_id st (some block) l verb l.token fix strict with h2 | ⟨m', h2, hid⟩
      · exact Or.inl (h2 ▸ h1)
      · rw [h2] at h1
        simp only [Option.some.injEq] at h1
        subst h1
        exact Or.inr ⟨l, by simp, hid.symm⟩
    · exact Or.inr ⟨l', List.mem_cons_of_mem _ hl', hid⟩

theorem stmtStep_errs (fix : Option Fixer) (st : AddState) (x : Expr) :
    ErrsExt (RErr (fun _ => True)) st.errsRev (stmtStep fix true st x).1.errsRev := by
  have := addStmts_errs (fun _ => True) fix true [x] st (by intro y _; cases y <;> simp [StmtPos])
  rw [addStmts_cons] at this
  exact this

theorem addStmts_module (fix : Option Fixer) :
    ∀ (xs : List Expr) (st : AddState), (addStmts fix true st xs).1.errsRev = st.errsRev →
    ∀ m, (addStmts fix true st xs).1.file.module = some m → st.file.module = some m ∨ ModFrom xs m := by
  intro xs
  induction xs with
  | nil => intro st _ m h; exact Or.inl h
  | cons x rest ih =>
    intro st hok m h
    rw [addStmts_cons] at hok h
    simp only at hok h
    have e1 := stmtStep_errs fix st x
    have e2 := addStmts_errs (fun _ => True) fix true rest (stmtStep fix true st x).1
      (by intro y _; cases y <;> simp [StmtPos])
    obtain ⟨hok1, hok2⟩ := ErrsExt.eq_of_eq e1 e2 hok
    rcases ih _ hok2 m h with h1 | h1
    · -- the module was set by this statement or before
      cases x with
      | line l =>
        cases htok : l.token with
        | nil =>
          simp only [stmtStep, htok] at h1
          exact Or.inl h1
        | cons verb args =>
          simp only [stmtStep, htok] at h1 hok1
          rcases add_modset st none l verb args fix hok1 with h2 | ⟨hv, a, s, a', m', ha, hps, hm', hpath, hid⟩
          · exact Or.inl (h2 ▸ h1)
          · rw [hm'] at h1
            simp only [Option.some.injEq] at h1
            subst h1
            right; left
            refine ⟨l, a, a', by simp, hid.symm, by rw [htok, hv, ha], by rw [hpath]; exact hps⟩
      | lineBlock b =>
        simp only [stmtStep] at h1
        split at h1
        · rename_i verb hv
          split at h1
          · rcases addBlockLines_module b.comments verb fix true b.lines st m h1 with h2 | ⟨l, hl, hid⟩
            · exact Or.inl h2
            · exact Or.inr (Or.inr ⟨b, l, by simp, hl, hid⟩)
          · exact Or.inl h1
        · exact Or.inl h1
      | commentBlock c => exact Or.inl h1
      | lparen c => exact Or.inl h1
      | rparen c => exact Or.inl h1
    · exact Or.inr h1.tail


/-! ### top-level lines of the rewritten tree -/

def topIds (xs : List Expr) : List (Nat × Position) :=
  xs.filterMap fun
    | .line l => some (l.id, l.start)
    | _ => none

theorem stmtStep_topId (fix : Option Fixer) (strict : Bool) (st : AddState) (x : Expr) :
    topIds [(stmtStep fix strict st x).2] = topIds [x] := by
  cases x with
  | line l =>
    cases htok : l.token with
    | nil => simp [stmtStep, htok]
    | cons verb args => simp [stmtStep, htok, topIds]
  | lineBlock b =>
    simp only [stmtStep]
    split
    · split <;> simp [topIds]
    · simp [topIds]
  | commentBlock c => rfl
  | lparen c => rfl
  | rparen c => rfl

theorem topIds_cons (x : Expr) (xs : List Expr) : topIds (x :: xs) = topIds [x] ++ topIds xs := by
  simp only [topIds, List.filterMap_cons, List.filterMap_nil]
  split <;> simp

theorem addStmts_topIds (fix : Option Fixer) (strict : Bool) :
    ∀ (xs : List Expr) (st : AddState), topIds (addStmts fix strict st xs).2 = topIds xs := by
  intro xs
  induction xs with
  | nil => intro st; rfl
  | cons x rest ih =>
    intro st
    rw [addStmts_cons]
    simp only
    rw [topIds_cons, topIds_cons x rest, ih, stmtStep_topId]

theorem mem_topIds {xs : List Expr} {n : Nat × Position} :
    n ∈ topIds xs ↔ ∃ l, Expr.line l ∈ xs ∧ (l.id, l.start) = n := by
  unfold topIds
  rw [List.mem_filterMap]
  constructor
  · rintro ⟨x, hx, h⟩
    cases x with
    | line l => simp at h; exact ⟨l, hx, h⟩
    | _ => simp at h
  · rintro ⟨l, hl, rfl⟩
    exact ⟨.line l, hl, rfl⟩

theorem line_mem_linesOf : ∀ {xs : List Expr} {l : Line}, Expr.line l ∈ xs → l ∈ linesOf xs := by
  intro xs
  induction xs with
  | nil => intro l h; cases h
  | cons x rest ih =>
    intro l h
    simp only [List.mem_cons] at h
    rcases h with rfl | h
    · simp
    · have := ih h
      cases x <;> simp [this]

theorem block_mem_linesOf : ∀ {xs : List Expr} {b : LineBlock} {l : Line}, Expr.lineBlock b ∈ xs → l ∈ b.lines →
    l ∈ linesOf xs := by
  intro xs
  induction xs with
  | nil => intro b l h; cases h
  | cons x rest ih =>
    intro b l h hl
    simp only [List.mem_cons] at h
    rcases h with rfl | h
    · simp [hl]
    · have := ih h hl
      cases x <;> simp [this]

/-- a top-level line and a block line cannot share an identity -/
theorem top_block_ids_distinct : ∀ {xs : List Expr}, NodupIds xs → ∀ {l0 : Line} {b : LineBlock} {l : Line},
    Expr.line l0 ∈ xs → Expr.lineBlock b ∈ xs → l ∈ b.lines → l0.id ≠ l.id := by
  intro xs
  induction xs with
  | nil => intro _ l0 b l h; cases h
  | cons x rest ih =>
    intro hn l0 b l h0 hb hl hid
    unfold NodupIds at hn
    simp only [List.mem_cons] at h0 hb
    rcases h0 with rfl | h0 <;> rcases hb with hb | hb
    · cases hb
    · simp only [linesOf_line, List.map_cons, List.nodup_cons] at hn
      apply hn.1
      rw [hid]
      exact List.mem_map_of_mem (f := (·.id)) (block_mem_linesOf hb hl)
    · subst hb
      simp only [linesOf_block, List.map_append] at hn
      have hdis := (List.nodup_append.mp hn).2.2
      exact hdis l.id (List.mem_map_of_mem (f := (·.id)) hl) l0.id
        (List.mem_map_of_mem (f := (·.id)) (line_mem_linesOf h0)) hid.symm
    · have hn' : NodupIds rest := by
        unfold NodupIds
        cases x with
        | line y => simp only [linesOf_line, List.map_cons, List.nodup_cons] at hn; exact hn.2
        | lineBlock y => simp only [linesOf_block, List.map_append] at hn; exact (List.nodup_append.mp hn).2.1
        | commentBlock y => simpa using hn
        | lparen y => simpa using hn
        | rparen y => simpa using hn
      exact ih hn' h0 hb hl hid

/-- The module directive of a strictly accepted file whose directive is a top-level line: it is a line
    `module <tok>` of the parse tree with the source layout `TopLay`, and `<tok>` denotes the module path. -/
theorem module_line_of_strict {name x : Bytes} {f : File} {m : Module}
    (h : parseToFile name x none true = .ok f) (hm : f.module = some m)
    (htop : ∃ l', Expr.line l' ∈ f.syn.stmts ∧ l'.id = m.lineId) :
    ∃ fs l tok tok', parse name x = .ok fs ∧ Expr.line l ∈ fs.stmts ∧ l.id = m.lineId ∧
      l.token = [B "module", tok] ∧ parseString tok = some (m.mod.path, tok') ∧ TopLay x l ∧ LineOK x l ∧
      (∀ l', Expr.line l' ∈ f.syn.stmts → l'.id = m.lineId → l'.start = l.start) := by
  rw [parseToFile_eq] at h
  cases hparse : parse name x with
  | error e => rw [hparse] at h; cases h
  | ok fs =>
    rw [hparse] at h
    simp only at h
    have hfr : ∀ st, fixRetract st none = st := fun st => rfl
    rw [hfr] at h
    split at h
    · rename_i hempty
      simp only [Except.ok.injEq] at h
      subst h
      have hS0 : (addStmts none true { file := { syn := fs } } fs.stmts).1.errsRev = [] := by
        simpa [mkSt] using hempty
      have hmod : (addStmts none true { file := { syn := fs } } fs.stmts).1.file.module = some m := hm
      have hpos := parse_pos_consistent name x
      rw [hparse] at hpos
      rcases addStmts_module none fs.stmts { file := { syn := fs } } hS0 m hmod with h0 | hfrom
      · cases h0
      · rcases hfrom with ⟨l, tok, tok', hl, hid, htok, hps⟩ | ⟨b, l, hb, hl, hid⟩
        · refine ⟨fs, l, tok, tok', rfl, hl, hid, htok, hps, parse_topLay hparse l hl, hpos.stmts _ hl, ?_⟩
          intro l' hl' hid'
          have hin : (l'.id, l'.start) ∈ topIds (addStmts none true { file := { syn := fs } } fs.stmts).2 :=
            mem_topIds.mpr ⟨l', hl', rfl⟩
          rw [addStmts_topIds] at hin
          obtain ⟨l0, hl0, hk0⟩ := mem_topIds.mp hin
          simp only [Prod.mk.injEq] at hk0
          have : l0 = l := inj_of_nodup_ids (parse_ids_nodup hparse) (line_mem_linesOf hl0) (line_mem_linesOf hl)
            (by rw [hk0.1, hid', hid])
          rw [← hk0.2, this]
        · exfalso
          obtain ⟨l', hl', hid'⟩ := htop
          have hin : (l'.id, l'.start) ∈ topIds (addStmts none true { file := { syn := fs } } fs.stmts).2 :=
            mem_topIds.mpr ⟨l', hl', rfl⟩
          rw [addStmts_topIds] at hin
          obtain ⟨l0, hl0, hk0⟩ := mem_topIds.mp hin
          simp only [Prod.mk.injEq] at hk0
          exact top_block_ids_distinct (parse_ids_nodup hparse) hl0 hb hl (by rw [hk0.1, hid', hid])
    · cases h

end ModVerif.Proofs.ModfileC20
