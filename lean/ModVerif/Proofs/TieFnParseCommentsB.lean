/-
  Helper lemmas for Tie/FnParseComments.lean, part B: `input.order` — the preorder / postorder lists of node pointers.
-/
import ModVerif.Proofs.TieFnParseCommentsA
set_option linter.unusedSimpArgs false
set_option linter.unusedVariables false
namespace ModVerif.TieFnParseComments
open ModVerif ModVerif.GoRt ModVerif.Generated ModVerif.Generated.Parse ModVerif.Tie.FnParseHeap

/-! ### the node lists -/

/-- preorder of a statement: the statement; for a block then its `(`, its lines, its `)` -/
def preStmtPtrs (h : Heap) : Expr → List Expr
  | .LineBlock p => .LineBlock p :: .LParen p :: ((blockLines h p).map .Line ++ [.RParen p])
  | e => [e]

/-- postorder of a statement: for a block its `(`, its lines, its `)`; then the statement -/
def postStmtPtrs (h : Heap) : Expr → List Expr
  | .LineBlock p => .LParen p :: ((blockLines h p).map .Line ++ [.RParen p, .LineBlock p])
  | e => [e]

/-- preorder of the file at `p` whose statements are `es` -/
def prePtrs (h : Heap) (p : Int) (es : List Expr) : List Expr := .FileSyntax p :: es.flatMap (preStmtPtrs h)
/-- postorder -/
def postPtrs (h : Heap) (p : Int) (es : List Expr) : List Expr := es.flatMap (postStmtPtrs h) ++ [.FileSyntax p]

theorem preStmtPtrs_length_pos (h : Heap) (e : Expr) : 1 ≤ (preStmtPtrs h e).length := by
  cases e <;> simp [preStmtPtrs]

/-- the statement kinds `order` accepts without recursion into another file -/
def OrderOK (h : Heap) : Expr → Prop
  | .CommentBlock _ => True
  | .Line _ => True
  | .LineBlock p => ∃ b, heapGet h.blocks p = .ok b
  | _ => False

theorem OrderOK_of_StmtOK {h : Heap} {e : Expr} (hs : StmtOK h e) : OrderOK h e := by
  cases e <;> simp only [StmtOK, OrderOK] at hs ⊢
  obtain ⟨b, hb, _⟩ := hs; exact ⟨b, hb⟩

/-! ### order -/

/-- the updated lexer state -/
def addOrder (in_ : input) (pre post : List Expr) : input := { in_ with pre := in_.pre ++ pre, post := in_.post ++ post }

@[simp] theorem addOrder_nil (in_ : input) : addOrder in_ [] [] = in_ := by simp [addOrder]
@[simp] theorem addOrder_addOrder (in_ : input) (a b c d : List Expr) :
    addOrder (addOrder in_ a b) c d = addOrder in_ (a ++ c) (b ++ d) := by simp [addOrder]

theorem order_leaf (fuel : Nat) (in_ : input) (x : Expr) (h : Heap)
    (hx : (∃ p, x = .LParen p) ∨ (∃ p, x = .RParen p) ∨ (∃ p, x = .CommentBlock p) ∨ (∃ p, x = .Line p)) :
    input_order (fuel + 1) in_ x h = .ok (((), addOrder in_ [x] [x]), h) := by
  rcases hx with ⟨p, rfl⟩ | ⟨p, rfl⟩ | ⟨p, rfl⟩ | ⟨p, rfl⟩ <;> (rw [input_order]; simp [addOrder])

theorem order_loop2 (rx : List Int) (x5 : Int) (h : Heap) : ∀ (n fuel k : Nat) (in_ : input), k + n = rx.length →
    n + 2 ≤ fuel →
    input_order_loop2 rx x5 fuel (k : Int) h in_ =
      .ok (len rx, h, addOrder in_ ((rx.drop k).map .Line) ((rx.drop k).map .Line))
  | 0, fuel + 1, k, in_, hk, _ => by
    rw [input_order_loop2]
    have : ¬ ((k : Int) < len rx) := by simp [len_eq]; omega
    have hd : rx.drop k = [] := List.drop_eq_nil_of_le (by omega)
    have hk' : (k : Int) = len rx := by simp [len_eq]; omega
    simp [this, hd, hk']
  | n + 1, fuel + 1, k, in_, hk, hf => by
    rw [input_order_loop2]
    have hlt : (k : Int) < len rx := by simp [len_eq]; omega
    have hkl : k < rx.length := by omega
    obtain ⟨f', rfl⟩ : ∃ f', fuel = f' + 1 := ⟨fuel - 1, by omega⟩
    simp only [hlt, decide_true, if_true, idxL_natCast hkl, bind_ok,
      order_leaf f' in_ (.Line rx[k]) h (Or.inr (Or.inr (Or.inr ⟨_, rfl⟩)))]
    have := order_loop2 rx x5 h n (f' + 1) (k + 1) (addOrder in_ [.Line rx[k]] [.Line rx[k]]) (by omega) (by omega)
    rw [show ((k : Int) + 1) = ((k + 1 : Nat) : Int) by omega, this]
    have hd : rx.drop k = rx[k] :: rx.drop (k + 1) := (List.getElem_cons_drop hkl).symm
    rw [hd]; simp only [List.flatMap_cons, List.map_cons, addOrder_addOrder, List.cons_append, List.nil_append]
  | _, 0, _, _, _, hf => by omega

theorem order_block (fuel : Nat) (in_ : input) (p : Int) (h : Heap) {b : LineBlock} (hb : heapGet h.blocks p = .ok b)
    (hf : b.Line.length + 3 ≤ fuel) :
    input_order fuel in_ (.LineBlock p) h =
      .ok (((), addOrder in_ (preStmtPtrs h (.LineBlock p)) (postStmtPtrs h (.LineBlock p))), h) := by
  obtain ⟨f', rfl⟩ : ∃ f', fuel = f' + 1 := ⟨fuel - 1, by omega⟩
  obtain ⟨f'', rfl⟩ : ∃ f'', f' = f'' + 1 := ⟨f' - 1, by omega⟩
  rw [input_order]
  have h2 := order_loop2 b.Line p h b.Line.length (f'' + 1) 0
  simp only [Nat.zero_add, List.drop_zero, Int.natCast_zero] at h2
  simp [order_leaf f'' _ (.LParen p) h (Or.inl ⟨_, rfl⟩), hb, h2 _ trivial (by omega),
    order_leaf f'' _ (.RParen p) h (Or.inr (Or.inl ⟨_, rfl⟩)), preStmtPtrs, postStmtPtrs, blockLines, addOrder]

/-- one statement -/
theorem order_stmt (fuel : Nat) (in_ : input) (e : Expr) (h : Heap) (hok : OrderOK h e)
    (hf : (preStmtPtrs h e).length + 1 ≤ fuel) :
    input_order fuel in_ e h = .ok (((), addOrder in_ (preStmtPtrs h e) (postStmtPtrs h e)), h) := by
  cases e <;> simp only [OrderOK] at hok
  · obtain ⟨f', rfl⟩ : ∃ f', fuel = f' + 1 := ⟨fuel - 1, by simp [preStmtPtrs] at hf; omega⟩
    exact order_leaf f' in_ _ h (Or.inr (Or.inr (Or.inl ⟨_, rfl⟩)))
  · obtain ⟨f', rfl⟩ : ∃ f', fuel = f' + 1 := ⟨fuel - 1, by simp [preStmtPtrs] at hf; omega⟩
    exact order_leaf f' in_ _ h (Or.inr (Or.inr (Or.inr ⟨_, rfl⟩)))
  · obtain ⟨b, hb⟩ := hok
    refine order_block fuel in_ _ h hb ?_
    simp [preStmtPtrs, blockLines, hb] at hf
    omega

theorem order_loop1 (rx : List Expr) (x4 : Int) (h : Heap) (hok : ∀ e ∈ rx, OrderOK h e) :
    ∀ (n fuel k : Nat) (in_ : input), k + n = rx.length →
    ((rx.drop k).flatMap (preStmtPtrs h)).length + 2 ≤ fuel →
    input_order_loop1 rx x4 fuel (k : Int) h in_ =
      .ok (len rx, h, addOrder in_ ((rx.drop k).flatMap (preStmtPtrs h)) ((rx.drop k).flatMap (postStmtPtrs h)))
  | 0, fuel + 1, k, in_, hk, _ => by
    rw [input_order_loop1]
    have : ¬ ((k : Int) < len rx) := by simp [len_eq]; omega
    have hd : rx.drop k = [] := List.drop_eq_nil_of_le (by omega)
    have hk' : (k : Int) = len rx := by simp [len_eq]; omega
    simp [this, hd, hk']
  | n + 1, fuel + 1, k, in_, hk, hf => by
    rw [input_order_loop1]
    have hlt : (k : Int) < len rx := by simp [len_eq]; omega
    have hkl : k < rx.length := by omega
    have hd : rx.drop k = rx[k] :: rx.drop (k + 1) := (List.getElem_cons_drop hkl).symm
    rw [hd] at hf
    simp only [List.flatMap_cons, List.length_append] at hf
    have hpos := preStmtPtrs_length_pos h rx[k]
    simp only [hlt, decide_true, if_true, idxL_natCast hkl, bind_ok,
      order_stmt fuel in_ rx[k] h (hok _ (List.getElem_mem hkl)) (by omega)]
    have := order_loop1 rx x4 h hok n fuel (k + 1) (addOrder in_ (preStmtPtrs h rx[k]) (postStmtPtrs h rx[k]))
      (by omega) (by omega)
    rw [show ((k : Int) + 1) = ((k + 1 : Nat) : Int) by omega, this]
    rw [hd]; simp only [List.flatMap_cons, List.map_cons, addOrder_addOrder, List.cons_append, List.nil_append]
  | _, 0, _, _, _, hf => by omega

/-- `in.order(in.file)`: the preorder and the postorder list of the graph -/
theorem order_file (fuel : Nat) (in_ : input) (p : Int) (h : Heap) {f : FileSyntax} (hf : heapGet h.files p = .ok f)
    (hok : ∀ e ∈ f.Stmt, OrderOK h e) (hfuel : (prePtrs h p f.Stmt).length + 2 ≤ fuel) :
    input_order fuel in_ (.FileSyntax p) h =
      .ok (((), addOrder in_ (prePtrs h p f.Stmt) (postPtrs h p f.Stmt)), h) := by
  obtain ⟨f', rfl⟩ : ∃ f', fuel = f' + 1 := ⟨fuel - 1, by omega⟩
  rw [input_order]
  have h1 := order_loop1 f.Stmt p h hok f.Stmt.length f' 0
  simp only [Nat.zero_add, List.drop_zero, Int.natCast_zero] at h1
  simp only [prePtrs, List.length_cons] at hfuel
  simp [hf, h1 _ trivial (by omega), prePtrs, postPtrs, addOrder]

end ModVerif.TieFnParseComments
