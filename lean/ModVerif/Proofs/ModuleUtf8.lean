/-
  Lemmas about Basic/Utf8.lean used by the module-path proofs (C06, C11):
  an ASCII head byte decodes to itself with width 1; a non-ASCII head byte yields a rune ≥ 128.
-/
import ModVerif.Basic.Utf8
namespace ModVerif.Utf8
open ModVerif

theorem decode_ascii (b : UInt8) (rest : Bytes) (h : b.toNat < 128) :
    decode (b :: rest) = some (b.toNat, 1) := by
  simp [decode, h]

theorem decodeRune_ascii (b : UInt8) (rest : Bytes) (h : b.toNat < 128) :
    decodeRune (b :: rest) = (b.toNat, 1) := by
  simp [decodeRune, decode_ascii b rest h]

theorem runes_nil : runes [] = [] := rfl

theorem runes_cons_ascii (b : UInt8) (s : Bytes) (h : b.toNat < 128) :
    runes (b :: s) = b.toNat :: runes s := by
  simp [runes, runesAux, decodeRune_ascii b s h]

theorem decode_nonascii_ge (b : UInt8) (rest : Bytes) (h : 128 ≤ b.toNat) (r w : Nat)
    (hd : decode (b :: rest) = some (r, w)) : 128 ≤ r := by
  unfold decode at hd
  simp only [isCont, inRange] at hd
  repeat' split at hd
  all_goals (simp at *)
  all_goals omega

theorem decodeRune_nonascii_ge (b : UInt8) (rest : Bytes) (h : 128 ≤ b.toNat) :
    128 ≤ (decodeRune (b :: rest)).1 := by
  unfold decodeRune
  cases hd : decode (b :: rest) with
  | none => simp [runeError]
  | some rw => exact decode_nonascii_ge b rest h rw.1 rw.2 hd

theorem runes_cons_nonascii (b : UInt8) (s : Bytes) (h : 128 ≤ b.toNat) :
    ∃ r rs, runes (b :: s) = r :: rs ∧ 128 ≤ r :=
  ⟨_, _, rfl, decodeRune_nonascii_ge b s h⟩

/-- on an all-ASCII string the runes are the bytes -/
theorem runes_ascii (s : Bytes) (h : ∀ b ∈ s, b.toNat < 128) : runes s = s.map (·.toNat) := by
  induction s with
  | nil => rfl
  | cons b s ih =>
    rw [runes_cons_ascii b s (h b (by simp)), ih (fun c hc => h c (by simp [hc]))]
    rfl

/-- a predicate that only holds below 128 holds of all runes iff it holds of all bytes -/
theorem runes_all_of_ascii_pred (p : Nat → Bool) (hp : ∀ r, p r = true → r < 128) (s : Bytes) :
    (runes s).all p = s.all (fun b => p b.toNat) := by
  induction s with
  | nil => rfl
  | cons b s ih =>
    by_cases h : b.toNat < 128
    · rw [runes_cons_ascii b s h]; simp [ih]
    · have h' : 128 ≤ b.toNat := by omega
      obtain ⟨r, rs, hr, hge⟩ := runes_cons_nonascii b s h'
      have h1 : p r = false := by
        cases hpr : p r with
        | false => rfl
        | true => have := hp r hpr; omega
      have h2 : p b.toNat = false := by
        cases hpb : p b.toNat with
        | false => rfl
        | true => have := hp _ hpb; omega
      rw [hr]; simp [h1, h2]

/-- a predicate that holds of every rune ≥ 128 holds of some rune iff it holds of some byte -/
theorem runes_any_of_nonascii_pred (p : Nat → Bool) (hp : ∀ r, 128 ≤ r → p r = true) (s : Bytes) :
    (runes s).any p = s.any (fun b => p b.toNat) := by
  induction s with
  | nil => rfl
  | cons b s ih =>
    by_cases h : b.toNat < 128
    · rw [runes_cons_ascii b s h]; simp [ih]
    · have h' : 128 ≤ b.toNat := by omega
      obtain ⟨r, rs, hr, hge⟩ := runes_cons_nonascii b s h'
      rw [hr]; simp [hp r hge, hp _ h']

end ModVerif.Utf8
