/-
  C02, end-of-line comments on the SOURCE text, part e: the three clauses under the source condition
  `NoMultiLineToken x` (no token of the input spans two source lines) instead of the tree condition `EolCount`.

  For clause 3 the tree `f.syn` the typed parsers return is the tree of `parse` with the tokens of some lines
  rewritten (`addStmts` / `workStmts`); the comments are untouched, so `EolCount` carries over.
-/
import ModVerif.Proofs.ModfileSrcLine
import ModVerif.Proofs.ModfileEolWork
namespace ModVerif.Proofs.ModfileSrc
open ModVerif ModVerif.Modfile
open ModVerif.Proofs.ModfileFmtTree ModVerif.Proofs.ModfileFmtDir ModVerif.Proofs.ModfileFmtWork
open ModVerif.Proofs.ModfileEol

/-- ★ `format_parse_syntax` for every accepted input in which no token spans two source lines -/
theorem format_parse_syntax_src (name x : Bytes) (t : FileSyntax) (h : parse name x = .ok t)
    (hN : NoMultiLineToken x) :
    ∃ t', parse name (format t) = .ok t' ∧ eraseFile t' = normFileE t ∧ EolCount t' :=
  format_parse_syntax_count name x t h (eolCount_of_single_line_tokens h hN)

/-- ★ `format_idempotent` for every accepted input in which no token spans two source lines -/
theorem format_idempotent_src (name x : Bytes) (t t' : FileSyntax) (h : parse name x = .ok t)
    (hN : NoMultiLineToken x) (h' : parse name (format t) = .ok t') : format t' = format t :=
  format_idempotent_count name x t t' h (eolCount_of_single_line_tokens h hN) h'

/-- the syntax tree of a strictly parsed go.mod file satisfies `EolCount` if no token of the input spans two
    source lines -/
theorem eolCount_syn_of_parseToFile (name x : Bytes) (fix : Option Fixer) (f : Modfile.File)
    (h : parseToFile name x fix true = .ok f) (hret : fix ≠ none → f.retract = []) (hN : NoMultiLineToken x) :
    EolCount f.syn := by
  unfold parseToFile at h
  cases hp : parse name x with
  | error e => simp [hp] at h
  | ok fs =>
    simp only [hp] at h
    have hcfs : EolCount fs := eolCount_of_single_line_tokens hp hN
    cases ha : addStmts fix true { file := { syn := fs } } fs.stmts with
    | mk st stmts =>
      simp only [ha] at h
      generalize hst2 : ({ st with file := { st.file with syn := { fs with stmts := stmts } } } : AddState) = st2 at h
      have hfr : fixRetract st2 fix = st2 := by
        rcases fixRetract_cases st2 fix with h0 | ⟨hfn, h1⟩
        · exact h0
        · exfalso
          split at h
          · rename_i hemp
            simp only [Except.ok.injEq] at h
            rcases h1 with h1 | h1
            · exact h1 (by simpa using hemp)
            · rw [h] at h1
              exact h1 (hret hfn)
          · cases h
      rw [hfr] at h
      split at h
      · simp only [Except.ok.injEq] at h
        have hf : f = { st.file with syn := { fs with stmts := stmts } } := by rw [← h, ← hst2]
        have hsyn : f.syn = { fs with stmts := stmts } := by rw [hf]
        have hstm : stmts = (addStmts fix true { file := { syn := fs } } fs.stmts).2 := by rw [ha]
        rw [hsyn]
        refine ⟨hcfs.header, ?_⟩
        apply count_of_noTok (ss1 := fs.stmts)
        · rw [hstm]; exact (addStmts_noTok fix true fs.stmts _).symm
        · exact hcfs.stmts
      · cases h

/-- the same for go.work -/
theorem eolCount_syn_of_parseWork (name x : Bytes) (fix : Option Fixer) (f : WorkFile)
    (h : parseWork name x fix = .ok f) (hN : NoMultiLineToken x) : EolCount f.syn := by
  unfold parseWork at h
  cases hp : parse name x with
  | error e => simp [hp] at h
  | ok fs =>
    simp only [hp] at h
    have hcfs : EolCount fs := eolCount_of_single_line_tokens hp hN
    cases ha : workStmts fix { file := { syn := fs } } fs.stmts with
    | mk st stmts =>
      simp only [ha] at h
      split at h
      · simp only [Except.ok.injEq] at h
        have hf : f = { st.file with syn := { fs with stmts := stmts } } := h.symm
        have hsyn : f.syn = { fs with stmts := stmts } := by rw [hf]
        have hstm : stmts = (workStmts fix { file := { syn := fs } } fs.stmts).2 := by rw [ha]
        rw [hsyn]
        refine ⟨hcfs.header, ?_⟩
        apply count_of_noTok (ss1 := fs.stmts)
        · rw [hstm]; exact (workStmts_noTok fix fs.stmts _).symm
        · exact hcfs.stmts
      · cases h

/-- ★ `format_preserves_directives` (strict go.mod) for inputs in which no token spans two source lines -/
theorem format_preserves_directives_src (name x : Bytes) (fix : Option Fixer) (f : Modfile.File)
    (h : parseToFile name x fix true = .ok f) (hN : NoMultiLineToken x) (hwf : WellFormed f)
    (hfix : FixOK fix) (hne : FixNE fix) (hret : fix ≠ none → f.retract = []) :
    ∃ f', parseToFile name (format f.syn) fix true = .ok f' ∧ values f' = values f :=
  format_preserves_directives_eol name x fix f h (eolCount_syn_of_parseToFile name x fix f h hret hN) hwf hfix hne hret

/-- ★ `format_preserves_directives` (go.work) for inputs in which no token spans two source lines -/
theorem format_preserves_directives_work_src (name x : Bytes) (fix : Option Fixer) (f : WorkFile)
    (h : parseWork name x fix = .ok f) (hN : NoMultiLineToken x) (hwf : WorkWellFormed f)
    (hfix : FixOK fix) (hne : FixNE fix) :
    ∃ f', parseWork name (format f.syn) fix = .ok f' ∧ workValues f' = workValues f :=
  format_preserves_directives_work_eol name x fix f h (eolCount_syn_of_parseWork name x fix f h hN) hwf hfix hne

end ModVerif.Proofs.ModfileSrc
