/-
  C12 helper lemmas, part 4: the extraction loop after `checkZip` accepted.

  `unzipLoop_exact`: a successful loop performed exactly `MkdirAll(Dir(dst)); create dst` for every file
  entry, in order, each destination once.  `unzipLoop_accepts`: after acceptance (no file entry's element
  list is a prefix of another's) `MkdirAll` never meets a file and `O_EXCL` never meets an existing path,
  so the loop stops only at the first entry whose content disagrees with its declared size.  Core Lean only.
-/
import ModVerif.Proofs.ZipBConfined
import ModVerif.Proofs.ZipSubmodule
namespace ModVerif.Proofs.ZipB
open ModVerif ModVerif.PathClean ModVerif.Zip ModVerif.ZipSpec ModVerif.Proofs.Zip

/-- the two effects of extracting one file entry -/
def fxOf (dir pfx : Bytes) (f : Entry) : List Effect :=
  [.mkdirAll (pathDir (dstOf dir pfx f)), .createExcl (dstOf dir pfx f) (some f.content)]

/-- the effects of extracting the file entries `fs`, in order -/
def expectedFx (dir pfx : Bytes) (fs : List Entry) : List Effect := fs.flatMap (fxOf dir pfx)

theorem createdFiles_append : ∀ (a b : List Effect), createdFiles (a ++ b) = createdFiles a ++ createdFiles b
  | [], _ => rfl
  | .mkdirAll _ :: a, b => by simp [createdFiles, createdFiles_append a b]
  | .createExcl _ _ :: a, b => by simp [createdFiles, createdFiles_append a b]

theorem createdDirs_append : ∀ (a b : List Effect), createdDirs (a ++ b) = createdDirs a ++ createdDirs b
  | [], _ => rfl
  | .mkdirAll _ :: a, b => by simp [createdDirs, createdDirs_append a b]
  | .createExcl _ _ :: a, b => by simp [createdDirs, createdDirs_append a b]

theorem createdFiles_expected (dir pfx : Bytes) : ∀ fs : List Entry,
    createdFiles (expectedFx dir pfx fs) = fs.map (dstOf dir pfx)
  | [] => rfl
  | f :: fs => by
    have ih := createdFiles_expected dir pfx fs
    unfold expectedFx at ih ⊢
    rw [List.flatMap_cons, createdFiles_append, ih]
    rfl

theorem createdDirs_expected (dir pfx : Bytes) : ∀ fs : List Entry,
    createdDirs (expectedFx dir pfx fs) = fs.flatMap (fun f => ancestorsAndSelf (pathDir (dstOf dir pfx f)))
  | [] => rfl
  | f :: fs => by
    have ih := createdDirs_expected dir pfx fs
    unfold expectedFx at ih ⊢
    rw [List.flatMap_cons, createdDirs_append, ih]
    simp [fxOf, createdDirs]

theorem expectedFx_append (dir pfx : Bytes) (a b : List Entry) :
    expectedFx dir pfx (a ++ b) = expectedFx dir pfx a ++ expectedFx dir pfx b := by
  unfold expectedFx; exact List.flatMap_append

/-! ### a successful loop did exactly the expected effects -/

theorem unzipEntry_none {dir pfx : Bytes} {fx fx' : List Effect} {zf : Entry}
    (h : unzipEntry dir pfx fx zf = (fx', none)) :
    fx' = fx ++ fxOf dir pfx zf ∧ dstOf dir pfx zf ∉ createdFiles fx ∧ zf.content.length = zf.declSize := by
  unfold unzipEntry at h
  split at h
  · cases h
  split at h
  · cases h
  · rename_i _ h2
    split at h
    · cases h
    · rename_i h3
      injection h with h _
      refine ⟨h.symm, ?_, by simpa using h3⟩
      intro hm
      apply h2
      rw [createdFiles_append]
      simp [hm]

theorem unzipLoop_exact (dir pfx : Bytes) : ∀ (es : List Entry) (fx : List Effect),
    (unzipLoop dir pfx fx es).2 = none →
    (unzipLoop dir pfx fx es).1 = fx ++ expectedFx dir pfx (fileEntries pfx es) ∧
    ((createdFiles fx).Nodup → (createdFiles (unzipLoop dir pfx fx es).1).Nodup) ∧
    ∀ f ∈ fileEntries pfx es, f.content.length = f.declSize
  | [], fx, _ => by simp [unzipLoop, fileEntries, expectedFx]
  | zf :: es, fx, h => by
    unfold unzipLoop at h ⊢
    by_cases h0 : skipEntry pfx zf = true
    · rw [if_pos h0] at h ⊢
      have hfe : fileEntries pfx (zf :: es) = fileEntries pfx es := by simp [fileEntries, h0]
      rw [hfe]
      exact unzipLoop_exact dir pfx es fx h
    · rw [if_neg h0] at h ⊢
      have h0' : skipEntry pfx zf = false := by simpa using h0
      have hfe : fileEntries pfx (zf :: es) = zf :: fileEntries pfx es := by simp [fileEntries, h0']
      rcases hr : unzipEntry dir pfx fx zf with ⟨fx', err⟩
      rw [hr] at h
      cases err with
      | some e => cases h
      | none =>
        simp only at h ⊢
        obtain ⟨e1, e2, e3⟩ := unzipEntry_none hr
        obtain ⟨i1, i2, i3⟩ := unzipLoop_exact dir pfx es fx' h
        rw [hfe]
        refine ⟨?_, ?_, ?_⟩
        · rw [i1, e1]
          show _ = fx ++ (fxOf dir pfx zf ++ expectedFx dir pfx (fileEntries pfx es))
          simp
        · intro hnd
          apply i2
          rw [e1, createdFiles_append]
          have : createdFiles (fxOf dir pfx zf) = [dstOf dir pfx zf] := rfl
          rw [this]
          refine List.nodup_append.mpr ⟨hnd, by simp, ?_⟩
          intro a ha b hb
          rw [List.mem_singleton.mp hb]
          intro e; rw [e] at ha; exact e2 ha
        · intro f hf
          rcases List.mem_cons.mp hf with rfl | hf
          · exact e3
          · exact i3 f hf

/-- On success, the effects are: create the target, then for every file entry in archive order
    `MkdirAll(Dir(dst))` and the exclusive creation of `dst` with the entry's complete content; the created
    files are the destinations of the file entries, each exactly once. -/
theorem unzip_exact (E : Env) (dir : Bytes) (t : Target) (mpath mvers : Bytes) (zs : Nat) (es : List Entry)
    (h : (unzip E dir t mpath mvers zs es).err = none) :
    (unzip E dir t mpath mvers zs es).effects =
      .mkdirAll dir :: expectedFx dir (zipPrefix mpath mvers) (fileEntries (zipPrefix mpath mvers) es) ∧
    createdFiles (unzip E dir t mpath mvers zs es).effects =
      (fileEntries (zipPrefix mpath mvers) es).map (dstOf dir (zipPrefix mpath mvers)) ∧
    ((fileEntries (zipPrefix mpath mvers) es).map (dstOf dir (zipPrefix mpath mvers))).Nodup := by
  rcases unzip_cases E dir t mpath mvers zs es with ⟨_, h1⟩ | ⟨_, _, cf, _, _, h5, h6⟩
  · exact absurd h h1
  · rw [h6] at h
    obtain ⟨i1, i2, _⟩ := unzipLoop_exact dir _ es _ h
    have hcf : createdFiles (unzip E dir t mpath mvers zs es).effects =
        (fileEntries (zipPrefix mpath mvers) es).map (dstOf dir (zipPrefix mpath mvers)) := by
      rw [h5, i1, createdFiles_append, createdFiles_expected]; rfl
    refine ⟨by rw [h5, i1]; rfl, hcf, ?_⟩
    rw [← hcf, h5]
    exact i2 (by simp [createdFiles])

/-! ### ancestors of a rendered path -/

theorem mem_ancestorsAndSelf (a p : Bytes) : a ∈ ancestorsAndSelf p ↔ a = p ∨ ∃ b, p = a ++ 47 :: b := by
  unfold ancestorsAndSelf
  simp only [List.mem_append, List.mem_map, List.mem_singleton]
  constructor
  · rintro (⟨d, hd, rfl⟩ | h)
    · obtain ⟨a', b, hp, rfl⟩ := (mem_dirPrefixes_iff p d).mp hd
      right; exact ⟨b, by simpa using hp⟩
    · left; exact h
  · rintro (h | ⟨b, hp⟩)
    · right; exact h
    · left; exact ⟨a ++ [47], (mem_dirPrefixes_iff p _).mpr ⟨a, b, hp, rfl⟩, by simp⟩

theorem ancestors_render {r : Bool} {cs : List Bytes} (h : Canon r cs) {a : Bytes}
    (ha : a ∈ ancestorsAndSelf (render r cs)) : a = [] ∨ ∃ k, a = render r (cs.take k) := by
  rcases (mem_ancestorsAndSelf _ _).mp ha with rfl | ⟨b, hp⟩
  · right; exact ⟨cs.length, by rw [List.take_length]⟩
  · cases r with
    | false =>
      by_cases hcs : cs = []
      · subst hcs
        exfalso
        have : (47 : UInt8) ∈ render false [] := by rw [hp]; simp
        revert this; decide
      · rw [render_false_J hcs] at hp
        have hs := congrArg (splitOn 47) hp
        rw [splitOn_J cs hcs (fun c hc => (h.elem c hc).2.2), splitOn_append_sep] at hs
        right
        refine ⟨(splitOn 47 a).length, ?_⟩
        have : cs.take (splitOn 47 a).length = splitOn 47 a := by rw [hs]; exact List.take_left' rfl
        rw [this, render_false_J (splitOn_ne_nil 47 a), J_splitOn]
    | true =>
      cases a with
      | nil => left; rfl
      | cons x a' =>
        right
        have hp' : 47 :: J cs = x :: (a' ++ 47 :: b) := hp
        injection hp' with hx hrest
        subst hx
        by_cases hcs : cs = []
        · subst hcs
          have := congrArg List.length hrest
          simp [J, joinWith] at this
        · have hs := congrArg (splitOn 47) hrest
          rw [splitOn_J cs hcs (fun c hc => (h.elem c hc).2.2), splitOn_append_sep] at hs
          refine ⟨(splitOn 47 a').length, ?_⟩
          have : cs.take (splitOn 47 a').length = splitOn 47 a' := by rw [hs]; exact List.take_left' rfl
          rw [this]
          show 47 :: a' = render true (splitOn 47 a')
          simp [render, J_splitOn]

/-- a canonical path that is an ancestor-or-self of another: its elements are a prefix -/
theorem prefix_of_ancestor {r : Bool} {X Y : List Bytes} (hX : Canon r X) (hY : Canon r Y)
    (h : render r X ∈ ancestorsAndSelf (render r Y)) : X <+: Y := by
  rcases ancestors_render hY h with e | ⟨k, e⟩
  · exact absurd e (render_ne_nil hX)
  · have := render_injective hX (canon_sublist hY (List.take_sublist k Y)) e
    rw [this]; exact List.take_prefix k Y

/-! ### the target directory -/

/-- no ancestor-or-self of the target directory (as `MkdirAll` creates them, from the string `dir`) is the
    destination of an entry.  Fails only for directories written with `..` after a normal element, such
    as `x/y/../..`, where `MkdirAll` creates `x` on its way. -/
def DirSane (dir : Bytes) : Prop := ∀ a ∈ ancestorsAndSelf dir, ∀ n, NormalName n → a ≠ fpJoin dir n

theorem fpJoin_ne_nil (dir : Bytes) {n : Bytes} (h : NormalName n) : fpJoin dir n ≠ [] := by
  rw [fpJoin_eq_render dir h]; exact render_ne_nil (canon_join dir h)

theorem dirSane_nil : DirSane [] := by
  intro a ha n hn e
  have : a = [] := by simpa [ancestorsAndSelf, dirPrefixes, dirPrefixesAux] using ha
  rw [this] at e
  exact fpJoin_ne_nil [] hn e.symm

theorem dirSane_clean {dir : Bytes} (h : pathClean dir = dir) : DirSane dir := by
  intro a ha n hn e
  rw [← h, pathClean_eq_render] at ha
  rw [fpJoin_eq_render dir hn] at e
  rw [e] at ha
  have hp := prefix_of_ancestor (canon_join dir hn) (canon_comps dir) ha
  have := hp.length_le
  have hl : 0 < (splitOn 47 n).length := List.length_pos_iff.mpr (splitOn_ne_nil 47 n)
  rw [List.length_append] at this
  omega

theorem step_length_ge (r : Bool) (st : List Bytes) (c : Bytes) (hc : c ≠ dotdot) :
    st.length ≤ (step r st c).length := by
  unfold step
  have : (c == dotdot) = false := by simpa using hc
  split
  · exact Nat.le_refl _
  split
  · exact Nat.le_refl _
  · simp [this]

theorem foldl_step_length_ge (r : Bool) : ∀ (xs st : List Bytes), dotdot ∉ xs →
    st.length ≤ (xs.foldl (step r) st).length
  | [], _, _ => Nat.le_refl _
  | c :: xs, st, h => by
    have h1 := step_length_ge r st c (fun e => h (by rw [e]; exact List.mem_cons_self))
    have h2 := foldl_step_length_ge r xs (step r st c) (fun hm => h (List.mem_cons_of_mem _ hm))
    exact Nat.le_trans h1 h2

theorem dirSane_noDotDot {dir : Bytes} (h : dotdot ∉ splitOn 47 dir) : DirSane dir := by
  intro a ha n hn e
  have hl : 0 < (splitOn 47 n).length := List.length_pos_iff.mpr (splitOn_ne_nil 47 n)
  rcases (mem_ancestorsAndSelf _ _).mp ha with rfl | ⟨b, hp⟩
  · have := congrArg comps e
    rw [comps_fpJoin a hn] at this
    have := congrArg List.length this
    rw [List.length_append] at this; omega
  · have hane : a ≠ [] := by rw [e]; exact fpJoin_ne_nil dir hn
    have hr : isRooted dir = isRooted a := by rw [hp]; exact isRooted_append_ne_nil _ _ hane
    have hb : dotdot ∉ splitOn 47 b := by
      intro hm; apply h; rw [hp, splitOn_append_sep]; exact List.mem_append_right _ hm
    have hsp : splitOn 47 dir = splitOn 47 a ++ splitOn 47 b := by rw [hp, splitOn_append_sep]
    have hc : comps dir = ((splitOn 47 b).foldl (step (isRooted dir)) (comps a).reverse).reverse := by
      show cleanComps (isRooted dir) (splitOn 47 dir) = _
      rw [hsp, cleanComps_append, hr]; rfl
    have hlen := foldl_step_length_ge (isRooted dir) (splitOn 47 b) (comps a).reverse hb
    have h1 : (comps dir).length = ((splitOn 47 b).foldl (step (isRooted dir)) (comps a).reverse).length := by
      conv => lhs; rw [hc]
      simp
    have h2 : (comps a).length = (comps dir).length + (splitOn 47 n).length := by
      rw [e, comps_fpJoin dir hn, List.length_append]
    rw [List.length_reverse] at hlen
    omega

/-! ### one entry after acceptance -/

/-- neither element list is a prefix of the other -/
def NoPrefix (pfx : Bytes) (f1 f2 : Entry) : Prop :=
  ¬ splitOn 47 (f1.name.drop pfx.length) <+: splitOn 47 (f2.name.drop pfx.length) ∧
  ¬ splitOn 47 (f2.name.drop pfx.length) <+: splitOn 47 (f1.name.drop pfx.length)

/-- what the entry does when nothing is in its way -/
def entryOutcome (dir pfx : Bytes) (fx : List Effect) (zf : Entry) : List Effect × Option UnzipErr :=
  if zf.content.length = zf.declSize then (fx ++ fxOf dir pfx zf, none)
  else (fx ++ [.mkdirAll (pathDir (dstOf dir pfx zf)), .createExcl (dstOf dir pfx zf) none], some .contentSize)

theorem unzipEntry_fits {dir pfx : Bytes} (hdir : DirSane dir) {done : List Entry} {zf : Entry}
    (hdone : ∀ f ∈ done, NormalName (f.name.drop pfx.length)) (hzf : NormalName (zf.name.drop pfx.length))
    (hnp : ∀ f ∈ done, NoPrefix pfx f zf) :
    unzipEntry dir pfx (.mkdirAll dir :: expectedFx dir pfx done) zf =
      entryOutcome dir pfx (.mkdirAll dir :: expectedFx dir pfx done) zf := by
  have hcf : ∀ extra, createdFiles ((.mkdirAll dir :: expectedFx dir pfx done) ++ extra) =
      done.map (dstOf dir pfx) ++ createdFiles extra := by
    intro extra
    rw [createdFiles_append]
    show createdFiles (expectedFx dir pfx done) ++ _ = _
    rw [createdFiles_expected]
  have hcf0 : createdFiles (.mkdirAll dir :: expectedFx dir pfx done) = done.map (dstOf dir pfx) := by
    have := hcf []; simpa [createdFiles] using this
  have hr := isRooted dir
  -- destinations as rendered canonical lists
  have hdst : ∀ f, NormalName (f.name.drop pfx.length) →
      dstOf dir pfx f = render (isRooted dir) (comps dir ++ splitOn 47 (f.name.drop pfx.length)) :=
    fun f hf => fpJoin_eq_render dir hf
  have hpd : ∀ f, NormalName (f.name.drop pfx.length) →
      pathDir (dstOf dir pfx f) =
        render (isRooted dir) (comps dir ++ (splitOn 47 (f.name.drop pfx.length)).dropLast) :=
    fun f hf => pathDir_fpJoin dir hf
  -- (1) MkdirAll(Dir(dst)) meets no file
  have c1 : (ancestorsAndSelf (pathDir (dstOf dir pfx zf))).any
      (fun d => (createdFiles (.mkdirAll dir :: expectedFx dir pfx done)).contains d) = false := by
    rw [List.any_eq_false]
    intro a ha hcon
    rw [hcf0, List.contains_iff_mem] at hcon
    obtain ⟨f, hf, rfl⟩ := List.mem_map.mp hcon
    rw [hpd zf hzf, hdst f (hdone f hf)] at ha
    have hp := prefix_of_ancestor (canon_join dir (hdone f hf)) (canon_join_dropLast dir hzf) ha
    have hp' := (List.prefix_append_right_inj _).mp hp
    exact (hnp f hf).1 (hp'.trans (List.dropLast_prefix _))
  -- (2) dst is not an existing file
  have c2 : (createdFiles ((.mkdirAll dir :: expectedFx dir pfx done) ++
      [.mkdirAll (pathDir (dstOf dir pfx zf))])).contains (dstOf dir pfx zf) = false := by
    rw [hcf]
    simp only [createdFiles, List.append_nil]
    apply Bool.eq_false_iff.mpr
    intro hcon
    rw [List.contains_iff_mem] at hcon
    obtain ⟨f, hf, e⟩ := List.mem_map.mp hcon
    have := fpJoin_injective dir (hdone f hf) hzf e
    exact (hnp f hf).1 (by rw [this]; exact List.prefix_refl _)
  -- (3) dst is not an existing directory
  have c3 : (createdDirs ((.mkdirAll dir :: expectedFx dir pfx done) ++
      [.mkdirAll (pathDir (dstOf dir pfx zf))])).contains (dstOf dir pfx zf) = false := by
    apply Bool.eq_false_iff.mpr
    intro hcon
    rw [List.contains_iff_mem, createdDirs_append] at hcon
    have hcd : createdDirs (.mkdirAll dir :: expectedFx dir pfx done) =
        ancestorsAndSelf dir ++ createdDirs (expectedFx dir pfx done) := rfl
    rw [hcd, createdDirs_expected] at hcon
    simp only [createdDirs, List.append_nil, List.mem_append, List.mem_flatMap] at hcon
    rcases hcon with (hcon | ⟨f, hf, hcon⟩) | hcon
    · exact hdir _ hcon _ hzf rfl
    · rw [hpd f (hdone f hf), hdst zf hzf] at hcon
      have hp := prefix_of_ancestor (canon_join dir hzf) (canon_join_dropLast dir (hdone f hf)) hcon
      have hp' := (List.prefix_append_right_inj _).mp hp
      exact (hnp f hf).2 (hp'.trans (List.dropLast_prefix _))
    · rw [hpd zf hzf, hdst zf hzf] at hcon
      have hp := prefix_of_ancestor (canon_join dir hzf) (canon_join_dropLast dir hzf) hcon
      have hp' := ((List.prefix_append_right_inj _).mp hp).length_le
      have hl : 0 < (splitOn 47 (zf.name.drop pfx.length)).length :=
        List.length_pos_iff.mpr (splitOn_ne_nil 47 _)
      rw [List.length_dropLast] at hp'
      omega
  unfold unzipEntry entryOutcome
  rw [c1, c2, c3]
  simp only [Bool.false_eq_true, if_false, Bool.or_self]
  by_cases hs : zf.content.length = zf.declSize
  · simp [hs, fxOf]
  · simp [hs]

theorem unzipLoop_cons_skip (dir pfx : Bytes) (fx : List Effect) (zf : Entry) (rest : List Entry)
    (h : skipEntry pfx zf = true) : unzipLoop dir pfx fx (zf :: rest) = unzipLoop dir pfx fx rest := by
  rw [unzipLoop]; simp [h]

theorem unzipLoop_cons_some (dir pfx : Bytes) (fx fx' : List Effect) (zf : Entry) (rest : List Entry) (e : UnzipErr)
    (h : skipEntry pfx zf = false) (h2 : unzipEntry dir pfx fx zf = (fx', some e)) :
    unzipLoop dir pfx fx (zf :: rest) = (fx', some e) := by
  rw [unzipLoop]; simp [h, h2]

theorem unzipLoop_cons_none (dir pfx : Bytes) (fx fx' : List Effect) (zf : Entry) (rest : List Entry)
    (h : skipEntry pfx zf = false) (h2 : unzipEntry dir pfx fx zf = (fx', none)) :
    unzipLoop dir pfx fx (zf :: rest) = unzipLoop dir pfx fx' rest := by
  rw [unzipLoop]; simp [h, h2]

/-- `unzipLoop` splits at any point of the entry list -/
theorem unzipLoop_append (dir pfx : Bytes) : ∀ (a b : List Entry) (fx : List Effect),
    unzipLoop dir pfx fx (a ++ b) =
      if (unzipLoop dir pfx fx a).2 = none then unzipLoop dir pfx (unzipLoop dir pfx fx a).1 b
      else unzipLoop dir pfx fx a
  | [], b, fx => by simp [unzipLoop]
  | zf :: a, b, fx => by
    simp only [List.cons_append]
    by_cases h0 : skipEntry pfx zf = true
    · rw [unzipLoop_cons_skip _ _ _ _ _ h0, unzipLoop_cons_skip _ _ _ _ _ h0]
      exact unzipLoop_append dir pfx a b fx
    · have h0' : skipEntry pfx zf = false := by simpa using h0
      rcases hr : unzipEntry dir pfx fx zf with ⟨fx', err⟩
      cases err with
      | some e =>
        rw [unzipLoop_cons_some _ _ _ _ _ _ e h0' hr, unzipLoop_cons_some _ _ _ _ _ _ e h0' hr]; simp
      | none =>
        rw [unzipLoop_cons_none _ _ _ _ _ _ h0' hr, unzipLoop_cons_none _ _ _ _ _ _ h0' hr]
        exact unzipLoop_append dir pfx a b fx'

/-- after acceptance, with honest sizes, the loop performs exactly the expected effects -/
theorem unzipLoop_accepts {dir pfx : Bytes} (hdir : DirSane dir) : ∀ (es done : List Entry),
    (∀ f ∈ done, NormalName (f.name.drop pfx.length)) →
    (∀ f ∈ fileEntries pfx es, NormalName (f.name.drop pfx.length) ∧ f.content.length = f.declSize) →
    (done ++ fileEntries pfx es).Pairwise (NoPrefix pfx) →
    unzipLoop dir pfx (.mkdirAll dir :: expectedFx dir pfx done) es =
      (.mkdirAll dir :: expectedFx dir pfx (done ++ fileEntries pfx es), none)
  | [], done, _, _, _ => by simp [unzipLoop, fileEntries]
  | zf :: es, done, hdone, hes, hpw => by
    unfold unzipLoop
    by_cases h0 : skipEntry pfx zf = true
    · have hfe : fileEntries pfx (zf :: es) = fileEntries pfx es := by simp [fileEntries, h0]
      rw [if_pos h0, hfe]
      rw [hfe] at hes hpw
      exact unzipLoop_accepts hdir es done hdone hes hpw
    · have h0' : skipEntry pfx zf = false := by simpa using h0
      have hfe : fileEntries pfx (zf :: es) = zf :: fileEntries pfx es := by simp [fileEntries, h0']
      rw [if_neg h0, hfe]
      rw [hfe] at hes hpw
      have hzf := hes zf List.mem_cons_self
      have hnp : ∀ f ∈ done, NoPrefix pfx f zf := fun f hf =>
        (List.pairwise_append.mp hpw).2.2 f hf zf List.mem_cons_self
      rw [unzipEntry_fits hdir hdone hzf.1 hnp]
      unfold entryOutcome
      rw [if_pos hzf.2]
      simp only
      have hfx : Effect.mkdirAll dir :: expectedFx dir pfx done ++ fxOf dir pfx zf =
          .mkdirAll dir :: expectedFx dir pfx (done ++ [zf]) := by
        rw [expectedFx_append]; simp [expectedFx]
      rw [hfx]
      have := unzipLoop_accepts hdir es (done ++ [zf])
        (by
          intro f hf
          rcases List.mem_append.mp hf with hf | hf
          · exact hdone f hf
          · rw [List.mem_singleton.mp hf]; exact hzf.1)
        (fun f hf => hes f (List.mem_cons_of_mem _ hf))
        (by simpa using hpw)
      rw [this]
      simp

/-- facts about the file entries of an accepted archive, as the loop lemmas need them -/
theorem accepted_files {E : Env} (hE : CfpSound E.cfp) {mpath mvers : Bytes} {zs : Nat}
    {es : List Entry} {cf : CheckedFiles} (h : checkZip E mpath mvers zs es = .ok cf) (he : cf.err = none) :
    (∀ f ∈ fileEntries (zipPrefix mpath mvers) es, NormalName (f.name.drop (zipPrefix mpath mvers).length)) ∧
    (fileEntries (zipPrefix mpath mvers) es).Pairwise (NoPrefix (zipPrefix mpath mvers)) := by
  obtain ⟨_, _, _, hrun⟩ := checkZip_ok E mpath mvers zs es cf h he
  refine ⟨?_, files_no_prefix hE hrun⟩
  intro f hf
  have hm := List.mem_filter.mp hf
  exact normalName_of_accepted hE h he hm.1 (by simpa using hm.2)

/-- `unzip` once `checkZip` accepted and the target is usable -/
theorem unzip_of_accepted (E : Env) (dir : Bytes) (t : Target) (mpath mvers : Bytes) (zs : Nat) (es : List Entry)
    (cf : CheckedFiles) (ht : t = .missing ∨ t = .emptyDir) (h : checkZip E mpath mvers zs es = .ok cf)
    (he : cf.err = none) :
    unzip E dir t mpath mvers zs es =
      ⟨(unzipLoop dir (zipPrefix mpath mvers) [.mkdirAll dir] es).1,
       (unzipLoop dir (zipPrefix mpath mvers) [.mkdirAll dir] es).2⟩ := by
  unfold unzip
  have h1 : (t == Target.nonEmptyDir) = false := by rcases ht with rfl | rfl <;> rfl
  have h2 : (t == Target.notDir) = false := by rcases ht with rfl | rfl <;> rfl
  simp [h1, h2, h, he]

/-- Acceptance implies success when sizes are honest; the effects are then exactly the expected ones. -/
theorem unzip_accepts (E : Env) (hE : CfpSound E.cfp) (dir : Bytes) (hdir : DirSane dir) (t : Target)
    (mpath mvers : Bytes) (zs : Nat) (es : List Entry) (cf : CheckedFiles)
    (ht : t = .missing ∨ t = .emptyDir) (hon : HonestEntries es)
    (h : checkZip E mpath mvers zs es = .ok cf) (he : cf.err = none) :
    unzip E dir t mpath mvers zs es =
      ⟨.mkdirAll dir :: expectedFx dir (zipPrefix mpath mvers) (fileEntries (zipPrefix mpath mvers) es), none⟩ := by
  rw [unzip_of_accepted E dir t mpath mvers zs es cf ht h he]
  obtain ⟨hn, hpw⟩ := accepted_files hE h he
  have := unzipLoop_accepts (pfx := zipPrefix mpath mvers) hdir es [] (by simp)
    (fun f hf => ⟨hn f hf, hon f (List.mem_filter.mp hf).1⟩) (by simpa using hpw)
  have e0 : (Effect.mkdirAll dir :: expectedFx dir (zipPrefix mpath mvers) []) = [.mkdirAll dir] := rfl
  rw [e0] at this
  rw [this]
  simp

/-- With a lying size: after acceptance the extraction stops exactly at the first file entry whose content
    disagrees with its declared size, after having created that file (content unspecified). -/
theorem unzip_first_liar (E : Env) (hE : CfpSound E.cfp) (dir : Bytes) (hdir : DirSane dir) (t : Target)
    (mpath mvers : Bytes) (zs : Nat) (pre post : List Entry) (zf : Entry) (cf : CheckedFiles)
    (ht : t = .missing ∨ t = .emptyDir) (hon : HonestEntries pre)
    (hzs : skipEntry (zipPrefix mpath mvers) zf = false) (hlie : zf.content.length ≠ zf.declSize)
    (h : checkZip E mpath mvers zs (pre ++ zf :: post) = .ok cf) (he : cf.err = none) :
    unzip E dir t mpath mvers zs (pre ++ zf :: post) =
      ⟨.mkdirAll dir :: expectedFx dir (zipPrefix mpath mvers) (fileEntries (zipPrefix mpath mvers) pre) ++
        [.mkdirAll (pathDir (dstOf dir (zipPrefix mpath mvers) zf)),
         .createExcl (dstOf dir (zipPrefix mpath mvers) zf) none], some .contentSize⟩ := by
  rw [unzip_of_accepted E dir t mpath mvers zs _ cf ht h he]
  obtain ⟨hn, hpw⟩ := accepted_files hE h he
  have hfe : fileEntries (zipPrefix mpath mvers) (pre ++ zf :: post) =
      fileEntries (zipPrefix mpath mvers) pre ++ zf :: fileEntries (zipPrefix mpath mvers) post := by
    simp [fileEntries, List.filter_append, hzs]
  rw [hfe] at hn hpw
  have hpre := unzipLoop_accepts (pfx := zipPrefix mpath mvers) hdir pre [] (by simp)
    (fun f hf => ⟨hn f (List.mem_append_left _ hf), hon f (List.mem_filter.mp hf).1⟩)
    (by simpa using (List.pairwise_append.mp hpw).1)
  have e0 : (Effect.mkdirAll dir :: expectedFx dir (zipPrefix mpath mvers) []) = [.mkdirAll dir] := rfl
  rw [e0] at hpre
  rw [unzipLoop_append, hpre]
  simp only [if_true, List.nil_append]
  unfold unzipLoop
  rw [if_neg (by simp [hzs])]
  rw [unzipEntry_fits hdir (fun f hf => hn f (List.mem_append_left _ hf))
    (hn zf (List.mem_append_right _ List.mem_cons_self))
    (fun f hf => (List.pairwise_append.mp hpw).2.2 f hf zf List.mem_cons_self)]
  unfold entryOutcome
  rw [if_neg hlie]

end ModVerif.Proofs.ZipB
