/-
  Tie proofs for sumdb/note/note.go (Generated/FnNote.lean vs Model/Note.lean), part 3: keyHash and Sign.
  Embeddings of the model's signers and Sign results into the types of the generated code (as in Drv/GenNote.lean,
  op "sign"), binary.BigEndian.PutUint32 / Uint32, the map `have` as an association list, the three loops of Sign
  against the model's `signNew` / `signExisting`, and the whole functions.
-/
import ModVerif.Proofs.TieFnNoteOpen
namespace ModVerif.TieFnNoteSign
open ModVerif ModVerif.GoRt ModVerif.GoRtNote ModVerif.GoRtTile ModVerif.TieFnNote

abbrev GSigner := Generated.Note.Signer

/-! ### embeddings (as in Drv/GenNote.lean, op "sign") -/

/-- the model's signature as the generated `Signature` (uint32 key hash ↦ integer) -/
def gsig (s : Note.Signature) : GSig := { Name := s.name, Hash := Int.ofNat s.hash.toNat, Base64 := s.base64 }

/-- the model's signer as the generated `Signer` interface value: `none` ↦ an error -/
def gsigner (s : Note.Signer) : GSigner :=
  { Name := s.name, KeyHash := Int.ofNat s.hash.toNat,
    Sign := fun m => match s.sign m with | some b => (b, none) | none => ([], some "sign failed") }

/-- the model's note as the generated `Note` -/
def gnote (n : Note.Note) : GNote :=
  { Text := n.text, Sigs := n.sigs.map gsig, UnverifiedSigs := n.unverifiedSigs.map gsig }

/-- the model's result of Sign as the `([]byte, error)` pair of the generated code -/
def embedSign : Except Note.SignErr Bytes → Bytes × Option String
  | .ok m => (m, none)
  | .error .malformed => ([], some "errMalformedNote")
  | .error .invalidSigner => ([], some "errInvalidSigner")
  | .error .signFailed => ([], some "sign failed")

theorem gsig_eq_embedSig : gsig = embedSig := rfl
theorem gnote_eq_embedNote : gnote = embedNote := rfl

/-- the fuel `Sign_tie` needs: one unit per signer / per existing signature, plus the three tests of the outer loop -/
def fuelBound (n : Note.Note) (signers : List Note.Signer) : Nat :=
  n.sigs.length + n.unverifiedSigs.length + signers.length + 3

/-- the key of the map `have` -/
def keyOf (s : Note.Signer) : Bytes × UInt32 := (s.name, s.hash)

/-! ### binary.BigEndian -/

theorem bePut32_hashI (h : UInt32) : bePut32 (List.replicate 4 (0 : UInt8)) (hashI h) = .ok (Note.putU32 h) := by
  have hlt : h.toNat < 4294967296 := h.toNat_lt
  have e : ((hashI h) % 4294967296).toNat = h.toNat := by
    simp only [hashI, Int.ofNat_eq_natCast]; omega
  simp [bePut32, e, Note.putU32]

/-- `binary.BigEndian.Uint32(raw)` on at least four bytes is the model's `be32` -/
theorem beUint32_be32 (a b c d : UInt8) (t : Bytes) :
    ∃ h : UInt32, Note.be32 (a :: b :: c :: d :: t) = some h ∧ beUint32 (a :: b :: c :: d :: t) = .ok (hashI h) :=
  be32_eq a b c d t

theorem beUint32_short (raw : Bytes) (h : raw.length < 4) : beUint32 raw = .error .panic ∧ Note.be32 raw = none := by
  match raw, h with
  | [], _ => exact ⟨rfl, rfl⟩
  | [_], _ => exact ⟨rfl, rfl⟩
  | [_, _], _ => exact ⟨rfl, rfl⟩
  | [_, _, _], _ => exact ⟨rfl, rfl⟩
  | _ :: _ :: _ :: _ :: _, h => simp at h; omega

/-! ### keyHash -/

theorem keyHash_eq (sha : Bytes → Bytes) (name key : Bytes) :
    Generated.Note.keyHash (fun acc pre => pre ++ sha acc) name key =
      match Note.keyHash sha name key with
      | some h => .ok (hashI h)
      | none => .error .panic := by
  simp only [Generated.Note.keyHash, emptyBytesN, Note.keyHash, List.nil_append]
  generalize sha (name ++ [10] ++ key) = sum
  by_cases hl : sum.length < 4
  · obtain ⟨h1, h2⟩ := beUint32_short sum hl
    rw [h1, h2]
  · match sum, hl with
    | a :: b :: c :: d :: t, _ =>
      obtain ⟨h, h1, h2⟩ := beUint32_be32 a b c d t
      rw [h1, h2]
    | [], hl => simp at hl
    | [_], hl => simp at hl
    | [_, _], hl => simp at hl
    | [_, _, _], hl => simp at hl

/-! ### the map `have` -/

/-- the association list `have` agrees with the model's list of (name, hash) pairs -/
def HaveRel (m : List (GNH × Bool)) (l : List (Bytes × UInt32)) : Prop :=
  ∀ (name : Bytes) (h : UInt32), (mapGet m ({ name := name, hash := hashI h } : GNH) false).1 = l.contains (name, h)

theorem HaveRel_nil : HaveRel [] [] := by
  intro name h; rfl

theorem HaveRel_set {m : List (GNH × Bool)} {l : List (Bytes × UInt32)} (hR : HaveRel m l) (name : Bytes) (h : UInt32) :
    HaveRel (mapSet m ({ name := name, hash := hashI h } : GNH) true) (l ++ [(name, h)]) := by
  intro name' h'
  rw [mapGet_mapSet_true, hR name' h']
  have e : decide (({ name := name, hash := hashI h } : GNH) = { name := name', hash := hashI h' }) =
      ((name', h') == (name, h)) := by
    by_cases hn : name = name'
    · by_cases hh : h = h'
      · subst hn; subst hh; simp
      · have : ¬ hashI h = hashI h' := fun e => hh (hashI_inj.mp e)
        have hh' : ¬ h' = h := fun e => hh e.symm
        simp [hn, this, hh']
    · have hn' : ¬ name' = name := fun e => hn e.symm
      simp [hn, hn']
  rw [e]
  by_cases hx : (name', h') = (name, h)
  · simp [hx]
  · have : ((name', h') == (name, h)) = false := by simpa using hx
    rw [this]
    by_cases hm : (name', h') ∈ l <;> simp [hx, hm]

/-! ### first loop: the new signature lines -/

/-- result of the first loop after the prefix `pre` has been processed -/
theorem Sign_loop1_spec (text : Bytes) : ∀ (rest pre : List Note.Signer) (fuel : Nat) (have_ : List (GNH × Bool)) (sigs : Bytes),
    rest.length < fuel → HaveRel have_ (pre.map keyOf) →
    ∃ have' : List (GNH × Bool), HaveRel have' ((pre ++ rest).map keyOf) ∧
      Generated.Note.Sign_loop1 b64decI B64.b64enc isSpaceI ((pre ++ rest).map gsigner) text fuel (pre.length : Int) have_ sigs =
        match Note.signNew text rest with
        | .error e => .ok (Ctl.ret (embedSign (.error e)))
        | .ok r => .ok (Ctl.next ((((pre ++ rest).length : Nat) : Int), have', sigs ++ r))
  | [], pre, fuel + 1, have_, sigs, _, hR => by
    refine ⟨have_, by simpa using hR, ?_⟩
    simp [Generated.Note.Sign_loop1, len, Note.signNew]
  | s :: rest, pre, fuel + 1, have_, sigs, hf, hR => by
    have hlen : ((pre.length : Int) < len ((pre ++ s :: rest).map gsigner)) := by
      simp [len]; omega
    have hidx : idxL ((pre ++ s :: rest).map gsigner) (pre.length : Int) = .ok (gsigner s) := by
      have hk : pre.length < ((pre ++ s :: rest).map gsigner).length := by simp
      rw [idxL_natCast hk]; simp
    have hR' := HaveRel_set hR s.name s.hash
    have hpre : pre.map keyOf ++ [(s.name, s.hash)] = (pre ++ [s]).map keyOf := by simp [keyOf]
    rw [hpre] at hR'
    have hf' : rest.length < fuel := by simp at hf; omega
    obtain ⟨have', hH, hrec⟩ := Sign_loop1_spec text rest (pre ++ [s]) fuel _
      (sigs ++ Note.sigLine s.name (B64.b64enc (Note.putU32 s.hash ++ (match s.sign text with | some b => b | none => [])))) hf' hR'
    have happ : pre ++ [s] ++ rest = pre ++ s :: rest := by simp
    rw [happ] at hH hrec
    refine ⟨have', hH, ?_⟩
    rw [Generated.Note.Sign_loop1]
    have hk : (gsigner s).KeyHash = hashI s.hash := rfl
    have hn : (gsigner s).Name = s.name := rfl
    simp only [hlen, decide_true, if_true, hidx, bind, Except.bind, hn, hk]
    rw [isValidName_eq]
    simp only [Note.signNew]
    by_cases hv : Note.isValidName s.name = true
    · simp only [hv, Bool.not_true, Bool.false_eq_true, if_false]
      cases hs : s.sign text with
      | none =>
        simp [gsigner, hs, embedSign]
      | some sg =>
        have hsg : (gsigner s).Sign text = (sg, none) := by simp [gsigner, hs]
        rw [hs] at hrec
        simp only [hsg, Option.isNone_none, Bool.not_true, Bool.false_eq_true, if_false, bePut32_hashI]
        have hi : ((pre.length : Int) + 1) = ((pre ++ [s]).length : Nat) := by simp
        rw [hi]
        have hs' : sigs ++ [226, 128, 148, 32] ++ s.name ++ [32] ++ B64.b64enc (Note.putU32 s.hash ++ sg) ++ [10] =
            sigs ++ Note.sigLine s.name (B64.b64enc (Note.putU32 s.hash ++ sg)) := by
          simp [Note.sigLine, Note.sigPrefix, List.append_assoc]
        rw [hs', hrec]
        cases Note.signNew text rest with
        | error e => rfl
        | ok r => simp [List.append_assoc]
    · have hv' : Note.isValidName s.name = false := by simpa using hv
      simp [hv', embedSign]

/-! ### inner loop over one list of existing signatures -/

theorem Sign_loop3_spec (have_ : List (GNH × Bool)) (hv : List (Bytes × UInt32)) (hR : HaveRel have_ hv) :
    ∀ (rest pre : List Note.Signature) (fuel : Nat) (buf : Bytes), rest.length < fuel →
      Generated.Note.Sign_loop3 b64decI B64.b64enc isSpaceI have_ ((pre ++ rest).map gsig) fuel (pre.length : Int) buf =
        match Note.signExisting hv rest with
        | .error e => .ok (Ctl.ret (embedSign (.error e)))
        | .ok r => .ok (Ctl.next ((((pre ++ rest).length : Nat) : Int), buf ++ r))
  | [], pre, fuel + 1, buf, _ => by
    simp [Generated.Note.Sign_loop3, len, Note.signExisting]
  | sg :: rest, pre, fuel + 1, buf, hf => by
    have hlen : ((pre.length : Int) < len ((pre ++ sg :: rest).map gsig)) := by
      simp [len]; omega
    have hidx : idxL ((pre ++ sg :: rest).map gsig) (pre.length : Int) = .ok (gsig sg) := by
      have hk : pre.length < ((pre ++ sg :: rest).map gsig).length := by simp
      rw [idxL_natCast hk]; simp
    have hf' : rest.length < fuel := by simp at hf; omega
    have happ : pre ++ [sg] ++ rest = pre ++ sg :: rest := by simp
    have hi : ((pre.length : Int) + 1) = ((pre ++ [sg]).length : Nat) := by simp
    have hrec := fun buf' => Sign_loop3_spec have_ hv hR rest (pre ++ [sg]) fuel buf' hf'
    simp only [happ] at hrec
    rw [Generated.Note.Sign_loop3]
    simp only [hlen, decide_true, if_true, hidx, bind, Except.bind]
    rw [isValidName_eq]
    have hn : (gsig sg).Name = sg.name := rfl
    have hh : (gsig sg).Hash = hashI sg.hash := rfl
    have hb : (gsig sg).Base64 = sg.base64 := rfl
    simp only [hn, hh, hb, Note.signExisting]
    by_cases hvn : Note.isValidName sg.name = true
    · simp only [hvn, Bool.not_true, Bool.false_eq_true, if_false]
      rw [hR sg.name sg.hash]
      by_cases hc : hv.contains (sg.name, sg.hash) = true
      · simp only [hc, if_true]
        rw [hi, hrec]
      · have hc' : hv.contains (sg.name, sg.hash) = false := by simpa using hc
        simp only [hc', Bool.false_eq_true, if_false]
        cases hd : B64.b64dec sg.base64 with
        | none =>
          simp [b64decI, hd, embedSign]
        | some raw =>
          have hdI : b64decI sg.base64 = (raw, none) := by simp [b64decI, hd]
          simp only [hdI, Option.isNone_none, Bool.not_true, Bool.false_or]
          by_cases hl : raw.length < 4
          · have hl' : (len raw < (4 : Int)) := by simp [len]; omega
            simp [hl', hl, embedSign]
          · have hl' : ¬ (len raw < (4 : Int)) := by simp [len]; omega
            simp only [hl', decide_false, Bool.false_eq_true, if_false]
            match raw, hl with
            | a :: b :: c :: d :: t, hl =>
              obtain ⟨h, h1, h2⟩ := beUint32_be32 a b c d t
              rw [h1, h2]
              simp only [pure_eq_ok]
              by_cases he : h = sg.hash
              · subst he
                have hs' : buf ++ [226, 128, 148, 32] ++ sg.name ++ [32] ++ sg.base64 ++ [10] =
                    buf ++ Note.sigLine sg.name sg.base64 := by
                  simp [Note.sigLine, Note.sigPrefix, List.append_assoc]
                have hcond : (decide ((a :: b :: c :: d :: t).length < 4) ||
                    some sg.hash != some sg.hash) = false := by simp
                simp only [decide_true, Bool.not_true, Bool.false_eq_true, if_false, hs', hi, hrec, hcond]
                cases Note.signExisting hv rest with
                | error e => rfl
                | ok r => simp [List.append_assoc]
              · have hne : ¬ hashI h = hashI sg.hash := fun e => he (hashI_inj.mp e)
                have hne' : (some h != some sg.hash) = true := by simpa using he
                simp [hne, hne', embedSign]
            | [], hl => simp at hl
            | [_], hl => simp at hl
            | [_, _], hl => simp at hl
            | [_, _, _], hl => simp at hl
    · have hv' : Note.isValidName sg.name = false := by simpa using hvn
      simp [hv', embedSign]

theorem signExisting_append (hv : List (Bytes × UInt32)) : ∀ (a b : List Note.Signature),
    Note.signExisting hv (a ++ b) =
      match Note.signExisting hv a with
      | .error e => .error e
      | .ok r => match Note.signExisting hv b with
        | .error e => .error e
        | .ok r2 => .ok (r ++ r2)
  | [], b => by
    simp only [List.nil_append, Note.signExisting]
    cases Note.signExisting hv b <;> simp
  | sg :: a, b => by
    simp only [List.cons_append, Note.signExisting]
    rw [signExisting_append hv a b]
    by_cases h1 : Note.isValidName sg.name = true
    · simp only [h1, Bool.not_true, Bool.false_eq_true, if_false]
      by_cases h2 : hv.contains (sg.name, sg.hash) = true
      · simp only [h2, if_true]
      · have h2' : hv.contains (sg.name, sg.hash) = false := by simpa using h2
        simp only [h2', Bool.false_eq_true, if_false]
        cases B64.b64dec sg.base64 with
        | none => rfl
        | some raw =>
          simp only
          by_cases hc : (decide (raw.length < 4) || Note.be32 raw != some sg.hash) = true
          · simp only [hc, if_true]
          · simp only [hc, Bool.false_eq_true, if_false]
            cases Note.signExisting hv a with
            | error e => rfl
            | ok r =>
              simp only
              cases Note.signExisting hv b with
              | error e => rfl
              | ok r2 => simp [List.append_assoc]
    · have h1' : Note.isValidName sg.name = false := by simpa using h1
      simp [h1']

/-! ### outer loop over `[][]Signature{n.Sigs, n.UnverifiedSigs}` -/

theorem Sign_loop2_spec (n : GNote) (have_ : List (GNH × Bool)) (hv : List (Bytes × UInt32)) (hR : HaveRel have_ hv)
    (a b : List Note.Signature) (fuel : Nat) (buf : Bytes) (hf : a.length + b.length + 3 ≤ fuel) :
    Generated.Note.Sign_loop2 b64decI B64.b64enc isSpaceI [a.map gsig, b.map gsig] n have_ fuel 0 buf =
      match Note.signExisting hv (a ++ b) with
      | .error e => .ok (Ctl.ret (embedSign (.error e)))
      | .ok r => .ok (Ctl.next (2, buf ++ r)) := by
  obtain ⟨f, rfl⟩ : ∃ f, fuel = f + 3 := ⟨fuel - 3, by omega⟩
  have h3a := Sign_loop3_spec have_ hv hR a [] (f + 2) buf (by omega)
  have h3b := fun buf' => Sign_loop3_spec have_ hv hR b [] (f + 1) buf' (by omega)
  simp only [List.nil_append, List.length_nil, Int.natCast_zero] at h3a h3b
  rw [signExisting_append]
  rw [Generated.Note.Sign_loop2]
  have i0 : idxL [a.map gsig, b.map gsig] (0 : Int) = .ok (a.map gsig) := rfl
  have l0 : ((0 : Int) < len [a.map gsig, b.map gsig]) := by simp [len]
  simp only [l0, decide_true, if_true, i0, bind, Except.bind, h3a]
  cases Note.signExisting hv a with
  | error e => rfl
  | ok r =>
    simp only
    rw [Generated.Note.Sign_loop2]
    have i1 : idxL [a.map gsig, b.map gsig] ((0 : Int) + 1) = .ok (b.map gsig) := rfl
    have l1 : (((0 : Int) + 1) < len [a.map gsig, b.map gsig]) := by simp [len]
    simp only [l1, decide_true, if_true, i1, bind, Except.bind, h3b]
    cases Note.signExisting hv b with
    | error e => rfl
    | ok r2 =>
      simp only
      rw [Generated.Note.Sign_loop2]
      simp [List.append_assoc]

/-! ### Sign -/

theorem Sign_eq (n : Note.Note) (signers : List Note.Signer) (fuel : Nat) (hf : fuelBound n signers ≤ fuel) :
    Generated.Note.Sign b64decI B64.b64enc isSpaceI fuel (gnote n) (signers.map gsigner) =
      .ok (embedSign (Note.Sign n signers)) := by
  unfold fuelBound at hf
  simp only [Generated.Note.Sign, Note.Sign, hasSuffix, gnote, List.nil_append]
  by_cases hs : hasSuffixB n.text [10] = true
  · simp only [hs, Bool.not_true, Bool.false_eq_true, if_false]
    obtain ⟨have', hH, h1⟩ := Sign_loop1_spec n.text signers [] fuel [] [] (by omega) (by simpa using HaveRel_nil)
    simp only [List.nil_append, List.length_nil, Int.natCast_zero] at h1 hH
    simp only [bind, Except.bind, h1]
    cases Note.signNew n.text signers with
    | error e => rfl
    | ok sigs =>
      simp only
      have h2 := Sign_loop2_spec { Text := n.text, Sigs := n.sigs.map gsig, UnverifiedSigs := n.unverifiedSigs.map gsig }
        have' _ hH n.sigs n.unverifiedSigs fuel (n.text ++ [10]) (by omega)
      rw [h2]
      have hk : signers.map keyOf = signers.map fun s => (s.name, s.hash) := rfl
      rw [hk]
      cases Note.signExisting (signers.map fun s => (s.name, s.hash)) (n.sigs ++ n.unverifiedSigs) with
      | error e => rfl
      | ok ex => simp [embedSign]
  · have hs' : hasSuffixB n.text [10] = false := by simpa using hs
    simp [hs', embedSign]

/-! ### reading results of the generated functions back as model results (for the transported round-trip theorems) -/

theorem gsig_inj {a b : Note.Signature} (h : gsig a = gsig b) : a = b := by
  cases a with | mk an ah ab => cases b with | mk bn bh bb =>
  simp only [gsig, Generated.Note.Signature.mk.injEq] at h
  obtain ⟨h1, h2, h3⟩ := h
  have : ah = bh := hashI_inj.mp h2
  subst h1; subst h3; subst this; rfl

theorem map_gsig_inj : ∀ {a b : List Note.Signature}, a.map gsig = b.map gsig → a = b
  | [], [], _ => rfl
  | [], _ :: _, h => by simp at h
  | _ :: _, [], h => by simp at h
  | x :: a, y :: b, h => by
    simp only [List.map_cons, List.cons.injEq] at h
    rw [gsig_inj h.1, map_gsig_inj h.2]

theorem gnote_inj {a b : Note.Note} (h : gnote a = gnote b) : a = b := by
  cases a with | mk at_ as au => cases b with | mk bt bs bu =>
  simp only [gnote, Generated.Note.Note.mk.injEq] at h
  obtain ⟨h1, h2, h3⟩ := h
  rw [h1, map_gsig_inj h2, map_gsig_inj h3]

theorem embedErr_ne_none (e : Note.OpenErr) : (embedErr e).2 ≠ none := by
  cases e <;> simp [embedErr, errWith]

/-- the generated `Open` returned `(gn, nil)`: the model's `Open` returned a note, and `gn` is its image -/
theorem Open_ok_inv {msg : Bytes} {known : Note.Verifiers} {fuel : Nat} (hf : msg.length + 1 ≤ fuel) {gn : GNote}
    (h : Generated.Note.Open b64decI isSpaceI fuel msg (knownG known) = .ok (gn, none)) :
    ∃ n, Note.Open msg known = .ok n ∧ gn = gnote n := by
  rw [Open_eq msg known fuel hf] at h
  cases ho : Note.Open msg known with
  | ok n =>
    rw [ho] at h
    simp only [embedOpen, Except.ok.injEq, Prod.mk.injEq, and_true] at h
    exact ⟨n, rfl, h.symm⟩
  | error e =>
    rw [ho] at h
    simp only [embedOpen, Except.ok.injEq] at h
    exact absurd (congrArg Prod.snd h) (embedErr_ne_none e)

/-- the generated `Sign` returned `(m, nil)`: the model's `Sign` returned `m` -/
theorem Sign_ok_inv {n : Note.Note} {signers : List Note.Signer} {fuel : Nat} (hf : fuelBound n signers ≤ fuel) {m : Bytes}
    (h : Generated.Note.Sign b64decI B64.b64enc isSpaceI fuel (gnote n) (signers.map gsigner) = .ok (m, none)) :
    Note.Sign n signers = .ok m := by
  rw [Sign_eq n signers fuel hf] at h
  cases hs : Note.Sign n signers with
  | ok m' =>
    rw [hs] at h
    simp only [embedSign, Except.ok.injEq, Prod.mk.injEq, and_true] at h
    rw [h]
  | error e =>
    rw [hs] at h
    cases e <;> simp [embedSign] at h

end ModVerif.TieFnNoteSign
