/-
  Helper lemmas for Tie/FnPrint.lean, part A: the embedding of the hand model's printer state
  (Model/Modfile/Print.lean, `Modfile.Printer`) into the regenerated `printer` struct of print.go
  (Generated/FnPrint.lean), and the simulation of the leaf methods trim, indent, the three "re-indent to margin"
  loops, and tokens.

  The two sides keep the printer state differently: Go appends to a `bytes.Buffer`, the model keeps the output
  REVERSED (`bufRev.head?` is the last byte written); Go's margin is an `int`, the model's a `Nat`; the pending
  end-of-line comments are the same list up to the tree embedding `G.com` of Drv/GenPrint.lean.
-/
import ModVerif.Generated.FnPrint
import ModVerif.Model.Modfile.Print
import ModVerif.Drv.GenPrint
import ModVerif.Proofs.GoRtLemmas
import ModVerif.Proofs.GoRtLemmasPrint
set_option linter.unusedSimpArgs false
set_option linter.unusedVariables false
namespace ModVerif.TieFnPrint
open ModVerif ModVerif.GoRt ModVerif.GoRtPrint ModVerif.Modfile
open ModVerif.Generated.Print
open ModVerif.Drv.GenPrint (G.pos G.com G.coms G.line G.lparen G.rparen G.expr G.file)

/-- decidable equality on generated printer states, so that the non-vacuity examples of the tie theorems close by
    kernel `decide` -/
instance : DecidableEq printer := fun a b =>
  if h : a.Buffer = b.Buffer ∧ a.comment = b.comment ∧ a.margin = b.margin then
    isTrue (by cases a; cases b; simp_all)
  else isFalse (by intro e; subst e; exact h ⟨rfl, rfl, rfl⟩)

/-! ### the embedding of the printer state -/

def emb (mp : Printer) : printer :=
  { Buffer := mp.bufRev.reverse, comment := mp.comment.map G.com, margin := (mp.margin : Int) }

@[simp] theorem emb_Buffer (mp : Printer) : (emb mp).Buffer = mp.bufRev.reverse := rfl
@[simp] theorem emb_comment (mp : Printer) : (emb mp).comment = mp.comment.map G.com := rfl
@[simp] theorem emb_margin (mp : Printer) : (emb mp).margin = (mp.margin : Int) := rfl

theorem emb_default : (default : printer) = emb {} := rfl

/-- `p.printf("%s", s)` -/
theorem emb_write (mp : Printer) (s : Bytes) :
    ({ Buffer := mp.bufRev.reverse ++ s, comment := mp.comment.map G.com, margin := (mp.margin : Int) } : printer)
      = emb (mp.write s) := by
  simp [emb, Printer.write]

theorem emb_writeByte (mp : Printer) (c : UInt8) :
    ({ Buffer := mp.bufRev.reverse ++ [c], comment := mp.comment.map G.com, margin := (mp.margin : Int) } : printer)
      = emb (mp.writeByte c) := by
  simp [emb, Printer.writeByte]

theorem write_singleton (mp : Printer) (c : UInt8) : mp.write [c] = mp.writeByte c := rfl

theorem emb_tabs (mp : Printer) :
    ({ Buffer := mp.bufRev.reverse ++ List.replicate mp.margin 9, comment := mp.comment.map G.com,
       margin := (mp.margin : Int) } : printer) = emb mp.tabs := by
  simp [emb, Printer.tabs]

/-! ### trim -/

def isWs (c : UInt8) : Bool := c == 9 || c == 32

theorem trim_loop (S : Bytes) : ∀ (P : Bytes) (fuel : Nat), S.length + 1 ≤ fuel →
    printer_trim_loop1 ((P ++ S).reverse) fuel (S.length : Int) = .ok (((S.dropWhile isWs).length : Nat) : Int) := by
  induction S with
  | nil =>
    intro P fuel hf
    obtain ⟨f, rfl⟩ : ∃ f, fuel = f + 1 := ⟨fuel - 1, by simp at hf; omega⟩
    simp [printer_trim_loop1]
  | cons c S ih =>
    intro P fuel hf
    obtain ⟨f, rfl⟩ : ∃ f, fuel = f + 1 := ⟨fuel - 1, by simp at hf; omega⟩
    have hf' : S.length + 1 ≤ f := by simp at hf; omega
    have hpos : decide ((((c :: S).length : Nat) : Int) > 0) = true := by simp
    have hsub : (((c :: S).length : Nat) : Int) - 1 = (S.length : Int) := by simp
    rw [printer_trim_loop1]
    simp only [hpos, if_true, hsub, idx_reverse_split, bind_ok, pure_eq_ok]
    have e9 : decide (((c.toNat : Nat) : Int) = 9) = (c == 9) := decide_byte_eq c 9 (by omega)
    have e32 : decide (((c.toNat : Nat) : Int) = 32) = (c == 32) := decide_byte_eq c 32 (by omega)
    by_cases h9 : c = 9
    · subst h9
      have := ih (P ++ [9]) f hf'
      simp only [List.append_assoc, List.singleton_append] at this
      simp [isWs]
      simpa using this
    · by_cases h32 : c = 32
      · subst h32
        have := ih (P ++ [32]) f hf'
        simp only [List.append_assoc, List.singleton_append] at this
        simp [isWs]
        simpa using this
      · have n9 : (c == 9) = false := by simp [h9]
        have n32 : (c == 32) = false := by simp [h32]
        have d9 : decide (((c.toNat : Nat) : Int) = 9) = false := by rw [e9]; exact n9
        have d32 : decide (((c.toNat : Nat) : Int) = 32) = false := by rw [e32]; exact n32
        simp [d9, d32, isWs, n9, n32]

theorem trim_sim (mp : Printer) (fuel : Nat) (hf : mp.bufRev.length + 1 ≤ fuel) :
    printer_trim fuel (emb mp) = .ok ((), emb mp.trim) := by
  unfold printer_trim
  have h := trim_loop mp.bufRev [] fuel hf
  simp only [List.nil_append] at h
  have hl : len (List.reverse mp.bufRev) = (mp.bufRev.length : Int) := by simp [len_eq]
  simp only [emb_Buffer, hl, h, bind_ok, sliceTo_reverse_dropWhile, pure_eq_ok]
  rfl

/-! ### indent -/

theorem indent_loop (S : Bytes) : ∀ (P : Bytes) (fuel : Nat), S.length + 1 ≤ fuel →
    printer_indent_loop1 ((P ++ S).reverse) fuel (P.length : Int)
      = .ok (((P.length + (S.takeWhile (· != 10)).length : Nat)) : Int) := by
  induction S with
  | nil =>
    intro P fuel hf
    obtain ⟨f, rfl⟩ : ∃ f, fuel = f + 1 := ⟨fuel - 1, by simp at hf; omega⟩
    simp [printer_indent_loop1, len_eq]
  | cons c S ih =>
    intro P fuel hf
    obtain ⟨f, rfl⟩ : ∃ f, fuel = f + 1 := ⟨fuel - 1, by simp at hf; omega⟩
    have hf' : S.length + 1 ≤ f := by simp at hf; omega
    have hlt : decide ((P.length : Int) < len ((P ++ c :: S).reverse)) = true := by simp [len_eq]; omega
    have hsub : len ((P ++ c :: S).reverse) - 1 - (P.length : Int) = (S.length : Int) := by
      simp [len_eq]; omega
    rw [printer_indent_loop1]
    simp only [hlt, if_true, hsub, idx_reverse_split, bind_ok, pure_eq_ok]
    have e10 : decide (((c.toNat : Nat) : Int) = 10) = (c == 10) := decide_byte_eq c 10 (by omega)
    by_cases h10 : c = 10
    · subst h10
      simp
    · have n10 : (c == 10) = false := by simp [h10]
      have d10 : decide (((c.toNat : Nat) : Int) = 10) = false := by rw [e10]; exact n10
      have := ih (P ++ [c]) f hf'
      simp only [List.append_assoc, List.singleton_append, List.length_append, List.length_singleton] at this
      have hc : ((P.length : Int) + 1) = ((P.length + 1 : Nat) : Int) := by omega
      simp only [d10, Bool.not_false, if_true, hc, this]
      simp [h10]
      omega

theorem indent_sim (mp : Printer) (fuel : Nat) (hf : mp.bufRev.length + 1 ≤ fuel) :
    printer_indent fuel (emb mp) = .ok (mp.indent : Int) := by
  unfold printer_indent
  have h := indent_loop mp.bufRev [] fuel hf
  simp only [List.nil_append, List.length_nil, Nat.zero_add] at h
  simp only [emb_Buffer]
  have : ((0 : Nat) : Int) = (0 : Int) := rfl
  rw [this] at h
  simp only [h, bind_ok, pure_eq_ok]
  rfl

/-! ### `for i := 0; i < p.margin; i++ { p.printf("\t") }` (three copies in the generated code) -/

theorem tabs_generic (L : Nat → printer → Int → M (printer × Int))
    (hs : ∀ fuel p i, L (fuel + 1) p i =
      if (decide (i < p.margin)) then L fuel { p with Buffer := p.Buffer ++ ([9] : Bytes) } (i + 1) else pure (p, i)) :
    ∀ (n fuel : Nat) (gp : printer) (i : Int), i ≤ gp.margin → (gp.margin - i).toNat = n → n + 1 ≤ fuel →
      L fuel gp i = .ok ({ gp with Buffer := gp.Buffer ++ List.replicate n 9 }, gp.margin) := by
  intro n
  induction n with
  | zero =>
    intro fuel gp i hi hn hf
    obtain ⟨f, rfl⟩ : ∃ f, fuel = f + 1 := ⟨fuel - 1, by omega⟩
    have : i = gp.margin := by omega
    subst this
    rw [hs]
    simp
  | succ n ih =>
    intro fuel gp i hi hn hf
    obtain ⟨f, rfl⟩ : ∃ f, fuel = f + 1 := ⟨fuel - 1, by omega⟩
    have hlt : i < gp.margin := by omega
    rw [hs]
    simp only [hlt, decide_true, if_true]
    rw [ih f _ (i + 1) (by simp; omega) (by simp; omega) (by omega)]
    simp [List.replicate_succ]

theorem tabs_sim (L : Nat → printer → Int → M (printer × Int))
    (hs : ∀ fuel p i, L (fuel + 1) p i =
      if (decide (i < p.margin)) then L fuel { p with Buffer := p.Buffer ++ ([9] : Bytes) } (i + 1) else pure (p, i))
    (mp : Printer) (fuel : Nat) (hf : mp.margin + 1 ≤ fuel) :
    L fuel (emb mp) 0 = .ok (emb mp.tabs, (mp.margin : Int)) := by
  rw [tabs_generic L hs mp.margin fuel (emb mp) 0 (by simp) (by simp) hf]
  simp [emb, Printer.tabs]

theorem newline_loop1_sim (mp : Printer) (fuel : Nat) (hf : mp.margin + 1 ≤ fuel) :
    printer_newline_loop1 fuel (emb mp) 0 = .ok (emb mp.tabs, (mp.margin : Int)) :=
  tabs_sim printer_newline_loop1 (by intro fuel p i; rw [printer_newline_loop1]) mp fuel hf

theorem newline_loop3_sim (mp : Printer) (fuel : Nat) (hf : mp.margin + 1 ≤ fuel) :
    printer_newline_loop3 fuel (emb mp) 0 = .ok (emb mp.tabs, (mp.margin : Int)) :=
  tabs_sim printer_newline_loop3 (by intro fuel p i; rw [printer_newline_loop3]) mp fuel hf

theorem expr_loop2_sim (mp : Printer) (fuel : Nat) (hf : mp.margin + 1 ≤ fuel) :
    printer_expr_loop2 fuel (emb mp) 0 = .ok (emb mp.tabs, (mp.margin : Int)) :=
  tabs_sim printer_expr_loop2 (by intro fuel p i; rw [printer_expr_loop2]) mp fuel hf

/-! ### tokens -/

theorem tokens_loop (rest : List Bytes) : ∀ (pre : List Bytes) (fuel : Nat) (sep : Bytes) (mp : Printer),
    rest.length + 1 ≤ fuel →
    ∃ r s, printer_tokens_loop1 (pre ++ rest) fuel (pre.length : Int) sep (emb mp)
      = .ok (r, s, emb (Printer.tokensAux mp rest sep)) := by
  induction rest with
  | nil =>
    intro pre fuel sep mp hf
    obtain ⟨f, rfl⟩ : ∃ f, fuel = f + 1 := ⟨fuel - 1, by simp at hf; omega⟩
    rw [printer_tokens_loop1]
    simp only [range_cond_false, Bool.false_eq_true, if_false, pure_eq_ok, Printer.tokensAux]
    exact ⟨_, _, rfl⟩
  | cons t rest ih =>
    intro pre fuel sep mp hf
    obtain ⟨f, rfl⟩ : ∃ f, fuel = f + 1 := ⟨fuel - 1, by simp at hf; omega⟩
    have hf' : rest.length + 1 ≤ f := by simp at hf; omega
    rw [printer_tokens_loop1]
    simp only [range_cond_true, if_true, idxL_append_length, bind_ok, Printer.tokensAux]
    have hpre : pre ++ t :: rest = (pre ++ [t]) ++ rest := by simp
    rw [hpre, range_next pre t]
    have hb : ((((decide (t = ([44] : Bytes))) || (decide (t = ([41] : Bytes)))) || (decide (t = ([93] : Bytes))))
        || (decide (t = ([125] : Bytes)))) = Printer.noSepBefore.contains t := by
      simp [Printer.noSepBefore, Bool.or_assoc]
    have ha : (((decide (t = ([40] : Bytes))) || (decide (t = ([91] : Bytes)))) || (decide (t = ([123] : Bytes))))
        = Printer.noSepAfter.contains t := by
      simp [Printer.noSepAfter, Bool.or_assoc]
    rw [hb, ha]
    have hw : ∀ s : Bytes,
        ({ Buffer := (emb mp).Buffer ++ (s ++ t), comment := (emb mp).comment, margin := (emb mp).margin } : printer)
          = emb ((mp.write s).write t) := by
      intro s; simp [emb, Printer.write]
    cases h1 : Printer.noSepBefore.contains t <;> cases h2 : Printer.noSepAfter.contains t <;>
      simp only [if_true, if_false, Bool.false_eq_true, hw] <;> exact ih _ f _ _ hf'

theorem tokens_sim (mp : Printer) (ts : List Bytes) (fuel : Nat) (hf : ts.length + 1 ≤ fuel) :
    printer_tokens fuel (emb mp) ts = .ok ((), emb (mp.tokens ts)) := by
  unfold printer_tokens
  obtain ⟨r, s, h⟩ := tokens_loop ts [] fuel [] mp hf
  simp only [List.nil_append, List.length_nil] at h
  have : ((0 : Nat) : Int) = (0 : Int) := rfl
  rw [this] at h
  simp only [h, bind_ok, pure_eq_ok]
  rfl

end ModVerif.TieFnPrint
