/-
  Helper lemmas for Tie/FnPrint.lean, part A: the embedding of the hand model's printer state
  (Model/Modfile/Print.lean, `Modfile.Printer`) into the regenerated `printer` struct of print.go
  (Generated/FnPrint.lean), and the simulation of the leaf methods trim, indent, the three "re-indent to margin"
  loops, and tokens.

  The two sides keep the printer state differently: Go appends to a `bytes.Buffer`, the model keeps the output
  REVERSED (`bufRev.head?` is the last byte written); Go's margin is an `int`, the model's a `Nat`; the pending
  end-of-line comments are the same list up to the tree embedding `G.com` of Drv/GenPrint.lean.
-/
import ModVerif.Generated.FnPrint
import ModVerif.Model.Modfile.Print
import ModVerif.Drv.GenPrint
import ModVerif.Proofs.GoRtLemmas
import ModVerif.Proofs.GoRtLemmasPrint
set_option linter.unusedSimpArgs false
set_option linter.unusedVariables false
namespace ModVerif.TieFnPrint
open ModVerif ModVerif.GoRt ModVerif.GoRtPrint ModVerif.Modfile
open ModVerif.Generated.Print
open ModVerif.Drv.GenPrint (G.pos G.com G.coms G.line G.lparen G.rparen G.expr G.file)

/-! ### the embedding of the printer state -/

def emb (mp : Printer) : printer :=
  { Buffer := mp.bufRev.reverse, comment := mp.comment.map G.com, margin := (mp.margin : Int) }

@[simp] theorem emb_Buffer (mp : Printer) : (emb mp).Buffer = mp.bufRev.reverse := rfl
@[simp] theorem emb_comment (mp : Printer) : (emb mp).comment = mp.comment.map G.com := rfl
@[simp] theorem emb_margin (mp : Printer) : (emb mp).margin = (mp.margin : Int) := rfl

theorem emb_default : (default : printer) = emb {} := rfl

/-- `p.printf("%s", s)` -/
theorem emb_write (mp : Printer) (s : Bytes) :
    ({ Buffer := mp.bufRev.reverse ++ s, comment := mp.comment.map G.com, margin := (mp.margin : Int) } : printer)
      = emb (mp.write s) := by
  simp [emb, Printer.write]

theorem emb_writeByte (mp : Printer) (c : UInt8) :
    ({ Buffer := mp.bufRev.reverse ++ [c], comment := mp.comment.map G.com, margin := (mp.margin : Int) } : printer)
      = emb (mp.writeByte c) := by
  simp [emb, Printer.writeByte]

theorem write_singleton (mp : Printer) (c : UInt8) : mp.write [c] = mp.writeByte c := rfl

theorem emb_tabs (mp : Printer) :
    ({ Buffer := mp.bufRev.reverse ++ List.replicate mp.margin 9, comment := mp.comment.map G.com,
       margin := (mp.margin : Int) } : printer) = emb mp.tabs := by
  simp [emb, Printer.tabs]

/-! ### trim -/

def isWs (c : UInt8) : Bool := c == 9 || c == 32

theorem trim_loop (S : Bytes) : ∀ (P : Bytes) (fuel : Nat), S.length + 1 ≤ fuel →
    printer_trim_loop1 ((P ++ S).reverse) fuel (S.length : Int) = .ok (((S.dropWhile isWs).length : Nat) : Int) := by
  induction S with
  | nil =>
    intro P fuel hf
    obtain ⟨f, rfl⟩ : ∃ f, fuel = f + 1 := ⟨fuel - 1, by simp at hf; omega⟩
    simp [printer_trim_loop1]
  | cons c S ih =>
    intro P fuel hf
    obtain ⟨f, rfl⟩ : ∃ f, fuel = f + 1 := ⟨fuel - 1, by simp at hf; omega⟩
    have hf' : S.length + 1 ≤ f := by simp at hf; omega
    have hpos : decide ((((c :: S).length : Nat) : Int) > 0) = true := by simp; omega
    have hsub : (((c :: S).length : Nat) : Int) - 1 = (S.length : Int) := by simp
    rw [printer_trim_loop1]
    simp only [hpos, if_true, hsub, idx_reverse_split, bind_ok, pure_eq_ok]
    have e9 := decide_byte_eq c 9 (by omega)
    have e32 := decide_byte_eq c 32 (by omega)
    simp only [Nat.cast_ofNat] at e9 e32
    by_cases h9 : c = 9
    · subst h9
      have := ih (P ++ [9]) f hf'
      simp only [List.append_assoc, List.singleton_append] at this
      simp [this, isWs]
    · by_cases h32 : c = 32
      · subst h32
        have := ih (P ++ [32]) f hf'
        simp only [List.append_assoc, List.singleton_append] at this
        simp [this, isWs]
      · have n9 : (c == 9) = false := by simp [h9]
        have n32 : (c == 32) = false := by simp [h32]
        have d9 : decide (((c.toNat : Nat) : Int) = 9) = false := by rw [e9]; exact n9
        have d32 : decide (((c.toNat : Nat) : Int) = 32) = false := by rw [e32]; exact n32
        simp [d9, d32, isWs, n9, n32]

theorem trim_sim (mp : Printer) (fuel : Nat) (hf : mp.bufRev.length + 1 ≤ fuel) :
    printer_trim fuel (emb mp) = .ok ((), emb mp.trim) := by
  unfold printer_trim
  have h := trim_loop mp.bufRev [] fuel hf
  simp only [List.nil_append] at h
  have hl : len (emb mp).Buffer = (mp.bufRev.length : Int) := by simp [len_eq]
  simp only [hl, emb_Buffer, h, bind_ok, sliceTo_reverse_dropWhile, pure_eq_ok]
  rfl

/-! ### indent -/

theorem indent_loop (S : Bytes) : ∀ (P : Bytes) (fuel : Nat), S.length + 1 ≤ fuel →
    printer_indent_loop1 ((P ++ S).reverse) fuel (P.length : Int)
      = .ok (((P.length + (S.takeWhile (· != 10)).length : Nat)) : Int) := by
  induction S with
  | nil =>
    intro P fuel hf
    obtain ⟨f, rfl⟩ : ∃ f, fuel = f + 1 := ⟨fuel - 1, by simp at hf; omega⟩
    simp [printer_indent_loop1, len_eq]
  | cons c S ih =>
    intro P fuel hf
    obtain ⟨f, rfl⟩ : ∃ f, fuel = f + 1 := ⟨fuel - 1, by simp at hf; omega⟩
    have hf' : S.length + 1 ≤ f := by simp at hf; omega
    have hlt : decide ((P.length : Int) < len ((P ++ c :: S).reverse)) = true := by simp [len_eq]; omega
    have hsub : len ((P ++ c :: S).reverse) - 1 - (P.length : Int) = (S.length : Int) := by
      simp [len_eq]; omega
    rw [printer_indent_loop1]
    simp only [hlt, if_true, hsub, idx_reverse_split, bind_ok, pure_eq_ok]
    have e10 := decide_byte_eq c 10 (by omega)
    simp only [Nat.cast_ofNat] at e10
    by_cases h10 : c = 10
    · subst h10
      simp
    · have n10 : (c == 10) = false := by simp [h10]
      have d10 : decide (((c.toNat : Nat) : Int) = 10) = false := by rw [e10]; exact n10
      have := ih (P ++ [c]) f hf'
      simp only [List.append_assoc, List.singleton_append, List.length_append, List.length_singleton] at this
      have hc : ((P.length : Int) + 1) = ((P.length + 1 : Nat) : Int) := by omega
      simp only [d10, Bool.not_false, if_true, hc, this]
      simp [h10]
      omega

theorem indent_sim (mp : Printer) (fuel : Nat) (hf : mp.bufRev.length + 1 ≤ fuel) :
    printer_indent fuel (emb mp) = .ok (mp.indent : Int) := by
  unfold printer_indent
  have h := indent_loop mp.bufRev [] fuel hf
  simp only [List.nil_append, List.length_nil, Nat.zero_add] at h
  simp only [emb_Buffer]
  have : ((0 : Nat) : Int) = (0 : Int) := rfl
  rw [this] at h
  simp only [h, bind_ok, pure_eq_ok]
  rfl

end ModVerif.TieFnPrint
