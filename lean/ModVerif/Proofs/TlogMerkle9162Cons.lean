/-
  C03: RFC 9162 §2.1.4.2 (`RFC6962.verifyConsistency`) accepts exactly the tuples accepted by
  recomputation of both roots along the RFC 6962 SUBPROOF recursion (`AcceptCons`).
  Same method as for inclusion (Proofs/TlogMerkle9162.lean): forward simulation of the bottom-up loop
  over the top-down recursion, for complete subtrees embedded with `a < b` (`cons_complete`) and for
  subtrees on the right spine (`cons_spine`).  The loop starts at the node where SUBPROOF stops:
  level `s` with `m = (2u+1)·2^s` (`Tz m s`), reached by "shift while fn is odd".
-/
import ModVerif.Spec.RFC6962
import ModVerif.Proofs.TlogMerkleSpec
import ModVerif.Proofs.TlogMerkle9162
namespace ModVerif.RFC6962

/-! ### arithmetic helpers -/

/-- `s` is the number of trailing zero bits of `m` -/
def Tz (m s : Nat) : Prop := ∃ u, m = (2 * u + 1) * 2 ^ s

def Pow2 (m : Nat) : Prop := ∃ s, m = 2 ^ s

theorem exists_tz : ∀ m, 1 ≤ m → ∃ s, Tz m s := by
  intro m
  induction m using Nat.strongRecOn with
  | _ m ih =>
    intro hm
    by_cases hodd : m % 2 = 1
    · exact ⟨0, m / 2, by simp; omega⟩
    · obtain ⟨s, u, hu⟩ := ih (m / 2) (by omega) (by omega)
      refine ⟨s + 1, u, ?_⟩
      have : m = 2 * (m / 2) := by omega
      rw [this, hu, Nat.pow_succ]; ac_rfl

theorem tz_of_pow_eq {M s : Nat} (h : Tz (2 ^ M) s) : s = M := by
  obtain ⟨u, hu⟩ := h
  have hle : s ≤ M := by
    apply Classical.byContradiction
    intro hc
    have h1 : 2 ^ M < 2 ^ s := Nat.pow_lt_pow_right (by omega) (by omega)
    have h2 : 2 ^ s ≤ (2 * u + 1) * 2 ^ s := Nat.le_mul_of_pos_left _ (by omega)
    omega
  have h3 : 2 ^ M = 2 ^ (M - s) * 2 ^ s := by rw [← Nat.pow_add]; congr 1; omega
  rw [h3] at hu
  have h4 := Nat.eq_of_mul_eq_mul_right (Nat.two_pow_pos s) hu
  cases hd : M - s with
  | zero => omega
  | succ d => rw [hd, Nat.pow_succ] at h4; omega

theorem tz_sub {m s M : Nat} (h : Tz m s) (h1 : 2 ^ M < m) (h2 : m < 2 ^ (M + 1)) : Tz (m - 2 ^ M) s := by
  obtain ⟨u, hu⟩ := h
  have hK := Nat.two_pow_pos M
  have hP := Nat.two_pow_pos s
  have hlt : s < M := by
    apply Classical.byContradiction
    intro hc
    obtain ⟨q, hq⟩ : 2 ^ M ∣ m := by
      rw [hu]; exact Nat.dvd_trans (Nat.pow_dvd_pow 2 (by omega : M ≤ s)) (Nat.dvd_mul_left _ _)
    rw [hq, Nat.pow_succ] at h2
    rw [hq] at h1
    have a1 : 1 < q := by
      have : 2 ^ M * 1 < 2 ^ M * q := by omega
      exact Nat.lt_of_mul_lt_mul_left this
    have a2 : q < 2 := Nat.lt_of_mul_lt_mul_left h2
    omega
  have hKP : 2 ^ M = 2 * 2 ^ (M - s - 1) * 2 ^ s := by
    have : M = (M - s - 1) + 1 + s := by omega
    conv => lhs; rw [this]
    rw [Nat.pow_add, Nat.pow_succ]; ac_rfl
  have hv : 2 * 2 ^ (M - s - 1) < 2 * u + 1 := by
    rw [hu, hKP] at h1
    exact Nat.lt_of_mul_lt_mul_right h1
  refine ⟨u - 2 ^ (M - s - 1), ?_⟩
  have e : 2 * u + 1 = 2 * 2 ^ (M - s - 1) + (2 * (u - 2 ^ (M - s - 1)) + 1) := by omega
  rw [hu, hKP, e, Nat.add_mul]; omega

theorem no_pow2_between {m M : Nat} (h1 : 2 ^ M < m) (h2 : m < 2 ^ (M + 1)) : ¬ Pow2 m := by
  rintro ⟨s, rfl⟩
  have a := (Nat.pow_lt_pow_iff_right (by omega : 1 < 2)).mp h1
  have b := (Nat.pow_lt_pow_iff_right (by omega : 1 < 2)).mp h2
  omega

theorem add_mul_div_pow (x a M : Nat) (h : x < 2 ^ M) : (x + a * 2 ^ M) / 2 ^ M = a := by
  rw [Nat.add_mul_div_right _ _ (Nat.two_pow_pos M), Nat.div_eq_of_lt h]; omega

/-- "right-shift both until LSB(fn) is not set", when `fn` ends in exactly `s` one bits -/
theorem shiftWhileOdd_spec : ∀ s f u sn, s ≤ f →
    shiftWhileOdd f (2 ^ s - 1 + 2 ^ (s + 1) * u) sn = (2 * u, sn / 2 ^ s) := by
  intro s
  induction s with
  | zero =>
    intro f u sn _
    cases f with
    | zero => simp [shiftWhileOdd]
    | succ f =>
      unfold shiftWhileOdd
      rw [if_neg (by simp)]
      simp
  | succ s ih =>
    intro f u sn hf
    cases f with
    | zero => omega
    | succ f =>
      have hP := Nat.two_pow_pos s
      have e1 : 2 ^ (s + 1) = 2 * 2 ^ s := by rw [Nat.pow_succ]; omega
      have e2 : 2 ^ (s + 1 + 1) * u = 2 * (2 ^ (s + 1) * u) := by
        rw [show s + 1 + 1 = (s + 1) + 1 from rfl, Nat.pow_succ 2 (s + 1)]; ac_rfl
      unfold shiftWhileOdd
      rw [if_pos (by rw [e2, e1]; omega)]
      have e3 : (2 ^ (s + 1) - 1 + 2 ^ (s + 1 + 1) * u) / 2 = 2 ^ s - 1 + 2 ^ (s + 1) * u := by
        rw [e2, e1]; omega
      rw [e3, ih f u (sn / 2) (by omega), Nat.div_div_eq_div_mul, ← Nat.pow_succ']

section
variable {H : Type} [DecidableEq H] (node : H → H → H)

/-! ### the seed of the loop -/

/-- how the top-down recursion with flag `b` and the loop agree on the starting hash `x`: for `b = true` it is the
    claimed old root and the whole proof is consumed by the loop; for `b = false` it is the first proof hash -/
def Seeded (b : Bool) (old : H) (p1 : List H) (x : H) (p1' : List H) : Prop :=
  (b = true ∧ x = old ∧ p1' = p1) ∨ (b = false ∧ p1 = x :: p1')

omit [DecidableEq H] in
theorem Seeded.snoc {b : Bool} {old : H} {ys : List H} {x : H} {ys' : List H} (h : Seeded b old ys x ys') (last : H) :
    Seeded b old (ys ++ [last]) x (ys' ++ [last]) := by
  rcases h with ⟨h1, h2, h3⟩ | ⟨h1, h2⟩
  · exact Or.inl ⟨h1, h2, by rw [h3]⟩
  · exact Or.inr ⟨h1, by rw [h2]; rfl⟩

/-! ### the loop -/

theorem consLoop_spine_step (q : H) (qs : List H) (o e : Nat) (fr sr : H) (ho : o % 2 = 1) :
    consLoop node (q :: qs) (o * 2 ^ e) (o * 2 ^ e) fr sr =
      consLoop node qs (o / 2) (o / 2) (node q fr) (node q sr) := by
  have hpos := Nat.two_pow_pos e
  have hne : o * 2 ^ e ≠ 0 := Nat.ne_of_gt (Nat.mul_pos (by omega) hpos)
  conv => lhs; rw [consLoop]
  rw [if_neg hne, if_pos (Or.inr rfl)]
  by_cases hev : (o * 2 ^ e) % 2 = 0
  · rw [if_pos hev, shiftUntil_odd_pow e _ o ho (Nat.le_of_lt (Nat.lt_of_lt_of_le Nat.lt_two_pow_self
      (Nat.le_mul_of_pos_left _ (by omega))))]
  · rw [if_neg hev]
    cases e with
    | zero => simp
    | succ e => exfalso; apply hev; rw [Nat.pow_succ, ← Nat.mul_assoc]; omega

/-- base of the recursion inside a complete subtree: `m = 2^M` -/
theorem cons_base (M f : Nat) (p1 : List H) (b' : Bool) (old o r : H) (a b s0 s : Nat) (hs0 : s0 < 2 ^ M)
    (htz : Tz (2 ^ M) s) (hacc : consRootsF node (f + 1) p1 (2 ^ M) (2 ^ M) b' old = some (o, r)) :
    ∃ x p1', Seeded b' old p1 x p1' ∧ ∀ rest,
      consLoop node (p1' ++ rest) ((2 ^ M - 1 + a * 2 ^ M) / 2 ^ s) ((s0 + b * 2 ^ M) / 2 ^ s) x x =
        consLoop node rest a b o r := by
  have hs : s = M := tz_of_pow_eq htz
  subst hs
  have hK := Nat.two_pow_pos s
  rw [add_mul_div_pow _ a s (by omega), add_mul_div_pow _ b s hs0]
  unfold consRootsF at hacc
  simp only [↓reduceIte] at hacc
  cases b' with
  | true =>
    simp only [↓reduceIte] at hacc
    cases p1 with
    | nil =>
      simp at hacc
      exact ⟨old, [], Or.inl ⟨rfl, rfl, rfl⟩, fun rest => by simp [← hacc.1, ← hacc.2]⟩
    | cons y ys => simp at hacc
  | false =>
    simp only [Bool.false_eq_true, ↓reduceIte] at hacc
    match p1, hacc with
    | [x], hacc =>
      simp at hacc
      exact ⟨x, [], Or.inr ⟨rfl, rfl⟩, fun rest => by simp [← hacc.1, ← hacc.2]⟩

/-- complete subtree of size `2^M` with old part `m'`, embedded with `a < b`: from the node where SUBPROOF stops the
    loop consumes exactly the subtree's part of the proof and leaves `(a, b)` with the two recomputed roots -/
theorem cons_complete : ∀ M f (p1 : List H) m' b' old o r a b s0 s, 2 ^ M ≤ f → 1 ≤ m' → m' ≤ 2 ^ M → s0 < 2 ^ M →
    a < b → Tz m' s → (b' = true → Pow2 m') → consRootsF node f p1 (2 ^ M) m' b' old = some (o, r) →
    ∃ x p1', Seeded b' old p1 x p1' ∧ ∀ rest,
      consLoop node (p1' ++ rest) ((m' - 1 + a * 2 ^ M) / 2 ^ s) ((s0 + b * 2 ^ M) / 2 ^ s) x x =
        consLoop node rest a b o r := by
  intro M
  induction M with
  | zero =>
    intro f p1 m' b' old o r a b s0 s hf hm1 hm2 hs0 hab htz hb hacc
    have : m' = 2 ^ 0 := by simp at hm2; omega
    subst this
    cases f with
    | zero => simp at hf
    | succ f => exact cons_base node 0 f p1 b' old o r a b s0 s hs0 htz hacc
  | succ M ih =>
    intro f p1 m' b' old o r a b s0 s hf hm1 hm2 hs0 hab htz hb hacc
    have hK := Nat.two_pow_pos M
    have hpow : 2 ^ (M + 1) = 2 * 2 ^ M := by rw [Nat.pow_succ]; omega
    cases f with
    | zero => omega
    | succ f =>
      by_cases hmt : m' = 2 ^ (M + 1)
      · subst hmt
        exact cons_base node (M + 1) f p1 b' old o r a b s0 s hs0 htz hacc
      · unfold consRootsF at hacc
        rw [if_neg hmt] at hacc
        cases hp : p1.getLast? with
        | none => rw [hp] at hacc; cases hacc
        | some last =>
          rw [hp] at hacc
          simp only [splitPoint_two_pow] at hacc
          obtain ⟨ys, rfl⟩ := List.getLast?_eq_some_iff.mp hp
          simp only [List.dropLast_concat] at hacc
          obtain ⟨β, s0', hβ, hs0', hs0eq⟩ : ∃ β s0', β ≤ 1 ∧ s0' < 2 ^ M ∧ s0 = s0' + β * 2 ^ M := by
            by_cases hlt : s0 < 2 ^ M
            · exact ⟨0, s0, by omega, hlt, by omega⟩
            · exact ⟨1, s0 - 2 ^ M, by omega, by omega, by omega⟩
          have hsn : s0 + b * 2 ^ (M + 1) = s0' + (2 * b + β) * 2 ^ M := by
            have e2 : b * 2 ^ (M + 1) = (2 * b) * 2 ^ M := by rw [Nat.pow_succ]; ac_rfl
            rw [hs0eq, e2, Nat.add_mul]; omega
          have e1 : a * 2 ^ (M + 1) = (2 * a) * 2 ^ M := by rw [Nat.pow_succ]; ac_rfl
          by_cases hk : m' ≤ 2 ^ M
          · rw [if_pos hk] at hacc
            cases hr : consRootsF node f ys (2 ^ M) m' b' old with
            | none => rw [hr] at hacc; cases hacc
            | some res =>
              obtain ⟨o', t'⟩ := res
              rw [hr] at hacc
              simp only [Option.map_some, Option.some.injEq, Prod.mk.injEq] at hacc
              obtain ⟨eo, et⟩ := hacc
              obtain ⟨x, ys', hseed, hsim⟩ := ih f ys m' b' old o' t' (2 * a) (2 * b + β) s0' s (by omega) hm1 hk hs0'
                (by omega) htz hb hr
              refine ⟨x, ys' ++ [last], hseed.snoc last, fun rest => ?_⟩
              have hfn : m' - 1 + a * 2 ^ (M + 1) = m' - 1 + (2 * a) * 2 ^ M := by rw [e1]
              rw [List.append_assoc, hfn, hsn, hsim ([last] ++ rest)]
              show consLoop node (last :: rest) (2 * a) (2 * b + β) o' t' = _
              conv => lhs; rw [consLoop]
              rw [if_neg (by omega), if_neg (by omega), ← eo, ← et]
              have d1 : 2 * a / 2 = a := by omega
              have d2 : (2 * b + β) / 2 = b := by omega
              rw [d1, d2]
          · rw [if_neg hk] at hacc
            have hsz : 2 ^ (M + 1) - 2 ^ M = 2 ^ M := by omega
            rw [hsz] at hacc
            have hbf : b' = false := by
              cases b' with
              | false => rfl
              | true => exact absurd (hb rfl) (no_pow2_between (M := M) (by omega) (by omega))
            cases hr : consRootsF node f ys (2 ^ M) (m' - 2 ^ M) false old with
            | none => rw [hr] at hacc; cases hacc
            | some res =>
              obtain ⟨o', t'⟩ := res
              rw [hr] at hacc
              simp only [Option.map_some, Option.some.injEq, Prod.mk.injEq] at hacc
              obtain ⟨eo, et⟩ := hacc
              obtain ⟨x, ys', hseed, hsim⟩ := ih f ys (m' - 2 ^ M) false old o' t' (2 * a + 1) (2 * b + β) s0' s
                (by omega) (by omega) (by omega) hs0' (by omega) (tz_sub htz (by omega) (by omega))
                (fun hc => by cases hc) hr
              subst hbf
              refine ⟨x, ys' ++ [last], hseed.snoc last, fun rest => ?_⟩
              have hfn : m' - 1 + a * 2 ^ (M + 1) = (m' - 2 ^ M - 1) + (2 * a + 1) * 2 ^ M := by
                rw [e1, Nat.add_mul]; omega
              rw [List.append_assoc, hfn, hsn, hsim ([last] ++ rest)]
              show consLoop node (last :: rest) (2 * a + 1) (2 * b + β) o' t' = _
              conv => lhs; rw [consLoop]
              rw [if_neg (by omega), if_pos (Or.inl (by omega)), if_neg (by omega), ← eo, ← et]
              show consLoop node rest ((2 * a + 1) / 2) ((2 * b + β) / 2) (node last o') (node last t') = _
              have d1 : (2 * a + 1) / 2 = a := by omega
              have d2 : (2 * b + β) / 2 = b := by omega
              rw [d1, d2]

/-- subtree of size `t' ≤ 2^m` on the right spine with old part `m' < t'`: the loop leaves `(c·2^e, c·2^e)` -/
theorem cons_spine : ∀ f t' (p1 : List H) m' b' old o r c m s, t' ≤ f → 1 ≤ m' → m' < t' → t' ≤ 2 ^ m → Tz m' s →
    (b' = true → Pow2 m') → consRootsF node f p1 t' m' b' old = some (o, r) →
    ∃ x p1', Seeded b' old p1 x p1' ∧ ∃ e, ∀ rest,
      consLoop node (p1' ++ rest) ((m' - 1 + c * 2 ^ m) / 2 ^ s) ((t' - 1 + c * 2 ^ m) / 2 ^ s) x x =
        consLoop node rest (c * 2 ^ e) (c * 2 ^ e) o r := by
  intro f
  induction f with
  | zero => intro t' p1 m' b' old o r c m s hf h1 h2; omega
  | succ f ih =>
    intro t' p1 m' b' old o r c m s hf hm1 hm2 hm htz hb hacc
    unfold consRootsF at hacc
    rw [if_neg (by omega)] at hacc
    have hs := splitPoint_spec t' (by omega)
    obtain ⟨j, d, hj, hpm⟩ := splitPoint_pow_split t' m (by omega) hm
    cases hp : p1.getLast? with
    | none => rw [hp] at hacc; cases hacc
    | some last =>
      rw [hp] at hacc
      obtain ⟨ys, rfl⟩ := List.getLast?_eq_some_iff.mp hp
      simp only [List.dropLast_concat] at hacc
      have hcm : c * 2 ^ m = (2 * (c * 2 ^ d)) * 2 ^ j := by rw [hpm]; ac_rfl
      rw [hj] at hacc hs
      by_cases hk : m' ≤ 2 ^ j
      · rw [if_pos hk] at hacc
        cases hr : consRootsF node f ys (2 ^ j) m' b' old with
        | none => rw [hr] at hacc; cases hacc
        | some res =>
          obtain ⟨o', t''⟩ := res
          rw [hr] at hacc
          simp only [Option.map_some, Option.some.injEq, Prod.mk.injEq] at hacc
          obtain ⟨eo, et⟩ := hacc
          obtain ⟨x, ys', hseed, hsim⟩ := cons_complete node j f ys m' b' old o' t'' (2 * (c * 2 ^ d))
            (2 * (c * 2 ^ d) + 1) (t' - 1 - 2 ^ j) s (by omega) hm1 hk (by omega) (by omega) htz hb hr
          refine ⟨x, ys' ++ [last], hseed.snoc last, d, fun rest => ?_⟩
          have hfn : m' - 1 + c * 2 ^ m = m' - 1 + (2 * (c * 2 ^ d)) * 2 ^ j := by rw [hcm]
          have hsn : t' - 1 + c * 2 ^ m = (t' - 1 - 2 ^ j) + (2 * (c * 2 ^ d) + 1) * 2 ^ j := by
            rw [hcm, Nat.add_mul]; omega
          rw [List.append_assoc, hfn, hsn, hsim ([last] ++ rest)]
          show consLoop node (last :: rest) (2 * (c * 2 ^ d)) (2 * (c * 2 ^ d) + 1) o' t'' = _
          conv => lhs; rw [consLoop]
          rw [if_neg (by omega), if_neg (by omega), ← eo, ← et]
          have d1 : 2 * (c * 2 ^ d) / 2 = c * 2 ^ d := by omega
          have d2 : (2 * (c * 2 ^ d) + 1) / 2 = c * 2 ^ d := by omega
          rw [d1, d2]
      · rw [if_neg hk] at hacc
        have hbf : b' = false := by
          cases b' with
          | false => rfl
          | true => exact absurd (hb rfl) (no_pow2_between (M := j) (by omega) (by rw [Nat.pow_succ]; omega))
        cases hr : consRootsF node f ys (t' - 2 ^ j) (m' - 2 ^ j) false old with
        | none => rw [hr] at hacc; cases hacc
        | some res =>
          obtain ⟨o', t''⟩ := res
          rw [hr] at hacc
          simp only [Option.map_some, Option.some.injEq, Prod.mk.injEq] at hacc
          obtain ⟨eo, et⟩ := hacc
          obtain ⟨x, ys', hseed, e', hsim⟩ := ih (t' - 2 ^ j) ys (m' - 2 ^ j) false old o' t'' (2 * (c * 2 ^ d) + 1) j s
            (by omega) (by omega) (by omega) (by omega) (tz_sub htz (by omega) (by rw [Nat.pow_succ]; omega))
            (fun hc => by cases hc) hr
          subst hbf
          refine ⟨x, ys' ++ [last], hseed.snoc last, d, fun rest => ?_⟩
          have hfn : m' - 1 + c * 2 ^ m = (m' - 2 ^ j - 1) + (2 * (c * 2 ^ d) + 1) * 2 ^ j := by
            rw [hcm, Nat.add_mul]; omega
          have hsn : t' - 1 + c * 2 ^ m = (t' - 2 ^ j - 1) + (2 * (c * 2 ^ d) + 1) * 2 ^ j := by
            rw [hcm, Nat.add_mul]; omega
          rw [List.append_assoc, hfn, hsn, hsim ([last] ++ rest)]
          show consLoop node (last :: rest) _ _ o' t'' = _
          rw [consLoop_spine_step node last rest _ e' o' t'' (by omega), ← eo, ← et]
          have d1 : (2 * (c * 2 ^ d) + 1) / 2 = c * 2 ^ d := by omega
          rw [d1]

/-! ### the flag, the length of the proof, early termination -/

omit [DecidableEq H] in
/-- when the old size is not a power of two the recursion leaves the left spine before it stops, so the flag is
    never consulted -/
theorem consRootsF_flag : ∀ f (p : List H) t m old, ¬ Pow2 m → m ≠ t →
    consRootsF node f p t m true old = consRootsF node f p t m false old := by
  intro f
  induction f with
  | zero => intros; rfl
  | succ f ih =>
    intro p t m old hp hne
    unfold consRootsF
    rw [if_neg hne, if_neg hne]
    have hk : m ≠ splitPoint t := fun hc => hp ⟨_, hc⟩
    dsimp only
    rw [ih p.dropLast (splitPoint t) m old hp hk]

/-- the number of hashes the recursion consumes -/
def consLenF : Nat → Nat → Nat → Bool → Nat
  | 0, _, _, _ => 0
  | f + 1, t, m, b =>
    if m = t then (if b then 0 else 1)
    else if m ≤ splitPoint t then consLenF f (splitPoint t) m b + 1
    else consLenF f (t - splitPoint t) (m - splitPoint t) false + 1

omit [DecidableEq H] in
theorem consRootsF_some_of_len : ∀ f (p : List H) t m b old, t ≤ f → 1 ≤ m → m ≤ t → p.length = consLenF f t m b →
    ∃ res, consRootsF node f p t m b old = some res := by
  intro f
  induction f with
  | zero => intro p t m b old hf h1 h2; omega
  | succ f ih =>
    intro p t m b old hf h1 h2 hlen
    unfold consLenF at hlen
    unfold consRootsF
    by_cases hmt : m = t
    · rw [if_pos hmt] at hlen
      rw [if_pos hmt]
      cases b with
      | true =>
        simp only [↓reduceIte] at hlen ⊢
        have : p = [] := List.eq_nil_of_length_eq_zero hlen
        subst this
        exact ⟨_, rfl⟩
      | false =>
        simp only [Bool.false_eq_true, ↓reduceIte] at hlen ⊢
        match p, hlen with
        | [x], _ => exact ⟨_, rfl⟩
    · rw [if_neg hmt] at hlen
      rw [if_neg hmt]
      have hs := splitPoint_spec t (by omega)
      have hne : p ≠ [] := by
        intro hc; subst hc; split at hlen <;> simp at hlen
      obtain ⟨ys, last, rfl⟩ : ∃ ys last, p = ys ++ [last] :=
        ⟨p.dropLast, p.getLast hne, (List.dropLast_concat_getLast hne).symm⟩
      simp only [List.getLast?_append, List.getLast?_singleton, Option.some_or, List.dropLast_concat]
      simp only [List.length_append, List.length_singleton] at hlen
      by_cases hk : m ≤ splitPoint t
      · rw [if_pos hk] at hlen
        rw [if_pos hk]
        obtain ⟨res, hr⟩ := ih ys (splitPoint t) m b old (by omega) h1 hk (by omega)
        exact ⟨_, by rw [hr]; rfl⟩
      · rw [if_neg hk] at hlen
        rw [if_neg hk]
        obtain ⟨res, hr⟩ := ih ys (t - splitPoint t) (m - splitPoint t) false old (by omega) (by omega) (by omega) (by omega)
        exact ⟨_, by rw [hr]; rfl⟩

theorem consLoop_append_none : ∀ (p : List H) fn sn fr sr fr' sr' (ext : List H),
    consLoop node p fn sn fr sr = some (0, fr', sr') → ext ≠ [] → consLoop node (p ++ ext) fn sn fr sr = none := by
  intro p
  induction p with
  | nil =>
    intro fn sn fr sr fr' sr' ext h hext
    simp only [consLoop, Option.some.injEq, Prod.mk.injEq] at h
    cases ext with
    | nil => exact absurd rfl hext
    | cons x xs => simp [consLoop, h.1]
  | cons q qs ih =>
    intro fn sn fr sr fr' sr' ext h hext
    rw [List.cons_append]
    rw [consLoop] at h ⊢
    split
    · rfl
    · rename_i hsn
      rw [if_neg hsn] at h
      split
      · rename_i hc
        rw [if_pos hc] at h
        exact ih _ _ _ _ fr' sr' ext h hext
      · rename_i hc
        rw [if_neg hc] at h
        exact ih _ _ _ _ fr' sr' ext h hext

/-! ### the theorem -/

/-- "if first is an exact power of 2, then prepend first_hash to the consistency_path array" -/
def seedList (n : Nat) (h : H) (p : List H) : List H := if n = 2 ^ n.log2 then h :: p else p

omit [DecidableEq H] in
theorem seedList_append (n : Nat) (h : H) (p e : List H) : seedList n h (p ++ e) = seedList n h p ++ e := by
  unfold seedList; split <;> rfl

theorem pow2_iff (n : Nat) : n = 2 ^ n.log2 ↔ Pow2 n := by
  constructor
  · intro h; exact ⟨_, h⟩
  · rintro ⟨s, rfl⟩; rw [Nat.log2_two_pow]

/-- ★ RFC 9162 §2.1.4.2 accepts exactly the tuples accepted by recomputation of both roots along the RFC 6962
    SUBPROOF recursion -/
theorem rfc9162_cons_equiv (p : List H) (t n : Nat) (h root : H) (h0 : 0 < n) (hn : n < t) :
    verifyConsistency node p n t h root = true ↔ AcceptCons node p t n h root := by
  obtain ⟨s, htz⟩ := exists_tz n h0
  obtain ⟨u, hu⟩ := id htz
  have hP := Nat.two_pow_pos s
  have hn1 : n - 1 = 2 ^ s - 1 + 2 ^ (s + 1) * u := by
    have : 2 ^ (s + 1) * u = (2 * u) * 2 ^ s := by rw [Nat.pow_succ]; ac_rfl
    rw [this, hu, Nat.add_mul]; omega
  have hsle : s ≤ n := by
    have : 2 ^ s ≤ n := by rw [hu]; exact Nat.le_mul_of_pos_left _ (by omega)
    exact Nat.le_of_lt (Nat.lt_of_lt_of_le Nat.lt_two_pow_self this)
  have hshift : shiftWhileOdd n (n - 1) (t - 1) = (2 * u, (t - 1) / 2 ^ s) := by
    rw [hn1]; exact shiftWhileOdd_spec s n u (t - 1) hsle
  have hfn0 : (n - 1 + 0 * 2 ^ t) / 2 ^ s = 2 * u := by
    have : n - 1 + 0 * 2 ^ t = (2 ^ s - 1) + (2 * u) * 2 ^ s := by rw [hu, Nat.add_mul]; omega
    rw [this, add_mul_div_pow _ _ s (by omega)]
  have hpow : t ≤ 2 ^ t := Nat.le_of_lt Nat.lt_two_pow_self
  -- forward simulation from the top (c = 0)
  have sim : ∀ p1 o r, consRootsF node t p1 t n true h = some (o, r) →
      ∃ x p1', seedList n h p1 = x :: p1' ∧ ∀ rest,
        consLoop node (p1' ++ rest) (2 * u) ((t - 1) / 2 ^ s) x x = consLoop node rest 0 0 o r := by
    intro p1 o r hacc
    by_cases hp2 : Pow2 n
    · obtain ⟨x, p1', hseed, e, hsim⟩ := cons_spine node t t p1 n true h o r 0 t s (Nat.le_refl _) h0 hn hpow htz
        (fun _ => hp2) hacc
      rcases hseed with ⟨_, hx, hp1⟩ | ⟨hc, _⟩
      · refine ⟨x, p1', by rw [seedList, if_pos ((pow2_iff n).mpr hp2), hx, hp1], fun rest => ?_⟩
        have := hsim rest
        rw [hfn0] at this
        simpa using this
      · cases hc
    · rw [consRootsF_flag node t p1 t n h hp2 (by omega)] at hacc
      obtain ⟨x, p1', hseed, e, hsim⟩ := cons_spine node t t p1 n false h o r 0 t s (Nat.le_refl _) h0 hn hpow htz
        (fun hc => by cases hc) hacc
      rcases hseed with ⟨hc, _⟩ | ⟨_, hp1⟩
      · cases hc
      · refine ⟨x, p1', by rw [seedList, if_neg (fun hc => hp2 ((pow2_iff n).mp hc)), hp1], fun rest => ?_⟩
        have := hsim rest
        rw [hfn0] at this
        simpa using this
  -- the verifier, in terms of `seedList`
  have hver : verifyConsistency node p n t h root =
      if p.isEmpty then false else
        match seedList n h p with
        | [] => false
        | x :: rest =>
          match consLoop node rest (2 * u) ((t - 1) / 2 ^ s) x x with
          | some (sn, fr, sr) => decide (fr = h ∧ sr = root ∧ sn = 0)
          | none => false := by
    unfold verifyConsistency seedList
    rw [hshift]
    rfl
  rw [hver]
  unfold AcceptCons
  constructor
  · intro hv
    refine ⟨h0, Nat.le_of_lt hn, ?_⟩
    by_cases hemp : p.isEmpty
    · rw [if_pos hemp] at hv; cases hv
    · rw [if_neg hemp] at hv
      have hpne : p ≠ [] := by intro hc; subst hc; simp at hemp
      cases hsl : seedList n h p with
      | nil => rw [hsl] at hv; cases hv
      | cons x q =>
        rw [hsl] at hv
        simp only [] at hv
        cases hl : consLoop node q (2 * u) ((t - 1) / 2 ^ s) x x with
        | none => rw [hl] at hv; cases hv
        | some res =>
          obtain ⟨sn, fr, sr⟩ := res
          rw [hl] at hv
          simp only [decide_eq_true_eq] at hv
          obtain ⟨hfr, hsr, hsn⟩ := hv
          subst hfr; subst hsr; subst hsn
          rcases Nat.lt_trichotomy p.length (consLenF t t n true) with hlt | heq | hgt
          · exfalso
            let ext := List.replicate (consLenF t t n true - p.length) fr
            have hext : ext ≠ [] := by
              intro hc; have := congrArg List.length hc; simp [ext] at this; omega
            obtain ⟨⟨o, r⟩, hr1⟩ := consRootsF_some_of_len node t (p ++ ext) t n true fr (Nat.le_refl _) h0
              (Nat.le_of_lt hn) (by simp [ext]; omega)
            obtain ⟨x', p1', hs1, hs2⟩ := sim (p ++ ext) o r hr1
            rw [seedList_append, hsl] at hs1
            simp only [List.cons_append, List.cons.injEq] at hs1
            have h1 := hs2 []
            rw [List.append_nil, ← hs1.2, ← hs1.1, consLoop_append_none node q _ _ x x fr sr ext hl hext] at h1
            simp [consLoop] at h1
          · obtain ⟨⟨o, r⟩, hr1⟩ := consRootsF_some_of_len node t p t n true fr (Nat.le_refl _) h0
              (Nat.le_of_lt hn) heq
            obtain ⟨x', p1', hs1, hs2⟩ := sim p o r hr1
            rw [hsl] at hs1
            simp only [List.cons.injEq] at hs1
            have h1 := hs2 []
            rw [List.append_nil, ← hs1.2, ← hs1.1, hl] at h1
            simp only [consLoop, Option.some.injEq, Prod.mk.injEq, true_and] at h1
            rw [hr1, h1.1, h1.2]
          · exfalso
            obtain ⟨⟨o, r⟩, hr1⟩ := consRootsF_some_of_len node t (p.take (consLenF t t n true)) t n true fr
              (Nat.le_refl _) h0 (Nat.le_of_lt hn) (by rw [List.length_take]; omega)
            obtain ⟨x', p1', hs1, hs2⟩ := sim (p.take (consLenF t t n true)) o r hr1
            have hsplit : seedList n fr p = x' :: (p1' ++ p.drop (consLenF t t n true)) := by
              conv => lhs; rw [← List.take_append_drop (consLenF t t n true) p]
              rw [seedList_append, hs1]; rfl
            rw [hsl] at hsplit
            simp only [List.cons.injEq] at hsplit
            have h1 := hs2 (p.drop (consLenF t t n true))
            rw [← hsplit.2, ← hsplit.1, hl] at h1
            cases hd : p.drop (consLenF t t n true) with
            | nil => have := congrArg List.length hd; simp at this; omega
            | cons y ys => rw [hd] at h1; simp [consLoop] at h1
  · rintro ⟨_, _, hacc⟩
    obtain ⟨x, p1', hs1, hs2⟩ := sim p h root hacc
    have hpne : p.isEmpty = false := by
      cases p with
      | nil =>
        exfalso
        have : consRootsF node t [] t n true h = none := by
          cases t with
          | zero => omega
          | succ t' => unfold consRootsF; rw [if_neg (by omega)]; rfl
        rw [this] at hacc; cases hacc
      | cons y ys => rfl
    rw [hpne, hs1]
    simp only [Bool.false_eq_true, ↓reduceIte]
    have h1 := hs2 []
    rw [List.append_nil] at h1
    rw [h1]
    simp [consLoop]

end
end ModVerif.RFC6962
