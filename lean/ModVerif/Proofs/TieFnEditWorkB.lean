/-
  Helper lemmas for Tie/FnEditWork.lean, part B: the DROP loops of the go.work operations (`WorkFile_DropGodebug`,
  `WorkFile_DropUse`, `WorkFile_DropReplace`: every matching entry's line is marked removed and the entry is cleared)
  against the model's `clearAll` / `markAll`, as simulations over `FnEditRep.RepWAt`.  The loop lemma is an induction over
  the not yet visited part of the typed list; the invariant is that the heap represents the model in which the visited
  entries are already cleared and their lines marked.
  Owner: edit-work.
-/
import ModVerif.Proofs.TieFnEditWorkA
set_option linter.unusedSimpArgs false
set_option linter.unusedVariables false
namespace ModVerif.Tie.FnEditWorkB
open ModVerif ModVerif.GoRt ModVerif.Generated.Edit ModVerif.Tie.FnEditRep ModVerif.Tie.FnEditTreeA ModVerif.Tie.FnEditWorkA
open ModVerif.Modfile.Edit (EWork clearAll firstRest markAll deref nilId clearedUse clearedGodebug clearedReplace)

/-! ### DropGodebug -/

theorem DropGodebug_loop (fp : Int) (key : Bytes) (o : WorkFile) :
    ∀ (xsuf : List Modfile.Godebug) (suf pre : List Int) (xpre : List Modfile.Godebug) (h : Heap) (e : EWork) (fuel : Nat),
      RepWAt h o e → o.Godebug = pre ++ suf → e.f.godebug = xpre ++ xsuf → pre.length = xpre.length → xsuf.length + 1 ≤ fuel →
      (∀ rest dead, clearAll (fun g : Modfile.Godebug => g.key == key) (·.lineId) clearedGodebug xsuf = .ok (rest, dead) →
        ∃ h', WorkFile_DropGodebug_loop1 o.Godebug fp key fuel (pre.length : Int) h = .ok (len o.Godebug, h') ∧ h'.works = h.works ∧
          RepWAt h' o { e with f := { e.f with godebug := xpre ++ rest, syn := markAll e.f.syn dead } }) ∧
      (∀ er, clearAll (fun g : Modfile.Godebug => g.key == key) (·.lineId) clearedGodebug xsuf = .error er →
        WorkFile_DropGodebug_loop1 o.Godebug fp key fuel (pre.length : Int) h = .error .panic)
  | [], suf, pre, xpre, h, e, fuel, R, ho, he, hl, hf => by
    obtain ⟨f, rfl⟩ : ∃ f, fuel = f + 1 := ⟨fuel - 1, by omega⟩
    have hlen := R.godebug.rel.length
    have hs : suf = [] := by
      rw [ho, he] at hlen; simp at hlen
      cases suf with
      | nil => rfl
      | cons a t => simp at hlen; omega
    subst hs
    simp only [List.append_nil] at ho he
    refine ⟨?_, ?_⟩
    · intro rest dead hc
      simp only [clearAll, Except.ok.injEq, Prod.mk.injEq] at hc
      obtain ⟨rfl, rfl⟩ := hc
      refine ⟨h, ?_, rfl, ?_⟩
      · unfold WorkFile_DropGodebug_loop1
        rw [← ho]
        simp only [len_eq, Int.lt_irrefl, decide_false, Bool.false_eq_true, if_false, pure, Except.pure]
      · simp only [List.append_nil, markAll_nil, ← he]
        exact R
    · intro er hc
      simp [clearAll] at hc
  | x :: xs, suf, pre, xpre, h, e, fuel, R, ho, he, hl, hf => by
    obtain ⟨f, rfl⟩ : ∃ f, fuel = f + 1 := ⟨fuel - 1, by omega⟩
    have hlen := R.godebug.rel.length
    obtain ⟨p, suf', rfl⟩ : ∃ p suf', suf = p :: suf' := by
      cases suf with
      | nil => rw [ho, he] at hlen; simp at hlen; omega
      | cons a t => exact ⟨a, t, rfl⟩
    obtain ⟨hget, hidle⟩ := RepWAt_godebugAt R ho he hl
    have hi : o.Godebug[pre.length]? = some p := by rw [ho]; exact getElem?_append_mid _ _ _
    have hlt : ((pre.length : Nat) : Int) < len o.Godebug := by rw [ho]; exact lt_len_mid _ _ _
    have hidx : idxL o.Godebug (pre.length : Int) = .ok p := by rw [ho]; exact idxL_mid _ _ _ rfl
    have hcast : ((pre.length : Nat) : Int) + 1 = (((pre ++ [p]).length : Nat) : Int) := by simp
    have ho' : o.Godebug = (pre ++ [p]) ++ suf' := by simp [ho]
    have hl' : (pre ++ [p]).length = (xpre ++ [clearedGodebug]).length := by simp [hl]
    cases hm : (fun g : Modfile.Godebug => g.key == key) x with
    | true =>
      have hp := hm
      simp only [beq_iff_eq] at hp
      by_cases h0 : x.lineId = 0
      · -- nil dereference
        refine ⟨?_, ?_⟩
        · intro rest dead hc
          simp [clearAll, hm, h0, deref_zero, bind, Except.bind] at hc
        · intro er _
          unfold WorkFile_DropGodebug_loop1
          simp only [hlt, decide_true, if_true, hidx, hget, bind, Except.bind, pure, Except.pure, godebugG_Key, godebugG_Syntax, hp, h0]
          rw [Line_markRemoved_nil (by simp)]
      · obtain ⟨l, hgl, hlid⟩ := R.linesG.ofId h0 hidle
        have R1 := RepWAt.setLine R (g := markRemovedLine) IdEquiv_markRemoved hgl
        have R2 := RepWAt_setGodebug R1 hi clearedGodebug (Nat.zero_le _)
        have ih := DropGodebug_loop fp key o xs suf' (pre ++ [p]) (xpre ++ [clearedGodebug]) _ _ f R2 ho'
          (by simp [he, hl, set_append_mid]) hl' (by simp at hf; omega)
        have hstep : WorkFile_DropGodebug_loop1 o.Godebug fp key (f + 1) (pre.length : Int) h =
            WorkFile_DropGodebug_loop1 o.Godebug fp key f (((pre ++ [p]).length : Nat) : Int)
              { setLineH h (x.lineId : Int) (markRemovedLine l) with godebugs := h.godebugs.set (p.toNat - 1) (godebugG clearedGodebug) } := by
          conv => lhs; unfold WorkFile_DropGodebug_loop1
          simp only [hlt, decide_true, if_true, hidx, hget, bind, Except.bind, pure, Except.pure, godebugG_Key, godebugG_Syntax, hp,
            Line_markRemoved_eq hgl, setLineH_godebugs, heapSet_of_get _ hget, hcast]
          rfl
        rw [hstep]
        refine ⟨?_, ?_⟩
        · intro rest dead hc
          simp only [clearAll, hm, if_true, deref_pos h0, bind, Except.bind] at hc
          cases hcx : clearAll (fun g : Modfile.Godebug => g.key == key) (·.lineId) clearedGodebug xs with
          | error er => rw [hcx] at hc; cases hc
          | ok r =>
            obtain ⟨rest', dead'⟩ := r
            rw [hcx] at hc
            simp only [pure, Except.pure, Except.ok.injEq, Prod.mk.injEq] at hc
            obtain ⟨rfl, rfl⟩ := hc
            obtain ⟨h', h1, h2, h3⟩ := ih.1 rest' dead' hcx
            refine ⟨h', h1, h2, ?_⟩
            simpa [markAll_cons, markRemoved_eq] using h3
        · intro er hc
          simp only [clearAll, hm, if_true, deref_pos h0, bind, Except.bind] at hc
          cases hcx : clearAll (fun g : Modfile.Godebug => g.key == key) (·.lineId) clearedGodebug xs with
          | error er' => exact ih.2 er' hcx
          | ok r => rw [hcx] at hc; cases hc
    | false =>
      have hp := hm
      have ih := DropGodebug_loop fp key o xs suf' (pre ++ [p]) (xpre ++ [x]) h e f R ho'
        (by simp [he]) (by simp [hl]) (by simp at hf; omega)
      have hstep : WorkFile_DropGodebug_loop1 o.Godebug fp key (f + 1) (pre.length : Int) h =
          WorkFile_DropGodebug_loop1 o.Godebug fp key f (((pre ++ [p]).length : Nat) : Int) h := by
        conv => lhs; unfold WorkFile_DropGodebug_loop1
        simp only [beq_eq_false_iff_ne, ne_eq] at hp
        simp only [hlt, decide_true, if_true, hidx, hget, bind, Except.bind, godebugG_Key, hp, decide_false,
          Bool.false_eq_true, if_false, hcast]
      rw [hstep]
      refine ⟨?_, ?_⟩
      · intro rest dead hc
        simp only [clearAll, hm, Bool.false_eq_true, if_false, bind, Except.bind] at hc
        cases hcx : clearAll (fun g : Modfile.Godebug => g.key == key) (·.lineId) clearedGodebug xs with
        | error er => rw [hcx] at hc; cases hc
        | ok r =>
          obtain ⟨rest', dead'⟩ := r
          rw [hcx] at hc
          simp only [pure, Except.pure, Except.ok.injEq, Prod.mk.injEq] at hc
          obtain ⟨rfl, rfl⟩ := hc
          obtain ⟨h', h1, h2, h3⟩ := ih.1 rest' dead' hcx
          refine ⟨h', h1, h2, ?_⟩
          simpa using h3
      · intro er hc
        simp only [clearAll, hm, Bool.false_eq_true, if_false, bind, Except.bind] at hc
        cases hcx : clearAll (fun g : Modfile.Godebug => g.key == key) (·.lineId) clearedGodebug xs with
        | error er' => exact ih.2 er' hcx
        | ok r => rw [hcx] at hc; cases hc

/-- `WorkFile.DropGodebug` simulates the model's `workDropGodebug` -/
theorem WorkFile_DropGodebug_sim {h : Heap} {fp : Int} {e : EWork} (R : RepW h fp e) (key : Bytes) (fuel : Nat)
    (hf : e.f.godebug.length + 1 ≤ fuel) :
    (∀ e', Modfile.Edit.workDropGodebug e key = .ok e' →
      ∃ h', WorkFile_DropGodebug fuel fp key h = .ok (none, h') ∧ RepW h' fp e') ∧
    (∀ er, Modfile.Edit.workDropGodebug e key = .error er → WorkFile_DropGodebug fuel fp key h = .error .panic) := by
  obtain ⟨o, hw, R⟩ := R
  have L := DropGodebug_loop fp key o e.f.godebug o.Godebug [] [] h e fuel R rfl rfl rfl hf
  have hrun : WorkFile_DropGodebug fuel fp key h =
      (do let r ← WorkFile_DropGodebug_loop1 o.Godebug fp key fuel 0 h; pure ((none : Option String), r.2)) := by
    unfold WorkFile_DropGodebug
    simp only [hw, bind, Except.bind]
  rw [hrun]
  refine ⟨?_, ?_⟩
  · intro e' he'
    unfold Modfile.Edit.workDropGodebug  at he'
    simp only [bind, Except.bind] at he'
    cases hc : clearAll (fun g : Modfile.Godebug => g.key == key) (·.lineId) clearedGodebug e.f.godebug with
    | error er => rw [hc] at he'; cases he'
    | ok r =>
      obtain ⟨rest, dead⟩ := r
      rw [hc] at he'
      simp only [pure, Except.pure, Except.ok.injEq] at he'
      subst he'
      obtain ⟨h', h1, h2, h3⟩ := L.1 rest dead hc
      refine ⟨h', ?_, o, by rw [h2]; exact hw, by simpa using h3⟩
      have h1' : WorkFile_DropGodebug_loop1 o.Godebug fp key fuel 0 h = .ok (len o.Godebug, h') := h1
      simp only [h1', bind, Except.bind, pure, Except.pure]
  · intro er he'
    unfold Modfile.Edit.workDropGodebug  at he'
    simp only [bind, Except.bind] at he'
    cases hc : clearAll (fun g : Modfile.Godebug => g.key == key) (·.lineId) clearedGodebug e.f.godebug with
    | error er' =>
      have h1 : WorkFile_DropGodebug_loop1 o.Godebug fp key fuel 0 h = .error .panic := L.2 er' hc
      simp only [h1, bind, Except.bind]
    | ok r => rw [hc] at he'; cases he'

/-! ### DropUse -/

theorem DropUse_loop (fp : Int) (path : Bytes) (o : WorkFile) :
    ∀ (xsuf : List Modfile.Use) (suf pre : List Int) (xpre : List Modfile.Use) (h : Heap) (e : EWork) (fuel : Nat),
      RepWAt h o e → o.Use = pre ++ suf → e.f.use = xpre ++ xsuf → pre.length = xpre.length → xsuf.length + 1 ≤ fuel →
      (∀ rest dead, clearAll (fun u : Modfile.Use => u.path == path) (·.lineId) clearedUse xsuf = .ok (rest, dead) →
        ∃ h', WorkFile_DropUse_loop1 o.Use fp path fuel (pre.length : Int) h = .ok (len o.Use, h') ∧ h'.works = h.works ∧
          RepWAt h' o { e with f := { e.f with use := xpre ++ rest, syn := markAll e.f.syn dead } }) ∧
      (∀ er, clearAll (fun u : Modfile.Use => u.path == path) (·.lineId) clearedUse xsuf = .error er →
        WorkFile_DropUse_loop1 o.Use fp path fuel (pre.length : Int) h = .error .panic)
  | [], suf, pre, xpre, h, e, fuel, R, ho, he, hl, hf => by
    obtain ⟨f, rfl⟩ : ∃ f, fuel = f + 1 := ⟨fuel - 1, by omega⟩
    have hlen := R.use.rel.length
    have hs : suf = [] := by
      rw [ho, he] at hlen; simp at hlen
      cases suf with
      | nil => rfl
      | cons a t => simp at hlen; omega
    subst hs
    simp only [List.append_nil] at ho he
    refine ⟨?_, ?_⟩
    · intro rest dead hc
      simp only [clearAll, Except.ok.injEq, Prod.mk.injEq] at hc
      obtain ⟨rfl, rfl⟩ := hc
      refine ⟨h, ?_, rfl, ?_⟩
      · unfold WorkFile_DropUse_loop1
        rw [← ho]
        simp only [len_eq, Int.lt_irrefl, decide_false, Bool.false_eq_true, if_false, pure, Except.pure]
      · simp only [List.append_nil, markAll_nil, ← he]
        exact R
    · intro er hc
      simp [clearAll] at hc
  | x :: xs, suf, pre, xpre, h, e, fuel, R, ho, he, hl, hf => by
    obtain ⟨f, rfl⟩ : ∃ f, fuel = f + 1 := ⟨fuel - 1, by omega⟩
    have hlen := R.use.rel.length
    obtain ⟨p, suf', rfl⟩ : ∃ p suf', suf = p :: suf' := by
      cases suf with
      | nil => rw [ho, he] at hlen; simp at hlen; omega
      | cons a t => exact ⟨a, t, rfl⟩
    obtain ⟨hget, hidle⟩ := RepWAt_useAt R ho he hl
    have hi : o.Use[pre.length]? = some p := by rw [ho]; exact getElem?_append_mid _ _ _
    have hlt : ((pre.length : Nat) : Int) < len o.Use := by rw [ho]; exact lt_len_mid _ _ _
    have hidx : idxL o.Use (pre.length : Int) = .ok p := by rw [ho]; exact idxL_mid _ _ _ rfl
    have hcast : ((pre.length : Nat) : Int) + 1 = (((pre ++ [p]).length : Nat) : Int) := by simp
    have ho' : o.Use = (pre ++ [p]) ++ suf' := by simp [ho]
    have hl' : (pre ++ [p]).length = (xpre ++ [clearedUse]).length := by simp [hl]
    cases hm : (fun u : Modfile.Use => u.path == path) x with
    | true =>
      have hp := hm
      simp only [beq_iff_eq] at hp
      by_cases h0 : x.lineId = 0
      · -- nil dereference
        refine ⟨?_, ?_⟩
        · intro rest dead hc
          simp [clearAll, hm, h0, deref_zero, bind, Except.bind] at hc
        · intro er _
          unfold WorkFile_DropUse_loop1
          simp only [hlt, decide_true, if_true, hidx, hget, bind, Except.bind, pure, Except.pure, useG_Path, useG_Syntax, hp, h0]
          rw [Line_markRemoved_nil (by simp)]
      · obtain ⟨l, hgl, hlid⟩ := R.linesG.ofId h0 hidle
        have R1 := RepWAt.setLine R (g := markRemovedLine) IdEquiv_markRemoved hgl
        have R2 := RepWAt_setUse R1 hi clearedUse (Nat.zero_le _)
        have ih := DropUse_loop fp path o xs suf' (pre ++ [p]) (xpre ++ [clearedUse]) _ _ f R2 ho'
          (by simp [he, hl, set_append_mid]) hl' (by simp at hf; omega)
        have hstep : WorkFile_DropUse_loop1 o.Use fp path (f + 1) (pre.length : Int) h =
            WorkFile_DropUse_loop1 o.Use fp path f (((pre ++ [p]).length : Nat) : Int)
              { setLineH h (x.lineId : Int) (markRemovedLine l) with uses := h.uses.set (p.toNat - 1) (useG clearedUse) } := by
          conv => lhs; unfold WorkFile_DropUse_loop1
          simp only [hlt, decide_true, if_true, hidx, hget, bind, Except.bind, pure, Except.pure, useG_Path, useG_Syntax, hp,
            Line_markRemoved_eq hgl, setLineH_uses, heapSet_of_get _ hget, hcast]
          rfl
        rw [hstep]
        refine ⟨?_, ?_⟩
        · intro rest dead hc
          simp only [clearAll, hm, if_true, deref_pos h0, bind, Except.bind] at hc
          cases hcx : clearAll (fun u : Modfile.Use => u.path == path) (·.lineId) clearedUse xs with
          | error er => rw [hcx] at hc; cases hc
          | ok r =>
            obtain ⟨rest', dead'⟩ := r
            rw [hcx] at hc
            simp only [pure, Except.pure, Except.ok.injEq, Prod.mk.injEq] at hc
            obtain ⟨rfl, rfl⟩ := hc
            obtain ⟨h', h1, h2, h3⟩ := ih.1 rest' dead' hcx
            refine ⟨h', h1, h2, ?_⟩
            simpa [markAll_cons, markRemoved_eq] using h3
        · intro er hc
          simp only [clearAll, hm, if_true, deref_pos h0, bind, Except.bind] at hc
          cases hcx : clearAll (fun u : Modfile.Use => u.path == path) (·.lineId) clearedUse xs with
          | error er' => exact ih.2 er' hcx
          | ok r => rw [hcx] at hc; cases hc
    | false =>
      have hp := hm
      have ih := DropUse_loop fp path o xs suf' (pre ++ [p]) (xpre ++ [x]) h e f R ho'
        (by simp [he]) (by simp [hl]) (by simp at hf; omega)
      have hstep : WorkFile_DropUse_loop1 o.Use fp path (f + 1) (pre.length : Int) h =
          WorkFile_DropUse_loop1 o.Use fp path f (((pre ++ [p]).length : Nat) : Int) h := by
        conv => lhs; unfold WorkFile_DropUse_loop1
        simp only [beq_eq_false_iff_ne, ne_eq] at hp
        simp only [hlt, decide_true, if_true, hidx, hget, bind, Except.bind, useG_Path, hp, decide_false,
          Bool.false_eq_true, if_false, hcast]
      rw [hstep]
      refine ⟨?_, ?_⟩
      · intro rest dead hc
        simp only [clearAll, hm, Bool.false_eq_true, if_false, bind, Except.bind] at hc
        cases hcx : clearAll (fun u : Modfile.Use => u.path == path) (·.lineId) clearedUse xs with
        | error er => rw [hcx] at hc; cases hc
        | ok r =>
          obtain ⟨rest', dead'⟩ := r
          rw [hcx] at hc
          simp only [pure, Except.pure, Except.ok.injEq, Prod.mk.injEq] at hc
          obtain ⟨rfl, rfl⟩ := hc
          obtain ⟨h', h1, h2, h3⟩ := ih.1 rest' dead' hcx
          refine ⟨h', h1, h2, ?_⟩
          simpa using h3
      · intro er hc
        simp only [clearAll, hm, Bool.false_eq_true, if_false, bind, Except.bind] at hc
        cases hcx : clearAll (fun u : Modfile.Use => u.path == path) (·.lineId) clearedUse xs with
        | error er' => exact ih.2 er' hcx
        | ok r => rw [hcx] at hc; cases hc

/-- `WorkFile.DropUse` simulates the model's `dropUse` -/
theorem WorkFile_DropUse_sim {h : Heap} {fp : Int} {e : EWork} (R : RepW h fp e) (path : Bytes) (fuel : Nat)
    (hf : e.f.use.length + 1 ≤ fuel) :
    (∀ e', Modfile.Edit.dropUse e path = .ok e' →
      ∃ h', WorkFile_DropUse fuel fp path h = .ok (none, h') ∧ RepW h' fp e') ∧
    (∀ er, Modfile.Edit.dropUse e path = .error er → WorkFile_DropUse fuel fp path h = .error .panic) := by
  obtain ⟨o, hw, R⟩ := R
  have L := DropUse_loop fp path o e.f.use o.Use [] [] h e fuel R rfl rfl rfl hf
  have hrun : WorkFile_DropUse fuel fp path h =
      (do let r ← WorkFile_DropUse_loop1 o.Use fp path fuel 0 h; pure ((none : Option String), r.2)) := by
    unfold WorkFile_DropUse
    simp only [hw, bind, Except.bind]
  rw [hrun]
  refine ⟨?_, ?_⟩
  · intro e' he'
    unfold Modfile.Edit.dropUse  at he'
    simp only [bind, Except.bind] at he'
    cases hc : clearAll (fun u : Modfile.Use => u.path == path) (·.lineId) clearedUse e.f.use with
    | error er => rw [hc] at he'; cases he'
    | ok r =>
      obtain ⟨rest, dead⟩ := r
      rw [hc] at he'
      simp only [pure, Except.pure, Except.ok.injEq] at he'
      subst he'
      obtain ⟨h', h1, h2, h3⟩ := L.1 rest dead hc
      refine ⟨h', ?_, o, by rw [h2]; exact hw, by simpa using h3⟩
      have h1' : WorkFile_DropUse_loop1 o.Use fp path fuel 0 h = .ok (len o.Use, h') := h1
      simp only [h1', bind, Except.bind, pure, Except.pure]
  · intro er he'
    unfold Modfile.Edit.dropUse  at he'
    simp only [bind, Except.bind] at he'
    cases hc : clearAll (fun u : Modfile.Use => u.path == path) (·.lineId) clearedUse e.f.use with
    | error er' =>
      have h1 : WorkFile_DropUse_loop1 o.Use fp path fuel 0 h = .error .panic := L.2 er' hc
      simp only [h1, bind, Except.bind]
    | ok r => rw [hc] at he'; cases he'

/-! ### DropReplace -/

theorem DropReplace_loop (fp : Int) (oldPath oldVers : Bytes) (o : WorkFile) :
    ∀ (xsuf : List Modfile.Replace) (suf pre : List Int) (xpre : List Modfile.Replace) (h : Heap) (e : EWork) (fuel : Nat),
      RepWAt h o e → o.Replace = pre ++ suf → e.f.replace = xpre ++ xsuf → pre.length = xpre.length → xsuf.length + 1 ≤ fuel →
      (∀ rest dead, clearAll (fun r : Modfile.Replace => r.old.path == oldPath && r.old.version == oldVers) (·.lineId) clearedReplace xsuf = .ok (rest, dead) →
        ∃ h', WorkFile_DropReplace_loop1 o.Replace fp oldPath oldVers fuel (pre.length : Int) h = .ok (len o.Replace, h') ∧ h'.works = h.works ∧
          RepWAt h' o { e with f := { e.f with replace := xpre ++ rest, syn := markAll e.f.syn dead } }) ∧
      (∀ er, clearAll (fun r : Modfile.Replace => r.old.path == oldPath && r.old.version == oldVers) (·.lineId) clearedReplace xsuf = .error er →
        WorkFile_DropReplace_loop1 o.Replace fp oldPath oldVers fuel (pre.length : Int) h = .error .panic)
  | [], suf, pre, xpre, h, e, fuel, R, ho, he, hl, hf => by
    obtain ⟨f, rfl⟩ : ∃ f, fuel = f + 1 := ⟨fuel - 1, by omega⟩
    have hlen := R.replace.rel.length
    have hs : suf = [] := by
      rw [ho, he] at hlen; simp at hlen
      cases suf with
      | nil => rfl
      | cons a t => simp at hlen; omega
    subst hs
    simp only [List.append_nil] at ho he
    refine ⟨?_, ?_⟩
    · intro rest dead hc
      simp only [clearAll, Except.ok.injEq, Prod.mk.injEq] at hc
      obtain ⟨rfl, rfl⟩ := hc
      refine ⟨h, ?_, rfl, ?_⟩
      · unfold WorkFile_DropReplace_loop1
        rw [← ho]
        simp only [len_eq, Int.lt_irrefl, decide_false, Bool.false_eq_true, if_false, pure, Except.pure]
      · simp only [List.append_nil, markAll_nil, ← he]
        exact R
    · intro er hc
      simp [clearAll] at hc
  | x :: xs, suf, pre, xpre, h, e, fuel, R, ho, he, hl, hf => by
    obtain ⟨f, rfl⟩ : ∃ f, fuel = f + 1 := ⟨fuel - 1, by omega⟩
    have hlen := R.replace.rel.length
    obtain ⟨p, suf', rfl⟩ : ∃ p suf', suf = p :: suf' := by
      cases suf with
      | nil => rw [ho, he] at hlen; simp at hlen; omega
      | cons a t => exact ⟨a, t, rfl⟩
    obtain ⟨hget, hidle⟩ := RepWAt_replaceAt R ho he hl
    have hi : o.Replace[pre.length]? = some p := by rw [ho]; exact getElem?_append_mid _ _ _
    have hlt : ((pre.length : Nat) : Int) < len o.Replace := by rw [ho]; exact lt_len_mid _ _ _
    have hidx : idxL o.Replace (pre.length : Int) = .ok p := by rw [ho]; exact idxL_mid _ _ _ rfl
    have hcast : ((pre.length : Nat) : Int) + 1 = (((pre ++ [p]).length : Nat) : Int) := by simp
    have ho' : o.Replace = (pre ++ [p]) ++ suf' := by simp [ho]
    have hl' : (pre ++ [p]).length = (xpre ++ [clearedReplace]).length := by simp [hl]
    cases hm : (fun r : Modfile.Replace => r.old.path == oldPath && r.old.version == oldVers) x with
    | true =>
      have hp := hm
      simp only [Bool.and_eq_true, beq_iff_eq] at hp
      by_cases h0 : x.lineId = 0
      · -- nil dereference
        refine ⟨?_, ?_⟩
        · intro rest dead hc
          simp [clearAll, hm, h0, deref_zero, bind, Except.bind] at hc
        · intro er _
          unfold WorkFile_DropReplace_loop1
          simp only [hlt, decide_true, if_true, hidx, hget, bind, Except.bind, pure, Except.pure, replaceG_Old, mvG_Path, mvG_Version, replaceG_Syntax, hp.1, hp.2, h0]
          rw [Line_markRemoved_nil (by simp)]
      · obtain ⟨l, hgl, hlid⟩ := R.linesG.ofId h0 hidle
        have R1 := RepWAt.setLine R (g := markRemovedLine) IdEquiv_markRemoved hgl
        have R2 := RepWAt_setReplace R1 hi clearedReplace (Nat.zero_le _)
        have ih := DropReplace_loop fp oldPath oldVers o xs suf' (pre ++ [p]) (xpre ++ [clearedReplace]) _ _ f R2 ho'
          (by simp [he, hl, set_append_mid]) hl' (by simp at hf; omega)
        have hstep : WorkFile_DropReplace_loop1 o.Replace fp oldPath oldVers (f + 1) (pre.length : Int) h =
            WorkFile_DropReplace_loop1 o.Replace fp oldPath oldVers f (((pre ++ [p]).length : Nat) : Int)
              { setLineH h (x.lineId : Int) (markRemovedLine l) with replaces := h.replaces.set (p.toNat - 1) (replaceG clearedReplace) } := by
          conv => lhs; unfold WorkFile_DropReplace_loop1
          simp only [hlt, decide_true, if_true, hidx, hget, bind, Except.bind, pure, Except.pure, replaceG_Old, mvG_Path, mvG_Version, replaceG_Syntax, hp.1, hp.2,
            Line_markRemoved_eq hgl, setLineH_replaces, heapSet_of_get _ hget, hcast]
          rfl
        rw [hstep]
        refine ⟨?_, ?_⟩
        · intro rest dead hc
          simp only [clearAll, hm, if_true, deref_pos h0, bind, Except.bind] at hc
          cases hcx : clearAll (fun r : Modfile.Replace => r.old.path == oldPath && r.old.version == oldVers) (·.lineId) clearedReplace xs with
          | error er => rw [hcx] at hc; cases hc
          | ok r =>
            obtain ⟨rest', dead'⟩ := r
            rw [hcx] at hc
            simp only [pure, Except.pure, Except.ok.injEq, Prod.mk.injEq] at hc
            obtain ⟨rfl, rfl⟩ := hc
            obtain ⟨h', h1, h2, h3⟩ := ih.1 rest' dead' hcx
            refine ⟨h', h1, h2, ?_⟩
            simpa [markAll_cons, markRemoved_eq] using h3
        · intro er hc
          simp only [clearAll, hm, if_true, deref_pos h0, bind, Except.bind] at hc
          cases hcx : clearAll (fun r : Modfile.Replace => r.old.path == oldPath && r.old.version == oldVers) (·.lineId) clearedReplace xs with
          | error er' => exact ih.2 er' hcx
          | ok r => rw [hcx] at hc; cases hc
    | false =>
      have hp := hm
      have ih := DropReplace_loop fp oldPath oldVers o xs suf' (pre ++ [p]) (xpre ++ [x]) h e f R ho'
        (by simp [he]) (by simp [hl]) (by simp at hf; omega)
      have hstep : WorkFile_DropReplace_loop1 o.Replace fp oldPath oldVers (f + 1) (pre.length : Int) h =
          WorkFile_DropReplace_loop1 o.Replace fp oldPath oldVers f (((pre ++ [p]).length : Nat) : Int) h := by
        conv => lhs; unfold WorkFile_DropReplace_loop1
        simp only [hlt, decide_true, if_true, hidx, hget, bind, Except.bind, pure, Except.pure, replaceG_Old, mvG_Path,
          mvG_Version]
        by_cases h1 : x.old.path = oldPath
        · have h2 : ¬ (x.old.version = oldVers) := by
            intro h2; simp [h1, h2] at hp
          simp only [h1, h2, decide_true, decide_false, if_true, Bool.false_eq_true, if_false, hcast]
        · simp only [h1, decide_false, Bool.false_eq_true, if_false, hcast]
      rw [hstep]
      refine ⟨?_, ?_⟩
      · intro rest dead hc
        simp only [clearAll, hm, Bool.false_eq_true, if_false, bind, Except.bind] at hc
        cases hcx : clearAll (fun r : Modfile.Replace => r.old.path == oldPath && r.old.version == oldVers) (·.lineId) clearedReplace xs with
        | error er => rw [hcx] at hc; cases hc
        | ok r =>
          obtain ⟨rest', dead'⟩ := r
          rw [hcx] at hc
          simp only [pure, Except.pure, Except.ok.injEq, Prod.mk.injEq] at hc
          obtain ⟨rfl, rfl⟩ := hc
          obtain ⟨h', h1, h2, h3⟩ := ih.1 rest' dead' hcx
          refine ⟨h', h1, h2, ?_⟩
          simpa using h3
      · intro er hc
        simp only [clearAll, hm, Bool.false_eq_true, if_false, bind, Except.bind] at hc
        cases hcx : clearAll (fun r : Modfile.Replace => r.old.path == oldPath && r.old.version == oldVers) (·.lineId) clearedReplace xs with
        | error er' => exact ih.2 er' hcx
        | ok r => rw [hcx] at hc; cases hc

/-- `WorkFile.DropReplace` simulates the model's `workDropReplace` -/
theorem WorkFile_DropReplace_sim {h : Heap} {fp : Int} {e : EWork} (R : RepW h fp e) (oldPath oldVers : Bytes) (fuel : Nat)
    (hf : e.f.replace.length + 1 ≤ fuel) :
    (∀ e', Modfile.Edit.workDropReplace e oldPath oldVers = .ok e' →
      ∃ h', WorkFile_DropReplace fuel fp oldPath oldVers h = .ok (none, h') ∧ RepW h' fp e') ∧
    (∀ er, Modfile.Edit.workDropReplace e oldPath oldVers = .error er → WorkFile_DropReplace fuel fp oldPath oldVers h = .error .panic) := by
  obtain ⟨o, hw, R⟩ := R
  have L := DropReplace_loop fp oldPath oldVers o e.f.replace o.Replace [] [] h e fuel R rfl rfl rfl hf
  have hrun : WorkFile_DropReplace fuel fp oldPath oldVers h =
      (do let r ← WorkFile_DropReplace_loop1 o.Replace fp oldPath oldVers fuel 0 h; pure ((none : Option String), r.2)) := by
    unfold WorkFile_DropReplace
    simp only [hw, bind, Except.bind]
  rw [hrun]
  refine ⟨?_, ?_⟩
  · intro e' he'
    unfold Modfile.Edit.workDropReplace Modfile.Edit.dropReplaceCore at he'
    simp only [bind, Except.bind] at he'
    cases hc : clearAll (fun r : Modfile.Replace => r.old.path == oldPath && r.old.version == oldVers) (·.lineId) clearedReplace e.f.replace with
    | error er => rw [hc] at he'; cases he'
    | ok r =>
      obtain ⟨rest, dead⟩ := r
      rw [hc] at he'
      simp only [pure, Except.pure, Except.ok.injEq] at he'
      subst he'
      obtain ⟨h', h1, h2, h3⟩ := L.1 rest dead hc
      refine ⟨h', ?_, o, by rw [h2]; exact hw, by simpa using h3⟩
      have h1' : WorkFile_DropReplace_loop1 o.Replace fp oldPath oldVers fuel 0 h = .ok (len o.Replace, h') := h1
      simp only [h1', bind, Except.bind, pure, Except.pure]
  · intro er he'
    unfold Modfile.Edit.workDropReplace Modfile.Edit.dropReplaceCore at he'
    simp only [bind, Except.bind] at he'
    cases hc : clearAll (fun r : Modfile.Replace => r.old.path == oldPath && r.old.version == oldVers) (·.lineId) clearedReplace e.f.replace with
    | error er' =>
      have h1 : WorkFile_DropReplace_loop1 o.Replace fp oldPath oldVers fuel 0 h = .error .panic := L.2 er' hc
      simp only [h1, bind, Except.bind]
    | ok r => rw [hc] at he'; cases he'

end ModVerif.Tie.FnEditWorkB
