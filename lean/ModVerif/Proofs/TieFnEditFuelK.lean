/-
  Closed fuel of the FnEdit session ties, part K (agent edit-fuel4): the phases of `File.SetRequireSeparateIndirect`
  on the tree weight — `treeW_set`, `appendToBlock_treeW`, `ensureBlock_treeW`, `sepPlan_treeW` (the two blocks add ≤ 32),
  `kill_treeW` / `moveExisting_treeW` (a moved line adds ≤ 1), `addSepNew_W` / `addMissing_W`, `fuel5_le`, and the line ids
  (`IdOK`: pairwise different, below `next`) through `appendToBlock`, `ensureBlock`, `insertAt`, `moveExisting`.
-/
import ModVerif.Proofs.TieFnEditFuelE
set_option linter.unusedSimpArgs false
set_option linter.unusedVariables false
namespace ModVerif.Tie.FnEditFuelK
open ModVerif ModVerif.Modfile ModVerif.Tie.FnEditFuelA ModVerif.Tie.FnEditFuelB ModVerif.Tie.FnEditFuelC ModVerif.Tie.FnEditFuelD
open ModVerif.Tie.FnEditFuelE
open ModVerif.Tie.FnEditSetL (addMissing fuel5)
open ModVerif.Tie.FnEditSetN (sepPlan indirectPlan)
open ModVerif.Modfile.Edit (EFile EditErr Want treeIds SepCtx)
open ModVerif.Tie.FnEditSortE (sortFuel goLen)
open ModVerif.Tie.FnEditReqE (modPath)

/-! ### weight -/

theorem treeW_set : ∀ (ss : List Expr) (i : Nat) (x y : Expr), ss[i]? = some x →
    treeW (ss.set i y) + exprW x = treeW ss + exprW y
  | [], i, x, y, h => by simp at h
  | a :: ss, 0, x, y, h => by
    simp only [List.getElem?_cons_zero, Option.some.injEq] at h; subst h
    simp only [List.set_cons_zero, treeW_cons]; omega
  | a :: ss, i + 1, x, y, h => by
    simp only [List.getElem?_cons_succ] at h
    have := treeW_set ss i x y h
    simp only [List.set_cons_succ, treeW_cons]; omega

theorem appendToBlock_treeW (ss : List Expr) (i : Nat) (l : Line) :
    treeW (Edit.appendToBlock ss i l) ≤ treeW ss + lineW l := by
  unfold Edit.appendToBlock
  split
  · rename_i b hb
    have := treeW_set ss i _ (.lineBlock { b with lines := b.lines ++ [l] }) hb
    simp only [exprW, linesW_append, linesW_cons, linesW_nil] at this
    omega
  · omega

theorem exprW_emptyRequireBlock : exprW Edit.emptyRequireBlock = 16 := by
  simp only [Edit.emptyRequireBlock, exprW, tokW_cons, tokW_nil, len_require, linesW_nil]

theorem ensureBlock_treeW (ss s : List Expr) (i : Nat) (h : Edit.ensureBlock ss i = .ok s) : treeW s ≤ treeW ss + 16 := by
  unfold Edit.ensureBlock at h
  split at h
  · cases h; omega
  · rename_i l hl
    simp only [Except.ok.injEq] at h
    subst h
    have := treeW_set ss i _ (.lineBlock { token := [B "require"], lines := [{ l with token := l.token.drop 1, inBlock := true }] }) hl
    have hd := tokW_drop_le 1 l.token
    simp only [exprW, lineW, tokW_cons, tokW_nil, len_require, linesW_cons, linesW_nil] at this
    omega
  · cases h

theorem indirectPlan_treeW (oneFlat : Bool) (ml : List (Nat × Nat)) (ss : List Expr) (d : Nat) (dO li ish : Option Nat)
    (ctx : SepCtx) (s : List Expr) (h : indirectPlan oneFlat ml ss d dO li ish = .ok (ctx, s)) : treeW s ≤ treeW ss + 16 := by
  unfold indirectPlan at h
  split at h
  · simp only [Except.ok.injEq, Prod.mk.injEq] at h
    rw [← h.2, insertAt_treeW, exprW_emptyRequireBlock]
    exact Nat.le_refl _
  · split at h
    · cases h
    · rename_i s' he
      simp only [Except.ok.injEq, Prod.mk.injEq] at h
      rw [← h.2]
      exact ensureBlock_treeW _ _ _ he

theorem sepPlan_treeW (e : EFile) (ctx : SepCtx) (s : List Expr) (h : sepPlan e = .ok (ctx, s)) :
    treeW s ≤ treeW e.f.syn.stmts + 32 := by
  unfold sepPlan at h
  simp only [] at h
  split at h
  · split at h
    · have := indirectPlan_treeW _ _ _ _ _ _ _ _ _ h
      rw [insertAt_treeW, exprW_emptyRequireBlock] at this; omega
    · split at h
      · have := indirectPlan_treeW _ _ _ _ _ _ _ _ _ h
        rw [insertAt_treeW, exprW_emptyRequireBlock] at this; omega
      · have := indirectPlan_treeW _ _ _ _ _ _ _ _ _ h
        rw [treeW_append, treeW_cons, treeW_nil, exprW_emptyRequireBlock] at this; omega
  · split at h
    · cases h
    · rename_i s' he
      have h1 := ensureBlock_treeW _ _ _ he
      have := indirectPlan_treeW _ _ _ _ _ _ _ _ _ h
      omega

/-! ### killing the line that `findLine` finds -/

def kill (l : Line) : Line := { l with token := [] }

theorem kill_lineW (l : Line) : lineW (kill l) ≤ lineW l := by simp [kill, lineW]

theorem killIn_linesW (id : Nat) (old : Line) : ∀ ls : List Line, ls.find? (·.id == id) = some old →
    linesW (updateLineIn id kill ls) + tokW old.token ≤ linesW ls
  | [], h => by simp at h
  | l :: ls, h => by
    unfold updateLineIn
    by_cases hb : (l.id == id) = true
    · simp only [List.find?_cons, hb, Option.some.injEq] at h
      subst h
      simp only [hb, if_true, linesW_cons, lineW, kill, tokW_nil]; omega
    · have hb' : (l.id == id) = false := by simpa using hb
      simp only [List.find?_cons, hb'] at h
      have := killIn_linesW id old ls h
      simp only [hb', Bool.false_eq_true, if_false, linesW_cons]; omega

theorem kill_treeW_aux (id : Nat) (old : Line) : ∀ ss : List Expr,
    (({ stmts := ss } : FileSyntax).allLines.find? (·.id == id)) = some old →
    treeW ((({ stmts := ss } : FileSyntax).updateLine id kill).stmts) + tokW old.token ≤ treeW ss := by
  intro ss
  induction ss with
  | nil => intro h; simp [FileSyntax.allLines] at h
  | cons s ss ih =>
    intro h
    have hrest := updateLine_treeW_le ({ stmts := ss } : FileSyntax) id kill kill_lineW
    simp only [FileSyntax.updateLine, FileSyntax.allLines, List.map_cons, treeW_cons, List.flatMap_cons, List.find?_append] at ih h hrest ⊢
    cases s with
    | line l =>
      by_cases hb : (l.id == id) = true
      · simp only [List.find?_cons, hb, Option.some_or, Option.some.injEq] at h
        subst h
        have hk : lineW (kill l) = 1 := rfl
        have hk2 : lineW l = tokW l.token + 1 := rfl
        simp only [hb, if_true, exprW, hk, hk2]; omega
      · have hb' : (l.id == id) = false := by simpa using hb
        simp only [List.find?_cons, hb', List.find?_nil, Option.none_or] at h
        have := ih h
        simp only [hb', Bool.false_eq_true, if_false, exprW]; omega
    | lineBlock b =>
      simp only [] at h
      cases hf : b.lines.find? (·.id == id) with
      | some o =>
        rw [hf] at h
        simp only [Option.some_or, Option.some.injEq] at h
        subst h
        have := killIn_linesW id o b.lines hf
        simp only [exprW]; omega
      | none =>
        rw [hf] at h
        simp only [Option.none_or] at h
        have := ih h
        have h2 := updateLineIn_linesW_le id kill kill_lineW b.lines
        simp only [exprW]; omega
    | commentBlock c =>
      simp only [List.find?_nil, Option.none_or] at h
      have := ih h
      simp only [exprW]; omega
    | lparen c =>
      simp only [List.find?_nil, Option.none_or] at h
      have := ih h
      simp only [exprW]; omega
    | rparen c =>
      simp only [List.find?_nil, Option.none_or] at h
      have := ih h
      simp only [exprW]; omega

theorem kill_treeW (fs : FileSyntax) (id : Nat) (old : Line) (h : fs.findLine id = some old) :
    treeW (fs.updateLine id kill).stmts + tokW old.token ≤ treeW fs.stmts :=
  kill_treeW_aux id old fs.stmts h

/-- **a moved line adds at most 1** (the old line is emptied, the copy is not heavier) -/
theorem moveExisting_treeW (syn : FileSyntax) (i idx new : Nat) :
    treeW (Edit.moveExisting syn i idx new).stmts ≤ treeW syn.stmts + 1 := by
  unfold Edit.moveExisting
  split
  · omega
  · rename_i old ho
    have h1 := kill_treeW syn i old ho
    have h2 : ∀ tok : List Bytes, tokW tok ≤ tokW old.token →
        treeW (Edit.appendToBlock (syn.updateLine i fun l => { l with token := [] }).stmts idx
          { old with id := new, token := tok, inBlock := true }) ≤ treeW syn.stmts + 1 := by
      intro tok ht
      have := appendToBlock_treeW (syn.updateLine i fun l => { l with token := [] }).stmts idx
        { old with id := new, token := tok, inBlock := true }
      have h1' : treeW (syn.updateLine i fun l => { l with token := [] }).stmts + tokW old.token ≤ treeW syn.stmts := h1
      simp only [lineW] at this
      omega
    exact h2 _ (by split <;> first | exact tokW_drop_le 1 _ | exact Nat.le_refl _)

/-! ### the additions -/

theorem addSepNew_wantW (ctx : SepCtx) (e : EFile) (w : Want) :
    W (Edit.addSepNew ctx e w) + w.path.length + 1 ≤ W e + wantW w := by
  unfold Edit.addSepNew
  simp only []
  have key : ∀ (idx : Nat) (line : Line), lineW line = tokW [autoQuote w.path, w.vers] + 1 →
      treeW (Edit.appendToBlock e.f.syn.stmts idx line) ≤ treeW e.f.syn.stmts + 2 * (autoQuote w.path).length + 2 * w.vers.length + 3 := by
    intro idx line hl
    have := appendToBlock_treeW e.f.syn.stmts idx line
    rw [hl, tokW2] at this; omega
  have hl1 : lineW (Edit.mkLine e.next [autoQuote w.path, w.vers] true) = tokW [autoQuote w.path, w.vers] + 1 := rfl
  have hl2 : lineW (Edit.setIndirectLine true (Edit.mkLine e.next [autoQuote w.path, w.vers] true)) = tokW [autoQuote w.path, w.vers] + 1 := by
    simp only [lineW, setIndirectLine_token]; rfl
  cases hi : w.indirect
  · have := key ctx.directIdx _ hl1
    simp only [W, listsW, goLen, modPath, wantW, Bool.false_eq_true, if_false, List.length_append, List.length_cons, List.length_nil] at this ⊢
    omega
  · have := key ctx.indirectIdx _ hl2
    simp only [W, listsW, goLen, modPath, wantW, if_true, List.length_append, List.length_cons, List.length_nil] at this ⊢
    omega

theorem addMissing_W (ctx : SepCtx) (hv : List Bytes) : ∀ (ws : List Want) (e : EFile),
    W (addMissing ctx hv e ws) ≤ W e + wantsW ws
  | [], e => by simp [addMissing]
  | w :: ws, e => by
    simp only [addMissing, wantsW_cons]
    split
    · have := addMissing_W ctx hv ws e; omega
    · have h1 := addMissing_W ctx hv ws (Edit.addSepNew ctx e w)
      have h2 := addSepNew_wantW ctx e w
      omega

theorem fuel5_le : ∀ ws : List Want, fuel5 ws ≤ wantsW ws + 1
  | [] => by simp [fuel5]
  | w :: ws => by
    have := fuel5_le ws
    have h1 : w.path.length + 2 ≤ wantW w := by unfold wantW; omega
    simp only [fuel5, wantsW_cons]; omega

/-! ### the line ids: pairwise different and below `next` -/

def IdOK (ss : List Expr) (next : Nat) : Prop := (treeIds ss).Nodup ∧ ∀ i ∈ treeIds ss, i < next

theorem treeIds_set_perm : ∀ (ss : List Expr) (i : Nat) (x y : Expr) (extra : List Nat), ss[i]? = some x →
    (treeIds [y]).Perm (treeIds [x] ++ extra) → (treeIds (ss.set i y)).Perm (treeIds ss ++ extra)
  | [], i, x, y, ex, h, _ => by simp at h
  | a :: ss, 0, x, y, ex, h, hp => by
    simp only [List.getElem?_cons_zero, Option.some.injEq] at h; subst h
    rw [List.set_cons_zero, Edit.treeIds_cons y ss, Edit.treeIds_cons a ss]
    refine (hp.append_right (treeIds ss)).trans ?_
    simp only [List.append_assoc]
    exact List.Perm.append_left _ List.perm_append_comm
  | a :: ss, i + 1, x, y, ex, h, hp => by
    simp only [List.getElem?_cons_succ] at h
    rw [List.set_cons_succ, Edit.treeIds_cons a (ss.set i y), Edit.treeIds_cons a ss]
    have := treeIds_set_perm ss i x y ex h hp
    simp only [List.append_assoc]
    exact List.Perm.append_left _ this

theorem IdOK.perm {ss ss' : List Expr} {next next' : Nat} {extra : List Nat} (h : IdOK ss next)
    (hp : (treeIds ss').Perm (treeIds ss ++ extra)) (hn : extra.Nodup) (hd : ∀ i ∈ extra, next ≤ i ∧ i < next')
    (hle : next ≤ next') : IdOK ss' next' := by
  constructor
  · rw [hp.nodup_iff, List.nodup_append]
    refine ⟨h.1, hn, ?_⟩
    intro a ha b hb hab
    have := h.2 a ha
    have := (hd b hb).1
    omega
  · intro i hi
    have := hp.subset hi
    rcases List.mem_append.1 this with h1 | h1
    · have := h.2 i h1; omega
    · exact (hd i h1).2

theorem appendToBlock_idOK (ss : List Expr) (idx : Nat) (l : Line) (next : Nat) (h : IdOK ss next) (hl : l.id = next) :
    IdOK (Edit.appendToBlock ss idx l) (next + 1) := by
  unfold Edit.appendToBlock
  split
  · rename_i b hb
    refine h.perm (extra := [l.id]) (treeIds_set_perm ss idx _ _ [l.id] hb ?_) (by simp) (by simp [hl]) (by omega)
    rw [treeIds_cons_block, treeIds_cons_block]
    simp [show treeIds [] = [] from rfl]
  · exact ⟨h.1, fun i hi => by have := h.2 i hi; omega⟩

theorem ensureBlock_ids (ss s : List Expr) (i : Nat) (h : Edit.ensureBlock ss i = .ok s) : (treeIds s).Perm (treeIds ss) := by
  unfold Edit.ensureBlock at h
  split at h
  · cases h; exact List.Perm.refl _
  · rename_i l hl
    simp only [Except.ok.injEq] at h
    subst h
    have := treeIds_set_perm ss i _ (.lineBlock { token := [B "require"], lines := [{ l with token := l.token.drop 1, inBlock := true }] }) [] hl
      (by rw [treeIds_cons_block, treeIds_cons_line]; simp)
    simpa using this
  · cases h

theorem insertAt_ids (ss : List Expr) (i : Nat) : treeIds (Edit.insertAt ss i Edit.emptyRequireBlock) = treeIds ss := by
  unfold Edit.insertAt
  have h1 : treeIds (ss.take i ++ Edit.emptyRequireBlock :: ss.drop i) = treeIds (ss.take i) ++ treeIds (ss.drop i) := by
    simp only [treeIds, Edit.loc_append, Edit.loc_cons, List.map_append]
    simp [Edit.emptyRequireBlock, Edit.locStmt]
  have h2 : treeIds ss = treeIds (ss.take i) ++ treeIds (ss.drop i) := by
    conv => lhs; rw [← List.take_append_drop i ss]
    simp only [treeIds, Edit.loc_append, List.map_append]
  rw [h1, h2]

theorem indirectPlan_ids (oneFlat : Bool) (ml : List (Nat × Nat)) (ss : List Expr) (d : Nat) (dO li ish : Option Nat)
    (ctx : SepCtx) (s : List Expr) (h : indirectPlan oneFlat ml ss d dO li ish = .ok (ctx, s)) : (treeIds s).Perm (treeIds ss) := by
  unfold indirectPlan at h
  split at h
  · simp only [Except.ok.injEq, Prod.mk.injEq] at h
    rw [← h.2, insertAt_ids]
  · split at h
    · cases h
    · rename_i s' he
      simp only [Except.ok.injEq, Prod.mk.injEq] at h
      rw [← h.2]
      exact ensureBlock_ids _ _ _ he

theorem sepPlan_ids (e : EFile) (ctx : SepCtx) (s : List Expr) (h : sepPlan e = .ok (ctx, s)) :
    (treeIds s).Perm (treeIds e.f.syn.stmts) := by
  unfold sepPlan at h
  simp only [] at h
  split at h
  · split at h
    · have := indirectPlan_ids _ _ _ _ _ _ _ _ _ h
      rwa [insertAt_ids] at this
    · split at h
      · have := indirectPlan_ids _ _ _ _ _ _ _ _ _ h
        rwa [insertAt_ids] at this
      · have := indirectPlan_ids _ _ _ _ _ _ _ _ _ h
        have h2 : treeIds (e.f.syn.stmts ++ [Edit.emptyRequireBlock]) = treeIds e.f.syn.stmts := by
          simp only [treeIds, Edit.loc_append, List.map_append]
          simp [Edit.emptyRequireBlock, Edit.loc, Edit.locStmt]
        rwa [h2] at this
  · split at h
    · cases h
    · rename_i s' he
      exact (indirectPlan_ids _ _ _ _ _ _ _ _ _ h).trans (ensureBlock_ids _ _ _ he)

theorem IdOK.of_perm {ss ss' : List Expr} {next : Nat} (h : IdOK ss next) (hp : (treeIds ss').Perm (treeIds ss)) : IdOK ss' next :=
  ⟨hp.nodup_iff.2 h.1, fun i hi => h.2 i (hp.subset hi)⟩

theorem moveExisting_idOK (syn : FileSyntax) (i idx next : Nat) (h : IdOK syn.stmts next) :
    IdOK (Edit.moveExisting syn i idx next).stmts (next + 1) := by
  unfold Edit.moveExisting
  split
  · exact ⟨h.1, fun j hj => by have := h.2 j hj; omega⟩
  · rename_i old ho
    have h1 : IdOK (syn.updateLine i fun l => { l with token := [] }).stmts next := by
      unfold IdOK
      rw [Edit.treeIds_updateLine syn i (fun l => { l with token := [] }) h.1 (fun _ => rfl)]
      exact h
    exact appendToBlock_idOK _ idx _ next h1 rfl

end ModVerif.Tie.FnEditFuelK
