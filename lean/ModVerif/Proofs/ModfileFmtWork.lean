/-
  C02 stage 4 for go.work files, part a: directive values of a `WorkFile`, the simulation relation between
  two `WorkFile.add` runs, well-formedness, and the shape of one `WorkFile.add` step, verb by verb.
  (Port of ModfileFmtDir / ModfileFmtDir2 from `File.add` to `WorkFile.add`.)
-/
import ModVerif.Model.Modfile.Work
import ModVerif.Proofs.ModfileFmtDir6
namespace ModVerif.Proofs.ModfileFmtWork
open ModVerif ModVerif.Modfile ModVerif.Proofs.ModfileFmtLex ModVerif.Proofs.ModfileFmtLine
open ModVerif.Proofs.ModfileFmtFix ModVerif.Proofs.ModfileFmtDir

/-- The directive values of a go.work file: everything `WorkFile.add` derives from the tokens, without line
    identities.  (`Use.modulePath` is never set by `ParseWork` and is not part of the values.) -/
structure WorkValues where
  go : Option Bytes
  toolchain : Option Bytes
  godebug : List (Bytes × Bytes)
  use : List Bytes
  replace : List (ModVersion × ModVersion)

def workValues (f : WorkFile) : WorkValues :=
  { go := f.go.map (·.version)
    toolchain := f.toolchain.map (·.name)
    godebug := f.godebug.map fun g => (g.key, g.value)
    use := f.use.map (·.path)
    replace := f.replace.map fun r => (r.old, r.new) }

/-- two states of the directive layer with the same values and no errors -/
structure WSim (st st' : WorkState) : Prop where
  vals : workValues st.file = workValues st'.file
  errs : st.errsRev = []
  errs' : st'.errsRev = []

/-- the well-formed go.work files of the property: every path non-empty and not a lone bracket/comma, every
    non-empty replace version a valid semantic version -/
structure WorkWellFormed (f : WorkFile) : Prop where
  use : ∀ u ∈ f.use, PathOK u.path
  replace : ∀ r ∈ f.replace, PathOK r.old.path ∧ (r.old.version ≠ [] → VerOK r.old.version) ∧
    PathOK r.new.path ∧ (r.new.version ≠ [] → VerOK r.new.version)

theorem workValues_go_isSome {f g : WorkFile} (h : workValues f = workValues g) : f.go.isSome = g.go.isSome := by
  have := congrArg WorkValues.go h
  simp only [workValues] at this
  cases hf : f.go <;> cases hg : g.go <;> simp_all

theorem workValues_toolchain_isSome {f g : WorkFile} (h : workValues f = workValues g) :
    f.toolchain.isSome = g.toolchain.isSome := by
  have := congrArg WorkValues.toolchain h
  simp only [workValues] at this
  cases hf : f.toolchain <;> cases hg : g.toolchain <;> simp_all

/-! ### verbs are pairwise different -/

theorem work_verb_ne :
    (B "toolchain" == B "go") = false ∧
    (B "godebug" == B "go") = false ∧ (B "godebug" == B "toolchain") = false ∧
    (B "use" == B "go") = false ∧ (B "use" == B "toolchain") = false ∧ (B "use" == B "godebug") = false ∧
    (B "replace" == B "go") = false ∧ (B "replace" == B "toolchain") = false ∧
    (B "replace" == B "godebug") = false ∧ (B "replace" == B "use") = false := by decide +kernel

/-- the result of one successful `WorkFile.add` step and its replay on the rewritten arguments -/
structure WStepOK (st st1 : WorkState) (verb : Bytes) (args1 : List Bytes) (fix : Option Fixer) : Prop where
  errs : st.errsRev = []
  replay : ∀ (st' : WorkState) (l' : Line), WSim st st' → l'.comments.suffix = [] →
    ∃ st1', WorkFile.add st' l' verb args1 fix = (st1', args1) ∧ WSim st1 st1'

theorem workValues_eq_iff (f g : WorkFile) : workValues f = workValues g ↔
    f.go.map (·.version) = g.go.map (·.version) ∧
    f.toolchain.map (·.name) = g.toolchain.map (·.name) ∧
    f.godebug.map (fun x => (x.key, x.value)) = g.godebug.map (fun x => (x.key, x.value)) ∧
    f.use.map (·.path) = g.use.map (·.path) ∧
    f.replace.map (fun r => (r.old, r.new)) = g.replace.map (fun r => (r.old, r.new)) := by
  simp [workValues]

theorem work_err_ne_nil (st : WorkState) (p : Position) (k : RuleErrKind) : (st.err p k).errsRev ≠ [] := by
  simp [WorkState.err]

/-- `go` -/
theorem work_add_go (st st1 : WorkState) (l : Line) (args args1 : List Bytes) (fix : Option Fixer)
    (h : WorkFile.add st l (B "go") args fix = (st1, args1)) (he : st1.errsRev = []) :
    WStepOK st st1 (B "go") args1 fix ∧ (∃ a, args1 = [a] ∧ args = args1 ∧ goVersionRE a = true ∧
      st1.file = { st.file with go := some { version := a, lineId := l.id } }) := by
  unfold WorkFile.add at h
  simp only [beq_self_eq_true, if_true] at h
  split at h
  · simp only [Prod.mk.injEq] at h; obtain ⟨rfl, _⟩ := h; exact absurd he (work_err_ne_nil _ _ _)
  · rename_i hgo
    split at h
    · rename_i a
      split at h
      · simp only [Prod.mk.injEq] at h; obtain ⟨rfl, _⟩ := h; exact absurd he (work_err_ne_nil _ _ _)
      · rename_i hre
        have hre' : goVersionRE a = true := by simpa using hre
        simp only [Prod.mk.injEq] at h
        obtain ⟨rfl, rfl⟩ := h
        refine ⟨⟨he, ?_⟩, a, rfl, rfl, hre', rfl⟩
        intro st' l' hsim _
        have hgo' : st'.file.go.isSome = false := by
          rw [← workValues_go_isSome hsim.vals]; simpa using hgo
        refine ⟨{ st' with file := { st'.file with go := some { version := a, lineId := l'.id } } }, ?_, ?_⟩
        · unfold WorkFile.add
          simp only [beq_self_eq_true, if_true, hgo', hre', Bool.not_true, Bool.false_eq_true, if_false]
        · have hv := (workValues_eq_iff _ _).1 hsim.vals
          exact ⟨(workValues_eq_iff _ _).2 ⟨rfl, hv.2⟩, he, hsim.errs'⟩
    · simp only [Prod.mk.injEq] at h; obtain ⟨rfl, _⟩ := h; exact absurd he (work_err_ne_nil _ _ _)

/-- `toolchain` -/
theorem work_add_toolchain (st st1 : WorkState) (l : Line) (args args1 : List Bytes)
    (fix : Option Fixer) (h : WorkFile.add st l (B "toolchain") args fix = (st1, args1))
    (he : st1.errsRev = []) :
    WStepOK st st1 (B "toolchain") args1 fix ∧
      (∃ a, args1 = [a] ∧ args = args1 ∧ toolchainRE a = true ∧
        st1.file = { st.file with toolchain := some { name := a, lineId := l.id } }) := by
  unfold WorkFile.add at h
  simp only [beq_self_eq_true, if_true, work_verb_ne.1, Bool.false_eq_true, if_false] at h
  split at h
  · simp only [Prod.mk.injEq] at h; obtain ⟨rfl, _⟩ := h; exact absurd he (work_err_ne_nil _ _ _)
  · rename_i htc
    split at h
    · rename_i a
      split at h
      · simp only [Prod.mk.injEq] at h; obtain ⟨rfl, _⟩ := h; exact absurd he (work_err_ne_nil _ _ _)
      · rename_i hre
        have hre' : toolchainRE a = true := by simpa using hre
        simp only [Prod.mk.injEq] at h
        obtain ⟨rfl, rfl⟩ := h
        refine ⟨⟨he, ?_⟩, a, rfl, rfl, hre', rfl⟩
        intro st' l' hsim _
        have htc' : st'.file.toolchain.isSome = false := by
          rw [← workValues_toolchain_isSome hsim.vals]; simpa using htc
        refine ⟨{ st' with file := { st'.file with toolchain := some { name := a, lineId := l'.id } } }, ?_, ?_⟩
        · unfold WorkFile.add
          simp only [beq_self_eq_true, if_true, work_verb_ne.1, htc', hre', Bool.not_true, Bool.false_eq_true,
            if_false]
        · have hv := (workValues_eq_iff _ _).1 hsim.vals
          exact ⟨(workValues_eq_iff _ _).2 ⟨hv.1, rfl, hv.2.2⟩, he, hsim.errs'⟩
    · simp only [Prod.mk.injEq] at h; obtain ⟨rfl, _⟩ := h; exact absurd he (work_err_ne_nil _ _ _)

/-- `godebug` -/
theorem work_add_godebug (st st1 : WorkState) (l : Line) (args args1 : List Bytes)
    (fix : Option Fixer) (h : WorkFile.add st l (B "godebug") args fix = (st1, args1))
    (he : st1.errsRev = []) :
    WStepOK st st1 (B "godebug") args1 fix ∧
      (∃ k v, args = args1 ∧ addGodebug args1 = some (k, v) ∧
        st1.file = { st.file with godebug := st.file.godebug ++ [{ key := k, value := v, lineId := l.id }] }) := by
  unfold WorkFile.add at h
  simp only [beq_self_eq_true, if_true, work_verb_ne.2.1, work_verb_ne.2.2.1, Bool.false_eq_true, if_false] at h
  split at h
  · simp only [Prod.mk.injEq] at h; obtain ⟨rfl, _⟩ := h; exact absurd he (work_err_ne_nil _ _ _)
  · rename_i k v hg
    simp only [Prod.mk.injEq] at h
    obtain ⟨rfl, rfl⟩ := h
    refine ⟨⟨he, ?_⟩, k, v, rfl, hg, rfl⟩
    intro st' l' hsim _
    refine ⟨{ st' with file := { st'.file with godebug := st'.file.godebug ++ [{ key := k, value := v, lineId := l'.id }] } }, ?_, ?_⟩
    · unfold WorkFile.add
      simp only [beq_self_eq_true, if_true, work_verb_ne.2.1, work_verb_ne.2.2.1, Bool.false_eq_true, if_false, hg]
    · have hv := (workValues_eq_iff _ _).1 hsim.vals
      refine ⟨(workValues_eq_iff _ _).2 ⟨hv.1, hv.2.1, ?_, hv.2.2.2⟩, he, hsim.errs'⟩
      simp [hv.2.2.1]

/-- `use` -/
theorem work_add_use (st st1 : WorkState) (l : Line) (args args1 : List Bytes)
    (fix : Option Fixer) (h : WorkFile.add st l (B "use") args fix = (st1, args1))
    (he : st1.errsRev = []) :
    WStepOK st st1 (B "use") args1 fix ∧
      (∃ a s, args = [a] ∧ parseString a = some (s, autoQuote s) ∧ args1 = [autoQuote s] ∧
        st1.file = { st.file with use := st.file.use ++ [{ path := s, lineId := l.id }] }) := by
  obtain ⟨v1, v2, v3, v4, v5, v6, v7, v8, v9, v10⟩ := work_verb_ne
  unfold WorkFile.add at h
  simp only [beq_self_eq_true, if_true, v4, v5, v6, Bool.false_eq_true, if_false] at h
  split at h
  · rename_i a
    split at h
    · simp only [Prod.mk.injEq] at h; obtain ⟨rfl, _⟩ := h; exact absurd he (work_err_ne_nil _ _ _)
    · rename_i s a' hps
      simp only [Prod.mk.injEq] at h
      obtain ⟨rfl, rfl⟩ := h
      have ha' := ModfileFmtDir.parseString_tok hps
      subst ha'
      refine ⟨⟨he, ?_⟩, a, s, rfl, hps, rfl, rfl⟩
      intro st' l' hsim _
      refine ⟨{ st' with file := { st'.file with use := st'.file.use ++ [{ path := s, lineId := l'.id }] } }, ?_, ?_⟩
      · unfold WorkFile.add
        simp only [beq_self_eq_true, if_true, v4, v5, v6, Bool.false_eq_true, if_false,
          ModfileFmtQuote.parseString_autoQuote]
      · have hv := (workValues_eq_iff _ _).1 hsim.vals
        refine ⟨(workValues_eq_iff _ _).2 ⟨hv.1, hv.2.1, hv.2.2.1, ?_, hv.2.2.2.2⟩, he, hsim.errs'⟩
        simp [hv.2.2.2.1]
  · simp only [Prod.mk.injEq] at h; obtain ⟨rfl, _⟩ := h; exact absurd he (work_err_ne_nil _ _ _)

/-- `replace` -/
theorem work_add_replace (st st1 : WorkState) (l : Line) (args args1 : List Bytes)
    (fix : Option Fixer) (h : WorkFile.add st l (B "replace") args fix = (st1, args1))
    (he : st1.errsRev = []) (hfix : FixOK fix) (hne : ∀ fx, fix = some fx → ∀ p' v0, fx p' v0 ≠ .ok []) :
    ∃ r, st1.file = { st.file with replace := st.file.replace ++ [r] } ∧ args1 = replaceToks r ∧
      (((fix ≠ none) → (r.old.version ≠ [] → VerOK r.old.version) ∧ (r.new.version ≠ [] → VerOK r.new.version)) →
        WStepOK st st1 (B "replace") args1 fix ∧
        (r.old.version ≠ [] → VerOK r.old.version) ∧ (r.new.version ≠ [] → VerOK r.new.version)) := by
  obtain ⟨v1, v2, v3, v4, v5, v6, v7, v8, v9, v10⟩ := work_verb_ne
  unfold WorkFile.add at h
  simp only [beq_self_eq_true, if_true, v7, v8, v9, v10, Bool.false_eq_true, if_false] at h
  split at h
  · simp only [Prod.mk.injEq] at h; obtain ⟨rfl, _⟩ := h; exact absurd he (work_err_ne_nil _ _ _)
  · rename_i args' r hpr
    simp only [Prod.mk.injEq] at h
    obtain ⟨rfl, rfl⟩ := h
    refine ⟨r, rfl, parseReplace_toks hpr hne, ?_⟩
    intro hval
    have hfix' : fix = none ∨ (∃ fx, fix = some fx ∧ (∀ p' v0 w, fx p' v0 = .ok w → fx p' w = .ok w) ∧
        (r.old.version ≠ [] → Semver.isValid r.old.version = true) ∧
        (r.new.version ≠ [] → Semver.isValid r.new.version = true)) := by
      rcases hfix with h0 | ⟨fx, h1, h2⟩
      · exact Or.inl h0
      · have := hval (by rw [h1]; simp)
        exact Or.inr ⟨fx, h1, h2, this.1, this.2⟩
    obtain ⟨hre, _, hnone⟩ := parseReplace_fix hpr hfix'
    have hvers : (r.old.version ≠ [] → VerOK r.old.version) ∧ (r.new.version ≠ [] → VerOK r.new.version) := by
      by_cases hf : fix = none
      · exact hnone hf
      · exact hval hf
    refine ⟨⟨he, ?_⟩, hvers⟩
    intro st' l' hsim _
    refine ⟨{ st' with file := { st'.file with replace := st'.file.replace ++ [{ r with lineId := l'.id }] } }, ?_, ?_⟩
    · unfold WorkFile.add
      simp only [beq_self_eq_true, if_true, v7, v8, v9, v10, Bool.false_eq_true, if_false, hre l'.id]
    · have hv := (workValues_eq_iff _ _).1 hsim.vals
      refine ⟨(workValues_eq_iff _ _).2 ⟨hv.1, hv.2.1, hv.2.2.1, hv.2.2.2.1, ?_⟩, he, hsim.errs'⟩
      simp [hv.2.2.2.2]

/-! ### errors only accumulate -/

theorem work_add_errs_mono (st : WorkState) (l : Line) (verb : Bytes) (args : List Bytes) (fix : Option Fixer) :
    st.errsRev <:+ (WorkFile.add st l verb args fix).1.errsRev := by
  unfold WorkFile.add
  dsimp only
  by_cases h1 : (verb == B "go") = true
  · rw [if_pos h1]
    repeat' (first | exact List.suffix_refl _ | exact List.suffix_cons _ _ | split)
  rw [if_neg h1]
  by_cases h2 : (verb == B "toolchain") = true
  · rw [if_pos h2]
    repeat' (first | exact List.suffix_refl _ | exact List.suffix_cons _ _ | split)
  rw [if_neg h2]
  by_cases h4 : (verb == B "godebug") = true
  · rw [if_pos h4]
    repeat' (first | exact List.suffix_refl _ | exact List.suffix_cons _ _ | split)
  rw [if_neg h4]
  by_cases h5 : (verb == B "use") = true
  · rw [if_pos h5]
    repeat' (first | exact List.suffix_refl _ | exact List.suffix_cons _ _ | split)
  rw [if_neg h5]
  by_cases h6 : (verb == B "replace") = true
  · rw [if_pos h6]
    repeat' (first | exact List.suffix_refl _ | exact List.suffix_cons _ _ | split)
  rw [if_neg h6]
  exact List.suffix_cons _ _

end ModVerif.Proofs.ModfileFmtWork
