/-
  C10: the main theorems for the RFC 6962 true hashes over a store satisfying the C09 store invariant.
-/
import ModVerif.Proofs.TileAuthHonest
import ModVerif.Proofs.TlogStoreSplit
namespace ModVerif.TileAuth
open ModVerif ModVerif.Tlog ModVerif.Tile ModVerif.TlogStore ModVerif.RFC6962

/-- a coordinate inside the tree is stored below `S N` -/
theorem idx_lt_S (N l k : Nat) (h : (k + 1) * 2 ^ l ≤ N) : storedHashIndex l k < S N := by
  have := storedHashIndex_layout N l k h
  have := (List.getElem?_eq_some_iff.mp this).1
  rw [layout_length] at this
  exact this

theorem plan_zero_stx (h : Nat) (idx : List Nat) (p : Plan) (hp : plan h 0 idx = .ok p) : p.stx = [] := by
  unfold plan at hp
  have h1 : subTreeIndex 0 0 = .ok [] := rfl
  have h2 : planStx h 0 [] ([], [], []) = .ok ([], [], []) := rfl
  simp only [h1, h2, bind, Except.bind] at hp
  cases h3 : planIndexes h 0 idx ([], [], []) with
  | error e => rw [h3] at hp; cases hp
  | ok r =>
    rw [h3] at hp
    simp only [pure, Except.pure, Except.ok.injEq] at hp
    rw [← hp]

section
variable {H : Type} (leaf : Bytes → H) (node : H → H → H) (empty : H)

/-- the RFC 6962 hash of the complete subtree `(l, k)` of the log -/
def trueHash (D : List Bytes) (l k : Nat) : H := mth node empty (leavesOf (D.map leaf) l k)

/-- the store invariant of C09 provides everything the tile proofs need -/
theorem env_of_storeOK (D : List Bytes) (st : List H) (hok : StoreOK leaf node empty D st) (hR : D.length < 2 ^ 62) :
    Env node (trueHash leaf node empty D) D.length st := by
  refine ⟨?_, ?_, ?_⟩
  · intro l k hv
    exact mth_leavesOf_succ node empty (D.map leaf) l k (by simpa using hv)
  · intro l k hv
    exact storeOK_get leaf node empty D st hok l k hv
  · intro l k hv
    apply split_storedHashIndex
    have := idx_lt_S D.length l k hv
    have := S_le_two_mul D.length
    omega

theorem root_of_cover (D : List Bytes) (hpos : 0 < D.length) (cs : List (Nat × Nat)) (hc : Cover cs 0 D.length) :
    foldR node (cs.map fun c => trueHash leaf node empty D c.1 c.2) = some (mth node empty (D.map leaf)) := by
  have := mth_cover node empty (D.map leaf) cs 0 D.length hc hpos (by simp)
  rw [slice_zero, List.take_of_length_le (by simp)] at this
  exact this

variable [DecidableEq H]

/-- ★ C10, security half.  For every log `D` (below `2^62` records) whose store satisfies the C09 invariant, every tile
    height `h ≥ 1`, every request and EVERY tile server `serve`: whatever `ReadHashes` passes to SaveTiles is the true tile,
    and if it returns hashes they are the true stored hashes — provided `NodeHash` is collision free and the tree head
    is the true one. -/
theorem readHashes_authenticated (D : List Bytes) (st : List H) (hok : StoreOK leaf node empty D st)
    (hR : D.length < 2 ^ 62) (hcf : ∀ a b c d : H, node a b = node c d → a = c ∧ b = d)
    (h : Nat) (hh : 1 ≤ h) (idx : List Nat) (serve : Tile → Option (List H)) :
    (∀ sv, (readHashes node D.length (mth node empty (D.map leaf)) h idx serve).saved = some sv →
        ∀ td ∈ sv, trueTile st td.1 = some td.2) ∧
    (∀ hs, (readHashes node D.length (mth node empty (D.map leaf)) h idx serve).result = .ok hs →
        idx.mapM (st[·]?) = some hs) := by
  by_cases hpos : 0 < D.length
  · exact readHashes_authenticated_abs node (trueHash leaf node empty D) D.length _ st hcf
      (env_of_storeOK leaf node empty D st hok hR) (root_of_cover leaf node empty D hpos) h (by omega) (by omega) idx serve
  · have h0 : D.length = 0 := by omega
    rw [h0]
    rcases readHashes_cases node 0 (mth node empty (D.map leaf)) h idx serve with ⟨a1, a2⟩ | ⟨p, data, b1, b2, _⟩
    · refine ⟨(by intro sv hsv; rw [a1] at hsv; cases hsv), ?_⟩
      intro hs hr
      obtain ⟨e1, e2⟩ := a2 hs hr
      subst e1 e2; rfl
    · exact absurd (plan_zero_stx h idx p b1) b2

/-- ★ C10, honest half.  Against the honest server (`trueTile st`) every check passes for every request inside the tree:
    the planned tiles are all served, the result is the list of true stored hashes, and SaveTiles receives exactly the
    planned tiles with their true contents.  In particular `plan` succeeds (`plan_terminates`). -/
theorem honest_reads_true (D : List Bytes) (st : List H) (hok : StoreOK leaf node empty D st)
    (hR : D.length < 2 ^ 62) (hpos : 0 < D.length) (h : Nat) (h1 : 1 ≤ h) (h2 : h ≤ 30) (idx : List Nat)
    (hidx : ∀ x ∈ idx, x < storedHashIndex 0 D.length) :
    ∃ p data hs, plan h D.length idx = .ok p ∧ p.tiles.mapM (trueTile st) = some data ∧
      idx.mapM (st[·]?) = some hs ∧
      (readHashes node D.length (mth node empty (D.map leaf)) h idx (trueTile st)).saved = some (p.tiles.zip data) ∧
      (readHashes node D.length (mth node empty (D.map leaf)) h idx (trueTile st)).result = .ok hs :=
  honest_abs node (trueHash leaf node empty D) D.length _ st (env_of_storeOK leaf node empty D st hok hR)
    (root_of_cover leaf node empty D hpos) h h1 h2 (by omega) hpos idx hidx

/-- ★ C10: an error is only ever raised before SaveTiles (collision freedom, true tree head, `1 ≤ h ≤ 30`): when
    `ReadHashes` fails, nothing has been handed to the cache. -/
theorem error_saves_nothing (D : List Bytes) (st : List H) (hok : StoreOK leaf node empty D st)
    (hR : D.length < 2 ^ 62) (hcf : ∀ a b c d : H, node a b = node c d → a = c ∧ b = d)
    (h : Nat) (h1 : 1 ≤ h) (h2 : h ≤ 30) (idx : List Nat) (serve : Tile → Option (List H)) (e : Err)
    (herr : (readHashes node D.length (mth node empty (D.map leaf)) h idx serve).result = .error e) :
    (readHashes node D.length (mth node empty (D.map leaf)) h idx serve).saved = none := by
  by_cases hpos : 0 < D.length
  · exact error_saves_nothing_abs node (trueHash leaf node empty D) D.length _ st hcf
      (env_of_storeOK leaf node empty D st hok hR) (root_of_cover leaf node empty D hpos) h h1 h2 (by omega) idx serve e herr
  · have h0 : D.length = 0 := by omega
    rw [h0] at herr ⊢
    rcases readHashes_cases node 0 (mth node empty (D.map leaf)) h idx serve with ⟨a1, _⟩ | ⟨p, data, b1, b2, _⟩
    · exact a1
    · exact absurd (plan_zero_stx h idx p b1) b2

end

/-! ### plan_terminates / plan_parents_first without reference to a store -/

/-- the split/index bijection on the coordinates of a tree below `2^62` records -/
theorem split_valid (N : Nat) (hR : N < 2 ^ 62) (l k : Nat) (hv : (k + 1) * 2 ^ l ≤ N) :
    splitStoredHashIndex (storedHashIndex l k) = .ok (l, k) := by
  apply split_storedHashIndex
  have := idx_lt_S N l k hv
  have := S_le_two_mul N
  omega

theorem hidx_of_lt (N : Nat) (hR : N < 2 ^ 62) (idx : List Nat) (h : ∀ x ∈ idx, x < storedHashIndex 0 N) :
    ∀ x ∈ idx, x < storedHashIndex 0 N ∧ ∃ c : Nat × Nat, splitStoredHashIndex x = .ok c ∧ (c.2 + 1) * 2 ^ c.1 ≤ N := by
  intro x hx
  have hlt := h x hx
  rw [storedHashIndex_zero_eq] at hlt
  obtain ⟨l, k, h1, h2⟩ := index_decomp N x hlt
  exact ⟨h x hx, (l, k), by rw [← h2]; exact split_valid N hR l k h1, h1⟩

/-- ★ `plan` terminates successfully on every request inside the tree: `walkUp` never exhausts its fuel (the code's
    unbounded `for ; ; k++` loop terminates), the "must be full" `badMath` return is unreachable, no panic. -/
theorem plan_terminates (h N : Nat) (hh : 1 ≤ h) (hR : N < 2 ^ 62) (idx : List Nat)
    (hidx : ∀ x ∈ idx, x < storedHashIndex 0 N) : ∃ p, plan h N idx = .ok p := by
  obtain ⟨_, p, hp, _⟩ := plan_spec h N (by omega) (by omega) (split_valid N hR) idx (hidx_of_lt N hR idx hidx)
  exact ⟨p, hp⟩

/-- ★ every planned tile from position `nstx` on is full and its parent occurs earlier in the list; the tileOrder map
    is the position map of the tile list (so the list has no duplicates), and `Tile.zero` is never planned. -/
theorem plan_parents_first (h N : Nat) (hh : 1 ≤ h) (hR : N < 2 ^ 62) (idx : List Nat) (p : Plan)
    (hp : plan h N idx = .ok p) :
    (∀ (i : Nat) (t : Tile), p.nstx ≤ i → p.tiles[i]? = some t →
        t.w = 2 ^ h ∧ ∃ j, j < i ∧ p.tiles[j]? = some (tileParent t 1 N) ∧ p.order.lookup (tileParent t 1 N) = some j) ∧
    (∀ (t : Tile) (j : Nat), p.order.lookup t = some j ↔ p.tiles[j]? = some t) ∧
    p.tiles.Nodup ∧ Tile.zero ∉ p.tiles ∧ p.nstx ≤ p.tiles.length := by
  have hidx := plan_ok_lt h N idx p hp
  obtain ⟨cs, p', hp', ok⟩ := plan_spec h N (by omega) (by omega) (split_valid N hR) idx (hidx_of_lt N hR idx hidx)
  rw [hp] at hp'; cases hp'
  refine ⟨?_, ok.inv.look, ?_, ?_, ok.nstxLe⟩
  · intro i t hi ht
    obtain ⟨a, j, b, c⟩ := ok.inv.child i t hi ht
    exact ⟨a, j, b, c, (ok.inv.look _ j).mpr c⟩
  · rw [List.nodup_iff_pairwise_ne, List.pairwise_iff_getElem]
    intro i j hi hj hij heq
    have e1 : p.tiles[i]? = some p.tiles[i] := List.getElem?_eq_getElem hi
    have e2 : p.tiles[j]? = some p.tiles[i] := by rw [heq]; exact List.getElem?_eq_getElem hj
    have := look_inj ok.inv.look _ i j e1 e2
    omega
  · intro hz
    obtain ⟨L, n, e, hlt⟩ := ok.inv.std _ hz
    have := (stdTile_ne_zero h N L n (by omega)).mpr hlt
    exact this e.symm

end ModVerif.TileAuth
