/-
  EditWork, part 7 — C16 `perm_independent` on the syntax tree, up to the fresh line ids: the lines a bulk setter adds in
  map-iteration order land in ONE block (Proofs/EditWorkPermA.lean), have pairwise different tokens, and SortBlocks sorts
  that block by `lineLess`; so the two trees are equal once the ids handed out by the setter (those `≥ next`) are erased
  (`normStmt`).  Generic part: `landing_perm_invariant`.
-/
import ModVerif.Proofs.EditWorkPermA
import ModVerif.Proofs.EditWorkPerm
set_option linter.unusedSimpArgs false
namespace ModVerif.Modfile.Edit
open ModVerif ModVerif.Modfile ModVerif.EditSpec

/-! ### erasing the fresh ids -/

/-- every id `≥ n` becomes `n` -/
def normLine (n : Nat) (l : Line) : Line := if n ≤ l.id then { l with id := n } else l

def normStmt (n : Nat) : Expr → Expr
  | .line l => .line (normLine n l)
  | .lineBlock b => .lineBlock { b with lines := b.lines.map (normLine n) }
  | x => x

theorem normLine_token (n : Nat) (l : Line) : (normLine n l).token = l.token := by
  unfold normLine; split <;> rfl

theorem normLine_contains (n : Nat) (K : List Nat) (hK : ∀ k ∈ K, k < n) (l : Line) :
    K.contains (normLine n l).id = K.contains l.id := by
  unfold normLine
  split
  · rename_i h
    have h1 : K.contains n = false := by
      cases hc : K.contains n with
      | false => rfl
      | true => have := hK n (by simpa using hc); omega
    have h2 : K.contains l.id = false := by
      cases hc : K.contains l.id with
      | false => rfl
      | true => have := hK l.id (by simpa using hc); omega
    show K.contains n = K.contains l.id
    rw [h1, h2]
  · rfl

theorem dropKilled_append (K : List Nat) : ∀ xs ys : List Expr, dropKilled K (xs ++ ys) = dropKilled K xs ++ dropKilled K ys := by
  intro xs ys
  induction xs with
  | nil => rfl
  | cons x xs ih =>
    cases x with
    | line l =>
      simp only [List.cons_append, dropKilled]
      split <;> simp [ih]
    | lineBlock b =>
      simp only [List.cons_append, dropKilled]
      split <;> simp [ih]
    | commentBlock c => simp only [List.cons_append, dropKilled, ih]
    | lparen c => simp only [List.cons_append, dropKilled, ih]
    | rparen c => simp only [List.cons_append, dropKilled, ih]

/-- removing the duplicates (ids below `n`) commutes with erasing the ids from `n` on -/
theorem dropKilled_norm (n : Nat) (K : List Nat) (hK : ∀ k ∈ K, k < n) : ∀ xs : List Expr,
    (dropKilled K xs).map (normStmt n) = dropKilled K (xs.map (normStmt n)) := by
  intro xs
  induction xs with
  | nil => rfl
  | cons x xs ih =>
    cases x with
    | line l =>
      simp only [List.map_cons, normStmt, dropKilled, normLine_contains n K hK]
      split <;> simp [ih, normStmt]
    | lineBlock b =>
      have hf : (b.lines.map (normLine n)).filter (fun l => !K.contains l.id)
          = (b.lines.filter (fun l => !K.contains l.id)).map (normLine n) := by
        rw [List.filter_map]
        congr 1
        apply List.filter_congr
        intro l _
        simp only [Function.comp, normLine_contains n K hK]
      simp only [List.map_cons, normStmt, dropKilled, hf, List.isEmpty_map]
      split <;> simp [ih, normStmt]
    | commentBlock c => simp only [List.map_cons, dropKilled, normStmt, ih]
    | lparen c => simp only [List.map_cons, dropKilled, normStmt, ih]
    | rparen c => simp only [List.map_cons, dropKilled, normStmt, ih]

/-- the sort commutes with erasing ids -/
theorem sortStmts_norm (n : Nat) (sem work : Bool) (xs : List Expr) :
    (sortStmts sem work xs).map (normStmt n) = sortStmts sem work (xs.map (normStmt n)) := by
  unfold sortStmts
  rw [List.map_map, List.map_map]
  apply List.map_congr_left
  intro x _
  cases x with
  | lineBlock b =>
    simp only [Function.comp, normStmt]
    rw [stableSort_map_token _ (normLine n) (normLine_token n)]
  | line l => rfl
  | commentBlock c => rfl
  | lparen c => rfl
  | rparen c => rfl

theorem sortStmts_append (sem work : Bool) (xs ys : List Expr) :
    sortStmts sem work (xs ++ ys) = sortStmts sem work xs ++ sortStmts sem work ys := by
  simp [sortStmts]

/-! ### one block that received the new lines -/

/-- SortBlocks on a block with verb `verb` (sorted by `lineLess`) to which fresh lines with pairwise different tokens were
    appended: the result does not depend on the order in which they were appended, up to the fresh ids -/
theorem block_perm_invariant (n : Nat) (K : List Nat) (hK : ∀ k ∈ K, k < n) (sem work : Bool) (blk : LineBlock)
    (hless : lessFor sem work blk.token = lineLess) (base new1 new2 : List Line)
    (hid1 : ∀ l ∈ new1, n ≤ l.id) (hid2 : ∀ l ∈ new2, n ≤ l.id)
    (hp : (new1.map (normLine n)).Perm (new2.map (normLine n))) (hd : new1.Pairwise (fun a b => a.token ≠ b.token)) :
    (sortStmts sem work (dropKilled K [.lineBlock { blk with lines := base ++ new1 }])).map (normStmt n)
      = (sortStmts sem work (dropKilled K [.lineBlock { blk with lines := base ++ new2 }])).map (normStmt n) := by
  have hkeep : ∀ (news : List Line), (∀ l ∈ news, n ≤ l.id) → news.filter (fun l => !K.contains l.id) = news := by
    intro news h
    apply List.filter_eq_self.2
    intro l hl
    cases hc : K.contains l.id with
    | false => rfl
    | true => have := hK l.id (by simpa using hc); have := h l hl; omega
  have hlen : new1.length = new2.length := by simpa using hp.length_eq
  simp only [dropKilled, List.filter_append, hkeep new1 hid1, hkeep new2 hid2]
  have hemp : (base.filter (fun l => !K.contains l.id) ++ new1).isEmpty = (base.filter (fun l => !K.contains l.id) ++ new2).isEmpty := by
    cases new1 with
    | nil => cases new2 with
      | nil => rfl
      | cons _ _ => simp at hlen
    | cons x1 t1 => cases new2 with
      | nil => simp at hlen
      | cons x2 t2 =>
        have he : ∀ (A : List Line) (x : Line) (t : List Line), (A ++ x :: t).isEmpty = false := by
          intro A x t; cases A <;> rfl
        rw [he, he]
  rw [hemp]
  split
  · rfl
  · simp only [sortStmts, List.map_cons, List.map_nil, normStmt]
    have hl : (if work = true then lineLess else if (headIs blk.token (B "exclude") && sem) = true then lineExcludeLess
        else if headIs blk.token (B "retract") = true then lineRetractLess else lineLess) = lineLess := by
      have := hless; unfold lessFor at this; exact this
    rw [hl, stableSort_lineLess_perm_invariant_modIds (normLine n) (normLine_token n) _ new1 new2 hp hd]

/-! ### the whole tree -/

/-- the additions of one run: common verb, non-empty tokens, well-behaved updates, ids from `n` on -/
structure GoodAdds (verb : Bytes) (n : Nat) (ps : List (List Bytes × Nat × (Line → Line))) : Prop where
  verb : ∀ p ∈ ps, p.1.head?.getD [] = verb
  ne : ∀ p ∈ ps, p.1 ≠ []
  good : ∀ p ∈ ps, GoodG p.2.2
  nodup : (ps.map (·.2.1)).Nodup
  ge : ∀ p ∈ ps, n ≤ p.2.1

theorem GoodAdds.fresh {verb : Bytes} {n : Nat} {ps : List (List Bytes × Nat × (Line → Line))} (h : GoodAdds verb n ps)
    {stmts : List Expr} (hlt : ∀ i ∈ treeIds stmts, i < n) : FreshFor stmts ps :=
  ⟨h.nodup, fun p hp hm => by have := hlt _ hm; have := h.ge p hp; omega⟩

theorem take_one_verb {t : List Bytes} {verb : Bytes} (hne : t ≠ []) (hv : t.head?.getD [] = verb) : t.take 1 = [verb] := by
  cases t with
  | nil => exact absurd rfl hne
  | cons a as => simpa using hv

theorem mkG_ge {verb : Bytes} {n : Nat} {ps : List (List Bytes × Nat × (Line → Line))} (h : GoodAdds verb n ps) :
    ∀ l ∈ ps.map mkG, n ≤ l.id := by
  intro l hl
  rcases List.mem_map.1 hl with ⟨p, hp, rfl⟩
  rw [mkG_id p (h.good p hp)]; exact h.ge p hp

/-- **the generic statement**: two runs of at least two additions each, with the same verb, that are the same up to the
    order and the fresh ids, followed by the de-duplication and the sort of SortBlocks, give the same tree up to the fresh ids -/
theorem landing_perm_invariant (fs : FileSyntax) (verb : Bytes) (n : Nat) (hlt : ∀ i ∈ treeIds fs.stmts, i < n)
    (K : List Nat) (hK : ∀ k ∈ K, k < n) (sem work : Bool)
    (hless : ∀ tok, headIs tok verb = true → lessFor sem work tok = lineLess)
    (ps1 ps2 : List (List Bytes × Nat × (Line → Line))) (h1 : GoodAdds verb n ps1) (h2 : GoodAdds verb n ps2)
    (hl1 : 2 ≤ ps1.length) (hl2 : 2 ≤ ps2.length)
    (hp : ((ps1.map mkG).map (normLine n)).Perm ((ps2.map mkG).map (normLine n)))
    (hd : (ps1.map mkG).Pairwise (fun a b => a.token ≠ b.token)) :
    (sortStmts sem work (dropKilled K (ps1.foldl addStep fs).stmts)).map (normStmt n)
      = (sortStmts sem work (dropKilled K (ps2.foldl addStep fs).stmts)).map (normStmt n) := by
  have hf1 := h1.fresh hlt
  have hf2 := h2.fresh hlt
  -- both runs have the shape `pre ++ [block with lines base ++ news] ++ post` with common `pre`, `post`, block and `base`
  have key : ∃ (pre post : List Expr) (blk : LineBlock) (base : List Line), headIs blk.token verb = true ∧
      (ps1.foldl addStep fs).stmts = pre ++ .lineBlock { blk with lines := base ++ ps1.map mkG } :: post ∧
      (ps2.foldl addStep fs).stmts = pre ++ .lineBlock { blk with lines := base ++ ps2.map mkG } :: post := by
    rcases qual_cases verb fs.stmts with hno | ⟨pre, x, post, hs, hq, hpost⟩
    · rcases ps1 with _ | ⟨a1, _ | ⟨b1, r1⟩⟩
      · simp at hl1
      · simp at hl1
      rcases ps2 with _ | ⟨a2, _ | ⟨b2, r2⟩⟩
      · simp at hl2
      · simp at hl2
      refine ⟨fs.stmts, [], { token := [verb] }, [], by simp [headIs], ?_, ?_⟩
      · rw [addMany_none verb a1 b1 r1 fs hno h1.verb h1.ne h1.good hf1,
          take_one_verb (h1.ne a1 List.mem_cons_self) (h1.verb a1 List.mem_cons_self)]
        simp
      · rw [addMany_none verb a2 b2 r2 fs hno h2.verb h2.ne h2.good hf2,
          take_one_verb (h2.ne a2 List.mem_cons_self) (h2.verb a2 List.mem_cons_self)]
        simp
    · cases x with
      | line l =>
        rcases ps1 with _ | ⟨a1, r1⟩
        · simp at hl1
        rcases ps2 with _ | ⟨a2, r2⟩
        · simp at hl2
        have hqb : headIs (l.token.take 1) verb = true := by
          simp only [Qual, Bool.and_eq_true] at hq
          exact headIs_take_one hq.2
        refine ⟨pre, post, { token := l.token.take 1 }, [{ l with inBlock := true, token := l.token.drop 1 }], hqb, ?_, ?_⟩
        · rw [addMany_line verb pre post hpost l a1 r1 fs hs hq h1.verb h1.good hf1]; simp
        · rw [addMany_line verb pre post hpost l a2 r2 fs hs hq h2.verb h2.good hf2]; simp
      | lineBlock b =>
        have hqb : headIs b.token verb = true := by simpa [Qual] using hq
        exact ⟨pre, post, b, b.lines, hqb,
          addMany_block verb pre post hpost ps1 fs b hs hqb h1.verb h1.good hf1,
          addMany_block verb pre post hpost ps2 fs b hs hqb h2.verb h2.good hf2⟩
      | commentBlock c => simp [Qual] at hq
      | lparen c => simp [Qual] at hq
      | rparen c => simp [Qual] at hq
  rcases key with ⟨pre, post, blk, base, hB, e1, e2⟩
  rw [e1, e2]
  have hsplit : ∀ news : List Line, pre ++ Expr.lineBlock { blk with lines := base ++ news } :: post
      = pre ++ ([Expr.lineBlock { blk with lines := base ++ news }] ++ post) := by intro news; simp
  rw [hsplit, hsplit]
  simp only [dropKilled_append, sortStmts_append, List.map_append]
  congr 2
  exact block_perm_invariant n K hK sem work blk (hless _ hB) base _ _ (mkG_ge h1) (mkG_ge h2) hp hd

end ModVerif.Modfile.Edit
