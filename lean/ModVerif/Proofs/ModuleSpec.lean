/-
  Helper lemmas for C06: the leaf conditions of the model's checkElem / checkPath coincide with the
  independent specification (Spec/PathSpec.lean).
-/
import ModVerif.Model.Module
import ModVerif.Spec.PathSpec
import ModVerif.Proofs.ModulePath
import ModVerif.Proofs.ModuleSplit
namespace ModVerif.Module
open ModVerif

def toSpec : Kind → PathSpec.Kind
  | .module => .module
  | .import_ => .import_
  | .file => .file

theorem modPathOK_iff (r : Nat) : modPathOK r = true ↔ PathSpec.ModChar r := by
  unfold modPathOK PathSpec.ModChar PathSpec.isAsciiLetter PathSpec.isAsciiDigit
  by_cases h : r < 128
  · simp [h]; omega
  · simp [h]; omega

theorem importPathOK_iff (r : Nat) : importPathOK r = true ↔ PathSpec.ImportChar r := by
  unfold importPathOK PathSpec.ImportChar
  simp [modPathOK_iff]

theorem fileNameOK_iff (il : Nat → Bool) (r : Nat) : fileNameOK il r = true ↔ PathSpec.FileChar il r := by
  unfold fileNameOK PathSpec.FileChar PathSpec.isAsciiLetter PathSpec.isAsciiDigit fileNameAllowed
  by_cases h : r < 128
  · simp [h]
    constructor <;> intro h' <;> omega
  · simp [h]; omega

theorem charOK_iff (il : Nat → Bool) (k : Kind) (r : Nat) :
    charOK il k r = true ↔ PathSpec.CharOK il (toSpec k) r := by
  cases k
  · exact modPathOK_iff r
  · exact importPathOK_iff r
  · exact fileNameOK_iff il r

theorem badWindowsNames_eq : badWindowsNames = PathSpec.reserved := by decide +kernel

theorem toUpperAscii_eq (c : UInt8) : toUpperAscii c = PathSpec.upperAscii c := by
  have key : ∀ n, n < 256 → toUpperAscii (UInt8.ofNat n) = PathSpec.upperAscii (UInt8.ofNat n) := by decide +kernel
  have := key c.toNat c.toNat_lt
  simpa using this

theorem windows_iff (short : Bytes) :
    badWindowsNames.any (equalFoldAscii · short) = false ↔ ∀ w ∈ PathSpec.reserved, short.map PathSpec.upperAscii ≠ w := by
  rw [badWindowsNames_eq, List.any_eq_false]
  have hmap : short.map toUpperAscii = short.map PathSpec.upperAscii :=
    List.map_congr_left (fun c _ => toUpperAscii_eq c)
  constructor
  · intro h w hw heq
    apply h w hw
    simp [equalFoldAscii, hmap, heq]
  · intro h w hw heq
    apply h w hw
    simpa [equalFoldAscii, hmap] using heq

theorem shortOf_eq (e : Bytes) : shortOf e = PathSpec.beforeFirstDot e := by
  unfold shortOf PathSpec.beforeFirstDot
  induction e with
  | nil => simp [splitOn]
  | cons c rest ih =>
    by_cases hc : c = 46
    · subst hc; rw [splitOn_cons_sep]; simp
    · obtain ⟨hd, tl, h1, h2⟩ := splitOn_cons_ne 46 c rest hc
      rw [h2]
      rw [h1] at ih
      have : (c != 46) = true := by simpa using hc
      simp [this]
      simpa using ih

theorem dropWhile_cases {α : Type} (p : α → Bool) (l : List α) :
    (l.dropWhile p = [] ∧ ∀ x ∈ l, p x = true) ∨ ∃ x t, l.dropWhile p = x :: t ∧ p x = false := by
  induction l with
  | nil => left; simp
  | cons a l ih =>
    cases hp : p a
    · right; exact ⟨a, l, by simp [hp], hp⟩
    · rcases ih with ⟨h1, h2⟩ | ⟨x, t, h1, h2⟩
      · left; constructor
        · simp [hp, h1]
        · intro x hx; rcases List.mem_cons.mp hx with rfl | hx
          · exact hp
          · exact h2 x hx
      · right; exact ⟨x, t, by simp [hp, h1], h2⟩

theorem looksLikeShortName_iff (s : Bytes) : looksLikeShortName s = true ↔ PathSpec.EndsInTildeDigits s := by
  unfold looksLikeShortName afterLastTilde PathSpec.EndsInTildeDigits
  constructor
  · intro h
    split at h
    · simp at h
    · rename_i suffix hs
      split at hs
      · rename_i hc
        simp only [Option.some.injEq] at hs
        subst hs
        simp only [Bool.and_eq_true, Bool.not_eq_true', List.isEmpty_eq_false_iff] at h
        have hsplit : s.reverse.takeWhile (· != 126) ++ s.reverse.dropWhile (· != 126) = s.reverse :=
          List.takeWhile_append_dropWhile
        rcases dropWhile_cases (· != 126) s.reverse with ⟨_, hall⟩ | ⟨x, t, hd, hx⟩
        · have hm : (126 : UInt8) ∈ s.reverse := by simpa using hc
          have := hall 126 hm
          simp at this
        · have hx' : x = 126 := by simpa using hx
          subst hx'
          refine ⟨t.reverse, (s.reverse.takeWhile (· != 126)).reverse, ?_, h.1, ?_⟩
          · rw [hd] at hsplit
            have := congrArg List.reverse hsplit
            simpa using this.symm
          · intro d hd'
            have := List.all_eq_true.mp h.2 d hd'
            exact (isDigit_iff d).mp this
      · simp at hs
  · rintro ⟨pre, ds, rfl, hne, hdig⟩
    have hc : (pre ++ 126 :: ds).contains 126 = true := by simp
    have hall : ∀ a ∈ ds.reverse, (a != 126) = true := by
      intro a ha
      have := hdig a (by simpa using ha)
      unfold PathSpec.isAsciiDigit at this
      have hne' : a ≠ 126 := by intro h; subst h; simp at this
      simpa using hne'
    have htw : (pre ++ 126 :: ds).reverse.takeWhile (· != 126) = ds.reverse := by
      have : (pre ++ 126 :: ds).reverse = ds.reverse ++ (126 :: pre.reverse) := by simp
      rw [this, List.takeWhile_append_of_pos hall]
      simp
    simp only [hc, if_true, htw, List.reverse_reverse]
    simp only [Bool.and_eq_true, Bool.not_eq_true', List.isEmpty_eq_false_iff]
    refine ⟨hne, ?_⟩
    rw [List.all_eq_true]
    intro d hd
    exact (isDigit_iff d).mpr (hdig d hd)

theorem checkElem_iff (il : Nat → Bool) (k : Kind) (e : Bytes) :
    checkElem il k e = .ok () ↔ PathSpec.ValidElem il (toSpec k) e := by
  rw [checkElem_ok_iff]
  unfold PathSpec.ValidElem
  have e1 : e.isEmpty = false ↔ e ≠ [] := by simp
  have e2 : e.all (· == 46) = false ↔ ¬ (∀ c ∈ e, c = 46) := by
    rw [← Bool.not_eq_true, List.all_eq_true]; simp
  have e3 : (e.head? == some 46 && k == .module) = false ↔ (toSpec k = .module → e.head? ≠ some 46) := by
    cases k <;> simp [toSpec]
  have e4 : (e.getLast? == some 46) = false ↔ e.getLast? ≠ some 46 := by simp
  have e5 : (Utf8.runes e).all (charOK il k) = true ↔ ∀ r ∈ Utf8.runes e, PathSpec.CharOK il (toSpec k) r := by
    rw [List.all_eq_true]
    exact forall_congr' fun r => imp_congr_right fun _ => charOK_iff il k r
  have e6 := windows_iff (shortOf e)
  have e7 : (k == .file || !looksLikeShortName (shortOf e)) = true ↔
      (toSpec k ≠ .file → ¬ PathSpec.EndsInTildeDigits (PathSpec.beforeFirstDot e)) := by
    rw [← shortOf_eq, ← looksLikeShortName_iff]
    cases k <;> simp [toSpec]
  rw [e1, e2, e3, e4, e5, e6, e7, shortOf_eq]

theorem hasDoubleSlash_tail (p : Bytes) (h : hasDoubleSlash p = true) : [] ∈ (splitOn 47 p).tail := by
  induction p with
  | nil => simp [hasDoubleSlash] at h
  | cons c rest ih =>
    by_cases hc : c = 47
    · subst hc
      rw [splitOn_cons_sep]
      cases rest with
      | nil => simp [hasDoubleSlash] at h
      | cons d r =>
        by_cases hd : d = 47
        · subst hd; rw [splitOn_cons_sep]; simp
        · have : hasDoubleSlash (47 :: d :: r) = hasDoubleSlash (d :: r) := by
            rw [hasDoubleSlash]
            intro h1 _ h3; injection h3 with h4 _; exact hd h4
          rw [this] at h
          exact List.mem_of_mem_tail (ih h)
    · obtain ⟨hd, tl, h1, h2⟩ := splitOn_cons_ne 47 c rest hc
      have : hasDoubleSlash (c :: rest) = hasDoubleSlash rest := by
        rw [hasDoubleSlash]
        intro h1 h2; exact absurd h2 hc
      rw [this] at h
      have := ih h
      rw [h1] at this
      rw [h2]
      simpa using this

theorem trailingSlash_tail (p : Bytes) (h : p.getLast? = some 47) : [] ∈ (splitOn 47 p).tail := by
  induction p with
  | nil => simp at h
  | cons c rest ih =>
    cases rest with
    | nil =>
      have : c = 47 := by simpa using h
      subst this
      simp [splitOn]
    | cons d r =>
      have hl : (d :: r).getLast? = some 47 := by simpa [List.getLast?_cons_cons] using h
      have := ih hl
      by_cases hc : c = 47
      · subst hc; rw [splitOn_cons_sep]; exact List.mem_of_mem_tail this
      · obtain ⟨hd, tl, h1, h2⟩ := splitOn_cons_ne 47 c (d :: r) hc
        rw [h1] at this; rw [h2]; simpa using this

theorem checkPath_iff_spec (il : Nat → Bool) (k : Kind) (p : Bytes) :
    checkPath il k p = .ok () ↔ PathSpec.ValidPath il (toSpec k) p := by
  rw [checkPath_ok_iff]
  unfold PathSpec.ValidPath
  have e3 : (p.head? == some 45 && k != .file) = false ↔ (toSpec k ≠ .file → p.head? ≠ some 45) := by
    cases k <;> simp [toSpec]
  constructor
  · rintro ⟨h1, h2, h3, _, _, h6⟩
    exact ⟨h1, by simpa using h2, e3.mp h3, fun e he => (checkElem_iff il k e).mp (h6 e he)⟩
  · rintro ⟨h1, h2, h3, h4⟩
    have hnil : ¬ ([] : Bytes) ∈ splitOn 47 p := fun hm => (h4 [] hm).1 rfl
    refine ⟨h1, by simpa using h2, e3.mpr h3, ?_, ?_, fun e he => (checkElem_iff il k e).mpr (h4 e he)⟩
    · cases hd : hasDoubleSlash p
      · rfl
      · exact absurd (List.mem_of_mem_tail (hasDoubleSlash_tail p hd)) hnil
    · cases hl : (p.getLast? == some 47)
      · rfl
      · exact absurd (List.mem_of_mem_tail (trailingSlash_tail p (by simpa using hl))) hnil

end ModVerif.Module
