/-
  Helper lemmas for Tie/FnRuleAdd.lean, part E: go.work.  The typed part `RepTypedW` under the heap changes of
  `WorkFile.add`, `StepPostW`, and the regenerated `WorkFile.add` (`WA`) verb by verb = the model's `WorkFile.add`
  (`WA_step`), under the hypothesis `WorkLeaf` about the leaf calls (`use`: parseString, `replace`: parseReplace).
  Owner: rule-add.
-/
import ModVerif.Proofs.TieFnRuleAddC
import ModVerif.Proofs.ModfileC20Stmts
set_option linter.unusedSimpArgs false
set_option linter.unusedVariables false
namespace ModVerif.Tie.FnRuleAddE
open ModVerif ModVerif.GoRt ModVerif.Generated ModVerif.Tie.FnRuleRep ModVerif.Tie.FnRuleAddA ModVerif.Tie.FnRuleAddB ModVerif.Tie.FnRuleAddC
open ModVerif.Drv.GenRule (isPrintI unquoteI laxSubI deprecatedSubI fixG)

/-! ### the closures of `WorkFile.add` read `works`, `files`, `lines` only -/

def errfWL (ms : List Rule.WorkFile) (fs : List Rule.FileSyntax) (ls : List Rule.Line) (fp line : Int) (e : Option String)
    (errs : List Rule.Error) : M (Unit × List Rule.Error) := do
  let t4 ← heapGet ms fp
  let t5 ← heapGet fs t4.Syntax
  let t6 ← heapGet ls line
  pure ((), errs ++ [({ (default : Rule.Error) with Filename := t5.Name, Pos := t6.Start, Err := e } : Rule.Error)])

theorem wrapErrorW_L (fuel : Nat) (fp line : Int) (w : Rule.Heap) (e : Option String) (errs : List Rule.Error) :
    Rule.WorkFile_add_wrapError Modfile.goVersionRE isPrintI Quote.quote Modfile.toolchainRE unquoteI fuel fp line w e errs =
      errfWL w.works w.files w.lines fp line e errs := rfl

theorem errorfW_L (fuel : Nat) (fp line : Int) (w : Rule.Heap) (fmt : Bytes) (a : List Unit) (errs : List Rule.Error) :
    Rule.WorkFile_add_errorf Modfile.goVersionRE isPrintI Quote.quote Modfile.toolchainRE unquoteI fuel fp line w fmt a errs =
      errfWL w.works w.files w.lines fp line (some (bytesToStr fmt)) errs := by
  simp only [Rule.WorkFile_add_errorf, wrapErrorW_L, errfWL, bind, Except.bind, pure, Except.pure]
  cases heapGet w.works fp with
  | error _ => rfl
  | ok t4 =>
    simp only []
    cases heapGet w.files t4.Syntax with
    | error _ => rfl
    | ok t5 =>
      simp only []
      cases heapGet w.lines line <;> rfl

theorem errfWL_eq {ms : List Rule.WorkFile} {fs : List Rule.FileSyntax} {ls : List Rule.Line} {fp line : Int} {o : Rule.WorkFile}
    {F : Rule.FileSyntax} {L : Rule.Line}
    (ho : heapGet ms fp = .ok o) (hF : heapGet fs o.Syntax = .ok F) (hL : heapGet ls line = .ok L) (e : Option String) (errs : List Rule.Error) :
    errfWL ms fs ls fp line e errs = .ok ((), errs ++ [errV F L e]) := by
  simp [errfWL, errV, ho, hF, hL, bind, Except.bind, pure, Except.pure]

/-! ### the typed part under the heap changes of `WorkFile.add` -/

section typed
variable {ι : Int → Nat} {h : Rule.Heap} {o : Rule.WorkFile} {f : Modfile.WorkFile}
theorem _root_.ModVerif.Tie.FnRuleRep.RepTypedW.linkGo (r : RepTypedW ι h o f) {x : Rule.Go} {X : Modfile.Go} (hx : goR ι h.lines.length x X) (m : List Rule.WorkFile) :
    RepTypedW ι { h with gos := h.gos ++ [x], works := m } { o with Go := ((h.gos.length + 1 : Nat) : Int) } { f with go := some X } where
  go := ⟨x, heapGet_alloc_new _ _, hx⟩
  toolchain := r.toolchain
  godebug := r.godebug
  use := r.use
  replace := r.replace

theorem _root_.ModVerif.Tie.FnRuleRep.RepTypedW.linkToolchain (r : RepTypedW ι h o f) {x : Rule.Toolchain} {X : Modfile.Toolchain} (hx : toolchainR ι h.lines.length x X) (m : List Rule.WorkFile) :
    RepTypedW ι { h with toolchains := h.toolchains ++ [x], works := m } { o with Toolchain := ((h.toolchains.length + 1 : Nat) : Int) } { f with toolchain := some X } where
  go := r.go
  toolchain := ⟨x, heapGet_alloc_new _ _, hx⟩
  godebug := r.godebug
  use := r.use
  replace := r.replace

theorem _root_.ModVerif.Tie.FnRuleRep.RepTypedW.pushGodebug (r : RepTypedW ι h o f) {x : Rule.Godebug} {X : Modfile.Godebug} (hx : godebugR ι h.lines.length x X) (m : List Rule.WorkFile) :
    RepTypedW ι { h with godebugs := h.godebugs ++ [x], works := m } { o with Godebug := o.Godebug ++ [((h.godebugs.length + 1 : Nat) : Int)] }
      { f with godebug := f.godebug ++ [X] } where
  go := r.go
  toolchain := r.toolchain
  godebug := r.godebug.snocAlloc x X hx
  use := r.use
  replace := r.replace

theorem _root_.ModVerif.Tie.FnRuleRep.RepTypedW.pushUse (r : RepTypedW ι h o f) {x : Rule.Use} {X : Modfile.Use} (hx : useR ι h.lines.length x X) (m : List Rule.WorkFile) :
    RepTypedW ι { h with uses := h.uses ++ [x], works := m } { o with Use := o.Use ++ [((h.uses.length + 1 : Nat) : Int)] }
      { f with use := f.use ++ [X] } where
  go := r.go
  toolchain := r.toolchain
  godebug := r.godebug
  use := r.use.snocAlloc x X hx
  replace := r.replace

theorem _root_.ModVerif.Tie.FnRuleRep.RepTypedW.pushReplace (r : RepTypedW ι h o f) {x : Rule.Replace} {X : Modfile.Replace} (hx : replaceR ι h.lines.length x X) (m : List Rule.WorkFile) :
    RepTypedW ι { h with replaces := h.replaces ++ [x], works := m } { o with Replace := o.Replace ++ [((h.replaces.length + 1 : Nat) : Int)] }
      { f with replace := f.replace ++ [X] } where
  go := r.go
  toolchain := r.toolchain
  godebug := r.godebug
  use := r.use
  replace := r.replace.snocAlloc x X hx

theorem _root_.ModVerif.Tie.FnRuleRep.RepTypedW.frameEM (r : RepTypedW ι h o f) (e : List Rule.Error) (m : List Rule.WorkFile) :
    RepTypedW ι { h with errors := e, works := m } o f where
  go := r.go
  toolchain := r.toolchain
  godebug := r.godebug
  use := r.use
  replace := r.replace

theorem _root_.ModVerif.Tie.FnRuleRep.RepTypedW.withLines (r : RepTypedW ι h o f) (ls : List Rule.Line) (hn : ls.length = h.lines.length) :
    RepTypedW ι { h with lines := ls } o f where
  go := by have := r.go; rw [← hn] at this; exact this
  toolchain := by have := r.toolchain; rw [← hn] at this; exact this
  godebug := by have := r.godebug; rw [← hn] at this; exact this
  use := by have := r.use; rw [← hn] at this; exact this
  replace := by have := r.replace; rw [← hn] at this; exact this

end typed
/-! ### one step of `WorkFile.add` -/

/-- **what one call of `WorkFile.add` on the line `l` (object at `lp`; `pre` = the tokens of the line before the argument view)
    guarantees**: the new heap `h'` with the new in-out list `errs'` represents the model's new state `res.1`, the syntax
    graph having the tokens of the line replaced by `pre ++ res.2`; only this line object changed among the syntax
    objects. -/
structure StepPostW (ι : Int → Nat) (h : Rule.Heap) (fp : Int) (syn : Modfile.FileSyntax) (lp : Int) (l : Modfile.Line) (pre : List Bytes)
    (res : Modfile.WorkState × List Bytes) (errs' : List Rule.Error) (h' : Rule.Heap) : Prop where
  rep : RepWS ι h' fp errs' res.1 (syn.updateLine l.id fun x => { x with token := pre ++ res.2 })
  lines : h'.lines = (setToksH h lp (pre ++ res.2)).lines
  blocks : h'.blocks = h.blocks
  cbs : h'.cbs = h.cbs
  files : h'.files = h.files
  fsyn : ∀ o o', heapGet h.works fp = .ok o → heapGet h'.works fp = .ok o' → o'.Syntax = o.Syntax

section step
variable {ι : Int → Nat} {h : Rule.Heap} {fp : Int} {errs : List Rule.Error} {st : Modfile.WorkState} {syn : Modfile.FileSyntax}
  {lp : Int} {l : Modfile.Line} {pre : List Bytes}

/-- the objects `WorkFile.add` reads first -/
theorem _root_.ModVerif.Tie.FnRuleRep.RepWS.objs (R : RepWS ι h fp errs st syn) :
    ∃ o es, heapGet h.works fp = .ok o ∧ heapGet h.files o.Syntax = .ok (fileG syn es) ∧ RepTypedW ι h o st.file := by
  obtain ⟨o, ho, rt, es, rs⟩ := R.obj
  exact ⟨o, es, ho, rs.file, rt⟩

/-- assemble a `StepPostW`: `h'` has the lines of the heap after the token stores and differs from `h` otherwise in typed
    objects, `mods` and `errors` only -/
theorem StepPostW.build (R : RepWS ι h fp errs st syn) (hl : RLine ι h lp l) {args' : List Bytes}
    {h' : Rule.Heap} {o' : Rule.WorkFile} {errs' : List Rule.Error} {st' : Modfile.WorkState}
    (ho' : heapGet h'.works fp = .ok o')
    (hlines : h'.lines = (setToksH h lp (pre ++ args')).lines) (hb : h'.blocks = h.blocks) (hc : h'.cbs = h.cbs) (hf : h'.files = h.files)
    (ht : ∀ o, heapGet h.works fp = .ok o → RepTypedW ι h o st.file → RepTypedW ι h' o' st'.file ∧ o'.Syntax = o.Syntax)
    (he : ErrsRep errs' st'.errsRev.reverse) : StepPostW ι h fp syn lp l pre (st', args') errs' h' := by
  have R1 := R.setToks hl.1 (pre ++ args')
  obtain ⟨o, ho, rt, _⟩ := R.obj
  obtain ⟨o1, ho1, _, rs⟩ := R1.obj
  have : o1 = o := by simp only [setToksH_works] at ho1; rw [ho] at ho1; cases ho1; rfl
  subst this
  obtain ⟨rt', hs⟩ := ht o1 ho rt
  refine ⟨⟨⟨o', ho', rt', ?_⟩, R1.inj.congr (by rw [hlines]), he⟩, hlines, hb, hc, hf, ?_⟩
  · rw [hs, ← hl.2]
    exact rs.congr (by rw [hf]; simp) hlines (by rw [hb]; simp) (by rw [hc]; simp)
  · intro a a' ha ha'
    rw [ho] at ha; rw [ho'] at ha'; cases ha; cases ha'; exact hs

/-- a step that changes nothing (lax mode: the verb is ignored) -/
theorem StepPostW.skip (R : RepWS ι h fp errs st syn) (hl : RLine ι h lp l) {args : List Bytes} (htok : l.token = pre ++ args) :
    StepPostW ι h fp syn lp l pre (st, args) errs h := by
  obtain ⟨o, ho, _, _⟩ := R.obj
  exact StepPostW.build R hl ho (lines_same hl htok) rfl rfl rfl
    (fun o1 ho1 rt => by rw [ho] at ho1; cases ho1; exact ⟨rt, rfl⟩) R.errs

/-- a step that only reports an error at the start of the line -/
theorem StepPostW.err (R : RepWS ι h fp errs st syn) (hl : RLine ι h lp l) {args : List Bytes} (htok : l.token = pre ++ args)
    {e : Rule.Error} {k : Modfile.RuleErrKind} (he : ErrRep e ⟨l.start, k⟩) :
    StepPostW ι h fp syn lp l pre (st.err l.start k, args) (errs ++ [e]) h := by
  obtain ⟨o, ho, _, _⟩ := R.obj
  exact StepPostW.build R hl ho (lines_same hl htok) rfl rfl rfl
    (fun o1 ho1 rt => by rw [ho] at ho1; cases ho1; exact ⟨rt, rfl⟩) (R.errs.snoc_rev he)

/-- a step that only rewrites tokens of the line -/
theorem StepPostW.skipW (R : RepWS ι h fp errs st syn) (hl : RLine ι h lp l) (args' : List Bytes) :
    StepPostW ι h fp syn lp l pre (st, args') errs { h with lines := (setToksH h lp (pre ++ args')).lines } := by
  obtain ⟨o, ho, _, _⟩ := R.obj
  exact StepPostW.build R hl ho rfl rfl rfl rfl
    (fun o1 ho1 rt => by rw [ho] at ho1; cases ho1; exact ⟨rt.withLines _ (by simp), rfl⟩) R.errs

/-- a step that rewrites tokens of the line and reports an error at its start -/
theorem StepPostW.errW (R : RepWS ι h fp errs st syn) (hl : RLine ι h lp l) (args' : List Bytes)
    {e : Rule.Error} {k : Modfile.RuleErrKind} (he : ErrRep e ⟨l.start, k⟩) :
    StepPostW ι h fp syn lp l pre (st.err l.start k, args') (errs ++ [e]) { h with lines := (setToksH h lp (pre ++ args')).lines } := by
  obtain ⟨o, ho, _, _⟩ := R.obj
  exact StepPostW.build R hl ho rfl rfl rfl rfl
    (fun o1 ho1 rt => by rw [ho] at ho1; cases ho1; exact ⟨rt.withLines _ (by simp), rfl⟩) (R.errs.snoc_rev he)

/-- … by `errorf` with a format literal -/
theorem StepPostW.errf (R : RepWS ι h fp errs st syn) (hl : RLine ι h lp l) {args : List Bytes} (htok : l.token = pre ++ args)
    {F : Rule.FileSyntax} {fmt : Bytes} {k : Modfile.RuleErrKind} (hk : bytesToStr fmt ∈ errStrs k) :
    StepPostW ι h fp syn lp l pre (st.err l.start k, args) (errs ++ [errV F (lineG l) (some (bytesToStr fmt))]) h :=
  StepPostW.err R hl htok (errV_rep (errAbs_fmt hk))

end step

/-! ### `WorkFile.add` -/

/-- what the leaf calls of `WorkFile.add` return -/
structure WorkLeaf (fuel : Nat) (h : Rule.Heap) (lp : Int) (l : Modfile.Line) (pre args : List Bytes) (verb : Bytes)
    (fx : Option Modfile.Fixer) : Prop where
  ps : verb = B "use" → ∀ a, args = [a] → PSok fuel a
  pr : verb = B "replace" → PRok fuel h lp l pre args fx

section
variable {ι : Int → Nat} {h : Rule.Heap} {fp : Int} {errs : List Rule.Error} {st : Modfile.WorkState} {syn : Modfile.FileSyntax}
  {lp : Int} {l : Modfile.Line} {pre args : List Bytes}

theorem beq_B (verb : Bytes) (s : String) : (verb == B s) = decide (verb = B s) := bytes_beq_eq_decide _ _

theorem WA_go (R : RepWS ι h fp errs st syn) (hl : RLine ι h lp l) (htok : l.token = pre ++ args)
    (fuel : Nat) (fix : Option (Bytes → Bytes → (Bytes × Option String))) (fx : Option Modfile.Fixer) :
    ∃ errs' h', WA fuel fp errs lp [103, 111] { owner := lp, lo := (pre.length : Int) } fix h = .ok (((), errs'), h') ∧
      StepPostW ι h fp syn lp l pre (Modfile.WorkFile.add st l (B "go") args fx) errs' h' := by
  obtain ⟨o, es, ho, hF, rt⟩ := R.objs
  have V := view_of hl htok
  unfold WA Rule.WorkFile_add
  simp only [decide_true, if_true, ho, bind, Except.bind, pure, Except.pure, errorfW_L, wrapErrorW_L,
    TokRef_len_eq, TokRef_get_eq, TokRef_set_eq, V.tkLen]
  unfold Modfile.WorkFile.add
  simp only [beq_self_eq_true, if_true]
  cases hgo : st.file.go with
  | some g =>
    have hne : o.Go ≠ 0 := fun e => by have := (rt.go.eq_zero_iff).1 e; rw [hgo] at this; cases this
    simp only [hgo, hne, decide_false, Bool.not_false, if_true, errfWL_eq ho hF hl.1, Option.isSome_some]
    exact ⟨_, _, rfl, StepPostW.errf R hl htok (by decide)⟩
  | none =>
    have h0 : o.Go = 0 := (rt.go.eq_zero_iff).2 hgo
    simp only [hgo, h0, decide_true, Bool.not_true, Bool.false_eq_true, if_false, Option.isSome_none]
    match args, htok, V with
    | [], htok, V =>
      simp only [List.length_nil, Int.natCast_zero, Int.reduceEq, decide_false, Bool.not_false, if_true, errfWL_eq ho hF hl.1]
      exact ⟨_, _, rfl, StepPostW.errf R hl htok (by decide)⟩
    | a :: b :: c, htok, V =>
      have : ¬ (((List.length (a :: b :: c) : Nat) : Int) = 1) := by simp; omega
      simp only [this, decide_false, Bool.not_false, if_true, errfWL_eq ho hF hl.1]
      exact ⟨_, _, rfl, StepPostW.errf R hl htok (by decide)⟩
    | [a], htok, V =>
      simp only [List.length_singleton, Int.natCast_one, decide_true, Bool.not_true, Bool.false_eq_true, if_false, V.tkGet0 rfl]
      cases hre : Modfile.goVersionRE a with
      | false =>
        simp only [Bool.not_false, if_true, V.tkGet0 rfl, errfWL_eq ho hF hl.1]
        exact ⟨_, _, rfl, StepPostW.errf R hl htok (by decide)⟩
      | true =>
        simp only [Bool.not_true, Bool.false_eq_true, if_false, if_true, heapAlloc, heapSet_of_get _ ho, V.tkGet0 rfl,
          heapGet_listSet_same _ ho, heapGet_alloc_new, heapSet_alloc_new]
        refine ⟨_, _, rfl, ?_⟩
        refine StepPostW.build R hl (heapGet_listSet_same _ ho) (lines_same hl htok) rfl rfl rfl ?_ R.errs
        intro o1 ho1 rt1
        rw [ho] at ho1; cases ho1
        exact ⟨rt1.linkGo ⟨rfl, TR_of hl _ rfl⟩ _, rfl⟩
theorem WA_toolchain (R : RepWS ι h fp errs st syn) (hl : RLine ι h lp l) (htok : l.token = pre ++ args)
    (fuel : Nat) (fix : Option (Bytes → Bytes → (Bytes × Option String))) (fx : Option Modfile.Fixer) :
    ∃ errs' h', WA fuel fp errs lp [116, 111, 111, 108, 99, 104, 97, 105, 110] { owner := lp, lo := (pre.length : Int) } fix h = .ok (((), errs'), h') ∧
      StepPostW ι h fp syn lp l pre (Modfile.WorkFile.add st l (B "toolchain") args fx) errs' h' := by
  obtain ⟨o, es, ho, hF, rt⟩ := R.objs
  have V := view_of hl htok
  unfold WA Rule.WorkFile_add
  simp only [decide_true, decide_false, reduceCtorEq, List.cons.injEq, if_true, Bool.false_eq_true, if_false, ho, bind, Except.bind, pure, Except.pure, errorfW_L, wrapErrorW_L,
    TokRef_len_eq, TokRef_get_eq, TokRef_set_eq, V.tkLen,
    (by decide : ¬ (([116, 111, 111, 108, 99, 104, 97, 105, 110] : Bytes) = [103, 111]))]
  unfold Modfile.WorkFile.add
  simp only [beq_self_eq_true, if_true, (by decide +kernel : (B "toolchain" == B "go") = false), Bool.false_eq_true, if_false]
  cases htc : st.file.toolchain with
  | some g =>
    have hne : o.Toolchain ≠ 0 := fun e => by have := (rt.toolchain.eq_zero_iff).1 e; rw [htc] at this; cases this
    simp only [htc, hne, decide_false, Bool.not_false, if_true, errfWL_eq ho hF hl.1, Option.isSome_some]
    exact ⟨_, _, rfl, StepPostW.errf R hl htok (by decide)⟩
  | none =>
    have h0 : o.Toolchain = 0 := (rt.toolchain.eq_zero_iff).2 htc
    simp only [htc, h0, decide_true, Bool.not_true, Bool.false_eq_true, if_false, Option.isSome_none]
    match args, htok, V with
    | [], htok, V =>
      simp only [List.length_nil, Int.natCast_zero, Int.reduceEq, decide_false, Bool.not_false, if_true, errfWL_eq ho hF hl.1]
      exact ⟨_, _, rfl, StepPostW.errf R hl htok (by decide)⟩
    | a :: b :: c, htok, V =>
      have : ¬ (((List.length (a :: b :: c) : Nat) : Int) = 1) := by simp; omega
      simp only [this, decide_false, Bool.not_false, if_true, errfWL_eq ho hF hl.1]
      exact ⟨_, _, rfl, StepPostW.errf R hl htok (by decide)⟩
    | [a], htok, V =>
      simp only [List.length_singleton, Int.natCast_one, decide_true, Bool.not_true, Bool.false_eq_true, if_false, V.tkGet0 rfl]
      cases hre : Modfile.toolchainRE a with
      | false =>
        simp only [Bool.not_false, if_true, V.tkGet0 rfl, errfWL_eq ho hF hl.1]
        exact ⟨_, _, rfl, StepPostW.errf R hl htok (by decide)⟩
      | true =>
        simp only [Bool.not_true, Bool.false_eq_true, if_false, if_true, heapAlloc, heapSet_of_get _ ho, V.tkGet0 rfl,
          heapGet_listSet_same _ ho, heapGet_alloc_new, heapSet_alloc_new]
        refine ⟨_, _, rfl, ?_⟩
        refine StepPostW.build R hl (heapGet_listSet_same _ ho) (lines_same hl htok) rfl rfl rfl ?_ R.errs
        intro o1 ho1 rt1
        rw [ho] at ho1; cases ho1
        exact ⟨rt1.linkToolchain ⟨rfl, TR_of hl _ rfl⟩ _, rfl⟩

theorem WA_godebug (R : RepWS ι h fp errs st syn) (hl : RLine ι h lp l) (htok : l.token = pre ++ args)
    (fuel : Nat) (fix : Option (Bytes → Bytes → (Bytes × Option String))) (fx : Option Modfile.Fixer) :
    ∃ errs' h', WA fuel fp errs lp [103, 111, 100, 101, 98, 117, 103] { owner := lp, lo := (pre.length : Int) } fix h = .ok (((), errs'), h') ∧
      StepPostW ι h fp syn lp l pre (Modfile.WorkFile.add st l (B "godebug") args fx) errs' h' := by
  obtain ⟨o, es, ho, hF, rt⟩ := R.objs
  have V := view_of hl htok
  unfold WA Rule.WorkFile_add
  simp only [decide_true, decide_false, reduceCtorEq, List.cons.injEq, if_true, Bool.false_eq_true, if_false, ho, bind, Except.bind, pure, Except.pure, errorfW_L, wrapErrorW_L,
    TokRef_len_eq, TokRef_get_eq, TokRef_set_eq, V.tkLen,
    (by decide : ¬ (([103, 111, 100, 101, 98, 117, 103] : Bytes) = [103, 111])),
    (by decide : ¬ (([103, 111, 100, 101, 98, 117, 103] : Bytes) = [116, 111, 111, 108, 99, 104, 97, 105, 110]))]
  unfold Modfile.WorkFile.add Modfile.addGodebug
  simp only [beq_self_eq_true, if_true, (by decide +kernel : (B "godebug" == B "go") = false),
    (by decide +kernel : (B "godebug" == B "toolchain") = false), Bool.false_eq_true, if_false]
  match args, htok, V with
  | [], htok, V =>
    simp only [List.length_nil, Int.natCast_zero, Int.reduceEq, decide_false, Bool.not_false, if_true, errfWL_eq ho hF hl.1]
    exact ⟨_, _, rfl, StepPostW.errf R hl htok (by decide)⟩
  | a :: b :: c, htok, V =>
    have : ¬ (((List.length (a :: b :: c) : Nat) : Int) = 1) := by simp; omega
    simp only [this, decide_false, Bool.not_false, if_true, errfWL_eq ho hF hl.1]
    exact ⟨_, _, rfl, StepPostW.errf R hl htok (by decide)⟩
  | [a], htok, V =>
    simp only [List.length_singleton, Int.natCast_one, decide_true, Bool.not_true, Bool.false_eq_true, if_false, V.tkGet0 rfl,
      GoRt.containsAny]
    cases hca : GoStrings.containsAny a [34, 96, 39, 44] with
    | true =>
      simp only [if_true, errfWL_eq ho hF hl.1]
      exact ⟨_, _, rfl, StepPostW.errf R hl htok (by decide)⟩
    | false =>
      simp only [Bool.false_eq_true, if_false, cut_one]
      cases hcut : GoStrings.cut a 61 with
      | none =>
        simp only [Bool.not_false, if_true, errfWL_eq ho hF hl.1]
        exact ⟨_, _, rfl, StepPostW.errf R hl htok (by decide)⟩
      | some kv =>
        obtain ⟨k, v⟩ := kv
        simp only [Bool.not_true, Bool.false_eq_true, if_false, heapAlloc, heapSet_of_get _ ho]
        refine ⟨_, _, rfl, ?_⟩
        refine StepPostW.build R hl (heapGet_listSet_same _ ho) (lines_same hl htok) rfl rfl rfl ?_ R.errs
        intro o1 ho1 rt1
        rw [ho] at ho1; cases ho1
        exact ⟨rt1.pushGodebug ⟨rfl, rfl, TR_of hl _ rfl⟩ _, rfl⟩

theorem WA_use (R : RepWS ι h fp errs st syn) (hl : RLine ι h lp l) (htok : l.token = pre ++ args)
    (fuel : Nat) (fix : Option (Bytes → Bytes → (Bytes × Option String))) (fx : Option Modfile.Fixer)
    (hPS : ∀ a, args = [a] → PSok fuel a) :
    ∃ errs' h', WA fuel fp errs lp [117, 115, 101] { owner := lp, lo := (pre.length : Int) } fix h = .ok (((), errs'), h') ∧
      StepPostW ι h fp syn lp l pre (Modfile.WorkFile.add st l (B "use") args fx) errs' h' := by
  obtain ⟨o, es, ho, hF, rt⟩ := R.objs
  have V := view_of hl htok
  unfold WA Rule.WorkFile_add
  simp only [decide_true, decide_false, reduceCtorEq, List.cons.injEq, if_true, Bool.false_eq_true, if_false, ho, bind, Except.bind, pure, Except.pure, errorfW_L, wrapErrorW_L,
    TokRef_len_eq, TokRef_get_eq, TokRef_set_eq, V.tkLen,
    (by decide : ¬ (([117, 115, 101] : Bytes) = [103, 111])),
    (by decide : ¬ (([117, 115, 101] : Bytes) = [116, 111, 111, 108, 99, 104, 97, 105, 110])),
    (by decide : ¬ (([117, 115, 101] : Bytes) = [103, 111, 100, 101, 98, 117, 103]))]
  unfold Modfile.WorkFile.add
  simp only [beq_self_eq_true, if_true, (by decide +kernel : (B "use" == B "go") = false),
    (by decide +kernel : (B "use" == B "toolchain") = false), (by decide +kernel : (B "use" == B "godebug") = false), Bool.false_eq_true, if_false]
  match args, htok, V, hPS with
  | [], htok, V, _ =>
    simp only [List.length_nil, Int.natCast_zero, Int.reduceEq, decide_false, Bool.not_false, if_true, errfWL_eq ho hF hl.1]
    exact ⟨_, _, rfl, StepPostW.errf R hl htok (by decide)⟩
  | a :: b :: c, htok, V, _ =>
    have : ¬ (((List.length (a :: b :: c) : Nat) : Int) = 1) := by simp; omega
    simp only [this, decide_false, Bool.not_false, if_true, errfWL_eq ho hF hl.1]
    exact ⟨_, _, rfl, StepPostW.errf R hl htok (by decide)⟩
  | [a], htok, V, hPS =>
    obtain ⟨v, e, a', hout, hps⟩ := hPS a rfl
    simp only [List.length_singleton, Int.natCast_one, decide_true, Bool.not_true, Bool.false_eq_true, if_false, V.tkGet0 rfl, hps,
      V.tkSet0 (by simp), List.set_cons_zero]
    unfold PSOut at hout
    cases hm : Modfile.parseString a with
    | none =>
      rw [hm] at hout
      obtain ⟨he, rfl⟩ := hout
      have he' : e.isNone = false := by cases e <;> simp_all
      simp only [he', Bool.not_false, if_true, errfWL_eq ho hF (line_after hl _)]
      exact ⟨_, _, rfl, StepPostW.errW R hl _ (errV_rep' rfl (errAbs_fmt (by decide)))⟩
    | some tt =>
      obtain ⟨t, tok⟩ := tt
      rw [hm] at hout
      obtain ⟨rfl, rfl, rfl⟩ := hout
      simp only [Option.isNone_none, Bool.not_true, Bool.false_eq_true, if_false, heapAlloc, ho, heapSet_of_get _ ho]
      refine ⟨_, _, rfl, ?_⟩
      refine StepPostW.build R hl (heapGet_listSet_same _ ho) rfl rfl rfl rfl ?_ R.errs
      intro o1 ho1 rt1
      rw [ho] at ho1; cases ho1
      exact ⟨(rt1.pushUse ⟨rfl, rfl, TR_of hl _ rfl⟩ _).withLines _ (by simp), rfl⟩

theorem WA_replace (R : RepWS ι h fp errs st syn) (hl : RLine ι h lp l) (htok : l.token = pre ++ args)
    (fuel : Nat) (fx : Option Modfile.Fixer) (hPR : PRok fuel h lp l pre args fx) :
    ∃ errs' h', WA fuel fp errs lp [114, 101, 112, 108, 97, 99, 101] { owner := lp, lo := (pre.length : Int) } (fixG fx) h = .ok (((), errs'), h') ∧
      StepPostW ι h fp syn lp l pre (Modfile.WorkFile.add st l (B "replace") args fx) errs' h' := by
  obtain ⟨o, es, ho, hF, rt⟩ := R.objs
  obtain ⟨rp, ep, h', hout, hpr⟩ := hPR (fileG syn es).Name [114, 101, 112, 108, 97, 99, 101]
  unfold WA Rule.WorkFile_add
  simp only [decide_true, decide_false, reduceCtorEq, List.cons.injEq, if_true, Bool.false_eq_true, if_false, ho, hF, hpr, bind, Except.bind, pure, Except.pure,
    (by decide : ¬ (([114, 101, 112, 108, 97, 99, 101] : Bytes) = [103, 111])),
    (by decide : ¬ (([114, 101, 112, 108, 97, 99, 101] : Bytes) = [116, 111, 111, 108, 99, 104, 97, 105, 110])),
    (by decide : ¬ (([114, 101, 112, 108, 97, 99, 101] : Bytes) = [103, 111, 100, 101, 98, 117, 103])),
    (by decide : ¬ (([114, 101, 112, 108, 97, 99, 101] : Bytes) = [117, 115, 101]))]
  unfold Modfile.WorkFile.add
  simp only [beq_self_eq_true, if_true, (by decide +kernel : (B "replace" == B "go") = false),
    (by decide +kernel : (B "replace" == B "toolchain") = false), (by decide +kernel : (B "replace" == B "godebug") = false),
    (by decide +kernel : (B "replace" == B "use") = false), Bool.false_eq_true, if_false]
  unfold PROut at hout
  cases hm : Modfile.parseReplace l.id args fx with
  | mk args' res =>
  rw [hm] at hout
  cases res with
  | error k =>
    obtain ⟨e, hpos, hea, rfl, rfl, rfl⟩ := hout
    have hne : ¬ ((((setToksH h lp (pre ++ args')).errors.length + 1 : Nat) : Int) = 0) := by omega
    simp only [hne, decide_false, Bool.not_false, if_true, heapGet_alloc_new]
    refine ⟨_, _, rfl, ?_⟩
    refine StepPostW.build R hl (o' := o) (by simpa using ho) rfl (by simp) (by simp) (by simp) ?_ (R.errs.snoc_rev ⟨hpos, hea⟩)
    intro o1 ho1 rt1
    rw [ho] at ho1; cases ho1
    exact ⟨(rt1.setToksH lp _).frameEM _ _, rfl⟩
  | ok r =>
    obtain ⟨x, hold, hnew, hsyn, rfl, rfl, rfl⟩ := hout
    have ho1 : heapGet (setToksH h lp (pre ++ args')).works fp = .ok o := by simpa using ho
    simp only [decide_true, Bool.not_true, Bool.false_eq_true, if_false, ho1, heapSet_of_get _ ho1]
    refine ⟨_, _, rfl, ?_⟩
    refine StepPostW.build R hl (heapGet_listSet_same _ ho1) rfl (by simp) (by simp) (by simp) ?_ R.errs
    intro o1 ho2 rt1
    rw [ho] at ho2; cases ho2
    have hid := parseReplace_lineId _ _ _ _ _ hm
    exact ⟨(rt1.setToksH lp _).pushReplace ⟨hold, hnew, by rw [hsyn, hid]; exact TR_of hl _ (by simp)⟩ _, rfl⟩

theorem WA_unknown (R : RepWS ι h fp errs st syn) (hl : RLine ι h lp l) (htok : l.token = pre ++ args)
    (fuel : Nat) (verb : Bytes) (fix : Option (Bytes → Bytes → (Bytes × Option String))) (fx : Option Modfile.Fixer)
    (hv : Modfile.verbIn verb Modfile.workVerbs = false) :
    ∃ errs' h', WA fuel fp errs lp verb { owner := lp, lo := (pre.length : Int) } fix h = .ok (((), errs'), h') ∧
      StepPostW ι h fp syn lp l pre (Modfile.WorkFile.add st l verb args fx) errs' h' := by
  obtain ⟨o, es, ho, hF, rt⟩ := R.objs
  rw [Proofs.ModfileC20.workAdd_unknown_verb st l verb args fx hv]
  obtain ⟨h1, h2, h3, h4, h5⟩ := not_workVerbs hv
  unfold WA Rule.WorkFile_add
  simp only [h1, h2, h3, h4, h5, decide_false, Bool.false_eq_true, if_false, errorfW_L, errfWL_eq ho hF hl.1, bind, Except.bind, pure, Except.pure]
  exact ⟨_, _, rfl, StepPostW.errf R hl htok (by decide)⟩

/-- **one call of the regenerated `WorkFile.add`** on a represented state = the model's `WorkFile.add` -/
theorem WA_step (R : RepWS ι h fp errs st syn) (hl : RLine ι h lp l) (htok : l.token = pre ++ args)
    (fuel : Nat) (verb : Bytes) (fx : Option Modfile.Fixer) (L : WorkLeaf fuel h lp l pre args verb fx) :
    ∃ errs' h', WA fuel fp errs lp verb { owner := lp, lo := (pre.length : Int) } (fixG fx) h = .ok (((), errs'), h') ∧
      StepPostW ι h fp syn lp l pre (Modfile.WorkFile.add st l verb args fx) errs' h' := by
  by_cases h1 : verb = B "go"
  · subst h1; have := WA_go R hl htok fuel (fixG fx) fx; rw [B_go] at this ⊢; exact this
  by_cases h2 : verb = B "toolchain"
  · subst h2; have := WA_toolchain R hl htok fuel (fixG fx) fx; rw [← B_toolchain] at this; exact this
  by_cases h3 : verb = B "godebug"
  · subst h3; have := WA_godebug R hl htok fuel (fixG fx) fx; rw [← B_godebug] at this; exact this
  by_cases h4 : verb = B "use"
  · subst h4; have := WA_use R hl htok fuel (fixG fx) fx (L.ps rfl); rw [← B_use] at this; exact this
  by_cases h5 : verb = B "replace"
  · subst h5; have := WA_replace R hl htok fuel fx (L.pr rfl); rw [← B_replace] at this; exact this
  refine WA_unknown R hl htok fuel verb _ fx ?_
  simp only [Modfile.verbIn, Modfile.workVerbs, List.any_cons, List.any_nil, Bool.or_false, Bool.or_eq_false_iff, beq_eq_false_iff_ne, ne_eq]
  exact ⟨Ne.symm h1, Ne.symm h2, Ne.symm h3, Ne.symm h4, Ne.symm h5⟩
end

end ModVerif.Tie.FnRuleAddE
