/-
  Tie proof, zip/zip.go `collisionChecker.check`, the non-terminating side: where the hand model `Zip.ccCheck` runs out of
  ITS fuel `n` (`Reason.panic`: no clash on the first `n` levels and the chain of `path.Dir` has not reached "." — for an
  absolute path it never does, the Go code recurses until the stack overflows), the regenerated function runs out of its
  fuel too (`Err.fuel`) for every `fuel ≤ n`.  Needs the weak form of the `strToFold` tie: with ANY fuel the generated
  `strToFold` either runs out of fuel or returns the model's value.
-/
import ModVerif.Proofs.TieFnZipCC
namespace ModVerif.TieFnZip
open ModVerif ModVerif.GoRt ModVerif.GoRtZip ModVerif.GoRtStr
open ModVerif.Generated.Zip (pathInfo)

theorem loop3_weak (sf : Int → Int) : ∀ (fuel K : Nat) (r m : Int), orbitMinBy sf K r = some m →
    Generated.Zip.strToFold_loop3 sf fuel r = .error .fuel ∨ Generated.Zip.strToFold_loop3 sf fuel r = .ok m := by
  intro fuel
  induction fuel with
  | zero => intro K r m _; left; rfl
  | succ f ih =>
    intro K r m h
    cases K with
    | zero => simp [orbitMinBy] at h
    | succ K =>
      unfold Generated.Zip.strToFold_loop3
      unfold orbitMinBy at h
      by_cases hc : sf r ≤ r
      · rw [if_pos hc] at h
        simp only [Option.some.injEq] at h
        subst h
        right
        simp only [hc, decide_true, if_true]; rfl
      · rw [if_neg hc] at h
        simp only [hc, decide_false, Bool.false_eq_true, if_false]
        exact ih K (sf r) m h

theorem loop2_weak (sf : Int → Int) (K : Nat) (hsf : FoldsTo sf K) (s : Bytes) : ∀ (fuel k : Nat) (buf : Bytes),
    k ≤ s.length →
    Generated.Zip.strToFold_loop2 sf s fuel (k : Int) buf = .error .fuel ∨
    Generated.Zip.strToFold_loop2 sf s fuel (k : Int) buf =
      .ok ((s.length : Int), buf ++ (Utf8.runes (s.drop k)).flatMap foldRune) := by
  intro fuel
  induction fuel with
  | zero => intro k buf _; left; rfl
  | succ f ih =>
    intro k buf hk
    unfold Generated.Zip.strToFold_loop2
    by_cases hlt : k < s.length
    · have hc : decide (((k : Nat) : Int) < len s) = true := by simp [len]; omega
      simp only [hc, if_true]
      obtain ⟨r, w, hd, hw1, hw2, hrunes, _⟩ := range_step s k hlt
      have hr : r < 0x110000 := by
        have := decodeRune_lt (s.drop k)
        rw [decodeRuneAt_natCast] at hd
        simp only [Prod.mk.injEq, Int.natCast_inj] at hd
        omega
      rw [hd]
      simp only []
      rcases loop3_weak sf f K (r : Int) _ (hsf r hr) with h3 | h3
      · left; rw [h3]; rfl
      rw [h3]
      simp only [bind, Except.bind]
      have hrec : ∀ b : Bytes, Generated.Zip.strToFold_loop2 sf s f ((k : Int) + (w : Int)) b = .error .fuel ∨
          Generated.Zip.strToFold_loop2 sf s f ((k : Int) + (w : Int)) b =
          .ok ((s.length : Int), b ++ (Utf8.runes (s.drop (k + w))).flatMap foldRune) := by
        intro b
        have := ih (k + w) b hw2
        rwa [Int.natCast_add] at this
      rw [hrunes, List.flatMap_cons]
      by_cases hup : 65 ≤ FoldTable.foldMin r ∧ FoldTable.foldMin r ≤ 90
      · have hc2 : (decide ((65 : Int) ≤ ((FoldTable.foldMin r : Nat) : Int)) &&
            decide (((FoldTable.foldMin r : Nat) : Int) ≤ 90)) = true := by
          simp only [Bool.and_eq_true, decide_eq_true_eq]; omega
        simp only [hc2, if_true]
        rw [toI32_small _ (by omega) (by omega)]
        have : ((FoldTable.foldMin r : Nat) : Int) + 32 = ((FoldTable.foldMin r + 32 : Nat) : Int) := by simp
        rw [this, encodeRune_natCast]
        have e : foldRune r = Utf8.encode (FoldTable.foldMin r + 32) := by simp only [foldRune, hup, and_self, if_true]
        rw [e, ← List.append_assoc]
        exact hrec _
      · have hc2 : (decide ((65 : Int) ≤ ((FoldTable.foldMin r : Nat) : Int)) &&
            decide (((FoldTable.foldMin r : Nat) : Int) ≤ 90)) = false := by
          rw [Bool.eq_false_iff]
          simp only [ne_eq, Bool.and_eq_true, decide_eq_true_eq]; omega
        simp only [hc2, Bool.false_eq_true, if_false]
        rw [encodeRune_natCast]
        have e : foldRune r = Utf8.encode (FoldTable.foldMin r) := by simp only [foldRune, hup, if_false]
        rw [e, ← List.append_assoc]
        exact hrec _
    · have hk' : k = s.length := by omega
      have hc : decide (((k : Nat) : Int) < len s) = false := by simp [len]; omega
      simp only [hc, Bool.false_eq_true, if_false]
      subst hk'
      right
      simp [Utf8.runes, Utf8.runesAux]

theorem loop1_weak (sf : Int → Int) (K : Nat) (hsf : FoldsTo sf K) (s : Bytes) : ∀ (fuel k : Nat), k ≤ s.length →
    Generated.Zip.strToFold_loop1 sf s fuel (k : Int) = .error .fuel ∨
    Generated.Zip.strToFold_loop1 sf s fuel (k : Int) =
      .ok (if (s.drop k).all plainByte then Ctl.next (s.length : Int) else Ctl.ret ((Utf8.runes s).flatMap foldRune)) := by
  intro fuel
  induction fuel with
  | zero => intro k _; left; rfl
  | succ f ih =>
    intro k hk
    unfold Generated.Zip.strToFold_loop1
    by_cases hlt : k < s.length
    · have hc : decide (((k : Nat) : Int) < len s) = true := by simp [len]; omega
      simp only [hc, if_true]
      rw [idx_natCast hlt]
      simp only [bind, Except.bind]
      rw [plainByte_cond]
      have hdrop : s.drop k = s[k] :: s.drop (k + 1) := List.drop_eq_getElem_cons hlt
      rw [hdrop, List.all_cons]
      cases hp : plainByte s[k] with
      | true =>
        simp only [Bool.not_true, Bool.false_eq_true, if_false, Bool.true_and]
        have := ih (k + 1) (by omega)
        rwa [Int.natCast_add] at this
      | false =>
        simp only [Bool.not_false, if_true, Bool.false_and, Bool.false_eq_true, if_false]
        have := loop2_weak sf K hsf s f 0 [] (by omega)
        simp only [Int.natCast_zero, List.drop_zero, List.nil_append] at this
        rcases this with h2 | h2
        · left; rw [h2]
        · right; rw [h2]; rfl
    · have hk' : k = s.length := by omega
      have hc : decide (((k : Nat) : Int) < len s) = false := by simp [len]; omega
      simp only [hc, Bool.false_eq_true, if_false]
      subst hk'
      right
      simp

/-- with ANY fuel: out of fuel, or the model's value -/
theorem strToFold_weak (sf : Int → Int) (K : Nat) (hsf : FoldsTo sf K) (fuel : Nat) (s : Bytes) :
    Generated.Zip.strToFold sf fuel s = .error .fuel ∨ Generated.Zip.strToFold sf fuel s = .ok (Zip.strToFold s) := by
  unfold Generated.Zip.strToFold
  show (Generated.Zip.strToFold_loop1 sf s fuel 0 >>= _) = _ ∨ (Generated.Zip.strToFold_loop1 sf s fuel 0 >>= _) = _
  have := loop1_weak sf K hsf s fuel 0 (by omega)
  simp only [Int.natCast_zero, List.drop_zero] at this
  rcases this with h | h
  · left; rw [h]; rfl
  · right
    rw [h, strToFold_model]
    cases s.all plainByte <;> rfl

/-- the model is out of fuel at `n` ⇒ the generated function is out of fuel at every `fuel ≤ n` -/
theorem check_diverges (sf : Int → Int) (K : Nat) (hsf : FoldsTo sf K) : ∀ (fuel n : Nat) (m : List (Bytes × pathInfo))
    (p : Bytes) (d : Bool), fuel ≤ n →
    (Zip.ccCheck Zip.strToFold n (toCC m) p d).2 = some .panic →
    Generated.Zip.collisionChecker_check sf fuel m p d = .error .fuel := by
  intro fuel
  induction fuel with
  | zero => intro n m p d _ _; rfl
  | succ f ih =>
    intro n m p d hle h
    obtain ⟨n', rfl⟩ : ∃ n', n = n' + 1 := ⟨n - 1, by omega⟩
    rcases strToFold_weak sf K hsf f p with hst | hst
    · rw [Generated.Zip.collisionChecker_check, hst]; rfl
    rw [check_step_of sf f m p d hst]
    unfold Zip.ccCheck at h
    have hne := ccStep_ne_panic Zip.strToFold (toCC m) p d
    cases hs : Zip.ccStep Zip.strToFold (toCC m) p d with
    | mk cc' o =>
      rw [hs] at h hne
      cases o with
      | some e => exact absurd h hne
      | none =>
        simp only at h ⊢
        by_cases hd : (PathClean.pathDir p != [46]) = true
        · simp only [if_pos hd] at h ⊢
          exact ih n' (ofCC cc') (PathClean.pathDir p) true (by omega) (by rw [toCC_ofCC]; exact h)
        · simp only [if_neg hd] at h
          cases h

end ModVerif.TieFnZip
