/-
  EditRefine, part 17 — no Go panic: on a state satisfying the tree invariant every go.mod operation other than the
  two bulk requirement setters either succeeds or returns one of the three documented errors; a session of such
  operations always runs to completion.
-/
import ModVerif.Proofs.EditRefineInvRun
set_option linter.unusedSimpArgs false
namespace ModVerif.Modfile.Edit
open ModVerif ModVerif.Modfile

section total
variable {α : Type} (m : α → Bool) (id : α → Nat) (upd : α → α) (cleared : α)

theorem deref_ok {i : Nat} (h : i ≠ 0) : deref i = .ok i := by
  unfold deref nilId
  have : (i == 0) = false := by simp [h]
  simp [this]

theorem firstRest_total (l : List α) (h : ∀ x ∈ l, m x = true → id x ≠ 0) :
    ∀ need, ∃ r, firstRest m id upd cleared l need = .ok r := by
  induction l with
  | nil => intro need; exact ⟨_, rfl⟩
  | cons x xs ih =>
    intro need
    have ih' := ih (fun y hy => h y (List.mem_cons_of_mem _ hy))
    unfold firstRest
    by_cases hmx : m x = true
    · rcases ih' false with ⟨⟨rest, first, dead⟩, hr⟩
      simp only [hmx, if_true, bind, Except.bind, deref_ok (h x List.mem_cons_self hmx), hr]
      cases need <;> exact ⟨_, rfl⟩
    · rcases ih' need with ⟨⟨rest, first, dead⟩, hr⟩
      simp only [hmx, bind, Except.bind, hr]
      exact ⟨_, rfl⟩

theorem clearAll_total (l : List α) (h : ∀ x ∈ l, m x = true → id x ≠ 0) : ∃ r, clearAll m id cleared l = .ok r := by
  induction l with
  | nil => exact ⟨_, rfl⟩
  | cons x xs ih =>
    rcases ih (fun y hy => h y (List.mem_cons_of_mem _ hy)) with ⟨⟨rest, dead⟩, hr⟩
    unfold clearAll
    by_cases hmx : m x = true
    · simp only [hmx, if_true, bind, Except.bind, deref_ok (h x List.mem_cons_self hmx), hr]
      exact ⟨_, rfl⟩
    · simp only [hmx, bind, Except.bind, hr]
      exact ⟨_, rfl⟩

end total

/-- with the invariant, an entry of the `entries` list has a real line id -/
theorem Inv.entry_id_pos {e : EFile} (hi : Inv e) : ∀ en ∈ entries e.f, en.id ≠ 0 := by
  intro en hen
  rcases hi.mtch.cover en hen with ⟨v, hv, hid, _⟩
  rw [← hid]; exact hi.tree.pos _ (view_id_mem_treeIds hv)

theorem Inv.godebug_pos {e : EFile} (hi : Inv e) : ∀ x ∈ e.f.godebug, liveG x = true → x.lineId ≠ 0 := fun x hx hl =>
  hi.entry_id_pos (entG x) (by rw [entries_godebug]; exact List.mem_append_right _ (List.mem_append_left _ ((mem_entsOf liveG entG).2 ⟨x, hx, hl, rfl⟩)))
theorem Inv.require_pos {e : EFile} (hi : Inv e) : ∀ x ∈ e.f.require, liveRq x = true → x.lineId ≠ 0 := fun x hx hl =>
  hi.entry_id_pos (entRq x) (by rw [entries_require]; exact List.mem_append_right _ (List.mem_append_left _ ((mem_entsOf liveRq entRq).2 ⟨x, hx, hl, rfl⟩)))
theorem Inv.exclude_pos {e : EFile} (hi : Inv e) : ∀ x ∈ e.f.exclude, liveX x = true → x.lineId ≠ 0 := fun x hx hl =>
  hi.entry_id_pos (entX x) (by rw [entries_exclude]; exact List.mem_append_right _ (List.mem_append_left _ ((mem_entsOf liveX entX).2 ⟨x, hx, hl, rfl⟩)))
theorem Inv.replace_pos {e : EFile} (hi : Inv e) : ∀ x ∈ e.f.replace, liveRp x = true → x.lineId ≠ 0 := fun x hx hl =>
  hi.entry_id_pos (entRp x) (by rw [entries_replace]; exact List.mem_append_right _ (List.mem_append_left _ ((mem_entsOf liveRp entRp).2 ⟨x, hx, hl, rfl⟩)))
theorem Inv.retract_pos {e : EFile} (hi : Inv e) : ∀ x ∈ e.f.retract, liveRt x = true → x.lineId ≠ 0 := fun x hx hl =>
  hi.entry_id_pos (entRt x) (by rw [entries_retract]; exact List.mem_append_right _ (List.mem_append_left _ ((mem_entsOf liveRt entRt).2 ⟨x, hx, hl, rfl⟩)))
theorem Inv.tool_pos {e : EFile} (hi : Inv e) : ∀ x ∈ e.f.tool, liveT x = true → x.lineId ≠ 0 := fun x hx hl =>
  hi.entry_id_pos (entT x) (by rw [entries_tool]; exact List.mem_append_right _ (List.mem_append_left _ ((mem_entsOf liveT entT).2 ⟨x, hx, hl, rfl⟩)))

/-- the result of an operation is a success or a returned (documented) error — never a panic -/
def NoPanic {σ : Type} (r : Option (Except EditErr σ)) : Prop :=
  ∃ x, r = some x ∧ ∀ err, x = .error err → err.isReturned = true

theorem NoPanic.ok {σ : Type} (a : σ) : NoPanic (some (Except.ok a : Except EditErr σ)) := ⟨_, rfl, fun _ h => by cases h⟩

/-- **no panic**: every operation covered by the tree-level theorem terminates normally on a state satisfying the
    invariant -/
theorem applyMod_noPanic (e : EFile) (op : Op) (hv : ValidArgsT op) (hi : Inv e)
    (hmod : ∀ a b, op ≠ .addUse a b) (hmod2 : ∀ a b, op ≠ .addNewUse a b) (hmod3 : ∀ a, op ≠ .dropUse a)
    (hmod4 : ∀ a b, op ≠ .setUse a b) : NoPanic (applyMod e op) := by
  cases op with
  | addModule p => exact NoPanic.ok _
  | addGo v =>
    simp only [applyMod, addGoStmt]
    split
    · exact ⟨_, rfl, fun err h => by cases h; rfl⟩
    · split <;> exact NoPanic.ok _
  | dropGo => exact NoPanic.ok _
  | addToolchain n =>
    simp only [applyMod, addToolchainStmt]
    split
    · exact ⟨_, rfl, fun err h => by cases h; rfl⟩
    · split <;> exact NoPanic.ok _
  | dropToolchain => exact NoPanic.ok _
  | addGodebug k v =>
    simp only [applyMod, addGodebug, addGodebugCore, bind, Except.bind]
    rcases firstRest_total (fun g : Godebug => g.key == k) (·.lineId) (fun g => { g with value := v }) clearedGodebug e.f.godebug
      (fun x hx hm => hi.godebug_pos x hx (ne_nil_of_beq hv hm)) true with ⟨⟨l', first, dead⟩, hr⟩
    simp only [hr]
    cases first <;> exact NoPanic.ok _
  | dropGodebug k =>
    simp only [applyMod, dropGodebug, bind, Except.bind]
    rcases clearAll_total (fun g : Godebug => g.key == k) (·.lineId) clearedGodebug e.f.godebug
      (fun x hx hm => hi.godebug_pos x hx (ne_nil_of_beq hv hm)) with ⟨⟨l', dead⟩, hr⟩
    simp only [hr]; exact NoPanic.ok _
  | addRequire p v =>
    simp only [applyMod, addRequire, bind, Except.bind]
    rcases firstRest_total (fun r : Require => r.mod.path == p) (·.lineId)
      (fun r => { r with mod := { r.mod with version := v } }) clearedRequire e.f.require
      (fun x hx hm => hi.require_pos x hx (ne_nil_of_beq hv hm)) true with ⟨⟨l', first, dead⟩, hr⟩
    simp only [hr]
    cases first <;> exact NoPanic.ok _
  | addNewRequire p v i => exact NoPanic.ok _
  | dropRequire p =>
    simp only [applyMod, dropRequire, bind, Except.bind]
    rcases clearAll_total (fun r : Require => r.mod.path == p) (·.lineId) clearedRequire e.f.require
      (fun x hx hm => hi.require_pos x hx (ne_nil_of_beq hv hm)) with ⟨⟨l', dead⟩, hr⟩
    simp only [hr]; exact NoPanic.ok _
  | setRequire w r => exact absurd hv (by simp [ValidArgsT])
  | setRequireSeparateIndirect w r => exact absurd hv (by simp [ValidArgsT])
  | addExclude p v =>
    simp only [applyMod, addExclude]
    split
    · exact ⟨_, rfl, fun err h => by cases h; rfl⟩
    · split <;> exact NoPanic.ok _
  | dropExclude p v =>
    simp only [applyMod, dropExclude, bind, Except.bind]
    rcases clearAll_total (fun x : Exclude => x.mod.path == p && x.mod.version == v) (·.lineId) clearedExclude e.f.exclude
      (fun x hx hm => hi.exclude_pos x hx (by simp only [Bool.and_eq_true] at hm; exact ne_nil_of_beq hv hm.1)) with ⟨⟨l', dead⟩, hr⟩
    simp only [hr]; exact NoPanic.ok _
  | addReplace a b c d =>
    simp only [applyMod, addReplace, addReplaceCore, bind, Except.bind]
    rcases firstRest_total (fun r : Replace => r.old.path == a && (b.isEmpty || r.old.version == b)) (·.lineId)
      (fun r => { r with old := { path := a, version := b }, new := { path := c, version := d } }) clearedReplace e.f.replace
      (fun x hx hm => hi.replace_pos x hx (by simp only [Bool.and_eq_true] at hm; exact ne_nil_of_beq hv hm.1)) true
      with ⟨⟨l', first, dead⟩, hr⟩
    simp only [hr]
    cases first <;> exact NoPanic.ok _
  | dropReplace a b =>
    simp only [applyMod, dropReplace, dropReplaceCore, bind, Except.bind]
    rcases clearAll_total (fun r : Replace => r.old.path == a && r.old.version == b) (·.lineId) clearedReplace e.f.replace
      (fun x hx hm => hi.replace_pos x hx (by simp only [Bool.and_eq_true] at hm; exact ne_nil_of_beq hv hm.1)) with ⟨⟨l', dead⟩, hr⟩
    simp only [hr]; exact NoPanic.ok _
  | addRetract lo hi' why =>
    simp only [applyMod]
    rw [addRetract_eq]
    unfold addRetractP
    split
    · exact ⟨_, rfl, fun err h => by cases h; rfl⟩
    · split
      · exact ⟨_, rfl, fun err h => by cases h; rfl⟩
      · exact NoPanic.ok _
  | dropRetract lo hi' =>
    simp only [applyMod, dropRetract, bind, Except.bind]
    rcases clearAll_total (fun r : Retract => r.interval == ({ low := lo, high := hi' } : VersionInterval)) (·.lineId) clearedRetract e.f.retract
      (fun x hx hm => hi.retract_pos x hx (by
        have : x.interval = { low := lo, high := hi' } := eq_of_beq hm
        simp only [liveRt, this]
        rcases hv with h1 | h1
        · simp [ne_nil_live h1]
        · simp [ne_nil_live h1])) with ⟨⟨l', dead⟩, hr⟩
    simp only [hr]; exact NoPanic.ok _
  | addTool p => exact NoPanic.ok _
  | dropTool p =>
    simp only [applyMod, dropTool, bind, Except.bind]
    rcases clearAll_total (fun t : Tool => t.path == p) (·.lineId) clearedTool e.f.tool
      (fun x hx hm => hi.tool_pos x hx (ne_nil_of_beq hv hm)) with ⟨⟨l', dead⟩, hr⟩
    simp only [hr]; exact NoPanic.ok _
  | sortBlocks => exact NoPanic.ok _
  | cleanup => exact NoPanic.ok _
  | addUse d m => exact absurd rfl (hmod d m)
  | addNewUse d m => exact absurd rfl (hmod2 d m)
  | dropUse d => exact absurd rfl (hmod3 d)
  | setUse w rev => exact absurd rfl (hmod4 w rev)

/-- a go.mod operation (not one of the four go.work-only ones) -/
def IsModOp : Op → Prop
  | .addUse _ _ => False
  | .addNewUse _ _ => False
  | .dropUse _ => False
  | .setUse _ _ => False
  | _ => True

theorem applyMod_noPanic' (e : EFile) (op : Op) (hv : ValidArgsT op) (hm : IsModOp op) (hi : Inv e) : NoPanic (applyMod e op) := by
  apply applyMod_noPanic e op hv hi <;> intros <;> intro h <;> subst h <;> exact hm

/-- **nilDeref_unreachable (all operations but the bulk requirement setters)**: from a state satisfying the invariant a
    session of go.mod operations with valid arguments always runs to completion — no Go panic -/
theorem runOps_total (ops : List Op) : ∀ (e : EFile) (res0 : List Bool) (i : Nat),
    (∀ op ∈ ops, ValidArgsT op ∧ IsModOp op) → Inv e → ∃ e' res, runOps applyMod e ops res0 i = .done e' res := by
  induction ops with
  | nil => intro e res0 i _ _; exact ⟨e, res0.reverse, rfl⟩
  | cons op ops ih =>
    intro e res0 i hv hi
    rcases hv op List.mem_cons_self with ⟨hva, hmo⟩
    have hvs : ∀ o ∈ ops, ValidArgsT o ∧ IsModOp o := fun o ho => hv o (List.mem_cons_of_mem _ ho)
    rcases applyMod_noPanic' e op hva hmo hi with ⟨x, hx, herr⟩
    unfold runOps
    rw [hx]
    cases x with
    | ok e1 => exact ih e1 _ _ hvs (applyMod_inv e e1 op hva hi hx)
    | error err =>
      simp only [herr err rfl, if_true]
      exact ih e _ _ hvs hi

end ModVerif.Modfile.Edit
