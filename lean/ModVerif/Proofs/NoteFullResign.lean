/-
  C07 `sign_existing_roundtrip`: re-signing a note returned by `Open` (which already carries verified and
  unverified signatures) and opening the result.
  The lemmas of NoteRoundtrip are generalised from the signatures `Sign` creates (`GoodSig`: canonical base64)
  to every signature a well-formed line can carry (`ParsedSig`: any accepted base64 text).
-/
import ModVerif.Proofs.NoteFullOpen
import ModVerif.Proofs.NoteFullUtf8
namespace ModVerif.Note
open ModVerif ModVerif.B64

/-- a signature as a well-formed line of a valid message carries it; `x` = the decoded signature bytes -/
def ParsedSig (g : Signature) (x : Bytes) : Prop :=
  isValidName g.name = true ∧ g.base64 ≠ [] ∧ (10 : UInt8) ∉ g.base64 ∧ validMsg g.base64 = true ∧
  ∃ raw, b64dec g.base64 = some raw ∧ 5 ≤ raw.length ∧ be32 raw = some g.hash ∧ x = raw.drop 4

theorem parsedSig_of_good {g : Signature} {x : Bytes} (h : GoodSig g x) : ParsedSig g x := by
  obtain ⟨hn, hx, hb⟩ := h
  refine ⟨hn, ?_, ?_, ?_, putU32 g.hash ++ x, ?_, ?_, be32_putU32 _ _, ?_⟩
  · rw [hb]; exact b64enc_ne_nil (by simp [putU32])
  · rw [hb]; intro hm; exact (b64_no 10 hm).1 rfl
  · apply validMsg_of_ascii
    intro c hc
    rw [hb] at hc
    have := b64enc_chars _ c hc
    exact ⟨Or.inl (by omega), this.2⟩
  · rw [hb]; exact b64dec_b64enc _
  · cases x with
    | nil => exact absurd rfl hx
    | cons a x => simp [putU32]
  · simp [putU32]

/-! ### the line parser and the message-level lemmas, for `ParsedSig` -/

theorem parseSigLine_lineOf_gen {g : Signature} {x : Bytes} (h : ParsedSig g x) :
    parseSigLine (lineOf g) = some ⟨g.name, g.base64, g.hash, x, g.name ++ [32] ++ g.base64⟩ := by
  obtain ⟨hn, hne, _, _, raw, hdec, hlen, hbe, hx⟩ := h
  obtain ⟨_, _, _, h32⟩ := isValidName_spec hn
  have hpre : isPrefixOfB sigPrefix (lineOf g) = true :=
    isPrefixOfB_iff.mpr ⟨g.name ++ [32] ++ g.base64, by simp [lineOf]⟩
  have hdrop : (lineOf g).drop sigPrefix.length = g.name ++ 32 :: g.base64 := by
    simp [lineOf, sigPrefix]
  have hlen' : ¬ raw.length < 5 := by omega
  unfold parseSigLine
  simp only [hpre, Bool.not_true, Bool.false_eq_true, ↓reduceIte, hdrop, chop_single g.name g.base64 h32,
    hdec, hn, Bool.false_or, decide_false, hlen', hbe]
  simp [hne, hx]

theorem lineOf_no_nl_gen {g : Signature} {x : Bytes} (h : ParsedSig g x) : (10 : UInt8) ∉ lineOf g := by
  obtain ⟨hn, _, hb, _⟩ := h
  obtain ⟨_, _, h10, _⟩ := isValidName_spec hn
  simp only [lineOf, sigPrefix, List.mem_append, List.mem_cons, List.not_mem_nil, or_false, not_or]
  exact ⟨⟨⟨by decide, h10⟩, by decide⟩, hb⟩

theorem sigLines_blockOf_gen : ∀ (gs : List Signature), (∀ g ∈ gs, ∃ x, ParsedSig g x) →
    sigLines (blockOf gs) = gs.map lineOf
  | [], _ => by simp [blockOf, sigLines]
  | g :: gs, h => by
    obtain ⟨x, hg⟩ := h g List.mem_cons_self
    have ih := sigLines_blockOf_gen gs (fun g' hg' => h g' (List.mem_cons_of_mem _ hg'))
    simp only [blockOf, List.flatMap_cons, List.append_assoc, List.singleton_append, List.map_cons] at ih ⊢
    rw [sigLines_line _ _ (lineOf_no_nl_gen hg), ih]

theorem validMsg_lineOf_gen {g : Signature} {x : Bytes} (h : ParsedSig g x) : validMsg (lineOf g ++ [10]) = true := by
  obtain ⟨hn, _, _, hb, _⟩ := h
  obtain ⟨_, hv, _, _⟩ := isValidName_spec hn
  have hp : validMsg sigPrefix = true := by decide
  have h32 : validMsg [32] = true := by decide
  have h10 : validMsg [10] = true := by decide
  have : lineOf g ++ [10] = sigPrefix ++ (g.name ++ ([32] ++ (g.base64 ++ [10]))) := by simp [lineOf]
  rw [this]
  exact validMsg_append hp (validMsg_append hv (validMsg_append h32 (validMsg_append hb h10)))

theorem validMsg_blockOf_gen : ∀ (gs : List Signature), (∀ g ∈ gs, ∃ x, ParsedSig g x) → validMsg (blockOf gs) = true
  | [], _ => by decide
  | g :: gs, h => by
    obtain ⟨x, hg⟩ := h g List.mem_cons_self
    have ih := validMsg_blockOf_gen gs (fun g' hg' => h g' (List.mem_cons_of_mem _ hg'))
    simp only [blockOf, List.flatMap_cons] at ih ⊢
    exact validMsg_append (validMsg_lineOf_gen hg) ih

theorem noNN_blockOf_gen : ∀ (gs : List Signature), (∀ g ∈ gs, ∃ x, ParsedSig g x) → noNN (10 :: blockOf gs) = true
  | [], _ => by decide
  | g :: gs, h => by
    obtain ⟨x, hg⟩ := h g List.mem_cons_self
    have ih := noNN_blockOf_gen gs (fun g' hg' => h g' (List.mem_cons_of_mem _ hg'))
    simp only [blockOf, List.flatMap_cons, List.append_assoc, List.singleton_append] at ih ⊢
    exact noNN_line _ _ (lineOf_no_nl_gen hg) (lineOf_ne_nil g) ih

theorem blockOf_append (a b : List Signature) : blockOf (a ++ b) = blockOf a ++ blockOf b := by
  simp [blockOf, List.flatMap_append]

/-- the signature loop run forward over lines carrying arbitrary well-formed signatures -/
theorem openLoop_forward_parsed {known : Verifiers} {t : Bytes} :
    ∀ (gs : List Signature) (st : LoopState),
      (∀ g ∈ gs, ∃ x, ParsedSig g x ∧ LookupOK known t g x) →
      st.numSig + gs.length ≤ maxSigs →
      ∃ st', openLoop known t (gs.map lineOf) st = .ok st' ∧
        st'.sigs = st.sigs ++
          dedupFrom (fun g : Signature => (g.name, g.hash)) st.seen (gs.filter (sigKnown known)) ∧
        st'.unverifiedSigs = st.unverifiedSigs ++
          dedupFrom (fun g : Signature => g.name ++ [32] ++ g.base64) st.seenUnverified
            (gs.filter (sigUnknown known))
  | [], st, _, _ => ⟨st, by simp [openLoop], by simp [dedupFrom], by simp [dedupFrom]⟩
  | g :: gs, st, h, hlen => by
    obtain ⟨x, hg, hlook⟩ := h g List.mem_cons_self
    have hrest : ∀ g' ∈ gs, ∃ x, ParsedSig g' x ∧ LookupOK known t g' x :=
      fun g' hg' => h g' (List.mem_cons_of_mem _ hg')
    simp only [List.length_cons] at hlen
    have hn : ¬ st.numSig + 1 > maxSigs := by omega
    simp only [List.map_cons, openLoop, openStep, parseSigLine_lineOf_gen hg, hn, ↓reduceIte]
    rcases hlook with hu | ⟨k, hk, hkn, hkh, hver⟩
    · have h1 : sigKnown known g = false := by simp [sigKnown, hu]
      have h2 : sigUnknown known g = true := by simp [sigUnknown, hu]
      simp only [hu, List.filter_cons, h1, h2, Bool.false_eq_true, ↓reduceIte]
      by_cases hc : (g.name ++ [32] ++ g.base64) ∈ st.seenUnverified
      · have hc' : st.seenUnverified.contains (g.name ++ [32] ++ g.base64) = true := by simpa using hc
        simp only [hc', ↓reduceIte]
        obtain ⟨st', hl, hs, hu'⟩ := openLoop_forward_parsed gs { st with numSig := st.numSig + 1 } hrest (by simp; omega)
        rw [show g.name ++ [32] ++ g.base64 = g.name ++ 32 :: g.base64 by simp] at hc
        exact ⟨st', hl, by simpa using hs, by simpa [dedupFrom, hc] using hu'⟩
      · have hc' : st.seenUnverified.contains (g.name ++ [32] ++ g.base64) = false := by simpa using hc
        simp only [hc', Bool.false_eq_true, ↓reduceIte]
        obtain ⟨st', hl, hs, hu'⟩ := openLoop_forward_parsed gs
          { st with numSig := st.numSig + 1, seenUnverified := (g.name ++ [32] ++ g.base64) :: st.seenUnverified,
                    unverifiedSigs := st.unverifiedSigs ++ [SigLine.toSig ⟨g.name, g.base64, g.hash, x, g.name ++ [32] ++ g.base64⟩] }
          hrest (by simp; omega)
        rw [show g.name ++ [32] ++ g.base64 = g.name ++ 32 :: g.base64 by simp] at hc
        exact ⟨st', hl, by simpa using hs, by simpa [dedupFrom, hc, SigLine.toSig] using hu'⟩
    · have h1 : sigKnown known g = true := by simp [sigKnown, hk]
      have h2 : sigUnknown known g = false := by simp [sigUnknown, hk]
      simp only [hk, hkn, hkh, bne_self_eq_false, Bool.or_self, Bool.false_eq_true, ↓reduceIte,
        List.filter_cons, h1, h2, hver, Bool.not_true]
      by_cases hc : (g.name, g.hash) ∈ st.seen
      · have hc' : st.seen.contains (g.name, g.hash) = true := by simpa using hc
        simp only [hc', ↓reduceIte]
        obtain ⟨st', hl, hs, hu'⟩ := openLoop_forward_parsed gs { st with numSig := st.numSig + 1 } hrest (by simp; omega)
        exact ⟨st', hl, by simpa [dedupFrom, hc] using hs, by simpa using hu'⟩
      · have hc' : st.seen.contains (g.name, g.hash) = false := by simpa using hc
        simp only [hc', Bool.false_eq_true, ↓reduceIte]
        obtain ⟨st', hl, hs, hu'⟩ := openLoop_forward_parsed gs
          { st with numSig := st.numSig + 1, seen := (g.name, g.hash) :: st.seen,
                    sigs := st.sigs ++ [SigLine.toSig ⟨g.name, g.base64, g.hash, x, g.name ++ [32] ++ g.base64⟩] }
          hrest (by simp; omega)
        exact ⟨st', hl, by simpa [dedupFrom, hc, SigLine.toSig] using hs, by simpa using hu'⟩

/-! ### what `Open` guarantees about the signatures it returns -/

/-- first line of a non-empty block ending in a newline -/
theorem sigLines_first : ∀ (s : Bytes), s.getLast? = some 10 →
    ∃ l rest, s = l ++ 10 :: rest ∧ (10 : UInt8) ∉ l ∧ sigLines s = l :: sigLines rest
  | [], h => by simp at h
  | c :: s', h => by
    by_cases hc : c = 10
    · subst hc
      exact ⟨[], s', rfl, by simp, by simp [sigLines]⟩
    · have hne : s' ≠ [] := by
        intro e; subst e
        simp at h; exact hc h
      have hl : s'.getLast? = some 10 := by
        rw [List.getLast?_cons_of_ne_nil hne] at h
        exact h
      obtain ⟨l, rest, e, hnl, hs⟩ := sigLines_first s' hl
      refine ⟨c :: l, rest, by rw [e]; rfl, ?_, ?_⟩
      · simp only [List.mem_cons, not_or]; exact ⟨fun e => hc e.symm, hnl⟩
      · have hcb : (c == 10) = false := by simpa using hc
        simp only [sigLines, hcb, Bool.false_eq_true, ↓reduceIte, hs]

/-- every line of a valid block is valid and free of newlines -/
theorem sigLines_valid : ∀ (n : Nat) (s : Bytes), s.length ≤ n → validMsg s = true → (s = [] ∨ s.getLast? = some 10) →
    ∀ l ∈ sigLines s, validMsg l = true ∧ (10 : UInt8) ∉ l
  | 0, s, hn, _, _ => by
    have : s = [] := List.length_eq_zero_iff.mp (by omega)
    subst this
    simp [sigLines]
  | n + 1, s, hn, hv, hlast => by
    rcases hlast with rfl | hlast
    · simp [sigLines]
    · obtain ⟨l0, rest, e, hnl, hs⟩ := sigLines_first s hlast
      rw [e] at hv
      obtain ⟨hv1, hv2, _⟩ := validMsg_split_ascii (by decide) hv
      have hrl : rest = [] ∨ rest.getLast? = some 10 := by
        by_cases hr : rest = []
        · exact Or.inl hr
        · right
          rw [e] at hlast
          obtain ⟨r0, x0, hr0⟩ : ∃ r0 x0, rest = r0 ++ [x0] :=
            ⟨rest.dropLast, rest.getLast hr, (List.dropLast_concat_getLast hr).symm⟩
          rw [hr0] at hlast ⊢
          have e2 : l0 ++ 10 :: (r0 ++ [x0]) = (l0 ++ 10 :: r0) ++ [x0] := by simp
          rw [e2, List.getLast?_concat] at hlast
          rw [List.getLast?_concat]
          exact hlast
      have hlen : rest.length ≤ n := by
        have := congrArg List.length e
        simp at this
        omega
      intro l hl
      rw [hs] at hl
      rcases List.mem_cons.mp hl with rfl | hl
      · exact ⟨hv1, hnl⟩
      · exact sigLines_valid n rest hlen hv2 hrl l hl

theorem parseAll_mem : ∀ (ls : List Bytes) (ps : List SigLine), parseAll ls = some ps →
    ∀ p ∈ ps, ∃ line ∈ ls, parseSigLine line = some p
  | [], ps, h, p, hp => by
    simp only [parseAll, Option.some.injEq] at h; subst h; cases hp
  | line :: rest, ps, h, p, hp => by
    obtain ⟨p0, ps', hp0, hps', rfl⟩ := parseAll_cons h
    rcases List.mem_cons.mp hp with rfl | hp
    · exact ⟨line, List.mem_cons_self, hp0⟩
    · obtain ⟨l, hl, hpl⟩ := parseAll_mem rest ps' hps' p hp
      exact ⟨l, List.mem_cons_of_mem _ hl, hpl⟩

/-- a well-formed line of a valid block carries a `ParsedSig` -/
theorem parsedSig_of_line {line : Bytes} {p : SigLine} (hp : parseSigLine line = some p)
    (hv : validMsg line = true) (hnl : (10 : UInt8) ∉ line) : ParsedSig p.toSig p.sig := by
  obtain ⟨_, _, _, hn, hne, raw, hraw, hlen, hbe, hsig⟩ := parseSigLine_spec hp
  have hline := parseSigLine_line hp
  have hline' : line = (sigPrefix ++ p.name) ++ 32 :: p.b64 := by rw [hline]; simp
  rw [hline'] at hv
  obtain ⟨_, hvb, _⟩ := validMsg_split_ascii (by decide) hv
  refine ⟨hn, hne, ?_, hvb, raw, hraw, hlen, hbe, hsig⟩
  intro hm
  apply hnl
  rw [hline]
  simp only [List.mem_append]
  exact Or.inr hm

theorem mem_dedupFrom {α κ : Type} [DecidableEq κ] (key : α → κ) : ∀ (seen : List κ) (l : List α) (a : α),
    a ∈ dedupFrom key seen l → a ∈ l
  | _, [], a, h => by simp [dedupFrom] at h
  | seen, b :: l, a, h => by
    simp only [dedupFrom] at h
    split at h
    · exact List.mem_cons_of_mem _ (mem_dedupFrom key seen l a h)
    · rcases List.mem_cons.mp h with rfl | h
      · exact List.mem_cons_self
      · exact List.mem_cons_of_mem _ (mem_dedupFrom key _ l a h)

/-- everything `Open` guarantees about a returned note that re-signing needs -/
theorem Open_ok_sigs {msg : Bytes} {known : Verifiers} {n : Note} (h : Open msg known = .ok n) :
    ValidText n.text ∧ n.sigs ≠ [] ∧
    (∀ g ∈ n.sigs, ∃ x, ParsedSig g x ∧ ∃ k, known g.name g.hash = .found k ∧ k.name = g.name ∧ k.hash = g.hash ∧
      k.verify n.text x = true) ∧
    (∀ g ∈ n.unverifiedSigs, ∃ x, ParsedSig g x ∧ known g.name g.hash = .unknown) := by
  obtain ⟨hv, split, ps, hs, hne, hlast, hps, _, hlook, hfirst, ⟨p0, hp0, hp0k⟩, rfl⟩ := Open_ok_iff.mp h
  obtain ⟨hmsg, htl⟩ := split_spec hs
  -- validity of the two halves
  obtain ⟨t0, ht0⟩ := List.getLast?_eq_some_iff.mp htl
  have hmsg' : msg = (t0 ++ [10]) ++ 10 :: msg.drop (split + 2) := by
    rw [← ht0]; rw [hmsg] at *; simp at *
    exact hmsg
  have hv' := hv
  rw [hmsg'] at hv'
  obtain ⟨hvt, hvb, _⟩ := validMsg_split_ascii (by decide) hv'
  rw [← ht0] at hvt
  have hlines := sigLines_valid _ (msg.drop (split + 2)) (Nat.le_refl _) hvb (Or.inr hlast)
  have hparsed : ∀ p ∈ ps, ParsedSig p.toSig p.sig := by
    intro p hp
    obtain ⟨line, hl, hpl⟩ := parseAll_mem _ _ hps p hp
    obtain ⟨h1, h2⟩ := hlines line hl
    exact parsedSig_of_line hpl h1 h2
  refine ⟨⟨hvt, htl⟩, ?_, ?_, ?_⟩
  · simp only [ne_eq, List.map_eq_nil_iff]
    apply dedupFrom_nil_ne_nil
    intro e
    have : p0 ∈ ps.filter (isKnown known) := List.mem_filter.mpr ⟨hp0, hp0k⟩
    rw [e] at this; cases this
  · intro g hg
    simp only [List.mem_map] at hg
    obtain ⟨p, hp, rfl⟩ := hg
    have hpf := mem_dedupFrom _ _ _ _ hp
    obtain ⟨hpm, _⟩ := List.mem_filter.mp hpf
    obtain ⟨k, hk, hver⟩ := hfirst p hp
    refine ⟨p.sig, hparsed p hpm, k, hk, ?_, ?_, hver⟩
    · rcases hlook p hpm with hu | ⟨k', hk', hn', _⟩
      · rw [hu] at hk; cases hk
      · rw [hk] at hk'; simp only [Lookup.found.injEq] at hk'; subst hk'; exact hn'
    · rcases hlook p hpm with hu | ⟨k', hk', _, hh'⟩
      · rw [hu] at hk; cases hk
      · rw [hk] at hk'; simp only [Lookup.found.injEq] at hk'; subst hk'; exact hh'
  · intro g hg
    simp only [List.mem_map] at hg
    obtain ⟨p, hp, rfl⟩ := hg
    have hpf := mem_dedupFrom _ _ _ _ hp
    obtain ⟨hpm, hpu⟩ := List.mem_filter.mp hpf
    refine ⟨p.sig, hparsed p hpm, ?_⟩
    simp only [isUnknown] at hpu
    show known p.name p.hash = .unknown
    split at hpu
    · assumption
    · cases hpu

/-! ### the second loop of Sign -/

theorem signExisting_ok (have_ : List (Bytes × UInt32)) : ∀ (gs : List Signature), (∀ g ∈ gs, ∃ x, ParsedSig g x) →
    signExisting have_ gs = .ok (blockOf (gs.filter fun g => !have_.contains (g.name, g.hash)))
  | [], _ => by simp [signExisting, blockOf]
  | g :: gs, h => by
    obtain ⟨x, hn, _, _, _, raw, hraw, hlen, hbe, _⟩ := h g List.mem_cons_self
    have ih := signExisting_ok have_ gs (fun g' hg' => h g' (List.mem_cons_of_mem _ hg'))
    by_cases hc : have_.contains (g.name, g.hash) = true
    · simp only [signExisting, hn, Bool.not_true, Bool.false_eq_true, ↓reduceIte, hc, ih, List.filter_cons]
    · have hc' : have_.contains (g.name, g.hash) = false := by simpa using hc
      have hl4 : ¬ raw.length < 4 := by omega
      simp only [signExisting, hn, Bool.not_true, Bool.false_eq_true, ↓reduceIte, hc', hraw, hbe, ih,
        List.filter_cons, Bool.not_false, decide_false, hl4, bne_self_eq_false, Bool.or_self]
      simp [blockOf, sigLine, lineOf]

/-! ### re-signing -/

/-- Sign on a note returned by Open, then Open again -/
theorem sign_existing_core {msg : Bytes} {known : Verifiers} {n : Note} {ss : List Signer}
    (hopen : Open msg known = .ok n)
    (hcount : n.sigs.length + n.unverifiedSigs.length + ss.length ≤ maxSigs)
    (hgood : ∀ s ∈ ss, isValidName s.name = true ∧ ∃ x, s.sign n.text = some x ∧ x ≠ [] ∧
      LookupOK known n.text ⟨s.name, s.hash, b64enc (putU32 s.hash ++ x)⟩ x) :
    let kept := (n.sigs ++ n.unverifiedSigs).filter
      (fun g => !(ss.map fun s => (s.name, s.hash)).contains (g.name, g.hash))
    let all := kept ++ ss.filterMap (sigOfSigner n.text)
    Sign n ss = .ok (n.text ++ [10] ++ blockOf all) ∧
    Open (n.text ++ [10] ++ blockOf all) known = .ok ⟨n.text,
      dedupFrom (fun g : Signature => (g.name, g.hash)) [] (all.filter (sigKnown known)),
      dedupFrom (fun g : Signature => g.name ++ [32] ++ g.base64) [] (all.filter (sigUnknown known))⟩ := by
  intro kept all
  obtain ⟨ht, hsne, hsigs, hunv⟩ := Open_ok_sigs hopen
  -- the old signatures
  have hold : ∀ g ∈ n.sigs ++ n.unverifiedSigs, ∃ x, ParsedSig g x ∧ LookupOK known n.text g x := by
    intro g hg
    rcases List.mem_append.mp hg with hg | hg
    · obtain ⟨x, hp, k, hk, hkn, hkh, hver⟩ := hsigs g hg
      exact ⟨x, hp, Or.inr ⟨k, hk, hkn, hkh, hver⟩⟩
    · obtain ⟨x, hp, hu⟩ := hunv g hg
      exact ⟨x, hp, Or.inl hu⟩
  -- the new signatures
  obtain ⟨hsn, hlen⟩ := signNew_ok (t := n.text) ss (fun s hs => by
    obtain ⟨hn, x, hx, _⟩ := hgood s hs; exact ⟨hn, x, hx⟩)
  have hmadeOK : ∀ g ∈ ss.filterMap (sigOfSigner n.text), ∃ x, ParsedSig g x ∧ LookupOK known n.text g x := by
    intro g hg
    rw [List.mem_filterMap] at hg
    obtain ⟨s, hs, hsg⟩ := hg
    obtain ⟨hn, x, hx, hxne, hlook⟩ := hgood s hs
    simp only [sigOfSigner, hx, Option.map_some, Option.some.injEq] at hsg
    subst hsg
    exact ⟨x, parsedSig_of_good ⟨hn, hxne, rfl⟩, hlook⟩
  have hallOK : ∀ g ∈ all, ∃ x, ParsedSig g x ∧ LookupOK known n.text g x := by
    intro g hg
    rcases List.mem_append.mp hg with hg | hg
    · exact hold g (List.mem_filter.mp hg).1
    · exact hmadeOK g hg
  have hallP : ∀ g ∈ all, ∃ x, ParsedSig g x := fun g hg => by
    obtain ⟨x, h1, _⟩ := hallOK g hg; exact ⟨x, h1⟩
  -- Sign
  have hex := signExisting_ok (ss.map fun s => (s.name, s.hash)) (n.sigs ++ n.unverifiedSigs)
    (fun g hg => by obtain ⟨x, h1, _⟩ := hold g hg; exact ⟨x, h1⟩)
  have hSign : Sign n ss = .ok (n.text ++ [10] ++ blockOf all) := by
    unfold Sign
    simp only [hasSuffixB_of_getLast ht.2, Bool.not_true, Bool.false_eq_true, ↓reduceIte, hsn, hex]
    simp [all, kept, blockOf_append]
  refine ⟨hSign, ?_⟩
  -- some signature of a known key is written
  obtain ⟨g0, hg0⟩ := List.exists_mem_of_ne_nil _ hsne
  obtain ⟨_, _, k0, hk0, _⟩ := hsigs g0 hg0
  have hknownNe : all.filter (sigKnown known) ≠ [] := by
    by_cases hc : (ss.map fun s => (s.name, s.hash)).contains (g0.name, g0.hash) = true
    · simp only [List.contains_eq_mem, List.mem_map, decide_eq_true_eq] at hc
      obtain ⟨s, hs, hse⟩ := hc
      simp only [Prod.mk.injEq] at hse
      obtain ⟨_, x, hx, _, _⟩ := hgood s hs
      have hmem : (⟨s.name, s.hash, b64enc (putU32 s.hash ++ x)⟩ : Signature) ∈ all := by
        apply List.mem_append_right
        rw [List.mem_filterMap]
        exact ⟨s, hs, by simp [sigOfSigner, hx]⟩
      intro e
      have : (⟨s.name, s.hash, b64enc (putU32 s.hash ++ x)⟩ : Signature) ∈ all.filter (sigKnown known) := by
        rw [List.mem_filter]
        refine ⟨hmem, ?_⟩
        simp only [sigKnown, hse.1, hse.2, hk0]
      rw [e] at this; cases this
    · intro e
      have : g0 ∈ all.filter (sigKnown known) := by
        rw [List.mem_filter]
        refine ⟨List.mem_append_left _ (List.mem_filter.mpr ⟨List.mem_append_left _ hg0, by simpa using hc⟩), ?_⟩
        simp only [sigKnown, hk0]
      rw [e] at this; cases this
  have hallNe : all ≠ [] := by
    intro e; rw [e] at hknownNe; exact hknownNe rfl
  have hallLen : all.length ≤ maxSigs := by
    have h1 : kept.length ≤ (n.sigs ++ n.unverifiedSigs).length := List.length_filter_le _ _
    simp only [all, List.length_append] at h1 ⊢
    omega
  -- Open
  obtain ⟨t0, ht0⟩ := List.getLast?_eq_some_iff.mp ht.2
  have hmsg : n.text ++ [10] ++ blockOf all = t0 ++ 10 :: 10 :: blockOf all := by rw [ht0]; simp
  have hsplit := lastIndexOf_signed t0 (blockOf all) (noNN_blockOf_gen all hallP)
  have htake : (t0 ++ 10 :: 10 :: blockOf all).take (t0.length + 1) = n.text := by
    rw [take_len_succ, ht0]
  have hdrop : (t0 ++ 10 :: 10 :: blockOf all).drop (t0.length + 2) = blockOf all := drop_len_add2 _ _ _ _
  obtain ⟨hbne, hblast⟩ := blockOf_last all hallNe
  obtain ⟨st, hloop, hs1, hs2⟩ := openLoop_forward_parsed (known := known) (t := n.text) all {} hallOK (by
    show 0 + all.length ≤ maxSigs
    omega)
  have hvalid : validMsg (t0 ++ 10 :: 10 :: blockOf all) = true := by
    rw [← hmsg]
    exact validMsg_append (validMsg_append ht.1 (by decide)) (validMsg_blockOf_gen all hallP)
  have hst : st.sigs ≠ [] := by
    rw [hs1]; simp only [List.nil_append]; exact dedupFrom_nil_ne_nil _ hknownNe
  rw [hmsg]
  have := Open_intro (known := known) hvalid hsplit (by rw [hdrop]; exact hbne) (by rw [hdrop]; exact hblast)
    (by rw [hdrop, htake, sigLines_blockOf_gen all hallP]; exact hloop) hst
  rw [this, htake, hs1, hs2]
  simp

end ModVerif.Note
