/-
  Tie proofs for the regenerated semver functions (Generated/FnSemver.lean), part 1: the character predicates
  and the digit / identifier scanning loops (isNum, isBadNum, parseInt, nextIdent, compareInt, isIdentChar).
-/
import ModVerif.Generated.FnSemver
import ModVerif.Model.Semver
import ModVerif.Proofs.GoRtLemmas
namespace ModVerif.TieFnSemver
open ModVerif ModVerif.GoRt

theorem digit_test (c : UInt8) :
    (decide ((48 : Int) ≤ ((c.toNat : Nat) : Int)) && decide (((c.toNat : Nat) : Int) ≤ (57 : Int))) = Semver.isDigit c := by
  simp only [int_le_byte (n := 48) (d := 48) rfl, byte_le_int (n := 57) (d := 57) rfl, Semver.isDigit]

theorem isNum_loop1_spec : ∀ (suf pre : Bytes) (fuel : Nat), suf.length < fuel →
    Generated.Semver.isNum_loop1 (pre ++ suf) fuel (pre.length : Int)
      = .ok ((pre.length + (suf.takeWhile Semver.isDigit).length : Nat) : Int) := by
  intro suf
  induction suf with
  | nil =>
    intro pre fuel hf
    obtain ⟨f, rfl⟩ : ∃ f, fuel = f + 1 := ⟨fuel - 1, by omega⟩
    simp [Generated.Semver.isNum_loop1, len_eq]
  | cons c suf ih =>
    intro pre fuel hf
    obtain ⟨f, rfl⟩ : ∃ f, fuel = f + 1 := ⟨fuel - 1, by simp at hf; omega⟩
    have hlt : (pre.length : Int) < len (pre ++ c :: suf) := by simp [len_eq]; omega
    have hrec := ih (pre ++ [c]) f (by simp at hf; omega)
    simp only [List.append_assoc, List.singleton_append, List.length_append, List.length_singleton,
      Int.natCast_add, Int.natCast_one] at hrec
    unfold Generated.Semver.isNum_loop1
    simp only [hlt, decide_true, if_true, idx_append_length, bind_ok, pure_eq_ok]
    have hd := digit_test c
    by_cases h1 : (48 : Int) ≤ ((c.toNat : Nat) : Int) <;> by_cases h2 : ((c.toNat : Nat) : Int) ≤ (57 : Int) <;>
      simp only [h1, h2, decide_true, decide_false, Bool.and_self, Bool.and_false, Bool.false_and] at hd <;>
      simp [h1, h2, ← hd]
    rw [hrec]; simp; omega

theorem isBadNum_loop1_eq (v : Bytes) : ∀ fuel i,
    Generated.Semver.isBadNum_loop1 v fuel i = Generated.Semver.isNum_loop1 v fuel i := by
  intro fuel
  induction fuel with
  | zero => intro i; rfl
  | succ f ih => intro i; simp only [Generated.Semver.isBadNum_loop1, Generated.Semver.isNum_loop1, ih]

theorem parseInt_loop1_eq (v : Bytes) : ∀ fuel i,
    Generated.Semver.parseInt_loop1 v fuel i = Generated.Semver.isNum_loop1 v fuel i := by
  intro fuel
  induction fuel with
  | zero => intro i; rfl
  | succ f ih => intro i; simp only [Generated.Semver.parseInt_loop1, Generated.Semver.isNum_loop1, ih]

theorem decide_scan_all (p : UInt8 → Bool) (v : Bytes) :
    decide ((((v.takeWhile p).length : Nat) : Int) = len v) = v.all p := by
  rw [Bool.eq_iff_iff, decide_eq_true_eq, ← length_takeWhile_eq_iff_all, len_eq]
  omega

theorem isNum_ok (v : Bytes) (fuel : Nat) (hf : v.length + 1 ≤ fuel) :
    Generated.Semver.isNum fuel v = .ok (Semver.isNum v) := by
  have h := isNum_loop1_spec v [] fuel (by omega)
  simp only [List.nil_append, List.length_nil, Int.natCast_zero, Nat.zero_add] at h
  simp only [Generated.Semver.isNum, h, bind_ok, pure_eq_ok, decide_scan_all, Semver.isNum]

theorem isBadNum_ok (v : Bytes) (fuel : Nat) (hf : v.length + 1 ≤ fuel) :
    Generated.Semver.isBadNum fuel v = .ok (Semver.isBadNum v) := by
  have h := isNum_loop1_spec v [] fuel (by omega)
  simp only [List.nil_append, List.length_nil, Int.natCast_zero, Nat.zero_add] at h
  simp only [Generated.Semver.isBadNum, isBadNum_loop1_eq, h, bind_ok, pure_eq_ok, decide_scan_all, Semver.isBadNum]
  by_cases hall : v.all Semver.isDigit = true
  · have hlen : (v.takeWhile Semver.isDigit).length = v.length := (length_takeWhile_eq_iff_all _ _).mpr hall
    rw [hlen, hall]
    cases v with
    | nil => simp
    | cons c r =>
      cases r with
      | nil => simp
      | cons d r =>
        have : (1 : Int) < (r.length : Int) + 1 + 1 := by omega
        simp [this, byte_eq_int (n := 48) (d := 48) rfl]
        by_cases hc : c = 48 <;> simp [hc]
  · simp [hall]


/-! ### parseInt -/

theorem parseInt_ok (v : Bytes) (fuel : Nat) (hf : v.length ≤ fuel) :
    Generated.Semver.parseInt fuel v =
      .ok (match Semver.parseInt v with | some (t, r) => (t, r, true) | none => ([], [], false)) := by
  cases v with
  | nil => simp [Generated.Semver.parseInt, Semver.parseInt]
  | cons c rest =>
    have hloop := isNum_loop1_spec rest [c] fuel (by simp at hf; omega)
    simp only [List.singleton_append, List.length_singleton, Int.natCast_one] at hloop
    have hd := digit_test c
    have hle := length_takeWhile_le Semver.isDigit rest
    have hst : sliceTo (c :: rest) ((1 + (rest.takeWhile Semver.isDigit).length : Nat) : Int)
        = .ok (c :: rest.takeWhile Semver.isDigit) := by
      rw [sliceTo_natCast (by simp; omega), Nat.add_comm, List.take_succ_cons, take_length_takeWhile]
    have hsf : sliceFrom (c :: rest) ((1 + (rest.takeWhile Semver.isDigit).length : Nat) : Int)
        = .ok (rest.dropWhile Semver.isDigit) := by
      rw [sliceFrom_natCast (by simp; omega), Nat.add_comm, List.drop_succ_cons, drop_length_takeWhile]
    simp only [Generated.Semver.parseInt, Semver.parseInt, parseInt_loop1_eq, hloop, idx_zero_cons, bind_ok, pure_eq_ok,
      hst, hsf]
    simp only [byte_lt_int (n := 48) (d := 48) rfl, int_lt_byte (n := 57) (d := 57) rfl,
      byte_eq_int (n := 48) (d := 48) rfl, Semver.isDigit]
    clear hst hsf hloop hle hd
    generalize rest.takeWhile Semver.isDigit = tw
    generalize rest.dropWhile Semver.isDigit = dw
    by_cases h1 : c < 48 <;> by_cases h2 : 57 < c <;> by_cases h3 : c = 48 <;> cases tw <;>
      simp [h1, h2, h3] at * <;> omega

/-! ### isIdentChar, compareInt -/

theorem isIdentChar_byte (c : UInt8) :
    Generated.Semver.isIdentChar ((c.toNat : Nat) : Int) = Semver.isIdentChar c := by
  simp only [Generated.Semver.isIdentChar, Semver.isIdentChar,
    int_le_byte (n := 65) (d := 65) rfl, byte_le_int (n := 90) (d := 90) rfl,
    int_le_byte (n := 97) (d := 97) rfl, byte_le_int (n := 122) (d := 122) rfl,
    int_le_byte (n := 48) (d := 48) rfl, byte_le_int (n := 57) (d := 57) rfl,
    byte_eq_int (n := 45) (d := 45) rfl]
  by_cases h : c = 45 <;> simp [h]

theorem compareInt_eq (x y : Bytes) : Generated.Semver.compareInt x y = Semver.compareInt x y := by
  unfold Generated.Semver.compareInt Semver.compareInt
  simp only [len_eq, strLt_eq]
  by_cases h1 : x = y
  · simp [h1]
  · by_cases h2 : x.length < y.length
    · simp [h1, h2]
    · by_cases h3 : x.length > y.length
      · simp [h1, h2, h3]
      · by_cases h4 : bytesLt x y = true
        · simp [h1, h2, h3, h4]
        · simp [h1, h2, h3, h4]

/-! ### nextIdent -/

theorem nextIdent_loop1_spec : ∀ (suf pre : Bytes) (fuel : Nat), suf.length < fuel →
    Generated.Semver.nextIdent_loop1 (pre ++ suf) fuel (pre.length : Int)
      = .ok ((pre.length + (suf.takeWhile (· != 46)).length : Nat) : Int) := by
  intro suf
  induction suf with
  | nil =>
    intro pre fuel hf
    obtain ⟨f, rfl⟩ : ∃ f, fuel = f + 1 := ⟨fuel - 1, by omega⟩
    simp [Generated.Semver.nextIdent_loop1, len_eq]
  | cons c suf ih =>
    intro pre fuel hf
    obtain ⟨f, rfl⟩ : ∃ f, fuel = f + 1 := ⟨fuel - 1, by simp at hf; omega⟩
    have hlt : (pre.length : Int) < len (pre ++ c :: suf) := by simp [len_eq]; omega
    have hrec := ih (pre ++ [c]) f (by simp at hf; omega)
    simp only [List.append_assoc, List.singleton_append, List.length_append, List.length_singleton,
      Int.natCast_add, Int.natCast_one] at hrec
    unfold Generated.Semver.nextIdent_loop1
    simp only [hlt, decide_true, if_true, idx_append_length, bind_ok, pure_eq_ok,
      byte_eq_int (n := 46) (d := 46) rfl]
    by_cases h : c = 46
    · simp [h]
    · simp [h, hrec]; omega

theorem nextIdent_ok (x : Bytes) (fuel : Nat) (hf : x.length + 1 ≤ fuel) :
    Generated.Semver.nextIdent fuel x = .ok (Semver.nextIdent x) := by
  have h := nextIdent_loop1_spec x [] fuel (by omega)
  simp only [List.nil_append, List.length_nil, Int.natCast_zero, Nat.zero_add] at h
  have hle := length_takeWhile_le (· != 46) x
  simp only [Generated.Semver.nextIdent, h, bind_ok, pure_eq_ok, sliceTo_natCast hle, sliceFrom_natCast hle,
    take_length_takeWhile, drop_length_takeWhile, Semver.nextIdent]

end ModVerif.TieFnSemver
