/-
  C07 helper: a well-formed UTF-8 string splits at every ASCII byte into well-formed halves
  (the converse of `runesOf_append` at an ASCII boundary); consequence for `validMsg`.
-/
import ModVerif.Proofs.NoteRoundtrip
namespace ModVerif.Note
open ModVerif ModVerif.B64

theorem isCont_ascii {c : UInt8} (hc : c.toNat < 0x80) : isCont c = false := by
  simp [isCont]; omega

theorem runesOf_lt_C2 {c0 : UInt8} (t : Bytes) (h1 : ¬ c0.toNat < 0x80) (h2 : c0.toNat < 0xC2) :
    runesOf (c0 :: t) = none := by
  rw [runesOf.eq_def]; simp only [h1, h2, if_true, if_false]

theorem runesOf_ge_F5 {c0 : UInt8} (t : Bytes) (h1 : ¬ c0.toNat < 0x80) (h2 : ¬ c0.toNat < 0xC2) (h3 : ¬ c0.toNat < 0xE0)
    (h4 : ¬ c0.toNat < 0xF0) (h5 : ¬ c0.toNat < 0xF5) : runesOf (c0 :: t) = none := by
  rw [runesOf.eq_def]; simp only [h1, h2, h3, h4, h5, if_false]

theorem runesOf_three_short {c0 : UInt8} (t : Bytes) (h1 : ¬ c0.toNat < 0x80) (h2 : ¬ c0.toNat < 0xC2) (h3 : ¬ c0.toNat < 0xE0)
    (h4 : c0.toNat < 0xF0) (hs : t.length < 2) : runesOf (c0 :: t) = none := by
  rw [runesOf.eq_def]; simp only [h1, h2, h3, h4, if_true, if_false]
  match t, hs with
  | [], _ => rfl
  | [_], _ => rfl
  | _ :: _ :: _, hs => simp at hs; omega

theorem runesOf_four_short {c0 : UInt8} (t : Bytes) (h1 : ¬ c0.toNat < 0x80) (h2 : ¬ c0.toNat < 0xC2) (h3 : ¬ c0.toNat < 0xE0)
    (h4 : ¬ c0.toNat < 0xF0) (h5 : c0.toNat < 0xF5) (hs : t.length < 3) : runesOf (c0 :: t) = none := by
  rw [runesOf.eq_def]; simp only [h1, h2, h3, h4, h5, if_true, if_false]
  match t, hs with
  | [], _ => rfl
  | [_], _ => rfl
  | [_, _], _ => rfl
  | _ :: _ :: _ :: _, hs => simp at hs; omega

theorem runesOf_split_ascii {a : Bytes} (b : Bytes) {c : UInt8} (hc : c.toNat < 0x80) :
    ∀ r, runesOf (a ++ c :: b) = some r →
      ∃ ra rb, runesOf a = some ra ∧ runesOf b = some rb ∧ r = ra ++ c.toNat :: rb := by
  have hcont := isCont_ascii hc
  fun_induction runesOf a
  case case1 =>
    intro r h
    rw [List.nil_append, runesOf_ascii _ hc] at h
    simp only [Option.map_eq_some_iff] at h
    obtain ⟨rb, hrb, rfl⟩ := h
    exact ⟨[], rb, rfl, hrb, rfl⟩
  case case2 c0 rest x hx ih =>
    intro r h
    rw [List.cons_append, runesOf_ascii _ hx] at h
    simp only [Option.map_eq_some_iff] at h
    obtain ⟨r', hr', rfl⟩ := h
    obtain ⟨ra, rb, h1, h2, rfl⟩ := ih r' hr'
    exact ⟨x :: ra, rb, by simp [h1], h2, rfl⟩
  case case3 c0 rest x h1 h2 =>
    intro r h
    rw [List.cons_append, runesOf_lt_C2 _ h1 h2] at h
    cases h
  case case4 c0 x h1 h2 h3 b1 r0 hb1 ih =>
    intro r h
    rw [List.cons_append, List.cons_append, runesOf_two _ h1 h2 h3, if_pos hb1] at h
    simp only [Option.map_eq_some_iff] at h
    obtain ⟨r', hr', rfl⟩ := h
    obtain ⟨ra, rb, e1, e2, rfl⟩ := ih r' hr'
    exact ⟨_ :: ra, rb, by rw [e1]; rfl, e2, rfl⟩
  case case5 c0 x h1 h2 h3 b1 r0 hb1 =>
    intro r h
    rw [List.cons_append, List.cons_append, runesOf_two _ h1 h2 h3, if_neg hb1] at h
    cases h
  case case6 c0 x h1 h2 h3 =>
    intro r h
    rw [List.cons_append, List.nil_append, runesOf_two _ h1 h2 h3, hcont] at h
    simp at h
  case case7 c0 x h1 h2 h3 h4 b1 b2 r0 lo hi hcnd ih =>
    intro r h
    rw [List.cons_append, List.cons_append, List.cons_append, runesOf_three _ h1 h2 h3 h4, if_pos hcnd] at h
    simp only [Option.map_eq_some_iff] at h
    obtain ⟨r', hr', rfl⟩ := h
    obtain ⟨ra, rb, e1, e2, rfl⟩ := ih r' hr'
    exact ⟨_ :: ra, rb, by rw [e1]; rfl, e2, rfl⟩
  case case8 c0 x h1 h2 h3 h4 b1 b2 r0 lo hi hcnd =>
    intro r h
    rw [List.cons_append, List.cons_append, List.cons_append, runesOf_three _ h1 h2 h3 h4, if_neg hcnd] at h
    cases h
  case case9 c0 rest x h1 h2 h3 h4 hshort =>
    intro r h
    exfalso
    match rest, hshort with
    | [], _ =>
      cases b with
      | nil =>
        rw [List.cons_append, List.nil_append, runesOf_three_short _ h1 h2 h3 h4 (by simp)] at h
        cases h
      | cons b2 r0 =>
        rw [List.cons_append, List.nil_append, runesOf_three _ h1 h2 h3 h4] at h
        have : ¬ ((decide ((if (c0.toNat == 0xE0) = true then 0xA0 else 0x80) ≤ c.toNat) &&
            decide (c.toNat ≤ (if (c0.toNat == 0xED) = true then 0x9F else 0xBF)) && isCont b2) = true) := by
          simp only [Bool.and_eq_true, decide_eq_true_eq, not_and]
          intro hlo; exfalso; split at hlo <;> omega
        rw [if_neg this] at h
        cases h
    | [b1], _ =>
      rw [List.cons_append, List.cons_append, List.nil_append, runesOf_three _ h1 h2 h3 h4, hcont] at h
      simp at h
    | b1 :: b2 :: r0, hs => exact hs b1 b2 r0 rfl
  case case10 c0 x h1 h2 h3 h4 h5 b1 b2 b3 r0 lo hi hcnd ih =>
    intro r h
    rw [List.cons_append, List.cons_append, List.cons_append, List.cons_append,
      runesOf_four _ h1 h2 h3 h4 h5, if_pos hcnd] at h
    simp only [Option.map_eq_some_iff] at h
    obtain ⟨r', hr', rfl⟩ := h
    obtain ⟨ra, rb, e1, e2, rfl⟩ := ih r' hr'
    exact ⟨_ :: ra, rb, by rw [e1]; rfl, e2, rfl⟩
  case case11 c0 x h1 h2 h3 h4 h5 b1 b2 b3 r0 lo hi hcnd =>
    intro r h
    rw [List.cons_append, List.cons_append, List.cons_append, List.cons_append,
      runesOf_four _ h1 h2 h3 h4 h5, if_neg hcnd] at h
    cases h
  case case12 c0 rest x h1 h2 h3 h4 h5 hshort =>
    intro r h
    exfalso
    match rest, hshort with
    | [], _ =>
      match b with
      | [] =>
        rw [List.cons_append, List.nil_append, runesOf_four_short _ h1 h2 h3 h4 h5 (by simp)] at h
        cases h
      | [b2] =>
        rw [List.cons_append, List.nil_append, runesOf_four_short _ h1 h2 h3 h4 h5 (by simp)] at h
        cases h
      | b2 :: b3 :: r0 =>
        rw [List.cons_append, List.nil_append, runesOf_four _ h1 h2 h3 h4 h5] at h
        have : ¬ ((decide ((if (c0.toNat == 0xF0) = true then 0x90 else 0x80) ≤ c.toNat) &&
            decide (c.toNat ≤ (if (c0.toNat == 0xF4) = true then 0x8F else 0xBF)) && isCont b2 && isCont b3) = true) := by
          simp only [Bool.and_eq_true, decide_eq_true_eq, not_and]
          intro hlo; exfalso; split at hlo <;> omega
        rw [if_neg this] at h
        cases h
    | [b1], _ =>
      match b with
      | [] =>
        rw [List.cons_append, List.cons_append, List.nil_append, runesOf_four_short _ h1 h2 h3 h4 h5 (by simp)] at h
        cases h
      | b3 :: r0 =>
        rw [List.cons_append, List.cons_append, List.nil_append, runesOf_four _ h1 h2 h3 h4 h5, hcont] at h
        simp at h
    | [b1, b2], _ =>
      rw [List.cons_append, List.cons_append, List.cons_append, List.nil_append,
        runesOf_four _ h1 h2 h3 h4 h5, hcont] at h
      simp at h
    | b1 :: b2 :: b3 :: r0, hs => exact hs b1 b2 b3 r0 rfl
  case case13 c0 rest x h1 h2 h3 h4 h5 =>
    intro r h
    rw [List.cons_append, runesOf_ge_F5 _ h1 h2 h3 h4 h5] at h
    cases h

/-- a valid message splits at every ASCII byte into valid messages -/
theorem validMsg_split_ascii {a b : Bytes} {c : UInt8} (hc : c.toNat < 0x80) (h : validMsg (a ++ c :: b) = true) :
    validMsg a = true ∧ validMsg b = true ∧ (0x20 ≤ c.toNat ∨ c = 10) := by
  unfold validMsg at h
  split at h
  · cases h
  · rename_i r hr
    obtain ⟨ra, rb, h1, h2, rfl⟩ := runesOf_split_ascii b hc r hr
    simp only [List.all_append, List.all_cons, Bool.and_eq_true] at h
    obtain ⟨ha, hcc, hb⟩ := h
    refine ⟨by unfold validMsg; rw [h1]; exact ha, by unfold validMsg; rw [h2]; exact hb, ?_⟩
    simp only [Bool.not_eq_eq_eq_not, Bool.not_true, Bool.and_eq_false_imp, decide_eq_true_eq, bne_eq_false_iff_eq] at hcc
    by_cases h20 : c.toNat < 0x20
    · right
      have := hcc h20
      exact UInt8.toNat_inj.mp (by simpa using this)
    · left; omega

end ModVerif.Note
