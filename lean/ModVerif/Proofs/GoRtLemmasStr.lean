/-
  General lemmas about the string part of the GoRt run-time vocabulary (Basic/GoRt.lean, Basic/GoRtUtf8.lean) used by
  the tie proofs of module/module.go (Tie/FnModule.lean):

  * `for i, r := range s`: the translated loop steps over byte offsets with `decodeRuneAt`; `range_step` says that
    one step delivers the head of `Utf8.runes (s.drop k)` and moves to an offset whose rune list is its tail;
  * `strings.Index / Contains / Count / LastIndexByte` with a ONE-byte needle as `takeWhile` / `List.count` /
    `List.contains` facts, `strings.Contains` with a longer needle as an `isPrefixOfB`-at-some-offset fact;
  * last byte (`s[len(s)-1]`) as `getLast?`.

  Core Lean only.  Namespace `ModVerif.GoRtStr` (the other agents' `GoRtLemmas*.lean` live in `ModVerif.GoRt`,
  `ModVerif.GoRtList`; a namespace of its own avoids clashes when everything is imported together).
-/
import ModVerif.Basic.GoRt
import ModVerif.Basic.GoRtUtf8
import ModVerif.Proofs.GoRtLemmas
namespace ModVerif.GoRtStr
open ModVerif ModVerif.GoRt

/-! ### UTF-8 decoding: width and shape of one step -/

theorem decode_width {s : Bytes} {r w : Nat} (h : Utf8.decode s = some (r, w)) :
    1 ≤ w ∧ w ≤ s.length := by
  unfold Utf8.decode at h
  split at h
  · simp at h
  · rename_i b0 rest
    simp only at h
    repeat' split at h
    all_goals (first | (simp at h; done) | (simp only [Option.some.injEq, Prod.mk.injEq] at h; obtain ⟨_, rfl⟩ := h; simp [List.length]) )

theorem decodeRune_width (s : Bytes) (hs : s ≠ []) :
    1 ≤ (Utf8.decodeRune s).2 ∧ (Utf8.decodeRune s).2 ≤ s.length := by
  unfold Utf8.decodeRune
  cases h : Utf8.decode s with
  | none =>
    cases s with
    | nil => exact absurd rfl hs
    | cons b t => simp
  | some rw =>
    obtain ⟨r, w⟩ := rw
    exact decode_width h

theorem runesAux_eq_drop : ∀ (k : Nat) (s : Bytes), Utf8.runesAux k s = Utf8.runes (s.drop k) := by
  intro k
  induction k with
  | zero => intro s; rfl
  | succ n ih =>
    intro s
    cases s with
    | nil => rfl
    | cons b t => simp only [Utf8.runesAux, List.drop_succ_cons]; exact ih t

/-- the rune loop of `range s`: decode the head, skip its width -/
theorem runes_step (s : Bytes) (hs : s ≠ []) :
    Utf8.runes s = (Utf8.decodeRune s).1 :: Utf8.runes (s.drop (Utf8.decodeRune s).2) := by
  cases s with
  | nil => exact absurd rfl hs
  | cons b t =>
    have hw := (decodeRune_width (b :: t) hs).1
    show Utf8.runesAux 0 (b :: t) = _
    simp only [Utf8.runesAux, runesAux_eq_drop]
    obtain ⟨n, hn⟩ : ∃ n, (Utf8.decodeRune (b :: t)).2 = n + 1 := ⟨(Utf8.decodeRune (b :: t)).2 - 1, by omega⟩
    rw [hn]
    simp

theorem isCont_ge {b : UInt8} (h : Utf8.isCont b = true) : 0x80 ≤ b.toNat := by
  simp [Utf8.isCont] at h; omega

theorem inRange_ge {lo hi : Nat} {b : UInt8} (h : Utf8.inRange lo hi b = true) : lo ≤ b.toNat := by
  simp [Utf8.inRange] at h; omega

theorem ite_some_inv {α : Type} (c : Bool) (v x : α) (h : (if c = true then some v else none) = some x) :
    c = true ∧ v = x := by
  cases c <;> simp at h ⊢; exact h

/-- a successfully decoded multi-byte sequence is a rune ≥ 0x80 made of bytes ≥ 0x80 -/
theorem decode_nonascii {b0 : UInt8} {rest : Bytes} {r w : Nat} (h0 : 0x80 ≤ b0.toNat)
    (h : Utf8.decode (b0 :: rest) = some (r, w)) :
    0x80 ≤ r ∧ ∀ b ∈ (b0 :: rest).take w, 0x80 ≤ b.toNat := by
  unfold Utf8.decode at h
  simp only at h
  have h1 : ¬ b0.toNat < 0x80 := by omega
  simp only [h1, if_false] at h
  split at h
  · cases h
  · split at h
    · split at h
      · rename_i b1 tl
        split at h
        · rename_i hc
          simp only [Option.some.injEq, Prod.mk.injEq] at h
          obtain ⟨rfl, rfl⟩ := h
          have := isCont_ge hc
          refine ⟨by omega, ?_⟩
          intro b hb
          simp at hb
          rcases hb with rfl | rfl <;> omega
        · cases h
      · cases h
    · split at h
      · split at h
        · rename_i b1 b2 tl
          obtain ⟨hc, hv⟩ := ite_some_inv _ _ _ h
          simp only [Bool.and_eq_true] at hc
          simp only [Prod.mk.injEq] at hv
          obtain ⟨rfl, rfl⟩ := hv
          have h2 := isCont_ge hc.2
          have h1 : 0x80 ≤ b1.toNat ∧ (b0.toNat = 0xE0 → 0xA0 ≤ b1.toNat) := by
            have := hc.1
            split at this
            · have := inRange_ge this; omega
            · rename_i hne
              have hne : b0.toNat ≠ 0xE0 := by simpa using hne
              split at this <;> have := inRange_ge this <;> omega
          refine ⟨by omega, ?_⟩
          intro b hb
          simp at hb
          rcases hb with rfl | rfl | rfl <;> omega
        · cases h
      · split at h
        · split at h
          · rename_i b1 b2 b3 tl
            obtain ⟨hc, hv⟩ := ite_some_inv _ _ _ h
            simp only [Bool.and_eq_true] at hc
            simp only [Prod.mk.injEq] at hv
            obtain ⟨rfl, rfl⟩ := hv
            have h2 := isCont_ge hc.1.2
            have h3 := isCont_ge hc.2
            have h1 : 0x80 ≤ b1.toNat ∧ (b0.toNat = 0xF0 → 0x90 ≤ b1.toNat) := by
              have := hc.1.1
              split at this
              · have := inRange_ge this; omega
              · rename_i hne
                have hne : b0.toNat ≠ 0xF0 := by simpa using hne
                split at this <;> have := inRange_ge this <;> omega
            refine ⟨by omega, ?_⟩
            intro b hb
            simp at hb
            rcases hb with rfl | rfl | rfl | rfl <;> omega
          · cases h
        · cases h

theorem decodeRune_ascii (b : UInt8) (rest : Bytes) (h : b.toNat < 128) :
    Utf8.decodeRune (b :: rest) = (b.toNat, 1) := by
  simp [Utf8.decodeRune, Utf8.decode, h]

/-- shape of one decoding step: an ASCII byte is its own rune of width 1; anything else yields a rune
    ≥ 0x80 (possibly RuneError) and consumes only bytes ≥ 0x80. -/
theorem decodeRune_cases (b0 : UInt8) (rest : Bytes) :
    (b0.toNat < 0x80 ∧ Utf8.decodeRune (b0 :: rest) = (b0.toNat, 1)) ∨
    (0x80 ≤ b0.toNat ∧ 0x80 ≤ (Utf8.decodeRune (b0 :: rest)).1 ∧
      ∀ b ∈ (b0 :: rest).take (Utf8.decodeRune (b0 :: rest)).2, 0x80 ≤ b.toNat) := by
  by_cases h : b0.toNat < 0x80
  · exact Or.inl ⟨h, decodeRune_ascii b0 rest h⟩
  · refine Or.inr ⟨by omega, ?_⟩
    unfold Utf8.decodeRune
    cases hd : Utf8.decode (b0 :: rest) with
    | some rw =>
      obtain ⟨r, w⟩ := rw
      exact decode_nonascii (by omega) hd
    | none =>
      refine ⟨by simp [Utf8.runeError], ?_⟩
      intro b hb
      simp at hb
      subst hb; omega

/-! ### one step of a translated `for i, r := range s` loop -/

theorem decodeRuneAt_natCast (s : Bytes) (k : Nat) :
    decodeRuneAt s (k : Int) =
      (((Utf8.decodeRune (s.drop k)).1 : Int), ((Utf8.decodeRune (s.drop k)).2 : Int)) := by
  simp [decodeRuneAt]

/-- At a byte offset `k < len s` the translated range loop reads `(r, w)` with: `r` the head of the rune list of
    `s.drop k`, `k + w` an offset whose rune list is the tail; either the byte at `k` is ASCII, is the rune, and
    `w = 1`, or the rune is ≥ 0x80 and all `w` bytes consumed are ≥ 0x80. -/
theorem range_step (s : Bytes) (k : Nat) (hk : k < s.length) :
    ∃ r w : Nat, decodeRuneAt s (k : Int) = ((r : Int), (w : Int)) ∧ 1 ≤ w ∧ k + w ≤ s.length ∧
      Utf8.runes (s.drop k) = r :: Utf8.runes (s.drop (k + w)) ∧
      ((s[k].toNat < 0x80 ∧ r = s[k].toNat ∧ w = 1) ∨
       (0x80 ≤ s[k].toNat ∧ 0x80 ≤ r ∧ ∀ b ∈ (s.drop k).take w, 0x80 ≤ b.toNat)) := by
  have hne : s.drop k ≠ [] := by
    intro h; have := congrArg List.length h; simp at this; omega
  have hw := decodeRune_width (s.drop k) hne
  have hd : s.drop k = s[k] :: s.drop (k + 1) := by
    rw [List.drop_eq_getElem_cons hk]
  refine ⟨(Utf8.decodeRune (s.drop k)).1, (Utf8.decodeRune (s.drop k)).2, decodeRuneAt_natCast s k, hw.1, ?_, ?_, ?_⟩
  · have := hw.2; simp at this; omega
  · rw [runes_step _ hne, List.drop_drop]
  · have hc := decodeRune_cases s[k] (s.drop (k + 1))
    rw [← hd] at hc
    rcases hc with ⟨h1, h2⟩ | ⟨h1, h2, h3⟩
    · left; rw [h2]; exact ⟨h1, rfl, rfl⟩
    · right; exact ⟨h1, h2, h3⟩

/-! ### one-byte needles -/

theorem isPrefixOfB_single (c x : UInt8) (xs : Bytes) : isPrefixOfB [c] (x :: xs) = (c == x) := by
  simp [isPrefixOfB]

theorem mkByte_lit (n : Nat) (h : n < 256) : mkByte (n : Int) = UInt8.ofNat n := by
  have : ((n : Int) % 256).toNat = n := by omega
  simp [mkByte, this]

theorem indexAux_single (c : UInt8) : ∀ (s : Bytes) (k : Nat),
    indexAux [c] s k = if c ∈ s then ((k + (s.takeWhile (· != c)).length : Nat) : Int) else -1
  | [], k => by simp [indexAux]
  | x :: xs, k => by
    rw [indexAux, isPrefixOfB_single]
    by_cases h : c = x
    · subst h; simp
    · have h' : (x != c) = true := by simp; exact fun e => h e.symm
      have hne : (c == x) = false := by simp [h]
      simp only [hne, Bool.false_eq_true, if_false, indexAux_single c xs (k + 1), List.mem_cons, h, false_or,
        List.takeWhile_cons, h', if_true, List.length_cons]
      split <;> simp <;> omega

theorem index_single (s : Bytes) (c : UInt8) :
    index s [c] = if c ∈ s then (((s.takeWhile (· != c)).length : Nat) : Int) else -1 := by
  simp [index, indexAux_single]

theorem index_single_nonneg (s : Bytes) (c : UInt8) : 0 ≤ index s [c] ↔ c ∈ s := by
  rw [index_single]; split <;> simp [*]

theorem contains_single (s : Bytes) (c : UInt8) : contains s [c] = s.contains c := by
  rw [Bool.eq_iff_iff]; simp [contains, index_single_nonneg]

theorem takeWhile_ne_of_not_mem {c : UInt8} : ∀ {s : Bytes}, c ∉ s → s.takeWhile (· != c) = s
  | [], _ => rfl
  | x :: xs, h => by
    have h1 : x ≠ c := fun e => h (by simp [e])
    have h2 : c ∉ xs := fun e => h (by simp [e])
    simp [h1, takeWhile_ne_of_not_mem h2]

/-- `short := s; if i := strings.Index(s, "c"); i >= 0 { short = s[:i] }` is `takeWhile (· != c)` in both cases -/
theorem take_index_single (s : Bytes) (c : UInt8) (h : c ∈ s) :
    sliceTo s (index s [c]) = .ok (s.takeWhile (· != c)) := by
  rw [index_single, if_pos h, sliceTo_natCast (length_takeWhile_le _ _), take_length_takeWhile]

theorem countAux_single (c : UInt8) : ∀ (f : Nat) (s : Bytes), s.length < f → countAux [c] f s = s.count c
  | 0, s, h => by omega
  | f + 1, [], _ => by simp [countAux]
  | f + 1, x :: xs, h => by
    rw [countAux, isPrefixOfB_single]
    have hl : xs.length < f := by simp at h; omega
    by_cases hc : c = x
    · subst hc; simp [countAux_single c f xs hl]; omega
    · have hne : (c == x) = false := by simp [hc]
      have : (x == c) = false := by simp; exact fun e => hc e.symm
      simp [hne, countAux_single c f xs hl, List.count_cons, this]

theorem count_single (s : Bytes) (c : UInt8) : count s [c] = ((s.count c : Nat) : Int) := by
  simp [count, countAux_single c (s.length + 1) s (by omega)]

/-- `strings.Count(s, "c") == len(s)` says that every byte is `c` -/
theorem count_single_eq_len (s : Bytes) (c : UInt8) :
    decide (count s [c] = len s) = s.all (· == c) := by
  rw [count_single, len_eq, Bool.eq_iff_iff, decide_eq_true_eq]
  constructor
  · intro h
    have h' : s.count c = s.length := by omega
    rw [List.count_eq_length] at h'
    simp; intro b hb; exact (h' b hb).symm
  · intro h
    have : s.count c = s.length := by
      rw [List.count_eq_length]; intro b hb; simp at h; exact (h b hb).symm
    omega

/-! ### strings.LastIndexByte -/

theorem lastIndexByteAux_not_mem (c : UInt8) : ∀ (s : Bytes) (k : Nat) (acc : Int), c ∉ s →
    lastIndexByteAux c s k acc = acc
  | [], _, _, _ => rfl
  | x :: xs, k, acc, h => by
    have h1 : (x == c) = false := by simp; exact fun e => h (by simp [e])
    have h2 : c ∉ xs := fun e => h (by simp [e])
    simp [lastIndexByteAux, h1, lastIndexByteAux_not_mem c xs (k + 1) acc h2]

theorem lastIndexByteAux_split (c : UInt8) (suf : Bytes) (hs : c ∉ suf) : ∀ (pre : Bytes) (k : Nat) (acc : Int),
    lastIndexByteAux c (pre ++ c :: suf) k acc = ((k + pre.length : Nat) : Int)
  | [], k, acc => by
    simp [lastIndexByteAux, lastIndexByteAux_not_mem c suf (k + 1) _ hs]
  | x :: xs, k, acc => by
    simp only [List.cons_append, lastIndexByteAux, lastIndexByteAux_split c suf hs xs (k + 1), List.length_cons]
    congr 1; omega

/-- a byte that occurs in `s` has a last occurrence -/
theorem exists_last_split (c : UInt8) : ∀ (s : Bytes), c ∈ s → ∃ pre suf, s = pre ++ c :: suf ∧ c ∉ suf
  | [], h => by simp at h
  | x :: xs, h => by
    by_cases hx : c ∈ xs
    · obtain ⟨pre, suf, he, hs⟩ := exists_last_split c xs hx
      exact ⟨x :: pre, suf, by simp [he], hs⟩
    · have : c = x := by simpa [hx] using h
      subst this
      exact ⟨[], xs, rfl, hx⟩

theorem lastIndexByte_not_mem (s : Bytes) {n : Int} (c : UInt8) (hn : n = ((c.toNat : Nat) : Int)) (h : c ∉ s) :
    lastIndexByte s n = -1 := by
  subst hn
  simp [lastIndexByte, mkByte_byte, lastIndexByteAux_not_mem c s 0 _ h]

theorem lastIndexByte_split (pre suf : Bytes) {n : Int} (c : UInt8) (hn : n = ((c.toNat : Nat) : Int)) (h : c ∉ suf) :
    lastIndexByte (pre ++ c :: suf) n = (pre.length : Int) := by
  subst hn
  simp [lastIndexByte, mkByte_byte, lastIndexByteAux_split c suf h pre 0]

/-- the part after the last `c`, computed on the reversed string as the models do -/
theorem reverse_takeWhile_split (pre suf : Bytes) (c : UInt8) (h : c ∉ suf) :
    ((pre ++ c :: suf).reverse.takeWhile (· != c)).reverse = suf := by
  have h1 : ∀ x ∈ suf.reverse, (x != c) = true := by
    intro x hx; simp at hx ⊢; intro e; subst e; exact h hx
  simp only [List.reverse_append, List.reverse_cons, List.append_assoc, List.singleton_append]
  rw [List.takeWhile_append_of_pos h1]
  simp

/-! ### first and last byte -/

theorem idx_zero_eq_head (s : Bytes) (hs : s ≠ []) : idx s 0 = .ok ((((s.head hs).toNat : Nat)) : Int) := by
  cases s with
  | nil => exact absurd rfl hs
  | cons c t => simp

theorem idx_last (s : Bytes) (hs : s ≠ []) :
    idx s (len s - 1) = .ok ((((s.getLast hs).toNat : Nat)) : Int) := by
  have hl : 0 < s.length := List.length_pos_iff.mpr hs
  have e : len s - 1 = ((s.length - 1 : Nat) : Int) := by simp [len_eq]; omega
  rw [e, idx_natCast (by omega), List.getLast_eq_getElem]

/-- `s[len(s)-1] == c` on a non-empty string; instantiate `n` with the literal and discharge `hn` by `rfl` -/
theorem last_byte_test (s : Bytes) (hs : s ≠ []) {n : Int} (c : UInt8) (hn : n = ((c.toNat : Nat) : Int)) :
    decide ((((s.getLast hs).toNat : Nat) : Int) = n) = (s.getLast? == some c) := by
  subst hn
  rw [List.getLast?_eq_some_getLast hs, Bool.eq_iff_iff, decide_eq_true_eq, byte_toInt_inj]; simp

theorem first_byte_test (s : Bytes) (hs : s ≠ []) {n : Int} (c : UInt8) (hn : n = ((c.toNat : Nat) : Int)) :
    decide ((((s.head hs).toNat : Nat) : Int) = n) = (s.head? == some c) := by
  subst hn
  rw [List.head?_eq_some_head hs, Bool.eq_iff_iff, decide_eq_true_eq, byte_toInt_inj]; simp

/-! ### strings.Contains with a longer needle: an occurrence at some offset -/

theorem indexAux_nonneg_iff (sub : Bytes) (hsub : sub ≠ []) : ∀ (s : Bytes) (k : Nat),
    0 ≤ indexAux sub s k ↔ ∃ j, j ≤ s.length ∧ isPrefixOfB sub (s.drop j) = true
  | [], k => by
    have : sub.isEmpty = false := by cases sub <;> simp at hsub ⊢
    have h2 : isPrefixOfB sub [] = false := by cases sub <;> simp [isPrefixOfB] at hsub ⊢
    simp [indexAux, this, h2]
  | x :: xs, k => by
    rw [indexAux]
    by_cases hp : isPrefixOfB sub (x :: xs) = true
    · simp only [hp, if_true]
      constructor
      · intro _; exact ⟨0, by simp, by simpa using hp⟩
      · intro _; exact Int.natCast_nonneg k
    · simp only [hp, Bool.false_eq_true, if_false, indexAux_nonneg_iff sub hsub xs (k + 1)]
      constructor
      · rintro ⟨j, hj, h⟩; exact ⟨j + 1, by simp; omega, by simpa using h⟩
      · rintro ⟨j, hj, h⟩
        cases j with
        | zero => simp at h; exact absurd h hp
        | succ j => exact ⟨j, by simp at hj; omega, by simpa using h⟩

theorem contains_iff (s sub : Bytes) (hsub : sub ≠ []) :
    contains s sub = true ↔ ∃ j, j ≤ s.length ∧ isPrefixOfB sub (s.drop j) = true := by
  simp [contains, index, indexAux_nonneg_iff sub hsub]

end ModVerif.GoRtStr
