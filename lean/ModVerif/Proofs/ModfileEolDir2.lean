/-
  C02, clause 3 with end-of-line comments, part c: the arguments `File.add` rewrites contain no newline byte
  (`strconv.Quote` escapes it, a valid version has none), and the generalised step lemma `add_stepE`.
-/
import ModVerif.Proofs.ModfileEolDir
import ModVerif.Proofs.ModfileFmtClass
namespace ModVerif.Proofs.ModfileEol
open ModVerif ModVerif.Modfile ModVerif.Proofs.ModfileLex ModVerif.Proofs.ModfileFmtLex ModVerif.Proofs.ModfileFmtLine
open ModVerif.Proofs.ModfileFmtFix ModVerif.Proofs.ModfileFmtDir ModVerif.Proofs.ModfileFmtQuote
open ModVerif.Proofs.ModfileFmtUtf8

/-! ### no newline byte in what `AutoQuote` writes -/

theorem hexBytes_no_nl {hs : Bytes} (h : HexBytes hs) : (10 : UInt8) ∉ hs := by
  intro hm
  obtain ⟨n, hn, heq⟩ := h 10 hm
  exact (lowerhex_plain hn).2.1 heq.symm

theorem mem_two {a b x : UInt8} (h : x ∈ [a, b]) : x = a ∨ x = b := by simpa using h

/-- `appendEscapedRune` writes no newline byte, provided the encoding of a printable rune has none -/
theorem appendEscapedRune_no_nl (r : Nat) (hp : UnicodePrint.isPrint r = true → (10 : UInt8) ∉ Utf8.encode r) :
    (10 : UInt8) ∉ Quote.appendEscapedRune r := by
  delta Quote.appendEscapedRune
  by_cases h : (r == 34 || r == 92) = true
  · rw [if_pos h]
    simp only [Bool.or_eq_true, beq_iff_eq] at h
    rcases h with h | h <;> subst h <;> decide
  · rw [if_neg h]
    by_cases hpr : UnicodePrint.isPrint r = true
    · rw [if_pos hpr]; exact hp hpr
    · rw [if_neg hpr]
      repeat' (first | (split) | decide)
      · rename_i hx
        have hr : r / 16 < 16 := by
          simp only [Bool.or_eq_true, decide_eq_true_eq, beq_iff_eq] at hx
          omega
        intro hm
        simp only [List.mem_cons, List.not_mem_nil, or_false] at hm
        rcases hm with hm | hm | hm | hm
        · revert hm; decide
        · revert hm; decide
        · exact (lowerhex_plain hr).2.1 hm.symm
        · exact (lowerhex_plain (Nat.mod_lt _ (by decide))).2.1 hm.symm
      · intro hm
        rcases List.mem_append.1 hm with hm | hm
        · revert hm; decide
        · exact hexBytes_no_nl (hexBytes_hexDigits _ _) hm
      · intro hm
        rcases List.mem_append.1 hm with hm | hm
        · revert hm; decide
        · exact hexBytes_no_nl (hexBytes_hexDigits _ _) hm

theorem stepOut_no_nl (s : Bytes) (hs : s ≠ []) : (10 : UInt8) ∉ stepOut s := by
  cases s with
  | nil => exact absurd rfl hs
  | cons c t =>
    simp only [stepOut]
    by_cases hb : badHead (c :: t) = true
    · rw [if_pos hb]
      intro hm
      simp only [List.mem_cons, List.not_mem_nil, or_false] at hm
      rcases hm with hm | hm | hm | hm
      · revert hm; decide
      · revert hm; decide
      · exact (lowerhex_plain (by have := c.toNat_lt; omega)).2.1 hm.symm
      · exact (lowerhex_plain (Nat.mod_lt _ (by decide))).2.1 hm.symm
    · rw [if_neg hb]
      apply appendEscapedRune_no_nl
      intro hpr
      have hd : Utf8.decode (c :: t) = some ((Utf8.decodeRune (c :: t)).1, (Utf8.decodeRune (c :: t)).2) :=
        decode_of_not_bad (by simpa using hb)
      rw [encode_of_decode hd]
      intro hm
      by_cases hc : c.toNat < 0x80
      · rw [decodeRune_ascii c t hc] at hm hpr
        simp at hm
        subst hm
        revert hpr; decide
      · have := (decodeRune_nonascii c t (by omega)).2 10 hm
        revert this; decide

theorem qbody_no_nl : ∀ (fuel : Nat) (s : Bytes), (10 : UInt8) ∉ qbody fuel s := by
  intro fuel
  induction fuel with
  | zero => intro s hm; simp [qbody] at hm
  | succ n ih =>
    intro s
    cases s with
    | nil => intro hm; simp [qbody] at hm
    | cons c t =>
      simp only [qbody]
      intro hm
      rcases List.mem_append.1 hm with hm | hm
      · exact stepOut_no_nl (c :: t) (by simp) hm
      · exact ih _ hm

theorem quote_no_nl (s : Bytes) : (10 : UInt8) ∉ Quote.quote s := by
  rw [quote_eq_qbody]
  intro hm
  simp only [List.mem_cons, List.mem_append, List.not_mem_nil, or_false] at hm
  rcases hm with hm | hm | hm
  · revert hm; decide
  · exact qbody_no_nl _ _ hm
  · revert hm; decide

/-- ★ the token `AutoQuote` writes contains no newline byte -/
theorem autoQuote_no_nl (s : Bytes) : (10 : UInt8) ∉ autoQuote s := by
  unfold autoQuote
  split
  · exact quote_no_nl s
  · rename_i h
    rcases autoQuote_unquoted (by simpa using h) with hk | ⟨c, hc, rfl⟩
    · cases hk with
      | ident _ _ hb _ => exact ModfileFmtClass.identBody_no_newline hb
    · intro hm
      simp at hm
      subst hm
      revert hc; decide

theorem valid_no_nl {v : Bytes} (h : VerOK v) : (10 : UInt8) ∉ v := by
  intro hm
  have := valid_bytes h 10 hm
  revert this; decide

/-! ### the rewritten arguments -/

/-- the rewritten arguments are original arguments or contain no newline byte -/
theorem add_args_nl (st st1 : AddState) (block : Option Comments) (l : Line) (verb : Bytes) (args args1 : List Bytes)
    (fix : Option Fixer) (h : File.add st block l verb args fix true = (st1, args1)) (he : st1.errsRev = [])
    (hfix : FixOK fix) (hne : FixNE fix) (hl : l.comments.suffix = []) (hwf : WellFormed st1.file) :
    ∀ t ∈ args1, t ∈ args ∨ (10 : UInt8) ∉ t := by
  by_cases h1 : verb = B "go"
  · subst h1
    obtain ⟨_, a, rfl, rfl, _, _⟩ := add_go st st1 block l args args1 fix h he
    exact fun t ht => Or.inl ht
  by_cases h2 : verb = B "toolchain"
  · subst h2
    obtain ⟨_, a, rfl, rfl, _, _⟩ := add_toolchain st st1 block l args args1 fix h he
    exact fun t ht => Or.inl ht
  by_cases h3 : verb = B "module"
  · subst h3
    obtain ⟨_, a, s, d, rfl, _, rfl, _⟩ := add_module st st1 block l args args1 fix h he
    intro t ht
    simp at ht; subst ht
    exact Or.inr (autoQuote_no_nl s)
  by_cases h4 : verb = B "godebug"
  · subst h4
    obtain ⟨_, k, v, rfl, _, _⟩ := add_godebug st st1 block l args args1 fix h he
    exact fun t ht => Or.inl ht
  by_cases h5 : verb = B "require"
  · subst h5
    obtain ⟨a0, a1, s, v, rfl, rfl, hf, hrest⟩ := add_require st st1 block l _ args1 fix h he hfix hl
    have hnew := hwf.require { mod := { path := s, version := v }, indirect := false, lineId := l.id } (by rw [hf]; simp)
    intro t ht
    simp at ht
    rcases ht with rfl | rfl
    · exact Or.inr (autoQuote_no_nl s)
    · exact Or.inr (valid_no_nl hnew.2)
  by_cases h6 : verb = B "exclude"
  · subst h6
    obtain ⟨a0, a1, s, v, rfl, rfl, hf, hrest⟩ := add_exclude st st1 block l _ args1 fix h he hfix hl
    have hnew := hwf.exclude { mod := { path := s, version := v }, lineId := l.id } (by rw [hf]; simp)
    intro t ht
    simp at ht
    rcases ht with rfl | rfl
    · exact Or.inr (autoQuote_no_nl s)
    · exact Or.inr (valid_no_nl hnew.2)
  by_cases h7 : verb = B "replace"
  · subst h7
    obtain ⟨r, hf, hargs, hrest⟩ := add_replace st st1 block l args args1 fix h he hfix hne
    have hnew := hwf.replace r (by rw [hf]; simp)
    rw [hargs]
    intro t ht
    right
    simp only [replaceToks, List.mem_append, List.mem_singleton] at ht
    rcases ht with (((ht | ht) | ht) | ht) | ht
    · subst ht; exact autoQuote_no_nl _
    · split at ht
      · simp at ht
      · rename_i hv; simp at ht; subst ht; exact valid_no_nl (hnew.2.1 hv)
    · subst ht; decide +kernel
    · subst ht; exact autoQuote_no_nl _
    · split at ht
      · simp at ht
      · rename_i hv; simp at ht; subst ht; exact valid_no_nl (hnew.2.2.2 hv)
  by_cases h8 : verb = B "retract"
  · subst h8
    obtain ⟨vi, rat, hf, hrest⟩ := add_retract st st1 block l args args1 fix h he
    have hnew := hwf.retract { interval := vi, rationale := rat, lineId := l.id } (by rw [hf]; simp)
    obtain ⟨_, hshape⟩ := hrest hnew.1 hnew.2
    intro t ht
    right
    rcases hshape with ⟨rfl, _⟩ | rfl
    · simp at ht; subst ht; exact valid_no_nl hnew.1
    · simp at ht
      rcases ht with rfl | rfl | rfl | rfl | rfl
      · decide
      · exact valid_no_nl hnew.1
      · decide
      · exact valid_no_nl hnew.2
      · decide
  by_cases h9 : verb = B "tool"
  · subst h9
    obtain ⟨_, a, s, rfl, _, rfl, _⟩ := add_tool st st1 block l args args1 fix h he
    intro t ht
    simp at ht; subst ht
    exact Or.inr (autoQuote_no_nl s)
  · exfalso
    have e1 : (verb == B "go") = false := by simpa using h1
    have e2 : (verb == B "toolchain") = false := by simpa using h2
    have e3 : (verb == B "module") = false := by simpa using h3
    have e4 : (verb == B "godebug") = false := by simpa using h4
    have e5 : (verb == B "require") = false := by simpa using h5
    have e6 : (verb == B "exclude") = false := by simpa using h6
    have e7 : (verb == B "replace") = false := by simpa using h7
    have e8 : (verb == B "retract") = false := by simpa using h8
    have e9 : (verb == B "tool") = false := by simpa using h9
    unfold File.add at h
    simp only [Bool.not_true, Bool.false_and, Bool.false_eq_true, if_false, e1, e2, e3, e4, e5, e6, e7, e8, e9,
      Bool.or_self, Prod.mk.injEq] at h
    obtain ⟨rfl, _⟩ := h
    exact absurd he (err_ne_nil _ _ _)

/-! ### the generalised step -/

/-- ★ one strict `File.add` step without error, on a line with any comments: the step can be replayed on the
    rewritten arguments for every line with the same `isIndirect`; the rewritten arguments are line tokens
    other than parentheses, and original arguments or free of newline bytes -/
theorem add_stepE (st st1 : AddState) (block : Option Comments) (l : Line) (verb : Bytes) (args args1 : List Bytes)
    (fix : Option Fixer) (h : File.add st block l verb args fix true = (st1, args1)) (he : st1.errsRev = [])
    (hfix : FixOK fix) (hne : FixNE fix) (hwf : WellFormed st1.file) (horig : ∀ t ∈ args, TokText t) :
    StepOKE st st1 verb args1 fix (isIndirect l) ∧ WellFormed st.file ∧ ArgsTok args1 ∧ args1 ≠ [] ∧
      ∀ t ∈ args1, t ∈ args ∨ (10 : UInt8) ∉ t := by
  by_cases hreq : verb = B "require"
  · subst hreq
    obtain ⟨a0, a1, s, v, rfl, rfl, hf, hrest⟩ := add_requireE st st1 block l _ args1 fix h he hfix
    have hnew := hwf.require { mod := { path := s, version := v }, indirect := isIndirect l, lineId := l.id }
      (by rw [hf]; simp)
    obtain ⟨hvok, hs⟩ := hrest (fun _ => hnew.2)
    rw [hf] at hwf
    refine ⟨hs, ⟨hwf.module, fun r hr => hwf.require r (mem_snoc_left hr), hwf.exclude, hwf.replace, hwf.retract,
      hwf.tool⟩, ?_, by simp, ?_⟩
    · intro t ht
      simp at ht
      rcases ht with rfl | rfl
      · exact pathOK_tok hnew.1
      · exact verOK_tok hvok
    · intro t ht
      simp at ht
      rcases ht with rfl | rfl
      · exact Or.inr (autoQuote_no_nl s)
      · exact Or.inr (valid_no_nl hvok)
  · have hnr : (verb == B "require") = false := by simpa using hreq
    obtain ⟨st10, h0, hv0, he0⟩ := add_transfer st block block l (clrLine l) verb args args1 fix st1
      (by intro hh; rw [hnr] at hh; cases hh) h he
    have hwf0 : WellFormed st10.file := wellFormed_of_values hv0.symm hwf
    obtain ⟨hs, hwfst, hargs, hane⟩ := add_step st st10 block (clrLine l) verb args args1 fix h0 he0 hfix hne rfl hwf0 horig
    exact ⟨stepOK_upgrade hs hv0.symm he hnr _, hwfst, hargs, hane,
      add_args_nl st st10 block (clrLine l) verb args args1 fix h0 he0 hfix hne rfl hwf0⟩

end ModVerif.Proofs.ModfileEol
