/-
  Helper lemmas for Tie/FnParseComments.lean, part E: a pass of assignComments over a list of nodes, generically.
  `passF step fuel xs` runs the loop body `step` at the nodes `xs` (fuel decreasing by one per node, as the translated
  loops do); `StepSpec F emb N P step` says the body reads the span and the comments of the node, applies the node
  function `F` and stores the new comments.  Then on a reified statement list the pass computes `travStmts o F`.
-/
import ModVerif.Proofs.TieFnParseCommentsD
set_option linter.unusedSimpArgs false
set_option linter.unusedVariables false
namespace ModVerif.TieFnParseComments
open ModVerif ModVerif.GoRt ModVerif.Generated ModVerif.Generated.Parse ModVerif.Tie.FnParseHeap

abbrev PState := Heap × List Comment

def passF (step : Nat → Expr → PState → M PState) : Nat → List Expr → PState → M PState
  | _, [], s => pure s
  | 0, _ :: _, _ => throw Err.fuel
  | f + 1, x :: xs, s => do
    let s' ← step f x s
    passF step f xs s'

@[simp] theorem passF_nil (step : Nat → Expr → PState → M PState) (f : Nat) (s : PState) : passF step f [] s = .ok s := by
  cases f <;> rfl

theorem passF_cons (step : Nat → Expr → PState → M PState) (f : Nat) (x : Expr) (xs : List Expr) (s : PState) :
    passF step (f + 1) (x :: xs) s = (step f x s >>= passF step f xs) := rfl

theorem passF_append (step : Nat → Expr → PState → M PState) : ∀ (fuel : Nat) (xs ys : List Expr) (s s' : PState),
    passF step fuel xs s = .ok s' → xs.length ≤ fuel →
    passF step fuel (xs ++ ys) s = passF step (fuel - xs.length) ys s'
  | fuel, [], ys, s, s', h, _ => by simp at h; subst h; simp
  | 0, x :: xs, ys, s, s', h, hl => by simp at hl
  | f + 1, x :: xs, ys, s, s', h, hl => by
    rw [passF_cons] at h
    rw [List.cons_append, passF_cons]
    cases hstep : step f x s with
    | error e => rw [hstep] at h; cases h
    | ok s1 =>
      rw [hstep] at h
      simp only [bind_ok] at h ⊢
      rw [passF_append step f xs ys s1 s' h (by simpa using hl)]
      simp

/-- the loop body at a node: span, comments, `F`, store -/
structure StepSpec (F : NodeF) (emb : List Modfile.Comment → List Comment) (N : Nat) (P : Modfile.Comments → Prop)
    (step : Nat → Expr → PState → M PState) : Prop where
  spec : ∀ (f : Nat) (x : Expr) (h : Heap) (st : List Modfile.Comment) (sp : Modfile.Position × Modfile.Position)
    (c0 : Modfile.Comments), (∀ q, x ≠ Expr.FileSyntax q) → N + 1 ≤ f → st.length ≤ N → P c0 →
    Expr_Span f x h = .ok (spanG sp, h) →
    Expr_getComments x h = .ok (comsG c0) →
    step f x (h, emb st) =
      (Expr_setComments x (comsG (F sp c0 st).1) h >>= fun h' => pure (h', emb (F sp c0 st).2))

section generic
variable {F : NodeF} {emb : List Modfile.Comment → List Comment} {N : Nat} {P : Modfile.Comments → Prop}
  {step : Nat → Expr → PState → M PState}

theorem step_node (hs : StepSpec F emb N P step) {f : Nat} {x : Expr} {h : Heap} {st : List Modfile.Comment}
    {sp : Modfile.Position × Modfile.Position} {c0 : Modfile.Comments} (hx : ∀ q, x ≠ Expr.FileSyntax q)
    (hf : N + 1 ≤ f) (hst : st.length ≤ N) (hP : P c0)
    (hsp : Expr_Span f x h = .ok (spanG sp, h)) (hg : Expr_getComments x h = .ok (comsG c0)) :
    ∃ h', Expr_setComments x (comsG (F sp c0 st).1) h = .ok h' ∧
      step f x (h, emb st) = .ok (h', emb (F sp c0 st).2) := by
  obtain ⟨h', hset⟩ := setComments_ok_of_get hg (comsG (F sp c0 st).1)
  refine ⟨h', hset, ?_⟩
  rw [hs.spec f x h st sp c0 hx hf hst hP hsp hg, hset]; rfl

/-! ### the lines of a block -/

theorem pass_lines (hs : StepSpec F emb N P step) (hF : Shrinks F) : ∀ (ps : List Int) (ls : List Modfile.Line) (h : Heap)
    (st : List Modfile.Comment) (fuel : Nat), RLines h ps ls → ps.Nodup → st.length ≤ N → ps.length + N + 1 ≤ fuel →
    (∀ l ∈ ls, P l.comments) →
    ∃ h', passF step fuel (ps.map Expr.Line) (h, emb st) = .ok (h', emb (travLines F ls st).2) ∧
      RLines h' ps (travLines F ls st).1 ∧ h'.cbs = h.cbs ∧ h'.blocks = h.blocks ∧ h'.files = h.files ∧
      Frame (ps.map Expr.Line) h h'
  | [], [], h, st, fuel, _, _, _, _, _ => ⟨h, by simp [travLines], by simp [travLines], rfl, rfl, rfl, Frame.refl h⟩
  | [], _ :: _, h, st, fuel, hr, _, _, _, _ => by simp at hr
  | _ :: _, [], h, st, fuel, hr, _, _, _, _ => by simp at hr
  | p :: ps, l :: ls, h, st, fuel, hr, hnd, hst, hf, hP => by
    simp only [RLines_cons] at hr
    obtain ⟨f, rfl⟩ : ∃ f, fuel = f + 1 := ⟨fuel - 1, by simp at hf; omega⟩
    simp only [List.length_cons] at hf
    have hsp := Span_Line hr.1.1 f
    have hg : Expr_getComments (.Line p) h = .ok (comsG l.comments) := getComments_Line hr.1.1
    obtain ⟨h1, hset, hstep⟩ := step_node hs (by intro q; simp) (by omega) hst (hP l (by simp)) hsp hg
    have hp : p ∉ ps := (List.nodup_cons.1 hnd).1
    -- the line itself, after the store
    have hsh := setComments_shape hset
    simp only at hsh
    obtain ⟨t, ht, hh1⟩ := hsh
    have ht' : t = lineG l := by rw [hr.1.1] at ht; cases ht; rfl
    subst ht'
    have hl1 : RLine h1 p { l with comments := (F (l.start, l.«end») l.comments st).1 } := by
      refine ⟨?_, hr.1.2⟩
      rw [hh1]
      exact heapGet_listSet_same _ hr.1.1
    have hrest : RLines h1 ps ls := by
      rw [hh1]
      exact (RLines_setLine_other (heapSet_of_get _ hr.1.1) hp).2 hr.2
    obtain ⟨h2, hpass, hl2, hc, hb, hfl, hfr⟩ := pass_lines hs hF ps ls h1 (F (l.start, l.«end») l.comments st).2 f hrest
      (List.nodup_cons.1 hnd).2 (Nat.le_trans (hF _ _ _) hst) (by omega) (fun l' hl' => hP l' (List.mem_cons_of_mem _ hl'))
    refine ⟨h2, ?_, ?_, ?_, ?_, ?_, ?_⟩
    · rw [List.map_cons, passF_cons, hstep]
      simpa [travLines, Modfile.Expr.span] using hpass
    · simp only [travLines, RLines_cons]
      refine ⟨?_, hl2⟩
      have := hfr (.Line p) (.line _) (by simpa [RExpr] using hl1) (by
        intro x hx
        simp only [List.mem_map] at hx
        obtain ⟨q, hq, rfl⟩ := hx
        simp only [stmtNodes, List.mem_singleton, Expr.Line.injEq]
        intro e; subst e; exact hp hq)
      simpa [RExpr, Modfile.Expr.span] using this
    · rw [hc, hh1]
    · rw [hb, hh1]
    · rw [hfl, hh1]
    · have := Frame.trans (Frame.single hset) hfr
      simpa using this

theorem RLines_reverse {h : Heap} : ∀ {ps : List Int} {ls : List Modfile.Line}, RLines h ps ls →
    RLines h ps.reverse ls.reverse
  | [], [], _ => by simp
  | p :: ps, l :: ls, hr => by
    simp only [RLines_cons] at hr
    simp only [List.reverse_cons]
    exact RLines_append (RLines_reverse hr.2) (by simp [hr.1])
  | [], _ :: _, hr => by simp at hr
  | _ :: _, [], hr => by simp at hr

theorem RStmts_reverse {h : Heap} : ∀ {es : List Expr} {ss : List Modfile.Expr}, RStmts h es ss →
    RStmts h es.reverse ss.reverse
  | [], [], _ => by simp
  | e :: es, s :: ss, hr => by
    simp only [RStmts_cons] at hr
    simp only [List.reverse_cons]
    exact RStmts_append (RStmts_reverse hr.2) (by simp [hr.1])
  | [], _ :: _, hr => by simp at hr
  | _ :: _, [], hr => by simp at hr


/-! ### the three nodes held by a block object -/

inductive BK where
  | B | LP | RP

def bkNode (k : BK) (p : Int) : Expr :=
  match k with | .B => .LineBlock p | .LP => .LParen p | .RP => .RParen p
def bkSpan (k : BK) (b : Modfile.LineBlock) : Modfile.Position × Modfile.Position :=
  match k with
  | .B => (Modfile.Expr.lineBlock b).span | .LP => (Modfile.Expr.lparen b.lparen).span | .RP => (Modfile.Expr.rparen b.rparen).span
def bkComs (k : BK) (b : Modfile.LineBlock) : Modfile.Comments :=
  match k with | .B => b.comments | .LP => b.lparen.comments | .RP => b.rparen.comments
def bkSet (k : BK) (c : Modfile.Comments) (b : Modfile.LineBlock) : Modfile.LineBlock :=
  match k with
  | .B => { b with comments := c } | .LP => { b with lparen := { b.lparen with comments := c } }
  | .RP => { b with rparen := { b.rparen with comments := c } }

theorem block_op (hs : StepSpec F emb N P step) (k : BK) {h : Heap} {p : Int} {b : Modfile.LineBlock} {ps : List Int}
    {st : List Modfile.Comment} {f : Nat} (hb : heapGet h.blocks p = .ok (blockG b ps)) (hf : N + 1 ≤ f)
    (hst : st.length ≤ N) (hP : P (bkComs k b)) :
    ∃ h', step f (bkNode k p) (h, emb st) = .ok (h', emb (F (bkSpan k b) (bkComs k b) st).2) ∧
      heapGet h'.blocks p = .ok (blockG (bkSet k (F (bkSpan k b) (bkComs k b) st).1 b) ps) ∧
      h'.lines = h.lines ∧ h'.cbs = h.cbs ∧ h'.files = h.files ∧ Frame [bkNode k p] h h' := by
  cases k
  · have hsp := Span_LineBlock hb f
    have hg : Expr_getComments (.LineBlock p) h = .ok (comsG b.comments) := getComments_LineBlock hb
    obtain ⟨h1, hset, hstep⟩ := step_node hs (by intro q; simp) hf hst hP hsp hg
    have hsh := setComments_shape hset
    simp only at hsh
    obtain ⟨t, ht, hh1⟩ := hsh
    have ht' : t = blockG b ps := by rw [hb] at ht; cases ht; rfl
    subst ht'
    refine ⟨h1, hstep, ?_, by rw [hh1], by rw [hh1], by rw [hh1], Frame.single hset⟩
    rw [hh1]; exact heapGet_listSet_same _ hb
  · have hsp := Span_LParen hb f
    have hg : Expr_getComments (.LParen p) h = .ok (comsG b.lparen.comments) := getComments_LParen hb
    obtain ⟨h1, hset, hstep⟩ := step_node hs (by intro q; simp) hf hst hP hsp hg
    have hsh := setComments_shape hset
    simp only at hsh
    obtain ⟨t, ht, hh1⟩ := hsh
    have ht' : t = blockG b ps := by rw [hb] at ht; cases ht; rfl
    subst ht'
    refine ⟨h1, hstep, ?_, by rw [hh1], by rw [hh1], by rw [hh1], Frame.single hset⟩
    rw [hh1]; exact heapGet_listSet_same _ hb
  · have hsp := Span_RParen hb f
    have hg : Expr_getComments (.RParen p) h = .ok (comsG b.rparen.comments) := getComments_RParen hb
    obtain ⟨h1, hset, hstep⟩ := step_node hs (by intro q; simp) hf hst hP hsp hg
    have hsh := setComments_shape hset
    simp only at hsh
    obtain ⟨t, ht, hh1⟩ := hsh
    have ht' : t = blockG b ps := by rw [hb] at ht; cases ht; rfl
    subst ht'
    refine ⟨h1, hstep, ?_, by rw [hh1], by rw [hh1], by rw [hh1], Frame.single hset⟩
    rw [hh1]; exact heapGet_listSet_same _ hb

/-- a simple statement (comment block or top-level line): one node -/
theorem pass_simple (hs : StepSpec F emb N P step) {e : Expr} {s : Modfile.Expr} {h : Heap} {st : List Modfile.Comment}
    {f : Nat} (hr : RExpr h e s) (hsimple : ∀ p, e ≠ .LineBlock p) (hf : N + 1 ≤ f) (hst : st.length ≤ N)
    (hP : P s.comments) :
    ∃ h', step f e (h, emb st) = .ok (h', emb (F s.span s.comments st).2) ∧
      RExpr h' e (s.setComments (F s.span s.comments st).1) ∧ h'.files = h.files ∧ Frame [e] h h' := by
  cases e <;> cases s <;> simp only [RExpr] at hr
  · rename_i p c
    have hsp := Span_CommentBlock hr f
    have hg : Expr_getComments (.CommentBlock p) h = .ok (comsG c.comments) := getComments_CommentBlock hr
    obtain ⟨h1, hset, hstep⟩ := step_node hs (by intro q; simp) hf hst hP hsp hg
    have hsh := setComments_shape hset
    simp only at hsh
    obtain ⟨t, ht, hh1⟩ := hsh
    have ht' : t = cbG c := by rw [hr] at ht; cases ht; rfl
    subst ht'
    refine ⟨h1, hstep, ?_, by rw [hh1], Frame.single hset⟩
    simp only [Modfile.Expr.setComments, RExpr]
    rw [hh1]; exact heapGet_listSet_same _ hr
  · rename_i p l
    have hsp := Span_Line hr.1 f
    have hg : Expr_getComments (.Line p) h = .ok (comsG l.comments) := getComments_Line hr.1
    obtain ⟨h1, hset, hstep⟩ := step_node hs (by intro q; simp) hf hst hP hsp hg
    have hsh := setComments_shape hset
    simp only at hsh
    obtain ⟨t, ht, hh1⟩ := hsh
    have ht' : t = lineG l := by rw [hr.1] at ht; cases ht; rfl
    subst ht'
    refine ⟨h1, hstep, ?_, by rw [hh1], Frame.single hset⟩
    simp only [Modfile.Expr.setComments, RExpr]
    refine ⟨?_, hr.2⟩
    rw [hh1]; exact heapGet_listSet_same _ hr.1
  · rename_i p b; exact absurd rfl (hsimple p)


theorem nodup_reverse {α : Type} {l : List α} (h : l.Nodup) : l.reverse.Nodup := by
  unfold List.Nodup at *
  rw [List.pairwise_reverse]
  exact h.imp (fun hab => Ne.symm hab)

/-- a block: its four kinds of nodes in the order `o` -/
theorem pass_block (hs : StepSpec F emb N P step) (hF : Shrinks F) (o : Ord) {h : Heap} {p : Int} {b : Modfile.LineBlock}
    {ps : List Int} {st : List Modfile.Comment} {fuel : Nat} (hb : heapGet h.blocks p = .ok (blockG b ps))
    (hl : RLines h ps b.lines) (hnd : ps.Nodup) (hst : st.length ≤ N) (hf : ps.length + 3 + N + 1 ≤ fuel)
    (hP : StmtP P (.lineBlock b)) :
    ∃ h', passF step fuel (stmtNodes o (.LineBlock p) (.lineBlock b)) (h, emb st) =
        .ok (h', emb (travStmt o F (.lineBlock b) st).2) ∧
      RExpr h' (.LineBlock p) (travStmt o F (.lineBlock b) st).1 ∧ h'.files = h.files ∧
      Frame (stmtNodes o (.LineBlock p) (.lineBlock b)) h h' := by
  obtain ⟨f1, rfl⟩ : ∃ f1, fuel = f1 + 1 := ⟨fuel - 1, by omega⟩
  obtain ⟨f2, rfl⟩ : ∃ f2, f1 = f2 + 1 := ⟨f1 - 1, by omega⟩
  obtain ⟨hPb, hPl, hPr, hPls⟩ := hP
  cases o
  · -- preorder: x ( lines )
    obtain ⟨h1, hs1, hb1, hl1, hc1, hf1, fr1⟩ := block_op hs .B hb (f := f2 + 1) (by omega) hst hPb
    have hst1 := Nat.le_trans (hF (bkSpan .B b) (bkComs .B b) st) hst
    obtain ⟨h2, hs2, hb2, hl2, hc2, hf2, fr2⟩ := block_op hs .LP hb1 (f := f2) (by omega) hst1 hPl
    have hst2 := Nat.le_trans (hF (bkSpan .LP (bkSet .B (F (bkSpan .B b) (bkComs .B b) st).1 b))
      (bkComs .LP (bkSet .B (F (bkSpan .B b) (bkComs .B b) st).1 b)) _) hst1
    have hrl2 : RLines h2 ps b.lines := (RLines_congr (by rw [hl2, hl1])).2 hl
    obtain ⟨h3, hp3, hrl3, hc3, hbk3, hf3, fr3⟩ := pass_lines hs hF ps b.lines h2 _ f2 hrl2 hnd hst2 (by omega) hPls
    have hst3 := Nat.le_trans (travLines_shrinks hF b.lines _) hst2
    have hb3 := hb2; rw [← hbk3] at hb3
    obtain ⟨g, hg⟩ : ∃ g, f2 - (ps.map Expr.Line).length = g + 1 := ⟨f2 - ps.length - 1, by simp; omega⟩
    obtain ⟨h4, hs4, hb4, hl4, hc4, hf4, fr4⟩ := block_op hs .RP hb3 (f := g) (by simp at hg; omega) hst3 hPr
    simp only [bkNode] at hs1 hs2 hs4 fr1 fr2 fr4
    refine ⟨h4, ?_, ?_, ?_, ?_⟩
    · simp only [stmtNodes, RLines_lineNodes hl]
      rw [passF_cons, hs1, bind_ok, passF_cons, hs2, bind_ok, passF_append _ _ _ _ _ _ hp3 (by simp; omega), hg,
        passF_cons, hs4]
      simp only [bind_ok, passF_nil]; rfl
    · exact ⟨ps, hb4, (RLines_congr (by rw [hl4])).2 hrl3⟩
    · rw [hf4, hf3, hf2, hf1]
    · simp only [stmtNodes, RLines_lineNodes hl]
      have := Frame.trans (Frame.trans (Frame.trans fr1 fr2) fr3) fr4
      simpa using this
  · -- postorder backwards: x ) lines⁻¹ (
    obtain ⟨h1, hs1, hb1, hl1, hc1, hf1, fr1⟩ := block_op hs .B hb (f := f2 + 1) (by omega) hst hPb
    have hst1 := Nat.le_trans (hF (bkSpan .B b) (bkComs .B b) st) hst
    obtain ⟨h2, hs2, hb2, hl2, hc2, hf2, fr2⟩ := block_op hs .RP hb1 (f := f2) (by omega) hst1 hPr
    have hst2 := Nat.le_trans (hF (bkSpan .RP (bkSet .B (F (bkSpan .B b) (bkComs .B b) st).1 b))
      (bkComs .RP (bkSet .B (F (bkSpan .B b) (bkComs .B b) st).1 b)) _) hst1
    have hrl2 : RLines h2 ps.reverse b.lines.reverse := RLines_reverse ((RLines_congr (by rw [hl2, hl1])).2 hl)
    obtain ⟨h3, hp3, hrl3, hc3, hbk3, hf3, fr3⟩ := pass_lines hs hF ps.reverse b.lines.reverse h2 _ f2 hrl2
      (nodup_reverse hnd) hst2 (by simp; omega) (fun l hl' => hPls l (List.mem_reverse.1 hl'))
    have hst3 := Nat.le_trans (travLines_shrinks hF b.lines.reverse _) hst2
    have hb3 := hb2; rw [← hbk3] at hb3
    obtain ⟨g, hg⟩ : ∃ g, f2 - (ps.reverse.map Expr.Line).length = g + 1 := ⟨f2 - ps.length - 1, by simp; omega⟩
    obtain ⟨h4, hs4, hb4, hl4, hc4, hf4, fr4⟩ := block_op hs .LP hb3 (f := g) (by simp at hg; omega) hst3 hPl
    have hln : lineNodes b.lines.reverse = ps.reverse.map Expr.Line := by
      rw [lineNodes_reverse, RLines_lineNodes hl, List.map_reverse]
    simp only [bkNode] at hs1 hs2 hs4 fr1 fr2 fr4
    refine ⟨h4, ?_, ?_, ?_, ?_⟩
    · simp only [stmtNodes, hln]
      rw [passF_cons, hs1, bind_ok, passF_cons, hs2, bind_ok, passF_append _ _ _ _ _ _ hp3 (by simp; omega), hg,
        passF_cons, hs4]
      simp only [bind_ok, passF_nil]; rfl
    · refine ⟨ps, hb4, ?_⟩
      have := RLines_reverse ((RLines_congr (h := h3) (h' := h4) (by rw [hl4])).2 hrl3)
      simp only [List.reverse_reverse] at this
      exact this
    · rw [hf4, hf3, hf2, hf1]
    · simp only [stmtNodes, hln]
      have := Frame.trans (Frame.trans (Frame.trans fr1 fr2) fr3) fr4
      simpa using this
  · -- postorder: ( lines ) x
    obtain ⟨h1, hs1, hb1, hl1, hc1, hf1, fr1⟩ := block_op hs .LP hb (f := f2 + 1) (by omega) hst hPl
    have hst1 := Nat.le_trans (hF (bkSpan .LP b) (bkComs .LP b) st) hst
    have hrl1 : RLines h1 ps b.lines := (RLines_congr (by rw [hl1])).2 hl
    obtain ⟨h2, hp2, hrl2, hc2, hbk2, hf2, fr2⟩ := pass_lines hs hF ps b.lines h1 _ (f2 + 1) hrl1 hnd hst1 (by omega) hPls
    have hst2 := Nat.le_trans (travLines_shrinks hF b.lines _) hst1
    have hb2 := hb1; rw [← hbk2] at hb2
    obtain ⟨g, hg⟩ : ∃ g, f2 + 1 - (ps.map Expr.Line).length = g + 1 + 1 := ⟨f2 - ps.length - 1, by simp; omega⟩
    obtain ⟨h3, hs3, hb3, hl3, hc3, hf3, fr3⟩ := block_op hs .RP hb2 (f := g + 1) (by simp at hg; omega) hst2 hPr
    have hst3 := Nat.le_trans (hF (bkSpan .RP (bkSet .LP (F (bkSpan .LP b) (bkComs .LP b) st).1 b))
      (bkComs .RP (bkSet .LP (F (bkSpan .LP b) (bkComs .LP b) st).1 b)) _) hst2
    obtain ⟨h4, hs4, hb4, hl4, hc4, hf4, fr4⟩ := block_op hs .B hb3 (f := g) (by simp at hg; omega) hst3 hPb
    simp only [bkNode] at hs1 hs3 hs4 fr1 fr3 fr4
    refine ⟨h4, ?_, ?_, ?_, ?_⟩
    · simp only [stmtNodes, RLines_lineNodes hl]
      rw [passF_cons, hs1, bind_ok, passF_append _ _ _ _ _ _ hp2 (by simp; omega), hg,
        passF_cons, hs3, bind_ok, passF_cons, hs4]
      simp only [bind_ok, passF_nil]; rfl
    · exact ⟨ps, hb4, (RLines_congr (by rw [hl4, hl3])).2 hrl2⟩
    · rw [hf4, hf3, hf2, hf1]
    · simp only [stmtNodes, RLines_lineNodes hl]
      have := Frame.trans (Frame.trans (Frame.trans fr1 fr2) fr3) fr4
      simpa using this


theorem nodup_of_map_Line {ps : List Int} (h : (ps.map Expr.Line).Nodup) : ps.Nodup := by
  unfold List.Nodup at *
  rw [List.pairwise_map] at h
  exact h.imp (fun hab e => hab (by rw [e]))

/-- one statement -/
theorem pass_stmt (hs : StepSpec F emb N P step) (hF : Shrinks F) (o : Ord) {e : Expr} {s : Modfile.Expr} {h : Heap}
    {st : List Modfile.Comment} {fuel : Nat} (hr : RExpr h e s) (hnd : (stmtNodes .pre e s).Nodup)
    (hst : st.length ≤ N) (hf : (stmtNodes o e s).length + N + 1 ≤ fuel) (hP : StmtP P s) :
    ∃ h', passF step fuel (stmtNodes o e s) (h, emb st) = .ok (h', emb (travStmt o F s st).2) ∧
      RExpr h' e (travStmt o F s st).1 ∧ h'.files = h.files ∧ Frame (stmtNodes o e s) h h' := by
  cases e <;> cases s <;> (try (simp only [RExpr] at hr; done))
  · rename_i p c
    obtain ⟨f, rfl⟩ : ∃ f, fuel = f + 1 := ⟨fuel - 1, by simp [stmtNodes] at hf; omega⟩
    obtain ⟨h1, hs1, hr1, hf1, fr1⟩ := pass_simple hs (f := f) (st := st) hr (by intro q; simp)
      (by simp [stmtNodes] at hf; omega) hst hP
    refine ⟨h1, ?_, hr1, hf1, fr1⟩
    simp only [stmtNodes, passF_cons, hs1, bind_ok, passF_nil]; rfl
  · rename_i p l
    obtain ⟨f, rfl⟩ : ∃ f, fuel = f + 1 := ⟨fuel - 1, by simp [stmtNodes] at hf; omega⟩
    obtain ⟨h1, hs1, hr1, hf1, fr1⟩ := pass_simple hs (f := f) (st := st) hr (by intro q; simp)
      (by simp [stmtNodes] at hf; omega) hst hP
    refine ⟨h1, ?_, hr1, hf1, fr1⟩
    simp only [stmtNodes, passF_cons, hs1, bind_ok, passF_nil]; rfl
  · rename_i p b
    simp only [RExpr] at hr
    obtain ⟨ps, hb, hl⟩ := hr
    have hps : ps.Nodup := by
      simp only [stmtNodes, RLines_lineNodes hl] at hnd
      have h1 := (List.nodup_cons.1 hnd).2
      have h2 := (List.nodup_cons.1 h1).2
      exact nodup_of_map_Line (List.nodup_append.1 h2).1
    have hlen : (stmtNodes o (.LineBlock p) (.lineBlock b)).length = ps.length + 3 := by
      cases o <;> simp [stmtNodes, lineNodes, RLines_length hl]
    exact pass_block hs hF o hb hl hps hst (by omega) hP

theorem Frame_stmts {X : List Expr} {h h' : Heap} (fr : Frame X h h') : ∀ {es : List Expr} {ss : List Modfile.Expr},
    RStmts h es ss → (∀ x ∈ X, x ∉ stmtsNodes .pre es ss) → RStmts h' es ss
  | [], [], _, _ => trivial
  | e :: es, s :: ss, hr, hx => by
    simp only [RStmts_cons] at hr ⊢
    refine ⟨fr e s hr.1 (fun x hxX hm => hx x hxX ?_), Frame_stmts fr hr.2 (fun x hxX hm => hx x hxX ?_)⟩
    · simp only [stmtsNodes, List.mem_append]; exact Or.inl hm
    · simp only [stmtsNodes, List.mem_append]; exact Or.inr hm
  | [], _ :: _, hr, _ => by simp at hr
  | _ :: _, [], hr, _ => by simp at hr

/-- a statement list, in the order given -/
theorem pass_stmts (hs : StepSpec F emb N P step) (hF : Shrinks F) (o : Ord) : ∀ (es : List Expr) (ss : List Modfile.Expr)
    (h : Heap) (st : List Modfile.Comment) (fuel : Nat), RStmts h es ss → (stmtsNodes .pre es ss).Nodup →
    st.length ≤ N → (stmtsNodes o es ss).length + N + 1 ≤ fuel → (∀ s ∈ ss, StmtP P s) →
    ∃ h', passF step fuel (stmtsNodes o es ss) (h, emb st) = .ok (h', emb (travStmts o F ss st).2) ∧
      RStmts h' es (travStmts o F ss st).1 ∧ h'.files = h.files ∧ Frame (stmtsNodes o es ss) h h'
  | [], [], h, st, fuel, _, _, _, _, _ => ⟨h, by simp [stmtsNodes, travStmts], by simp [travStmts], rfl, Frame.refl h⟩
  | [], _ :: _, h, st, fuel, hr, _, _, _, _ => by simp at hr
  | _ :: _, [], h, st, fuel, hr, _, _, _, _ => by simp at hr
  | e :: es, s :: ss, h, st, fuel, hr, hnd, hst, hf, hP => by
    simp only [RStmts_cons] at hr
    simp only [stmtsNodes, List.length_append] at hf
    simp only [stmtsNodes] at hnd
    obtain ⟨hnd1, hnd2, hdisj⟩ := List.nodup_append.1 hnd
    obtain ⟨h1, hp1, hr1, hf1, fr1⟩ := pass_stmt hs hF o (st := st) (fuel := fuel) hr.1 hnd1 hst (by omega) (hP s (by simp))
    have hst1 := Nat.le_trans (travStmt_shrinks hF o s st) hst
    have hrest : RStmts h1 es ss := Frame_stmts fr1 hr.2 (by
      intro x hx hm
      exact hdisj x ((mem_stmtNodes o e s x).1 hx) x hm rfl)
    obtain ⟨h2, hp2, hr2, hf2, fr2⟩ := pass_stmts hs hF o es ss h1 (travStmt o F s st).2
      (fuel - (stmtNodes o e s).length) hrest hnd2 hst1 (by omega) (fun s' hs' => hP s' (List.mem_cons_of_mem _ hs'))
    refine ⟨h2, ?_, ?_, by rw [hf2, hf1], ?_⟩
    · simp only [stmtsNodes]
      rw [passF_append _ _ _ _ _ _ hp1 (by omega), hp2]
      rfl
    · simp only [travStmts, RStmts_cons]
      refine ⟨fr2 e _ hr1 ?_, hr2⟩
      intro x hx hm
      rw [stmtNodes_travStmt] at hm
      exact hdisj x hm x ((mem_stmtsNodes o es ss x).1 hx) rfl
    · simp only [stmtsNodes]
      exact Frame.trans fr1 fr2

/-! ### node lists of reversed statement lists -/

theorem stmtsNodes_append (o : Ord) : ∀ (es es' : List Expr) (ss ss' : List Modfile.Expr), es.length = ss.length →
    stmtsNodes o (es ++ es') (ss ++ ss') = stmtsNodes o es ss ++ stmtsNodes o es' ss'
  | [], es', [], ss', _ => rfl
  | e :: es, es', s :: ss, ss', hl => by
    simp only [List.cons_append, stmtsNodes, List.append_assoc]
    rw [stmtsNodes_append o es es' ss ss' (by simpa using hl)]
  | [], _, _ :: _, _, hl => by simp at hl
  | _ :: _, _, [], _, hl => by simp at hl

theorem stmtsNodes_single (o : Ord) (e : Expr) (s : Modfile.Expr) : stmtsNodes o [e] [s] = stmtNodes o e s := by
  simp [stmtsNodes]

theorem mem_stmtsNodes_reverse (o : Ord) : ∀ (es : List Expr) (ss : List Modfile.Expr), es.length = ss.length →
    ∀ x, x ∈ stmtsNodes o es.reverse ss.reverse ↔ x ∈ stmtsNodes o es ss
  | [], [], _, x => by simp
  | e :: es, s :: ss, hl, x => by
    simp only [List.reverse_cons]
    rw [stmtsNodes_append o _ _ _ _ (by simpa using hl), stmtsNodes_single]
    simp only [stmtsNodes, List.mem_append, mem_stmtsNodes_reverse o es ss (by simpa using hl) x]
    exact Or.comm
  | [], _ :: _, hl, _ => by simp at hl
  | _ :: _, [], hl, _ => by simp at hl

theorem nodup_stmtsNodes_reverse (o : Ord) : ∀ (es : List Expr) (ss : List Modfile.Expr), es.length = ss.length →
    (stmtsNodes o es ss).Nodup → (stmtsNodes o es.reverse ss.reverse).Nodup
  | [], [], _, h => by simpa using h
  | e :: es, s :: ss, hl, h => by
    simp only [List.reverse_cons]
    rw [stmtsNodes_append o _ _ _ _ (by simpa using hl), stmtsNodes_single]
    simp only [stmtsNodes] at h
    obtain ⟨h1, h2, h3⟩ := List.nodup_append.1 h
    refine List.nodup_append.2 ⟨nodup_stmtsNodes_reverse o es ss (by simpa using hl) h2, h1, ?_⟩
    intro a ha b hb e
    subst e
    exact h3 a hb a ((mem_stmtsNodes_reverse o es ss (by simpa using hl) a).1 ha) rfl
  | [], _ :: _, hl, _ => by simp at hl
  | _ :: _, [], hl, _ => by simp at hl

end generic

end ModVerif.TieFnParseComments
