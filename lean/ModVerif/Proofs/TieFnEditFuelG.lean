/-
  Closed fuel of the FnEdit session ties, part G (agent edit-fuel2): the GLOBAL token sum of the go.mod parser model.
  rule-fuel's `parseFile_w` bounds the tokens of every single LINE by the input length; here the SUM over all lines and block
  heads is bounded: the lexer only moves forward, so the byte potential `Bp` (pending token text + remaining input) pays every
  token of the whole tree once:   `parseFile_tok : parseFile data = .ok (ss, i) → ETs ss ≤ data.length`.
-/
import ModVerif.Proofs.TieFnRuleFuelC
set_option linter.unusedSimpArgs false
set_option linter.unusedVariables false
namespace ModVerif.Tie.FnEditFuelG
open ModVerif ModVerif.Modfile ModVerif.Tie.FnRuleFuelA ModVerif.Tie.FnRuleFuelB ModVerif.Tie.FnRuleFuelC

/-- summed token bytes of a list of lines -/
def LT (ls : List Line) : Nat := (ls.map fun l => tsum l.token).sum

@[simp] theorem LT_nil : LT [] = 0 := rfl
@[simp] theorem LT_cons (l : Line) (ls : List Line) : LT (l :: ls) = tsum l.token + LT ls := by simp [LT]
@[simp] theorem LT_append (a b : List Line) : LT (a ++ b) = LT a + LT b := by
  induction a with
  | nil => simp
  | cons x xs ih => simp [ih]; omega
@[simp] theorem LT_reverse (a : List Line) : LT a.reverse = LT a := by
  induction a with
  | nil => rfl
  | cons x xs ih => simp [ih]; omega

/-- summed token bytes of a statement: the tokens of a line; the head tokens of a block and the tokens of its lines -/
def ET : Expr → Nat
  | .line l => tsum l.token
  | .lineBlock b => tsum b.token + LT b.lines
  | _ => 0
def ETs (ss : List Expr) : Nat := (ss.map ET).sum

@[simp] theorem ETs_nil : ETs [] = 0 := rfl
@[simp] theorem ETs_cons (s : Expr) (ss : List Expr) : ETs (s :: ss) = ET s + ETs ss := by simp [ETs]
@[simp] theorem ETs_append (a b : List Expr) : ETs (a ++ b) = ETs a + ETs b := by
  induction a with
  | nil => simp
  | cons x xs ih => simp [ih]; omega
@[simp] theorem ETs_reverse (a : List Expr) : ETs a.reverse = ETs a := by
  induction a with
  | nil => rfl
  | cons x xs ih => simp [ih]; omega

theorem ET_setComments (s : Expr) (cs : Comments) : ET (s.setComments cs) = ET s := by
  cases s <;> rfl

theorem parseLineBlockLoop_t : ∀ (fuel : Nat) (i : Input) (x : LineBlock) (ls : List Line) (cs : List Comment)
    (b : LineBlock) (i' : Input), parseLineBlockLoop fuel i x ls cs = .ok (b, i') →
    LT b.lines + Bp i' ≤ LT ls + Bp i ∧ b.token = x.token := by
  intro fuel
  induction fuel with
  | zero => intro i x ls cs b i' h; simp [parseLineBlockLoop] at h
  | succ n ih =>
    intro i x ls cs b i' h
    unfold parseLineBlockLoop at h
    split at h
    · cases hl : lex i with
      | error e => simp [hl, bind, Except.bind] at h
      | ok v =>
        obtain ⟨tok, i1⟩ := v
        obtain ⟨_, b1, c1⟩ := lex_w hl
        simp only [hl, bind, Except.bind] at h
        obtain ⟨a1, a2⟩ := ih _ _ _ _ _ _ h
        exact ⟨by omega, a2⟩
    · cases hl : lex i with
      | error e => simp [hl, bind, Except.bind] at h
      | ok v =>
        obtain ⟨tok, i1⟩ := v
        obtain ⟨_, b1, c1⟩ := lex_w hl
        simp only [hl, bind, Except.bind] at h
        obtain ⟨a1, a2⟩ := ih _ _ _ _ _ _ h
        exact ⟨by omega, a2⟩
    · cases hl : lex i with
      | error e => simp [hl, bind, Except.bind] at h
      | ok v =>
        obtain ⟨tok, i1⟩ := v
        obtain ⟨_, b1, c1⟩ := lex_w hl
        simp only [hl, bind, Except.bind] at h
        obtain ⟨a1, a2⟩ := ih _ _ _ _ _ _ h
        exact ⟨by omega, a2⟩
    · cases h
    · cases hl : lex i with
      | error e => simp [hl, bind, Except.bind] at h
      | ok v =>
        obtain ⟨tok, i1⟩ := v
        obtain ⟨_, b1, c1⟩ := lex_w hl
        simp only [hl, bind, Except.bind] at h
        split at h
        · cases h
        · cases hl2 : lex i1 with
          | error e => simp [hl2] at h
          | ok v2 =>
            obtain ⟨tok2, i2⟩ := v2
            obtain ⟨_, b2, c2⟩ := lex_w hl2
            simp only [hl2, Except.ok.injEq, Prod.mk.injEq] at h
            obtain ⟨rfl, rfl⟩ := h
            refine ⟨?_, rfl⟩
            simp only [LT_reverse]
            omega
    · cases hp : parseLine (n + 1) i with
      | error e => simp [hp, bind, Except.bind] at h
      | ok v =>
        obtain ⟨l, i1⟩ := v
        obtain ⟨p1, p2, p3, p4⟩ := parseLine_w hp
        simp only [hp, bind, Except.bind] at h
        obtain ⟨a1, a2⟩ := ih _ _ _ _ _ _ h
        simp only [LT_cons] at a1
        exact ⟨by omega, a2⟩

theorem parseStmtLoop_t : ∀ (fuel : Nat) (i : Input) (s e : Position) (ts : List Bytes) (x : Expr) (i' : Input),
    parseStmtLoop fuel i s e ts = .ok (x, i') → ET x + Bp i' ≤ tsum ts + Bp i := by
  intro fuel
  induction fuel with
  | zero => intro i s e ts x i' h; simp [parseStmtLoop] at h
  | succ n ih =>
    intro i s e ts x i' h
    unfold parseStmtLoop at h
    cases hl : lex i with
    | error e => simp [hl, bind, Except.bind] at h
    | ok v =>
      obtain ⟨tok, i1⟩ := v
      obtain ⟨rfl, b1, c1⟩ := lex_w hl
      simp only [hl, bind, Except.bind] at h
      split at h
      · simp only [Except.ok.injEq, Prod.mk.injEq] at h
        obtain ⟨rfl, rfl⟩ := h
        simp only [ET, Bp_nextId, tsum_reverse]
        omega
      · split at h
        · split at h
          · unfold parseLineBlock at h
            cases hb : parseLineBlockLoop (n + 1) i1 { start := s, token := ts.reverse, lparen := { pos := i.token.pos } } [] [] with
            | error e => simp [hb] at h
            | ok v =>
              obtain ⟨b, i2⟩ := v
              simp only [hb, Except.ok.injEq, Prod.mk.injEq] at h
              obtain ⟨rfl, rfl⟩ := h
              obtain ⟨a1, a2⟩ := parseLineBlockLoop_t _ _ _ _ _ _ _ hb
              simp only [LT_nil] at a1
              simp only [ET, a2, tsum_reverse]
              omega
          · split at h
            · cases hl2 : lex i1 with
              | error e => simp [hl2] at h
              | ok v2 =>
                obtain ⟨rp, i2⟩ := v2
                obtain ⟨rfl, b2, c2⟩ := lex_w hl2
                simp only [hl2] at h
                split at h
                · cases hl3 : lex i2 with
                  | error e => simp [hl3] at h
                  | ok v3 =>
                    obtain ⟨tok3, i3⟩ := v3
                    obtain ⟨_, b3, c3⟩ := lex_w hl3
                    simp only [hl3, Except.ok.injEq, Prod.mk.injEq] at h
                    obtain ⟨rfl, rfl⟩ := h
                    simp only [ET, LT_nil, tsum_reverse]
                    omega
                · have a1 := ih _ _ _ _ _ _ h
                  simp only [tsum_cons] at a1
                  omega
            · have a1 := ih _ _ _ _ _ _ h
              simp only [tsum_cons] at a1
              omega
        · have a1 := ih _ _ _ _ _ _ h
          simp only [tsum_cons] at a1
          omega

theorem parseStmt_t {fuel : Nat} {i : Input} {x : Expr} {i' : Input} (h : parseStmt fuel i = .ok (x, i')) :
    ET x + Bp i' ≤ Bp i := by
  unfold parseStmt at h
  cases hl : lex i with
  | error e => simp [hl, bind, Except.bind] at h
  | ok v =>
    obtain ⟨tok, i1⟩ := v
    obtain ⟨rfl, b1, c1⟩ := lex_w hl
    simp only [hl, bind, Except.bind] at h
    have a1 := parseStmtLoop_t _ _ _ _ _ _ _ h
    simp only [tsum_cons, tsum_nil] at a1
    omega

theorem parseFileLoop_t : ∀ (fuel : Nat) (i : Input) (sr : List Expr) (cb : Option CommentBlock) (ss : List Expr) (i' : Input),
    parseFileLoop fuel i sr cb = .ok (ss, i') → ETs ss + Bp i' ≤ ETs sr + Bp i := by
  intro fuel
  induction fuel with
  | zero => intro i sr cb ss i' h; simp [parseFileLoop] at h
  | succ n ih =>
    intro i sr cb ss i' h
    unfold parseFileLoop at h
    split at h
    · cases hl : lex i with
      | error e => simp [hl, bind, Except.bind] at h
      | ok v =>
        obtain ⟨tok, i1⟩ := v
        obtain ⟨_, b1, c1⟩ := lex_w hl
        simp only [hl, bind, Except.bind] at h
        cases cb with
        | none => have a1 := ih _ _ _ _ _ h; omega
        | some c =>
          have a1 := ih _ _ _ _ _ h
          simp only [ETs_cons, ET] at a1
          omega
    · cases hl : lex i with
      | error e => simp [hl, bind, Except.bind] at h
      | ok v =>
        obtain ⟨tok, i1⟩ := v
        obtain ⟨_, b1, c1⟩ := lex_w hl
        simp only [hl, bind, Except.bind] at h
        have a1 := ih _ _ _ _ _ h
        omega
    · cases cb with
      | none =>
        simp only [Except.ok.injEq, Prod.mk.injEq] at h
        obtain ⟨rfl, rfl⟩ := h
        simp only [ETs_reverse]; omega
      | some c =>
        simp only [Except.ok.injEq, Prod.mk.injEq] at h
        obtain ⟨rfl, rfl⟩ := h
        simp only [ETs_reverse, ETs_cons, ET]; omega
    · cases hs : parseStmt (n + 1) i with
      | error e => simp [hs, bind, Except.bind] at h
      | ok v =>
        obtain ⟨x, i1⟩ := v
        have p1 := parseStmt_t hs
        simp only [hs, bind, Except.bind] at h
        cases cb with
        | none =>
          have a1 := ih _ _ _ _ _ h
          simp only [ETs_cons] at a1
          omega
        | some c =>
          have a1 := ih _ _ _ _ _ h
          simp only [ETs_cons, ET_setComments] at a1
          omega

/-- **the tokens of the WHOLE tree are paid by the input**: their summed byte length is at most `data.length` -/
theorem parseFile_tok {data : Bytes} {ss : List Expr} {i : Input} (h : parseFile data = .ok (ss, i)) :
    ETs ss ≤ data.length := by
  unfold parseFile at h
  cases h0 : readToken (newInput data) with
  | error e => simp [h0, bind, Except.bind] at h
  | ok i0 =>
    simp only [h0, bind, Except.bind] at h
    obtain ⟨b0, c0⟩ := readToken_w h0
    have hr : (newInput data).remaining.length = data.length := rfl
    rw [hr] at b0
    have a1 := parseFileLoop_t _ _ _ _ _ _ h
    simp only [ETs_nil] at a1
    omega

/-! ### comment assignment keeps the tokens -/

theorem LT_of_map {ls ls' : List Line} (hm : ls'.map (·.token) = ls.map (·.token)) : LT ls' = LT ls := by
  have : ∀ l : List Line, LT l = ((l.map (·.token)).map tsum).sum := by
    intro l; simp [LT, List.map_map, Function.comp_def]
  rw [this, this, hm]

theorem preStmt_t (s s' : Expr) (line r : List Comment) (h : preStmt s line = (s', r)) : ET s' = ET s := by
  cases s with
  | lineBlock b =>
    unfold preStmt at h
    simp only at h
    cases h1 : assignBefore b.start b.comments line with
    | mk c r1 =>
      cases h2 : assignBefore b.lparen.pos b.lparen.comments r1 with
      | mk lc r2 =>
        cases h3 : preLines b.lines r2 with
        | mk ls r3 =>
          cases h4 : assignBefore b.rparen.pos b.rparen.comments r3 with
          | mk rc r4 =>
            simp only [h1, h2, h3, h4, Prod.mk.injEq] at h
            obtain ⟨rfl, rfl⟩ := h
            obtain ⟨e3, e3'⟩ := preLines_w _ _ _ _ h3
            simp only [ET, LT_of_map e3']
  | commentBlock x =>
    unfold preStmt at h
    cases h1 : assignBefore (Expr.commentBlock x).span.1 (Expr.commentBlock x).comments line with
    | mk c r1 =>
      simp only [h1, Prod.mk.injEq] at h
      obtain ⟨rfl, rfl⟩ := h
      exact ET_setComments _ _
  | line x =>
    unfold preStmt at h
    cases h1 : assignBefore (Expr.line x).span.1 (Expr.line x).comments line with
    | mk c r1 =>
      simp only [h1, Prod.mk.injEq] at h
      obtain ⟨rfl, rfl⟩ := h
      exact ET_setComments _ _
  | lparen x =>
    unfold preStmt at h
    cases h1 : assignBefore (Expr.lparen x).span.1 (Expr.lparen x).comments line with
    | mk c r1 =>
      simp only [h1, Prod.mk.injEq] at h
      obtain ⟨rfl, rfl⟩ := h
      exact ET_setComments _ _
  | rparen x =>
    unfold preStmt at h
    cases h1 : assignBefore (Expr.rparen x).span.1 (Expr.rparen x).comments line with
    | mk c r1 =>
      simp only [h1, Prod.mk.injEq] at h
      obtain ⟨rfl, rfl⟩ := h
      exact ET_setComments _ _

theorem postStmt_t (s s' : Expr) (suf r : List Comment) (h : postStmt s suf = (s', r)) : ET s' = ET s := by
  cases s with
  | lineBlock b =>
    unfold postStmt at h
    simp only at h
    cases h1 : assignSuffix (Expr.lineBlock b).span b.comments suf with
    | mk c r1 =>
      cases h2 : assignSuffix (Expr.rparen b.rparen).span b.rparen.comments r1 with
      | mk rc r2 =>
        cases h3 : postLinesRev b.lines.reverse r2 with
        | mk lsRev r3 =>
          cases h4 : assignSuffix (Expr.lparen b.lparen).span b.lparen.comments r3 with
          | mk lc r4 =>
            simp only [h1, h2, h3, h4, Prod.mk.injEq] at h
            obtain ⟨rfl, rfl⟩ := h
            obtain ⟨e3, e3'⟩ := postLinesRev_w _ _ _ _ h3
            simp only [ET, LT_reverse, LT_of_map e3']
  | commentBlock x =>
    unfold postStmt at h
    cases h1 : assignSuffix (Expr.commentBlock x).span (Expr.commentBlock x).comments suf with
    | mk c r1 =>
      simp only [h1, Prod.mk.injEq] at h
      obtain ⟨rfl, rfl⟩ := h
      exact ET_setComments _ _
  | line x =>
    unfold postStmt at h
    cases h1 : assignSuffix (Expr.line x).span (Expr.line x).comments suf with
    | mk c r1 =>
      simp only [h1, Prod.mk.injEq] at h
      obtain ⟨rfl, rfl⟩ := h
      exact ET_setComments _ _
  | lparen x =>
    unfold postStmt at h
    cases h1 : assignSuffix (Expr.lparen x).span (Expr.lparen x).comments suf with
    | mk c r1 =>
      simp only [h1, Prod.mk.injEq] at h
      obtain ⟨rfl, rfl⟩ := h
      exact ET_setComments _ _
  | rparen x =>
    unfold postStmt at h
    cases h1 : assignSuffix (Expr.rparen x).span (Expr.rparen x).comments suf with
    | mk c r1 =>
      simp only [h1, Prod.mk.injEq] at h
      obtain ⟨rfl, rfl⟩ := h
      exact ET_setComments _ _

theorem preStmts_t : ∀ (ss ss' : List Expr) (line r : List Comment), preStmts ss line = (ss', r) → ETs ss' = ETs ss := by
  intro ss
  induction ss with
  | nil => intro ss' line r h; simp [preStmts] at h; obtain ⟨rfl, rfl⟩ := h; simp
  | cons s ss ih =>
    intro ss' line r h
    unfold preStmts at h
    cases h1 : preStmt s line with
    | mk s1 r1 =>
      cases h2 : preStmts ss r1 with
      | mk ss2 r2 =>
        simp only [h1, h2, Prod.mk.injEq] at h
        obtain ⟨rfl, rfl⟩ := h
        simp only [ETs_cons, preStmt_t _ _ _ _ h1, ih ss2 r1 r2 h2]

theorem postStmtsRev_t : ∀ (ss ss' : List Expr) (suf r : List Comment), postStmtsRev ss suf = (ss', r) → ETs ss' = ETs ss := by
  intro ss
  induction ss with
  | nil => intro ss' suf r h; simp [postStmtsRev] at h; obtain ⟨rfl, rfl⟩ := h; simp
  | cons s ss ih =>
    intro ss' suf r h
    unfold postStmtsRev at h
    cases h1 : postStmt s suf with
    | mk s1 r1 =>
      cases h2 : postStmtsRev ss r1 with
      | mk ss2 r2 =>
        simp only [h1, h2, Prod.mk.injEq] at h
        obtain ⟨rfl, rfl⟩ := h
        simp only [ETs_cons, postStmt_t _ _ _ _ h1, ih ss2 r1 r2 h2]

theorem assignComments_t (f : FileSyntax) (cs : List Comment) : ETs (assignComments f cs).stmts = ETs f.stmts := by
  unfold assignComments
  cases h0 : assignBefore f.span.1 f.comments (cs.filter (!·.suffix)) with
  | mk fc r0 =>
    cases h1 : preStmts f.stmts r0 with
    | mk st1 r1 =>
      cases h2 : postStmtsRev st1.reverse (cs.filter (·.suffix)).reverse with
      | mk st2 r2 =>
        simp only [h0, h1, h2]
        have e1 := preStmts_t _ _ _ _ h1
        have e2 := postStmtsRev_t _ _ _ _ h2
        simp only [ETs_reverse] at e2 ⊢
        omega

/-- **the tokens of the whole parsed tree (after comment assignment) sum to at most the input length** -/
theorem parse_tok {name data : Bytes} {fs : FileSyntax} (h : parse name data = .ok fs) : ETs fs.stmts ≤ data.length := by
  unfold parse at h
  cases hp : parseFile data with
  | error e => simp [hp, bind, Except.bind] at h
  | ok v =>
    obtain ⟨ss, i⟩ := v
    simp only [hp, bind, Except.bind, Except.ok.injEq] at h
    subst h
    have a1 := parseFile_tok hp
    have b1 := assignComments_t { name := name, stmts := ss } i.commentsRev.reverse
    simp only at b1
    omega

end ModVerif.Tie.FnEditFuelG
