/-
  EditReparse, part C — the FIRST run of the directive layer over a tree whose lines render a given collection of items
  (C15 `typed_eq_reparse`).

  `I : List (Nat × Item)` — the items with the ids of their lines (for a state satisfying `Edit.Inv`: `items e.f`).
  `IOK I`: pairwise different ids, every item readable (`ItemOK`), at most one `module` / `go` / `toolchain` item.
  `StmtOK I x`: every line of the statement `x` renders the item of `I` with its id; a block has one verb, a block verb.
  Then `addStmts none true` over the tree reports no error, rewrites nothing, and the typed file it builds holds exactly the
  items `I` (as a multiset): `addStmts_first`.
-/
import ModVerif.Proofs.EditReparseB
set_option linter.unusedSimpArgs false
set_option linter.unusedVariables false
namespace ModVerif.Modfile.Edit
open ModVerif ModVerif.Modfile
open ModVerif.Proofs.ModfileFmtDir (PathOK VerOK verb_ne WellFormed values Values)

structure IOK (I : List (Nat × Item)) : Prop where
  nodup : (I.map (·.1)).Nodup
  ok : ∀ q ∈ I, ItemOK q.2
  mod1 : ∀ a b p q, (a, Item.module p) ∈ I → (b, Item.module q) ∈ I → a = b
  go1 : ∀ a b p q, (a, Item.go p) ∈ I → (b, Item.go q) ∈ I → a = b
  tc1 : ∀ a b p q, (a, Item.toolchain p) ∈ I → (b, Item.toolchain q) ∈ I → a = b

/-- the state of the run after the lines `Q` (ids with the items they render) were processed -/
structure FI (I : List (Nat × Item)) (st : AddState) (Q : List (Nat × Item)) : Prop where
  errs : st.errsRev = []
  perm : (items st.file).Perm Q
  sub : ∀ q ∈ Q, q ∈ I

/-! ### `items` after one entry was added -/

theorem items_perm_of_count {l1 l2 : List (Nat × Item)} (h : ∀ a, l1.count a = l2.count a) : l1.Perm l2 :=
  List.perm_iff_count.2 h

theorem items_godebug (f : File) (g : Godebug) :
    (items { f with godebug := f.godebug ++ [g] }).Perm (items f ++ [(g.lineId, Item.godebug g.key g.value)]) := by
  apply items_perm_of_count; intro a
  simp only [items, List.map_append, List.count_append, List.map_cons, List.map_nil]
  omega

theorem items_require (f : File) (g : Require) :
    (items { f with require := f.require ++ [g] }).Perm (items f ++ [(g.lineId, Item.require g.mod g.indirect)]) := by
  apply items_perm_of_count; intro a
  simp only [items, List.map_append, List.count_append, List.map_cons, List.map_nil]
  omega

theorem items_exclude (f : File) (g : Exclude) :
    (items { f with exclude := f.exclude ++ [g] }).Perm (items f ++ [(g.lineId, Item.exclude g.mod)]) := by
  apply items_perm_of_count; intro a
  simp only [items, List.map_append, List.count_append, List.map_cons, List.map_nil]
  omega

theorem items_replace (f : File) (g : Replace) :
    (items { f with replace := f.replace ++ [g] }).Perm (items f ++ [(g.lineId, Item.replace g.old g.new)]) := by
  apply items_perm_of_count; intro a
  simp only [items, List.map_append, List.count_append, List.map_cons, List.map_nil]
  omega

theorem items_retract (f : File) (g : Retract) :
    (items { f with retract := f.retract ++ [g] }).Perm (items f ++ [(g.lineId, Item.retract g.interval)]) := by
  apply items_perm_of_count; intro a
  simp only [items, List.map_append, List.count_append, List.map_cons, List.map_nil]
  omega

theorem items_tool (f : File) (g : Tool) :
    (items { f with tool := f.tool ++ [g] }).Perm (items f ++ [(g.lineId, Item.tool g.path)]) := by
  apply items_perm_of_count; intro a
  simp only [items, List.map_append, List.count_append, List.map_cons, List.map_nil]
  omega

theorem items_module (f : File) (m : Module) (h : f.module = none) :
    (items { f with module := some m }).Perm (items f ++ [(m.lineId, Item.module m.mod.path)]) := by
  apply items_perm_of_count; intro a
  simp only [items, h, Option.toList, List.map_append, List.count_append, List.map_cons, List.map_nil, List.count_nil]
  omega

theorem items_go (f : File) (m : Go) (h : f.go = none) :
    (items { f with go := some m }).Perm (items f ++ [(m.lineId, Item.go m.version)]) := by
  apply items_perm_of_count; intro a
  simp only [items, h, Option.toList, List.map_append, List.count_append, List.map_cons, List.map_nil, List.count_nil]
  omega

theorem items_toolchain (f : File) (m : Toolchain) (h : f.toolchain = none) :
    (items { f with toolchain := some m }).Perm (items f ++ [(m.lineId, Item.toolchain m.name)]) := by
  apply items_perm_of_count; intro a
  simp only [items, h, Option.toList, List.map_append, List.count_append, List.map_cons, List.map_nil, List.count_nil]
  omega

theorem mem_items_module {f : File} {m : Module} (h : f.module = some m) : (m.lineId, Item.module m.mod.path) ∈ items f := by
  simp [items, h]
theorem mem_items_go {f : File} {m : Go} (h : f.go = some m) : (m.lineId, Item.go m.version) ∈ items f := by
  simp [items, h]
theorem mem_items_toolchain {f : File} {m : Toolchain} (h : f.toolchain = some m) : (m.lineId, Item.toolchain m.name) ∈ items f := by
  simp [items, h]

/-! ### one line -/

theorem FI.step {I : List (Nat × Item)} {st st' : AddState} {Q : List (Nat × Item)} (h : FI I st Q) (q : Nat × Item)
    (hq : q ∈ I) (he : st'.errsRev = st.errsRev) (hp : (items st'.file).Perm (items st.file ++ [q])) : FI I st' (Q ++ [q]) :=
  ⟨he.trans h.errs, hp.trans (List.Perm.append_right _ h.perm), fun x hx => by
    rcases List.mem_append.1 hx with hx | hx
    · exact h.sub x hx
    · simp only [List.mem_singleton] at hx; subst hx; exact hq⟩

/-- **Render–reparse for one line, every verb.**  A line whose full tokens `verb :: args` and end-of-line comments render
    an item of `I` that was not processed yet: the strict `File.add` appends exactly that item, reports no error and returns
    the arguments unchanged. -/
theorem add_item {I : List (Nat × Item)} (hI : IOK I) (st : AddState) (Q : List (Nat × Item)) (hfi : FI I st Q)
    (block : Option Comments) (l : Line) (verb : Bytes) (args : List Bytes) (it : Item) (hmem : (l.id, it) ∈ I)
    (hfresh : l.id ∉ Q.map (·.1)) (hr : Rend it (verb :: args) l.comments.suffix) :
    ∃ st', File.add st block l verb args none true = (st', args) ∧ FI I st' (Q ++ [(l.id, it)]) := by
  have hok := hI.ok _ hmem
  cases it with
  | module p =>
    simp only [Rend, List.cons.injEq] at hr
    obtain ⟨rfl, rfl⟩ := hr
    have hm : st.file.module = none := by
      cases hmm : st.file.module with
      | none => rfl
      | some m =>
        exfalso
        have h1 := hfi.sub _ ((hfi.perm.mem_iff).1 (mem_items_module hmm))
        have := hI.mod1 _ _ _ _ h1 hmem
        apply hfresh
        rw [← this]
        exact List.mem_map.2 ⟨_, (hfi.perm.mem_iff).1 (mem_items_module hmm), rfl⟩
    refine ⟨_, step_module st block l p hm, hfi.step _ hmem rfl ?_⟩
    exact items_module st.file _ hm
  | go v =>
    simp only [Rend, List.cons.injEq] at hr
    obtain ⟨rfl, rfl⟩ := hr
    have hm : st.file.go = none := by
      cases hmm : st.file.go with
      | none => rfl
      | some m =>
        exfalso
        have h1 := hfi.sub _ ((hfi.perm.mem_iff).1 (mem_items_go hmm))
        have := hI.go1 _ _ _ _ h1 hmem
        apply hfresh
        rw [← this]
        exact List.mem_map.2 ⟨_, (hfi.perm.mem_iff).1 (mem_items_go hmm), rfl⟩
    refine ⟨_, step_go st block l v hm hok.1, hfi.step _ hmem rfl ?_⟩
    exact items_go st.file _ hm
  | toolchain n =>
    simp only [Rend, List.cons.injEq] at hr
    obtain ⟨rfl, rfl⟩ := hr
    have hm : st.file.toolchain = none := by
      cases hmm : st.file.toolchain with
      | none => rfl
      | some m =>
        exfalso
        have h1 := hfi.sub _ ((hfi.perm.mem_iff).1 (mem_items_toolchain hmm))
        have := hI.tc1 _ _ _ _ h1 hmem
        apply hfresh
        rw [← this]
        exact List.mem_map.2 ⟨_, (hfi.perm.mem_iff).1 (mem_items_toolchain hmm), rfl⟩
    refine ⟨_, step_toolchain st block l n hm hok.1, hfi.step _ hmem rfl ?_⟩
    exact items_toolchain st.file _ hm
  | godebug k v =>
    simp only [Rend, List.cons.injEq] at hr
    obtain ⟨rfl, rfl⟩ := hr
    refine ⟨_, step_godebug st block l k v hok.1, hfi.step _ hmem rfl ?_⟩
    exact items_godebug st.file _
  | require m ind =>
    simp only [Rend, List.cons.injEq] at hr
    obtain ⟨⟨rfl, rfl⟩, hind⟩ := hr
    refine ⟨_, step_require st block l m hok, hfi.step _ hmem rfl ?_⟩
    have hind' : isIndirect l = ind := by rw [isIndirect_eq]; exact hind
    rw [hind']
    exact items_require st.file { mod := m, indirect := ind, lineId := l.id }
  | exclude m =>
    simp only [Rend, List.cons.injEq] at hr
    obtain ⟨rfl, rfl⟩ := hr
    refine ⟨_, step_exclude st block l m hok, hfi.step _ hmem rfl ?_⟩
    exact items_exclude st.file _
  | replace o n =>
    simp only [Rend, List.cons.injEq] at hr
    obtain ⟨rfl, rfl⟩ := hr
    refine ⟨_, step_replace st block l o n _ hok.2.2.2.2, hfi.step _ hmem rfl ?_⟩
    exact items_replace st.file _
  | retract vi =>
    obtain ⟨args', hcons, hp, _⟩ := retract_args hr hok
    simp only [List.cons.injEq] at hcons
    obtain ⟨rfl, rfl⟩ := hcons
    refine ⟨_, step_retract st block l vi _ hp, hfi.step _ hmem rfl ?_⟩
    exact items_retract st.file _
  | tool p =>
    obtain ⟨hcons, hps⟩ := tool_arg hr hok
    simp only [List.cons.injEq] at hcons
    obtain ⟨rfl, rfl⟩ := hcons
    refine ⟨_, step_tool st block l p p hps, hfi.step _ hmem rfl ?_⟩
    exact items_tool st.file _

/-! ### blocks and statements -/

/-- every line of the statement renders the item of `I` with its id -/
def StmtOK (I : List (Nat × Item)) : Expr → Prop
  | .line l => ∃ verb args it, l.token = verb :: args ∧ (l.id, it) ∈ I ∧ Rend it (verb :: args) l.comments.suffix
  | .lineBlock b => ∃ verb, b.token = [verb] ∧ verbIn verb blockVerbs = true ∧
      ∀ l ∈ b.lines, ∃ it, (l.id, it) ∈ I ∧ Rend it (verb :: l.token) l.comments.suffix
  | _ => True

theorem line_eta (l : Line) : ({ l with token := l.token } : Line) = l := by cases l; rfl

theorem addBlockLines_first {I : List (Nat × Item)} (hI : IOK I) (bc : Comments) (verb : Bytes) :
    ∀ (ls : List Line) (st : AddState) (Q : List (Nat × Item)), FI I st Q → (ls.map (·.id)).Nodup →
      (∀ l ∈ ls, l.id ∉ Q.map (·.1)) →
      (∀ l ∈ ls, ∃ it, (l.id, it) ∈ I ∧ Rend it (verb :: l.token) l.comments.suffix) →
      ∃ st' Q', addBlockLines bc verb none true st ls = (st', ls) ∧ FI I st' Q' ∧ Q'.map (·.1) = Q.map (·.1) ++ ls.map (·.id) := by
  intro ls
  induction ls with
  | nil => intro st Q hfi _ _ _; exact ⟨st, Q, rfl, hfi, by simp⟩
  | cons l ls ih =>
    intro st Q hfi hnd hfresh hok
    obtain ⟨it, hmem, hr⟩ := hok l (by simp)
    obtain ⟨st1, hadd, hfi1⟩ := add_item hI st Q hfi (some bc) l verb l.token it hmem (hfresh l (by simp)) hr
    have hnd' : l.id ∉ ls.map (·.id) ∧ (ls.map (·.id)).Nodup := List.nodup_cons.1 (by rw [List.map_cons] at hnd; exact hnd)
    obtain ⟨st2, Q2, hrest, hfi2, hQ2⟩ := ih st1 (Q ++ [(l.id, it)]) hfi1 hnd'.2
      (by
        intro l' hl' hc
        simp only [List.map_append, List.map_cons, List.map_nil, List.mem_append, List.mem_singleton] at hc
        rcases hc with hc | hc
        · exact hfresh l' (by simp [hl']) hc
        · exact hnd'.1 (hc ▸ List.mem_map.2 ⟨l', hl', rfl⟩))
      (fun l' hl' => hok l' (by simp [hl']))
    refine ⟨st2, Q2, ?_, hfi2, ?_⟩
    · simp only [addBlockLines, hadd, hrest]
    · rw [hQ2]; simp

theorem addStmts_first {I : List (Nat × Item)} (hI : IOK I) :
    ∀ (stmts : List Expr) (st : AddState) (Q : List (Nat × Item)), FI I st Q → (treeIds stmts).Nodup →
      (∀ i ∈ treeIds stmts, i ∉ Q.map (·.1)) → (∀ x ∈ stmts, StmtOK I x) →
      ∃ st' Q', addStmts none true st stmts = (st', stmts) ∧ FI I st' Q' ∧ Q'.map (·.1) = Q.map (·.1) ++ treeIds stmts := by
  intro stmts
  induction stmts with
  | nil => intro st Q hfi _ _ _; exact ⟨st, Q, rfl, hfi, by simp [treeIds, loc]⟩
  | cons x xs ih =>
    intro st Q hfi hnd hfresh hok
    rw [treeIds_cons] at hnd hfresh
    have hndx := (List.nodup_append.1 hnd).1
    have hndxs := (List.nodup_append.1 hnd).2.1
    have hdisj := (List.nodup_append.1 hnd).2.2
    have hokx := hok x (by simp)
    have hokxs : ∀ y ∈ xs, StmtOK I y := fun y hy => hok y (by simp [hy])
    have tail : ∀ (st1 : AddState) (Q1 : List (Nat × Item)), FI I st1 Q1 → Q1.map (·.1) = Q.map (·.1) ++ treeIds [x] →
        ∃ st2 Q2, addStmts none true st1 xs = (st2, xs) ∧ FI I st2 Q2 ∧ Q2.map (·.1) = Q.map (·.1) ++ (treeIds [x] ++ treeIds xs) := by
      intro st1 Q1 hfi1 hQ1
      obtain ⟨st2, Q2, hrest, hfi2, hQ2⟩ := ih st1 Q1 hfi1 hndxs
        (by
          intro i hi hc
          rw [hQ1] at hc
          rcases List.mem_append.1 hc with hc | hc
          · exact hfresh i (List.mem_append_right _ hi) hc
          · exact hdisj i hc i hi rfl)
        hokxs
      exact ⟨st2, Q2, hrest, hfi2, by rw [hQ2, hQ1]; simp⟩
    rw [treeIds_cons]
    cases x with
    | line l =>
      obtain ⟨verb, args, it, htok, hmem, hr⟩ := hokx
      have hid : treeIds [Expr.line l] = [l.id] := by simp [treeIds, loc, locStmt]
      obtain ⟨st1, hadd, hfi1⟩ := add_item hI st Q hfi none l verb args it hmem
        (hfresh l.id (by rw [hid]; simp)) hr
      obtain ⟨st2, Q2, hrest, hfi2, hQ2⟩ := tail st1 (Q ++ [(l.id, it)]) hfi1 (by rw [hid]; simp)
      refine ⟨st2, Q2, ?_, hfi2, hQ2⟩
      simp only [addStmts, htok, hadd, hrest]
      have hl : ({ l with token := verb :: args } : Line) = l := by rw [← htok]
      rw [hl]
    | lineBlock b =>
      obtain ⟨verb, htok, hverb, hlines⟩ := hokx
      have hid : treeIds [Expr.lineBlock b] = b.lines.map (·.id) := treeIds_block b
      obtain ⟨st1, Q1, hrun, hfi1, hQ1⟩ := addBlockLines_first hI b.comments verb b.lines st Q hfi (by rw [← hid]; exact hndx)
        (fun l hl => hfresh l.id (by rw [hid]; exact List.mem_append_left _ (List.mem_map.2 ⟨l, hl, rfl⟩))) hlines
      obtain ⟨st2, Q2, hrest, hfi2, hQ2⟩ := tail st1 Q1 hfi1 (by rw [hQ1, hid])
      refine ⟨st2, Q2, ?_, hfi2, hQ2⟩
      simp only [addStmts, htok, hverb, if_true, hrun, hrest]
      have hb : ({ b with token := [verb], lines := b.lines } : LineBlock) = b := by rw [← htok]
      rw [hb]
    | commentBlock c =>
      obtain ⟨st2, Q2, hrest, hfi2, hQ2⟩ := tail st Q hfi (by simp [treeIds, loc, locStmt])
      exact ⟨st2, Q2, by simp only [addStmts, hrest], hfi2, hQ2⟩
    | lparen c =>
      obtain ⟨st2, Q2, hrest, hfi2, hQ2⟩ := tail st Q hfi (by simp [treeIds, loc, locStmt])
      exact ⟨st2, Q2, by simp only [addStmts, hrest], hfi2, hQ2⟩
    | rparen c =>
      obtain ⟨st2, Q2, hrest, hfi2, hQ2⟩ := tail st Q hfi (by simp [treeIds, loc, locStmt])
      exact ⟨st2, Q2, by simp only [addStmts, hrest], hfi2, hQ2⟩

/-- **The first run.**  A tree with pairwise different line ids whose lines render the items `I` (one line per item):
    the strict directive layer, run over it from the empty file, reports no error, rewrites no token, and builds a typed
    file whose entries are exactly the items `I`, as a multiset. -/
theorem first_run {I : List (Nat × Item)} (hI : IOK I) (T : FileSyntax) (hnd : (treeIds T.stmts).Nodup)
    (hok : ∀ x ∈ T.stmts, StmtOK I x) (hsurj : ∀ q ∈ I, q.1 ∈ treeIds T.stmts) :
    ∃ st1, addStmts none true { file := { syn := T } } T.stmts = (st1, T.stmts) ∧ st1.errsRev = [] ∧
      (items st1.file).Perm I := by
  have h0 : FI I ({ file := { syn := T } } : AddState) [] := ⟨rfl, by simp [items], fun q hq => by cases hq⟩
  obtain ⟨st1, Q, hrun, hfi, hQ⟩ := addStmts_first hI T.stmts _ [] h0 hnd (fun i _ hc => by cases hc) hok
  refine ⟨st1, hrun, hfi.errs, hfi.perm.trans ?_⟩
  simp only [List.map_nil, List.nil_append] at hQ
  have hQnd : Q.Nodup := by
    have : (Q.map (·.1)).Nodup := by rw [hQ]; exact hnd
    exact List.Pairwise.of_map (·.1) (fun a b hab he => hab (by rw [he])) this
  have hInd : I.Nodup := List.Pairwise.of_map (·.1) (fun a b hab he => hab (by rw [he])) hI.nodup
  refine (List.perm_ext_iff_of_nodup hQnd hInd).2 ?_
  intro q
  constructor
  · exact hfi.sub q
  · intro hq
    have : q.1 ∈ Q.map (·.1) := by rw [hQ]; exact hsurj q hq
    obtain ⟨q', hq', he⟩ := List.mem_map.1 this
    have hq'I := hfi.sub q' hq'
    -- same id in `I` ⇒ same item
    have : q' = q := by
      have hinj : ∀ (L : List (Nat × Item)), (L.map (·.1)).Nodup → ∀ a ∈ L, ∀ b ∈ L, a.1 = b.1 → a = b := by
        intro L
        induction L with
        | nil => intro _ a ha; cases ha
        | cons c L ihL =>
          intro hnd a ha b hb hab
          simp only [List.map_cons, List.nodup_cons] at hnd
          rcases List.mem_cons.1 ha with rfl | ha' <;> rcases List.mem_cons.1 hb with rfl | hb'
          · rfl
          · exact absurd (show a.1 ∈ L.map (·.1) from List.mem_map.2 ⟨b, hb', hab.symm⟩) hnd.1
          · exact absurd (show b.1 ∈ L.map (·.1) from List.mem_map.2 ⟨a, ha', hab⟩) hnd.1
          · exact ihL hnd.2 a ha' b hb' hab
      exact hinj I hI.nodup q' hq'I q hq he
    rw [← this]; exact hq'

end ModVerif.Modfile.Edit
