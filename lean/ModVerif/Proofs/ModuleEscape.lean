/-
  Helper lemmas for C11: byte-level characterisation of escapeString / unescapeString and the
  combinatorial core (round trip, image, case-insensitive injectivity).
-/
import ModVerif.Model.Module
import ModVerif.Proofs.ModuleUtf8
namespace ModVerif.Module
open ModVerif

/-- a byte that escapeString accepts: ASCII and not '!' -/
def okByte (b : UInt8) : Bool := b.toNat != 33 && b.toNat < 128

/-- ASCII lower-casing of one byte -/
def lowerAscii (b : UInt8) : UInt8 :=
  if 65 ≤ b.toNat ∧ b.toNat ≤ 90 then UInt8.ofNat (b.toNat + 32) else b

/-- ASCII lower-casing of a byte string; on ASCII strings `lower e = lower f` is strings.EqualFold e f -/
def lower (s : Bytes) : Bytes := s.map lowerAscii

theorem ofNat_toNat (b : UInt8) : UInt8.ofNat b.toNat = b := by simp

theorem toNat_ofNat_lt (n : Nat) (h : n < 256) : (UInt8.ofNat n).toNat = n := by
  simp [UInt8.toNat_ofNat']; omega

theorem eq_of_toNat_eq {a b : UInt8} (h : a.toNat = b.toNat) : a = b := UInt8.toNat_inj.mp h

/-! ### escapeString at byte level -/

theorem escapeRunes_no_upper (s : Bytes) (h : ∀ b ∈ s, ¬ (65 ≤ b.toNat ∧ b.toNat ≤ 90)) :
    escapeRunes (s.map (·.toNat)) = s := by
  induction s with
  | nil => rfl
  | cons b s ih =>
    have hb := h b (by simp)
    have : ¬ (65 ≤ b.toNat ∧ b.toNat ≤ 90) := hb
    simp only [List.map_cons, escapeRunes]
    rw [if_neg (by simpa using this), ih (fun c hc => h c (by simp [hc]))]
    simp

theorem escapeString_eq (s : Bytes) :
    escapeString s = if s.all okByte then some (escapeRunes (s.map (·.toNat))) else none := by
  unfold escapeString
  have hany : (Utf8.runes s).any (fun r => r == 33 || decide (r ≥ 128)) = s.any (fun b => !okByte b) := by
    rw [Utf8.runes_any_of_nonascii_pred _ (by intro r hr; simp; omega)]
    congr 1; funext b
    unfold okByte
    rw [bne]
    cases h1 : (b.toNat == 33) <;> cases h2 : decide (b.toNat < 128) <;> simp_all <;> omega
  by_cases hall : s.all okByte = true
  · have hnone : s.any (fun b => !okByte b) = false := by
      rw [List.any_eq_false]; intro b hb; simpa using (List.all_eq_true.mp hall b hb)
    have hasc : ∀ b ∈ s, b.toNat < 128 := by
      intro b hb; have := List.all_eq_true.mp hall b hb; simp [okByte] at this; exact this.2
    simp only [hany, hnone, hall, if_true]
    rw [Utf8.runes_ascii s hasc]
    by_cases hup : (s.map (·.toNat)).any (fun r => decide (65 ≤ r) && decide (r ≤ 90)) = true
    · simp [hup]
    · simp only [hup]
      have : ∀ b ∈ s, ¬ (65 ≤ b.toNat ∧ b.toNat ≤ 90) := by
        intro b hb hc
        apply hup
        rw [List.any_eq_true]
        exact ⟨b.toNat, List.mem_map.mpr ⟨b, hb, rfl⟩, by simp [hc.1, hc.2]⟩
      simp [escapeRunes_no_upper s this]
  · have hsome : s.any (fun b => !okByte b) = true := by
      rw [List.any_eq_true]
      have hall' : s.all okByte = false := by simpa using hall
      obtain ⟨b, hb, hnb⟩ := List.all_eq_false.mp hall'
      exact ⟨b, hb, by simpa using hnb⟩
    simp [hany, hsome, hall]

/-! ### unescapeString at byte level -/

theorem unescapeRunes_runes (s : Bytes) (bang : Bool) :
    unescapeRunes bang (Utf8.runes s) = unescapeRunes bang (s.map (·.toNat)) := by
  induction s generalizing bang with
  | nil => rfl
  | cons b s ih =>
    by_cases h : b.toNat < 128
    · rw [Utf8.runes_cons_ascii b s h]
      simp only [List.map_cons, unescapeRunes, ih]
    · have h' : 128 ≤ b.toNat := by omega
      obtain ⟨r, rs, hr, hge⟩ := Utf8.runes_cons_nonascii b s h'
      rw [hr]
      simp [unescapeRunes, hge, h']

theorem unescapeString_eq (e : Bytes) : unescapeString e = unescapeRunes false (e.map (·.toNat)) :=
  unescapeRunes_runes e false

/-! ### the combinatorial core -/

/-- every byte of an escape is ASCII and not upper case -/
theorem escapeRunes_out (s : Bytes) (hs : ∀ b ∈ s, b.toNat < 128) :
    ∀ c ∈ escapeRunes (s.map (·.toNat)), c.toNat < 128 ∧ ¬ (65 ≤ c.toNat ∧ c.toNat ≤ 90) := by
  induction s with
  | nil => intro c hc; simp [escapeRunes] at hc
  | cons b s ih =>
    have hb := hs b (by simp)
    have ih' := ih (fun c hc => hs c (by simp [hc]))
    intro c hc
    simp only [List.map_cons, escapeRunes] at hc
    split at hc
    · rename_i hup
      simp at hup
      simp only [List.mem_cons] at hc
      rcases hc with rfl | rfl | hc
      · simp
      · rw [toNat_ofNat_lt _ (by omega)]; omega
      · exact ih' c hc
    · rename_i hup
      simp at hup
      simp only [List.mem_cons] at hc
      rcases hc with rfl | hc
      · rw [toNat_ofNat_lt _ (by omega)]; omega
      · exact ih' c hc

/-- round trip -/
theorem unescape_escapeRunes (s : Bytes) (hs : s.all okByte = true) :
    unescapeRunes false ((escapeRunes (s.map (·.toNat))).map (·.toNat)) = some s := by
  induction s with
  | nil => rfl
  | cons b s ih =>
    simp only [List.all_cons, Bool.and_eq_true] at hs
    have hb := hs.1
    simp [okByte] at hb
    have ih' := ih hs.2
    simp only [List.map_cons, escapeRunes]
    split
    · rename_i hup
      simp at hup
      have h1 : (UInt8.ofNat (b.toNat + 32)).toNat = b.toNat + 32 := toNat_ofNat_lt _ (by omega)
      simp only [List.map_cons, unescapeRunes, h1, ih']
      have e1 : (33 : UInt8).toNat = 33 := rfl
      simp only [e1]
      have : UInt8.ofNat (b.toNat + 32 - 32) = b := by simp
      simp
      omega
    · rename_i hup
      simp at hup
      have h1 : (UInt8.ofNat b.toNat).toNat = b.toNat := by simp
      simp only [List.map_cons, unescapeRunes, h1, ih']
      have : ¬ (65 ≤ b.toNat ∧ b.toNat ≤ 90) := by omega
      simp [hb.1, this]
      omega

/-- outputs of unescapeRunes are accepted by escapeString -/
theorem unescapeRunes_out (e : Bytes) : ∀ (bang : Bool) (v : Bytes),
    unescapeRunes bang (e.map (·.toNat)) = some v → v.all okByte = true := by
  induction e with
  | nil =>
    intro bang v h
    cases bang <;> simp [unescapeRunes] at h
    subst h; rfl
  | cons b e ih =>
    intro bang v h
    simp only [List.map_cons, unescapeRunes] at h
    split at h
    · simp at h
    · rename_i hlt
      split at h
      · split at h
        · simp at h
        · rename_i hr
          simp at hr
          simp only [Option.map_eq_some_iff] at h
          obtain ⟨v', hv', rfl⟩ := h
          have := ih false v' hv'
          simp only [List.all_cons, this, Bool.and_true]
          simp [okByte]
          rw [Nat.mod_eq_of_lt (by omega)]
          omega
      · split at h
        · exact ih true v h
        · split at h
          · simp at h
          · rename_i h33 hup
            simp at h33 hup hlt
            simp only [Option.map_eq_some_iff] at h
            obtain ⟨v', hv', rfl⟩ := h
            have := ih false v' hv'
            simp only [List.all_cons, this, Bool.and_true]
            simp [okByte]
            omega

/-- image: what unescapes to `v` is the escape of `v` -/
theorem escape_unescapeRunes (e : Bytes) : ∀ (bang : Bool) (v : Bytes),
    unescapeRunes bang (e.map (·.toNat)) = some v →
    escapeRunes (v.map (·.toNat)) = if bang then 33 :: e else e := by
  induction e with
  | nil =>
    intro bang v h
    cases bang <;> simp [unescapeRunes] at h
    subst h; rfl
  | cons b e ih =>
    intro bang v h
    simp only [List.map_cons, unescapeRunes] at h
    split at h
    · simp at h
    · rename_i hlt
      simp at hlt
      split at h
      · rename_i hbang
        split at h
        · simp at h
        · rename_i hr
          simp at hr
          simp only [Option.map_eq_some_iff] at h
          obtain ⟨v', hv', rfl⟩ := h
          have := ih false v' hv'
          simp only [Bool.false_eq_true, if_false] at this
          have h1 : (UInt8.ofNat (b.toNat - 32)).toNat = b.toNat - 32 := toNat_ofNat_lt _ (by omega)
          simp only [List.map_cons, escapeRunes, h1, this, hbang, if_true]
          have h2 : (decide (65 ≤ b.toNat - 32) && decide (b.toNat - 32 ≤ 90)) = true := by
            simp; omega
          rw [if_pos h2]
          have h3 : b.toNat - 32 + 32 = b.toNat := by omega
          simp [h3]
      · rename_i hbang
        simp at hbang
        subst hbang
        split at h
        · rename_i h33
          simp at h33
          have := ih true v h
          simp only [if_true] at this
          rw [this]
          have : b = 33 := eq_of_toNat_eq (by simpa using h33)
          simp [this]
        · split at h
          · simp at h
          · rename_i h33 hup
            simp at h33 hup
            simp only [Option.map_eq_some_iff] at h
            obtain ⟨v', hv', rfl⟩ := h
            have := ih false v' hv'
            simp only [Bool.false_eq_true, if_false] at this
            have h1 : (UInt8.ofNat b.toNat).toNat = b.toNat := by simp
            simp only [List.map_cons, escapeRunes, h1, this]
            have h2 : ¬ ((decide (65 ≤ b.toNat) && decide (b.toNat ≤ 90)) = true) := by
              simp; omega
            rw [if_neg h2]
            simp

/-! ### case-insensitive injectivity -/

theorem escapeRunes_cons (b : UInt8) (s : Bytes) :
    escapeRunes ((b :: s).map (·.toNat)) =
      if 65 ≤ b.toNat ∧ b.toNat ≤ 90 then 33 :: UInt8.ofNat (b.toNat + 32) :: escapeRunes (s.map (·.toNat))
      else b :: escapeRunes (s.map (·.toNat)) := by
  simp only [List.map_cons, escapeRunes]
  by_cases h : 65 ≤ b.toNat ∧ b.toNat ≤ 90
  · simp [h]
  · rw [if_neg h, if_neg (by simpa using h)]; simp

theorem lowerAscii_33 : lowerAscii 33 = 33 := by decide

theorem lowerAscii_of_not_upper (b : UInt8) (h : ¬ (65 ≤ b.toNat ∧ b.toNat ≤ 90)) : lowerAscii b = b := by
  simp [lowerAscii, h]

theorem lowerAscii_shift (b : UInt8) (h : 65 ≤ b.toNat ∧ b.toNat ≤ 90) :
    lowerAscii (UInt8.ofNat (b.toNat + 32)) = UInt8.ofNat (b.toNat + 32) := by
  apply lowerAscii_of_not_upper
  rw [toNat_ofNat_lt _ (by omega)]; omega

theorem escapeRunes_lower_inj (p : Bytes) : ∀ (q : Bytes), p.all okByte = true → q.all okByte = true →
    lower (escapeRunes (p.map (·.toNat))) = lower (escapeRunes (q.map (·.toNat))) → p = q := by
  induction p with
  | nil =>
    intro q _ _ h
    cases q with
    | nil => rfl
    | cons c q' =>
      rw [escapeRunes_cons] at h
      split at h <;> simp [lower, escapeRunes] at h
  | cons a p' ih =>
    intro q hp hq h
    simp only [List.all_cons, Bool.and_eq_true] at hp
    have ha := hp.1
    simp [okByte] at ha
    cases q with
    | nil =>
      rw [escapeRunes_cons] at h
      split at h <;> simp [lower, escapeRunes] at h
    | cons c q' =>
      simp only [List.all_cons, Bool.and_eq_true] at hq
      have hc := hq.1
      simp [okByte] at hc
      rw [escapeRunes_cons, escapeRunes_cons] at h
      by_cases hau : 65 ≤ a.toNat ∧ a.toNat ≤ 90 <;> by_cases hcu : 65 ≤ c.toNat ∧ c.toNat ≤ 90
      · rw [if_pos hau, if_pos hcu] at h
        simp only [lower, List.map_cons, lowerAscii_33, lowerAscii_shift a hau, lowerAscii_shift c hcu,
          List.cons.injEq, true_and] at h
        have h1 : a.toNat + 32 = c.toNat + 32 := by
          have := congrArg UInt8.toNat h.1
          rwa [toNat_ofNat_lt _ (by omega), toNat_ofNat_lt _ (by omega)] at this
        have : a = c := eq_of_toNat_eq (by omega)
        rw [this, ih q' hp.2 hq.2 h.2]
      · rw [if_pos hau, if_neg hcu] at h
        simp only [lower, List.map_cons, lowerAscii_33, lowerAscii_of_not_upper c hcu, List.cons.injEq] at h
        have := congrArg UInt8.toNat h.1
        simp at this
        omega
      · rw [if_neg hau, if_pos hcu] at h
        simp only [lower, List.map_cons, lowerAscii_33, lowerAscii_of_not_upper a hau, List.cons.injEq] at h
        have := congrArg UInt8.toNat h.1
        simp at this
        omega
      · rw [if_neg hau, if_neg hcu] at h
        simp only [lower, List.map_cons, lowerAscii_of_not_upper a hau, lowerAscii_of_not_upper c hcu,
          List.cons.injEq] at h
        rw [h.1, ih q' hp.2 hq.2 h.2]

/-! ### unfolding the four entry points -/

theorem escapePath_ok_iff (p e : Bytes) :
    escapePath p = .ok e ↔ checkModPath p = .ok () ∧ escapeString p = some e := by
  unfold escapePath
  cases h1 : checkModPath p with
  | error x => simp
  | ok u =>
    cases h2 : escapeString p with
    | none => simp
    | some e' => simp

theorem unescapePath_ok_iff (e p : Bytes) :
    unescapePath e = .ok p ↔ unescapeString e = some p ∧ checkModPath p = .ok () := by
  unfold unescapePath
  cases h1 : unescapeString e with
  | none => simp
  | some p' =>
    cases h2 : checkModPath p' with
    | error x =>
      simp only [h2]; simp; intro h; subst h; simp [h2]
    | ok u =>
      simp only [h2]; simp; intro h; subst h; exact h2

theorem escapeVersion_ok_iff (isLetter : Nat → Bool) (v e : Bytes) :
    escapeVersion isLetter v = .ok e ↔
      checkElem isLetter .file v = .ok () ∧ v.contains 33 = false ∧ escapeString v = some e := by
  unfold escapeVersion
  cases h1 : checkElem isLetter .file v with
  | error x => simp
  | ok u =>
    cases h3 : v.contains 33 with
    | true => simp
    | false =>
      cases h2 : escapeString v with
      | none => simp
      | some e' => simp

theorem unescapeVersion_ok_iff (isLetter : Nat → Bool) (e v : Bytes) :
    unescapeVersion isLetter e = .ok v ↔ unescapeString e = some v ∧ checkElem isLetter .file v = .ok () := by
  unfold unescapeVersion
  cases h1 : unescapeString e with
  | none => simp
  | some p' =>
    cases h2 : checkElem isLetter .file p' with
    | error x =>
      simp only [h2]; simp; intro h; subst h; simp [h2]
    | ok u =>
      simp only [h2]; simp; intro h; subst h; exact h2

/-- escapeString succeeded: the input is ASCII without '!' and the output is its byte-level escape -/
theorem escapeString_some (s e : Bytes) (h : escapeString s = some e) :
    s.all okByte = true ∧ e = escapeRunes (s.map (·.toNat)) := by
  rw [escapeString_eq] at h
  split at h
  · rename_i hall; simp at h; exact ⟨hall, h.symm⟩
  · simp at h

theorem okByte_ascii (s : Bytes) (h : s.all okByte = true) : ∀ b ∈ s, b.toNat < 128 := by
  intro b hb; have := List.all_eq_true.mp h b hb; simp [okByte] at this; exact this.2

theorem okByte_no_bang (s : Bytes) (h : s.all okByte = true) : s.contains 33 = false := by
  cases hc : s.contains 33 with
  | false => rfl
  | true =>
    have hm : (33 : UInt8) ∈ s := by simpa using hc
    have := List.all_eq_true.mp h 33 hm
    simp [okByte] at this

end ModVerif.Module
