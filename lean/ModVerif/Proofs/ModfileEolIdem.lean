/-
  C02, end-of-line comments, stage (v), part b: the normal form of a well-shaped tree is well-shaped and
  renders to the same bytes; hence `Format` is idempotent on well-shaped trees with end-of-line comments
  (`format_idem_ewf`).
-/
import ModVerif.Proofs.ModfileEolMain
namespace ModVerif.Proofs.ModfileEol
open ModVerif ModVerif.Modfile ModVerif.Proofs.ModfileLex
open ModVerif.Proofs.ModfileFmtLex ModVerif.Proofs.ModfileFmtLine ModVerif.Proofs.ModfileFmtStream
open ModVerif.Proofs.ModfileFmtTree ModVerif.Proofs.ModfileFmtParse ModVerif.Proofs.ModfileFmtRender
open ModVerif.Proofs.ModfileFmtMain ModVerif.Proofs.ModfileFmtTrim

/-! ### erasure does not change shape or rendering -/

theorem sufOK_erase (cs : List Comment) : SufOK (cs.map eraseC) ↔ SufOK cs := by
  simp [SufOK, eraseC]

theorem rSuf_erase (cs : List Comment) : rSuf (cs.map eraseC) = rSuf cs := by
  cases cs with
  | nil => rfl
  | cons c r => cases r <;> simp [rSuf, eraseC]

theorem ewfBlkLine_erase (allow : Bool) (l : Line) : EWFBlkLine allow (eraseLine l) → EWFBlkLine allow l := by
  intro h
  exact ⟨h.ne, h.tok, h.first, (blkBeforeOK_erase _ _).1 h.before, (sufOK_erase _).1 h.suffix,
    by simpa [eraseLine, eraseCs] using h.after, h.inBlock⟩

theorem ewfBlkLines_erase : ∀ (ls : List Line) (allow : Bool), EWFBlkLines allow (ls.map eraseLine) → EWFBlkLines allow ls := by
  intro ls
  induction ls with
  | nil => intro _ _; trivial
  | cons l ls ih => intro allow h; exact ⟨ewfBlkLine_erase _ _ h.1, ih true h.2⟩

theorem ewfStmt_erase (s : Expr) : EWFStmt (eraseExpr s) → EWFStmt s := by
  cases s with
  | commentBlock x =>
    simp only [eraseExpr, EWFStmt, eraseCs, topBeforeOK_erase]
    simp
  | line l =>
    intro h
    have h : EWFLine (eraseLine l) := h
    exact (⟨h.ne, h.tok, h.tail, (topBeforeOK_erase _).1 h.before, (sufOK_erase _).1 h.suffix,
      by simpa [eraseLine, eraseCs] using h.after, h.inBlock⟩ : EWFLine l)
  | lineBlock b =>
    intro h
    have h : EWFBlock (eraseBlock b) := h
    refine (⟨h.ne, h.tok, (topBeforeOK_erase _).1 h.before, by simpa [eraseBlock, eraseCs] using h.after,
      by simpa [eraseBlock, eraseCs] using h.lbefore, (sufOK_erase _).1 h.lsuffix,
      by simpa [eraseBlock, eraseCs] using h.lafter, ewfBlkLines_erase _ _ h.lines, ?_, ?_,
      by simpa [eraseBlock, eraseCs] using h.rafter⟩ : EWFBlock b)
    · have := h.rbefore
      simp only [eraseBlock, List.isEmpty_map] at this
      exact (blkBeforeOK_erase _ _).1 this
    · have := h.rsuffix
      simp only [eraseBlock, eraseCs, ← List.map_append] at this
      exact (sufOK_erase _).1 this
  | lparen x => simp [eraseExpr, EWFStmt]
  | rparen x => simp [eraseExpr, EWFStmt]

theorem rStmtE_erase (s : Expr) : rStmtE (eraseExpr s) = rStmtE s := by
  cases s with
  | commentBlock x => simp [eraseExpr, rStmtE, eraseCs, rBefore_erase]
  | line l => simp [eraseExpr, rStmtE, eraseLine, eraseCs, rBefore_erase, rSuf_erase]
  | lineBlock b =>
    have : (b.lines.map eraseLine).flatMap rLineE = b.lines.flatMap rLineE := by
      rw [List.flatMap_map]
      congr 1
      funext l
      simp [rLineE, eraseLine, eraseCs, rBefore_erase, rSuf_erase]
    simp only [eraseExpr, rStmtE, rBlockE, eraseBlock, eraseCs, rBefore_erase, rSuf_erase, this,
      ← List.map_append]
  | lparen x => rfl
  | rparen x => rfl

theorem rStmtsE_congr : ∀ (a b : List Expr), a.map rStmtE = b.map rStmtE → rStmtsE a = rStmtsE b := by
  intro a
  induction a with
  | nil => intro b h; cases b <;> simp_all [rStmtsE]
  | cons x xs ih =>
    intro b h
    cases b with
    | nil => simp at h
    | cons y ys =>
      simp only [List.map_cons, List.cons.injEq] at h
      have := ih ys h.2
      cases xs with
      | nil =>
        cases ys with
        | nil => simp [rStmtsE, h.1]
        | cons _ _ => simp at h
      | cons x2 xs2 =>
        cases ys with
        | nil => simp at h
        | cons y2 ys2 => simp only [rStmtsE] at this ⊢; rw [h.1, this]

/-! ### normalisation does not change rendering and keeps the shape -/

theorem rSuf_norm (cs : List Comment) : rSuf (cs.map normC) = rSuf cs := by
  cases cs with
  | nil => rfl
  | cons c r => cases r <;> simp [rSuf, normC, trimSpace_idem]

theorem rStmtE_normE (s : Expr) : rStmtE (normExprE s) = rStmtE s := by
  cases s with
  | commentBlock x => simp [normExprE, normExpr, rStmtE, normCs, rBefore_norm]
  | line l => simp [normExprE, normExpr, rStmtE, normLine, normCs, rBefore_norm, rSuf_norm]
  | lineBlock b =>
    have : (b.lines.map normLine).flatMap rLineE = b.lines.flatMap rLineE := by
      rw [List.flatMap_map]
      congr 1
      funext l
      simp [rLineE, normLine, normCs, rBefore_norm, rSuf_norm]
    simp only [normExprE, rStmtE, rBlockE, normBlockE, normCs, rBefore_norm, rSuf_norm, this, List.append_nil]
  | lparen x => rfl
  | rparen x => rfl

theorem sufOK_norm {cs : List Comment} (h : SufOK cs) : SufOK (cs.map normC) := by
  refine ⟨by simpa using h.1, ?_⟩
  intro c hc
  obtain ⟨c0, hc0, rfl⟩ := List.mem_map.1 hc
  exact ⟨normC_ok (h.2 c0 hc0).1, (h.2 c0 hc0).2⟩

theorem ewfBlkLines_norm : ∀ (ls : List Line) (allow : Bool), EWFBlkLines allow ls → EWFBlkLines allow (ls.map normLine) := by
  intro ls
  induction ls with
  | nil => intro _ _; trivial
  | cons l ls ih =>
    intro allow h
    refine ⟨?_, ih true h.2⟩
    have hl := h.1
    exact ⟨hl.ne, hl.tok, hl.first, blkBeforeOK_norm _ _ hl.before, sufOK_norm hl.suffix,
      by simp [normLine, normCs, hl.after], hl.inBlock⟩

theorem ewfStmt_normE {s : Expr} (h : EWFStmt s) : EWFStmt (normExprE s) := by
  cases s with
  | commentBlock x =>
    obtain ⟨h1, h2, h3, h4⟩ := h
    exact ⟨by simpa [normCs] using h1, topBeforeOK_norm h2, by simp [normCs, h3], by simp [normCs, h4]⟩
  | line l =>
    have h : EWFLine l := h
    exact (⟨h.ne, h.tok, h.tail, topBeforeOK_norm h.before, sufOK_norm h.suffix,
      by simp [normLine, normCs, h.after], h.inBlock⟩ : EWFLine (normLine l))
  | lineBlock b =>
    have h : EWFBlock b := h
    refine (⟨h.ne, h.tok, topBeforeOK_norm h.before, by simp [normBlockE, h.after],
      by simp [normBlockE, normCs, h.lbefore], sufOK_norm h.lsuffix, by simp [normBlockE, normCs, h.lafter],
      ewfBlkLines_norm _ _ h.lines, ?_, ?_, by simp [normBlockE, h.rafter]⟩ : EWFBlock (normBlockE b))
    · simp only [normBlockE, List.isEmpty_map]
      exact blkBeforeOK_norm _ _ h.rbefore
    · simp only [normBlockE, List.append_nil]
      exact sufOK_norm h.rsuffix
  | lparen x => exact absurd h id
  | rparen x => exact absurd h id

/-- a line of the normal form carries an end-of-line comment iff the original line does -/
theorem nlOK_normE {s : Expr} (h : NlOK s) : NlOK (normExprE s) := by
  cases s with
  | commentBlock x => trivial
  | line l =>
    intro hne
    exact h (by intro he; apply hne; simp [normLine, normCs, he])
  | lineBlock b =>
    intro l hl
    simp only [normBlockE, List.mem_map] at hl
    obtain ⟨l0, hl0, rfl⟩ := hl
    intro hne
    exact h l0 hl0 (by intro he; apply hne; simp [normLine, normCs, he])
  | lparen x => trivial
  | rparen x => trivial

theorem nlOK_erase (s : Expr) (h : NlOK (eraseExpr s)) : NlOK s := by
  cases s with
  | commentBlock x => trivial
  | line l =>
    intro hne
    exact h (by intro he; apply hne; simpa [eraseLine, eraseCs] using he)
  | lineBlock b =>
    intro l hl
    intro hne
    exact h (eraseLine l) (by simp only [eraseBlock]; exact List.mem_map_of_mem hl)
      (by intro he; apply hne; simpa [eraseLine, eraseCs] using he)
  | lparen x => trivial
  | rparen x => trivial

/-! ### the re-parsed tree -/

/-- the tree obtained by parsing the formatted text is well-shaped again (same hypotheses) -/
theorem reparse_shape (f t' : FileSyntax) (hwf : EWFStmts f.stmts) (hnl : ∀ s ∈ f.stmts, NlOK s) (name : Bytes)
    (he : eraseFile t' = { name := name, comments := {}, stmts := f.stmts.map normExprE }) :
    EWFStmts t'.stmts ∧ (∀ s ∈ t'.stmts, NlOK s) ∧ t'.comments = {} := by
  have hs : t'.stmts.map eraseExpr = f.stmts.map normExprE := by
    have := congrArg FileSyntax.stmts he
    simpa [eraseFile] using this
  have hcm : eraseCs t'.comments = {} := by
    have := congrArg FileSyntax.comments he
    simpa [eraseFile] using this
  refine ⟨?_, ?_, ?_⟩
  · intro s hs'
    apply ewfStmt_erase
    have : eraseExpr s ∈ t'.stmts.map eraseExpr := List.mem_map_of_mem hs'
    rw [hs] at this
    obtain ⟨s0, hs0, heq⟩ := List.mem_map.1 this
    rw [← heq]
    exact ewfStmt_normE (hwf s0 hs0)
  · intro s hs'
    apply nlOK_erase
    have : eraseExpr s ∈ t'.stmts.map eraseExpr := List.mem_map_of_mem hs'
    rw [hs] at this
    obtain ⟨s0, hs0, heq⟩ := List.mem_map.1 this
    rw [← heq]
    exact nlOK_normE (hnl s0 hs0)
  · cases hc : t'.comments
    rw [hc] at hcm
    simp only [eraseCs, Comments.mk.injEq, List.map_eq_nil_iff] at hcm
    obtain ⟨h1, h2, h3⟩ := hcm
    subst h1 h2 h3
    rfl

/-- ★ Formatting is idempotent on well-shaped trees with end-of-line comments: the tree obtained by parsing
    the formatted text formats to the same bytes. -/
theorem format_idem_ewf (name : Bytes) (f : FileSyntax) (hwf : EWFStmts f.stmts) (hnl : ∀ s ∈ f.stmts, NlOK s)
    (hc : f.comments.before = []) (t' : FileSyntax) (h : parse name (format f) = .ok t') : format t' = format f := by
  obtain ⟨t2, h2, he⟩ := reparse_ewf name f hwf hnl hc
  rw [h] at h2
  have : t' = t2 := by cases h2; rfl
  subst this
  obtain ⟨hwf2, _, hc2⟩ := reparse_shape f t' hwf hnl name he
  rw [format_eq_rStmtsE t' hwf2 (by rw [hc2]), format_eq_rStmtsE f hwf hc]
  apply rStmtsE_congr
  have hs : t'.stmts.map eraseExpr = f.stmts.map normExprE := by
    have := congrArg FileSyntax.stmts he
    simpa [eraseFile] using this
  have h1 : t'.stmts.map rStmtE = (t'.stmts.map eraseExpr).map rStmtE := by
    simp [List.map_map, Function.comp_def, rStmtE_erase]
  rw [h1, hs]
  simp [List.map_map, Function.comp_def, rStmtE_normE]

end ModVerif.Proofs.ModfileEol
