/-
  C02, clause 3 for the comment-derived values (`Module.Deprecated`, `Retract.Rationale`), part a:
  `TrimSpace` algebra needed by `parseDirectiveComment`.

  * `trimSpace_unique`          `trimSpace (p ++ v ++ q) = v` when `p`, `q` are concatenations of white-space
                                encodings and `v` starts (forward decode) and ends (backward decode) with a rune
                                that is not white space — for EVERY byte string (ill-formed UTF-8 included);
  * `trimSpace_append_spaceSeq` `trimSpace (x ++ e) = trimSpace x` for such an `e`;
  * `directiveText_trim`        for a `//` comment text `c`:
                                `trimSpace ((trimSpace c).drop 2) = trimSpace (c.drop 2)` — the text
                                `parseDirectiveComment` extracts from a comment does not change when the printer
                                writes the comment trimmed.

  `decodeLast_of_decode` (the backward decoder of `utf8.DecodeLastRuneInString` finds a well-formed sequence that
  ends the string) and its four helpers are copies of the lemmas of the same name in Proofs/TieFnEditTreeC.lean
  (kept here so that C02 does not depend on the Tie layer of another property).
-/
import ModVerif.Proofs.ModfileFmtTrim
namespace ModVerif.Proofs.ModfileFmtCom
open ModVerif ModVerif.GoStrings ModVerif.Proofs.ModfileLex ModVerif.Proofs.ModfileFmtUtf8
open ModVerif.Proofs.ModfileFmtLex ModVerif.Proofs.ModfileFmtTrim

/-! ### the backward decoder on a well-formed sequence -/

theorem runeStart_iff (b : UInt8) : runeStart b = true ↔ ¬ (0x80 ≤ b.toNat ∧ b.toNat ≤ 0xBF) := by
  unfold runeStart
  have := b.toNat_lt
  simp only [bne_iff_ne, ne_eq]
  omega

theorem isCont_iff (b : UInt8) : Utf8.isCont b = true ↔ (0x80 ≤ b.toNat ∧ b.toNat ≤ 0xBF) := by
  simp [Utf8.isCont]

theorem decode2 {b0 b1 : UInt8} {r : Nat} (hd : Utf8.decode [b0, b1] = some (r, 2)) :
    0xC2 ≤ b0.toNat ∧ b0.toNat < 0xE0 ∧ Utf8.isCont b1 = true := by
  have h1 : ¬ b0.toNat < 0x80 := fun h => by simp [Utf8.decode, h] at hd
  have h2 : ¬ b0.toNat < 0xC2 := fun h => by simp [Utf8.decode, h1, h] at hd
  by_cases h3 : b0.toNat < 0xE0
  · simp [Utf8.decode, h1, h2, h3] at hd
    exact ⟨by omega, h3, hd.1⟩
  · by_cases h4 : b0.toNat < 0xF0
    · simp [Utf8.decode, h1, h2, h3, h4] at hd
    · by_cases h5 : b0.toNat < 0xF5 <;> simp [Utf8.decode, h1, h2, h3, h4, h5] at hd

theorem decode3 {b0 b1 b2 : UInt8} {r : Nat} (hd : Utf8.decode [b0, b1, b2] = some (r, 3)) :
    0xE0 ≤ b0.toNat ∧ Utf8.isCont b1 = true ∧ Utf8.isCont b2 = true := by
  have h1 : ¬ b0.toNat < 0x80 := fun h => by simp [Utf8.decode, h] at hd
  have h2 : ¬ b0.toNat < 0xC2 := fun h => by simp [Utf8.decode, h1, h] at hd
  have h3 : ¬ b0.toNat < 0xE0 := fun h => by simp [Utf8.decode, h1, h2, h] at hd
  by_cases h4 : b0.toNat < 0xF0
  · simp [Utf8.decode, h1, h2, h3, h4] at hd
    refine ⟨by omega, ?_, hd.1.2⟩
    have := hd.1.1
    rw [isCont_iff]
    split at this
    · simp [Utf8.inRange] at this; omega
    · split at this <;> (simp [Utf8.inRange] at this; omega)
  · by_cases h5 : b0.toNat < 0xF5 <;> simp [Utf8.decode, h1, h2, h3, h4, h5] at hd

theorem decode4 {b0 b1 b2 b3 : UInt8} {r : Nat} (hd : Utf8.decode [b0, b1, b2, b3] = some (r, 4)) :
    0xF0 ≤ b0.toNat ∧ Utf8.isCont b1 = true ∧ Utf8.isCont b2 = true ∧ Utf8.isCont b3 = true := by
  have h1 : ¬ b0.toNat < 0x80 := fun h => by simp [Utf8.decode, h] at hd
  have h2 : ¬ b0.toNat < 0xC2 := fun h => by simp [Utf8.decode, h1, h] at hd
  have h3 : ¬ b0.toNat < 0xE0 := fun h => by simp [Utf8.decode, h1, h2, h] at hd
  have h4 : ¬ b0.toNat < 0xF0 := fun h => by simp [Utf8.decode, h1, h2, h3, h] at hd
  by_cases h5 : b0.toNat < 0xF5
  · simp [Utf8.decode, h1, h2, h3, h4, h5] at hd
    refine ⟨by omega, ?_, hd.1.1.2, hd.1.2⟩
    have := hd.1.1.1
    rw [isCont_iff]
    split at this
    · simp [Utf8.inRange] at this; omega
    · split at this <;> (simp [Utf8.inRange] at this; omega)
  · simp [Utf8.decode, h1, h2, h3, h4, h5] at hd

theorem decode_le4 {s : Bytes} {r w : Nat} (hd : Utf8.decode s = some (r, w)) : w ≤ 4 := by
  cases s with
  | nil => simp [Utf8.decode] at hd
  | cons b0 rest =>
    by_cases h1 : b0.toNat < 0x80
    · simp [Utf8.decode, h1] at hd; omega
    by_cases h2 : b0.toNat < 0xC2
    · simp [Utf8.decode, h1, h2] at hd
    by_cases h3 : b0.toNat < 0xE0
    · rcases rest with _ | ⟨b1, t⟩ <;> simp [Utf8.decode, h1, h2, h3] at hd
      omega
    by_cases h4 : b0.toNat < 0xF0
    · rcases rest with _ | ⟨b1, _ | ⟨b2, t⟩⟩ <;> simp [Utf8.decode, h1, h2, h3, h4] at hd
      omega
    by_cases h5 : b0.toNat < 0xF5
    · rcases rest with _ | ⟨b1, _ | ⟨b2, _ | ⟨b3, t⟩⟩⟩ <;> simp [Utf8.decode, h1, h2, h3, h4, h5] at hd
      omega
    · simp [Utf8.decode, h1, h2, h3, h4, h5] at hd

/-- the backward decoder finds a well-formed sequence that ends the string -/
theorem decodeLast_of_decode {seg : Bytes} {r : Nat} (hd : Utf8.decode seg = some (r, seg.length)) (rest : Bytes) :
    decodeLastRuneRev (seg.reverse ++ rest) = (r, seg.length) := by
  rcases seg with _ | ⟨b0, _ | ⟨b1, _ | ⟨b2, _ | ⟨b3, _ | ⟨b4, t⟩⟩⟩⟩⟩
  · simp [Utf8.decode] at hd
  · by_cases h0 : b0.toNat < 0x80
    · simp [Utf8.decode, h0] at hd
      subst hd
      simp [decodeLastRuneRev, h0]
    · by_cases h2 : b0.toNat < 0xC2
      · simp [Utf8.decode, h0, h2] at hd
      · by_cases h3 : b0.toNat < 0xE0
        · simp [Utf8.decode, h0, h2, h3] at hd
        · by_cases h4 : b0.toNat < 0xF0
          · simp [Utf8.decode, h0, h2, h3, h4] at hd
          · by_cases h5 : b0.toNat < 0xF5 <;> simp [Utf8.decode, h0, h2, h3, h4, h5] at hd
  · obtain ⟨h1, h2, h3⟩ := decode2 hd
    have hc := (isCont_iff b1).1 h3
    have hn : ¬ b1.toNat < 128 := by omega
    have hs : runeStart b0 = true := (runeStart_iff b0).2 (by omega)
    have hdr : Utf8.decodeRune [b0, b1] = (r, 2) := by unfold Utf8.decodeRune; rw [hd]; rfl
    rcases rest with _ | ⟨x, _ | ⟨y, t⟩⟩ <;> simp [decodeLastRuneRev, hn, hs, hdr]
  · obtain ⟨h1, h2, h3⟩ := decode3 hd
    have hc1 := (isCont_iff b1).1 h2
    have hc2 := (isCont_iff b2).1 h3
    have hn : ¬ b2.toNat < 128 := by omega
    have hs1 : runeStart b1 = false := by
      cases h : runeStart b1 with
      | false => rfl
      | true => exact absurd hc1 ((runeStart_iff b1).1 h)
    have hs : runeStart b0 = true := (runeStart_iff b0).2 (by omega)
    have hdr : Utf8.decodeRune [b0, b1, b2] = (r, 3) := by unfold Utf8.decodeRune; rw [hd]; rfl
    rcases rest with _ | ⟨x, t⟩ <;> simp [decodeLastRuneRev, hn, hs, hs1, hdr]
  · obtain ⟨h1, h2, h3, h4⟩ := decode4 hd
    have hc1 := (isCont_iff b1).1 h2
    have hc2 := (isCont_iff b2).1 h3
    have hc3 := (isCont_iff b3).1 h4
    have hn : ¬ b3.toNat < 128 := by omega
    have hs1 : runeStart b1 = false := by
      cases h : runeStart b1 with
      | false => rfl
      | true => exact absurd hc1 ((runeStart_iff b1).1 h)
    have hs2 : runeStart b2 = false := by
      cases h : runeStart b2 with
      | false => rfl
      | true => exact absurd hc2 ((runeStart_iff b2).1 h)
    have hs : runeStart b0 = true := (runeStart_iff b0).2 (by omega)
    have hdr : Utf8.decodeRune [b0, b1, b2, b3] = (r, 4) := by unfold Utf8.decodeRune; rw [hd]; rfl
    simp [decodeLastRuneRev, hn, hs, hs1, hs2, hdr]
  · have := decode_le4 hd
    simp at this

/-! ### the right side: a trailing run of white-space encodings is removed, and nothing else -/

/-- a non-empty `SpaceSeq` ends with a well-formed white-space encoding, and what precedes it is a `SpaceSeq` -/
theorem spaceSeq_snoc {d : Bytes} (h : SpaceSeq d) (hne : d ≠ []) :
    ∃ d' seg r, d = d' ++ seg ∧ SpaceSeq d' ∧ seg ≠ [] ∧ Utf8.decode seg = some (r, seg.length) ∧
      UnicodePrint.isSpace r = true := by
  induction h with
  | nil => exact absurd rfl hne
  | cons seg t r hd hs ht ih =>
    by_cases htn : t = []
    · subst htn
      refine ⟨[], seg, r, by simp, SpaceSeq.nil, ?_, hd, hs⟩
      intro h0; subst h0; simp [Utf8.decode] at hd
    · obtain ⟨t', seg', r', he, ht', hne', hd', hs'⟩ := ih htn
      exact ⟨seg ++ t', seg', r', by rw [he, List.append_assoc], SpaceSeq.cons seg t' r hd hs ht', hne', hd', hs'⟩

/-- the backward scan of `TrimRightFunc` walks over a trailing `SpaceSeq` and stops at the rune before it -/
theorem scan_over_spaceSeq (rev : Bytes) (hne : rev ≠ [])
    (hs : UnicodePrint.isSpace (decodeLastRuneRev rev).1 = false) :
    ∀ (n : Nat) (q : Bytes), q.length ≤ n → SpaceSeq q → ∀ (fuel : Nat) (tail : Bytes), q.length < fuel →
      trimRightScan fuel (q.reverse ++ rev) tail =
        some (rev.drop (decodeLastRuneRev rev).2, (rev.take (decodeLastRuneRev rev).2).reverse ++ (q ++ tail)) := by
  intro n
  induction n with
  | zero =>
    intro q hl _ fuel tail hf
    have : q = [] := List.eq_nil_of_length_eq_zero (by omega)
    subst this
    obtain ⟨f, rfl⟩ : ∃ f, fuel = f + 1 := ⟨fuel - 1, by simp at hf; omega⟩
    simpa using scan_stop f rev tail hne hs
  | succ n ih =>
    intro q hl hq fuel tail hf
    by_cases hq0 : q = []
    · subst hq0
      obtain ⟨f, rfl⟩ : ∃ f, fuel = f + 1 := ⟨fuel - 1, by simp at hf; omega⟩
      simpa using scan_stop f rev tail hne hs
    · obtain ⟨d', seg, r, he, hd', hsne, hdec, hsp⟩ := spaceSeq_snoc hq hq0
      subst he
      have hsl : 1 ≤ seg.length := by
        cases seg with
        | nil => exact absurd rfl hsne
        | cons _ _ => simp
      simp only [List.length_append] at hl hf
      obtain ⟨f, rfl⟩ : ∃ f, fuel = f + 1 := ⟨fuel - 1, by omega⟩
      have hrev : (d' ++ seg).reverse ++ rev = seg.reverse ++ (d'.reverse ++ rev) := by
        rw [List.reverse_append, List.append_assoc]
      rw [hrev]
      have hdl := decodeLast_of_decode hdec (d'.reverse ++ rev)
      cases hcs : seg.reverse ++ (d'.reverse ++ rev) with
      | nil =>
        have : (seg.reverse ++ (d'.reverse ++ rev)).length = 0 := by rw [hcs]; rfl
        simp only [List.length_append, List.length_reverse] at this
        omega
      | cons b0 rest0 =>
        unfold trimRightScan
        simp only
        rw [← hcs, hdl]
        simp only [hsp, if_true]
        have htake : (seg.reverse ++ (d'.reverse ++ rev)).take seg.length = seg.reverse := by
          rw [← List.length_reverse]; exact List.take_left
        have hdrop : (seg.reverse ++ (d'.reverse ++ rev)).drop seg.length = d'.reverse ++ rev := by
          rw [← List.length_reverse]; exact List.drop_left
        rw [htake, hdrop, List.reverse_reverse]
        rw [ih d' (by omega) hd' f (seg ++ tail) (by omega)]
        simp [List.append_assoc]

/-- `TrimRightFunc(s, IsSpace)` removes a trailing concatenation of white-space encodings after a string that
    ends (backward decode) with a rune that is not white space, and nothing else -/
theorem trimRightSpace_append_spaceSeq (v q : Bytes) (hne : v ≠ [])
    (hl : UnicodePrint.isSpace (decodeLastRuneRev v.reverse).1 = false) (hq : SpaceSeq q) :
    trimRightSpace (v ++ q) = v := by
  have hne' : v.reverse ≠ [] := by simpa using hne
  have hscan := scan_over_spaceSeq v.reverse hne' hl q.length q (Nat.le_refl _) hq ((v ++ q).length + 1) []
    (by simp only [List.length_append]; omega)
  rw [← List.reverse_append, List.append_nil] at hscan
  have := trimRight_of_scan (v ++ q) v.reverse q hne' hq.noContStart hscan
  simpa using this

/-! ### the left side -/

theorem trimLeftAux_spaceSeq_append {p : Bytes} (hp : SpaceSeq p) (w : Bytes)
    (hw : w = [] ∨ UnicodePrint.isSpace (Utf8.decodeRune w).1 = false) :
    ∀ fuel, (p ++ w).length ≤ fuel → trimLeftSpaceAux fuel (p ++ w) = w := by
  induction hp with
  | nil =>
    intro fuel _
    simp only [List.nil_append]
    cases fuel with
    | zero => rfl
    | succ f =>
      cases w with
      | nil => rfl
      | cons b t =>
        rcases hw with h | h
        · cases h
        · unfold trimLeftSpaceAux
          simp only
          rw [if_neg (by simp [h])]
  | cons seg t r hd hs _ ih =>
    intro fuel hl
    have hw1 := (decode_width hd).1
    have hdec := decode_take hd (t ++ w)
    rw [List.take_length] at hdec
    have hdr : Utf8.decodeRune (seg ++ (t ++ w)) = (r, seg.length) := by
      unfold Utf8.decodeRune; rw [hdec]
    simp only [List.length_append] at hl
    cases fuel with
    | zero => omega
    | succ fuel =>
      rw [List.append_assoc]
      cases hst : seg ++ (t ++ w) with
      | nil =>
        have : (seg ++ (t ++ w)).length = 0 := by rw [hst]; rfl
        simp only [List.length_append] at this; omega
      | cons b u =>
        unfold trimLeftSpaceAux
        simp only
        rw [← hst, hdr]
        simp only [hs, if_true]
        rw [List.drop_left]
        exact ih fuel (by simp only [List.length_append]; omega)

/-- `TrimLeftFunc(s, IsSpace)` removes a leading concatenation of white-space encodings in front of a string that
    is empty or starts with a rune that is not white space, and nothing else -/
theorem trimLeftSpace_spaceSeq_append (p w : Bytes) (hp : SpaceSeq p)
    (hw : w = [] ∨ UnicodePrint.isSpace (Utf8.decodeRune w).1 = false) : trimLeftSpace (p ++ w) = w :=
  trimLeftAux_spaceSeq_append hp w hw _ (Nat.le_refl _)

/-! ### uniqueness of the trimmed core -/

/-- ★ `TrimSpace` is determined by the decomposition: white-space encodings, a core that starts and ends with a rune
    that is not white space, white-space encodings — for every byte string -/
theorem trimSpace_unique (p v q : Bytes) (hp : SpaceSeq p) (hq : SpaceSeq q) (hne : v ≠ [])
    (hf : UnicodePrint.isSpace (Utf8.decodeRune v).1 = false)
    (hl : UnicodePrint.isSpace (decodeLastRuneRev v.reverse).1 = false) : trimSpace (p ++ v ++ q) = v := by
  unfold trimSpace
  rw [List.append_assoc, trimLeftSpace_spaceSeq_append p (v ++ q) hp
    (Or.inr (by rw [decodeRune_append_ncs v q hne hq.noContStart]; exact hf))]
  exact trimRightSpace_append_spaceSeq v q hne hl hq

example : trimSpace ([32, 0xC2, 0xA0] ++ [120, 0x80] ++ [9, 0xE3, 0x80, 0x80]) = [120, 0x80] := by decide

/-- ★ appending white-space encodings does not change the result of `TrimSpace` -/
theorem trimSpace_append_spaceSeq (x e : Bytes) (he : SpaceSeq e) : trimSpace (x ++ e) = trimSpace x := by
  by_cases h0 : trimSpace x = []
  · rw [h0]
    exact trimSpace_spaceSeq (((trimSpace_eq_nil_iff x).1 h0).append he)
  · obtain ⟨p, e', heq, hp, he'⟩ := trimSpace_infix x
    have := trimSpace_unique p (trimSpace x) (e' ++ e) hp (he'.append he) h0 (trimSpace_first_rune x h0)
      (trimSpace_last_rune x h0)
    rw [← List.append_assoc, ← heq] at this
    exact this

/-! ### the text of a directive comment -/

/-- ★ what `parseDirectiveComment` extracts from a `//` comment — `TrimSpace(TrimPrefix(c, "//"))` — is the same
    for the comment text and for the trimmed text the printer writes -/
theorem directiveText_trim {c : Bytes} (h : CommentOK c) :
    trimSpace ((trimSpace c).drop 2) = trimSpace (c.drop 2) := by
  obtain ⟨e, heq, he, hok⟩ := trimSpace_comment_strong h
  obtain ⟨u, hu⟩ := commentOK_cons hok
  have hc : c.drop 2 = u ++ e := by
    rw [heq, hu]; rfl
  rw [hc, hu]
  exact (trimSpace_append_spaceSeq u e he).symm

example : CommentOK [47, 47, 32, 120, 32, 0xC2, 0xA0, 13] := ⟨by decide, by decide⟩
example : trimSpace (([47, 47, 32, 120, 32, 0xC2, 0xA0, 13] : Bytes).drop 2) = [120] := by decide

/-- a trimmed `//` text is a `//` text, a trimmed placeholder is a placeholder -/
theorem slashes_trim {c : Bytes} (h : CommentOK c) : isPrefixOfB [47, 47] (trimSpace c) = true :=
  (trimSpace_comment_strong h).choose_spec.2.2.1

end ModVerif.Proofs.ModfileFmtCom
