/-
  Tie proofs, sumdb/client.go (merge unit): `Client.mergeLatestMem` of the regenerated client against the hand model.
  The `for` loop of the Go function goes around only when another goroutine replaced `c.latest` during `checkTrees`; in the
  regenerated (sequential) client `c.latest == latest` always holds after `checkTrees` (`FrameG.latest`), so the loop body
  runs once, as in the model.
-/
import ModVerif.Proofs.TieFnClientMergeCheck
import ModVerif.Proofs.TieFnClientMergeOpen
namespace ModVerif.TieFnClientMerge
open ModVerif ModVerif.GoRt ModVerif.Client ModVerif.Generated.SumdbClient ModVerif.TieFnClientRep

/-- `msgPast`, `msgNow`, `msgFuture` -/
def whenCode : When → Int
  | .past => 1
  | .now => 2
  | .future => 3

/-- the `when` result of the generated code against the model's -/
def RepWhen (i : Int) (wh : When) : Prop := i = whenCode wh

section
variable {σ H : Type} [DecidableEq H] [Inhabited H] {P : Params H} {E : Env σ}

/-- the part of the model's `mergeLatestMem` after `note.Open` / `ParseTree` -/
def memTail (P : Params H) (E : Env σ) (w : World σ H) (tree : Head H) (msg : Bytes) : Except Client.Err When × World σ H :=
  if tree.n ≤ w.c.latest.n then
    match (checkTrees P E w tree msg w.c.latest w.c.latestMsg).1 with
    | .error e => (.error e, (checkTrees P E w tree msg w.c.latest w.c.latestMsg).2)
    | .ok () => (.ok (if tree.n < w.c.latest.n then .past else .now), (checkTrees P E w tree msg w.c.latest w.c.latestMsg).2)
  else
    match (checkTrees P E w w.c.latest w.c.latestMsg tree msg).1 with
    | .error e => (.error e, (checkTrees P E w w.c.latest w.c.latestMsg tree msg).2)
    | .ok () => (.ok .future,
        { (checkTrees P E w w.c.latest w.c.latestMsg tree msg).2 with
          c := { (checkTrees P E w w.c.latest w.c.latestMsg tree msg).2.c with latest := tree, latestMsg := msg } })

omit [Inhabited H] in
theorem mergeLatestMem_tail (w : World σ H) (msg : Bytes) (tree : Head H) (hne : msg.isEmpty = false)
    (ho : openTree P w.c.verifiers msg = .ok tree) : mergeLatestMem P E w msg = memTail P E w tree msg := by
  unfold mergeLatestMem memTail
  simp only [hne, Bool.false_eq_true, if_false, ho]
  split
  · cases (checkTrees P E w tree msg w.c.latest w.c.latestMsg).1 with
    | error e => rfl
    | ok u => cases u; rfl
  · cases (checkTrees P E w w.c.latest w.c.latestMsg tree msg).1 with
    | error e => rfl
    | ok u => cases u; rfl

omit [DecidableEq H] [Inhabited H] in
/-- `c.latest = tree; c.latestMsg = msg` on both sides -/
theorem RepRun.setLatest {w : World σ H} {cw : GW σ H} (h : RepRun P E w cw) (tree : Head H) (msg : Bytes) :
    RepRun P E { w with c := { w.c with latest := tree, latestMsg := msg } }
      { cw with latest := headG tree, latestMsg := msg } :=
  { s := h.s, name := h.name, verifiers := h.verifiers, vlen := h.vlen, nosumdb := h.nosumdb, record := h.record,
    tileCache := h.tileCache, latestN := rfl, latestMsg := rfl, tileSaved := h.tileSaved, tileHeight := h.tileHeight,
    latestHash := rfl }

/-- one round of the loop of `mergeLatestMem` (it never goes around) -/
theorem mergeLatestMem_loop1_eq (S : TileSpecs P E) (w : World σ H) (cw : GW σ H) (tree : Head H) (msg : Bytes) (f : Nat)
    (hr : RepRun P E w cw)
    (hok : if tree.n ≤ w.c.latest.n then CheckTreesOk P E w tree w.c.latest else CheckTreesOk P E w w.c.latest tree)
    (hf : (if tree.n ≤ w.c.latest.n then checkTreesFuel S w tree w.c.latest else checkTreesFuel S w w.c.latest tree) ≤ f) :
    ∃ r' cw', Client_mergeLatestMem_loop1 (envOf P E) msg (headG tree) (f + 1) cw (headG w.c.latest) w.c.latestMsg =
        .ok (Ctl.ret (r', cw')) ∧
      RepRun P E (memTail P E w tree msg).2 cw' ∧ RepResR RepWhen r' (memTail P E w tree msg).1 ∧
      FrameI cw cw' ∧ FrameJ w (memTail P E w tree msg).2 := by
  rw [Client_mergeLatestMem_loop1]
  have hN1 : (headG tree).N = (tree.n : Int) := rfl
  have hN2 : (headG w.c.latest).N = (w.c.latest.n : Int) := rfl
  simp only [hN1, hN2]
  unfold memTail
  by_cases hle : tree.n ≤ w.c.latest.n
  · have hd : decide ((tree.n : Int) ≤ (w.c.latest.n : Int)) = true := by simp; omega
    simp only [hle, if_true] at hok hf ⊢
    simp only [hd, if_true]
    obtain ⟨r1, cw1, e1, rr1, rs1, fg1, fm1⟩ := checkTrees_eq S w cw tree w.c.latest msg w.c.latestMsg f hr hok hf
    rw [e1]
    simp only [bind, Except.bind]
    cases hc : (checkTrees P E w tree msg w.c.latest w.c.latestMsg).1 with
    | error e =>
      rw [hc] at rs1
      simp only [RepErr_not_isNone rs1, if_true, pure, Except.pure]
      exact ⟨_, _, rfl, rr1, rs1, FrameG.toI fg1, FrameM.toJ fm1⟩
    | ok u =>
      cases u
      rw [hc] at rs1
      have : r1 = none := rs1
      subst this
      simp only [Option.isNone_none, Bool.not_true, Bool.false_eq_true, if_false]
      by_cases hlt : tree.n < w.c.latest.n
      · have hd2 : decide ((tree.n : Int) < (w.c.latest.n : Int)) = true := by simp; omega
        simp only [hd2, hlt, if_true, pure, Except.pure]
        exact ⟨_, _, rfl, rr1, ⟨rfl, rfl⟩, FrameG.toI fg1, FrameM.toJ fm1⟩
      · have hd2 : decide ((tree.n : Int) < (w.c.latest.n : Int)) = false := by simp; omega
        simp only [hd2, hlt, if_false, Bool.false_eq_true, pure, Except.pure]
        exact ⟨_, _, rfl, rr1, ⟨rfl, rfl⟩, FrameG.toI fg1, FrameM.toJ fm1⟩
  · have hd : decide ((tree.n : Int) ≤ (w.c.latest.n : Int)) = false := by simp; omega
    simp only [hle, if_false] at hok hf ⊢
    simp only [hd, Bool.false_eq_true, if_false]
    obtain ⟨r1, cw1, e1, rr1, rs1, fg1, fm1⟩ := checkTrees_eq S w cw w.c.latest tree w.c.latestMsg msg f hr hok hf
    rw [e1]
    simp only [bind, Except.bind]
    cases hc : (checkTrees P E w w.c.latest w.c.latestMsg tree msg).1 with
    | error e =>
      rw [hc] at rs1
      simp only [RepErr_not_isNone rs1, if_true, pure, Except.pure]
      exact ⟨_, _, rfl, rr1, rs1, FrameG.toI fg1, FrameM.toJ fm1⟩
    | ok u =>
      cases u
      rw [hc] at rs1
      have : r1 = none := rs1
      subst this
      simp only [Option.isNone_none, Bool.not_true, Bool.false_eq_true, if_false]
      have hl : cw1.latest = headG w.c.latest := by rw [fg1.latest]; exact hr.latest_eq
      have hd3 : decide (cw1.latest = headG w.c.latest) = true := decide_eq_true hl
      simp only [hd3, if_true, pure, Except.pure]
      refine ⟨_, _, rfl, RepRun.setLatest rr1 tree msg, ⟨rfl, rfl⟩, ?_, ?_⟩
      · exact ⟨fg1.didLookup, fg1.initDone, fg1.initErr, fg1.name, fg1.verifiers, fg1.tileHeight, fg1.nosumdb, fg1.record⟩
      · exact ⟨fm1.inited, fm1.name, fm1.verifiers, fm1.record⟩

theorem memFuel_open (S : TileSpecs P E) (w : World σ H) (msg : Bytes) : msg.length + 1 ≤ memFuel S w msg := by
  unfold memFuel
  split
  · exact Nat.le_refl _
  · exact Nat.le_max_left _ _

/-- ★ `mergeLatestMem` -/
theorem mergeLatestMem_eq (S : TileSpecs P E) (w : World σ H) (cw : GW σ H) (msg : Bytes) (fuel : Nat)
    (hr : RepRun P E w cw) (hok : MergeMemOk P E w msg) (hf : memFuel S w msg ≤ fuel) :
    ∃ r' cw', Client_mergeLatestMem (envOf P E) fuel msg cw = .ok (r', cw') ∧
      RepRun P E (mergeLatestMem P E w msg).2 cw' ∧ RepResR RepWhen r' (mergeLatestMem P E w msg).1 ∧
      FrameI cw cw' ∧ FrameJ w (mergeLatestMem P E w msg).2 := by
  unfold Client_mergeLatestMem
  cases msg with
  | nil =>
    have hm : mergeLatestMem P E w [] = (.ok (if w.c.latest.n == 0 then .now else .past), w) := by
      simp [mergeLatestMem]
    rw [hm]
    have hN : cw.latest.N = (w.c.latest.n : Int) := hr.latestN
    simp only [len_nil, decide_true, if_true, hN]
    by_cases hz : w.c.latest.n = 0
    · simp only [hz, Int.natCast_zero, decide_true, if_true, pure, Except.pure, beq_self_eq_true]
      exact ⟨_, _, rfl, hr, ⟨rfl, rfl⟩, FrameI.refl _, FrameJ.refl _⟩
    · have hd : decide ((w.c.latest.n : Int) = 0) = false := by simp; omega
      have hb : (w.c.latest.n == 0) = false := by simpa using hz
      simp only [hd, hb, Bool.false_eq_true, if_false, pure, Except.pure]
      exact ⟨_, _, rfl, hr, ⟨rfl, rfl⟩, FrameI.refl _, FrameJ.refl _⟩
  | cons c rest =>
    have hne : (c :: rest).isEmpty = false := rfl
    have hd : decide (len (c :: rest) = 0) = false := by
      have := len_nonneg rest
      simp only [len_cons, decide_eq_false_iff_not]; omega
    simp only [hd, Bool.false_eq_true, if_false]
    have hfo := Nat.le_trans (memFuel_open S w (c :: rest)) hf
    rw [hr.verifiers, noteOpenX_eq P E w.c.verifiers hr.vlen (c :: rest) fuel hfo]
    simp only [bind, Except.bind]
    cases hO : Note.Open (c :: rest) (Note.VerifierList w.c.verifiers) with
    | error e =>
      have hm : mergeLatestMem P E w (c :: rest) = (.error .note, w) := by
        simp [mergeLatestMem, openTree, hO]
      rw [hm]
      simp only [TieFnNote.embedOpen, embedErr_isNone, Bool.not_false, if_true, pure, Except.pure]
      exact ⟨_, _, rfl, hr, repErr_note _, FrameI.refl _, FrameJ.refl _⟩
    | ok nt =>
      simp only [TieFnNote.embedOpen, Option.isNone_none, Bool.not_true, Bool.false_eq_true, if_false]
      have hT : (TieFnNote.embedNote nt).Text = nt.text := rfl
      rw [hT, parseTreeX_eq P E nt.text]
      cases hp : TlogNote.parseTree nt.text with
      | none =>
        have hm : mergeLatestMem P E w (c :: rest) = (.error .note, w) := by
          simp [mergeLatestMem, openTree, hO, hp]
        rw [hm]
        simp only [Option.isNone_some, Bool.not_false, if_true, pure, Except.pure]
        exact ⟨_, _, rfl, hr, repErr_tree _, FrameI.refl _, FrameJ.refl _⟩
      | some t =>
        obtain ⟨tree, htr⟩ : ∃ tree : Head H, tree = ⟨t.n.toNat, P.dec t.hash⟩ := ⟨_, rfl⟩
        have ho : openTree P w.c.verifiers (c :: rest) = .ok tree := by
          simp [openTree, hO, hp, htr]
        rw [mergeLatestMem_tail w (c :: rest) _ hne ho]
        have hok' := hok hne _ ho
        have hf' : 1 + (if tree.n ≤ w.c.latest.n then checkTreesFuel S w tree w.c.latest
            else checkTreesFuel S w w.c.latest tree) ≤ fuel := by
          have : memFuel S w (c :: rest) = max ((c :: rest).length + 1)
              (1 + (if tree.n ≤ w.c.latest.n then checkTreesFuel S w tree w.c.latest
                else checkTreesFuel S w w.c.latest tree)) := by
            unfold memFuel; rw [ho]
          rw [this] at hf
          exact Nat.le_trans (Nat.le_max_right _ _) hf
        obtain ⟨f, rfl⟩ : ∃ f, fuel = f + 1 := ⟨fuel - 1, by omega⟩
        have htree : ({ N := t.n, Hash := P.dec t.hash } : Generated.Tile.Tree H) = headG tree := by
          have := parseTree_nonneg nt.text t hp
          rw [htr]
          simp only [headG]
          congr 1
          omega
        simp only [Option.isNone_none, Bool.not_true, Bool.false_eq_true, if_false]
        rw [htree, hr.latest_eq, hr.latestMsg]
        obtain ⟨r', cw', e, rr, rs, fi, fj⟩ :=
          mergeLatestMem_loop1_eq S w cw tree (c :: rest) f hr hok' (by omega)
        rw [e]
        exact ⟨_, _, rfl, rr, rs, fi, fj⟩

end
end ModVerif.TieFnClientMerge
