/-
  Helper lemmas for C07 `sign_open_roundtrip`: the message Sign produces and how Open reads it back.
-/
import ModVerif.Model.Note
import ModVerif.Spec.NoteSpec
import ModVerif.Proofs.Note
import ModVerif.Proofs.NoteBytes
namespace ModVerif.Note
open ModVerif ModVerif.B64

/-- a signature as `Sign` writes it: valid name, payload = base64(hash ‖ x) with x non-empty -/
def GoodSig (g : Signature) (x : Bytes) : Prop :=
  isValidName g.name = true ∧ x ≠ [] ∧ g.base64 = b64enc (putU32 g.hash ++ x)

theorem sigLine_eq (g : Signature) : sigLine g.name g.base64 = lineOf g ++ [10] := by
  simp [sigLine, lineOf]

theorem b64_no (c : UInt8) {raw : Bytes} (h : c ∈ b64enc raw) : c ≠ 10 ∧ c ≠ 32 := by
  have := b64enc_chars raw c h
  constructor <;> (intro e; subst e; simp at this)

theorem lineOf_no_nl {g : Signature} {x : Bytes} (h : GoodSig g x) : (10 : UInt8) ∉ lineOf g := by
  obtain ⟨hn, _, hb⟩ := h
  obtain ⟨_, _, h10, _⟩ := isValidName_spec hn
  simp only [lineOf, sigPrefix, List.mem_append, List.mem_cons, List.not_mem_nil, or_false, not_or]
  refine ⟨⟨⟨by decide, h10⟩, by decide⟩, ?_⟩
  rw [hb]; intro hm; exact (b64_no 10 hm).1 rfl

theorem lineOf_ne_nil (g : Signature) : lineOf g ≠ [] := by simp [lineOf, sigPrefix]

theorem indexOf_single {c : UInt8} : ∀ (a b : Bytes), c ∉ a → indexOf [c] (a ++ c :: b) = some a.length
  | [], b, _ => by simp [indexOf, isPrefixOfB]
  | d :: a, b, h => by
    simp only [List.mem_cons, not_or] at h
    have hne : (c == d) = false := by simpa using h.1
    simp only [List.cons_append, indexOf, isPrefixOfB, hne, Bool.false_and, Bool.false_eq_true, ↓reduceIte,
      indexOf_single a b h.2, Option.map_some, List.length_cons]

theorem chop_single {c : UInt8} (a b : Bytes) (h : c ∉ a) : chop (a ++ c :: b) [c] = (a, b) := by
  unfold chop
  rw [indexOf_single a b h]
  simp

/-- Open's line parser reads back what Sign wrote -/
theorem parseSigLine_lineOf {g : Signature} {x : Bytes} (h : GoodSig g x) :
    parseSigLine (lineOf g) = some ⟨g.name, g.base64, g.hash, x, g.name ++ [32] ++ g.base64⟩ := by
  obtain ⟨hn, hx, hb⟩ := h
  obtain ⟨_, _, _, h32⟩ := isValidName_spec hn
  have hpre : isPrefixOfB sigPrefix (lineOf g) = true :=
    isPrefixOfB_iff.mpr ⟨g.name ++ [32] ++ g.base64, by simp [lineOf]⟩
  have hdrop : (lineOf g).drop sigPrefix.length = g.name ++ 32 :: g.base64 := by
    simp [lineOf, sigPrefix]
  have hdec : b64dec g.base64 = some (putU32 g.hash ++ x) := by rw [hb]; exact b64dec_b64enc _
  have hne : g.base64 ≠ [] := by rw [hb]; exact b64enc_ne_nil (by simp [putU32])
  have hlen : ¬ (putU32 g.hash ++ x).length < 5 := by
    cases x with
    | nil => exact absurd rfl hx
    | cons a x => simp [putU32]
  unfold parseSigLine
  simp only [hpre, Bool.not_true, Bool.false_eq_true, ↓reduceIte, hdrop, chop_single g.name g.base64 h32,
    hdec, hn, Bool.false_or, decide_false, hlen, be32_putU32]
  simp [putU32, hne]

theorem sigLines_line (l rest : Bytes) (h : (10 : UInt8) ∉ l) : sigLines (l ++ 10 :: rest) = l :: sigLines rest := by
  induction l with
  | nil => simp [sigLines]
  | cons c l ih =>
    simp only [List.mem_cons, not_or] at h
    have hne : (c == 10) = false := by simpa using fun e => h.1 e.symm
    simp only [List.cons_append, sigLines, hne, Bool.false_eq_true, ↓reduceIte, ih h.2]

theorem sigLines_blockOf : ∀ (gs : List Signature), (∀ g ∈ gs, ∃ x, GoodSig g x) →
    sigLines (blockOf gs) = gs.map lineOf
  | [], _ => by simp [blockOf, sigLines]
  | g :: gs, h => by
    obtain ⟨x, hg⟩ := h g List.mem_cons_self
    have ih := sigLines_blockOf gs (fun g' hg' => h g' (List.mem_cons_of_mem _ hg'))
    simp only [blockOf, List.flatMap_cons, List.append_assoc, List.singleton_append, List.map_cons] at ih ⊢
    rw [sigLines_line _ _ (lineOf_no_nl hg), ih]

theorem validMsg_lineOf {g : Signature} {x : Bytes} (h : GoodSig g x) : validMsg (lineOf g ++ [10]) = true := by
  obtain ⟨hn, _, hb⟩ := h
  obtain ⟨_, hv, _, _⟩ := isValidName_spec hn
  have hp : validMsg sigPrefix = true := by decide
  have htail : validMsg ([32] ++ g.base64 ++ [10]) = true := by
    apply validMsg_of_ascii
    intro c hc
    simp only [List.mem_append, List.mem_singleton] at hc
    rcases hc with (rfl | hc) | rfl
    · decide
    · rw [hb] at hc
      have := b64enc_chars _ c hc
      exact ⟨Or.inl (by omega), this.2⟩
    · decide
  have : lineOf g ++ [10] = sigPrefix ++ (g.name ++ ([32] ++ g.base64 ++ [10])) := by simp [lineOf]
  rw [this]
  exact validMsg_append hp (validMsg_append hv htail)

theorem validMsg_blockOf : ∀ (gs : List Signature), (∀ g ∈ gs, ∃ x, GoodSig g x) → validMsg (blockOf gs) = true
  | [], _ => by decide
  | g :: gs, h => by
    obtain ⟨x, hg⟩ := h g List.mem_cons_self
    have ih := validMsg_blockOf gs (fun g' hg' => h g' (List.mem_cons_of_mem _ hg'))
    simp only [blockOf, List.flatMap_cons] at ih ⊢
    exact validMsg_append (validMsg_lineOf hg) ih

/-- no two consecutive newlines -/
def noNN : Bytes → Bool
  | a :: b :: r => !(a == 10 && b == 10) && noNN (b :: r)
  | _ => true

theorem lastIndexOf_noNN : ∀ (s : Bytes), noNN s = true → lastIndexOf sigSplit s = none
  | [], _ => by simp [lastIndexOf, sigSplit]
  | [a], _ => by simp [lastIndexOf, sigSplit, isPrefixOfB]
  | a :: b :: r, h => by
    simp only [noNN, Bool.and_eq_true, Bool.not_eq_eq_eq_not, Bool.not_true] at h
    have ih := lastIndexOf_noNN (b :: r) h.2
    rw [lastIndexOf, ih]
    simp only [sigSplit, isPrefixOfB, Bool.and_true]
    have : (10 == a && 10 == b) = false := by
      have := h.1
      simp only [Bool.and_eq_false_iff, beq_eq_false_iff_ne, ne_eq] at this ⊢
      rcases this with h | h
      · left; exact fun e => h e.symm
      · right; exact fun e => h e.symm
    simp [this]

theorem noNN_line : ∀ (l rest : Bytes), (10 : UInt8) ∉ l → l ≠ [] → noNN (10 :: rest) = true →
    noNN (10 :: (l ++ 10 :: rest)) = true
  | [], _, _, hne, _ => absurd rfl hne
  | [c], rest, h, _, hr => by
    simp only [List.mem_singleton] at h
    have : (c == 10) = false := by simpa using fun e => h e.symm
    simp [noNN, this, hr]
  | c :: d :: l, rest, h, _, hr => by
    have hc : (c == 10) = false := by
      simp only [List.mem_cons, not_or] at h; simpa using fun e => h.1 e.symm
    have ih := noNN_line (d :: l) rest (fun hm => h (List.mem_cons_of_mem _ hm)) (by simp) hr
    rw [List.cons_append, noNN] at ih
    simp only [Bool.and_eq_true] at ih
    simp only [List.cons_append, noNN, hc, Bool.and_false, Bool.not_false, Bool.true_and, Bool.false_and]
    exact ih.2

theorem noNN_blockOf : ∀ (gs : List Signature), (∀ g ∈ gs, ∃ x, GoodSig g x) → noNN (10 :: blockOf gs) = true
  | [], _ => by decide
  | g :: gs, h => by
    obtain ⟨x, hg⟩ := h g List.mem_cons_self
    have ih := noNN_blockOf gs (fun g' hg' => h g' (List.mem_cons_of_mem _ hg'))
    simp only [blockOf, List.flatMap_cons, List.append_assoc, List.singleton_append] at ih ⊢
    exact noNN_line _ _ (lineOf_no_nl hg) (lineOf_ne_nil g) ih

/-- the split point of text ‖ "\n" ‖ block when text ends in "\n" -/
theorem lastIndexOf_signed : ∀ (t0 block : Bytes), noNN (10 :: block) = true →
    lastIndexOf sigSplit (t0 ++ 10 :: 10 :: block) = some t0.length
  | [], block, h => by
    rw [List.nil_append, lastIndexOf, lastIndexOf_noNN _ h]
    simp [sigSplit, isPrefixOfB]
  | c :: t0, block, h => by
    simp only [List.cons_append, lastIndexOf, lastIndexOf_signed t0 block h, List.length_cons]

theorem blockOf_last : ∀ (gs : List Signature), gs ≠ [] → blockOf gs ≠ [] ∧ (blockOf gs).getLast? = some 10 := by
  intro gs hne
  have : ∃ init g, gs = init ++ [g] := by
    refine ⟨gs.dropLast, gs.getLast hne, (List.dropLast_concat_getLast hne).symm⟩
  obtain ⟨init, g, rfl⟩ := this
  simp [blockOf, List.flatMap_append]

/-- what each written signature meets at lookup time: unknown key, or a known key that accepts it -/
def LookupOK (known : Verifiers) (t : Bytes) (g : Signature) (x : Bytes) : Prop :=
  known g.name g.hash = .unknown ∨
  ∃ k, known g.name g.hash = .found k ∧ k.name = g.name ∧ k.hash = g.hash ∧ k.verify t x = true

/-- the signature loop run forward over lines written by Sign -/
theorem openLoop_forward {known : Verifiers} {t : Bytes} :
    ∀ (gs : List Signature) (st : LoopState),
      (∀ g ∈ gs, ∃ x, GoodSig g x ∧ LookupOK known t g x) →
      st.numSig + gs.length ≤ maxSigs →
      ∃ st', openLoop known t (gs.map lineOf) st = .ok st' ∧
        st'.sigs = st.sigs ++
          dedupFrom (fun g : Signature => (g.name, g.hash)) st.seen (gs.filter (sigKnown known)) ∧
        st'.unverifiedSigs = st.unverifiedSigs ++
          dedupFrom (fun g : Signature => g.name ++ [32] ++ g.base64) st.seenUnverified
            (gs.filter (sigUnknown known))
  | [], st, _, _ => ⟨st, by simp [openLoop], by simp [dedupFrom], by simp [dedupFrom]⟩
  | g :: gs, st, h, hlen => by
    obtain ⟨x, hg, hlook⟩ := h g List.mem_cons_self
    have hrest : ∀ g' ∈ gs, ∃ x, GoodSig g' x ∧ LookupOK known t g' x :=
      fun g' hg' => h g' (List.mem_cons_of_mem _ hg')
    simp only [List.length_cons] at hlen
    have hn : ¬ st.numSig + 1 > maxSigs := by omega
    simp only [List.map_cons, openLoop, openStep, parseSigLine_lineOf hg, hn, ↓reduceIte]
    rcases hlook with hu | ⟨k, hk, hkn, hkh, hver⟩
    · have h1 : sigKnown known g = false := by simp [sigKnown, hu]
      have h2 : sigUnknown known g = true := by simp [sigUnknown, hu]
      simp only [hu, List.filter_cons, h1, h2, Bool.false_eq_true, ↓reduceIte]
      by_cases hc : (g.name ++ [32] ++ g.base64) ∈ st.seenUnverified
      · have hc' : st.seenUnverified.contains (g.name ++ [32] ++ g.base64) = true := by simpa using hc
        simp only [hc', ↓reduceIte]
        obtain ⟨st', hl, hs, hu'⟩ := openLoop_forward gs { st with numSig := st.numSig + 1 } hrest (by simp; omega)
        rw [show g.name ++ [32] ++ g.base64 = g.name ++ 32 :: g.base64 by simp] at hc
        exact ⟨st', hl, by simpa using hs, by simpa [dedupFrom, hc] using hu'⟩
      · have hc' : st.seenUnverified.contains (g.name ++ [32] ++ g.base64) = false := by simpa using hc
        simp only [hc', Bool.false_eq_true, ↓reduceIte]
        obtain ⟨st', hl, hs, hu'⟩ := openLoop_forward gs
          { st with numSig := st.numSig + 1, seenUnverified := (g.name ++ [32] ++ g.base64) :: st.seenUnverified,
                    unverifiedSigs := st.unverifiedSigs ++ [SigLine.toSig ⟨g.name, g.base64, g.hash, x, g.name ++ [32] ++ g.base64⟩] }
          hrest (by simp; omega)
        rw [show g.name ++ [32] ++ g.base64 = g.name ++ 32 :: g.base64 by simp] at hc
        exact ⟨st', hl, by simpa using hs, by simpa [dedupFrom, hc, SigLine.toSig] using hu'⟩
    · have h1 : sigKnown known g = true := by simp [sigKnown, hk]
      have h2 : sigUnknown known g = false := by simp [sigUnknown, hk]
      simp only [hk, hkn, hkh, bne_self_eq_false, Bool.or_self, Bool.false_eq_true, ↓reduceIte,
        List.filter_cons, h1, h2, hver, Bool.not_true]
      by_cases hc : (g.name, g.hash) ∈ st.seen
      · have hc' : st.seen.contains (g.name, g.hash) = true := by simpa using hc
        simp only [hc', ↓reduceIte]
        obtain ⟨st', hl, hs, hu'⟩ := openLoop_forward gs { st with numSig := st.numSig + 1 } hrest (by simp; omega)
        exact ⟨st', hl, by simpa [dedupFrom, hc] using hs, by simpa using hu'⟩
      · have hc' : st.seen.contains (g.name, g.hash) = false := by simpa using hc
        simp only [hc', Bool.false_eq_true, ↓reduceIte]
        obtain ⟨st', hl, hs, hu'⟩ := openLoop_forward gs
          { st with numSig := st.numSig + 1, seen := (g.name, g.hash) :: st.seen,
                    sigs := st.sigs ++ [SigLine.toSig ⟨g.name, g.base64, g.hash, x, g.name ++ [32] ++ g.base64⟩] }
          hrest (by simp; omega)
        exact ⟨st', hl, by simpa [dedupFrom, hc, SigLine.toSig] using hs, by simpa using hu'⟩

/-- with an empty `seen`, deduplication keeps the head -/
theorem dedupFrom_nil_ne_nil {α κ : Type} [DecidableEq κ] (key : α → κ) {l : List α} (h : l ≠ []) :
    dedupFrom key [] l ≠ [] := by
  cases l with
  | nil => exact absurd rfl h
  | cons a l => simp [dedupFrom]

/-- the first loop of Sign -/
theorem signNew_ok {t : Bytes} : ∀ (ss : List Signer),
    (∀ s ∈ ss, isValidName s.name = true ∧ ∃ x, s.sign t = some x) →
    signNew t ss = .ok (blockOf (ss.filterMap (sigOfSigner t))) ∧
      (ss.filterMap (sigOfSigner t)).length = ss.length
  | [], _ => by simp [signNew, blockOf]
  | s :: ss, h => by
    obtain ⟨hn, x, hx⟩ := h s List.mem_cons_self
    obtain ⟨ih1, ih2⟩ := signNew_ok ss (fun s' hs' => h s' (List.mem_cons_of_mem _ hs'))
    have hs : sigOfSigner t s = some ⟨s.name, s.hash, b64enc (putU32 s.hash ++ x)⟩ := by
      simp [sigOfSigner, hx]
    simp only [signNew, hn, Bool.not_true, Bool.false_eq_true, ↓reduceIte, hx, ih1, List.filterMap_cons, hs,
      List.length_cons, ih2, and_true]
    simp [blockOf, sigLine, lineOf]

/-- Open succeeds when each of its stages does -/
theorem Open_intro {msg : Bytes} {known : Verifiers} {split : Nat} {st : LoopState}
    (hv : validMsg msg = true) (hs : lastIndexOf sigSplit msg = some split)
    (hne : msg.drop (split + 2) ≠ []) (hlast : (msg.drop (split + 2)).getLast? = some 10)
    (hl : openLoop known (msg.take (split + 1)) (sigLines (msg.drop (split + 2))) {} = .ok st)
    (hsigs : st.sigs ≠ []) :
    Open msg known = .ok ⟨msg.take (split + 1), st.sigs, st.unverifiedSigs⟩ := by
  unfold Open
  have he : (msg.drop (split + 2)).isEmpty = false := by simpa [List.isEmpty_iff] using hne
  have he2 : st.sigs.isEmpty = false := by simpa [List.isEmpty_iff] using hsigs
  simp only [hv, Bool.not_true, Bool.false_eq_true, ↓reduceIte, hs, he, hlast, bne_self_eq_false,
    Bool.or_self, hl, he2]

theorem hasSuffixB_of_getLast {t : Bytes} {c : UInt8} (h : t.getLast? = some c) : hasSuffixB t [c] = true := by
  obtain ⟨t0, rfl⟩ := List.getLast?_eq_some_iff.mp h
  simp [hasSuffixB, isPrefixOfB]

/-- Open reports an otherwise valid note without verified signatures as UnverifiedNoteError -/
theorem Open_intro_unverified {msg : Bytes} {known : Verifiers} {split : Nat} {st : LoopState}
    (hv : validMsg msg = true) (hs : lastIndexOf sigSplit msg = some split)
    (hne : msg.drop (split + 2) ≠ []) (hlast : (msg.drop (split + 2)).getLast? = some 10)
    (hl : openLoop known (msg.take (split + 1)) (sigLines (msg.drop (split + 2))) {} = .ok st)
    (hsigs : st.sigs = []) :
    Open msg known = .error (.unverified ⟨msg.take (split + 1), [], st.unverifiedSigs⟩) := by
  unfold Open
  have he : (msg.drop (split + 2)).isEmpty = false := by simpa [List.isEmpty_iff] using hne
  simp only [hv, Bool.not_true, Bool.false_eq_true, ↓reduceIte, hs, he, hlast, bne_self_eq_false,
    Bool.or_self, hl, hsigs, List.isEmpty_nil]

/-- Sign, and every stage of Open on its output up to and including the signature loop -/
theorem sign_open_stages {t : Bytes} {ss : List Signer} {known : Verifiers}
    (ht : ValidText t)
    (hcount : ss.length ≤ maxSigs)
    (hgood : ∀ s ∈ ss, isValidName s.name = true ∧ ∃ x, s.sign t = some x ∧ x ≠ [] ∧
      LookupOK known t ⟨s.name, s.hash, b64enc (putU32 s.hash ++ x)⟩ x)
    (hss : ss ≠ []) :
    Sign ⟨t, [], []⟩ ss = .ok (t ++ [10] ++ blockOf (ss.filterMap (sigOfSigner t))) ∧
    ∃ split st, let msg := t ++ [10] ++ blockOf (ss.filterMap (sigOfSigner t))
      validMsg msg = true ∧ lastIndexOf sigSplit msg = some split ∧ msg.take (split + 1) = t ∧
      msg.drop (split + 2) ≠ [] ∧ (msg.drop (split + 2)).getLast? = some 10 ∧
      openLoop known (msg.take (split + 1)) (sigLines (msg.drop (split + 2))) {} = .ok st ∧
      st.sigs = dedupFrom (fun g : Signature => (g.name, g.hash)) []
        ((ss.filterMap (sigOfSigner t)).filter (sigKnown known)) ∧
      st.unverifiedSigs = dedupFrom (fun g : Signature => g.name ++ [32] ++ g.base64) []
        ((ss.filterMap (sigOfSigner t)).filter (sigUnknown known)) := by
  obtain ⟨hsn, hlen⟩ := signNew_ok (t := t) ss (fun s hs => by
    obtain ⟨hn, x, hx, _⟩ := hgood s hs; exact ⟨hn, x, hx⟩)
  generalize hmade : ss.filterMap (sigOfSigner t) = made at hsn hlen
  have hmadeOK : ∀ g ∈ made, ∃ x, GoodSig g x ∧ LookupOK known t g x := by
    intro g hg
    rw [← hmade, List.mem_filterMap] at hg
    obtain ⟨s, hs, hsg⟩ := hg
    obtain ⟨hn, x, hx, hxne, hlook⟩ := hgood s hs
    simp only [sigOfSigner, hx, Option.map_some, Option.some.injEq] at hsg
    subst hsg
    exact ⟨x, ⟨hn, hxne, rfl⟩, hlook⟩
  have hgoodOnly : ∀ g ∈ made, ∃ x, GoodSig g x := fun g hg => by
    obtain ⟨x, h1, _⟩ := hmadeOK g hg; exact ⟨x, h1⟩
  have hSign : Sign ⟨t, [], []⟩ ss = .ok (t ++ [10] ++ blockOf made) := by
    unfold Sign
    simp [hasSuffixB_of_getLast ht.2, hsn, signExisting]
  refine ⟨hSign, ?_⟩
  obtain ⟨t0, ht0⟩ := List.getLast?_eq_some_iff.mp ht.2
  have hmsg : t ++ [10] ++ blockOf made = t0 ++ 10 :: 10 :: blockOf made := by rw [ht0]; simp
  have hsplit := lastIndexOf_signed t0 (blockOf made) (noNN_blockOf made hgoodOnly)
  have htake : (t0 ++ 10 :: 10 :: blockOf made).take (t0.length + 1) = t := by
    rw [take_len_succ, ht0]
  have hdrop : (t0 ++ 10 :: 10 :: blockOf made).drop (t0.length + 2) = blockOf made := drop_len_add2 _ _ _ _
  have hmadeNe : made ≠ [] := by
    intro e
    rw [e] at hlen
    cases ss with
    | nil => exact hss rfl
    | cons _ _ => simp at hlen
  obtain ⟨hbne, hblast⟩ := blockOf_last made hmadeNe
  obtain ⟨st, hloop, hsigs, hunv⟩ := openLoop_forward (known := known) (t := t) made {} hmadeOK (by
    show 0 + made.length ≤ maxSigs
    omega)
  have hvalid : validMsg (t0 ++ 10 :: 10 :: blockOf made) = true := by
    rw [← hmsg]
    exact validMsg_append (validMsg_append ht.1 (by decide)) (validMsg_blockOf made hgoodOnly)
  refine ⟨t0.length, st, ?_⟩
  simp only
  rw [hmsg]
  exact ⟨hvalid, hsplit, htake, by rw [hdrop]; exact hbne, by rw [hdrop]; exact hblast,
    by rw [hdrop, htake, sigLines_blockOf made hgoodOnly]; exact hloop,
    by rw [hsigs]; simp, by rw [hunv]; simp⟩

/-- Sign followed by Open, with the result expressed on the written signatures -/
theorem sign_open_core {t : Bytes} {ss : List Signer} {known : Verifiers}
    (ht : ValidText t)
    (hcount : ss.length ≤ maxSigs)
    (hgood : ∀ s ∈ ss, isValidName s.name = true ∧ ∃ x, s.sign t = some x ∧ x ≠ [] ∧
      LookupOK known t ⟨s.name, s.hash, b64enc (putU32 s.hash ++ x)⟩ x)
    (hone : ∃ s ∈ ss, ∃ k, known s.name s.hash = .found k) :
    Sign ⟨t, [], []⟩ ss = .ok (t ++ [10] ++ blockOf (ss.filterMap (sigOfSigner t))) ∧
    Open (t ++ [10] ++ blockOf (ss.filterMap (sigOfSigner t))) known = .ok ⟨t,
      dedupFrom (fun g : Signature => (g.name, g.hash)) [] ((ss.filterMap (sigOfSigner t)).filter (sigKnown known)),
      dedupFrom (fun g : Signature => g.name ++ [32] ++ g.base64) []
        ((ss.filterMap (sigOfSigner t)).filter (sigUnknown known))⟩ := by
  have hss : ss ≠ [] := by
    obtain ⟨s, hs, _⟩ := hone
    intro e; rw [e] at hs; cases hs
  obtain ⟨hSign, split, st, hv, hs, htake, hne, hlast, hloop, hsigs, hunv⟩ := sign_open_stages ht hcount hgood hss
  refine ⟨hSign, ?_⟩
  have hknownNe : (ss.filterMap (sigOfSigner t)).filter (sigKnown known) ≠ [] := by
    obtain ⟨s, hs, k, hk⟩ := hone
    obtain ⟨_, x, hx, _, _⟩ := hgood s hs
    have hmem : (⟨s.name, s.hash, b64enc (putU32 s.hash ++ x)⟩ : Signature) ∈ ss.filterMap (sigOfSigner t) := by
      rw [List.mem_filterMap]
      exact ⟨s, hs, by simp [sigOfSigner, hx]⟩
    intro e
    have : (⟨s.name, s.hash, b64enc (putU32 s.hash ++ x)⟩ : Signature) ∈
        (ss.filterMap (sigOfSigner t)).filter (sigKnown known) := by
      rw [List.mem_filter]; exact ⟨hmem, by simp [sigKnown, hk]⟩
    rw [e] at this; cases this
  have := Open_intro (known := known) hv hs hne hlast hloop (by rw [hsigs]; exact dedupFrom_nil_ne_nil _ hknownNe)
  rw [this, htake, hsigs, hunv]

/-- Sign followed by Open when no signer is known: UnverifiedNoteError carrying the note -/
theorem sign_open_unverified_core {t : Bytes} {ss : List Signer} {known : Verifiers}
    (ht : ValidText t)
    (hcount : ss.length ≤ maxSigs)
    (hgood : ∀ s ∈ ss, isValidName s.name = true ∧ ∃ x, s.sign t = some x ∧ x ≠ [])
    (hunk : ∀ s ∈ ss, known s.name s.hash = .unknown)
    (hss : ss ≠ []) :
    Sign ⟨t, [], []⟩ ss = .ok (t ++ [10] ++ blockOf (ss.filterMap (sigOfSigner t))) ∧
    Open (t ++ [10] ++ blockOf (ss.filterMap (sigOfSigner t))) known = .error (.unverified ⟨t, [],
      dedupFrom (fun g : Signature => g.name ++ [32] ++ g.base64) [] (ss.filterMap (sigOfSigner t))⟩) := by
  have hgood' : ∀ s ∈ ss, isValidName s.name = true ∧ ∃ x, s.sign t = some x ∧ x ≠ [] ∧
      LookupOK known t ⟨s.name, s.hash, b64enc (putU32 s.hash ++ x)⟩ x := by
    intro s hs
    obtain ⟨hn, x, hx, hxne⟩ := hgood s hs
    exact ⟨hn, x, hx, hxne, Or.inl (hunk s hs)⟩
  obtain ⟨hSign, split, st, hv, hs, htake, hne, hlast, hloop, hsigs, hunv⟩ := sign_open_stages ht hcount hgood' hss
  refine ⟨hSign, ?_⟩
  have hall : ∀ g ∈ ss.filterMap (sigOfSigner t), known g.name g.hash = .unknown := by
    intro g hg
    rw [List.mem_filterMap] at hg
    obtain ⟨s, hs, hsg⟩ := hg
    obtain ⟨_, x, hx, _⟩ := hgood s hs
    simp only [sigOfSigner, hx, Option.map_some, Option.some.injEq] at hsg
    subst hsg
    exact hunk s hs
  have hk : (ss.filterMap (sigOfSigner t)).filter (sigKnown known) = [] := by
    apply List.filter_eq_nil_iff.mpr
    intro g hg
    simp [sigKnown, hall g hg]
  have hu : (ss.filterMap (sigOfSigner t)).filter (sigUnknown known) = ss.filterMap (sigOfSigner t) := by
    apply List.filter_eq_self.mpr
    intro g hg
    simp [sigUnknown, hall g hg]
  have := Open_intro_unverified (known := known) hv hs hne hlast hloop (by rw [hsigs, hk]; rfl)
  rw [this, htake, hunv, hu]

end ModVerif.Note
