/-
  Helper lemmas for Tie/FnRuleAdd.lean, part I: the statement loops of the regenerated `ParseWork`
  (`ParseWork_loop2` over the lines of a block = `workBlockLines`, `ParseWork_loop1` over the statements = `workStmts`).
  Owner: rule-add.
-/
import ModVerif.Proofs.TieFnRuleAddH
import ModVerif.Proofs.TieFnRuleAddE
set_option linter.unusedSimpArgs false
set_option linter.unusedVariables false
namespace ModVerif.Tie.FnRuleAddI
open ModVerif ModVerif.GoRt ModVerif.Generated ModVerif.Tie.FnRuleRep ModVerif.Tie.FnRuleAddA ModVerif.Tie.FnRuleAddB ModVerif.Tie.FnRuleAddC
open ModVerif.Tie.FnRuleAddE ModVerif.Tie.FnRuleAddF ModVerif.Tie.FnRuleAddG ModVerif.Tie.FnRuleAddH
open ModVerif.Drv.GenRule (isPrintI unquoteI laxSubI deprecatedSubI fixG parseSynI)
open ModVerif.Modfile.Edit (treeIds)

abbrev PW2 := Rule.ParseWork_loop2 Modfile.goVersionRE isPrintI parseSynI Quote.quote Modfile.toolchainRE unquoteI
abbrev PW1 := Rule.ParseWork_loop1 Modfile.goVersionRE isPrintI parseSynI Quote.quote Modfile.toolchainRE unquoteI

/-- the leaf calls of `WorkFile.add` for the line `l`, whatever the heap and the pointer of the line are at the time of the
    call, for every fuel the loops may pass -/
def LineLeafW (ι : Int → Nat) (F : Nat) (verb : Bytes) (fx : Option Modfile.Fixer) (l : Modfile.Line) (pre args : List Bytes) : Prop :=
  ∀ fuel', F ≤ fuel' → ∀ (hc : Rule.Heap) (p : Int), RLine ι hc p l → WorkLeaf fuel' hc p l pre args verb fx

/-- **the loop of `ParseWork` over the lines of a block = the model's `workBlockLines`** -/
theorem PW2_spec {ι : Int → Nat} {fp bp : Int} {F : Nat} {fx : Option Modfile.Fixer} {verb : Bytes}
    {b : Modfile.LineBlock} {syn0 : Modfile.FileSyntax} {A B : List Modfile.Expr} (hbt : b.token = [verb]) :
    ∀ (todo : List Int) (LT : List Modfile.Line) (done : List Int) (LD : List Modfile.Line) (h : Rule.Heap) (errs : List Rule.Error)
      (st : Modfile.WorkState) (bps : List Int) (fuel : Nat),
      F + todo.length + 1 ≤ fuel →
      RepWS ι h fp errs st (synBlk syn0 A B b (LD ++ LT)) →
      heapGet h.blocks bp = .ok (blockG b bps) →
      RLines ι h todo LT →
      (∀ l ∈ LT, LineLeafW ι F verb fx l [] l.token) →
      ∃ ri errs' h', PW2 (done ++ todo) (fixG fx) fp bp fuel (done.length : Int) h errs = .ok (ri, h', errs') ∧
        RepWS ι h' fp errs' (Modfile.workBlockLines verb fx st LT).1
          (synBlk syn0 A B b (LD ++ (Modfile.workBlockLines verb fx st LT).2)) ∧
        h'.blocks = h.blocks ∧ h'.cbs = h.cbs ∧ h'.files = h.files ∧ h'.lines.length = h.lines.length ∧
        (∀ p, p ∉ todo → heapGet h'.lines p = heapGet h.lines p) ∧
        (∀ o o', heapGet h.works fp = .ok o → heapGet h'.works fp = .ok o' → o'.Syntax = o.Syntax) := by
  intro todo
  induction todo with
  | nil =>
    intro LT done LD h errs st bps fuel hf R hb hls _
    cases LT with
    | cons _ _ => exact hls.elim
    | nil =>
      obtain ⟨n, rfl⟩ : ∃ n, fuel = n + 1 := ⟨fuel - 1, by omega⟩
      refine ⟨(done.length : Int), errs, h, ?_, ?_, rfl, rfl, rfl, rfl, fun _ _ => rfl, ?_⟩
      · unfold PW2 Rule.ParseWork_loop2
        simp only [List.append_nil, not_lt_len_self, decide_false, Bool.false_eq_true, if_false, pure, Except.pure]
      · simpa [Modfile.workBlockLines] using R
      · intro a a' ha ha'; rw [ha] at ha'; cases ha'; rfl
  | cons p todo' ih =>
    intro LT done LD h errs st bps fuel hf R hb hls hleaf
    cases LT with
    | nil => exact hls.elim
    | cons l LT' =>
    obtain ⟨n, rfl⟩ : ∃ n, fuel = n + 1 := ⟨fuel - 1, by omega⟩
    obtain ⟨hl, hls'⟩ := hls
    have hFn : F ≤ n := by simp at hf; omega
    have hstep := WA_step R hl (pre := []) (args := l.token) (by simp) n verb fx (hleaf l List.mem_cons_self n hFn h p hl)
    obtain ⟨errs1, h1, hrun1, hpost⟩ := hstep
    obtain ⟨o, _, _, es, hsa⟩ := R.obj
    have hnod : (treeIds (synBlk syn0 A B b (LD ++ l :: LT')).stmts).Nodup := hsa.nodupL
    have hsyn1 : (synBlk syn0 A B b (LD ++ l :: LT')).updateLine l.id
          (fun x => { x with token := [] ++ (Modfile.WorkFile.add st l verb l.token fx).2 }) =
        synBlk syn0 A B b ((LD ++ [{ l with token := (Modfile.WorkFile.add st l verb l.token fx).2 }]) ++ LT') := by
      have := updateLine_block_at (synBlk syn0 A B b (LD ++ l :: LT')) A B { b with lines := LD ++ l :: LT' } LD LT' l
        (fun x => { x with token := [] ++ (Modfile.WorkFile.add st l verb l.token fx).2 }) rfl rfl hnod
      have e : ∀ (fs : Modfile.FileSyntax) (id : Nat) (g : Modfile.Line → Modfile.Line),
          fs.updateLine id g = { fs with stmts := (fs.updateLine id g).stmts } := fun _ _ _ => rfl
      rw [e, this]
      simp only [synBlk, List.nil_append, List.append_assoc, List.singleton_append]
    have R1 := hpost.rep
    rw [hsyn1] at R1
    have hids : l.id ∉ LT'.map (·.id) := by
      have h1 : (treeIds [Modfile.Expr.lineBlock { b with lines := LD ++ l :: LT' }]).Nodup := by
        simp only [synBlk, Modfile.Edit.treeIds_append] at hnod
        have := (List.nodup_append.1 hnod).2.1
        rw [Modfile.Edit.treeIds_cons] at this
        exact (List.nodup_append.1 this).1
      rw [treeIds_one] at h1
      simp only [stmtLines, List.map_append, List.map_cons] at h1
      exact (List.nodup_cons.1 (List.nodup_append.1 h1).2.1).1
    have hpn : p ∉ todo' := RLines.ne_of_id hl hls' hids
    have hlines1 : ∀ q, q ≠ p → heapGet h1.lines q = heapGet h.lines q := by
      intro q hq
      rw [hpost.lines]
      exact heapGet_setToksH_other h _ hq
    have hls1 : RLines ι h1 todo' LT' := RLines.frame hls' (fun q hq => hlines1 q (fun e => hpn (e ▸ hq)))
    have hb1 : heapGet h1.blocks bp = .ok (blockG b bps) := by rw [hpost.blocks]; exact hb
    obtain ⟨ri, errs', h', hrun, R', hbl, hcb, hfi, hll, hfr, hfs⟩ :=
      ih LT' (done ++ [p]) (LD ++ [{ l with token := (Modfile.WorkFile.add st l verb l.token fx).2 }]) h1 errs1
        (Modfile.WorkFile.add st l verb l.token fx).1 bps n (by simp at hf; omega) R1 hb1 hls1
        (fun m hm => hleaf m (List.mem_cons_of_mem _ hm))
    simp only [List.append_assoc, List.singleton_append, List.length_append, List.length_singleton, Int.natCast_add, Int.natCast_one] at hrun R'
    have hmk := TokView.make hl.1 (k := 0) (by omega)
    have hmk1 : tkMake p 0 h.lines = .ok { owner := p, lo := 0 } := by rw [← TokRef_make_eq]; exact hmk.1
    have hidx : idxL (blockG b bps).Token 0 = .ok verb := by rw [blockG_Token, hbt]; rfl
    refine ⟨ri, errs', h', ?_, ?_, by rw [hbl, hpost.blocks], by rw [hcb, hpost.cbs], by rw [hfi, hpost.files],
      by rw [hll, hpost.lines]; simp, ?_, ?_⟩
    · unfold PW2 Rule.ParseWork_loop2
      simp only [lt_len_mid, decide_true, if_true, idxL_mid, hb, hidx, TokRef_make_eq, hmk1, bind, Except.bind, pure, Except.pure]
      have hrun1' : Rule.WorkFile_add Modfile.goVersionRE isPrintI Quote.quote Modfile.toolchainRE unquoteI n fp errs p verb
          { owner := p, lo := 0 } (fixG fx) h = .ok (((), errs1), h1) := hrun1
      simp only [hrun1']
      exact hrun
    · simpa [Modfile.workBlockLines] using R'
    · intro q hq
      rw [hfr q (fun hm => hq (List.mem_cons_of_mem _ hm))]
      exact hlines1 q (fun e => hq (e ▸ List.mem_cons_self))
    · intro a a' ha ha'
      obtain ⟨o1, ho1, _⟩ := R1.obj
      rw [hfs o1 a' ho1 ha', hpost.fsyn a o1 ha ho1]

/-! ### the statement loop -/

/-- the leaf calls of `WorkFile.add` for the lines of a statement, and what the loops need of its tokens -/
def StmtLeafW (ι : Int → Nat) (F : Nat) (fx : Option Modfile.Fixer) : Modfile.Expr → Prop
  | .line l => ∃ verb args, l.token = verb :: args ∧ LineLeafW ι F verb fx l [verb] args
  | .lineBlock b => b.token ≠ [] ∧ ∀ verb, b.token = [verb] → ∀ l ∈ b.lines, LineLeafW ι F verb fx l [] l.token
  | _ => True

theorem workBlockVerbs_iff (verb : Bytes) : Modfile.verbIn verb Modfile.workBlockVerbs =
    (decide (verb = ([103, 111, 100, 101, 98, 117, 103] : Bytes)) || decide (verb = ([117, 115, 101] : Bytes)) ||
      decide (verb = ([114, 101, 112, 108, 97, 99, 101] : Bytes))) := by
  simp only [Modfile.verbIn, Modfile.workBlockVerbs, List.any_cons, List.any_nil, Bool.or_false, B_godebug, B_use, B_replace,
    bytes_beq_eq_decide]
  simp only [eq_comm (a := verb), Bool.or_assoc]

/-- **the statement loop of `ParseWork` = the model's `workStmts`** -/
theorem PW1_spec {ι : Int → Nat} {fp : Int} {F : Nat} {fx : Option Modfile.Fixer} {syn0 : Modfile.FileSyntax} (file : Bytes) (fsp : Int) :
    ∀ (todo : List Rule.Expr) (ST : List Modfile.Expr) (done : List Rule.Expr) (SD : List Modfile.Expr) (h : Rule.Heap) (errs : List Rule.Error)
      (st : Modfile.WorkState) (fuel : Nat),
      F + maxBlock ST + todo.length + 2 ≤ fuel →
      RepWS ι h fp errs st (synTop syn0 (SD ++ ST)) →
      (∀ o, heapGet h.works fp = .ok o → ∃ fo, heapGet h.files o.Syntax = .ok fo ∧ fo.Stmt = done ++ todo) →
      done.length = SD.length →
      (∀ x ∈ ST, StmtLeafW ι F fx x) →
      ∃ ri errs' h', PW1 (done ++ todo) file (fixG fx) fsp fp fuel (done.length : Int) h errs = .ok (ri, h', errs') ∧
        RepWS ι h' fp errs' (Modfile.workStmts fx st ST).1 (synTop syn0 (SD ++ (Modfile.workStmts fx st ST).2)) := by
  intro todo
  induction todo with
  | nil =>
    intro ST done SD h errs st fuel hf R hfile hlen _
    obtain ⟨n, rfl⟩ : ∃ n, fuel = n + 1 := ⟨fuel - 1, by omega⟩
    have hST : ST = [] := by
      obtain ⟨o, ho, _, es, hsa⟩ := R.obj
      obtain ⟨fo, hfo, hst⟩ := hfile o ho
      have : es = done := by have := hsa.file; rw [hfo] at this; cases this; simpa using hst
      subst this
      have hl := hsa.stmts.length
      simp only [synTop, List.length_append] at hl
      exact List.eq_nil_of_length_eq_zero (by omega)
    subst hST
    refine ⟨(done.length : Int), errs, h, ?_, by simpa [Modfile.workStmts] using R⟩
    unfold PW1 Rule.ParseWork_loop1
    simp only [List.append_nil, not_lt_len_self, decide_false, Bool.false_eq_true, if_false, pure, Except.pure]
  | cons x todo' ih =>
    intro ST done SD h errs st fuel hf R hfile hlen hleaf
    obtain ⟨n, rfl⟩ : ∃ n, fuel = n + 1 := ⟨fuel - 1, by omega⟩
    obtain ⟨o, ho, rt, es, hsa⟩ := R.obj
    obtain ⟨fo, hfo, hst⟩ := hfile o ho
    have hes : es = done ++ x :: todo' := by have := hsa.file; rw [hfo] at this; cases this; simpa using hst
    subst hes
    have hRS : RStmts ι h (x :: todo') ST := RStmts.dropLeft hsa.stmts hlen
    cases ST with
    | nil => exact hRS.elim
    | cons s ST' =>
    obtain ⟨hx, _⟩ := hRS
    have hnod : (treeIds (synTop syn0 (SD ++ s :: ST')).stmts).Nodup := hsa.nodupL
    have hcont : ∀ (h1 : Rule.Heap) (errs1 : List Rule.Error) (st1 : Modfile.WorkState) (s1 : Modfile.Expr),
        RepWS ι h1 fp errs1 st1 (synTop syn0 ((SD ++ [s1]) ++ ST')) → h1.files = h.files →
        (∀ o1, heapGet h1.works fp = .ok o1 → o1.Syntax = o.Syntax) →
        ∃ ri errs' h', PW1 (done ++ x :: todo') file (fixG fx) fsp fp n ((done.length : Int) + 1) h1 errs1 = .ok (ri, h', errs') ∧
          RepWS ι h' fp errs' (Modfile.workStmts fx st1 ST').1 (synTop syn0 (SD ++ s1 :: (Modfile.workStmts fx st1 ST').2)) := by
      intro h1 errs1 st1 s1 R1 hf1 hsyn1
      have hmb : maxBlock ST' ≤ maxBlock (s :: ST') := by
        cases s <;> simp [maxBlock]
        exact Nat.le_max_right _ _
      obtain ⟨ri, errs', h', hrun, R'⟩ := ih ST' (done ++ [x]) (SD ++ [s1]) h1 errs1 st1 n (by simp at hf; omega) R1
        (fun o1 ho1 => ⟨fo, by rw [hsyn1 o1 ho1, hf1]; exact hfo, by rw [hst]; simp⟩) (by simp [hlen])
        (fun y hy => hleaf y (List.mem_cons_of_mem _ hy))
      simp only [List.append_assoc, List.singleton_append, List.length_append, List.length_singleton, Int.natCast_add, Int.natCast_one] at hrun R'
      exact ⟨ri, errs', h', hrun, R'⟩
    have hupd : ∀ (fs : Modfile.FileSyntax) (id : Nat) (g : Modfile.Line → Modfile.Line),
        fs.updateLine id g = { fs with stmts := (fs.updateLine id g).stmts } := fun _ _ _ => rfl
    cases x with
    | Line p =>
      cases s with
      | line l =>
        have hl : RLine ι h p l := hx
        obtain ⟨verb, args, htok, hLL⟩ := hleaf (.line l) List.mem_cons_self
        have hFn : F ≤ n := by simp at hf; omega
        obtain ⟨errs1, h1, hrun1, hpost⟩ := WA_step R hl (pre := [verb]) (args := args) htok n verb fx (hLL n hFn h p hl)
        have hsyn1 : (synTop syn0 (SD ++ .line l :: ST')).updateLine l.id
              (fun x => { x with token := [verb] ++ (Modfile.WorkFile.add st l verb args fx).2 }) =
            synTop syn0 ((SD ++ [.line { l with token := verb :: (Modfile.WorkFile.add st l verb args fx).2 }]) ++ ST') := by
          rw [hupd, updateLine_line_at (synTop syn0 (SD ++ .line l :: ST')) SD ST' l _ rfl hnod]
          simp only [synTop, List.singleton_append, List.append_assoc]
        have R1 := hpost.rep
        rw [hsyn1] at R1
        obtain ⟨ri, errs', h', hrun, R'⟩ := hcont h1 errs1 _ _ R1 hpost.files (fun o1 ho1 => hpost.fsyn o o1 ho ho1)
        have hmk := TokView.make hl.1 (k := 1) (by rw [lineG_Token, htok]; simp)
        have hmk1 : tkMake p 1 h.lines = .ok { owner := p, lo := 1 } := by rw [← TokRef_make_eq]; exact hmk.1
        have hidx : idxL (lineG l).Token 0 = .ok verb := by rw [lineG_Token, htok]; rfl
        have hrun1' : Rule.WorkFile_add Modfile.goVersionRE isPrintI Quote.quote Modfile.toolchainRE unquoteI n fp errs p verb
            { owner := p, lo := 1 } (fixG fx) h = .ok (((), errs1), h1) := hrun1
        refine ⟨ri, errs', h', ?_, ?_⟩
        · unfold PW1 Rule.ParseWork_loop1
          simp only [lt_len_mid, decide_true, if_true, idxL_mid, hl.1, hidx, TokRef_make_eq, hmk1, hrun1', bind, Except.bind, pure, Except.pure]
          exact hrun
        · simpa [Modfile.workStmts, htok] using R'
      | _ => exact hx.elim
    | LineBlock bp =>
      cases s with
      | lineBlock b =>
        obtain ⟨ps, hb, hps⟩ : ∃ ps, heapGet h.blocks bp = .ok (blockG b ps) ∧ RLines ι h ps b.lines := hx
        obtain ⟨hbne, hbl⟩ := hleaf (.lineBlock b) List.mem_cons_self
        have hunk : ∀ (K : M (Int × Rule.Heap × List Rule.Error)),
            (K = PW1 (done ++ Rule.Expr.LineBlock bp :: todo') file (fixG fx) fsp fp n ((done.length : Int) + 1) h
                  (errs ++ [({ (default : Rule.Error) with Filename := file, Pos := (blockG b ps).Start, Err := (some "unknown block type: %s") } : Rule.Error)])) →
            ∃ ri errs' h', K = .ok (ri, h', errs') ∧
              RepWS ι h' fp errs' (Modfile.workStmts fx (st.err b.start .unknownBlock) ST').1
                (synTop syn0 (SD ++ .lineBlock b :: (Modfile.workStmts fx (st.err b.start .unknownBlock) ST').2)) := by
          intro K hK
          have R0 : RepWS ι h fp errs st (synTop syn0 ((SD ++ [.lineBlock b]) ++ ST')) := by
            simpa only [List.append_assoc, List.singleton_append] using R
          rw [hK]
          refine hcont h _ (st.err b.start .unknownBlock) _ ⟨R0.obj, R0.inj, ?_⟩ rfl (fun o1 ho1 => by rw [ho] at ho1; cases ho1; rfl)
          exact R0.errs.snoc_rev ⟨rfl, errAbs_some (k := .unknownBlock) (by decide)⟩
        cases hbt : b.token with
        | nil => exact absurd hbt hbne
        | cons verb rest =>
          cases rest with
          | cons v2 rest2 =>
            have hgt : GoRt.len (blockG b ps).Token > 1 := by rw [blockG_Token, hbt, len_eq]; simp; omega
            obtain ⟨ri, errs', h', hrun, R'⟩ := hunk _ rfl
            refine ⟨ri, errs', h', ?_, ?_⟩
            · rw [← hrun]
              unfold PW1
              rw [Rule.ParseWork_loop1]
              simp only [lt_len_mid, decide_true, if_true, idxL_mid, hb, hgt, bind, Except.bind, pure, Except.pure]
            · simpa [Modfile.workStmts, hbt] using R'
          | nil =>
            have hgt : ¬ (GoRt.len (blockG b ps).Token > 1) := by rw [blockG_Token, hbt, len_eq]; simp
            have hidx : idxL (blockG b ps).Token 0 = .ok verb := by rw [blockG_Token, hbt]; rfl
            by_cases hv : Modfile.verbIn verb Modfile.workBlockVerbs = true
            · have hplen := hps.length
              have hmb : b.lines.length ≤ maxBlock (Modfile.Expr.lineBlock b :: ST') := by simp [maxBlock]; exact Nat.le_max_left _ _
              have R0 : RepWS ι h fp errs st (synBlk syn0 SD ST' b ([] ++ b.lines)) := R
              obtain ⟨ri2, errs2, h2, hrun2, R2, hbl2, hcb2, hfi2, hll2, hfr2, hfs2⟩ :=
                PW2_spec (F := F) (bp := bp) hbt ps b.lines [] [] h errs st ps n (by simp at hf; omega) R0 hb hps (hbl verb hbt)
              have R2' : RepWS ι h2 fp errs2 (Modfile.workBlockLines verb fx st b.lines).1
                  (synTop syn0 ((SD ++ [.lineBlock { b with lines := (Modfile.workBlockLines verb fx st b.lines).2 }]) ++ ST')) := by
                simpa only [synBlk, synTop, List.nil_append, List.append_assoc, List.singleton_append] using R2
              obtain ⟨ri, errs', h', hrun, R'⟩ := hcont h2 errs2 _ _ R2' hfi2 (fun o1 ho1 => hfs2 o o1 ho ho1)
              refine ⟨ri, errs', h', ?_, ?_⟩
              · rw [← hrun]
                unfold PW1
                rw [Rule.ParseWork_loop1]
                rw [workBlockVerbs_iff] at hv
                have hrun2' : Rule.ParseWork_loop2 Modfile.goVersionRE isPrintI parseSynI Quote.quote Modfile.toolchainRE unquoteI
                    ps (fixG fx) fp bp n 0 h errs = .ok (ri2, h2, errs2) := by
                  have := hrun2; simp only [List.nil_append, List.length_nil, Int.natCast_zero] at this; exact this
                simp only [lt_len_mid, decide_true, if_true, idxL_mid, hb, hgt, decide_false, Bool.false_eq_true, if_false, hidx, hv, blockG_Line,
                  hrun2', bind, Except.bind, pure, Except.pure]
              · simpa [Modfile.workStmts, hbt, hv] using R'
            · have hv' : Modfile.verbIn verb Modfile.workBlockVerbs = false := by simpa using hv
              obtain ⟨ri, errs', h', hrun, R'⟩ := hunk _ rfl
              refine ⟨ri, errs', h', ?_, ?_⟩
              · rw [← hrun]
                unfold PW1
                rw [Rule.ParseWork_loop1]
                rw [workBlockVerbs_iff] at hv'
                simp only [lt_len_mid, decide_true, if_true, idxL_mid, hb, hgt, decide_false, Bool.false_eq_true, if_false, hidx, hv',
                  bind, Except.bind, pure, Except.pure]
              · simpa [Modfile.workStmts, hbt, hv'] using R'
      | _ => exact hx.elim
    | CommentBlock cp =>
      cases s with
      | commentBlock c =>
        have R0 : RepWS ι h fp errs st (synTop syn0 ((SD ++ [.commentBlock c]) ++ ST')) := by
          simpa only [List.append_assoc, List.singleton_append] using R
        obtain ⟨ri, errs', h', hrun, R'⟩ := hcont h errs st _ R0 rfl (fun o1 ho1 => by rw [ho] at ho1; cases ho1; rfl)
        refine ⟨ri, errs', h', ?_, by simpa [Modfile.workStmts] using R'⟩
        rw [← hrun]
        unfold PW1
        rw [Rule.ParseWork_loop1]
        simp only [lt_len_mid, decide_true, if_true, idxL_mid, bind, Except.bind, pure, Except.pure]
      | _ => exact hx.elim
    | LParen _ => cases s <;> exact hx.elim
    | RParen _ => cases s <;> exact hx.elim
    | FileSyntax _ => cases s <;> exact hx.elim
    | nil => cases s <;> exact hx.elim

end ModVerif.Tie.FnRuleAddI
