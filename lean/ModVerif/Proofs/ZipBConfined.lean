/-
  C12 helper lemmas, part 3: confinement of every effect of `unzip`, and the documented restrictions an
  accepted archive satisfies (`checkZip_ok_spec`).  Core Lean only.
-/
import ModVerif.Proofs.ZipBPath
import ModVerif.Proofs.ZipBCheck
import ModVerif.Proofs.ZipUnzip
namespace ModVerif.Proofs.ZipB
open ModVerif ModVerif.PathClean ModVerif.Zip ModVerif.ZipSpec ModVerif.Proofs.Zip

theorem skipEntry_false {pfx : Bytes} {zf : Entry} (h : skipEntry pfx zf = false) :
    zf.name.drop pfx.length ≠ [] ∧ hasSlashSuffix (zf.name.drop pfx.length) = false ∧
    stripName pfx zf = zf.name.drop pfx.length := by
  unfold skipEntry at h
  simp only [Bool.or_eq_false_iff, beq_eq_false_iff_ne, ne_eq] at h
  exact ⟨h.1, h.2, by simp [stripName, h.2]⟩

/-- after `checkZip` accepted, the name of every extracted entry below the prefix is made of normal
    elements -/
theorem normalName_of_accepted {E : Env} (hE : CfpSound E.cfp) {mpath mvers : Bytes} {zs : Nat}
    {es : List Entry} {cf : CheckedFiles} (h : checkZip E mpath mvers zs es = .ok cf) (he : cf.err = none)
    {zf : Entry} (hz : zf ∈ es) (hsk : skipEntry (zipPrefix mpath mvers) zf = false) :
    NormalName (zf.name.drop (zipPrefix mpath mvers).length) := by
  obtain ⟨_, _, _, hrun⟩ := checkZip_ok E mpath mvers zs es cf h he
  have hok := (run_facts hrun).1 zf hz
  obtain ⟨hne, _, hst⟩ := skipEntry_false hsk
  have := hok.cfp hne
  rw [hst] at this
  exact normalName_of_cfpSound hE this

/-- every effect of `unzip` — success or failure, any entries — is under the target directory -/
theorem unzip_confined (E : Env) (hE : CfpSound E.cfp) (dir : Bytes) (t : Target) (mpath mvers : Bytes) (zs : Nat)
    (es : List Entry) : ∀ e ∈ (unzip E dir t mpath mvers zs es).effects, IsUnder dir e.path := by
  intro e he
  rcases unzip_cases E dir t mpath mvers zs es with ⟨h1, _⟩ | ⟨_, _, cf, hc, herr, h5, _⟩
  · rw [h1] at he; cases he
  · rw [h5] at he
    obtain ⟨new, hn, hmem⟩ := unzipLoop_effects dir (zipPrefix mpath mvers) es [.mkdirAll dir]
    rw [hn] at he
    rcases List.mem_append.mp he with he | he
    · rw [List.mem_singleton.mp he]; exact isUnder_refl dir
    · obtain ⟨zf, hz, hsk, hshape⟩ := hmem e he
      have hN := normalName_of_accepted hE hc herr hz hsk
      rcases hshape with rfl | ⟨c, rfl⟩
      · exact isUnder_pathDir_fpJoin dir hN
      · exact isUnder_fpJoin dir hN

/-! ### what the collision checker registers for a name made of normal elements -/

theorem render_false_J {cs : List Bytes} (h : cs ≠ []) : render false cs = J cs := by
  unfold render
  have : cs.isEmpty = false := by simpa using h
  simp [this]

theorem render_ne_nil {r : Bool} {cs : List Bytes} (h : Canon r cs) : render r cs ≠ [] := by
  intro e
  have h1 := comps_render h
  rw [e] at h1
  have : cs = [] := by rw [← h1]; decide
  subst this
  cases r <;> simp [render, J, joinWith] at e

theorem splitOn_length_le (sep : UInt8) : ∀ p : Bytes, (splitOn sep p).length ≤ p.length + 1
  | [] => by simp [splitOn]
  | c :: rest => by
    have ih := splitOn_length_le sep rest
    unfold splitOn
    split
    · simp; omega
    · cases h : splitOn sep rest with
      | nil => simp
      | cons s ss => rw [h] at ih; simp at ih ⊢; omega

/-- `check` registers the name and every proper non-empty prefix of its element list (as directories) -/
theorem mem_regChain_prefix : ∀ (fuel : Nat) (cs : List Bytes) (d : Bool), Canon false cs → cs.length ≤ fuel →
    ∀ k, 0 < k → k ≤ cs.length →
      (J (cs.take k), if k = cs.length then d else true) ∈ regChain fuel (J cs) d
  | 0, cs, d, _, hl, k, hk, hkl => by omega
  | n + 1, cs, d, hc, hl, k, hk, hkl => by
    unfold regChain
    by_cases hkeq : k = cs.length
    · rw [if_pos hkeq, hkeq, List.take_length]; exact List.mem_cons_self
    · rw [if_neg hkeq]
      have hlen : 2 ≤ cs.length := by omega
      have hne : cs ≠ [] := by intro e; rw [e] at hlen; simp at hlen
      have hdl : cs.dropLast ≠ [] := by
        intro e
        have := congrArg List.length e
        rw [List.length_dropLast] at this
        simp at this; omega
      have hcd : Canon false cs.dropLast := canon_sublist hc (List.dropLast_sublist cs)
      have hpd : pathDir (J cs) = J cs.dropLast := by
        rw [← render_false_J hne, pathDir_render hc, render_false_J hdl]
      have hnd : J cs.dropLast ≠ [46] := by
        intro e
        rw [← render_false_J hdl] at e
        have : render false cs.dropLast = render false [] := e
        exact hdl (render_injective hcd (canon_nil false) this)
      have hif : (pathDir (J cs) != [46]) = true := by rw [hpd]; simpa using hnd
      rw [if_pos hif, hpd]
      apply List.mem_cons_of_mem
      have ih := mem_regChain_prefix n cs.dropLast true hcd (by rw [List.length_dropLast]; omega) k hk
        (by rw [List.length_dropLast]; omega)
      have ht : cs.dropLast.take k = cs.take k := by
        rw [List.dropLast_eq_take, List.take_take]
        congr 1; omega
      rw [ht] at ih
      simpa using ih

/-- is the entry a directory entry (trailing slash)? -/
abbrev isDirEntry (pfx : Bytes) (e : Entry) : Bool := hasSlashSuffix (e.name.drop pfx.length)

/-- elements of the stripped name -/
abbrev elemsOf (pfx : Bytes) (e : Entry) : List Bytes := splitOn 47 (stripName pfx e)

theorem mem_regsOf_prefix {pfx : Bytes} {e : Entry} (hne : e.name.drop pfx.length ≠ [])
    (hN : NormalName (stripName pfx e)) (k : Nat) (hk : 0 < k) (hkl : k ≤ (elemsOf pfx e).length) :
    (J ((elemsOf pfx e).take k), if k = (elemsOf pfx e).length then isDirEntry pfx e else true) ∈ regsOf pfx e := by
  unfold regsOf
  rw [if_neg hne]
  have := mem_regChain_prefix ((stripName pfx e).length + 1) (elemsOf pfx e) (isDirEntry pfx e)
    (canon_normalName hN) (splitOn_length_le 47 _) k hk hkl
  rw [J_splitOn] at this
  exact this

/-- No two entries clash: whenever an ancestor-or-self of one entry and an ancestor-or-self of a later
    entry have the same folded path, they are the same path and both are directories. -/
def NoClash (E : Env) (pfx : Bytes) (e1 e2 : Entry) : Prop :=
  e1.name.drop pfx.length ≠ [] → e2.name.drop pfx.length ≠ [] →
  ∀ k1 k2, 0 < k1 → k1 ≤ (elemsOf pfx e1).length → 0 < k2 → k2 ≤ (elemsOf pfx e2).length →
    E.toFold (J ((elemsOf pfx e1).take k1)) = E.toFold (J ((elemsOf pfx e2).take k2)) →
    J ((elemsOf pfx e1).take k1) = J ((elemsOf pfx e2).take k2) ∧
    (k1 = (elemsOf pfx e1).length → isDirEntry pfx e1 = true) ∧
    (k2 = (elemsOf pfx e2).length → isDirEntry pfx e2 = true)

theorem noClash_of_run {E : Env} (hE : CfpSound E.cfp) {pfx : Bytes} {s' : ZSt} {es : List Entry}
    (h : Run E pfx {} es s') : es.Pairwise (NoClash E pfx) := by
  have hpw := (List.pairwise_flatMap.mp (run_noCollision h)).2
  have hok := (run_facts h).1
  refine List.Pairwise.imp_of_mem ?_ hpw
  intro e1 e2 h1 h2 hR hne1 hne2 k1 k2 hk1 hk1' hk2 hk2' hfold
  have hN1 := normalName_of_cfpSound hE ((hok e1 h1).cfp hne1)
  have hN2 := normalName_of_cfpSound hE ((hok e2 h2).cfp hne2)
  have m1 := mem_regsOf_prefix hne1 hN1 k1 hk1 hk1'
  have m2 := mem_regsOf_prefix hne2 hN2 k2 hk2 hk2'
  obtain ⟨a, b, c⟩ := hR _ m1 _ m2 hfold
  refine ⟨a, ?_, ?_⟩
  · intro e; simpa [e] using b
  · intro e; simpa [e] using c

/-- among the file entries of an accepted archive no name is a path prefix of (or equal to) another -/
theorem files_no_prefix {E : Env} (hE : CfpSound E.cfp) {pfx : Bytes} {s' : ZSt} {es : List Entry}
    (h : Run E pfx {} es s') :
    (fileEntries pfx es).Pairwise (fun f1 f2 =>
      ¬ splitOn 47 (f1.name.drop pfx.length) <+: splitOn 47 (f2.name.drop pfx.length) ∧
      ¬ splitOn 47 (f2.name.drop pfx.length) <+: splitOn 47 (f1.name.drop pfx.length)) := by
  have hpw := (noClash_of_run hE h).sublist (List.filter_sublist (p := fun e => !skipEntry pfx e))
  refine List.Pairwise.imp_of_mem ?_ hpw
  intro f1 f2 h1 h2 hR
  have hs1 : skipEntry pfx f1 = false := by simpa [fileEntries] using (List.mem_filter.mp h1).2
  have hs2 : skipEntry pfx f2 = false := by simpa [fileEntries] using (List.mem_filter.mp h2).2
  obtain ⟨hne1, hd1, hst1⟩ := skipEntry_false hs1
  obtain ⟨hne2, hd2, hst2⟩ := skipEntry_false hs2
  have hR' := hR hne1 hne2
  simp only [elemsOf, isDirEntry, hst1, hst2, hd1, hd2] at hR'
  have hl1 : 0 < (splitOn 47 (f1.name.drop pfx.length)).length :=
    List.length_pos_iff.mpr (splitOn_ne_nil 47 _)
  have hl2 : 0 < (splitOn 47 (f2.name.drop pfx.length)).length :=
    List.length_pos_iff.mpr (splitOn_ne_nil 47 _)
  constructor
  · intro hp
    have ht := List.prefix_iff_eq_take.mp hp
    have := hR' _ _ hl1 (Nat.le_refl _) hl1 hp.length_le (by rw [List.take_length, ← ht])
    exact absurd (this.2.1 rfl) (by simp)
  · intro hp
    have ht := List.prefix_iff_eq_take.mp hp
    have := hR' _ _ hl2 hp.length_le hl2 (Nat.le_refl _) (by rw [List.take_length, ← ht])
    exact absurd (this.2.2 rfl) (by simp)

/-- Acceptance by `checkZip` implies every documented restriction. -/
theorem checkZip_ok_spec (E : Env) (mpath mvers : Bytes) (zs : Nat) (es : List Entry) (cf : CheckedFiles)
    (h : checkZip E mpath mvers zs es = .ok cf) (he : cf.err = none) :
    E.modOK mpath mvers = true ∧ zs ≤ MaxZipFile ∧
    (∀ e ∈ es, EntryOK E (zipPrefix mpath mvers) e) ∧
    cf.valid = (fileEntries (zipPrefix mpath mvers) es).map (·.name) ∧
    ((fileEntries (zipPrefix mpath mvers) es).map szOf).sum ≤ MaxZipFile ∧
    (es.flatMap (regsOf (zipPrefix mpath mvers))).Pairwise (Compatible E.toFold) ∧
    (CfpSound E.cfp → es.Pairwise (NoClash E (zipPrefix mpath mvers))) := by
  obtain ⟨h1, h2, h3, hrun⟩ := checkZip_ok E mpath mvers zs es cf h he
  obtain ⟨f1, f2, f3, f4⟩ := run_facts hrun
  refine ⟨h1, h2, f1, ?_, ?_, run_noCollision hrun, fun hE => noClash_of_run hE hrun⟩
  · rw [h3, f2]; rfl
  · have := f4 (by show (0 : Int) ≤ _; simp [MaxZipFile])
    rw [f3] at this
    simpa using this

end ModVerif.Proofs.ZipB
