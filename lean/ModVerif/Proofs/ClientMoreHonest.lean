/-
  ClientMore — the latest-tree-head machine (Model/ClientLatest.lean) with an HONEST server (helper for Props/C14.lean).

  Part 1 (this file): the honest-server hypothesis `Honest`, honest runs `HReachable` (configuration operations do not
  fail), and the invariants `ChainInv` (everything in the state lies on the server's one chain) and `NoErr` (no
  goroutine is in an error state, no `SecurityError` was raised).
-/
import ModVerif.Proofs.ClientLatestInv
namespace ModVerif.ClientLatest
variable {M T : Type}

/-- the message is empty or it opens to a tree head of the set `Ch` -/
def GoodMsg (P : Params M T) (Ch : T → Prop) : Option M → Prop
  | none => True
  | some m => ∃ pt, P.parse m = some pt ∧ Ch pt

/-- **Honest server.**  `Ch` is the set of tree heads of the server's one log (the chain).  The empty tree, the tree of
the initial configuration and every tree presented to any goroutine lie on it (and their messages verify); on the chain
the prefix order is the order of sizes; and `checkTrees(older, newer)` answers `ok` — and nothing else: no tile is
withheld and no fork exists — on every pair of chain heads in size order. -/
structure Honest (P : Params M T) (le : T → T → Prop) (Ch : T → Prop) (presented : Nat → Option M) (c0 : Option M) :
    Prop where
  sound : Sound P le
  zero_ch : Ch P.zero
  presented_ch : ∀ t, GoodMsg P Ch (presented t)
  c0_ch : GoodMsg P Ch c0
  size_le : ∀ a b, Ch a → Ch b → P.size a ≤ P.size b → le a b
  chk_honest : ∀ a b, Ch a → Ch b → P.size a ≤ P.size b → P.chk a b = [Res.ok]

/-- the configuration operation (if the step is one) does not fail with a non-conflict error -/
def CfgOk (s : St M T) (t : Nat) (r : Res) : Prop :=
  ((s.th t).pc = .readConfig ∨ (s.th t).pc = .writeConfig) → r ≠ .error

theorem goodMsg_cfgTree (P : Params M T) (Ch : T → Prop) (hz : Ch P.zero) (om : Option M) (h : GoodMsg P Ch om) :
    Ch (cfgTree P om) := by
  cases om with
  | none => exact hz
  | some m => obtain ⟨pt, hp, hc⟩ := h; simpa [cfgTree, hp] using hc

theorem goodMsg_none (P : Params M T) (Ch : T → Prop) : GoodMsg P Ch none := trivial

theorem goodMsg_some (P : Params M T) (Ch : T → Prop) (m : M) (pt : T) (hp : P.parse m = some pt) (hc : Ch pt) :
    GoodMsg P Ch (some m) := ⟨pt, hp, hc⟩

theorem goodMsg_parse (P : Params M T) (Ch : T → Prop) (m : M) (pt : T) (h : GoodMsg P Ch (some m))
    (hp : P.parse m = some pt) : Ch pt := by
  obtain ⟨pt', hp', hc⟩ := h
  rw [hp] at hp'; cases hp'; exact hc

theorem goodMsg_parse_ne (P : Params M T) (Ch : T → Prop) (m : M) (h : GoodMsg P Ch (some m)) : P.parse m ≠ none := by
  obtain ⟨pt', hp', _⟩ := h
  simp [hp']

/-- every head and every message held anywhere in the state lies on the chain -/
structure ChainInv (P : Params M T) (Ch : T → Prop) (s : St M T) : Prop where
  latest_ch : ∀ c, Ch (s.latest c)
  latestMsg_good : ∀ c, GoodMsg P Ch (s.latestMsg c)
  config_good : GoodMsg P Ch s.config
  th_msg : ∀ t, GoodMsg P Ch (s.th t).msg
  th_tree : ∀ t, Ch (s.th t).tree
  th_latest : ∀ t, Ch (s.th t).latest
  th_cfg : ∀ t, GoodMsg P Ch (s.th t).cfg
  th_lm : ∀ t, GoodMsg P Ch (s.th t).lm

theorem chain_init (P : Params M T) (le : T → T → Prop) (Ch : T → Prop) (presented : Nat → Option M) (c0 : Option M)
    (hH : Honest P le Ch presented c0) : ChainInv P Ch (init P c0) := by
  constructor <;> simp [init, GoodMsg, hH.zero_ch]
  exact hH.c0_ch

variable [DecidableEq M] [DecidableEq T]

/-- states reachable when no configuration operation fails (any interleaving, any admissible `checkTrees` answers) -/
inductive HReachable (P : Params M T) (cl : Nat → Nat) (presented : Nat → Option M) (priv : Nat → Bool) (c0 : Option M) :
    St M T → Prop
  | init : HReachable P cl presented priv c0 (init P c0)
  | step {s s' : St M T} (t : Nat) (r : Res) :
      HReachable P cl presented priv c0 s → CfgOk s t r → step P cl presented priv s t r = some s' →
      HReachable P cl presented priv c0 s'

theorem HReachable.reachable {P : Params M T} {cl : Nat → Nat} {presented : Nat → Option M} {priv : Nat → Bool}
    {c0 : Option M} {s : St M T} (h : HReachable P cl presented priv c0 s) : Reachable P cl presented priv c0 s := by
  induction h with
  | init => exact Reachable.init
  | step t r _ _ hs ih => exact Reachable.step t r ih hs

/-- Case analysis of `h : step P cl presented priv s t r = some s'`: one goal per branch of `step` (with the `Outer`
argument of the program counter made concrete), `s'` substituted, `hpc : (s.th t).pc = …` and the branch conditions in
the context, `afterMem` evaluated. -/
syntax "step_cases" : tactic
set_option hygiene false in
macro_rules
  | `(tactic| step_cases) => `(tactic|
      (unfold step at h
       rcases hpc : (s.th t).pc with _ | _ | (_ | _) | (_ | _) | (_ | _) | _ | _ | _ | rr
       all_goals (simp only [hpc] at h)
       all_goals (repeat' split at h)
       all_goals (try simp at h)
       all_goals (try subst h)
       all_goals (try simp only [afterMem] at *)))

theorem chain_step (P : Params M T) (le : T → T → Prop) (Ch : T → Prop) (cl : Nat → Nat) (presented : Nat → Option M)
    (priv : Nat → Bool) (c0 : Option M) (hH : Honest P le Ch presented c0) (s s' : St M T) (t : Nat) (r : Res)
    (hC : ChainInv P Ch s) (h : step P cl presented priv s t r = some s') : ChainInv P Ch s' := by
  obtain ⟨k1, k2, k3, k4, k5, k6, k7, k8⟩ := hC
  have hp := hH.presented_ch t
  have gp := goodMsg_parse P Ch
  have k4t := k4 t; have k5t := k5 t; have k8t := k8 t
  unfold step at h
  cases hpc : (s.th t).pc <;> simp only [hpc] at h <;> (repeat' split at h) <;> (try simp at h) <;> (try subst h)
  all_goals (constructor <;> grind [upd])

omit [DecidableEq M] [DecidableEq T] in
theorem afterMem_done (o : Outer) (w : When) (r : Result) (h : afterMem o w = .done r) : r = .ok := by
  cases o <;> cases w <;> simp [afterMem] at h <;> exact h.symm

/-- no goroutine is in an error state and `SecurityError` was never called -/
structure NoErr (s : St M T) : Prop where
  no_err : ∀ t, (s.th t).pc ≠ .done .err
  no_sec : ∀ t, (s.th t).pc ≠ .done .security
  sec_nil : s.sec = []

omit [DecidableEq M] [DecidableEq T] in
theorem noErr_init (P : Params M T) (c0 : Option M) : NoErr (init P c0) := by
  constructor <;> simp [init]

theorem noErr_step (P : Params M T) (le : T → T → Prop) (Ch : T → Prop) (cl : Nat → Nat) (presented : Nat → Option M)
    (priv : Nat → Bool) (c0 : Option M) (hH : Honest P le Ch presented c0) (s s' : St M T) (t : Nat) (r : Res)
    (hC : ChainInv P Ch s) (hN : NoErr s) (hok : CfgOk s t r) (h : step P cl presented priv s t r = some s') :
    NoErr s' := by
  obtain ⟨n1, n2, n3⟩ := hN
  have k4t := hC.th_msg t; have k5t := hC.th_tree t; have k6t := hC.th_latest t
  have gp := goodMsg_parse_ne P Ch
  have hc := hH.chk_honest
  have ha := afterMem_done
  unfold CfgOk at hok
  unfold step at h
  cases hpc : (s.th t).pc <;> simp only [hpc] at h <;> (repeat' split at h) <;> (try simp at h) <;> (try subst h)
  all_goals (constructor <;> grind [upd])

/-- The three invariants of an honest run, together. -/
theorem honest_invs (P : Params M T) (le : T → T → Prop) (Ch : T → Prop) (cl : Nat → Nat) (presented : Nat → Option M)
    (priv : Nat → Bool) (c0 : Option M) (hH : Honest P le Ch presented c0) (s : St M T)
    (h : HReachable P cl presented priv c0 s) : ChainInv P Ch s ∧ NoErr s := by
  induction h with
  | init => exact ⟨chain_init P le Ch presented c0 hH, noErr_init P c0⟩
  | step t r _ hok hs ih =>
    exact ⟨chain_step P le Ch cl presented priv c0 hH _ _ t r ih.1 hs,
      noErr_step P le Ch cl presented priv c0 hH _ _ t r ih.1 ih.2 hok hs⟩

end ModVerif.ClientLatest
