/-
  Helper lemmas for Tie/FnParse.lean, part B: `input.parseLineBlock` (the loop over the lines of a block: blank-line
  placeholder comments, whole-line comments, the lines, the closing paren) against the model's `parseLineBlockLoop`.

  The block object lives at the pointer `xp`; while the loop runs it is `blockG x ps` with `ps` the pointers of the lines
  parsed so far (the model keeps those lines reversed in `ls`); at `)` its `RParen` is filled in.
-/
import ModVerif.Proofs.TieFnParseLoopsA
set_option linter.unusedSimpArgs false
set_option linter.unusedVariables false
namespace ModVerif.TieFnParse
open ModVerif ModVerif.GoRt ModVerif.Modfile ModVerif.TieFnLex
open ModVerif.Tie.FnParseHeap
open ModVerif.Proofs.ModfileParse (m Good lex_spec)
open ModVerif.Drv.LexOps.G (isPrintI isSpaceI)
open ModVerif.Drv.LexOps.M (kindCode)

variable {f : Int} {pre post : List Generated.Parse.Expr}

theorem decide_congr_inst {p q : Prop} [ip : Decidable p] [iq : Decidable q] (h : p ↔ q) :
    @decide p ip = @decide q iq := by
  cases ip <;> cases iq <;> simp_all

theorem dk_m1 (k : TokKind) {inst : Decidable (kindCode k = -1)} :
    @decide (kindCode k = -1) inst = decide (k = .eof) := decide_congr_inst (kindCode_eq_m1 k)
theorem dk_m2 (k : TokKind) {inst : Decidable (kindCode k = -2)} :
    @decide (kindCode k = -2) inst = decide (k = .eolComment) := decide_congr_inst (kindCode_eq_m2 k)
theorem dk_m5 (k : TokKind) {inst : Decidable (kindCode k = -5)} :
    @decide (kindCode k = -5) inst = decide (k = .comment) := decide_congr_inst (kindCode_eq_m5 k)
theorem dk_10 (k : TokKind) {inst : Decidable (kindCode k = 10)} :
    @decide (kindCode k = 10) inst = decide (k = .punct 10) := decide_congr_inst (kindCode_eq_10 k)
theorem dk_40 (k : TokKind) {inst : Decidable (kindCode k = 40)} :
    @decide (kindCode k = 40) inst = decide (k = .punct 40) := decide_congr_inst (kindCode_eq_40 k)
theorem dk_41 (k : TokKind) {inst : Decidable (kindCode k = 41)} :
    @decide (kindCode k = 41) inst = decide (k = .punct 41) := decide_congr_inst (kindCode_eq_41 k)

/-- the model's loop body with the `match` on the token kind as an if-chain in the order of Go's `switch` -/
theorem parseLineBlockLoop_succ (n : Nat) (i : Input) (x : LineBlock) (linesRev : List Line) (commentsRev : List Comment) :
    parseLineBlockLoop (n + 1) i x linesRev commentsRev =
      if i.peek = .eolComment then (do
        let (_, i) ← lex i
        parseLineBlockLoop n i x linesRev commentsRev)
      else if i.peek = .punct 10 then (do
        let (_, i) ← lex i
        let add := match commentsRev with
          | [] => !linesRev.isEmpty
          | c :: _ => !c.token.isEmpty
        parseLineBlockLoop n i x linesRev (if add then ({} : Comment) :: commentsRev else commentsRev))
      else if i.peek = .comment then (do
        let (tok, i) ← lex i
        parseLineBlockLoop n i x linesRev ({ start := tok.pos, token := tok.text } :: commentsRev))
      else if i.peek = .eof then .error (i.error .unterminatedBlock)
      else if i.peek = .punct 41 then (do
        let (rparen, i) ← lex i
        let x := { x with lines := linesRev.reverse,
                          rparen := { comments := { before := commentsRev.reverse }, pos := rparen.pos } }
        if !i.peek.isEOL then .error (i.error .afterRParen)
        else do
          let (_, i) ← lex i
          .ok (x, i))
      else (do
        let (l, i) ← parseLine (n + 1) i
        let l := { l with comments := { l.comments with before := commentsRev.reverse } }
        parseLineBlockLoop n i x (l :: linesRev) []) := by
  conv => lhs; unfold parseLineBlockLoop
  split
  · rename_i hk; simp only [hk, if_true]
  · rename_i hk; simp only [hk, reduceCtorEq, if_false, if_true]; try rfl
  · rename_i hk; simp only [hk, reduceCtorEq, if_false, if_true]; try rfl
  · rename_i hk; simp only [hk, reduceCtorEq, if_false, if_true]; try rfl
  · rename_i hk
    have : ¬ ((41 : UInt8) = 10) := by decide
    simp only [hk, reduceCtorEq, if_false, if_true, TokKind.punct.injEq, this]
  · rename_i h1 h2 h3 h4 h5
    rw [if_neg h1, if_neg h2, if_neg h3, if_neg h4, if_neg h5]

theorem ne_nil_isEmpty (x : Bytes) : (!decide (x = [])) = !x.isEmpty := by cases x <;> simp

/-- the `case '\n'` test: `len(comments) == 0 && len(x.Line) > 0 || len(comments) > 0 && comments[len(comments)-1].Token != ""` -/
theorem blank_test (cs : List Comment) (ls : List Line) (ps : List Int) (hl : ps.length = ls.length) :
    ((if decide (len (cs.reverse.map comG) = 0) then decide (len ps > 0) else false) ||
      (if decide (len (cs.reverse.map comG) > 0) then
        (match (cs.reverse.map comG)[(len (cs.reverse.map comG) - 1).toNat]? with
         | some c => !decide (c.Token = [])
         | none => false) else false)) =
    (match cs with
     | [] => !ls.isEmpty
     | c :: _ => !c.token.isEmpty) := by
  cases cs with
  | nil =>
    simp only [List.reverse_nil, List.map_nil, len_nil, decide_true, if_true, gt_iff_lt, Int.lt_irrefl, decide_false,
      Bool.false_eq_true, if_false, Bool.or_false]
    cases ls with
    | nil => cases ps with
      | nil => rfl
      | cons a t => simp at hl
    | cons a t => cases ps with
      | nil => simp at hl
      | cons b u => simp [len_eq]
  | cons c t =>
    have h1 : len ((c :: t).reverse.map comG) = ((t.length + 1 : Nat) : Int) := by simp [len_eq]
    have h2 : ¬ (((t.length + 1 : Nat) : Int) = 0) := by omega
    have h3 : (((t.length + 1 : Nat) : Int) > 0) := by omega
    have h4 : (((t.length + 1 : Nat) : Int) - 1).toNat = t.length := by omega
    simp only [h1, h2, h3, h4, decide_false, decide_true, Bool.false_eq_true, if_false, if_true, Bool.false_or]
    have : ((c :: t).reverse.map comG)[t.length]? = some (comG c) := by
      simp [List.getElem?_append_right]
    rw [this]
    simp only [comG_Token]
    exact ne_nil_isEmpty _

theorem not_isEOL_of {k : TokKind} (h1 : k ≠ .eolComment) (h2 : k ≠ .punct 10) (h4 : k ≠ .eof) : k.isEOL = false := by
  cases k with
  | eof => exact absurd rfl h4
  | eolComment => exact absurd rfl h1
  | punct c =>
    simp only [TokKind.isEOL]
    cases hc : c == 10 with
    | false => rfl
    | true =>
      have : c = 10 := by simpa using hc
      subst this
      exact absurd rfl h2
  | _ => rfl

/-- the `case '\n'` test of parseLineBlock, in the monad, with its continuation -/
theorem blank_testM {β : Type} (k : Bool → M β) (h : Generated.Parse.Heap) (xp : Int) (x : LineBlock) (ps : List Int)
    (cs : List Comment) (ls : List Line) (hb : heapGet h.blocks xp = .ok (blockG x ps)) (hl : ps.length = ls.length) :
    (do
      let t8 ← (if (decide ((len (cs.reverse.map comG)) = (0 : Int))) then (do
          let t7 ← heapGet h.blocks xp
          pure (decide ((len (t7.Line)) > (0 : Int)))) else pure false)
      let t11 ← (if t8 then pure true else (do
          let t10 ← (if (decide ((len (cs.reverse.map comG)) > (0 : Int))) then (do
            let t9 ← idxL (cs.reverse.map comG) ((len (cs.reverse.map comG)) - (1 : Int))
            pure (!decide (((t9).Token) = ([] : Bytes)))) else pure false)
          pure t10))
      k t11 : M β) = k (match cs with | [] => !ls.isEmpty | c :: _ => !c.token.isEmpty) := by
  cases cs with
  | nil =>
    simp only [List.reverse_nil, List.map_nil, len_nil, decide_true, if_true, hb, bind_ok, pure_eq_ok]
    have : decide (len (blockG x ps).Line > 0) = !ls.isEmpty := by
      show decide (len ps > 0) = _
      cases ls with
      | nil => cases ps with
        | nil => rfl
        | cons a t => simp at hl
      | cons a t => cases ps with
        | nil => simp at hl
        | cons b u => simp [len_eq]
    rw [this]
    cases ls.isEmpty <;> simp
  | cons c t =>
    have h1 : len ((c :: t).reverse.map comG) = ((t.length + 1 : Nat) : Int) := by simp [len_eq]
    have h2 : ¬ (((t.length + 1 : Nat) : Int) = 0) := by omega
    have h3 : (((t.length + 1 : Nat) : Int) > 0) := by omega
    have h4 : (((t.length + 1 : Nat) : Int) - 1) = ((t.length : Nat) : Int) := by omega
    have h5 : t.length < ((c :: t).reverse.map comG).length := by simp
    have h6 : ((c :: t).reverse.map comG)[t.length]'h5 = comG c := by simp
    simp only [h1, h2, h3, h4, decide_false, decide_true, Bool.false_eq_true, if_false, if_true, bind_ok, pure_eq_ok,
      idxL_natCast h5, h6, comG_Token, ne_nil_isEmpty]

theorem RLines_blocks (h : Generated.Parse.Heap) (bl : List Generated.Parse.LineBlock) (ps : List Int) (ls : List Line) :
    RLines { h with blocks := bl } ps ls ↔ RLines h ps ls :=
  RLines_congr (h := h) (h' := { h with blocks := bl }) rfl

theorem peek_ne_eof {i : Input} {k : TokKind} (h : i.peek = k) (hk : k ≠ .eof) : i.token.kind ≠ .eof := by
  intro e; apply hk; rw [← h]; exact e

theorem parseLineBlock_loop_sim : ∀ (fm : Nat) (i : Input) (x : LineBlock) (ls : List Line) (cs : List Comment),
    WF i → m i < fm → ∀ (fg : Nat), m i + 6 ≤ fg → ∀ (h : Generated.Parse.Heap) (xp : Int) (ps : List Int),
    x.rparen = {} → heapGet h.blocks xp = .ok (blockG x ps) → RLines h ps ls.reverse → h.lines.length = i.nextId →
    match parseLineBlockLoop fm i x ls cs with
    | .ok (b, i') => ∃ h' ps',
        Generated.Parse.input_parseLineBlock_loop1 isPrintI isSpaceI xp fg (embP f pre post i) (cs.reverse.map comG) h =
          .ok (.ret ((xp, embP f pre post i'), h')) ∧ WF i' ∧
        h'.cbs = h.cbs ∧ h'.files = h.files ∧ h.lines <+: h'.lines ∧
        h'.blocks = h.blocks.set (xp.toNat - 1) (blockG b ps') ∧ RLines h' ps' b.lines ∧ h'.lines.length = i'.nextId
    | .error _ =>
        Generated.Parse.input_parseLineBlock_loop1 isPrintI isSpaceI xp fg (embP f pre post i) (cs.reverse.map comG) h =
          .error .panic := by
  intro fm
  induction fm with
  | zero => intro i _ _ _ _ hm; omega
  | succ n ih =>
    intro i x ls cs hw hm fg hfg h xp ps hx hb hl hn
    obtain ⟨g, rfl⟩ : ∃ g, fg = g + 1 := ⟨fg - 1, by omega⟩
    rw [parseLineBlockLoop_succ]
    unfold Generated.Parse.input_parseLineBlock_loop1
    dsimp only [embP_peek]
    simp only [dk_m2, dk_10, dk_m5, dk_m1, dk_41]
    by_cases h1 : i.peek = .eolComment
    · simp only [h1, decide_true, if_true]
      rcases lex_step (f := f) (pre := pre) (post := post) i hw g (by omega) with
        ⟨j, hM, hG, hwj, hle, hlt, hid⟩ | ⟨e1, hM, hG⟩
      · simp only [hM, hG, bind_ok, ebind_ok]
        have := hlt (peek_ne_eof h1 (by simp))
        exact ih j x ls cs hwj (by omega) g (by omega) h xp ps hx hb hl (by rw [hid]; exact hn)
      · simp only [hM, hG, bind_error, ebind_error]
    simp only [h1, decide_false, if_false, Bool.false_eq_true]
    by_cases h2 : i.peek = .punct 10
    · simp only [h2, decide_true, if_true]
      rcases lex_step (f := f) (pre := pre) (post := post) i hw g (by omega) with
        ⟨j, hM, hG, hwj, hle, hlt, hid⟩ | ⟨e1, hM, hG⟩
      · simp only [hM, hG, bind_ok, ebind_ok]
        have := hlt (peek_ne_eof h2 (by simp))
        have hlen : ps.length = ls.length := by rw [RLines_length hl]; simp
        rw [blank_testM _ h xp x ps cs ls hb hlen]
        cases hadd : (match cs with | [] => !ls.isEmpty | c :: _ => !c.token.isEmpty) with
        | true =>
          simp only [if_true]
          have := ih j x ls (({} : Comment) :: cs) hwj (by omega) g (by omega) h xp ps hx hb hl (by rw [hid]; exact hn)
          simp only [List.reverse_cons, List.map_append, List.map_cons, List.map_nil, comG_zero] at this
          exact this
        | false =>
          simp only [Bool.false_eq_true, if_false]
          exact ih j x ls cs hwj (by omega) g (by omega) h xp ps hx hb hl (by rw [hid]; exact hn)
      · simp only [hM, hG, bind_error, ebind_error]
    simp only [h2, decide_false, if_false, Bool.false_eq_true]
    by_cases h3 : i.peek = .comment
    · simp only [h3, decide_true, if_true]
      rcases lex_step (f := f) (pre := pre) (post := post) i hw g (by omega) with
        ⟨j, hM, hG, hwj, hle, hlt, hid⟩ | ⟨e1, hM, hG⟩
      · simp only [hM, hG, bind_ok, ebind_ok]
        have := hlt (peek_ne_eof h3 (by simp))
        have := ih j x ls ({ start := i.token.pos, token := i.token.text } :: cs) hwj (by omega) g (by omega) h xp ps hx hb hl
          (by rw [hid]; exact hn)
        simp only [List.reverse_cons, List.map_append, List.map_cons, List.map_nil] at this
        exact this
      · simp only [hM, hG, bind_error, ebind_error]
    simp only [h3, decide_false, if_false, Bool.false_eq_true]
    by_cases h4 : i.peek = .eof
    · simp only [h4, decide_true, if_true]
      rfl
    simp only [h4, decide_false, if_false, Bool.false_eq_true]
    by_cases h5 : i.peek = .punct 41
    · simp only [h5, decide_true, if_true]
      rcases lex_step (f := f) (pre := pre) (post := post) i hw g (by omega) with
        ⟨j, hM, hG, hwj, hle, hlt, hid⟩ | ⟨e1, hM, hG⟩
      · simp only [hM, hG, bind_ok, ebind_ok, hb, heapSet_of_get _ hb, heapGet_listSet_same _ hb, List.set_set,
          heapSet_of_get _ (heapGet_listSet_same _ hb), embP_peek, isEOL_code]
        have hlt1 := hlt (peek_ne_eof h5 (by simp))
        cases hk : j.peek.isEOL with
        | false => simp
        | true =>
          simp only [Bool.not_true, Bool.false_eq_true, if_false]
          rcases lex_step (f := f) (pre := pre) (post := post) j hwj g (by omega) with
            ⟨j2, hM2, hG2, hwj2, hle2, hlt2, hid2⟩ | ⟨e2, hM2, hG2⟩
          · simp only [hM2, hG2, bind_ok, ebind_ok, pure_eq_ok]
            refine ⟨_, ps, rfl, hwj2, rfl, rfl, List.prefix_refl _, ?_, ?_, ?_⟩
            · show h.blocks.set (xp.toNat - 1) _ = _
              congr 1
              simp [blockG, rparenG, comsG, hx, tokG]
            · exact (RLines_blocks h _ _ _).2 hl
            · show h.lines.length = _
              rw [hid2, hid]; exact hn
          · simp only [hM2, hG2, bind_error, ebind_error]
      · simp only [hM, hG, bind_error, ebind_error]
    simp only [h5, decide_false, if_false, Bool.false_eq_true]
    have hk : i.token.kind.isEOL = false := not_isEOL_of h1 h2 h4
    have hsim := parseLine_sim (f := f) (pre := pre) (post := post) (n + 1) i hw (by omega) g (by omega) h
    rcases Proofs.ModfileParse.parseLine_spec (n + 1) i (by omega) hk with ⟨l, i1, hL, hb1⟩ | ⟨e1, hL, _⟩
    · rw [hL] at hsim
      obtain ⟨hG, hw1⟩ := hsim
      obtain ⟨hid, hnid⟩ := Proofs.ModfileC20.parseLine_id hL
      simp only [if_true] at hb1
      have hnew : heapGet (h.lines ++ [lineG l]) ((h.lines.length + 1 : Nat) : Int) = .ok (lineG l) :=
        heapGet_alloc_new _ _
      have hidx : ((h.lines.length + 1 : Nat) : Int).toNat - 1 = h.lines.length := by omega
      simp only [hL, hG, bind_ok, ebind_ok, hb, heapSet_of_get _ hb, Generated.Parse.Expr_getComments,
        Generated.Parse.Expr_setComments, hnew, heapSet_of_get _ hnew, pure_eq_ok, hidx, set_alloc_last]
      have hb2 : heapGet (h.blocks.set (xp.toNat - 1) (blockG x (ps ++ [((h.lines.length + 1 : Nat) : Int)]))) xp =
          .ok (blockG x (ps ++ [((h.lines.length + 1 : Nat) : Int)])) := heapGet_listSet_same _ hb
      have key := ih i1 x ({ l with comments := { l.comments with before := cs.reverse } } :: ls) [] hw1 (by omega) g
        (by omega)
        { cbs := h.cbs, files := h.files,
          lines := h.lines ++ [lineG { l with comments := { l.comments with before := cs.reverse } }],
          blocks := h.blocks.set (xp.toNat - 1) (blockG x (ps ++ [((h.lines.length + 1 : Nat) : Int)])) }
        xp (ps ++ [((h.lines.length + 1 : Nat) : Int)]) hx hb2
        (by
          rw [List.reverse_cons]
          refine RLines_append ?_ ?_
          · exact (RLines_blocks _ _ _ _).2 (RLines.ext (Ext.allocLine h _) hl)
          · simp only [RLines_cons, RLines_nil, and_true]
            exact ⟨heapGet_alloc_new _ _, by show _ = (((l.id + 1 : Nat)) : Int); rw [hid, hn]⟩)
        (by show (h.lines ++ [_]).length = _; rw [hnid, ← hn]; simp)
      generalize hrec : parseLineBlockLoop n i1 x
        ({ l with comments := { l.comments with before := cs.reverse } } :: ls) [] = r at key ⊢
      cases r with
      | error e => exact key
      | ok p =>
        obtain ⟨b, i2⟩ := p
        obtain ⟨h', ps', hG', hw2, hc, hf, hpl, hbl, hrl, hnl⟩ := key
        refine ⟨h', ps', hG', hw2, hc, hf, ?_, ?_, hrl, hnl⟩
        · exact (List.prefix_append _ _).trans hpl
        · rw [hbl]; simp only [List.set_set]
    · rw [hL] at hsim
      simp only [hL, hsim, bind_error, ebind_error]

theorem blockG_new (s : Position) (ts : List Bytes) (lp : Token) :
    ({ (default : Generated.Parse.LineBlock) with Start := posG s, Token := ts, LParen := ({ (default : Generated.Parse.LParen) with Pos := ((tokG lp).pos) } : Generated.Parse.LParen) } : Generated.Parse.LineBlock) = blockG { start := s, token := ts, lparen := { pos := lp.pos } } [] := rfl

/-- parseLineBlock: allocates the block object (pointer `len(blocks) + 1`) and runs the loop -/
theorem parseLineBlock_sim (fm : Nat) (i : Input) (s : Position) (ts : List Bytes) (lp : Token) (hw : WF i) (hm : m i < fm)
    (fg : Nat) (hfg : m i + 6 ≤ fg) (h : Generated.Parse.Heap) (hn : h.lines.length = i.nextId) :
    match parseLineBlock fm i s ts lp with
    | .ok (b, i') => ∃ h' ps',
        Generated.Parse.input_parseLineBlock isPrintI isSpaceI fg (embP f pre post i) (posG s) ts (tokG lp) h =
          .ok ((((h.blocks.length + 1 : Nat) : Int), embP f pre post i'), h') ∧ WF i' ∧
        h'.cbs = h.cbs ∧ h'.files = h.files ∧ h.lines <+: h'.lines ∧
        h'.blocks = h.blocks ++ [blockG b ps'] ∧ RLines h' ps' b.lines ∧ h'.lines.length = i'.nextId
    | .error _ =>
        Generated.Parse.input_parseLineBlock isPrintI isSpaceI fg (embP f pre post i) (posG s) ts (tokG lp) h =
          .error .panic := by
  unfold parseLineBlock Generated.Parse.input_parseLineBlock
  rw [blockG_new]
  simp only [heapAlloc_fst, heapAlloc_snd]
  have hidx : ((h.blocks.length + 1 : Nat) : Int).toNat - 1 = h.blocks.length := by omega
  have key := parseLineBlock_loop_sim (f := f) (pre := pre) (post := post) fm i
    { start := s, token := ts, lparen := { pos := lp.pos } } [] [] hw hm fg hfg
    { h with blocks := h.blocks ++ [blockG { start := s, token := ts, lparen := { pos := lp.pos } } []] }
    ((h.blocks.length + 1 : Nat) : Int) [] rfl (heapGet_alloc_new _ _) (by simp) hn
  simp only [List.reverse_nil, List.map_nil] at key
  generalize hrec : parseLineBlockLoop fm i { start := s, token := ts, lparen := { pos := lp.pos } } [] [] = r at key ⊢
  cases r with
  | error e =>
    simp only [key, bind_error]
  | ok p =>
    obtain ⟨b, i2⟩ := p
    obtain ⟨h', ps', hG', hw2, hc, hf, hpl, hbl, hrl, hnl⟩ := key
    refine ⟨h', ps', ?_, hw2, hc, hf, hpl, ?_, hrl, hnl⟩
    · simp only [hG', bind_ok, pure_eq_ok]
    · rw [hbl]
      show (h.blocks ++ [_]).set (((h.blocks.length + 1 : Nat) : Int).toNat - 1) _ = _
      rw [hidx, set_alloc_last]

end ModVerif.TieFnParse
