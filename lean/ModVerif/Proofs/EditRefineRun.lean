/-
  EditRefine, part 8 — whole sessions: `runOps` refines `EditSpec.run` / `runOk` (generic in the file kind), and the
  go.mod instance from a loaded file to the final Cleanup.
-/
import ModVerif.Proofs.EditRefineStep
set_option linter.unusedSimpArgs false
namespace ModVerif.Modfile.Edit
open ModVerif ModVerif.Modfile ModVerif.EditSpec

theorem step_of_not_ok (V : Validity) (f : AbsFile) (op : EditSpec.Op) (h : stepOk V f op = false) : step V f op = f := by
  simp [step, h]

/-- a session of the model against the specification, for any state type with an abstraction and an invariant -/
theorem runOps_refines_gen {σ : Type} (apply : σ → Op → Option (Except EditErr σ)) (abs : σ → AbsFile) (Inv : σ → Prop)
    (Valid : Op → Prop) (V : Validity) (hvalid : ∀ op, Valid op → ValidOp op.toSpec)
    (hstep : ∀ e op, Valid op → Inv e →
      (∀ e', apply e op = some (.ok e') → stepOk V (abs e) op.toSpec = true ∧ Rel (abs e') (step V (abs e) op.toSpec) ∧ Inv e') ∧
      (∀ err, apply e op = some (.error err) → err.isReturned = true → stepOk V (abs e) op.toSpec = false))
    (ops : List Op) : ∀ (e : σ) (res0 : List Bool) (i : Nat) (e' : σ) (res : List Bool),
      (∀ op ∈ ops, Valid op) → Inv e → runOps apply e ops res0 i = .done e' res →
      Rel (abs e') (run V (abs e) (ops.map Op.toSpec)) ∧ res = res0.reverse ++ runOk V (abs e) (ops.map Op.toSpec) ∧ Inv e' := by
  induction ops with
  | nil =>
    intro e res0 i e' res _ hi h
    simp only [runOps, SessionResult.done.injEq] at h
    rcases h with ⟨rfl, rfl⟩
    exact ⟨Rel.refl _, by simp [runOk], hi⟩
  | cons op ops ih =>
    intro e res0 i e' res hv hi h
    have hvo := hv op List.mem_cons_self
    have hvs : ∀ o ∈ ops, Valid o := fun o ho => hv o (List.mem_cons_of_mem _ ho)
    have hvspec : ∀ o ∈ ops.map Op.toSpec, ValidOp o := by
      intro o ho
      rcases List.mem_map.1 ho with ⟨o', ho', rfl⟩
      exact hvalid o' (hvs o' ho')
    rcases hstep e op hvo hi with ⟨hok, herr⟩
    unfold runOps at h
    cases ha : apply e op with
    | none => simp [ha] at h
    | some r =>
      cases r with
      | ok e1 =>
        simp only [ha] at h
        rcases hok e1 ha with ⟨h1, h2, h3⟩
        rcases ih e1 (true :: res0) (i + 1) e' res hvs h3 h with ⟨h4, h5, h6⟩
        refine ⟨?_, ?_, h6⟩
        · simp only [List.map_cons, run, List.foldl_cons]
          exact h4.trans (Rel.run h2 V _ hvspec)
        · rw [h5]
          simp only [List.map_cons, runOk, h1, List.reverse_cons, List.append_assoc, List.singleton_append]
          rw [Rel.runOk h2 V _ hvspec]
      | error err =>
        simp only [ha] at h
        by_cases hr : err.isReturned = true
        · simp only [hr, if_true] at h
          have h1 := herr err ha hr
          rcases ih e (false :: res0) (i + 1) e' res hvs hi h with ⟨h4, h5, h6⟩
          refine ⟨?_, ?_, h6⟩
          · simp only [List.map_cons, run, List.foldl_cons, step_of_not_ok V _ _ h1]
            exact h4
          · rw [h5]
            simp only [List.map_cons, runOk, h1, List.reverse_cons, List.append_assoc, List.singleton_append,
              step_of_not_ok V _ _ h1]
        · simp only [Bool.not_eq_true] at hr
          simp [hr] at h

/-- **go.mod sessions, typed lists**: from any state satisfying the line-id invariant, the live typed lists after a
    session are (up to `Rel`) what the step table predicts, and the per-operation results are `runOk`. -/
theorem runOps_refines (ops : List Op) (e e' : EFile) (res : List Bool) (hv : ∀ op ∈ ops, ValidArgs op) (hi : TInv e)
    (h : runOps applyMod e ops [] 0 = .done e' res) :
    Rel (absLive e'.f) (run mV (absLive e.f) (ops.map Op.toSpec)) ∧ res = runOk mV (absLive e.f) (ops.map Op.toSpec) ∧ TInv e' := by
  have := runOps_refines_gen applyMod (fun e => absLive e.f) TInv ValidArgs mV (fun _ h => ValidArgs.toSpec h)
    (fun e op hv hi => applyMod_refines e op hv hi) ops e [] 0 e' res hv hi h
  simpa using this

/-! ### from a parsed file -/

/-- well-formedness of the starting file's typed lists: no directive has an empty key.  (A strict parse accepts
    `require "" v1.0.0`, `tool ""`, `godebug =x`, …; Cleanup cannot tell such an entry from a cleared placeholder —
    see `empty_key_dropped_by_cleanup_observation` in Props/C15.lean — so the property's "well-formed starting file"
    excludes them.) -/
structure WellFormedKeys (f : File) : Prop where
  godebug : ∀ g ∈ f.godebug, g.key ≠ []
  require : ∀ r ∈ f.require, r.mod.path ≠ []
  exclude : ∀ x ∈ f.exclude, x.mod.path ≠ []
  replace : ∀ r ∈ f.replace, r.old.path ≠ []
  retract : ∀ r ∈ f.retract, r.interval.low ≠ [] ∨ r.interval.high ≠ []
  tool : ∀ t ∈ f.tool, t.path ≠ []

/-- the line ids of the typed exclude / replace / tool entries of a file -/
def dupIds (f : File) : List Nat := f.exclude.map (·.lineId) ++ (f.replace.map (·.lineId) ++ f.tool.map (·.lineId))

/-- what the refinement needs of a starting file: well-formed keys; the exclude / replace / tool entries point at
    pairwise different lines of the tree (Go: distinct `*Line` pointers — the parser creates one typed entry per line) -/
structure StartOK (f : File) : Prop where
  keys : WellFormedKeys f
  idsNodup : (dupIds f).Nodup
  idsInTree : ∀ i ∈ dupIds f, ∃ l ∈ f.syn.allLines, l.id = i

theorem foldl_max_ge (l : List Line) : ∀ (m : Nat), m ≤ l.foldl (fun m l => Nat.max m l.id) m ∧
    ∀ x ∈ l, x.id ≤ l.foldl (fun m l => Nat.max m l.id) m := by
  induction l with
  | nil => intro m; exact ⟨Nat.le_refl _, fun _ h => by cases h⟩
  | cons y ys ih =>
    intro m
    simp only [List.foldl_cons]
    rcases ih (Nat.max m y.id) with ⟨h1, h2⟩
    refine ⟨Nat.le_trans (Nat.le_max_left _ _) h1, ?_⟩
    intro x hx
    rcases List.mem_cons.1 hx with rfl | hx
    · exact Nat.le_trans (Nat.le_max_right _ _) h1
    · exact h2 x hx

theorem allLines_shift (fs : FileSyntax) : (shiftSyntax fs).allLines = fs.allLines.map shiftLine := by
  unfold shiftSyntax FileSyntax.allLines
  simp only
  induction fs.stmts with
  | nil => rfl
  | cons x xs ih =>
    simp only [List.map_cons, List.flatMap_cons, List.map_append, ih]
    congr 1
    cases x <;> rfl

theorem id_lt_next_load (f : File) (l : Line) (hl : l ∈ f.syn.allLines) : l.id + 1 < (load f).next := by
  show l.id + 1 < maxId (shiftSyntax f.syn) + 1
  unfold maxId
  rw [allLines_shift]
  have := (foldl_max_ge (f.syn.allLines.map shiftLine) 0).2 (shiftLine l) (List.mem_map.2 ⟨l, hl, rfl⟩)
  simp only [shiftLine] at this
  omega

theorem absLive_load (f : File) (h : WellFormedKeys f) : absLive (load f).f = absOf f := by
  simp only [absLive, load, absOf]
  have e1 : liveAbs liveG aG (f.godebug.map fun g => { g with lineId := g.lineId + 1 }) = f.godebug.map fun g => (g.key, g.value) := by
    rw [liveAbs_all]
    · simp [aG, List.map_map, Function.comp_def]
    · intro x hx; rcases List.mem_map.1 hx with ⟨y, hy, rfl⟩; exact ne_nil_live (h.godebug y hy)
  have e2 : liveAbs liveRq aRq (f.require.map fun r => { r with lineId := r.lineId + 1 }) = f.require.map fun r => ⟨r.mod.path, r.mod.version, r.indirect⟩ := by
    rw [liveAbs_all]
    · simp [aRq, List.map_map, Function.comp_def]
    · intro x hx; rcases List.mem_map.1 hx with ⟨y, hy, rfl⟩; exact ne_nil_live (h.require y hy)
  have e3 : liveAbs liveX aX (f.exclude.map fun x => { x with lineId := x.lineId + 1 }) = f.exclude.map fun x => (x.mod.path, x.mod.version) := by
    rw [liveAbs_all]
    · simp [aX, List.map_map, Function.comp_def]
    · intro x hx; rcases List.mem_map.1 hx with ⟨y, hy, rfl⟩; exact ne_nil_live (h.exclude y hy)
  have e4 : liveAbs liveRp aRp (f.replace.map fun r => { r with lineId := r.lineId + 1 }) = f.replace.map fun r => ⟨r.old.path, r.old.version, r.new.path, r.new.version⟩ := by
    rw [liveAbs_all]
    · simp [aRp, List.map_map, Function.comp_def]
    · intro x hx; rcases List.mem_map.1 hx with ⟨y, hy, rfl⟩; exact ne_nil_live (h.replace y hy)
  have e5 : liveAbs liveRt aRt (f.retract.map fun r => { r with lineId := r.lineId + 1 }) = f.retract.map fun r => ⟨r.interval.low, r.interval.high, r.rationale⟩ := by
    rw [liveAbs_all]
    · simp [aRt, List.map_map, Function.comp_def]
    · intro x hx; rcases List.mem_map.1 hx with ⟨y, hy, rfl⟩
      simp only [liveRt]
      rcases h.retract y hy with h1 | h1
      · simp [ne_nil_live h1]
      · simp [ne_nil_live h1]
  have e6 : liveAbs liveT aT (f.tool.map fun t => { t with lineId := t.lineId + 1 }) = f.tool.map (·.path) := by
    rw [liveAbs_all]
    · simp [aT, List.map_map, Function.comp_def]
    · intro x hx; rcases List.mem_map.1 hx with ⟨y, hy, rfl⟩; exact ne_nil_live (h.tool y hy)
  rw [e1, e2, e3, e4, e5, e6]
  simp [Option.map_map, Function.comp_def]

theorem liveIds_all {α : Type} (live : α → Bool) (id : α → Nat) (l : List α) (h : ∀ x ∈ l, live x = true) :
    liveIds live id l = l.map id := by
  unfold liveIds; rw [List.filter_eq_self.2 h]

theorem idsOf_load (f : File) (h : WellFormedKeys f) : idsOf (load f).f = (dupIds f).map (· + 1) := by
  simp only [idsOf, load, dupIds, List.map_append]
  rw [liveIds_all, liveIds_all, liveIds_all]
  · simp [List.map_map, Function.comp_def]
  · intro x hx; rcases List.mem_map.1 hx with ⟨y, hy, rfl⟩; exact ne_nil_live (h.tool y hy)
  · intro x hx; rcases List.mem_map.1 hx with ⟨y, hy, rfl⟩; exact ne_nil_live (h.replace y hy)
  · intro x hx; rcases List.mem_map.1 hx with ⟨y, hy, rfl⟩; exact ne_nil_live (h.exclude y hy)

theorem IdWF_load {α : Type} (live : α → Bool) (id : α → Nat) (l : List α) (h : ∀ x ∈ l, live x = true ∧ id x ≠ 0) :
    IdWF live id l := by
  intro x hx
  exact ⟨fun _ => (h x hx).2, fun hl => by rw [(h x hx).1] at hl; cases hl⟩

/-- a loaded, well-formed file satisfies the line-id invariant -/
theorem TInv_load (f : File) (h : StartOK f) : TInv (load f) := by
  refine ⟨?_, ?_, ?_, ?_, ?_, Nat.succ_pos _⟩
  · apply IdWF_load
    intro x hx
    simp only [load] at hx
    rcases List.mem_map.1 hx with ⟨y, hy, rfl⟩
    exact ⟨ne_nil_live (h.keys.exclude y hy), Nat.succ_ne_zero _⟩
  · apply IdWF_load
    intro x hx
    simp only [load] at hx
    rcases List.mem_map.1 hx with ⟨y, hy, rfl⟩
    exact ⟨ne_nil_live (h.keys.replace y hy), Nat.succ_ne_zero _⟩
  · apply IdWF_load
    intro x hx
    simp only [load] at hx
    rcases List.mem_map.1 hx with ⟨y, hy, rfl⟩
    exact ⟨ne_nil_live (h.keys.tool y hy), Nat.succ_ne_zero _⟩
  · rw [idsOf_load f h.keys]
    have hn := h.idsNodup
    unfold List.Nodup at *
    rw [List.pairwise_map]
    exact hn.imp (fun hab e => hab (Nat.succ.inj e))
  · rw [idsOf_load f h.keys]
    intro i hi
    rcases List.mem_map.1 hi with ⟨j, hj, rfl⟩
    rcases h.idsInTree j hj with ⟨l, hl, rfl⟩
    exact id_lt_next_load f l hl

/-- **C08 `refines_abs_typed`.**  A go.mod session from a well-formed parsed file `f`, with valid arguments: if it
    runs to completion, the typed lists after the final Cleanup are the step table's prediction from `absOf f`
    (`Rel`: equal lists, except that requirements are equal per path — Go's map iteration order — and retractions
    are compared by interval, not rationale), and the per-operation results are the predicted ones.
    Holds for both map-iteration orders (`rev`) of every bulk setter in the session. -/
theorem refines_abs_typed (f : File) (ops : List Op) (e' : EFile) (res : List Bool) (hs : StartOK f)
    (hv : ∀ op ∈ ops, ValidArgs op) (h : runOps applyMod (load f) ops [] 0 = .done e' res) :
    Rel (absOf (cleanup e').f) (run mV (absOf f) (ops.map Op.toSpec)) ∧ res = runOk mV (absOf f) (ops.map Op.toSpec) := by
  rcases runOps_refines ops (load f) e' res hv (TInv_load f hs) h with ⟨h1, h2, _⟩
  rw [absLive_load f hs.keys] at h1 h2
  exact ⟨h1, h2⟩

/-- the same on the observable outcome of `sessionMod` -/
theorem sessionMod_refines (file : Bytes) (ops : List Op) (o : Outcome) (f : File)
    (hf : parseStrict (B "go.mod") file none = .ok f) (hs : StartOK f) (hv : ∀ op ∈ ops, ValidArgs op)
    (h : sessionMod file ops = some o) :
    o.start = absOf f ∧ Rel o.typed (run mV o.start (ops.map Op.toSpec)) ∧ o.res = runOk mV o.start (ops.map Op.toSpec) := by
  unfold sessionMod at h
  simp only [hf] at h
  cases hr : runOps applyMod (load f) ops [] 0 with
  | done e res =>
    simp only [hr, Option.some.injEq] at h
    subst h
    rcases refines_abs_typed f ops e res hs hv hr with ⟨h1, h2⟩
    exact ⟨rfl, h1, h2⟩
  | panic i => simp [hr] at h
  | badOp => simp [hr] at h

/-! ### executable checks of the hypotheses (for concrete instances) -/

/-- `StartOK` as a Boolean test -/
def startOKb (f : File) : Bool :=
  f.godebug.all (fun g => !g.key.isEmpty) && f.require.all (fun r => !r.mod.path.isEmpty) &&
  f.exclude.all (fun x => !x.mod.path.isEmpty) && f.replace.all (fun r => !r.old.path.isEmpty) &&
  f.retract.all (fun r => !r.interval.low.isEmpty || !r.interval.high.isEmpty) && f.tool.all (fun t => !t.path.isEmpty) &&
  decide (dupIds f).Nodup && (dupIds f).all (fun i => f.syn.allLines.any (fun l => l.id == i))

theorem isEmpty_false_ne {p : Bytes} (h : (!p.isEmpty) = true) : p ≠ [] := by
  intro e; subst e; cases h

theorem startOKb_sound (f : File) (h : startOKb f = true) : StartOK f := by
  unfold startOKb at h
  simp only [Bool.and_eq_true, List.all_eq_true, decide_eq_true_eq, List.any_eq_true] at h
  rcases h with ⟨⟨⟨⟨⟨⟨⟨h1, h2⟩, h3⟩, h4⟩, h5⟩, h6⟩, h7⟩, h8⟩
  refine ⟨⟨fun g hg => isEmpty_false_ne (h1 g hg), fun g hg => isEmpty_false_ne (h2 g hg),
    fun g hg => isEmpty_false_ne (h3 g hg), fun g hg => isEmpty_false_ne (h4 g hg), ?_,
    fun g hg => isEmpty_false_ne (h6 g hg)⟩, h7, ?_⟩
  · intro r hr
    have := h5 r hr
    simp only [Bool.or_eq_true] at this
    rcases this with h | h
    · exact Or.inl (isEmpty_false_ne h)
    · exact Or.inr (isEmpty_false_ne h)
  · intro i hi
    rcases h8 i hi with ⟨l, hl, he⟩
    exact ⟨l, hl, eq_of_beq he⟩

/-- `ValidArgs` as a Boolean test -/
def validArgsB : Op → Bool
  | .addGodebug k _ => !k.isEmpty
  | .addRequire p _ => !p.isEmpty
  | .addNewRequire p _ _ => !p.isEmpty
  | .setRequire w _ => decide (w.Pairwise (fun a b => a.path ≠ b.path)) && w.all (fun x => !x.path.isEmpty)
  | .setRequireSeparateIndirect w _ => decide (w.Pairwise (fun a b => a.path ≠ b.path)) && w.all (fun x => !x.path.isEmpty)
  | .addExclude p _ => !p.isEmpty
  | .addReplace op _ _ _ => !op.isEmpty
  | .addTool p => !p.isEmpty
  | .addUse d _ => !d.isEmpty
  | .addNewUse d _ => !d.isEmpty
  | .setUse w _ => decide ((w.map Prod.fst).Pairwise (· ≠ ·)) && w.all (fun x => !x.1.isEmpty)
  | _ => true

theorem validArgsB_sound (op : Op) (h : validArgsB op = true) : ValidArgs op := by
  cases op <;> simp only [validArgsB, ValidArgs, Bool.and_eq_true, decide_eq_true_eq, List.all_eq_true] at h ⊢ <;>
    first
      | trivial
      | exact isEmpty_false_ne h
      | exact ⟨h.1, fun w hw => isEmpty_false_ne (h.2 w hw)⟩

end ModVerif.Modfile.Edit
