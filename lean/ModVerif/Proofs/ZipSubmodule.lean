import ModVerif.Spec.ZipSpec
import ModVerif.Proofs.ZipNameOK
namespace ModVerif.Proofs.Zip
open ModVerif ModVerif.PathClean ModVerif.Zip ModVerif.ZipSpec

/-! ### module roots found by the first loop -/

theorem prePass_haveGoMod_mem : ∀ (l : List FileInfo) (a : Pre) (d : Bytes),
    d ∈ (l.foldl preStep a).haveGoMod ↔
      d ∈ a.haveGoMod ∨ ∃ g ∈ l, isGoModFile g = true ∧ (pathSplit g.path).1 = d := by
  intro l
  induction l with
  | nil => intro a d; simp
  | cons f t ih =>
    intro a d
    show d ∈ (t.foldl preStep (preStep a f)).haveGoMod ↔ _
    rw [ih, preStep_haveGoMod]
    by_cases hf : isGoModFile f = true
    · simp only [hf, if_true, List.mem_append, List.mem_cons, List.not_mem_nil, or_false]
      constructor
      · rintro ((h | h) | ⟨g, hg, h1, h2⟩)
        · exact Or.inl h
        · exact Or.inr ⟨f, Or.inl rfl, hf, h.symm⟩
        · exact Or.inr ⟨g, Or.inr hg, h1, h2⟩
      · rintro (h | ⟨g, hg | hg, h1, h2⟩)
        · exact Or.inl (Or.inl h)
        · subst hg; exact Or.inl (Or.inr h2.symm)
        · exact Or.inr ⟨g, hg, h1, h2⟩
    · simp only [hf, Bool.false_eq_true, if_false, List.mem_cons]
      constructor
      · rintro (h | ⟨g, hg, h1, h2⟩)
        · exact Or.inl h
        · exact Or.inr ⟨g, Or.inr hg, h1, h2⟩
      · rintro (h | ⟨g, hg | hg, h1, h2⟩)
        · exact Or.inl h
        · subst hg; exact absurd h1 hf
        · exact Or.inr ⟨g, hg, h1, h2⟩

/-- the directories the first loop records are exactly the module roots the list declares -/
theorem haveGoMod_iff (files : List FileInfo) (d : Bytes) :
    d ∈ (prePass files).haveGoMod ↔ IsModuleDir files d := by
  unfold prePass
  rw [prePass_haveGoMod_mem]
  unfold IsModuleDir isGoModFile
  constructor
  · rintro (h | ⟨g, hg, h1, h2⟩)
    · cases h
    · simp at h1; exact ⟨g, hg, h1.2, h1.1, h2⟩
  · rintro ⟨g, hg, h1, h2, h3⟩
    exact Or.inr ⟨g, hg, by simp [h1, h2], h3⟩

theorem inSubmodule_iff (files : List FileInfo) (p : Bytes) :
    inSubmodule (prePass files).haveGoMod p = true ↔ ∃ d ∈ dirPrefixes p, IsModuleDir files d := by
  unfold inSubmodule
  rw [List.any_eq_true]
  constructor
  · rintro ⟨d, hd, h⟩
    exact ⟨d, hd, (haveGoMod_iff files d).mp (by simpa using h)⟩
  · rintro ⟨d, hd, h⟩
    exact ⟨d, hd, by simpa using (haveGoMod_iff files d).mpr h⟩

/-! ### dirPrefixes -/

theorem mem_dirPrefixesAux (a b : Bytes) : ∀ (racc : Bytes),
    racc.reverse ++ a ++ [47] ∈ dirPrefixesAux racc (a ++ 47 :: b) := by
  induction a with
  | nil => intro racc; simp [dirPrefixesAux]
  | cons c t ih =>
    intro racc
    have := ih (c :: racc)
    simp only [List.reverse_cons, List.append_assoc, List.singleton_append] at this
    show _ ∈ dirPrefixesAux racc (c :: (t ++ 47 :: b))
    unfold dirPrefixesAux
    split
    · exact List.mem_cons_of_mem _ (by simpa using this)
    · simpa using this

/-- every prefix of a path that ends in a slash is one of its `dirPrefixes` -/
theorem mem_dirPrefixes (a b : Bytes) : a ++ [47] ∈ dirPrefixes (a ++ 47 :: b) := by
  have := mem_dirPrefixesAux a b []
  simpa [dirPrefixes] using this

theorem dirPrefixesAux_sound : ∀ (p racc d : Bytes), d ∈ dirPrefixesAux racc p →
    ∃ a b, p = a ++ 47 :: b ∧ d = racc.reverse ++ a ++ [47] := by
  intro p
  induction p with
  | nil => intro racc d h; simp [dirPrefixesAux] at h
  | cons c t ih =>
    intro racc d h
    unfold dirPrefixesAux at h
    split at h
    · rename_i hc
      have hc' : c = 47 := by simpa using hc
      rcases List.mem_cons.mp h with h | h
      · exact ⟨[], t, by rw [hc']; rfl, by rw [h, hc']; simp⟩
      · obtain ⟨a, b, h1, h2⟩ := ih _ _ h
        exact ⟨c :: a, b, by rw [h1]; rfl, by rw [h2]; simp⟩
    · obtain ⟨a, b, h1, h2⟩ := ih _ _ h
      exact ⟨c :: a, b, by rw [h1]; rfl, by rw [h2]; simp⟩

/-- `dirPrefixes p` are exactly the prefixes of `p` that end in a slash -/
theorem mem_dirPrefixes_iff (p d : Bytes) : d ∈ dirPrefixes p ↔ ∃ a b, p = a ++ 47 :: b ∧ d = a ++ [47] := by
  constructor
  · intro h
    obtain ⟨a, b, h1, h2⟩ := dirPrefixesAux_sound p [] d h
    exact ⟨a, b, h1, by simpa using h2⟩
  · rintro ⟨a, b, rfl, rfl⟩; exact mem_dirPrefixes a b


/-! ### path.Split -/

theorem pathSplit_spec (p : Bytes) :
    p = (pathSplit p).1 ++ (pathSplit p).2 ∧ (pathSplit p).2 = lastElem p ∧
    ((pathSplit p).1 = [] ∨ ∃ a, (pathSplit p).1 = a ++ [47]) := by
  have key : ∀ tw dw : Bytes, p.reverse = tw ++ dw → p = dw.reverse ++ tw.reverse := by
    intro tw dw h
    have := congrArg List.reverse h
    simpa using this
  have hp : p = (p.reverse.dropWhile (· != 47)).reverse ++ (p.reverse.takeWhile (· != 47)).reverse :=
    key _ _ (List.takeWhile_append_dropWhile).symm
  have htake : ∀ a b : Bytes, (a ++ b).take ((a ++ b).length - b.length) = a := by
    intro a b; simp
  have hdir : (pathSplit p).1 = (p.reverse.dropWhile (· != 47)).reverse := by
    show p.take (p.length - (lastElem p).length) = _
    have h2 := htake (p.reverse.dropWhile (· != 47)).reverse (p.reverse.takeWhile (· != 47)).reverse
    rw [← hp] at h2
    exact h2
  refine ⟨?_, rfl, ?_⟩
  · rw [hdir]; exact hp
  · rw [hdir]
    cases hd : p.reverse.dropWhile (· != 47) with
    | nil => left; rfl
    | cons c t =>
      right
      have := List.head?_dropWhile_not (fun x : UInt8 => x != 47) p.reverse
      rw [hd] at this
      simp at this
      exact ⟨t.reverse, by rw [this]; simp⟩


/-- a regular file of the list named go.mod (any case) below the root is inside the module its own
    directory declares -/
theorem goMod_below_root_inSubmodule (files : List FileInfo) (f : FileInfo) (hf : f ∈ files)
    (hreg : f.mode = .regular) (hgm : equalFoldGoMod (lastElem f.path) = true)
    (hdir : (pathSplit f.path).1 ≠ []) : inSubmodule (prePass files).haveGoMod f.path = true := by
  obtain ⟨h1, h2, h3⟩ := pathSplit_spec f.path
  rcases h3 with h3 | ⟨a, ha⟩
  · exact absurd h3 hdir
  · rw [inSubmodule_iff]
    refine ⟨(pathSplit f.path).1, ?_, f, hf, hreg, by rw [h2]; exact hgm, rfl⟩
    rw [mem_dirPrefixes_iff]
    exact ⟨a, (pathSplit f.path).2, by rw [ha] at h1; simpa using h1, ha⟩

/-- go.mod appears only at the root, in lower case: a valid file whose last path element is go.mod in
    any case is the root `go.mod`. -/
theorem valid_goMod_is_root (E : Env) (ge124 : Bool) (files : List FileInfo) (f : FileInfo) (hf : f ∈ files)
    (ok : NameOK E ge124 (prePass files).haveGoMod f) (hgm : equalFoldGoMod (lastElem f.path) = true) :
    f.path = goModName := by
  by_cases hdir : (pathSplit f.path).1 = []
  · obtain ⟨h1, h2, _⟩ := pathSplit_spec f.path
    rw [hdir, h2] at h1
    apply ok.goModCase
    have : f.path = lastElem f.path := by simpa using h1
    unfold toLowerIsGoMod
    rw [this]; exact hgm
  · have := goMod_below_root_inSubmodule files f hf ok.regular hgm hdir
    rw [ok.notInSubmodule] at this; cases this

end ModVerif.Proofs.Zip
