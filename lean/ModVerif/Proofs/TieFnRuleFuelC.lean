/-
  Fuel of the regenerated directive layer from the INPUT LENGTH, part C: comment assignment conserves the size `NEs`
  (every recorded comment lands in at most one `before` / `suffix` list) and leaves the tokens alone; with part B:

    `parse_w`:  `parse name data = .ok fs → NEs fs.stmts ≤ data.length + 1 ∧ ∀ s ∈ fs.stmts, TokLe data.length s`.
  Owner: rule-fuel.
-/
import ModVerif.Proofs.TieFnRuleFuelB
set_option linter.unusedSimpArgs false
set_option linter.unusedVariables false
namespace ModVerif.Tie.FnRuleFuelC
open ModVerif ModVerif.Modfile ModVerif.Tie.FnRuleFuelA ModVerif.Tie.FnRuleFuelB

theorem takeLine_len (start : Position) : ∀ (l : List Comment), (takeLine start l).1.length + (takeLine start l).2.length = l.length := by
  intro l
  induction l with
  | nil => rfl
  | cons c rest ih =>
    unfold takeLine
    split
    · simp only [List.length_cons]; omega
    · simp

theorem assignBefore_w (start : Position) (cs cs' : Comments) (line r : List Comment) (h : assignBefore start cs line = (cs', r)) :
    cl cs' + r.length = cl cs + line.length := by
  unfold assignBefore at h
  simp only [Prod.mk.injEq] at h
  obtain ⟨rfl, rfl⟩ := h
  have := takeLine_len start line
  simp only [cl, List.length_append]
  omega

theorem takeSuffix_len (e : Position) : ∀ (l acc t r : List Comment), takeSuffix e acc l = (t, r) →
    t.length + r.length = acc.length + l.length := by
  intro l
  induction l with
  | nil => intro acc t r h; simp [takeSuffix] at h; obtain ⟨rfl, rfl⟩ := h; simp
  | cons c rest ih =>
    intro acc t r h
    unfold takeSuffix at h
    split at h
    · have := ih (c :: acc) t r h
      simp only [List.length_cons] at this ⊢
      omega
    · simp only [Prod.mk.injEq] at h
      obtain ⟨rfl, rfl⟩ := h
      simp

theorem assignSuffix_w (span : Position × Position) (cs cs' : Comments) (suf r : List Comment)
    (h : assignSuffix span cs suf = (cs', r)) : cl cs' + r.length = cl cs + suf.length := by
  unfold assignSuffix at h
  split at h
  · simp only [Prod.mk.injEq] at h
    obtain ⟨rfl, rfl⟩ := h
    simp [cl]
  · cases ht : takeSuffix span.2 [] suf with
    | mk t r0 =>
      simp only [ht, Prod.mk.injEq] at h
      obtain ⟨rfl, rfl⟩ := h
      have := takeSuffix_len span.2 suf [] t r0 ht
      simp only [cl, List.length_reverse, List.length_append, List.length_nil] at this ⊢
      omega

/-! ### lines -/

theorem preLines_w : ∀ (ls ls' : List Line) (line r : List Comment), preLines ls line = (ls', r) →
    NLs ls' + r.length = NLs ls + line.length ∧ ls'.map (·.token) = ls.map (·.token) := by
  intro ls
  induction ls with
  | nil => intro ls' line r h; simp [preLines] at h; obtain ⟨rfl, rfl⟩ := h; simp
  | cons l ls ih =>
    intro ls' line r h
    unfold preLines at h
    cases h1 : assignBefore l.start l.comments line with
    | mk c r1 =>
      cases h2 : preLines ls r1 with
      | mk ls2 r2 =>
        simp only [h1, h2, Prod.mk.injEq] at h
        obtain ⟨rfl, rfl⟩ := h
        have e1 := assignBefore_w _ _ _ _ _ h1
        obtain ⟨e2, e3⟩ := ih ls2 r1 r2 h2
        simp only [NLs_cons, NL, List.map_cons, e3]
        exact ⟨by omega, trivial⟩

theorem postLinesRev_w : ∀ (ls ls' : List Line) (suf r : List Comment), postLinesRev ls suf = (ls', r) →
    NLs ls' + r.length = NLs ls + suf.length ∧ ls'.map (·.token) = ls.map (·.token) := by
  intro ls
  induction ls with
  | nil => intro ls' suf r h; simp [postLinesRev] at h; obtain ⟨rfl, rfl⟩ := h; simp
  | cons l ls ih =>
    intro ls' suf r h
    unfold postLinesRev at h
    cases h1 : assignSuffix (l.start, l.«end») l.comments suf with
    | mk c r1 =>
      cases h2 : postLinesRev ls r1 with
      | mk ls2 r2 =>
        simp only [h1, h2, Prod.mk.injEq] at h
        obtain ⟨rfl, rfl⟩ := h
        have e1 := assignSuffix_w _ _ _ _ _ h1
        obtain ⟨e2, e3⟩ := ih ls2 r1 r2 h2
        simp only [NLs_cons, NL, List.map_cons, e3]
        exact ⟨by omega, trivial⟩

theorem linesLe_of_map {R : Nat} {ls ls' : List Line} (hm : ls'.map (·.token) = ls.map (·.token))
    (h : ∀ l ∈ ls, tsum l.token ≤ R) : ∀ l ∈ ls', tsum l.token ≤ R := by
  intro l hl
  have : l.token ∈ ls'.map (·.token) := List.mem_map.2 ⟨l, hl, rfl⟩
  rw [hm] at this
  obtain ⟨l0, hl0, he⟩ := List.mem_map.1 this
  have := h l0 hl0
  rw [he] at this
  exact this

/-! ### statements -/

theorem preStmt_w (R : Nat) (s s' : Expr) (line r : List Comment) (h : preStmt s line = (s', r)) :
    NE s' + r.length = NE s + line.length ∧ (TokLe R s → TokLe R s') := by
  cases s with
  | lineBlock b =>
    unfold preStmt at h
    simp only at h
    cases h1 : assignBefore b.start b.comments line with
    | mk c r1 =>
      cases h2 : assignBefore b.lparen.pos b.lparen.comments r1 with
      | mk lc r2 =>
        cases h3 : preLines b.lines r2 with
        | mk ls r3 =>
          cases h4 : assignBefore b.rparen.pos b.rparen.comments r3 with
          | mk rc r4 =>
            simp only [h1, h2, h3, h4, Prod.mk.injEq] at h
            obtain ⟨rfl, rfl⟩ := h
            have e1 := assignBefore_w _ _ _ _ _ h1
            have e2 := assignBefore_w _ _ _ _ _ h2
            obtain ⟨e3, e3'⟩ := preLines_w _ _ _ _ h3
            have e4 := assignBefore_w _ _ _ _ _ h4
            simp only [NE]
            exact ⟨by omega, fun ht => linesLe_of_map e3' ht⟩
  | commentBlock x =>
    unfold preStmt at h
    cases h1 : assignBefore (Expr.commentBlock x).span.1 (Expr.commentBlock x).comments line with
    | mk c r1 =>
      simp only [h1, Prod.mk.injEq] at h
      obtain ⟨rfl, rfl⟩ := h
      have e1 := assignBefore_w _ _ _ _ _ h1
      have e2 := NE_setComments (Expr.commentBlock x) c
      exact ⟨by omega, (TokLe_setComments R _ _).2⟩
  | line x =>
    unfold preStmt at h
    cases h1 : assignBefore (Expr.line x).span.1 (Expr.line x).comments line with
    | mk c r1 =>
      simp only [h1, Prod.mk.injEq] at h
      obtain ⟨rfl, rfl⟩ := h
      have e1 := assignBefore_w _ _ _ _ _ h1
      have e2 := NE_setComments (Expr.line x) c
      exact ⟨by omega, (TokLe_setComments R _ _).2⟩
  | lparen x =>
    unfold preStmt at h
    cases h1 : assignBefore (Expr.lparen x).span.1 (Expr.lparen x).comments line with
    | mk c r1 =>
      simp only [h1, Prod.mk.injEq] at h
      obtain ⟨rfl, rfl⟩ := h
      have e1 := assignBefore_w _ _ _ _ _ h1
      have e2 := NE_setComments (Expr.lparen x) c
      exact ⟨by omega, (TokLe_setComments R _ _).2⟩
  | rparen x =>
    unfold preStmt at h
    cases h1 : assignBefore (Expr.rparen x).span.1 (Expr.rparen x).comments line with
    | mk c r1 =>
      simp only [h1, Prod.mk.injEq] at h
      obtain ⟨rfl, rfl⟩ := h
      have e1 := assignBefore_w _ _ _ _ _ h1
      have e2 := NE_setComments (Expr.rparen x) c
      exact ⟨by omega, (TokLe_setComments R _ _).2⟩

theorem postStmt_w (R : Nat) (s s' : Expr) (suf r : List Comment) (h : postStmt s suf = (s', r)) :
    NE s' + r.length = NE s + suf.length ∧ (TokLe R s → TokLe R s') := by
  cases s with
  | lineBlock b =>
    unfold postStmt at h
    simp only at h
    cases h1 : assignSuffix (Expr.lineBlock b).span b.comments suf with
    | mk c r1 =>
      cases h2 : assignSuffix (Expr.rparen b.rparen).span b.rparen.comments r1 with
      | mk rc r2 =>
        cases h3 : postLinesRev b.lines.reverse r2 with
        | mk lsRev r3 =>
          cases h4 : assignSuffix (Expr.lparen b.lparen).span b.lparen.comments r3 with
          | mk lc r4 =>
            simp only [h1, h2, h3, h4, Prod.mk.injEq] at h
            obtain ⟨rfl, rfl⟩ := h
            have e1 := assignSuffix_w _ _ _ _ _ h1
            have e2 := assignSuffix_w _ _ _ _ _ h2
            obtain ⟨e3, e3'⟩ := postLinesRev_w _ _ _ _ h3
            have e4 := assignSuffix_w _ _ _ _ _ h4
            simp only [NLs_reverse] at e3
            simp only [NE, NLs_reverse]
            refine ⟨by omega, fun ht l hl => ?_⟩
            have hl' : l ∈ lsRev := List.mem_reverse.1 hl
            exact linesLe_of_map e3' (fun l0 hl0 => ht l0 (List.mem_reverse.1 hl0)) l hl'
  | commentBlock x =>
    unfold postStmt at h
    cases h1 : assignSuffix (Expr.commentBlock x).span (Expr.commentBlock x).comments suf with
    | mk c r1 =>
      simp only [h1, Prod.mk.injEq] at h
      obtain ⟨rfl, rfl⟩ := h
      have e1 := assignSuffix_w _ _ _ _ _ h1
      have e2 := NE_setComments (Expr.commentBlock x) c
      exact ⟨by omega, (TokLe_setComments R _ _).2⟩
  | line x =>
    unfold postStmt at h
    cases h1 : assignSuffix (Expr.line x).span (Expr.line x).comments suf with
    | mk c r1 =>
      simp only [h1, Prod.mk.injEq] at h
      obtain ⟨rfl, rfl⟩ := h
      have e1 := assignSuffix_w _ _ _ _ _ h1
      have e2 := NE_setComments (Expr.line x) c
      exact ⟨by omega, (TokLe_setComments R _ _).2⟩
  | lparen x =>
    unfold postStmt at h
    cases h1 : assignSuffix (Expr.lparen x).span (Expr.lparen x).comments suf with
    | mk c r1 =>
      simp only [h1, Prod.mk.injEq] at h
      obtain ⟨rfl, rfl⟩ := h
      have e1 := assignSuffix_w _ _ _ _ _ h1
      have e2 := NE_setComments (Expr.lparen x) c
      exact ⟨by omega, (TokLe_setComments R _ _).2⟩
  | rparen x =>
    unfold postStmt at h
    cases h1 : assignSuffix (Expr.rparen x).span (Expr.rparen x).comments suf with
    | mk c r1 =>
      simp only [h1, Prod.mk.injEq] at h
      obtain ⟨rfl, rfl⟩ := h
      have e1 := assignSuffix_w _ _ _ _ _ h1
      have e2 := NE_setComments (Expr.rparen x) c
      exact ⟨by omega, (TokLe_setComments R _ _).2⟩

theorem preStmts_w (R : Nat) : ∀ (ss ss' : List Expr) (line r : List Comment), preStmts ss line = (ss', r) →
    NEs ss' + r.length = NEs ss + line.length ∧ ((∀ s ∈ ss, TokLe R s) → ∀ s ∈ ss', TokLe R s) := by
  intro ss
  induction ss with
  | nil => intro ss' line r h; simp [preStmts] at h; obtain ⟨rfl, rfl⟩ := h; simp
  | cons s ss ih =>
    intro ss' line r h
    unfold preStmts at h
    cases h1 : preStmt s line with
    | mk s1 r1 =>
      cases h2 : preStmts ss r1 with
      | mk ss2 r2 =>
        simp only [h1, h2, Prod.mk.injEq] at h
        obtain ⟨rfl, rfl⟩ := h
        obtain ⟨e1, t1⟩ := preStmt_w R _ _ _ _ h1
        obtain ⟨e2, t2⟩ := ih ss2 r1 r2 h2
        simp only [NEs_cons]
        refine ⟨by omega, fun ht x hx => ?_⟩
        rcases List.mem_cons.1 hx with rfl | hx
        · exact t1 (ht s (by simp))
        · exact t2 (fun y hy => ht y (by simp [hy])) x hx

theorem postStmtsRev_w (R : Nat) : ∀ (ss ss' : List Expr) (suf r : List Comment), postStmtsRev ss suf = (ss', r) →
    NEs ss' + r.length = NEs ss + suf.length ∧ ((∀ s ∈ ss, TokLe R s) → ∀ s ∈ ss', TokLe R s) := by
  intro ss
  induction ss with
  | nil => intro ss' suf r h; simp [postStmtsRev] at h; obtain ⟨rfl, rfl⟩ := h; simp
  | cons s ss ih =>
    intro ss' suf r h
    unfold postStmtsRev at h
    cases h1 : postStmt s suf with
    | mk s1 r1 =>
      cases h2 : postStmtsRev ss r1 with
      | mk ss2 r2 =>
        simp only [h1, h2, Prod.mk.injEq] at h
        obtain ⟨rfl, rfl⟩ := h
        obtain ⟨e1, t1⟩ := postStmt_w R _ _ _ _ h1
        obtain ⟨e2, t2⟩ := ih ss2 r1 r2 h2
        simp only [NEs_cons]
        refine ⟨by omega, fun ht x hx => ?_⟩
        rcases List.mem_cons.1 hx with rfl | hx
        · exact t1 (ht s (by simp))
        · exact t2 (fun y hy => ht y (by simp [hy])) x hx

/-! ### the file -/

theorem filter_len (l : List Comment) : (l.filter (!·.suffix)).length + (l.filter (·.suffix)).length = l.length := by
  induction l with
  | nil => rfl
  | cons c l ih => cases h : c.suffix <;> simp [List.filter_cons, h] <;> omega

theorem assignComments_w (R : Nat) (f : FileSyntax) (cs : List Comment) :
    NEs (assignComments f cs).stmts ≤ NEs f.stmts + cs.length ∧
    ((∀ s ∈ f.stmts, TokLe R s) → ∀ s ∈ (assignComments f cs).stmts, TokLe R s) := by
  unfold assignComments
  cases h0 : assignBefore f.span.1 f.comments (cs.filter (!·.suffix)) with
  | mk fc r0 =>
    cases h1 : preStmts f.stmts r0 with
    | mk st1 r1 =>
      cases h2 : postStmtsRev st1.reverse (cs.filter (·.suffix)).reverse with
      | mk st2 r2 =>
        simp only [h0, h1, h2]
        have e0 := assignBefore_w _ _ _ _ _ h0
        obtain ⟨e1, t1⟩ := preStmts_w R _ _ _ _ h1
        obtain ⟨e2, t2⟩ := postStmtsRev_w R _ _ _ _ h2
        have e3 := filter_len cs
        simp only [NEs_reverse, List.length_reverse] at e2 ⊢
        have : cl fc ≥ cl f.comments := by
          unfold assignBefore at h0
          simp only [Prod.mk.injEq] at h0
          obtain ⟨rfl, _⟩ := h0
          simp only [cl, List.length_append]; omega
        refine ⟨by omega, fun ht s hs => ?_⟩
        exact t2 (fun y hy => t1 ht y (List.mem_reverse.1 hy)) s (List.mem_reverse.1 hs)

/-- **the parsed tree is paid by the input** -/
theorem parse_w {name data : Bytes} {fs : FileSyntax} (h : parse name data = .ok fs) :
    NEs fs.stmts ≤ data.length + 1 ∧ ∀ s ∈ fs.stmts, TokLe data.length s := by
  unfold parse at h
  cases hp : parseFile data with
  | error e => simp [hp, bind, Except.bind] at h
  | ok v =>
    obtain ⟨ss, i⟩ := v
    simp only [hp, bind, Except.bind, Except.ok.injEq] at h
    subst h
    obtain ⟨a1, a2⟩ := parseFile_w hp
    obtain ⟨b1, b2⟩ := assignComments_w data.length { name := name, stmts := ss } i.commentsRev.reverse
    simp only [List.length_reverse] at b1
    exact ⟨by omega, b2 a2⟩

end ModVerif.Tie.FnRuleFuelC
