/-
  Helper lemmas on the base64 model: round trips `decodeStd ∘ encodeStd`, `decodeRawStd ∘ encodeRawStd`,
  lengths and the characters that occur in an encoding.
-/
import ModVerif.Basic.Base64
namespace ModVerif.Base64
open ModVerif

theorem decChar_encChar (v : Nat) (h : v < 64) : decChar (encChar v) = some v := by
  have key : ∀ w : Fin 64, decChar (encChar w.val) = some w.val := by decide
  exact key ⟨v, h⟩

theorem encChar_not_special (v : Nat) (h : v < 64) :
    encChar v ≠ 10 ∧ encChar v ≠ 13 ∧ encChar v ≠ 61 := by
  have key : ∀ w : Fin 64, encChar w.val ≠ 10 ∧ encChar w.val ≠ 13 ∧ encChar w.val ≠ 61 := by decide
  exact key ⟨v, h⟩

theorem decChar_pad : decChar padChar = none := by decide
theorem isNL_pad : isNL padChar = false := by decide

/-! ### arithmetic of one quantum -/

theorem ofNat_toNat' (a : UInt8) (n : Nat) (h : n = a.toNat) : UInt8.ofNat n = a := by
  subst h; exact UInt8.ofNat_toNat

theorem emit4 (a b c : UInt8) :
    emit [(a.toNat * 65536 + b.toNat * 256 + c.toNat) / 262144,
          (a.toNat * 65536 + b.toNat * 256 + c.toNat) / 4096 % 64,
          (a.toNat * 65536 + b.toNat * 256 + c.toNat) / 64 % 64,
          (a.toNat * 65536 + b.toNat * 256 + c.toNat) % 64] = [a, b, c] := by
  have ha := UInt8.toNat_lt a
  have hb := UInt8.toNat_lt b
  have hc := UInt8.toNat_lt c
  simp only [emit]
  congr 1
  · apply ofNat_toNat'; omega
  congr 1
  · apply ofNat_toNat'; omega
  congr 1
  · apply ofNat_toNat'; omega

theorem emit3 (a b : UInt8) :
    emit [(a.toNat * 65536 + b.toNat * 256) / 262144,
          (a.toNat * 65536 + b.toNat * 256) / 4096 % 64,
          (a.toNat * 65536 + b.toNat * 256) / 64 % 64] = [a, b] := by
  have ha := UInt8.toNat_lt a
  have hb := UInt8.toNat_lt b
  simp only [emit]
  congr 1
  · apply ofNat_toNat'; omega
  congr 1
  · apply ofNat_toNat'; omega

theorem emit2 (a : UInt8) :
    emit [(a.toNat * 65536) / 262144, (a.toNat * 65536) / 4096 % 64] = [a] := by
  have ha := UInt8.toNat_lt a
  simp only [emit]
  congr 1
  · apply ofNat_toNat'; omega

/-! ### decoder steps on encoder output -/

theorem decodeAux_block (pad : Bool) (a b c d : Nat) (ha : a < 64) (hb : b < 64) (hc : c < 64)
    (hd : d < 64) (rest : Bytes) :
    decodeAux pad (encChar a :: encChar b :: encChar c :: encChar d :: rest) [] =
      (decodeAux pad rest []).map (emit [a, b, c, d] ++ ·) := by
  simp [decodeAux, decChar_encChar _ ha, decChar_encChar _ hb, decChar_encChar _ hc,
    decChar_encChar _ hd]

theorem decode_encode (pad : Bool) : ∀ x : Bytes, decodeAux pad (encode pad x) [] = some x
  | a :: b :: c :: rest => by
    have ha := UInt8.toNat_lt a
    have hb := UInt8.toNat_lt b
    have hc := UInt8.toNat_lt c
    simp only [encode]
    rw [decodeAux_block pad _ _ _ _ (by omega) (by omega) (by omega) (by omega)]
    rw [decode_encode pad rest, emit4]
    rfl
  | [a, b] => by
    have ha := UInt8.toNat_lt a
    have hb := UInt8.toNat_lt b
    have h1 : (a.toNat * 65536 + b.toNat * 256) / 262144 < 64 := by omega
    have h2 : (a.toNat * 65536 + b.toNat * 256) / 4096 % 64 < 64 := by omega
    have h3 : (a.toNat * 65536 + b.toNat * 256) / 64 % 64 < 64 := by omega
    cases pad <;>
      simp [encode, decodeAux, decChar_encChar _ h1, decChar_encChar _ h2, decChar_encChar _ h3,
        decChar_pad, isNL_pad, skipNL, emit3]
  | [a] => by
    have ha := UInt8.toNat_lt a
    have h1 : (a.toNat * 65536) / 262144 < 64 := by omega
    have h2 : (a.toNat * 65536) / 4096 % 64 < 64 := by omega
    cases pad <;>
      simp [encode, decodeAux, decChar_encChar _ h1, decChar_encChar _ h2,
        decChar_pad, isNL_pad, skipNL, emit2]
  | [] => by simp [encode, decodeAux]

theorem decodeStd_encodeStd (x : Bytes) : decodeStd (encodeStd x) = some x :=
  decode_encode true x

theorem decodeRawStd_encodeRawStd (x : Bytes) : decodeRawStd (encodeRawStd x) = some x :=
  decode_encode false x

/-! ### lengths -/

theorem encode_true_length : ∀ x : Bytes, (encode true x).length = 4 * ((x.length + 2) / 3)
  | a :: b :: c :: rest => by
    simp only [encode, List.length_cons, encode_true_length rest]; omega
  | [a, b] => by simp [encode]
  | [a] => by simp [encode]
  | [] => by simp [encode]

theorem encode_false_length : ∀ x : Bytes, (encode false x).length = (x.length * 8 + 5) / 6
  | a :: b :: c :: rest => by
    simp only [encode, List.length_cons, encode_false_length rest]; omega
  | [a, b] => by simp [encode]
  | [a] => by simp [encode]
  | [] => by simp [encode]

theorem encodeStd_length (x : Bytes) : (encodeStd x).length = 4 * ((x.length + 2) / 3) :=
  encode_true_length x

theorem encodeRawStd_length (x : Bytes) : (encodeRawStd x).length = (x.length * 8 + 5) / 6 :=
  encode_false_length x

theorem encodeStd_length_32 (x : Bytes) (h : x.length = 32) : (encodeStd x).length = 44 := by
  rw [encodeStd_length, h]

theorem encodeRawStd_length_32 (x : Bytes) (h : x.length = 32) : (encodeRawStd x).length = 43 := by
  rw [encodeRawStd_length, h]

/-! ### characters of an encoding -/

/-- every character of an encoding is an alphabet character or the padding character -/
theorem encode_chars (pad : Bool) : ∀ x : Bytes, ∀ ch ∈ encode pad x,
    (∃ v, v < 64 ∧ ch = encChar v) ∨ ch = padChar
  | a :: b :: c :: rest => by
    have ha := UInt8.toNat_lt a
    have hb := UInt8.toNat_lt b
    have hc := UInt8.toNat_lt c
    intro ch hch
    simp only [encode, List.mem_cons] at hch
    rcases hch with h | h | h | h | h
    · exact Or.inl ⟨_, by omega, h⟩
    · exact Or.inl ⟨_, by omega, h⟩
    · exact Or.inl ⟨_, by omega, h⟩
    · exact Or.inl ⟨_, by omega, h⟩
    · exact encode_chars pad rest ch h
  | [a, b] => by
    have ha := UInt8.toNat_lt a
    have hb := UInt8.toNat_lt b
    intro ch hch
    simp only [encode, List.mem_append, List.mem_cons, List.not_mem_nil, or_false] at hch
    rcases hch with (h | h | h) | h
    · exact Or.inl ⟨_, by omega, h⟩
    · exact Or.inl ⟨_, by omega, h⟩
    · exact Or.inl ⟨_, by omega, h⟩
    · cases pad <;> simp at h
      exact Or.inr h
  | [a] => by
    have ha := UInt8.toNat_lt a
    intro ch hch
    simp only [encode, List.mem_append, List.mem_cons, List.not_mem_nil, or_false] at hch
    rcases hch with (h | h) | h
    · exact Or.inl ⟨_, by omega, h⟩
    · exact Or.inl ⟨_, by omega, h⟩
    · cases pad <;> simp at h
      exact Or.inr h
  | [] => by simp [encode]

theorem encode_no_nl (pad : Bool) (x : Bytes) : ∀ ch ∈ encode pad x, ch ≠ 10 ∧ ch ≠ 13 := by
  intro ch hch
  rcases encode_chars pad x ch hch with ⟨v, hv, rfl⟩ | rfl
  · exact ⟨(encChar_not_special v hv).1, (encChar_not_special v hv).2.1⟩
  · decide

theorem encodeStd_no_newline (x : Bytes) : (10 : UInt8) ∉ encodeStd x :=
  fun h => (encode_no_nl true x 10 h).1 rfl

theorem encodeRawStd_no_newline (x : Bytes) : (10 : UInt8) ∉ encodeRawStd x :=
  fun h => (encode_no_nl false x 10 h).1 rfl

/-- no double quote (34) in an encoding either -/
theorem encChar_ne_quote (v : Nat) (h : v < 64) : encChar v ≠ 34 := by
  have key : ∀ w : Fin 64, encChar w.val ≠ 34 := by decide
  exact key ⟨v, h⟩

/-! ### padded versus raw form -/

theorem encode_true_eq_false_append : ∀ x : Bytes, x.length % 3 = 2 →
    encode true x = encode false x ++ [61]
  | a :: b :: c :: rest, h => by
    simp only [List.length_cons] at h
    simp only [encode, List.cons_append, encode_true_eq_false_append rest (by omega)]
  | [a, b], _ => by simp [encode, padChar]
  | [a], h => by simp at h
  | [], h => by simp at h

theorem encodeStd_eq_raw_append (x : Bytes) (h : x.length % 3 = 2) :
    encodeStd x = encodeRawStd x ++ [61] :=
  encode_true_eq_false_append x h

theorem encodeStd_getLast_32 (x : Bytes) (h : x.length = 32) :
    (encodeStd x)[43]? = some 61 := by
  have hr := encodeRawStd_length_32 x h
  rw [encodeStd_eq_raw_append x (by omega)]
  rw [List.getElem?_append_right (by omega)]
  simp [hr]
end ModVerif.Base64
