/-
  ClientRefine, part 3 — the SEQUENTIAL client's once-per-key caches (`c.record`, `c.tileCache`: association lists with
  cached errors, Model/Client.lean) against the `parCache.Do` machine (Model/ParCache.lean) run by ONE goroutine at a
  time (each call of `Do` runs alone, from `idle` to `returned`).  Helper for Props/C14.lean.

  Which sequential code each transition of the machine abstracts when a call runs alone:
    idle         the call `c.record.Do(file, f)` / `c.tileCache.Do(tile, f)` is made
    load         `c.m.Load(key)`                         — `List.lookup` (first half: is there an entry?)
    loadOrStore  `c.m.LoadOrStore(key, new(cacheEntry))` — only on a miss
    loadDone1    `atomic.LoadUint32(&e.done)`            — `List.lookup` (second half: hit ⇒ go to `ret`)
    lock, loadDone2   `e.mu.Lock()`, the second test of `e.done` — no sequential counterpart (uncontended)
    runF         `e.result = f()`                        — the work function (`lookupWork` / `readTileWork`) runs
    storeDone    `atomic.StoreUint32(&e.done, 1)`        — `(key, result) :: cache`
    unlock       `e.mu.Unlock()`                         — no sequential counterpart
    ret          `return e.result`                       — the looked-up or freshly computed value is returned
-/
import ModVerif.Model.ParCache
import ModVerif.Proofs.ClientRefineFrame
namespace ModVerif.ClientRefine
open ModVerif

set_option linter.unusedSectionVars false

/-- the sequential model of `parCache.Do`: a lookup in an association list; on a miss the work function's value `f`
(error or not) is stored -/
def seqDo {K V : Type} [BEq K] (c : List (K × V)) (k : K) (f : V) : V × List (K × V) :=
  match c.lookup k with
  | some r => (r, c)
  | none => (f, (k, f) :: c)

section machine
variable {V : Type}

/-- the cache content a machine state stands for: the result of every entry that is `done` -/
def cacheOf (s : ParCache.St V) (k : Nat) : Option V := if (s.entry k).done then (s.entry k).result else none

/-- states between calls: no `Do` is in progress (every caller is idle or has returned), no entry is locked, an entry is
in the map iff it is done, a done entry holds a value, and `f` has run once for a done entry and never for another -/
structure SeqState (s : ParCache.St V) : Prop where
  pcs : ∀ i, s.pc i = .idle ∨ s.pc i = .returned
  unlocked : ∀ k, (s.entry k).locked = false
  present_done : ∀ k, (s.entry k).present = (s.entry k).done
  done_some : ∀ k, (s.entry k).done = true → (s.entry k).result.isSome = true
  runs_done : ∀ k, s.runs k = if (s.entry k).done then 1 else 0

theorem seqState_init : SeqState (ParCache.init V) := by
  constructor <;> simp [ParCache.init]

theorem run_append' (key : Nat → Nat) (fval : Nat → V) : ∀ (a b : List Nat) (s : ParCache.St V),
    ParCache.run key fval s (a ++ b) = (ParCache.run key fval s a).bind fun s1 => ParCache.run key fval s1 b := by
  intro a
  induction a with
  | nil => intro b s; simp [ParCache.run]
  | cons i a ih =>
    intro b s
    simp only [List.cons_append, ParCache.run]
    cases ParCache.step key fval s i with
    | none => simp
    | some s1 => simp only; exact ih b s1

/-- a caller that has returned takes no further step: a solo run that ends in `returned` is unique -/
theorem solo_unique (key : Nat → Nat) (fval : Nat → V) (s s1 s2 : ParCache.St V) (i : Nat) :
    ∀ (n m : Nat), n ≤ m → ParCache.run key fval s (List.replicate n i) = some s1 → s1.pc i = .returned →
      ParCache.run key fval s (List.replicate m i) = some s2 → n = m ∧ s1 = s2 := by
  intro n m hnm h1 hp1 h2
  obtain ⟨d, rfl⟩ : ∃ d, m = n + d := ⟨m - n, by omega⟩
  rw [← List.replicate_append_replicate, run_append', h1] at h2
  simp only [Option.bind_some] at h2
  cases d with
  | zero => simp [ParCache.run] at h2; exact ⟨rfl, h2⟩
  | succ d =>
    simp only [List.replicate_succ, ParCache.run] at h2
    have : ParCache.step key fval s1 i = none := by simp [ParCache.step, hp1]
    simp [this] at h2

/-- **A call of `Do` that runs alone, on a HIT**: 4 steps (idle, load, loadDone1, ret); nothing but the caller's own
program counter and result changes, `f` does not run, and the caller gets the cached value. -/
theorem solo_hit (key : Nat → Nat) (fval : Nat → V) (s : ParCache.St V) (hS : SeqState s) (i : Nat)
    (hi : s.pc i = .idle) (hd : (s.entry (key i)).done = true) :
    ParCache.run key fval s (List.replicate 4 i) =
      some { s with pc := ParCache.upd s.pc i .returned, got := ParCache.upd s.got i (s.entry (key i)).result } := by
  have hp : (s.entry (key i)).present = true := by rw [hS.present_done]; exact hd
  simp only [List.replicate, ParCache.run, ParCache.step, hi, hp, hd, if_true, ParCache.upd_same]
  congr 1
  simp only [ParCache.St.mk.injEq, and_true, true_and]
  funext j
  by_cases hj : j = i <;> simp [ParCache.upd, hj]

/-- **A call of `Do` that runs alone, on a MISS**: 10 steps (idle, load, loadOrStore, loadDone1, lock, loadDone2, runF,
storeDone, unlock, ret); the entry of the key becomes present and done with the value of THIS caller's `f`, `f` has run
once more for this key, and the caller gets that value. -/
theorem solo_miss (key : Nat → Nat) (fval : Nat → V) (s : ParCache.St V) (hS : SeqState s) (i : Nat)
    (hi : s.pc i = .idle) (hd : (s.entry (key i)).done = false) :
    ParCache.run key fval s (List.replicate 10 i) =
      some { pc := ParCache.upd s.pc i .returned,
             entry := ParCache.upd s.entry (key i) { present := true, done := true, locked := false, result := some (fval i) },
             got := ParCache.upd s.got i (some (fval i)),
             runs := ParCache.upd s.runs (key i) (s.runs (key i) + 1),
             ran := ParCache.upd s.ran (key i) (match s.ran (key i) with | none => some (fval i) | some v => some v) } := by
  have hp : (s.entry (key i)).present = false := by rw [hS.present_done]; exact hd
  have hl : (s.entry (key i)).locked = false := hS.unlocked _
  simp only [List.replicate, ParCache.run, ParCache.step, hi, hp, hd, hl, if_true, if_false, ParCache.upd_same,
    Bool.false_eq_true]
  congr 1
  simp only [ParCache.St.mk.injEq]
  refine ⟨?_, ?_, ?_, ?_, ?_⟩
  · funext j
    by_cases hj : j = i <;> simp [ParCache.upd, hj]
  · funext k
    by_cases hk : k = key i <;> simp [ParCache.upd, hk]
  all_goals (first | rfl | trivial)

/-- the value the sequential cache returns for caller `i` in state `s` -/
def doValue (key : Nat → Nat) (fval : Nat → V) (s : ParCache.St V) (i : Nat) : V :=
  match cacheOf s (key i) with
  | some v => v
  | none => fval i

/-- **One call of `Do` running alone refines the sequential cache lookup.**  From a state between calls, caller `i`
(idle) running alone returns within 10 steps, in a state between calls again; every run of `i` alone that reaches
`returned` is this run; the caller gets the cached value on a hit and its own `f`'s value on a miss; the cache content
changes exactly as the association list does (`(key, value) :: cache` on a miss, unchanged on a hit); `f` runs exactly
on a miss; nobody else's program counter or result changes. -/
theorem solo_do (key : Nat → Nat) (fval : Nat → V) (s : ParCache.St V) (hS : SeqState s) (i : Nat)
    (hi : s.pc i = .idle) :
    ∃ n s', n ≤ 10 ∧ ParCache.run key fval s (List.replicate n i) = some s' ∧
      (∀ m s'', ParCache.run key fval s (List.replicate m i) = some s'' → s''.pc i = .returned → m = n ∧ s'' = s') ∧
      SeqState s' ∧ s'.pc i = .returned ∧
      (∀ j, j ≠ i → s'.pc j = s.pc j ∧ s'.got j = s.got j) ∧
      s'.got i = some (doValue key fval s i) ∧
      (∀ k, cacheOf s' k = if k = key i then some (doValue key fval s i) else cacheOf s k) ∧
      (∀ k, s'.runs k = s.runs k + if k = key i ∧ cacheOf s k = none then 1 else 0) := by
  have huniq : ∀ n s', ParCache.run key fval s (List.replicate n i) = some s' → s'.pc i = .returned →
      ∀ m s'', ParCache.run key fval s (List.replicate m i) = some s'' → s''.pc i = .returned → m = n ∧ s'' = s' := by
    intro n s' h1 hp1 m s'' h2 hp2
    by_cases hnm : n ≤ m
    · obtain ⟨e1, e2⟩ := solo_unique key fval s s' s'' i n m hnm h1 hp1 h2
      exact ⟨e1.symm, e2.symm⟩
    · exact solo_unique key fval s s'' s' i m n (by omega) h2 hp2 h1
  by_cases hd : (s.entry (key i)).done = true
  · -- hit
    have hrun := solo_hit key fval s hS i hi hd
    obtain ⟨v, hv⟩ := Option.isSome_iff_exists.mp (hS.done_some _ hd)
    have hval : doValue key fval s i = v := by simp [doValue, cacheOf, hd, hv]
    refine ⟨4, _, by omega, hrun, huniq 4 _ hrun (by simp), ?_, by simp, ?_, ?_, ?_, ?_⟩
    · constructor
      · intro j
        by_cases hj : j = i
        · subst hj; right; simp
        · simp only [ParCache.upd_other _ _ _ _ hj]; exact hS.pcs j
      · exact hS.unlocked
      · exact hS.present_done
      · exact hS.done_some
      · exact hS.runs_done
    · intro j hj; simp [ParCache.upd_other _ _ _ _ hj]
    · simp [hval, hv]
    · intro k
      by_cases hk : k = key i
      · subst hk; simp [cacheOf, hd, hv, hval]
      · simp [hk, cacheOf]
    · intro k
      by_cases hk : k = key i
      · subst hk; simp [cacheOf, hd, hv]
      · simp [hk]
  · -- miss
    have hd' : (s.entry (key i)).done = false := by simpa using hd
    have hrun := solo_miss key fval s hS i hi hd'
    have hval : doValue key fval s i = fval i := by simp [doValue, cacheOf, hd']
    have hc : cacheOf s (key i) = none := by simp [cacheOf, hd']
    refine ⟨10, _, by omega, hrun, huniq 10 _ hrun (by simp), ?_, by simp, ?_, ?_, ?_, ?_⟩
    · constructor
      · intro j
        by_cases hj : j = i
        · subst hj; right; simp
        · simp only [ParCache.upd_other _ _ _ _ hj]; exact hS.pcs j
      · intro k
        by_cases hk : k = key i
        · subst hk; simp
        · simp only [ParCache.upd_other _ _ _ _ hk]; exact hS.unlocked k
      · intro k
        by_cases hk : k = key i
        · subst hk; simp
        · simp only [ParCache.upd_other _ _ _ _ hk]; exact hS.present_done k
      · intro k
        by_cases hk : k = key i
        · subst hk; simp
        · simp only [ParCache.upd_other _ _ _ _ hk]; exact hS.done_some k
      · intro k
        by_cases hk : k = key i
        · subst hk; simp [hS.runs_done, hd']
        · simp only [ParCache.upd_other _ _ _ _ hk]; exact hS.runs_done k
    · intro j hj; simp [ParCache.upd_other _ _ _ _ hj]
    · simp [hval]
    · intro k
      by_cases hk : k = key i
      · subst hk; simp [cacheOf, hval]
      · simp [hk, cacheOf, ParCache.upd_other _ _ _ _ hk]
    · intro k
      by_cases hk : k = key i
      · subst hk; simp [hc]
      · simp [hk, ParCache.upd_other _ _ _ _ hk]

/-- the association list `c` (keys encoded by `enc`) is the cache content of the machine state -/
def CacheRel {K : Type} [BEq K] (enc : K → Nat) (c : List (K × V)) (s : ParCache.St V) : Prop :=
  ∀ k, c.lookup k = cacheOf s (enc k)

/-- **The sequential cache IS the one-call-at-a-time `parCache` machine**: if the association list `c` is the content of
the machine state between calls, a call `Do(k, f)` by caller `i` (`key i = enc k`, `fval i` the value of `f`) running
alone returns `(seqDo c k (fval i)).1`, and afterwards the association list `(seqDo c k (fval i)).2` is the content of
the machine state; `f` has run iff the lookup missed. -/
theorem seqDo_refines {K : Type} [BEq K] [LawfulBEq K] (enc : K → Nat) (henc : ∀ a b, enc a = enc b → a = b)
    (key : Nat → Nat) (fval : Nat → V) (c : List (K × V)) (s : ParCache.St V) (hS : SeqState s)
    (hc : CacheRel enc c s) (i : Nat) (k : K) (hk : key i = enc k) (hi : s.pc i = .idle) :
    ∃ n s', n ≤ 10 ∧ ParCache.run key fval s (List.replicate n i) = some s' ∧ SeqState s' ∧ s'.pc i = .returned ∧
      s'.got i = some (seqDo c k (fval i)).1 ∧ CacheRel enc (seqDo c k (fval i)).2 s' ∧
      (s'.runs (enc k) = s.runs (enc k) + if c.lookup k = none then 1 else 0) ∧
      (∀ j, j ≠ i → s'.pc j = s.pc j ∧ s'.got j = s.got j) := by
  obtain ⟨n, s', hn, hrun, _, hS', hp, hfr, hgot, hcache, hruns⟩ := solo_do key fval s hS i hi
  have hv : doValue key fval s i = (seqDo c k (fval i)).1 := by
    simp only [doValue, seqDo, hk, ← hc k]
    cases c.lookup k <;> rfl
  refine ⟨n, s', hn, hrun, hS', hp, by rw [hgot, hv], ?_, ?_, hfr⟩
  · intro k'
    rw [hcache, hk, hv]
    by_cases hkk : k' = k
    · subst hkk
      simp only [if_true, seqDo]
      cases hl : c.lookup k' with
      | some r => simp [hl]
      | none => simp [List.lookup]
    · have hne : enc k' ≠ enc k := fun e => hkk (henc _ _ e)
      simp only [hne, if_false, seqDo]
      cases hl : c.lookup k with
      | some r => simp only; exact hc k'
      | none =>
        simp only [List.lookup]
        have : (k' == k) = false := by simpa using hkk
        rw [this]; exact hc k'
  · rw [hruns, hk, ← hc k]
    by_cases h : List.lookup k c = none <;> simp [h]

end machine

/-! ### the two caches of the sequential client are `seqDo` -/

section client
open ModVerif.Client ModVerif.Tile
variable {σ H : Type}

/-- **`Client.readTile` is `seqDo` on `c.tileCache`** with work function `readTileWork` (the only place where a tile is
read from the cache directory or the network): the value returned and the new tile cache are those of `seqDo`; on a hit
the world does not change at all (no external operation), on a miss it is the world after `readTileWork`, which does not
touch the tile cache itself. -/
theorem readTile_is_seqDo (E : Env σ) (w : World σ H) (t : Tile) :
    (readTile E w t).1 = (seqDo w.c.tileCache t (readTileWork E w t).1).1 ∧
    (readTile E w t).2.c.tileCache = (seqDo w.c.tileCache t (readTileWork E w t).1).2 ∧
    (∀ r, w.c.tileCache.lookup t = some r → (readTile E w t).2 = w) ∧
    (w.c.tileCache.lookup t = none →
      (readTile E w t).2 = { (readTileWork E w t).2 with
        c := { (readTileWork E w t).2.c with tileCache := (t, (readTileWork E w t).1) :: w.c.tileCache } }) := by
  have htc := (fr_readTileWork (H := H) (cfgKeep_const E) w t).2.1
  unfold readTile seqDo
  cases hl : w.c.tileCache.lookup t with
  | some r => exact ⟨rfl, rfl, fun _ _ => rfl, (fun h => nomatch h)⟩
  | none =>
    refine ⟨rfl, ?_, (fun r h => nomatch h), fun _ => ?_⟩
    · simp only [htc]
    · simp only [htc]

variable [DecidableEq H]

theorem mergeLatestMem_record (P : Params H) (E : Env σ) (w : World σ H) (msg : Bytes) :
    (mergeLatestMem P E w msg).2.c.record = w.c.record := by
  have hK := cfgKeep_const E
  unfold mergeLatestMem
  split
  · rfl
  · split
    · rfl
    · rename_i tree _
      -- both `checkTrees` calls are frame steps for the record cache
      have hct : ∀ (a : Head H) (o1 : Bytes) (b : Head H) (o2 : Bytes),
          (checkTrees P E w a o1 b o2).2.c.record = w.c.record := by
        intro a o1 b o2
        obtain ⟨l1, _⟩ := fr_treeHashVia hK P w a.n b
        unfold checkTrees
        simp only
        split
        · exact l1.record
        · split
          · exact l1.record
          · exact (l1.trans (fr_proveTreeVia hK P _ b.n a.n b)).record
      simp only
      split
      · split
        · exact hct _ _ _ _
        · exact hct _ _ _ _
      · split
        · exact hct _ _ _ _
        · exact hct _ _ _ _

theorem mergeLatestLoop_record (P : Params H) (E : Env σ) : ∀ (f : Nat) (w : World σ H),
    (mergeLatestLoop P E f w).2.c.record = w.c.record := by
  intro f
  induction f with
  | zero => intro w; rfl
  | succ f ih =>
    intro w
    rw [mergeLatestLoop]
    split
    · rfl
    · rename_i msg _
      have h1 : (mergeLatestMem P E (readConfig E w (latestFile w.c.name)).2 msg).2.c.record = w.c.record :=
        mergeLatestMem_record P E _ msg
      simp only
      split
      · exact h1
      · split
        · exact h1
        · split
          · rw [ih]; exact h1
          · exact h1
          · exact h1

theorem mergeLatest_record (P : Params H) (E : Env σ) (w : World σ H) (msg : Bytes) :
    (mergeLatest P E w msg).2.c.record = w.c.record := by
  unfold mergeLatest
  simp only
  split
  · exact mergeLatestMem_record P E w msg
  · split
    · exact mergeLatestMem_record P E w msg
    · rw [mergeLatestLoop_record]; exact mergeLatestMem_record P E w msg

theorem checkRecord_record (P : Params H) (E : Env σ) (w : World σ H) (id : Int) (data : Bytes) :
    (checkRecord P E w id data).2.c.record = w.c.record := by
  unfold checkRecord
  simp only
  split
  · rfl
  · have l := (fr_readHashes (cfgKeep_const E) P w w.c.latest
      [if id < 0 then 0 else Tlog.storedHashIndex 0 id.toNat]).1
    split
    · exact l.record
    · split
      · exact l.record
      · split <;> exact l.record

/-- the first part of `lookupWork`: the on-disk cache, or else the network -/
def lwGot (E : Env σ) (w : World σ H) (file remotePath : Bytes) : Option (Bytes × Bool) × World σ H :=
  match (readCache E w file).1 with
  | some data => (some (data, false), (readCache E w file).2)
  | none =>
    match (readRemote E (readCache E w file).2 remotePath).1 with
    | some data => (some (data, true), (readRemote E (readCache E w file).2 remotePath).2)
    | none => (none, (readRemote E (readCache E w file).2 remotePath).2)

theorem lookupWork_eq (P : Params H) (E : Env σ) (w : World σ H) (file remotePath : Bytes) :
    lookupWork P E w file remotePath =
      match (lwGot E w file remotePath).1 with
      | none => (.error .remote, (lwGot E w file remotePath).2)
      | some (data, wc) =>
        match TlogNote.parseRecord data with
        | none => (.error .recordSyntax, (lwGot E w file remotePath).2)
        | some (id, text, treeMsg) =>
          let rm := mergeLatest P E (lwGot E w file remotePath).2 treeMsg
          match rm.1 with
          | .error e => (.error e, rm.2)
          | .ok () =>
            let rk := checkRecord P E rm.2 id text
            match rk.1 with
            | .error e => (.error e, rk.2)
            | .ok () => (.ok data, if wc then writeCache E rk.2 file data else rk.2) := rfl

/-- the work function of the record cache does not touch the record cache -/
theorem lookupWork_record (P : Params H) (E : Env σ) (w : World σ H) (file remotePath : Bytes) :
    (lookupWork P E w file remotePath).2.c.record = w.c.record := by
  rw [lookupWork_eq]
  have hgr : (lwGot E w file remotePath).2.c.record = w.c.record := by
    unfold lwGot
    split
    · rfl
    · split <;> rfl
  generalize lwGot E w file remotePath = got at *
  split
  · exact hgr
  · split
    · exact hgr
    · rename_i id text treeMsg _
      have hm : (mergeLatest P E got.2 treeMsg).2.c.record = w.c.record := by
        rw [mergeLatest_record]; exact hgr
      simp only
      split
      · exact hm
      · have hk : (checkRecord P E (mergeLatest P E got.2 treeMsg).2 id text).2.c.record = w.c.record := by
          rw [checkRecord_record]; exact hm
        split
        · exact hk
        · split
          · exact hk
          · exact hk

/-- **The record cache of `Client.Lookup` is `seqDo` on `c.record`** with work function `lookupWork` (the only place
where the lookup file is read from the cache directory or the network): for the key `file` and the world `w` in which
`Lookup` consults the cache, the value it continues with and the new record cache are those of `seqDo`; on a hit the
world does not change. -/
theorem record_is_seqDo (P : Params H) (E : Env σ) (w : World σ H) (file remotePath : Bytes) :
    let res : Except Err Bytes × World σ H :=
      match w.c.record.lookup file with
      | some r => (r, w)
      | none =>
        let r := lookupWork P E w file remotePath
        (r.1, { r.2 with c := { r.2.c with record := (file, r.1) :: r.2.c.record } })
    res.1 = (seqDo w.c.record file (lookupWork P E w file remotePath).1).1 ∧
    res.2.c.record = (seqDo w.c.record file (lookupWork P E w file remotePath).1).2 ∧
    (∀ r, w.c.record.lookup file = some r → res.2 = w) := by
  intro res
  have hrec := lookupWork_record P E w file remotePath
  simp only [res, seqDo]
  cases hl : w.c.record.lookup file with
  | some r => exact ⟨rfl, rfl, fun _ _ => rfl⟩
  | none => exact ⟨rfl, by simp only [hrec], (fun r h => nomatch h)⟩

end client
end ModVerif.ClientRefine
