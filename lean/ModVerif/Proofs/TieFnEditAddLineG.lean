import ModVerif.Proofs.TieFnEditAddLineF
set_option linter.unusedSimpArgs false
set_option linter.unusedVariables false
namespace ModVerif.TieFnEditAddLine
open ModVerif ModVerif.GoRt
open ModVerif.Generated.Edit
open ModVerif.Tie.FnEditRep
open ModVerif.Modfile.Edit (treeIds cleanupStmts cleanupSyntax)

/-! ### the model's `cleanupStmts`, one statement -/

theorem cleanup_line (l : Modfile.Line) (xs : List Modfile.Expr) :
    cleanupStmts (.line l :: xs) = if l.token.isEmpty then cleanupStmts xs else .line l :: cleanupStmts xs := by
  rw [cleanupStmts]

theorem cleanup_cb (c : Modfile.CommentBlock) (xs : List Modfile.Expr) :
    cleanupStmts (.commentBlock c :: xs) = .commentBlock c :: cleanupStmts xs := by
  rw [cleanupStmts]
  · intro l e; cases e
  · intro b e; cases e

/-- the line a one-line block collapses into -/
def collapsed (b : Modfile.LineBlock) (l : Modfile.Line) : Modfile.Line :=
  { id := l.id,
    comments := { before := b.comments.before ++ l.comments.before,
                  suffix := l.comments.suffix ++ b.comments.suffix,
                  after := l.comments.after ++ b.comments.after },
    token := b.token ++ l.token }

theorem cleanup_block (b : Modfile.LineBlock) (xs : List Modfile.Expr) :
    cleanupStmts (.lineBlock b :: xs) =
      match b.lines.filter isLive with
      | [] => cleanupStmts xs
      | [l] => if b.rparen.comments.before.isEmpty then .line (collapsed b l) :: cleanupStmts xs
               else .lineBlock { b with lines := b.lines.filter isLive } :: cleanupStmts xs
      | _ => .lineBlock { b with lines := b.lines.filter isLive } :: cleanupStmts xs := by
  rw [cleanupStmts]
  rfl


/-! ### what `Cleanup` leaves untouched -/

structure CFrame (x : Int) (h h' : Heap) : Prop where
  frame : Frame h h'
  llen : h'.lines.length = h.lines.length
  blen : h'.blocks.length = h.blocks.length
  files : ∀ q, q ≠ x → heapGet h'.files q = heapGet h.files q
  linesG : LinesG h → LinesG h'

theorem CFrame.refl (x : Int) (h : Heap) : CFrame x h h := ⟨Frame.refl h, rfl, rfl, fun _ _ => rfl, fun g => g⟩

theorem CFrame.trans {x : Int} {h1 h2 h3 : Heap} (a : CFrame x h1 h2) (b : CFrame x h2 h3) : CFrame x h1 h3 :=
  ⟨a.frame.trans b.frame, b.llen.trans a.llen, b.blen.trans a.blen, fun q hq => (b.files q hq).trans (a.files q hq),
   fun g => b.linesG (a.linesG g)⟩

theorem CFrame.setFile {h : Heap} {x : Int} {fo : FileSyntax} (hf : heapGet h.files x = .ok fo) (v : FileSyntax) :
    CFrame x h { h with files := h.files.set (x.toNat - 1) v } :=
  ⟨⟨rfl, rfl, rfl, rfl, rfl, rfl, rfl, rfl, rfl, rfl, rfl, rfl, rfl⟩, rfl, rfl,
   fun q hq => heapGet_listSet_other v hf hq, fun g => g.congr rfl⟩

theorem CFrame.ofB {x p : Int} {h h' : Heap} (b : BFrame p h h') : CFrame x h h' :=
  ⟨b.frame, by rw [b.lines], b.blen, fun q _ => by rw [b.files], fun g => g.congr b.lines⟩

theorem BFrame.blocksBut {p : Int} {h h' : Heap} (b : BFrame p h h') : BlocksBut p h h' :=
  ⟨b.frame.cbs, fun q v hq => by rw [b.lines]; exact hq, fun q v hne hq => by rw [b.other q hne]; exact hq⟩

theorem RLines_filter {h : Heap} : ∀ {ps : List Int} {ls : List Modfile.Line}, RLines h ps ls →
    RLines h (livePtrs ls) (ls.filter isLive)
  | [], [], _ => trivial
  | p :: ps, l :: ls, r => by
    have ih := RLines_filter r.2
    by_cases hl : isLive l = true
    · simp only [livePtrs, List.filter_cons, hl, if_true, List.map_cons]
      exact ⟨by rw [← r.1.2]; exact r.1, ih⟩
    · simp only [livePtrs, List.filter_cons, hl, Bool.false_eq_true, if_false]
      exact ih
  | [], _ :: _, r => r.elim
  | _ :: _, [], r => r.elim

theorem livePtrs_length (ls : List Modfile.Line) : (livePtrs ls).length = (ls.filter isLive).length := by
  simp [livePtrs]

theorem sublist_nodup_append {α : Type} {a a' b b' : List α} (ha : a'.Sublist a) (hb : b'.Sublist b)
    (h : (a ++ b).Nodup) : (a' ++ b').Nodup := (ha.append hb).nodup h

theorem blockPtrs_sublist_snoc_line (out : List Expr) (q : Int) : blockPtrs (out ++ [Expr.Line q]) = blockPtrs out := by
  rw [blockPtrs_append]; simp [blockPtrs]

theorem filter_ids_sublist (ls : List Modfile.Line) : (lineIds (ls.filter isLive)).Sublist (lineIds ls) := by
  unfold lineIds
  exact List.Sublist.map _ List.filter_sublist


/-! ### loop 1 of `Cleanup` against `cleanupStmts` -/

/-- the result of loop 1 started at the statement index `k` with the write index `out.length` -/
def CleanRes (x : Int) (nm : Bytes) (cm : Comments) (es0 : List Expr) (k : Int) (out : List Expr) (sres : List Modfile.Expr)
    (fuel : Nat) (h : Heap) : Prop :=
  ∃ h' out2 junk', FileSyntax_Cleanup_loop1 es0 x fuel k h (out.length : Int) =
      .ok (len es0, h', ((out ++ out2).length : Int)) ∧
    heapGet h'.files x = .ok { Name := nm, Comments := cm, Stmt := (out ++ out2) ++ junk' } ∧
    RStmts h' (out ++ out2) sres ∧ (blockPtrs (out ++ out2)).Nodup ∧ CFrame x h h'

theorem cl1_continue {x : Int} {nm : Bytes} {cm : Comments} {es0 pre : List Expr} {e : Expr} {out oe : List Expr}
    {sout se : List Modfile.Expr} {s : Modfile.Expr} {sxs : List Modfile.Expr} {h h1 : Heap} {f : Nat}
    (hstep : FileSyntax_Cleanup_loop1 es0 x (f + 1) (pre.length : Int) h (out.length : Int) =
      FileSyntax_Cleanup_loop1 es0 x f ((pre.length : Int) + 1) h1 (((out ++ oe).length : Nat) : Int))
    (hclean : cleanupStmts (s :: sxs) = se ++ cleanupStmts sxs) (hfr : CFrame x h h1)
    (ih : CleanRes x nm cm es0 (((pre ++ [e]).length : Nat) : Int) (out ++ oe) ((sout ++ se) ++ cleanupStmts sxs) f h1) :
    CleanRes x nm cm es0 (pre.length : Int) out (sout ++ cleanupStmts (s :: sxs)) (f + 1) h := by
  obtain ⟨h', out2, junk', i1, i2, i3, i4, i5⟩ := ih
  have e1 : (((pre ++ [e]).length : Nat) : Int) = (pre.length : Int) + 1 := by simp
  rw [e1] at i1
  refine ⟨h', oe ++ out2, junk', ?_, ?_, ?_, ?_, hfr.trans i5⟩
  · rw [hstep, i1]; simp [List.append_assoc]
  · rw [i2]; simp [List.append_assoc]
  · rw [hclean]; simpa [List.append_assoc] using i3
  · simpa [List.append_assoc] using i4


theorem blockPtrs_cons' (e : Expr) (xs : List Expr) : blockPtrs (e :: xs) = blockPtrs [e] ++ blockPtrs xs :=
  blockPtrs_append [e] xs

theorem nodup_step_ids {sout se : List Modfile.Expr} {s : Modfile.Expr} {sxs : List Modfile.Expr}
    (hsub : (stmtIds se).Sublist (stmtIds [s])) (nl : (stmtIds sout ++ stmtIds (s :: sxs)).Nodup) :
    (stmtIds (sout ++ se) ++ stmtIds sxs).Nodup := by
  rw [stmtIds_cons s sxs, ← List.append_assoc] at nl
  rw [stmtIds_append]
  exact ((List.Sublist.refl _).append hsub |>.append (List.Sublist.refl _)).nodup nl

theorem nodup_step_blk {out oe : List Expr} {e : Expr} {xs : List Expr}
    (hsub : (blockPtrs oe).Sublist (blockPtrs [e])) (nb : (blockPtrs out ++ blockPtrs (e :: xs)).Nodup) :
    (blockPtrs (out ++ oe) ++ blockPtrs xs).Nodup := by
  rw [blockPtrs_cons' e xs, ← List.append_assoc] at nb
  rw [blockPtrs_append]
  exact ((List.Sublist.refl _).append hsub |>.append (List.Sublist.refl _)).nodup nb

theorem lineG_collapsed (b : Modfile.LineBlock) (ps : List Int) (l : Modfile.Line) :
    ({ (default : Line) with
       Comments := ({ (default : Comments) with
         Before := (blockG b ps).Comments.Before ++ (lineG l).Comments.Before,
         Suffix := (lineG l).Comments.Suffix ++ (blockG b ps).Comments.Suffix,
         After := (lineG l).Comments.After ++ (blockG b ps).Comments.After } : Comments),
       Token := (blockG b ps).Token ++ (lineG l).Token } : Line) = lineG (collapsed b l) := by
  simp only [lineG, blockG, collapsed, Drv.GenEdit.comsG, List.map_append]
  rfl


theorem CFrame.setBlockFile {h : Heap} {x p : Int} {fo : FileSyntax} (hf : heapGet h.files x = .ok fo) (v : FileSyntax)
    (w : LineBlock) :
    CFrame x h { h with blocks := h.blocks.set (p.toNat - 1) w, files := h.files.set (x.toNat - 1) v } :=
  ⟨⟨rfl, rfl, rfl, rfl, rfl, rfl, rfl, rfl, rfl, rfl, rfl, rfl, rfl⟩, rfl, by simp,
   fun q hq => heapGet_listSet_other v hf hq, fun g => g.congr rfl⟩

theorem CFrame.setLineFile {h : Heap} {x : Int} {fo : FileSyntax} (hf : heapGet h.files x = .ok fo) (v : FileSyntax)
    (k : Nat) (l : Modfile.Line) :
    CFrame x h { h with lines := h.lines.set k (lineG l), files := h.files.set (x.toNat - 1) v } :=
  ⟨⟨rfl, rfl, rfl, rfl, rfl, rfl, rfl, rfl, rfl, rfl, rfl, rfl, rfl⟩, by simp, rfl,
   fun q hq => heapGet_listSet_other v hf hq, fun g => (g.setLine k l).congr rfl⟩

theorem cl1_sim (x : Int) (nm : Bytes) (cm : Comments) (es0 : List Expr) :
    ∀ (suf : List Expr) (ssuf : List Modfile.Expr) (pre out junk : List Expr) (sout : List Modfile.Expr) (h : Heap)
      (fuel : Nat), es0 = pre ++ suf →
      heapGet h.files x = .ok { Name := nm, Comments := cm, Stmt := out ++ junk } →
      out.length + junk.length = es0.length → out.length ≤ pre.length →
      RStmts h out sout → RStmts h suf ssuf →
      (blockPtrs out ++ blockPtrs suf).Nodup → (stmtIds sout ++ stmtIds ssuf).Nodup →
      nodeCount ssuf + 1 ≤ fuel →
      CleanRes x nm cm es0 (pre.length : Int) out (sout ++ cleanupStmts ssuf) fuel h
  | [], [], pre, out, junk, sout, h, fuel, hes, hf, hlen, hle, rout, _, nb, _, hfu => by
    obtain ⟨f, rfl⟩ : ∃ f, fuel = f + 1 := ⟨fuel - 1, by omega⟩
    have hes' : es0 = pre := by simpa using hes
    refine ⟨h, [], junk, ?_, by simpa using hf, by simpa [cleanupStmts] using rout, by simpa [blockPtrs] using nb,
      CFrame.refl x h⟩
    rw [hes']
    simpa using cl1_end pre x f h (out.length : Int)
  | [], _ :: _, _, _, _, _, _, _, _, _, _, _, _, r, _, _, _ => r.elim
  | _ :: _, [], _, _, _, _, _, _, _, _, _, _, _, r, _, _, _ => r.elim
  | e :: xs, s :: sxs, pre, out, junk, sout, h, fuel, hes, hf, hlen, hle, rout, rsuf, nb, nl, hfu => by
    obtain ⟨f, rfl⟩ : ∃ f, fuel = f + 1 := ⟨fuel - 1, by omega⟩
    have re := rsuf.1
    have rxs := rsuf.2
    have hes' : es0 = (pre ++ [e]) ++ xs := by simp [hes]
    have hel : es0.length = pre.length + 1 + xs.length := by rw [hes]; simp; omega
    have hj : junk ≠ [] := by
      intro e; subst e; simp at hlen; omega
    have hjl : (junk.drop 1).length = junk.length - 1 := by simp
    have hjp : 0 < junk.length := List.length_pos_iff.2 hj
    have hpl : (pre ++ [e]).length = pre.length + 1 := by simp
    -- the continuation with one kept statement `e'` representing `s'`, in a heap `h1` that only differs in `files`
    have keep1 : ∀ (h1 : Heap) (e' : Expr) (s' : Modfile.Expr) (fo1 : FileSyntax),
        heapGet h1.files x = .ok fo1 → fo1 = { Name := nm, Comments := cm, Stmt := out ++ junk } →
        RStmts h1 out sout → RExpr h1 e' s' → RStmts h1 xs sxs →
        (blockPtrs [e']).Sublist (blockPtrs [e]) → (stmtIds [s']).Sublist (stmtIds [s]) → nodeCount sxs + 1 ≤ f →
        CleanRes x nm cm es0 (((pre ++ [e]).length : Nat) : Int) (out ++ [e']) ((sout ++ [s']) ++ cleanupStmts sxs) f
          { h1 with files := h1.files.set (x.toNat - 1) { fo1 with Stmt := (out ++ [e']) ++ junk.drop 1 } } := by
      intro h1 e' s' fo1 hf1 hfo r1 r2 r3 sb si hfu'
      subst hfo
      let fo2 : FileSyntax := { Name := nm, Comments := cm, Stmt := (out ++ [e']) ++ junk.drop 1 }
      let h2 : Heap := { h1 with files := h1.files.set (x.toNat - 1) fo2 }
      have c : ∀ {es : List Expr} {ss : List Modfile.Expr}, RStmts h1 es ss → RStmts h2 es ss :=
        fun r => RStmts.congr (h := h1) (h' := h2) rfl rfl rfl r
      exact cl1_sim x nm cm es0 xs sxs (pre ++ [e]) (out ++ [e']) (junk.drop 1) (sout ++ [s']) h2 f hes'
        (heapGet_listSet_same _ hf1) (by simp; omega) (by simp; omega)
        (RStmts.append (c r1) (show RStmts h2 [e'] [s'] from ⟨(c (show RStmts h1 [e'] [s'] from ⟨r2, trivial⟩)).1, trivial⟩))
        (c r3) (nodup_step_blk sb nb) (nodup_step_ids si nl) hfu'
    cases s with
    | lparen c => cases e <;> exact re.elim
    | rparen c => cases e <;> exact re.elim
    | commentBlock c =>
      cases e <;> simp only [RExpr] at re <;> try exact re.elim
      rename_i p
      have hstep := cl1_keep_other pre (Expr.CommentBlock p) xs x f h _ hf out junk rfl hj (by intro q; simp) (by intro q; simp)
      rw [← hes] at hstep
      refine cl1_continue (e := Expr.CommentBlock p) (oe := [Expr.CommentBlock p]) (se := [.commentBlock c]) hstep
        (by rw [cleanup_cb]; rfl) (CFrame.setFile hf _) ?_
      exact keep1 h _ _ _ hf rfl rout (show RExpr h (Expr.CommentBlock p) (.commentBlock c) from re) rxs
        (List.Sublist.refl _) (List.Sublist.refl _) (by simp only [nodeCount] at hfu; omega)
    | line l =>
      cases e <;> simp only [RExpr] at re <;> try exact re.elim
      rename_i p
      cases hc : l.token with
      | nil =>
        have hstep := cl1_drop_line pre p xs x f h (out.length : Int) _ re.1 (by simp [hc])
        rw [← hes] at hstep
        have e0 : out ++ [] = out := List.append_nil _
        refine cl1_continue (e := Expr.Line p) (oe := []) (se := []) (by rw [e0]; exact hstep)
          (by rw [cleanup_line]; simp [hc]) (CFrame.refl x h) ?_
        rw [e0, List.append_nil]
        exact cl1_sim x nm cm es0 xs sxs (pre ++ [Expr.Line p]) out junk sout h f hes' hf hlen (by simp; omega) rout rxs
          (by have := nodup_step_blk (oe := []) (List.nil_sublist _) nb; simpa using this)
          (by have := nodup_step_ids (se := []) (List.nil_sublist _) nl; simpa using this)
          (by simp only [nodeCount] at hfu; omega)
      | cons u us =>
        have hstep := cl1_keep_line pre p xs x f h _ hf out junk rfl hj _ re.1 (by simp [hc])
        rw [← hes] at hstep
        refine cl1_continue (e := Expr.Line p) (oe := [Expr.Line p]) (se := [.line l]) hstep
          (by rw [cleanup_line]; simp [hc]) (CFrame.setFile hf _) ?_
        exact keep1 h _ _ _ hf rfl rout (show RExpr h (Expr.Line p) (.line l) from re) rxs
          (List.Sublist.refl _) (List.Sublist.refl _) (by simp only [nodeCount] at hfu; omega)
    | lineBlock b =>
      cases e <;> simp only [RExpr] at re <;> try exact re.elim
      rename_i p
      obtain ⟨ps, hb, rps⟩ := re
      have hnc : b.lines.length + nodeCount sxs + 1 ≤ f := by simp only [nodeCount] at hfu; omega
      have nb' : (blockPtrs out ++ p :: blockPtrs xs).Nodup := nb
      have nb'' := List.nodup_append.1 nb'
      have hp_out : p ∉ blockPtrs out := fun hm => nb''.2.2 _ hm _ (List.mem_cons_self) rfl
      have hp_xs : p ∉ blockPtrs xs := (List.nodup_cons.1 nb''.2.1).1
      have nl' : (stmtIds sout ++ (lineIds b.lines ++ stmtIds sxs)).Nodup := nl
      have nl'' := List.nodup_append.1 nl'
      have nl3 := List.nodup_append.1 nl''.2.1
      obtain ⟨h1, junk1, c1, c2, c3, c4⟩ := cl2_sim p (blockG b ps) ps b.lines [] [] ps h f rps hb (by simp) (by simp)
        (by rw [rps.length]; omega)
      have c1' : FileSyntax_Cleanup_loop2 (blockG b ps).Line p f 0 h 0 =
          .ok (len ps, h1, (((livePtrs b.lines).length : Nat) : Int)) := by simpa using c1
      have c2' : heapGet h1.blocks p = .ok { blockG b ps with Line := livePtrs b.lines ++ junk1 } := by simpa using c2
      have hf1 : heapGet h1.files x = .ok { Name := nm, Comments := cm, Stmt := out ++ junk } := by rw [c4.files]; exact hf
      have bb := c4.blocksBut
      have rlive : RLines h1 (livePtrs b.lines) (b.lines.filter isLive) := (RLines_congr c4.lines).2 (RLines_filter rps)
      -- the block is kept with its live lines
      have keepB : (2 ≤ (livePtrs b.lines).length ∨
            ((livePtrs b.lines).length = 1 ∧ (blockG b ps).RParen.Comments.Before ≠ [])) →
          cleanupStmts (.lineBlock b :: sxs) =
            [.lineBlock { b with lines := b.lines.filter isLive }] ++ cleanupStmts sxs →
          CleanRes x nm cm es0 (pre.length : Int) out (sout ++ cleanupStmts (.lineBlock b :: sxs)) (f + 1) h := by
        intro hc hclean
        have hstep := cl1_block_keep pre p xs x f h _ out junk rfl hj (blockG b ps) hb (len ps) h1 (livePtrs b.lines).length
          c1' hf1 _ c2' (livePtrs b.lines) junk1 rfl rfl hc
        rw [← hes] at hstep
        refine cl1_continue (e := Expr.LineBlock p) (oe := [Expr.LineBlock p]) (se := [_]) hstep hclean
          ((CFrame.ofB c4).trans (CFrame.setBlockFile hf1 _ _)) ?_
        let h1' : Heap := { h1 with blocks := h1.blocks.set (p.toNat - 1)
                                      (blockG { b with lines := b.lines.filter isLive } (livePtrs b.lines)) }
        have bb' : BlocksBut p h h1' :=
          ⟨c4.frame.cbs, fun q v hq => by show heapGet h1.lines q = _; rw [c4.lines]; exact hq,
           fun q v hne hq => by
            show heapGet (h1.blocks.set _ _) q = _
            rw [heapGet_listSet_other _ c2' hne, c4.other q hne]; exact hq⟩
        exact keep1 h1' (Expr.LineBlock p) (.lineBlock { b with lines := b.lines.filter isLive }) _ hf1 rfl
          (RStmts_blocksBut bb' rout hp_out)
          ⟨livePtrs b.lines, heapGet_listSet_same _ c2', (RLines_congr (h := h1) (h' := h1') rfl).2 rlive⟩
          (RStmts_blocksBut bb' rxs hp_xs) (List.Sublist.refl _)
          (by simp only [stmtIds, List.append_nil]; exact filter_ids_sublist b.lines) (by omega)
      cases hfl : b.lines.filter isLive with
      | nil =>
        have hlp : livePtrs b.lines = [] := by simp [livePtrs, hfl]
        rw [hlp] at c1'
        have hstep := cl1_block_drop pre p xs x f h (out.length : Int) (blockG b ps) hb (len ps) h1 (by simpa using c1')
        rw [← hes] at hstep
        have e0 : out ++ [] = out := List.append_nil _
        refine cl1_continue (e := Expr.LineBlock p) (oe := []) (se := []) (by rw [e0]; exact hstep)
          (by rw [cleanup_block, hfl]; rfl) (CFrame.ofB c4) ?_
        rw [e0, List.append_nil]
        exact cl1_sim x nm cm es0 xs sxs (pre ++ [Expr.LineBlock p]) out junk sout h1 f hes' hf1 hlen (by simp; omega)
          (RStmts_blocksBut bb rout hp_out) (RStmts_blocksBut bb rxs hp_xs)
          (by have := nodup_step_blk (oe := []) (List.nil_sublist _) nb; simpa using this)
          (by have := nodup_step_ids (se := []) (List.nil_sublist _) nl; simpa using this) (by omega)
      | cons l rest =>
        cases rest with
        | nil =>
          have hlp : livePtrs b.lines = [(l.id : Int)] := by simp [livePtrs, hfl]
          by_cases hr : b.rparen.comments.before = []
          · -- collapse
            rw [hlp, hfl] at rlive
            have hq : heapGet h1.lines (l.id : Int) = .ok (lineG l) := rlive.1.1
            have hlmem : l ∈ b.lines := by
              have : l ∈ b.lines.filter isLive := by rw [hfl]; exact List.mem_cons_self
              exact (List.mem_filter.1 this).1
            have hidm : l.id ∈ lineIds b.lines := List.mem_map.2 ⟨l, hlmem, rfl⟩
            have hid_out : l.id ∉ stmtIds sout := fun hm => nl''.2.2 _ hm _ (List.mem_append_left _ hidm) rfl
            have hid_xs : l.id ∉ stmtIds sxs := fun hm => nl3.2.2 _ hidm _ hm rfl
            rw [hlp] at c1' c2'
            have c2'' : heapGet h1.blocks p = .ok (blockG b (([(l.id : Int)] : List Int) ++ junk1)) := c2'
            have hstep := cl1_block_collapse pre p xs x f h _ out junk rfl hj (blockG b ps) hb (len ps) h1
              (by simpa using c1') hf1 _ c2'' (l.id : Int) junk1 rfl (by simp [hr]) (lineG l) hq
            rw [← hes] at hstep
            rw [lineG_collapsed b (([(l.id : Int)] : List Int) ++ junk1) l] at hstep
            refine cl1_continue (e := Expr.LineBlock p) (oe := [Expr.Line (l.id : Int)]) (se := [.line (collapsed b l)]) hstep
              (by rw [cleanup_block, hfl]; simp [hr]) ((CFrame.ofB c4).trans (CFrame.setLineFile hf1 _ _ _)) ?_
            let h1' : Heap := { h1 with lines := h1.lines.set ((l.id : Int).toNat - 1) (lineG (collapsed b l)) }
            have lb : LinesBut l.id h1 h1' :=
              ⟨rfl, fun q v hq' => hq', fun q v hne hq' => by
                show heapGet (h1.lines.set _ _) q = _
                rw [heapGet_listSet_other _ hq hne]; exact hq'⟩
            exact keep1 h1' (Expr.Line (l.id : Int)) (.line (collapsed b l)) _ hf1 rfl
              (RStmts_linesBut lb (RStmts_blocksBut bb rout hp_out) hid_out)
              ⟨heapGet_listSet_same _ hq, rfl⟩
              (RStmts_linesBut lb (RStmts_blocksBut bb rxs hp_xs) hid_xs) (by simp [blockPtrs])
              (by simp only [stmtIds, collapsed, List.append_nil]
                  exact List.singleton_sublist.2 hidm) (by omega)
          · refine keepB (Or.inr ⟨by simp [hlp], ?_⟩) (by rw [cleanup_block, hfl]; simp [hr])
            simp only [blockG_RParen_Before]
            intro e
            exact hr (List.map_eq_nil_iff.1 e)
        | cons l' rest' =>
          refine keepB (Or.inl ?_) (by rw [cleanup_block, hfl]; rfl)
          rw [livePtrs_length, hfl]; simp

end ModVerif.TieFnEditAddLine
