/-
  Helper lemmas for Tie/FnLex.lean, part C: `input.readToken` as a whole against the model's `readToken`, `input.lex`
  against `lex`, and running `lex` to the EOF token (`lexAll` of Drv/LexOps.lean) on both sides.
-/
import ModVerif.Proofs.TieFnLexB
set_option linter.unusedSimpArgs false
set_option linter.unusedVariables false
namespace ModVerif.TieFnLex
open ModVerif ModVerif.GoRt ModVerif.GoRtStr ModVerif.GoRtModfile ModVerif.GoRtLex ModVerif.Modfile
open ModVerif.Proofs.ModfileLex (eof_false_iff)
open ModVerif.Drv.LexOps.G (isPrintI isSpaceI)
open ModVerif.Drv.LexOps.M (kindCode)

/-- the model's readToken after the spaces / comment tests (a verbatim copy; `readToken_headM` checks it) -/
def restM (i : Input) : Except SynErr Input :=
    let i := startToken i
    if i.eof then .ok (endToken .eof i)
    else
      let c := i.peekRune
      if isPunct c then do
        let (_, i) ← readRune i
        .ok (endToken (.punct (UInt8.ofNat c)) i)
      else if quoteRunes.contains c then do
        let (_, i) ← readRune i
        let i ← readString c (i.remaining.length + 1) i
        .ok (endToken .string i)
      else if !isIdent c then .error (i.error .badChar)
      else do
        let i ← readIdent (i.remaining.length + 1) i
        .ok (endToken .ident i)

theorem readToken_headM (i : Input) :
    readToken i = match headM (i.remaining.length + 1) i with
      | .ok (.ret j) => .ok j
      | .ok (.next j) => restM j
      | .error e => .error e := by
  unfold readToken headM
  cases skipSpaces (i.remaining.length + 1) i with
  | error e => rfl
  | ok j =>
    simp only [ebind_ok, tailM]
    split
    · cases readComment j <;> rfl
    · split <;> rfl

/-- image of a model result of readToken on the generated side -/
def simU : Except SynErr Input → M (Unit × Generated.Lex.input)
  | .ok j => .ok ((), emb j)
  | .error _ => .error .panic

theorem isPunct_lt {c : Nat} (h : isPunct c = true) : c < 128 := by
  simp only [isPunct, punctRunes, List.contains_cons, List.contains_nil, Bool.or_false, Bool.or_eq_true, beq_iff_eq] at h
  omega

theorem kindCode_punct {c : Nat} (h : c < 256) : kindCode (.punct (UInt8.ofNat c)) = (c : Int) := by
  show Int.ofNat (UInt8.ofNat c).toNat = _
  simp only [UInt8.toNat_ofNat']
  have : c % 2 ^ 8 = c := Nat.mod_eq_of_lt h
  rw [this]; rfl

theorem rest_eq (k : Int) (ts : Bytes) (j : Input) (hw : WF j) (fuel : Nat) (hf : j.remaining.length + 3 ≤ fuel) :
    (do
      let (io21, in_) := (Generated.Lex.input_startToken (embKT k ts j))
      if (Generated.Lex.input_eof in_) then (do
        let t22 ← (Generated.Lex.input_endToken in_ (-1 : Int))
        let (io23, in_) := t22
        pure ((), in_)) else (do
        let c_1 := (Generated.Lex.input_peekRune in_)
        if (decide (c_1 = (10 : Int)) || decide (c_1 = (40 : Int)) || decide (c_1 = (41 : Int)) || decide (c_1 = (91 : Int)) || decide (c_1 = (93 : Int)) || decide (c_1 = (123 : Int)) || decide (c_1 = (125 : Int)) || decide (c_1 = (44 : Int))) then (do
          let t24 ← (Generated.Lex.input_readRune in_)
          let (io25, in_) := t24
          let t26 ← (Generated.Lex.input_endToken in_ c_1)
          let (io27, in_) := t26
          pure ((), in_)) else (if (decide (c_1 = (34 : Int)) || decide (c_1 = (96 : Int))) then (do
          let quote := c_1
          let t28 ← (Generated.Lex.input_readRune in_)
          let (io29, in_) := t28
          let in_ ← Generated.Lex.input_readToken_loop3 isPrintI isSpaceI quote fuel in_
          let t34 ← (Generated.Lex.input_endToken in_ (-4 : Int))
          let (io35, in_) := t34
          pure ((), in_)) else (do
          let c_3 := (Generated.Lex.input_peekRune in_)
          if (!(Generated.Lex.isIdent isPrintI isSpaceI c_3)) then (throw Err.panic) else (do
            let in_ ← Generated.Lex.input_readToken_loop4 isPrintI isSpaceI fuel in_
            let t40 ← (Generated.Lex.input_endToken in_ (-3 : Int))
            let (io41, in_) := t40
            pure ((), in_))))) : M (Unit × Generated.Lex.input)) = simU (restM j) ∧
      ∀ j', restM j = .ok j' → WF j' := by
  unfold restM
  simp only [startToken_eqT]
  have hws : WF (startToken j) := startToken_wf hw
  have hrem : (startToken j).remaining.length + 3 ≤ fuel := hf
  generalize startToken j = s at hws hrem
  have hidG : Generated.Lex.isIdent isPrintI isSpaceI (s.peekRune : Int) = isIdent s.peekRune :=
    isIdent_eq _ (by have := peekRune_le s; omega)
  simp only [eof_eq, peekRune_eq, hidG,
    show (10 : Int) = ((10 : Nat) : Int) from rfl, show (40 : Int) = ((40 : Nat) : Int) from rfl,
    show (41 : Int) = ((41 : Nat) : Int) from rfl, show (91 : Int) = ((91 : Nat) : Int) from rfl,
    show (93 : Int) = ((93 : Nat) : Int) from rfl, show (123 : Int) = ((123 : Nat) : Int) from rfl,
    show (125 : Int) = ((125 : Nat) : Int) from rfl, show (44 : Int) = ((44 : Nat) : Int) from rfl,
    show (34 : Int) = ((34 : Nat) : Int) from rfl, show (96 : Int) = ((96 : Nat) : Int) from rfl,
    natCast_eq_natCast, isPunct, punctRunes, quoteRunes, List.contains_cons, List.contains_nil, Bool.or_false,
    Bool.or_assoc]
  by_cases he : s.remaining = []
  · have h1 : s.eof = true := (eof_true_iff s).2 he
    have := endToken_eq k .eof s
    rw [show kindCode .eof = (-1 : Int) from rfl] at this
    simp only [h1, if_true, this, bind_ok, pure_eq_ok, simU, true_and]
    intro j' hj; cases hj; exact hws
  · have h1 : s.eof = false := (eof_false_iff s).2 he
    simp only [h1, Bool.false_eq_true, if_false]
    obtain ⟨r, i1, hM, hG, hw1, hlt, htok, hr⟩ := readRune_eq k s he hws
    rcases Bool.eq_false_or_eq_true (s.peekRune == 10 || (s.peekRune == 40 || (s.peekRune == 41 || (s.peekRune == 91 ||
      (s.peekRune == 93 || (s.peekRune == 123 || (s.peekRune == 125 || s.peekRune == 44))))))) with hp | hp
    · have hlt128 : s.peekRune < 128 := isPunct_lt (by
        simpa only [isPunct, punctRunes, List.contains_cons, List.contains_nil, Bool.or_false] using hp)
      have := endToken_eq k (.punct (UInt8.ofNat s.peekRune)) i1
      rw [kindCode_punct (by omega)] at this
      simp only [hp, if_true, hM, hG, bind_ok, ebind_ok, this, pure_eq_ok, simU, true_and]
      intro j' hj; cases hj; exact hw1
    · simp only [hp, Bool.false_eq_true, if_false]
      rcases Bool.eq_false_or_eq_true (s.peekRune == 34 || s.peekRune == 96) with hq | hq
      · simp only [hq, if_true, hM, hG, bind_ok, ebind_ok]
        obtain ⟨hG3, hP3⟩ := loop3_eq k s.peekRune (i1.remaining.length + 1) fuel i1 hw1 (by omega) (by omega)
        rw [hG3]
        cases hrs : readString s.peekRune (i1.remaining.length + 1) i1 with
        | error e => simp [simI, simU, ebind_error]
        | ok i2 =>
          have := endToken_eq k .string i2
          rw [show kindCode .string = (-4 : Int) from rfl] at this
          simp only [simI_ok, bind_ok, ebind_ok, this, pure_eq_ok, simU, true_and]
          intro j' hj; cases hj; exact (hP3 i2 hrs).1
      · simp only [hq, Bool.false_eq_true, if_false]
        cases hid : isIdent s.peekRune
        · simp [simU]
        · simp only [Bool.not_true, Bool.false_eq_true, if_false]
          obtain ⟨hG4, hP4⟩ := loop4_eq k (s.remaining.length + 1) fuel s hws (by omega) (by omega)
          rw [hG4]
          cases hrs : readIdent (s.remaining.length + 1) s with
          | error e => simp [simI, simU, ebind_error]
          | ok i2 =>
            have := endToken_eq k .ident i2
            rw [show kindCode .ident = (-3 : Int) from rfl] at this
            simp only [simI_ok, bind_ok, ebind_ok, this, pure_eq_ok, simU, true_and]
            intro j' hj; cases hj; exact (hP4 i2 hrs).1

/-! ### readToken, lex -/

theorem readToken_eq (k : Int) (ts : Bytes) (i : Input) (hw : WF i) (fuel : Nat) (hf : i.remaining.length + 4 ≤ fuel) :
    Generated.Lex.input_readToken isPrintI isSpaceI fuel (embKT k ts i) = simU (readToken i) ∧
      ∀ j, readToken i = .ok j → WF j := by
  unfold Generated.Lex.input_readToken
  obtain ⟨hG1, hP1, hP2⟩ := loop1_eq k ts (i.remaining.length + 1) fuel i hw (by omega) hf
  rw [hG1, readToken_headM]
  cases hh : headM (i.remaining.length + 1) i with
  | error e => simp [simC, simU]
  | ok c =>
    cases c with
    | ret j =>
      simp only [simC, bind_ok, pure_eq_ok, simU, true_and]
      intro j' hj; cases hj; exact hP1 j hh
    | next j =>
      obtain ⟨hwj, hlej⟩ := hP2 j hh
      simp only [simC, bind_ok]
      exact rest_eq k ts j hwj fuel (by omega)

/-- image of a model result of lex on the generated side -/
def simL : Except SynErr (Token × Input) → M (Generated.Lex.token × Generated.Lex.input)
  | .ok (t, j) => .ok (embTok t, emb j)
  | .error _ => .error .panic

theorem lex_eq (i : Input) (hw : WF i) (fuel : Nat) (hf : i.remaining.length + 4 ≤ fuel) :
    Generated.Lex.input_lex isPrintI isSpaceI fuel (emb i) = simL (lex i) ∧
      ∀ t j, lex i = .ok (t, j) → WF j ∧ j.remaining.length ≤ i.remaining.length := by
  unfold Generated.Lex.input_lex lex
  obtain ⟨hG, hP⟩ := readToken_eq (kindCode i.token.kind) _ i hw fuel hf
  show (do
    let t1 ← Generated.Lex.input_readToken isPrintI isSpaceI fuel
      (embKT (kindCode i.token.kind) (i.tokRev.reverse ++ i.remaining) i)
    _) = _ ∧ _
  rw [hG]
  cases hr : readToken i with
  | error e =>
    simp only [simU, bind_error, ebind_error, simL, true_and]
    intro t j h; cases h
  | ok j =>
    simp only [simU, bind_ok, ebind_ok, pure_eq_ok, simL]
    refine ⟨rfl, ?_⟩
    intro t j' h; cases h
    refine ⟨hP j hr, ?_⟩
    rcases Proofs.ModfileLex.readToken_spec i with ⟨i', h1, h2, _⟩ | ⟨e, h1, _⟩
    · rw [hr] at h1; cases h1; exact h2
    · rw [hr] at h1; cases h1

/-! ### lexAll (Drv/LexOps.lean): `lex` until the EOF token -/

theorem kind_beq_eof (t : Token) : ((embTok t).kind == (-1 : Int)) = (t.kind == TokKind.eof) := by
  rw [Bool.eq_iff_iff]
  simp only [beq_iff_eq]
  exact kindCode_eq_eof t.kind

theorem lexAll_eq (fuel : Nat) : ∀ (n : Nat) (i : Input) (acc : List Token), WF i → i.remaining.length + 4 ≤ fuel →
    Drv.LexOps.G.lexAll fuel n (emb i) (acc.map embTok) =
      (Drv.LexOps.M.lexAll n i acc).map (fun p => (p.1.map embTok, emb p.2)) := by
  intro n
  induction n with
  | zero => intro i acc _ _; rfl
  | succ n ih =>
    intro i acc hw hf
    unfold Drv.LexOps.G.lexAll Drv.LexOps.M.lexAll
    obtain ⟨hG, hP⟩ := lex_eq i hw fuel hf
    rw [hG]
    cases hl : lex i with
    | error e => rfl
    | ok p =>
      obtain ⟨t, j⟩ := p
      simp only [simL, kind_beq_eof]
      cases hk : (t.kind == TokKind.eof)
      · simp only [Bool.false_eq_true, if_false]
        obtain ⟨hwj, hle⟩ := hP t j hl
        have := ih j (t :: acc) hwj (by omega)
        simpa using this
      · simp

theorem lexAll_wf : ∀ (n : Nat) (i : Input) (acc : List Token), WF i → ∀ {ts : List Token} {i' : Input},
    Drv.LexOps.M.lexAll n i acc = some (ts, i') → WF i' := by
  intro n
  induction n with
  | zero => intro i acc _ ts i' h; cases h
  | succ n ih =>
    intro i acc hw ts i' h
    unfold Drv.LexOps.M.lexAll at h
    obtain ⟨_, hP⟩ := lex_eq i hw (i.remaining.length + 4) (Nat.le_refl _)
    cases hl : lex i with
    | error e => rw [hl] at h; cases h
    | ok p =>
      obtain ⟨t, j⟩ := p
      rw [hl] at h
      simp only at h
      obtain ⟨hwj, _⟩ := hP t j hl
      split at h
      · cases h; exact hwj
      · exact ih j (t :: acc) hwj h

/-! ### the printers of Drv/LexOps.lean agree on embedded values (an `Int.ofNat n` prints as `n`) -/

theorem showPos_emb (p : Position) : Drv.LexOps.G.showPos (embPos p) = Drv.LexOps.M.showPos p := rfl
theorem showTok_emb (t : Token) : Drv.LexOps.G.showTok (embTok t) = Drv.LexOps.M.showTok t := rfl
theorem showComment_emb (c : Comment) : Drv.LexOps.G.showComment (embComment c) = Drv.LexOps.M.showComment c := rfl

theorem map_showTok_emb (ts : List Token) : (ts.map embTok).map Drv.LexOps.G.showTok = ts.map Drv.LexOps.M.showTok := by
  rw [List.map_map]; rfl

theorem map_showComment_emb (cs : List Comment) :
    (cs.map embComment).map Drv.LexOps.G.showComment = cs.map Drv.LexOps.M.showComment := by
  rw [List.map_map]; rfl

end ModVerif.TieFnLex
