/-
  Helper lemmas for the tie of the regenerated `dirhash.DirFiles` / `HashDir`, part 5: the pieces put together.

  * `flat_mem`, `fpJoin_flat` : the leaves of the trie of a well-formed list are the element lists of its paths;
  * `walk_collect`  : walking the trie from any root `d` with a callback that collects the paths of the regular files;
  * `walk_DirFiles` : the same walk with the closure of `DirFiles` yields the model's `dirFiles` list;
  * `DirFiles_eq`   : the regenerated `DirFiles` on the three kinds of root;
  * `Hash1_congr`   : the regenerated `Hash1` looks at `open` only on the listed names.

  Core Lean only.
-/
import ModVerif.Proofs.TieFnDirhashDirWalk
import ModVerif.Tie.FnDirhash
import ModVerif.Proofs.TieFnDirhashC19
namespace ModVerif.TieFnDirhashDir
open ModVerif ModVerif.GoRt ModVerif.ZipSpec ModVerif.Proofs.ZipB
open ModVerif.Generated.Dirhash (FileInfo)
open ModVerif.Drv.GenDirhash (toFs toFsList treeOf)

theorem flat_mem {files : List (Bytes × Bytes)} (h : WF files) {q : List Bytes} (hq : q ∈ flatList (trieOf files)) :
    ∃ f ∈ files, q = splitOn 47 f.1 := by
  obtain ⟨f, hf, rfl⟩ := List.mem_map.1 ((trieOf_spec h).2.subset hq)
  exact ⟨f, hf, rfl⟩

theorem normalName_of_WF {files : List (Bytes × Bytes)} (h : WF files) {f : Bytes × Bytes} (hf : f ∈ files) :
    NormalName f.1 := normal_of_cleanRelB (h.1 f hf)

/-- `filepath.Join(P, rel)` for the path `rel` of a leaf -/
theorem fpJoin_flat {files : List (Bytes × Bytes)} (h : WF files) (P : Bytes) {q : List Bytes}
    (hq : q ∈ flatList (trieOf files)) :
    fpJoin P (J q) = render (PathClean.isRooted P) (PathClean.comps P ++ q) := by
  obtain ⟨f, hf, rfl⟩ := flat_mem h hq
  have e : fpJoin P (J (splitOn 47 f.1)) = Zip.fpJoin P f.1 := by rw [J_splitOn]; rfl
  rw [e, fpJoin_eq_render P (normalName_of_WF h hf)]

/-- the callback that collects the paths of the regular files -/
def collectFiles : WalkFn := fun p info _ st => pure (none, if info.IsDir then st else st ++ [p])

/-- ★ (core) pre-order traversal of the name-sorted trie = sort by the element-wise lexical order -/
theorem walk_collect {files : List (Bytes × Bytes)} (h : WF files) (d : Bytes) (fuel : Nat)
    (hf : walkFuel files < fuel) :
    walkChildren collectFiles fuel d (toFsList (trieOf files)) [] =
      .ok (none, (Dirhash.walkOrder (files.map (·.1))).map (fpJoin d)) := by
  have hsz : szList (trieOf files) < fuel := Nat.lt_of_le_of_lt (szList_trieOf files) hf
  have := walkChildren_spec collectFiles (PathClean.isRooted d) (PathClean.comps d)
    (fun q => render (PathClean.isRooted d) (PathClean.comps d ++ q))
    (fun p st => by simp [collectFiles, pure, Except.pure])
    (fun q st _ _ => by simp [collectFiles, pure, Except.pure])
    fuel d [] (trieOf files) [] rfl (by simp) (by simp) (trieOf_spec h).1 hsz
  rw [this, walkOrder_eq_flat h, List.map_map]
  simp only [List.nil_append]
  congr 2
  apply List.map_congr_left
  intro q hq
  exact (fpJoin_flat h d hq).symm

/-- a clean root other than `/` and `.`: `filepath.Join(d, rel)` is `d/rel` -/
theorem fpJoin_clean {d rel : Bytes} (hc : PathClean.pathClean d = d) (h1 : d ≠ [47]) (h2 : d ≠ [46])
    (hn : NormalName rel) : fpJoin d rel = d ++ [47] ++ rel := by
  have e : fpJoin d rel = Zip.fpJoin d rel := rfl
  have hb : PathClean.comps d ≠ [] := by
    intro hb
    have := pathClean_eq_render d
    rw [hb, hc] at this
    cases hr : PathClean.isRooted d with
    | true => rw [hr] at this; exact h1 this
    | false => rw [hr] at this; exact h2 this
  rw [e, fpJoin_eq_render d hn, render_append _ hb (splitOn_ne_nil 47 rel), ← pathClean_eq_render, hc, J_splitOn]
  simp

open ModVerif.Generated.Dirhash in
/-- the walk of `DirFiles` below a root that is not `/`: the model's list -/
theorem walk_DirFiles (walkRoot : Bytes → Option (FsTree FileInfo)) (fuel' : Nat) {files : List (Bytes × Bytes)}
    (h : WF files) (d pfx : Bytes) (hd : pathClean d ≠ [47]) (fuel : Nat) (hf : walkFuel files < fuel) :
    walkChildren (fun wp wi we fs => DirFiles_walkFn1 walkRoot fuel' (pathClean d) pfx wp wi we fs) fuel (pathClean d)
        (toFsList (trieOf files)) [] =
      .ok (none, (Dirhash.walkOrder (files.map (·.1))).map (fun rel => Dirhash.joinPath pfx rel)) := by
  have hsz : szList (trieOf files) < fuel := Nat.lt_of_le_of_lt (szList_trieOf files) hf
  have hpc : pathClean d = render (PathClean.isRooted d) (PathClean.comps d) := pathClean_eq_render d
  have hroot : ¬ (PathClean.isRooted d = true ∧ PathClean.comps d = []) := by
    rintro ⟨h1, h2⟩
    rw [hpc, h1, h2] at hd
    exact hd rfl
  have := walkChildren_spec
    (fun wp wi we fs => DirFiles_walkFn1 walkRoot fuel' (pathClean d) pfx wp wi we fs)
    (PathClean.isRooted d) (PathClean.comps d) (fun q => fpJoin pfx (J q))
    (fun p st => walkFn1_dir walkRoot fuel' _ pfx p st)
    (fun q st hq hn => by
      rw [hpc]
      exact walkFn1_file walkRoot fuel' pfx _ _ (canon_comps d) hroot q st hq hn)
    fuel (pathClean d) [] (trieOf files) []
    (isRooted_pathClean d) (by rw [List.append_nil]; exact comps_pathClean d) (by simp) (trieOf_spec h).1 hsz
  rw [this, walkOrder_eq_flat h, List.map_map]
  simp only [List.nil_append]
  congr 2
  apply List.map_congr_left
  intro q hq
  obtain ⟨f, hf', rfl⟩ := flat_mem h hq
  have hne : J (splitOn 47 f.1) ≠ [] := by
    rw [J_splitOn]; exact normalName_ne_nil (normalName_of_WF h hf')
  exact (joinPath_eq_fpJoin pfx _ (Or.inr hne)).symm

/-! ### DirFiles on the three kinds of root -/

open ModVerif.Generated.Dirhash in
theorem DirFiles_missing (walkRoot : Bytes → Option (FsTree FileInfo)) (fuel : Nat) (d pfx : Bytes)
    (hw : walkRoot (pathClean d) = none) :
    DirFiles walkRoot fuel d pfx = .ok ([], some "lstat: no such file or directory") := by
  unfold DirFiles
  simp only [hw, walkTreeOpt, walkFn1_err, bind, Except.bind, pure, Except.pure]
  rfl

open ModVerif.Generated.Dirhash in
theorem DirFiles_file (walkRoot : Bytes → Option (FsTree FileInfo)) (fuel : Nat) (d pfx : Bytes)
    (hw : walkRoot (pathClean d) = some (.file { IsDir := false })) (hf : 1 ≤ fuel) :
    DirFiles walkRoot fuel d pfx = .ok ([], some "%s is not a directory") := by
  obtain ⟨f, rfl⟩ : ∃ f, fuel = f + 1 := ⟨fuel - 1, by omega⟩
  unfold DirFiles
  simp only [hw, walkTreeOpt, walkTree, walkNode, walkFn1_rootFile, bind, Except.bind, pure, Except.pure]
  rfl

open ModVerif.Generated.Dirhash in
theorem DirFiles_dir (walkRoot : Bytes → Option (FsTree FileInfo)) (fuel : Nat) (d pfx : Bytes)
    {files : List (Bytes × Bytes)} (h : WF files) (hd : pathClean d ≠ [47])
    (hw : walkRoot (pathClean d) = some (.dir { IsDir := true } (toFsList (trieOf files))))
    (hf : walkFuel files + 2 ≤ fuel) :
    DirFiles walkRoot fuel d pfx =
      .ok ((Dirhash.walkOrder (files.map (·.1))).map (fun rel => Dirhash.joinPath pfx rel), none) := by
  obtain ⟨f, rfl⟩ : ∃ f, fuel = f + 1 := ⟨fuel - 1, by omega⟩
  have hwalk := walk_DirFiles walkRoot (f + 1) h d pfx hd f (by omega)
  unfold DirFiles
  simp only [hw, walkTreeOpt, walkTree, walkNode, walkFn1_dir, bind, Except.bind, pure, Except.pure,
    Option.isSome_none, Bool.false_eq_true, if_false, hwalk]
  rfl

/-! ### Hash1 and the `open` callback -/

theorem firstErr_congr (o₁ o₂ : Bytes → Bytes × Option String) : ∀ l : List Bytes, (∀ n ∈ l, o₁ n = o₂ n) →
    TieFnDirhash.firstErr o₁ l = TieFnDirhash.firstErr o₂ l
  | [], _ => rfl
  | file :: rest, h => by
    simp only [TieFnDirhash.firstErr, h file (by simp),
      firstErr_congr o₁ o₂ rest (fun n hn => h n (List.mem_cons_of_mem _ hn))]

/-- the regenerated `Hash1` looks at the `open` callback only on the listed names -/
theorem Hash1_congr (sha : Bytes → Bytes) (files : List Bytes) (o₁ o₂ : Bytes → Bytes × Option String) (fuel : Nat)
    (hf : files.length + 1 ≤ fuel) (h : ∀ n ∈ files, o₁ n = o₂ n) :
    Generated.Dirhash.Hash1 Base64.encodeStd (fun acc pre => pre ++ sha acc) fuel files o₁ =
      Generated.Dirhash.Hash1 Base64.encodeStd (fun acc pre => pre ++ sha acc) fuel files o₂ := by
  rw [Tie.FnDirhash.Hash1_tie_anyOpen sha files o₁ fuel hf, Tie.FnDirhash.Hash1_tie_anyOpen sha files o₂ fuel hf]
  have h1 : Dirhash.hash1 sha files (TieFnDirhash.openFOf o₁) = Dirhash.hash1 sha files (TieFnDirhash.openFOf o₂) :=
    TieFnDirhash.hash1_congr sha files _ _ (fun n hn => by simp [TieFnDirhash.openFOf, h n hn])
  have h2 := firstErr_congr o₁ o₂ (Dirhash.sortStrings files)
    (fun n hn => h n ((Dirhash.sortStrings_perm files).subset hn))
  rw [h1, h2]

end ModVerif.TieFnDirhashDir
