/-
  `path.Dir` does not lengthen a path: `(pathDir p).length ≤ max p.length 1` for EVERY byte string (the 1: `Dir("")` is
  "."), by weighing the component stack of `path.Clean` (every kept component with its separator).  Used for the fuel
  bound of the tie theorem of `collisionChecker.check` (the recursion passes the remaining fuel to `strToFold`).
-/
import ModVerif.Proofs.ZipAPath
namespace ModVerif.TieFnZip
open ModVerif ModVerif.PathClean ModVerif.Proofs.ZipA

/-- total length of the components, each with one separator -/
def wt : List Bytes → Nat
  | [] => 0
  | c :: cs => c.length + 1 + wt cs

theorem wt_append : ∀ a b : List Bytes, wt (a ++ b) = wt a + wt b
  | [], b => by simp [wt]
  | c :: a, b => by simp only [List.cons_append, wt, wt_append a b]; omega

theorem wt_reverse : ∀ a : List Bytes, wt a.reverse = wt a
  | [] => rfl
  | c :: a => by simp only [List.reverse_cons, wt_append, wt_reverse a, wt]; omega

theorem wt_join : ∀ cs : List Bytes, cs ≠ [] → (joinWith [47] cs).length + 1 = wt cs
  | [], h => absurd rfl h
  | [x], _ => by simp [joinWith, wt]
  | x :: y :: rest, _ => by
    have ih := wt_join (y :: rest) (by simp)
    rw [joinWith_cons_cons]
    simp only [List.length_append, List.length_cons, List.length_nil, wt] at ih ⊢
    omega

theorem wt_step (r : Bool) (st : List Bytes) (c : Bytes) : wt (step r st c) ≤ wt st + c.length + 1 := by
  unfold step
  split
  · omega
  split
  · omega
  split
  · rename_i hdd
    have hc : c = dotdot := by simpa using hdd
    have hl : c.length = 2 := by rw [hc]; rfl
    split
    · split
      · simp [wt]
      · simp only [wt, dotdot, List.length_cons, List.length_nil]; omega
    · rename_i top rest
      split
      · split
        · omega
        · simp only [wt, dotdot, List.length_cons, List.length_nil]; omega
      · simp only [wt]; omega
  · simp only [wt]; omega

theorem wt_foldl (r : Bool) : ∀ (cs st : List Bytes), wt (cs.foldl (step r) st) ≤ wt st + wt cs
  | [], st => by simp [wt]
  | c :: cs, st => by
    have h1 := wt_foldl r cs (step r st c)
    have h2 := wt_step r st c
    simp only [List.foldl_cons, wt]
    omega

theorem wt_splitOn (p : Bytes) : wt (splitOn 47 p) = p.length + 1 := by
  have := wt_join (splitOn 47 p) (splitOn_ne_nil 47 p)
  rw [joinWith_splitOn] at this
  omega

theorem wt_comps_le (p : Bytes) : wt (comps p) ≤ p.length + 1 := by
  unfold comps cleanComps
  rw [wt_reverse]
  have := wt_foldl (isRooted p) (splitOn 47 p) []
  rw [wt_splitOn] at this
  simpa [wt] using this

theorem wt_comps_rooted (p : Bytes) (h : isRooted p = true) : wt (comps p) ≤ p.length := by
  cases p with
  | nil => simp [isRooted] at h
  | cons x t =>
    rw [isRooted_cons] at h
    have hx : x = 47 := by simpa using h
    subst hx
    unfold comps cleanComps
    rw [wt_reverse, splitOn_cons_sep]
    have e : step (isRooted (47 :: t)) [] [] = [] := by simp [step]
    rw [List.foldl_cons, e]
    have := wt_foldl (isRooted (47 :: t)) (splitOn 47 t) []
    rw [wt_splitOn] at this
    simpa [wt] using this

theorem joinWith_length_le (cs : List Bytes) : (joinWith [47] cs).length ≤ wt cs - 1 := by
  cases cs with
  | nil => simp [joinWith]
  | cons c t => have := wt_join (c :: t) (by simp); omega

theorem pathClean_length_le (p : Bytes) : (pathClean p).length ≤ max p.length 1 := by
  unfold pathClean
  by_cases hp : p = []
  · subst hp; simp
  have hp' : (p == []) = false := by simpa using hp
  rw [hp']
  simp only [Bool.false_eq_true, if_false]
  have hpl : 1 ≤ p.length := by cases p with | nil => exact absurd rfl hp | cons _ _ => simp
  by_cases hr : isRooted p = true
  · rw [if_pos hr]
    have h1 := wt_comps_rooted p hr
    have h2 := joinWith_length_le (comps p)
    simp only [List.length_cons]
    omega
  · rw [if_neg hr]
    split
    · simp; omega
    · have h1 := wt_comps_le p
      have h2 := joinWith_length_le (comps p)
      omega

theorem pathDir_length_le (p : Bytes) : (pathDir p).length ≤ max p.length 1 := by
  show (pathClean (List.take (p.length - (lastElem p).length) p)).length ≤ max p.length 1
  have h1 := pathClean_length_le (List.take (p.length - (lastElem p).length) p)
  have h2 : (List.take (p.length - (lastElem p).length) p).length ≤ p.length := by simp
  omega

end ModVerif.TieFnZip
