/-
  C02, end-of-line comments, stages (ii)/(iii), part a: the positioned token stream of the lexer.

  * `pa D r` — the position (line, rune-in-line, byte) at which the suffix `r` of the input `D` begins; every
    position the lexer stores is of this form (`SI.step`, from the C20 lexer invariant `LInv0`).
  * `EStream D S i` — from the lexer state `i` (pending token = head of `S`) repeated `readToken` delivers
    exactly the sequence `S` of full `Token` records (kind, start, end, text); every end-of-line comment token
    delivered is recorded in `commentsRev` with its start position (`recOf`).
  * `LexesToE D m B S` — the byte string `B` (a suffix of `D`; in mode `m`: at the beginning of a line / after a
    line token on the same line / anywhere) lexes to `S`; one composition lemma per kind of token, in
    particular `lexesToE_eolc`: a `//` comment after a line token is delivered as an END-OF-LINE comment token.
-/
import ModVerif.Proofs.ModfileEolRender
import ModVerif.Proofs.ModfileFmtClass
import ModVerif.Proofs.ModfileC20Lay
namespace ModVerif.Proofs.ModfileEol
open ModVerif ModVerif.Modfile ModVerif.Proofs.ModfileLex ModVerif.Proofs.ModfileFmtUtf8
open ModVerif.Proofs.ModfileFmtTok ModVerif.Proofs.ModfileFmtLex ModVerif.Proofs.ModfileFmtLine
open ModVerif.Proofs.ModfileFmtStream ModVerif.Proofs.ModfileFmtClass
open ModVerif.Proofs.ModfilePos ModVerif.Proofs.ModfileC20

/-! ### positions as functions of the remaining input -/

/-- the consistent position with byte offset `n` -/
def posOf (D : Bytes) (n : Nat) : Position :=
  { line := 1 + (D.take n).count 10, lineRune := 1 + GoStrings.runeCount (lastLine (D.take n)), byte := n }

/-- the position at which the suffix `r` of `D` begins -/
def pa (D r : Bytes) : Position := posOf D (D.length - r.length)

theorem posOK_eq {D : Bytes} {p : Position} (h : PosOK D p) : p = posOf D p.byte := by
  cases p
  simp only [posOf, Position.mk.injEq]
  exact ⟨h.line, h.lineRune, trivial⟩

@[simp] theorem pa_byte (D r : Bytes) : (pa D r).byte = D.length - r.length := rfl

/-- the state invariant of the re-lexing chain: the C20 position invariant and the C02 line-prefix
    classification invariant -/
structure SI (D : Bytes) (i : Input) : Prop where
  linv : LInv0 D i
  cls : ModfileFmtClass.Inv i

theorem linv0_setId {D : Bytes} {i : Input} (h : LInv0 D i) (n : Nat) : LInv0 D { i with nextId := n } :=
  ⟨⟨h.base.split, h.base.byte, h.base.tok⟩, h.line, h.rune1, h.aligned, h.comments⟩

theorem SI.setId {D : Bytes} {i : Input} (h : SI D i) (n : Nat) : SI D { i with nextId := n } :=
  ⟨linv0_setId h.linv n, h.cls.setId n⟩

theorem si_newInput (D : Bytes) : SI D (newInput D) := ⟨linv0_newInput D, ModfileFmtClass.inv_newInput D⟩

theorem linv0_len {D : Bytes} {i : Input} (h : LInv0 D i) : D.length = i.consumedRev.length + i.remaining.length := by
  rw [← h.base.split]; simp

theorem linv0_pos {D : Bytes} {i : Input} (h : LInv0 D i) : i.pos = pa D i.remaining := by
  rw [posOK_eq h.cur]
  unfold pa
  congr 1
  have := linv0_len h
  rw [h.base.byte]; omega

/-- one `readToken` step: the invariant is kept, the token ends where the rest begins, and a token that is
    not a comment starts `text.length` bytes earlier -/
theorem SI.step {D : Bytes} {i i' : Input} (hi : SI D i) (h : readToken i = .ok i') :
    SI D i' ∧ i'.token.endPos = pa D i'.remaining ∧
      (i'.token.kind.isComment = false → i'.token.pos = pa D (i'.token.text ++ i'.remaining)) := by
  have ht : TokOK2 D i' := by
    have := readToken_res hi.linv
    rw [h] at this; exact this
  have hl := ht.inv.toLInv0
  refine ⟨⟨hl, (readToken_class i i' h hi.cls).1⟩, by rw [ht.endPos]; exact linv0_pos hl, ?_⟩
  intro hk
  rw [posOK_eq ht.inv.tokpos]
  unfold pa
  congr 1
  obtain ⟨_, h2, h3, _, _⟩ := tokOK_spec ht.old
  have hlen := linv0_len hl
  have hb := hl.base.byte
  have htx : i'.token.text.length = i'.tokRev.length := by rw [ht.exact hk]; simp
  simp only [List.length_append]
  omega

/-! ### the stream of token records -/

/-- the comment the lexer records when it delivers `tok` -/
def recOf (tok : Token) : List Comment :=
  if tok.kind = .eolComment then [{ start := tok.pos, token := tok.text, suffix := true }] else []

def recs (S : List Token) : List Comment := S.flatMap recOf

/-- `EStream D S i`: the pending token of `i` is the head of `S`, and (whatever `nextId` is set to)
    `readToken` delivers the rest of `S` one by one, recording the end-of-line comments; `S` ends with the
    end-of-input token. -/
def EStream (D : Bytes) : List Token → Input → Prop
  | [], _ => False
  | tok :: s, i => i.token = tok ∧ SI D i ∧ (tok.kind = .eof → s = []) ∧
      (tok.kind ≠ .eof → ∀ n : Nat, ∃ i', readToken { i with nextId := n } = .ok i' ∧ i'.nextId = n ∧
         i'.commentsRev.reverse = i.commentsRev.reverse ++ recOf i'.token ∧ EStream D s i')

/-- the comments recorded so far followed by those the rest of the stream will record: constant along the
    stream -/
def fut (S : List Token) (i : Input) : List Comment := i.commentsRev.reverse ++ recs S.tail

theorem EStream.setId {D : Bytes} {S : List Token} {i : Input} (h : EStream D S i) (m : Nat) :
    EStream D S { i with nextId := m } := by
  cases S with
  | nil => exact h
  | cons a s =>
    obtain ⟨h1, h2, h3, h4⟩ := h
    exact ⟨h1, h2.setId m, h3, h4⟩

theorem EStream.tok {D : Bytes} {tok : Token} {s : List Token} {i : Input} (h : EStream D (tok :: s) i) :
    i.token = tok := h.1

theorem EStream.si {D : Bytes} {tok : Token} {s : List Token} {i : Input} (h : EStream D (tok :: s) i) :
    SI D i := h.2.1

/-- the parser's `lex` on a stream whose head is not the end of input -/
theorem EStream.lex {D : Bytes} {tok : Token} {s : List Token} {i : Input} (h : EStream D (tok :: s) i)
    (hk : tok.kind ≠ .eof) :
    ∃ i', lex i = .ok (tok, i') ∧ i'.nextId = i.nextId ∧ EStream D s i' ∧ fut s i' = fut (tok :: s) i := by
  obtain ⟨h1, _, _, hnext⟩ := h
  obtain ⟨i', hr, hn, hc, hs⟩ := hnext hk i.nextId
  have : ({ i with nextId := i.nextId } : Input) = i := rfl
  rw [this] at hr
  refine ⟨i', by simp [Modfile.lex, hr, bind, Except.bind, h1], hn, hs, ?_⟩
  unfold fut
  rw [hc]
  cases s with
  | nil => exact absurd hs id
  | cons t2 s2 =>
    have : i'.token = t2 := hs.1
    simp [recs, this]

theorem EStream.ne_nil {D : Bytes} {S : List Token} {i : Input} (h : EStream D S i) : S ≠ [] := by
  intro hS; subst hS; exact h

/-- the length of a stream is bounded by the parser's termination measure -/
theorem EStream.length_le {D : Bytes} : ∀ (S : List Token) (i : Input), EStream D S i → S.length ≤ ModfileParse.m i + 1 := by
  intro S
  induction S with
  | nil => intro i h; exact absurd h id
  | cons a s ih =>
    intro i h
    obtain ⟨hk, _, heof, hnext⟩ := h
    by_cases hke : a.kind = .eof
    · rw [heof hke]; simp
    · obtain ⟨i', hr, _, _, hs⟩ := hnext hke i.nextId
      have : ({ i with nextId := i.nextId } : Input) = i := rfl
      rw [this] at hr
      have hlen := ih i' hs
      rcases readToken_spec i with ⟨i2, h2, hle, hlt, _⟩ | ⟨e, h2, _⟩
      · rw [hr] at h2
        have : i' = i2 := by cases h2; rfl
        subst this
        have hki : i.token.kind ≠ .eof := by rw [hk]; exact hke
        have hmi : ModfileParse.m i = i.remaining.length + 1 := by
          unfold ModfileParse.m; simp [hki]
        have hmi' : ModfileParse.m i' + 1 ≤ ModfileParse.m i := by
          unfold ModfileParse.m at hmi ⊢
          by_cases hk' : i'.token.kind = .eof
          · simp only [hk', if_true]; omega
          · have := hlt hk'
            simp only [hk', if_false]; omega
        simp only [List.length_cons]
        omega
      · rw [hr] at h2; cases h2

/-! ### byte strings that lex to a stream -/

/-- where on its line the lexer is: at the beginning, after a line token, or anywhere -/
inductive Mode where
  | bol | used | any

def ModeOK : Mode → Input → Prop
  | .bol, i => LineStart i
  | .used, i => Used i
  | .any, _ => True

/-- `B` lexes to the stream `S` -/
def LexesToE (D : Bytes) (m : Mode) (B : Bytes) (S : List Token) : Prop :=
  ∀ i : Input, SI D i → i.remaining = B → ModeOK m i →
    ∃ i', readToken i = .ok i' ∧ i'.nextId = i.nextId ∧
      i'.commentsRev.reverse = i.commentsRev.reverse ++ recOf i'.token ∧ EStream D S i'

theorem LexesToE.weaken {D : Bytes} {B : Bytes} {S : List Token} (h : LexesToE D .any B S) (m : Mode) :
    LexesToE D m B S := by
  intro i hi hr _
  exact h i hi hr trivial

theorem modeOK_setId {m : Mode} {i : Input} (h : ModeOK m i) (n : Nat) : ModeOK m { i with nextId := n } := by
  cases m with
  | bol => exact h
  | used => exact Used.setId h n
  | any => trivial

/-- build `EStream (x :: S)` for a state whose pending token is `x` and whose remaining input lexes to `S` -/
theorem stream_consE {D : Bytes} {tok : Token} {S : List Token} {m : Mode} {i : Input}
    (ht : i.token = tok) (hsi : SI D i) (hne : tok.kind ≠ .eof)
    (hS : LexesToE D m i.remaining S) (hm : ModeOK m i) : EStream D (tok :: S) i := by
  refine ⟨ht, hsi, fun h => absurd h hne, fun _ n => ?_⟩
  obtain ⟨i', hr, hn, hc, hs⟩ := hS { i with nextId := n } (hsi.setId n) rfl (modeOK_setId hm n)
  exact ⟨i', hr, hn, hc, hs⟩

/-! ### token records -/

def eofT (D : Bytes) : Token := ⟨.eof, pa D [], pa D [], []⟩
def tokT (D : Bytes) (t rest : Bytes) : Token := ⟨kindOf t, pa D (t ++ rest), pa D rest, t⟩
def nlT (D : Bytes) (rest : Bytes) : Token := ⟨.punct 10, pa D (10 :: rest), pa D rest, [10]⟩
def comT (D : Bytes) (c rest : Bytes) : Token := ⟨.comment, pa D (c ++ 10 :: rest), pa D rest, c⟩
def eolT (D : Bytes) (c rest : Bytes) : Token := ⟨.eolComment, pa D (c ++ 10 :: rest), pa D rest, c⟩

theorem token_ext {a b : Token} (h1 : a.kind = b.kind) (h2 : a.pos = b.pos) (h3 : a.endPos = b.endPos)
    (h4 : a.text = b.text) : a = b := by
  cases a; cases b; simp_all

theorem recOf_of_not_eolc {tok : Token} (h : tok.kind ≠ .eolComment) : recOf tok = [] := by
  simp [recOf, h]

/-- the end of the input -/
theorem lexesToE_eof (D : Bytes) (m : Mode) : LexesToE D m [] [eofT D] := by
  intro i hsi hi _
  have he : i.eof = true := by simp [Input.eof, hi]
  have hs : skipSpaces (i.remaining.length + 1) i = .ok i := by
    simp [skipSpaces, he]
  have hr : readToken i = .ok (endToken .eof (startToken i)) := by
    unfold readToken
    have : (startToken i).eof = true := he
    simp [hs, bind, Except.bind, he, this]
  obtain ⟨hsi', hend, hpos⟩ := hsi.step hr
  have hrem : (endToken .eof (startToken i)).remaining = [] := hi
  have htxt : (endToken .eof (startToken i)).token.text = [] := by
    have := (hsi.linv.base.tok)
    simp [endToken, startToken, TokKind.isComment]
  have hkind : (endToken .eof (startToken i)).token.kind = .eof := rfl
  refine ⟨_, hr, rfl, ?_, ?_⟩
  · rw [recOf_of_not_eolc (by rw [hkind]; simp)]; simp [endToken, startToken]
  · refine ⟨?_, hsi', fun _ => rfl, fun h => absurd rfl h⟩
    apply token_ext hkind
    · rw [hpos (by rw [hkind]; rfl), htxt, hrem]; rfl
    · rw [hend, hrem]; rfl
    · exact htxt

/-- a line token -/
theorem lexesToE_tok {D : Bytes} {k : TokKind} {t : Bytes} (hk : TokOK k t) (ws rest : Bytes)
    (hws : ∀ b ∈ ws, isBlank b = true) (hrest : DelimStart rest ∨ ∃ c, k = .punct c)
    {S : List Token} (hS : LexesToE D .used rest S) (m : Mode) :
    LexesToE D m (ws ++ (t ++ rest)) (tokT D t rest :: S) := by
  intro i hsi hi _
  obtain ⟨i', hr, hk', ht', hrem, _, hc, hn⟩ := relex_one hk ws rest hws hrest i hi
  obtain ⟨hsi', hend, hpos⟩ := hsi.step hr
  have hne : k ≠ .eof := by
    intro h; subst h; cases hk
  have hnc : i'.token.kind.isComment = false := by
    rw [hk']; cases hk <;> rfl
  have hkk : k = kindOf t := tokOK_kind_eq hk
  have hnotc : i'.token.kind ≠ .eolComment := by
    intro h; rw [h] at hnc; cases hnc
  refine ⟨i', hr, hn, by rw [hc, recOf_of_not_eolc hnotc]; simp, ?_⟩
  have hused : Used i' := (readToken_class i i' hr hsi.cls).2.2 t (by rw [hk']; exact hk)
  have htok : i'.token = tokT D t rest := by
    apply token_ext
    · rw [hk', hkk]; rfl
    · rw [hpos hnc, ht', hrem]; rfl
    · rw [hend, hrem]; rfl
    · exact ht'
  exact stream_consE (m := .used) htok hsi' (by show (kindOf t) ≠ .eof; rw [← hkk]; exact hne) (by rw [hrem]; exact hS) hused

/-- a newline -/
theorem lexesToE_newline {D : Bytes} (ws rest : Bytes) (hws : ∀ b ∈ ws, isBlank b = true)
    {S : List Token} (hS : LexesToE D .bol rest S) (m : Mode) :
    LexesToE D m (ws ++ 10 :: rest) (nlT D rest :: S) := by
  intro i hsi hi _
  obtain ⟨i', hr, hk', ht', hrem, hcons, hc, hn⟩ := relex_newline ws rest hws i hi
  obtain ⟨hsi', hend, hpos⟩ := hsi.step hr
  have hnc : i'.token.kind.isComment = false := by rw [hk']; rfl
  have hnotc : i'.token.kind ≠ .eolComment := by rw [hk']; simp
  refine ⟨i', hr, hn, by rw [hc, recOf_of_not_eolc hnotc]; simp, ?_⟩
  have htok : i'.token = nlT D rest := by
    apply token_ext
    · rw [hk']; rfl
    · rw [hpos hnc, ht', hrem]; rfl
    · rw [hend, hrem]; rfl
    · exact ht'
  refine stream_consE (m := .bol) htok hsi' (by simp [nlT]) (by rw [hrem]; exact hS) ?_
  show LineStart i'
  unfold LineStart
  rw [hcons]
  simp

/-! ### comments -/

theorem readRune_tokpos {i i' : Input} {r : Nat} (h : readRune i = .ok (r, i')) : i'.token.pos = i.token.pos := by
  rw [(readRune_token h).1]

theorem readComment_tokpos {i i' : Input} (h : readComment i = .ok i') : i'.token.pos = i.pos := by
  unfold readComment at h
  cases h1 : readRune (startToken i) with
  | error e => simp [h1, bind, Except.bind] at h
  | ok v1 =>
    have e1 := readRune_tokpos (show readRune (startToken i) = .ok (v1.1, v1.2) by rw [h1])
    simp only [h1, bind, Except.bind] at h
    cases h2 : readRune v1.2 with
    | error e => simp [h2] at h
    | ok v2 =>
      have e2 := readRune_tokpos (show readRune v1.2 = .ok (v2.1, v2.2) by rw [h2])
      simp only [h2] at h
      cases h3 : consumeLine (v2.2.remaining.length + 1) v2.2 with
      | error e => simp [h3] at h
      | ok v3 =>
        have e3 := consumeLine_pres (P := fun j => j.token.pos = i.pos)
          (fun _ _ _ hp hr => by rw [readRune_tokpos hr]; exact hp) _ _ _ (by rw [e2, e1]; rfl) h3
        simp only [h3] at h
        split at h
        · cases h; exact e3
        · cases h; exact e3

/-- `readToken` on blanks, a `//` text (not ending in CR) and a newline: the text is delivered as a comment
    token that starts where the text starts; it is an end-of-line comment (and recorded) iff the line prefix
    does not trim to nothing -/
theorem relex_commentLine {D : Bytes} (ws c rest : Bytes) (hws : ∀ b ∈ ws, isBlank b = true)
    (hc : CommentOK c) (hlast : c.getLast? ≠ some 13) (i : Input) (hsi : SI D i)
    (hi : i.remaining = ws ++ (c ++ 10 :: rest)) :
    ∃ (i0 i' : Input), readToken i = .ok i' ∧ i0.consumedRev = ws.reverse ++ i.consumedRev ∧ i.remaining = ws ++ i0.remaining ∧
      i'.nextId = i.nextId ∧ i'.token.text = c ∧ i'.remaining = rest ∧
      i'.consumedRev = 10 :: (c.reverse ++ i0.consumedRev) ∧
      i'.token.pos = pa D (c ++ 10 :: rest) ∧
      (let suffix := !(GoStrings.trimSpace (i0.consumedRev.takeWhile (· != 10)).reverse).isEmpty
       i'.token.kind = (if suffix then TokKind.eolComment else TokKind.comment) ∧
       i'.commentsRev = if suffix then
           ({ start := i'.token.pos, token := i'.token.text, suffix := true } : Comment) :: i.commentsRev
         else i.commentsRev) := by
  obtain ⟨t, ht⟩ : ∃ t, c = 47 :: 47 :: t := ModfileFmtTrim.commentOK_cons hc
  obtain ⟨i0, hs0, hadv0⟩ := skipSpaces_relex ws (c ++ 10 :: rest) hws
    (by intro b hb; rw [ht] at hb; simp at hb; subst hb; rfl)
    (i.remaining.length + 1) i hi (by rw [hi]; simp only [List.length_append]; omega)
  have hrem0 : i0.remaining = c ++ 10 :: rest := hadv0.rem_of hi
  have hne0 : i0.remaining ≠ [] := by rw [hrem0, ht]; simp
  have heof0 : i0.eof = false := (eof_false_iff i0).2 hne0
  have hpp : i0.peekPrefix [47, 47] = true := by
    simp [Input.peekPrefix, hrem0, ht, isPrefixOfB]
  obtain ⟨i', hr, hrem', hcons', hn', htext', hkc⟩ := readComment_char i0 hpp
  have hl0 : LInv0 D i0 := skipSpaces_pres (P := LInv0 D) (fun _ _ _ hp hr => linv0_readRune hp hr) _ _ _ hsi.linv hs0
  have hline : lineOf i0.remaining = c ++ [10] := by
    rw [hrem0, lineOf_append _ _ hc.2]; simp [lineOf]
  have htext : i'.token.text = c := by
    rw [htext', hline]
    unfold stripEOL
    have hrev : (c ++ [10]).reverse = 10 :: c.reverse := by simp
    rw [hrev]
    have : stripRev (10 :: c.reverse) = c.reverse := by
      unfold stripRev
      split
      · rename_i r heq
        simp only [List.cons.injEq, true_and] at heq
        exfalso
        apply hlast
        have : c = r.reverse ++ [13] := by
          have := congrArg List.reverse heq
          simpa using this
        rw [this]; simp
      · rename_i r _ heq
        simp only [List.cons.injEq, true_and] at heq
        exact heq.symm
      · rename_i h1 h2; exact absurd rfl (h2 _)
    rw [this]; simp
  have hremf : i'.remaining = rest := by
    rw [hline, hrem0, List.append_assoc] at hrem'
    have := (List.append_cancel_left hrem').symm
    simpa using this
  have hread : readToken i = .ok i' := by
    unfold readToken
    simp only [hs0, bind, Except.bind, heof0, hpp, Bool.not_false, Bool.and_self, if_true, hr]
  have hpos : i'.token.pos = pa D (c ++ 10 :: rest) := by
    rw [readComment_tokpos hr, linv0_pos hl0, hrem0]
  refine ⟨i0, i', hread, hadv0.cons, hadv0.rem, by rw [hn']; exact hadv0.nextId, htext, hremf, ?_, hpos, ?_⟩
  · rw [hcons', hline]; simp
  · rw [← hadv0.comments]
    exact hkc

/-- a whole-line comment: blanks, the comment text (not ending in CR), a newline -/
theorem lexesToE_comment {D : Bytes} (ws c rest : Bytes) (hws : ∀ b ∈ ws, isBlank b = true)
    (hc : CommentOK c) (hlast : c.getLast? ≠ some 13)
    {S : List Token} (hS : LexesToE D .bol rest S) : LexesToE D .bol (ws ++ (c ++ 10 :: rest)) (comT D c rest :: S) := by
  intro i hsi hi hbol
  have hls : LineStart i := hbol
  obtain ⟨i0, i', hread, hc0, _, hn, htext, hrem, hcons, hpos, hk⟩ := relex_commentLine ws c rest hws hc hlast i hsi hi
  obtain ⟨hsi', hend, _⟩ := hsi.step hread
  have hprefix : (i0.consumedRev.takeWhile (· != 10)).reverse = ws := by
    rw [hc0]
    have h1 : ∀ b ∈ ws.reverse, (b != 10) = true := by
      intro b hb; exact blank_ne_newline hws b (by simpa using hb)
    rw [List.takeWhile_append_of_pos h1]
    have : i.consumedRev.takeWhile (· != 10) = [] := hls
    rw [this]; simp
  have htrim : GoStrings.trimSpace ws = [] := ModfileFmtTrim.trimSpace_blank ws (fun b hb => isBlank_cases (hws b hb))
  simp only [hprefix, htrim, List.isEmpty_nil, Bool.not_true, Bool.false_eq_true, if_false] at hk
  obtain ⟨hkind, hcomm⟩ := hk
  refine ⟨i', hread, hn, by rw [hcomm, recOf_of_not_eolc (by rw [hkind]; simp)]; simp, ?_⟩
  have htok : i'.token = comT D c rest := by
    apply token_ext hkind hpos
    · rw [hend, hrem]; rfl
    · exact htext
  refine stream_consE (m := .bol) htok hsi' (by simp [comT]) (by rw [hrem]; exact hS) ?_
  show LineStart i'
  unfold LineStart
  rw [hcons]
  simp

/-- ★ stage (ii): an END-OF-LINE comment: after a line token on the same line (`Used`), blanks, the comment
    text, a newline are delivered as an end-of-line comment token — the classification of the printed
    comment is preserved — and the comment is recorded with the position where its text starts. -/
theorem lexesToE_eolc {D : Bytes} (ws c rest : Bytes) (hws : ∀ b ∈ ws, isBlank b = true)
    (hc : CommentOK c) (hlast : c.getLast? ≠ some 13)
    {S : List Token} (hS : LexesToE D .bol rest S) : LexesToE D .used (ws ++ (c ++ 10 :: rest)) (eolT D c rest :: S) := by
  intro i hsi hi hused
  have hu : Used i := hused
  obtain ⟨i0, i', hread, hc0, hr0, hn, htext, hrem, hcons, hpos, hk⟩ := relex_commentLine ws c rest hws hc hlast i hsi hi
  obtain ⟨hsi', hend, _⟩ := hsi.step hread
  have hu0 : Used i0 := (inv_blanks hws hc0 hr0).2 hu
  have hne := hu0.trim_ne_nil
  have hsuf : (!(GoStrings.trimSpace (i0.consumedRev.takeWhile (· != 10)).reverse).isEmpty) = true := by
    have : GoStrings.trimSpace (linePrefix i0) ≠ [] := hne
    unfold linePrefix at this
    simpa using this
  simp only [hsuf, if_true] at hk
  obtain ⟨hkind, hcomm⟩ := hk
  have htok : i'.token = eolT D c rest := by
    apply token_ext hkind hpos
    · rw [hend, hrem]; rfl
    · exact htext
  refine ⟨i', hread, hn, ?_, ?_⟩
  · rw [hcomm]
    simp [recOf, hkind]
  · refine stream_consE (m := .bol) htok hsi' (by simp [eolT]) (by rw [hrem]; exact hS) ?_
    show LineStart i'
    unfold LineStart
    rw [hcons]
    simp

/-! ### a printed token line -/

/-- the token records of a printed token line followed by `rest` -/
def tokStrT (D : Bytes) : List Bytes → Bytes → List Token
  | [], _ => []
  | t :: ts, rest => tokT D t (tokStr ts (sepAfter t) ++ rest) :: tokStrT D ts rest

theorem lexesToE_tokStr {D : Bytes} (ts : List Bytes) (hts : ∀ t ∈ ts, TokText t) (hne : ts ≠ []) (sep : Bytes)
    (hsep : sep = [] ∨ sep = [32]) (ws : Bytes) (hws : ∀ b ∈ ws, isBlank b = true) (rest : Bytes)
    (hrest : DelimStart rest) {S : List Token} (hS : LexesToE D .used rest S) (m : Mode) :
    LexesToE D m (ws ++ (tokStr ts sep ++ rest)) (tokStrT D ts rest ++ S) := by
  induction ts generalizing sep ws m with
  | nil => exact absurd rfl hne
  | cons t ts ih =>
    have ht : TokText t := hts t (by simp)
    have hts' : ∀ t' ∈ ts, TokText t' := fun t' h => hts t' (by simp [h])
    have hws' : ∀ b ∈ ws ++ (if Printer.noSepBefore.contains t then [] else sep), isBlank b = true := by
      intro b hb
      rcases List.mem_append.1 hb with h | h
      · exact hws b h
      · exact sep_blank hsep t b h
    have hfollow := tokStr_follow ht ts hts' rest hrest
    have hcont : LexesToE D .used (tokStr ts (sepAfter t) ++ rest) (tokStrT D ts rest ++ S) := by
      cases hts0 : ts with
      | nil => simpa [tokStr, tokStrT] using hS
      | cons t' ts' =>
        rw [← hts0]
        have := ih hts' (by rw [hts0]; simp) (sepAfter t) (sepAfter_cases t) [] (by simp) .used
        simpa using this
    have := lexesToE_tok ht _ (tokStr ts (sepAfter t) ++ rest) hws' hfollow hcont m
    simpa [tokStr, tokStrT, List.append_assoc] using this

end ModVerif.Proofs.ModfileEol
