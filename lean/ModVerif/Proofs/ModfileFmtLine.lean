/-
  C02 stage 1, part d (`tokens_relex`) and the token-stream view of the lexer.

  * `tokStr` — the bytes `Printer.tokens` writes, as a pure function; `tokensAux_eq`.
  * `kindOf`, `TokText` — a token text determines its kind.
  * `Stream S i` — from the lexer state `i` (whose pending token is the head of `S`) repeated `readToken`
    delivers exactly the (kind, text) sequence `S`, ending with the end-of-input token, without
    recording any end-of-line comment.  The parser only ever changes `nextId` between two `readToken`
    calls, so the definition quantifies over `nextId`.
  * `LexesTo` — a byte string lexes to a stream; one composition lemma per kind of token.
  * ★ `tokens_relex` — the printed token line lexes back to the same tokens.
-/
import ModVerif.Model.Modfile.Print
import ModVerif.Proofs.ModfileParse
import ModVerif.Proofs.ModfileFmtLex
namespace ModVerif.Proofs.ModfileFmtLine
open ModVerif ModVerif.Modfile ModVerif.Proofs.ModfileLex ModVerif.Proofs.ModfileFmtUtf8
open ModVerif.Proofs.ModfileFmtTok ModVerif.Proofs.ModfileFmtLex

/-! ### the bytes of a token line -/

/-- the separator the printer puts after `t` (unless the next token suppresses it) -/
def sepAfter (t : Bytes) : Bytes := if Printer.noSepAfter.contains t then [] else [32]

/-- the bytes `Printer.tokensAux` writes -/
def tokStr : List Bytes → Bytes → Bytes
  | [], _ => []
  | t :: rest, sep => (if Printer.noSepBefore.contains t then [] else sep) ++ t ++ tokStr rest (sepAfter t)

theorem write_write (p : Printer) (a b : Bytes) : (p.write a).write b = p.write (a ++ b) := by
  simp [Printer.write]

theorem write_nil (p : Printer) : p.write [] = p := by
  simp [Printer.write]

theorem tokensAux_eq (p : Printer) (ts : List Bytes) (sep : Bytes) :
    p.tokensAux ts sep = p.write (tokStr ts sep) := by
  induction ts generalizing p sep with
  | nil => simp [Printer.tokensAux, tokStr, write_nil]
  | cons t rest ih =>
    simp only [Printer.tokensAux, tokStr]
    rw [ih, write_write, write_write]
    simp [sepAfter, List.append_assoc]

theorem tokens_eq (p : Printer) (ts : List Bytes) : p.tokens ts = p.write (tokStr ts []) :=
  tokensAux_eq p ts []

/-! ### a token text determines its kind -/

/-- the kind `readToken` assigns to a line token with this text -/
def kindOf (t : Bytes) : TokKind :=
  match t with
  | [c] => if c ∈ punctBytes then .punct c else if c = 34 ∨ c = 96 then .string else .ident
  | c :: _ => if c = 34 ∨ c = 96 then .string else .ident
  | [] => .ident

theorem tokOK_kind_eq {k : TokKind} {t : Bytes} (h : TokOK k t) : k = kindOf t := by
  cases h with
  | punct c hc => simp [kindOf, hc]
  | string q a hq hb =>
    have hane := hb.ne_nil
    cases a with
    | nil => exact absurd rfl hane
    | cons x xs => simp [kindOf, hq]
  | ident _ hne hb hnq =>
    cases t with
    | nil => exact absurd rfl hne
    | cons c t' =>
      have hid : isIdent (Utf8.decodeRune (c :: t')).1 = true := by
        cases hb with
        | cons _ hid _ _ _ => exact hid
      -- the first byte is neither a quote nor (alone) a punctuation byte
      have hq : ¬ (c = 34 ∨ c = 96) := by
        intro hq
        have hlt : c.toNat < 0x80 := by rcases hq with h | h <;> subst h <;> decide
        rw [decodeRune_ascii c t' hlt] at hnq
        rcases hq with h | h <;> subst h <;> revert hnq <;> decide
      have hp : c ∉ punctBytes := by
        intro hp
        have hlt : c.toNat < 0x80 := by
          rcases punctBytes_cases hp with h | h | h | h | h | h | h <;> subst h <;> decide
        rw [decodeRune_ascii c t' hlt] at hid
        rcases punctBytes_cases hp with h | h | h | h | h | h | h <;> subst h <;> revert hid <;> decide
      cases t' with
      | nil => simp [kindOf, hp, hq]
      | cons x xs => simp [kindOf, hq]

/-- a text that is a line token -/
def TokText (t : Bytes) : Prop := TokOK (kindOf t) t

theorem tokOK_tokText {k : TokKind} {t : Bytes} (h : TokOK k t) : TokText t := by
  have := tokOK_kind_eq h
  subst this
  exact h

theorem tokOK_not_eol {k : TokKind} {t : Bytes} (h : TokOK k t) : k.isEOL = false := by
  cases h with
  | punct c hc =>
    rcases punctBytes_cases hc with h | h | h | h | h | h | h <;> subst h <;> rfl
  | string q a hq hb => rfl
  | ident _ hne hb hnq => rfl

theorem tokOK_punct_iff {k : TokKind} {t : Bytes} (h : TokOK k t) (c : UInt8) (hc : c ∈ punctBytes) :
    k = .punct c ↔ t = [c] := by
  have hk := tokOK_kind_eq h
  constructor
  · intro hkc
    subst hkc
    cases h with
    | punct c' _ => rfl
  · intro ht
    subst ht
    rw [hk]
    simp [kindOf, hc]

/-! ### one step of re-lexing a printed token line -/

theorem sep_blank {sep : Bytes} (hsep : sep = [] ∨ sep = [32]) (t : Bytes) :
    ∀ b ∈ (if Printer.noSepBefore.contains t then [] else sep), isBlank b = true := by
  intro b hb
  split at hb
  · simp at hb
  · rcases hsep with h | h <;> subst h <;> simp at hb
    subst hb; rfl

theorem sepAfter_cases (t : Bytes) : sepAfter t = [] ∨ sepAfter t = [32] := by
  unfold sepAfter; split <;> simp

theorem delimStart_append {a b : Bytes} (h : ∀ x ∈ a.head?, isDelimByte x = true) (ha : a ≠ []) : DelimStart (a ++ b) := by
  cases a with
  | nil => exact absurd rfl ha
  | cons x xs => exact delimStart_cons (h x (by simp))

/-- what follows a token inside a printed token line is a delimiter, unless the token is an opening
    bracket (after which anything may follow) -/
theorem tokStr_follow {k : TokKind} {t : Bytes} (hk : TokOK k t) (ts : List Bytes)
    (hts : ∀ t' ∈ ts, TokText t') (rest : Bytes) (hrest : DelimStart rest) :
    DelimStart (tokStr ts (sepAfter t) ++ rest) ∨ ∃ c, k = .punct c := by
  cases ts with
  | nil => exact Or.inl (by simpa [tokStr] using hrest)
  | cons t' ts' =>
    have ht' : TokText t' := hts t' (by simp)
    have ht'ne : t' ≠ [] := ht'.ne_nil
    by_cases hb : Printer.noSepBefore.contains t' = true
    · -- the next token is `,` `)` `]` `}`: a delimiter byte
      left
      simp only [tokStr, hb, if_true, List.nil_append, List.append_assoc]
      apply delimStart_append _ ht'ne
      intro x hx
      have : t' = [44] ∨ t' = [41] ∨ t' = [93] ∨ t' = [125] := by
        simpa [Printer.noSepBefore] using hb
      rcases this with h | h | h | h <;> subst h <;> simp at hx <;> subst hx <;> rfl
    · by_cases ha : Printer.noSepAfter.contains t = true
      · -- the token itself is `(` `[` `{`
        right
        have : t = [40] ∨ t = [91] ∨ t = [123] := by simpa [Printer.noSepAfter] using ha
        rcases this with h | h | h
        · exact ⟨40, (tokOK_punct_iff hk 40 (by decide)).2 h⟩
        · exact ⟨91, (tokOK_punct_iff hk 91 (by decide)).2 h⟩
        · exact ⟨123, (tokOK_punct_iff hk 123 (by decide)).2 h⟩
      · left
        simp only [tokStr, hb, sepAfter, ha, Bool.false_eq_true, if_false, List.append_assoc, List.cons_append,
          List.nil_append]
        exact delimStart_cons rfl

/-- one `readToken` step on a printed token line -/
theorem lex_tokStr_cons {k : TokKind} {t : Bytes} (hk : TokOK k t) (ts : List Bytes)
    (hts : ∀ t' ∈ ts, TokText t') (sep : Bytes) (hsep : sep = [] ∨ sep = [32]) (ws : Bytes)
    (hws : ∀ b ∈ ws, isBlank b = true) (rest : Bytes) (hrest : DelimStart rest)
    (i : Input) (hi : i.remaining = ws ++ (tokStr (t :: ts) sep ++ rest)) :
    ∃ i', readToken i = .ok i' ∧ i'.token.kind = k ∧ i'.token.text = t ∧
      i'.remaining = tokStr ts (sepAfter t) ++ rest ∧
      i'.commentsRev = i.commentsRev ∧ i'.nextId = i.nextId := by
  have hws' : ∀ b ∈ ws ++ (if Printer.noSepBefore.contains t then [] else sep), isBlank b = true := by
    intro b hb
    rcases List.mem_append.1 hb with h | h
    · exact hws b h
    · exact sep_blank hsep t b h
  obtain ⟨i', hr, hk', ht', hrem, _, hc, hn⟩ := relex_one hk _ (tokStr ts (sepAfter t) ++ rest) hws'
    (tokStr_follow hk ts hts rest hrest) i (by rw [hi]; simp [tokStr, List.append_assoc])
  exact ⟨i', hr, hk', ht', hrem, hc, hn⟩

/-! ### ★ tokens_relex -/

/-- `n` calls of `readToken`, collecting (kind, text) -/
def lexN : Nat → Input → Except SynErr (List (TokKind × Bytes) × Input)
  | 0, i => .ok ([], i)
  | n + 1, i => do
    let i ← readToken i
    let (l, i') ← lexN n i
    .ok ((i.token.kind, i.token.text) :: l, i')

/-- (kind, text) of a line token -/
def tk (t : Bytes) : TokKind × Bytes := (kindOf t, t)

theorem lexN_tokStr (ts : List Bytes) (hts : ∀ t ∈ ts, TokText t) (sep : Bytes) (hsep : sep = [] ∨ sep = [32])
    (ws : Bytes) (hws : ∀ b ∈ ws, isBlank b = true) (rest : Bytes) (hrest : DelimStart rest) (i : Input)
    (hi : i.remaining = ws ++ (tokStr ts sep ++ rest)) :
    ∃ i', lexN ts.length i = .ok (ts.map tk, i') ∧ i'.remaining = (if ts = [] then ws ++ rest else rest) ∧
      i'.commentsRev = i.commentsRev ∧ i'.nextId = i.nextId := by
  induction ts generalizing sep ws i with
  | nil => exact ⟨i, rfl, by simpa [tokStr] using hi, rfl, rfl⟩
  | cons t ts ih =>
    have ht : TokText t := hts t (by simp)
    obtain ⟨i1, hr1, hk1, ht1, hrem1, hc1, hn1⟩ :=
      lex_tokStr_cons ht ts (fun t' h => hts t' (by simp [h])) sep hsep ws hws rest hrest i hi
    obtain ⟨i', hr', hrem', hc', hn'⟩ := ih (fun t' h => hts t' (by simp [h])) (sepAfter t) (sepAfter_cases t) []
      (by simp) i1 (by simpa using hrem1)
    refine ⟨i', ?_, ?_, by rw [hc', hc1], by rw [hn', hn1]⟩
    · simp only [List.length_cons, lexN, hr1, bind, Except.bind, hr', List.map_cons, hk1, ht1]
      rfl
    · simp only [List.nil_append] at hrem'
      simp only [reduceCtorEq, if_false]
      split at hrem'
      · rename_i h; subst h; simpa [tokStr] using hrem'
      · exact hrem'

/-- ★ `tokens_relex`: the token line `Printer.tokens` prints for `TokOK` tokens, followed by a delimiter
    (in the formatter: a newline, or ` (`), is lexed by `ts.length` calls of `readToken` into exactly the
    same token texts, with the kinds the texts determine, and exactly the printed bytes are consumed. -/
theorem tokens_relex (p : Printer) (ts : List Bytes) (hts : ∀ t ∈ ts, TokText t) (hne : ts ≠ [])
    (rest : Bytes) (hrest : DelimStart rest) (i : Input)
    (hi : p.bufRev.reverse ++ i.remaining = (p.tokens ts).bufRev.reverse ++ rest) :
    ∃ i', lexN ts.length i = .ok (ts.map tk, i') ∧ i'.remaining = rest := by
  rw [tokens_eq] at hi
  simp only [Printer.write, List.reverse_append, List.reverse_reverse, List.append_assoc] at hi
  have hi' := List.append_cancel_left hi
  obtain ⟨i', hr, hrem, _, _⟩ := lexN_tokStr ts hts [] (Or.inl rfl) [] (by simp) rest hrest i (by simpa using hi')
  exact ⟨i', hr, by simpa [hne] using hrem⟩

end ModVerif.Proofs.ModfileFmtLine
