/-
  Tie proofs for the regenerated module.go functions, part 6: the hypothesis `FoldOK` on `strings.EqualFold`
  (checkElem's reserved-Windows-name test) holds for EqualFold computed by simple case folding over the committed
  SimpleFold table (Basic/FoldTable.lean) — the executable stand-in `Drv.GenModule.equalFoldI` that the regenerated code
  is run with against the real implementation.  Reason: a rune folds to a digit or to an ASCII letter other than K and S
  only if it is that character or its other ASCII case (U+212A and U+017F are the only non-ASCII runes with an ASCII
  orbit, those of K and S), and no reserved name contains K or S.
-/
import ModVerif.Basic.FoldTable
import ModVerif.Basic.Utf8
import ModVerif.Model.Module
import ModVerif.Proofs.ModuleUtf8
namespace ModVerif.TieFnModule
open ModVerif

/-! ### facts about the SimpleFold table

  (`FoldTable.search` is stated over the constant `FoldTable.table`; unfolding it with `rw`/`unfold`/`split` makes the
  elaborator evaluate the 1454-entry table.  The step is therefore restated over an ARBITRARY table `t`.) -/

/-- one halving step of `FoldTable.search` over an arbitrary table -/
def foldStep (t : Array (Nat × Nat)) (r : Nat) (rec : Nat → Nat → Option Nat) (lo hi : Nat) : Option Nat :=
  if lo ≥ hi then none
  else
    let mid := (lo + hi) / 2
    match t[mid]? with
    | none => none
    | some (k, v) =>
      if k == r then some v
      else if k < r then rec (mid + 1) hi
      else rec lo mid

set_option maxRecDepth 1000000 in
theorem fold_search_succ (r f lo hi : Nat) :
    FoldTable.search r (f + 1) lo hi = foldStep FoldTable.table r (FoldTable.search r f) lo hi := by
  delta foldStep
  rfl

theorem foldStep_mem (t : Array (Nat × Nat)) (r : Nat) (rec : Nat → Nat → Option Nat)
    (hrec : ∀ lo hi v, rec lo hi = some v → ∃ i : Nat, t[i]? = some (r, v)) :
    ∀ lo hi v, foldStep t r rec lo hi = some v → ∃ i : Nat, t[i]? = some (r, v) := by
  intro lo hi v h
  unfold foldStep at h
  split at h
  · cases h
  · simp only at h
    split at h
    · cases h
    · rename_i k w hm
      split at h
      · rename_i hk
        injection h with h
        subst h
        have hk' : k = r := by simpa using hk
        subst hk'
        exact ⟨_, hm⟩
      · split at h
        · exact hrec _ _ _ h
        · exact hrec _ _ _ h

theorem fold_search_mem (r : Nat) (fuel : Nat) : ∀ (lo hi v : Nat), FoldTable.search r fuel lo hi = some v →
    ∃ i : Nat, FoldTable.table[i]? = some (r, v) := by
  induction fuel with
  | zero =>
    intro lo hi v h
    have : FoldTable.search r 0 lo hi = none := rfl
    rw [this] at h; cases h
  | succ f ih =>
    intro lo hi v h
    rw [fold_search_succ] at h
    exact foldStep_mem FoldTable.table r _ ih lo hi v h


/-- the only table entries whose orbit minimum is ASCII: the 26 lower-case letters, U+017F (ſ ↦ S), U+212A (K ↦ K) -/
theorem fold_table_ascii : ∀ p ∈ FoldTable.table.toList, p.2 < 128 →
    (65 ≤ p.2 ∧ p.2 ≤ 90 ∧ p.1 = p.2 + 32) ∨ p = (383, 83) ∨ p = (8490, 75) := by
  decide +kernel

theorem foldMin_ascii : ∀ b : Nat, b < 128 → FoldTable.foldMin b = (Module.toUpperAscii (UInt8.ofNat b)).toNat := by
  decide +kernel

/-- a rune ≥ 128 folds to an ASCII value only for U+017F (S) and U+212A (K) -/
theorem foldMin_nonascii (r c : Nat) (hr : 128 ≤ r) (hc : c < 128) (h : FoldTable.foldMin r = c) : c = 83 ∨ c = 75 := by
  unfold FoldTable.foldMin at h
  cases hs : FoldTable.search r 16 0 FoldTable.table.size with
  | none => rw [hs] at h; simp only at h; omega
  | some m =>
    rw [hs] at h
    simp only at h
    subst h
    obtain ⟨i, hi⟩ := fold_search_mem r 16 _ _ _ hs
    have hmem : (r, m) ∈ FoldTable.table.toList := by
      rw [Array.getElem?_eq_some_iff] at hi
      obtain ⟨hlt, hget⟩ := hi
      rw [← hget]
      exact Array.mem_toList_iff.mpr (Array.getElem_mem hlt)
    rcases fold_table_ascii (r, m) hmem hc with ⟨_, _, h3⟩ | h3 | h3
    · simp only at h3; omega
    · injection h3 with _ h4; left; exact h4
    · injection h3 with _ h4; right; exact h4


/-! ### strings.EqualFold by simple folding (the executable stand-in `Drv.GenModule.equalFoldI`) against a reserved name -/

def foldRunes (s : Bytes) : List Nat := (Utf8.runes s).map FoldTable.foldMin

/-- strings.EqualFold as the driver computes it: rune-wise equality of the SimpleFold orbit minima -/
def equalFoldSimple (a b : Bytes) : Bool := foldRunes a == foldRunes b

/-- the bytes of the reserved Windows names: digits and upper-case ASCII letters other than K and S -/
def GoodNameByte (c : UInt8) : Prop := ((48 ≤ c ∧ c ≤ 57) ∨ (65 ≤ c ∧ c ≤ 90)) ∧ c ≠ 75 ∧ c ≠ 83

theorem goodNameByte_facts {c : UInt8} (h : GoodNameByte c) :
    c.toNat < 128 ∧ Module.toUpperAscii c = c ∧ c.toNat ≠ 75 ∧ c.toNat ≠ 83 := by
  obtain ⟨h1, h2, h3⟩ := h
  simp only [UInt8.le_iff_toNat_le] at h1
  have e48 : (48 : UInt8).toNat = 48 := rfl
  have e57 : (57 : UInt8).toNat = 57 := rfl
  have e65 : (65 : UInt8).toNat = 65 := rfl
  have e90 : (90 : UInt8).toNat = 90 := rfl
  rw [e48, e57, e65, e90] at h1
  refine ⟨by omega, ?_, ?_, ?_⟩
  · have : ¬ ((97 : UInt8) ≤ c ∧ c ≤ 122) := by
      simp only [UInt8.le_iff_toNat_le]
      have e97 : (97 : UInt8).toNat = 97 := rfl
      rw [e97]; omega
    simp [Module.toUpperAscii, this]
  · intro e; apply h2; apply UInt8.toNat_inj.mp; rw [e]; rfl
  · intro e; apply h3; apply UInt8.toNat_inj.mp; rw [e]; rfl

theorem foldRunes_nil : foldRunes [] = [] := rfl

theorem foldRunes_cons_ascii (b : UInt8) (s : Bytes) (h : b.toNat < 128) :
    foldRunes (b :: s) = (Module.toUpperAscii b).toNat :: foldRunes s := by
  simp only [foldRunes, Utf8.runes_cons_ascii b s h, List.map_cons, foldMin_ascii b.toNat h]
  simp

theorem equalFoldSimple_reserved : ∀ (bad : Bytes), (∀ c ∈ bad, GoodNameByte c) → ∀ s : Bytes,
    (foldRunes bad = foldRunes s ↔ s.map Module.toUpperAscii = bad) := by
  intro bad
  induction bad with
  | nil =>
    intro _ s
    cases s with
    | nil => simp [foldRunes_nil]
    | cons b s =>
      have : foldRunes (b :: s) ≠ [] := by
        by_cases hb : b.toNat < 128
        · rw [foldRunes_cons_ascii b s hb]; simp
        · obtain ⟨r, rs, hr, _⟩ := Utf8.runes_cons_nonascii b s (by omega)
          simp [foldRunes, hr]
      simp [foldRunes_nil]
      exact this
  | cons c bad ih =>
    intro hgood s
    obtain ⟨hc1, hc2, hc3, hc4⟩ := goodNameByte_facts (hgood c (by simp))
    have ih' := ih (fun x hx => hgood x (by simp [hx]))
    rw [foldRunes_cons_ascii c bad hc1, hc2]
    cases s with
    | nil => simp [foldRunes_nil]
    | cons b s =>
      by_cases hb : b.toNat < 128
      · rw [foldRunes_cons_ascii b s hb]
        simp only [List.cons.injEq, List.map_cons, ih' s]
        constructor
        · rintro ⟨h1, h2⟩; exact ⟨(UInt8.toNat_inj.mp h1).symm, h2⟩
        · rintro ⟨h1, h2⟩; exact ⟨by rw [h1], h2⟩
      · obtain ⟨r, rs, hr, hge⟩ := Utf8.runes_cons_nonascii b s (by omega)
        have hup : Module.toUpperAscii b = b := by
          have : ¬ ((97 : UInt8) ≤ b ∧ b ≤ 122) := by
            simp only [UInt8.le_iff_toNat_le]
            have e122 : (122 : UInt8).toNat = 122 := rfl
            rw [e122]; omega
          simp [Module.toUpperAscii, this]
        simp only [foldRunes, hr, List.map_cons, List.cons.injEq, hup]
        constructor
        · rintro ⟨h1, _⟩
          rcases foldMin_nonascii r c.toNat hge hc1 h1.symm with h | h
          · exact absurd h hc4
          · exact absurd h hc3
        · rintro ⟨h1, _⟩
          rw [h1] at hb; exact absurd hc1 hb

theorem equalFoldSimple_eq (bad : Bytes) (hgood : ∀ c ∈ bad, GoodNameByte c) (s : Bytes) :
    equalFoldSimple bad s = Module.equalFoldAscii bad s := by
  unfold equalFoldSimple Module.equalFoldAscii
  rw [Bool.eq_iff_iff, beq_iff_eq, beq_iff_eq]
  exact equalFoldSimple_reserved bad hgood s

end ModVerif.TieFnModule
