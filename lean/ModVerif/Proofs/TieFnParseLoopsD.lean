/-
  Helper lemmas for Tie/FnParse.lean, part D: `input.parseFile` (the top-level loop: blank lines, comment blocks, EOF,
  statements) against the model's `parseFileLoop`.  The model accumulates the statements (reversed) and the pending
  comment block as values; the Go code appends to `in.file.Stmt` and keeps the pending `*CommentBlock` in `cb`.

  Loop invariant (`FInv`): the file object is `{ fo with Stmt := es }`, the statement pointers `es` reify to the model's
  statements (`RStmts`), block / comment-block pointers occur in allocation order (so no pointer is held twice), the
  number of Line objects is the model's line counter; the pending comment block is the LAST comment-block object and
  is not yet referenced (`CbRel`).
-/
import ModVerif.Proofs.TieFnParseLoopsC
set_option linter.unusedSimpArgs false
set_option linter.unusedVariables false
namespace ModVerif.TieFnParse
open ModVerif ModVerif.GoRt ModVerif.Modfile ModVerif.TieFnLex
open ModVerif.Tie.FnParseHeap
open ModVerif.Proofs.ModfileParse (m Good lex_spec)
open ModVerif.Drv.LexOps.G (isPrintI isSpaceI)
open ModVerif.Drv.LexOps.M (kindCode)

variable {f : Int} {pre post : List Generated.Parse.Expr}

/-! ### pointer lists -/

theorem blockPtrs_append (a b : List Generated.Parse.Expr) : blockPtrs (a ++ b) = blockPtrs a ++ blockPtrs b := by
  induction a with
  | nil => rfl
  | cons e t ih => cases e <;> simp [blockPtrs, ih]

theorem cbPtrs_append (a b : List Generated.Parse.Expr) : cbPtrs (a ++ b) = cbPtrs a ++ cbPtrs b := by
  induction a with
  | nil => rfl
  | cons e t ih => cases e <;> simp [cbPtrs, ih]

theorem linePtrs_append (h : Generated.Parse.Heap) (a b : List Generated.Parse.Expr) :
    linePtrs h (a ++ b) = linePtrs h a ++ linePtrs h b := by
  induction a with
  | nil => rfl
  | cons e t ih => cases e <;> simp [linePtrs, ih]

/-- block and comment-block pointers of the statement list are in allocation order and allocated -/
structure PtrsOK (h : Generated.Parse.Heap) (es : List Generated.Parse.Expr) : Prop where
  blocksLt : (blockPtrs es).Pairwise (· < ·)
  blocksLe : ∀ p ∈ blockPtrs es, p ≤ (h.blocks.length : Int)
  cbsLt : (cbPtrs es).Pairwise (· < ·)
  cbsLe : ∀ p ∈ cbPtrs es, p ≤ (h.cbs.length : Int)

theorem PtrsOK.mono {h h' : Generated.Parse.Heap} {es : List Generated.Parse.Expr} (hp : PtrsOK h es)
    (hb : h.blocks.length ≤ h'.blocks.length) (hc : h.cbs.length ≤ h'.cbs.length) : PtrsOK h' es :=
  ⟨hp.blocksLt, fun p hm => by have := hp.blocksLe p hm; omega, hp.cbsLt, fun p hm => by have := hp.cbsLe p hm; omega⟩

theorem pairwise_snoc {l : List Int} {a : Int} (hl : l.Pairwise (· < ·)) (ha : ∀ p ∈ l, p < a) :
    (l ++ [a]).Pairwise (· < ·) := by
  rw [List.pairwise_append]
  refine ⟨hl, List.pairwise_singleton _ _, ?_⟩
  intro x hx y hy
  simp only [List.mem_singleton] at hy
  subst hy; exact ha x hx

/-- the pending comment block: the last comment-block object, referenced by no statement yet -/
def CbRel (h : Generated.Parse.Heap) (es : List Generated.Parse.Expr) (cb : Int) : Option CommentBlock → Prop
  | none => cb = 0
  | some c => cb = (h.cbs.length : Int) ∧ heapGet h.cbs cb = .ok (cbG c) ∧ ∀ p ∈ cbPtrs es, p < cb

/-! ### frame: overwriting a comment block that no statement references -/

theorem RExpr_setCb {h : Generated.Parse.Heap} {q : Int} {w : Generated.Parse.CommentBlock}
    (hq : heapGet h.cbs q = .ok w) (v : Generated.Parse.CommentBlock) {e : Generated.Parse.Expr} {s : Expr}
    (hne : q ∉ cbPtrs [e]) (hr : RExpr h e s) : RExpr { h with cbs := h.cbs.set (q.toNat - 1) v } e s := by
  cases e <;> cases s <;> simp only [RExpr] at hr ⊢
  · rename_i p c
    have : p ≠ q := by intro e; apply hne; simp [cbPtrs, e]
    rw [heapGet_listSet_other v hq this]; exact hr
  · exact (RLine_congr (h := h) (h' := { h with cbs := h.cbs.set (q.toNat - 1) v }) rfl).2 hr
  · obtain ⟨ps, hb, hl⟩ := hr
    exact ⟨ps, hb, (RLines_congr (h := h) (h' := { h with cbs := h.cbs.set (q.toNat - 1) v }) rfl).2 hl⟩

theorem RStmts_setCb {h : Generated.Parse.Heap} {q : Int} {w : Generated.Parse.CommentBlock}
    (hq : heapGet h.cbs q = .ok w) (v : Generated.Parse.CommentBlock) :
    ∀ {es : List Generated.Parse.Expr} {ss : List Expr}, q ∉ cbPtrs es → RStmts h es ss →
      RStmts { h with cbs := h.cbs.set (q.toNat - 1) v } es ss
  | [], [], _, _ => trivial
  | e :: es, s :: ss, hne, hr => by
    simp only [RStmts_cons] at hr ⊢
    have h1 : q ∉ cbPtrs [e] := by
      intro hm; apply hne
      have := cbPtrs_append [e] es
      simp only [List.singleton_append] at this
      rw [this]; exact List.mem_append_left _ hm
    have h2 : q ∉ cbPtrs es := by
      intro hm; apply hne
      have := cbPtrs_append [e] es
      simp only [List.singleton_append] at this
      rw [this]; exact List.mem_append_right _ hm
    exact ⟨RExpr_setCb hq v h1 hr.1, RStmts_setCb hq v h2 hr.2⟩
  | [], _ :: _, _, hr => by simp at hr
  | _ :: _, [], _, hr => by simp at hr

/-! ### the model's loop body as an if-chain in the order of Go's `switch` -/

theorem parseFileLoop_succ (n : Nat) (i : Input) (stmtsRev : List Expr) (cb : Option CommentBlock) :
    parseFileLoop (n + 1) i stmtsRev cb =
      if i.peek = .punct 10 then (do
        let (_, i) ← lex i
        match cb with
        | some c => parseFileLoop n i (.commentBlock c :: stmtsRev) none
        | none => parseFileLoop n i stmtsRev none)
      else if i.peek = .comment then (do
        let (tok, i) ← lex i
        let c : CommentBlock := match cb with
          | some c => c
          | none => { start := tok.pos }
        let c := { c with comments := { c.comments with before := c.comments.before ++ [{ start := tok.pos, token := tok.text }] } }
        parseFileLoop n i stmtsRev (some c))
      else if i.peek = .eof then
        (match cb with
        | some c => .ok ((.commentBlock c :: stmtsRev).reverse, i)
        | none => .ok (stmtsRev.reverse, i))
      else (do
        let (s, i) ← parseStmt (n + 1) i
        match cb with
        | some c => parseFileLoop n i (s.setComments { s.comments with before := c.comments.before } :: stmtsRev) none
        | none => parseFileLoop n i (s :: stmtsRev) none) := by
  conv => lhs; unfold parseFileLoop
  split
  · rename_i hk; simp only [hk, if_true]; cases cb <;> rfl
  · rename_i hk; simp only [hk, reduceCtorEq, if_false, if_true]; cases cb <;> rfl
  · rename_i hk; simp only [hk, reduceCtorEq, if_false, if_true]; cases cb <;> rfl
  · rename_i h1 h2 h3
    rw [if_neg h1, if_neg h2, if_neg h3]; cases cb <;> rfl

/-- the loop invariant of parseFile -/
structure FInv (h : Generated.Parse.Heap) (f : Int) (fo : Generated.Parse.FileSyntax) (es : List Generated.Parse.Expr)
    (ss : List Expr) (nid : Nat) : Prop where
  file : heapGet h.files f = .ok { fo with Stmt := es }
  stmts : RStmts h es ss
  ptrs : PtrsOK h es
  lines : h.lines.length = nid

theorem cbG_new (t : Token) :
    ({ (default : Generated.Parse.CommentBlock) with Start := ((tokG t).pos) } : Generated.Parse.CommentBlock) =
      cbG { start := t.pos } := rfl

theorem peek_kind (i : Input) : i.peek = i.token.kind := rfl

/-- flushing the pending comment block into the statement list -/
theorem FInv_flush {h : Generated.Parse.Heap} {fo : Generated.Parse.FileSyntax} {es : List Generated.Parse.Expr}
    {ss : List Expr} {nid : Nat} {cb : Int} {c : CommentBlock} (hi : FInv h f fo es ss nid) (hc : CbRel h es cb (some c)) :
    FInv { h with files := h.files.set (f.toNat - 1) { fo with Stmt := es ++ [Generated.Parse.Expr.CommentBlock cb] } }
      f fo (es ++ [Generated.Parse.Expr.CommentBlock cb]) (ss ++ [Expr.commentBlock c]) nid := by
  obtain ⟨hcl, hcg, hclt⟩ := hc
  refine ⟨heapGet_listSet_same _ hi.file, ?_, ?_, hi.lines⟩
  · refine RStmts_append ((RStmts_files h _ _ _).2 hi.stmts) ?_
    simp only [RStmts_cons, RStmts_nil, and_true]
    exact hcg
  · refine ⟨?_, ?_, ?_, ?_⟩
    · rw [blockPtrs_append]; simpa [blockPtrs] using hi.ptrs.blocksLt
    · intro p hp; rw [blockPtrs_append] at hp
      simp only [blockPtrs, List.append_nil] at hp
      exact hi.ptrs.blocksLe p hp
    · rw [cbPtrs_append]; exact pairwise_snoc hi.ptrs.cbsLt hclt
    · intro p hp; rw [cbPtrs_append] at hp
      simp only [cbPtrs, List.mem_append, List.mem_singleton] at hp
      rcases hp with hp | hp
      · exact hi.ptrs.cbsLe p hp
      · rw [hp, hcl]; exact Int.le_refl _

theorem bind_pair {α β γ : Type} (A : M α) (B : α → M β) (K : β → M γ) (v : β)
    (h : (do let a ← A; B a) = .ok v) : (do let a ← A; let b ← B a; K b) = K v := by
  cases hA : A with
  | error e => rw [hA] at h; cases h
  | ok a =>
    rw [hA] at h
    simp only [bind_ok] at h ⊢
    rw [h]; rfl

theorem idxL_last {α : Type} (es : List α) (ex : α) : idxL (es ++ [ex]) (len (es ++ [ex]) - 1) = .ok ex := by
  have h1 : len (es ++ [ex]) - 1 = ((es.length : Nat) : Int) := by simp [len_eq]
  have h2 : es.length < (es ++ [ex]).length := by simp
  rw [h1, idxL_natCast h2]; simp

theorem PtrsOK_stmt {h h1 : Generated.Parse.Heap} {es : List Generated.Parse.Expr} {ex : Generated.Parse.Expr}
    (hp : PtrsOK h es) (hc1 : h1.cbs = h.cbs) (hnew : NewStmt h h1 ex) : PtrsOK h1 (es ++ [ex]) := by
  rcases hnew with ⟨rfl, hb⟩ | ⟨rfl, hb⟩
  · refine ⟨?_, ?_, ?_, ?_⟩
    · rw [blockPtrs_append]; simpa [blockPtrs] using hp.blocksLt
    · intro p hm; rw [blockPtrs_append] at hm
      simp only [blockPtrs, List.append_nil] at hm
      rw [hb]; exact hp.blocksLe p hm
    · rw [cbPtrs_append]; simpa [cbPtrs] using hp.cbsLt
    · intro p hm; rw [cbPtrs_append] at hm
      simp only [cbPtrs, List.append_nil] at hm
      rw [hc1]; exact hp.cbsLe p hm
  · refine ⟨?_, ?_, ?_, ?_⟩
    · rw [blockPtrs_append]
      refine pairwise_snoc hp.blocksLt ?_
      intro p hm; have := hp.blocksLe p hm; omega
    · intro p hm; rw [blockPtrs_append] at hm
      simp only [blockPtrs, List.mem_append, List.mem_singleton] at hm
      rcases hm with hm | hm
      · have := hp.blocksLe p hm; omega
      · omega
    · rw [cbPtrs_append]; simpa [cbPtrs] using hp.cbsLt
    · intro p hm; rw [cbPtrs_append] at hm
      simp only [cbPtrs, List.append_nil] at hm
      rw [hc1]; exact hp.cbsLe p hm

/-- the statement parseStmt appended extends the invariant -/
theorem FInv_stmt {h h1 : Generated.Parse.Heap} {fo : Generated.Parse.FileSyntax} {es : List Generated.Parse.Expr}
    {ss : List Expr} {nid nid1 : Nat} {ex : Generated.Parse.Expr} {x : Expr} (hi : FInv h f fo es ss nid)
    (hc1 : h1.cbs = h.cbs) (hpl : h.lines <+: h1.lines) (hpb : h.blocks <+: h1.blocks)
    (hfl : h1.files = h.files.set (f.toNat - 1) { fo with Stmt := es ++ [ex] }) (hrx : RExpr h1 ex x)
    (hnl : h1.lines.length = nid1) (hnew : NewStmt h h1 ex) : FInv h1 f fo (es ++ [ex]) (ss ++ [x]) nid1 := by
  refine ⟨?_, ?_, PtrsOK_stmt hi.ptrs hc1 hnew, hnl⟩
  · rw [hfl]; exact heapGet_listSet_same _ hi.file
  · refine RStmts_append (RStmts.ext ⟨hc1 ▸ List.prefix_refl _, hpl, hpb⟩ hi.stmts) ?_
    simp only [RStmts_cons, RStmts_nil, and_true]
    exact hrx

/-- `x.Comment().Before = cb.Before` on the statement parseStmt appended (the LAST line / block object) -/
theorem stmt_setBefore {h h1 : Generated.Parse.Heap} {fo : Generated.Parse.FileSyntax} {es : List Generated.Parse.Expr}
    {ss : List Expr} {nid nid1 : Nat} {ex : Generated.Parse.Expr} {x : Expr} (hi : FInv h f fo es ss nid)
    (hc1 : h1.cbs = h.cbs) (hpl : h.lines <+: h1.lines) (hpb : h.blocks <+: h1.blocks)
    (hfl : h1.files = h.files.set (f.toNat - 1) { fo with Stmt := es ++ [ex] }) (hrx : RExpr h1 ex x)
    (hnl : h1.lines.length = nid1) (hnew : NewStmt h h1 ex) (before : List Comment) :
    ∃ h2, (do
        let t25 ← Generated.Parse.Expr_getComments ex h1
        Generated.Parse.Expr_setComments ex { t25 with Before := before.map comG } h1) = .ok h2 ∧
      FInv h2 f fo (es ++ [ex]) (ss ++ [x.setComments { x.comments with before := before }]) nid1 ∧ h2.cbs = h1.cbs := by
  have hfile : heapGet h1.files f = .ok { fo with Stmt := es ++ [ex] } := by
    rw [hfl]; exact heapGet_listSet_same _ hi.file
  rcases hnew with ⟨rfl, hb⟩ | ⟨rfl, hb⟩
  · cases x <;> simp only [RExpr] at hrx
    rename_i l
    obtain ⟨hg, hp⟩ := hrx
    let v : Generated.Parse.Line := { lineG l with Comments := { (lineG l).Comments with Before := before.map comG } }
    let h2 : Generated.Parse.Heap := { h1 with lines := h1.lines.set (((h.lines.length + 1 : Nat) : Int).toNat - 1) v }
    refine ⟨h2, ?_, ?_, rfl⟩
    · rw [getComments_Line hg]
      simp only [bind_ok]
      rw [setComments_Line hg]
    · have hx : Ext h h2 := by
        refine ⟨hc1 ▸ List.prefix_refl _, ?_, hpb⟩
        exact prefix_set_of_le hpl (by rw [idx_pred]; exact Nat.le_refl _) _
      refine ⟨hfile, ?_, ?_, ?_⟩
      · refine RStmts_append (RStmts.ext hx hi.stmts) ?_
        simp only [RStmts_cons, RStmts_nil, and_true]
        exact ⟨heapGet_listSet_same _ hg, hp⟩
      · exact (PtrsOK_stmt hi.ptrs hc1 (Or.inl ⟨rfl, hb⟩)).mono (Nat.le_refl _) (Nat.le_refl _)
      · show (h1.lines.set _ _).length = _
        simpa using hnl
  · cases x <;> simp only [RExpr] at hrx
    rename_i b
    obtain ⟨ps, hg, hl⟩ := hrx
    let v : Generated.Parse.LineBlock :=
      { blockG b ps with Comments := { (blockG b ps).Comments with Before := before.map comG } }
    let h2 : Generated.Parse.Heap := { h1 with blocks := h1.blocks.set (((h.blocks.length + 1 : Nat) : Int).toNat - 1) v }
    refine ⟨h2, ?_, ?_, rfl⟩
    · rw [getComments_LineBlock hg]
      simp only [bind_ok]
      rw [setComments_LineBlock hg]
    · have hx : Ext h h2 := by
        refine ⟨hc1 ▸ List.prefix_refl _, hpl, ?_⟩
        exact prefix_set_of_le hpb (by rw [idx_pred]; exact Nat.le_refl _) _
      refine ⟨hfile, ?_, ?_, hnl⟩
      · refine RStmts_append (RStmts.ext hx hi.stmts) ?_
        simp only [RStmts_cons, RStmts_nil, and_true]
        exact ⟨ps, heapGet_listSet_same _ hg, (RLines_blocks h1 _ _ _).2 hl⟩
      · refine (PtrsOK_stmt hi.ptrs hc1 (Or.inr ⟨rfl, hb⟩)).mono ?_ (Nat.le_refl _)
        show h1.blocks.length ≤ (h1.blocks.set _ _).length
        simp

theorem parseFile_loop_sim : ∀ (fm : Nat) (i : Input) (stmtsRev : List Expr) (cbM : Option CommentBlock), WF i → m i < fm →
    ∀ (fg : Nat), m i + 8 ≤ fg → ∀ (h : Generated.Parse.Heap) (fo : Generated.Parse.FileSyntax)
      (es : List Generated.Parse.Expr) (cb : Int),
    FInv h f fo es stmtsRev.reverse i.nextId → CbRel h es cb cbM →
    match parseFileLoop fm i stmtsRev cbM with
    | .ok (stmts, i') => ∃ h' es',
        Generated.Parse.input_parseFile_loop1 isPrintI isSpaceI fg (embP f pre post i) h cb =
          .ok (.ret (((), embP f pre post i'), h')) ∧ WF i' ∧ FInv h' f fo es' stmts i'.nextId
    | .error _ =>
        Generated.Parse.input_parseFile_loop1 isPrintI isSpaceI fg (embP f pre post i) h cb = .error .panic := by
  intro fm
  induction fm with
  | zero => intro i _ _ _ hm; omega
  | succ n ih =>
    intro i stmtsRev cbM hw hm fg hfg h fo es cb hinv hcb
    obtain ⟨g, rfl⟩ : ∃ g, fg = g + 1 := ⟨fg - 1, by omega⟩
    rw [parseFileLoop_succ]
    unfold Generated.Parse.input_parseFile_loop1
    dsimp (config := { instances := true }) only [embP_peek]
    simp only [dk_10, dk_m5, dk_m1]
    by_cases h1 : i.peek = .punct 10
    · simp only [h1, decide_true, if_true]
      rcases lex_step (f := f) (pre := pre) (post := post) i hw g (by omega) with
        ⟨j, hM, hG, hwj, hle, hlt, hid⟩ | ⟨e1, hM, hG⟩
      case inr => simp only [hM, hG, bind_error, ebind_error]
      simp only [hM, hG, bind_ok, ebind_ok]
      have hlt' := hlt (peek_ne_eof h1 (by simp))
      cases cbM with
      | none =>
        have hcb0 : cb = 0 := hcb
        subst hcb0
        simp only [decide_true, Bool.not_true, Bool.false_eq_true, if_false]
        exact ih j stmtsRev none hwj (by omega) g (by omega) h fo es 0 (by rw [hid]; exact hinv) hcb
      | some c =>
        have hpos := heapGet_pos hcb.2.1
        have hne : decide (cb = 0) = false := by simp; omega
        dsimp (config := { instances := true }) only [embP_file]
        simp only [hne, Bool.not_false, if_true, hinv.file, bind_ok, heapSet_of_get _ hinv.file]
        refine ih j (.commentBlock c :: stmtsRev) none hwj (by omega) g (by omega) _ fo
          (es ++ [Generated.Parse.Expr.CommentBlock cb]) 0 ?_ rfl
        rw [List.reverse_cons, hid]
        exact FInv_flush hinv hcb
    simp only [h1, decide_false, if_false, Bool.false_eq_true]
    by_cases h2 : i.peek = .comment
    · simp only [h2, decide_true, if_true]
      rcases lex_step (f := f) (pre := pre) (post := post) i hw g (by omega) with
        ⟨j, hM, hG, hwj, hle, hlt, hid⟩ | ⟨e1, hM, hG⟩
      case inr => simp only [hM, hG, bind_error, ebind_error]
      simp only [hM, hG, bind_ok, ebind_ok]
      have hlt' := hlt (peek_ne_eof h2 (by simp))
      cases cbM with
      | none =>
        have hcb0 : cb = 0 := hcb
        subst hcb0
        have hnew : heapGet (h.cbs ++ [cbG { start := i.token.pos }]) ((h.cbs.length + 1 : Nat) : Int) =
            .ok (cbG { start := i.token.pos }) := heapGet_alloc_new _ _
        rw [cbG_new]
        simp only [decide_true, if_true, heapAlloc_fst, heapAlloc_snd, Generated.Parse.Expr_getComments,
          Generated.Parse.Expr_setComments, hnew, bind_ok, pure_eq_ok, heapSet_of_get _ hnew, idx_pred, set_alloc_last]
        refine ih j stmtsRev (some _) hwj (by omega) g (by omega) _ fo es _ ?_ ?_
        · rw [hid]
          exact ⟨hinv.file, RStmts.ext (Ext.allocCb h _) hinv.stmts,
            hinv.ptrs.mono (Nat.le_refl _) (by simp), hinv.lines⟩
        · refine ⟨by simp, ?_, ?_⟩
          · exact heapGet_alloc_new _ _
          · intro p hp
            have := hinv.ptrs.cbsLe p hp
            omega
      | some c =>
        obtain ⟨hcl, hcg, hclt⟩ := hcb
        have hpos := heapGet_pos hcg
        have hne : decide (cb = 0) = false := by simp; omega
        simp only [hne, Bool.false_eq_true, if_false, Generated.Parse.Expr_getComments,
          Generated.Parse.Expr_setComments, hcg, bind_ok, pure_eq_ok, heapSet_of_get _ hcg]
        refine ih j stmtsRev (some _) hwj (by omega) g (by omega) _ fo es _ ?_ ?_
        · rw [hid]
          refine ⟨hinv.file, RStmts_setCb hcg _ ?_ hinv.stmts, hinv.ptrs.mono (Nat.le_refl _) (by simp), hinv.lines⟩
          intro hm; exact Int.lt_irrefl _ (hclt cb hm)
        · refine ⟨by simpa using hcl, ?_, hclt⟩
          show heapGet (h.cbs.set (cb.toNat - 1) _) cb = _
          rw [heapGet_listSet_same _ hcg]
          congr 1
          simp [cbG, comsG, comG, tokG]
          rfl
    simp only [h2, decide_false, if_false, Bool.false_eq_true]
    by_cases h3 : i.peek = .eof
    · simp only [h3, decide_true, if_true]
      cases cbM with
      | none =>
        have hcb0 : cb = 0 := hcb
        subst hcb0
        simp only [decide_true, Bool.not_true, Bool.false_eq_true, if_false, pure_eq_ok]
        exact ⟨h, es, rfl, hw, hinv⟩
      | some c =>
        have hpos := heapGet_pos hcb.2.1
        have hne : decide (cb = 0) = false := by simp; omega
        dsimp (config := { instances := true }) only [embP_file]
        simp only [hne, Bool.not_false, if_true, hinv.file, bind_ok, heapSet_of_get _ hinv.file, pure_eq_ok]
        refine ⟨_, es ++ [Generated.Parse.Expr.CommentBlock cb], rfl, hw, ?_⟩
        rw [List.reverse_cons]
        exact FInv_flush hinv hcb
    simp only [h3, decide_false, if_false, Bool.false_eq_true]
    have key := parseStmt_sim (f := f) (pre := pre) (post := post) (n + 1) i hw hm g (by omega) h
      { fo with Stmt := es } hinv.file hinv.lines
    rcases Proofs.ModfileParse.parseStmt_spec (n + 1) i hm h3 with ⟨x, i1, hS, hb1⟩ | ⟨e1, hS, _⟩
    · rw [hS] at key
      obtain ⟨h1', ex, hG, hw1, hc1, hpl, hpb, hfl, hrx, hnl, hnew⟩ := key
      simp only [if_true] at hb1
      simp only [hS, hG, bind_ok, ebind_ok]
      cases cbM with
      | none =>
        have hcb0 : cb = 0 := hcb
        subst hcb0
        simp only [decide_true, Bool.not_true, Bool.false_eq_true, if_false]
        refine ih i1 (x :: stmtsRev) none hw1 (by omega) g (by omega) h1' fo (es ++ [ex]) 0 ?_ rfl
        rw [List.reverse_cons]
        exact FInv_stmt hinv hc1 hpl hpb hfl hrx hnl hnew
      | some c =>
        obtain ⟨hcl, hcg, hclt⟩ := hcb
        have hpos := heapGet_pos hcg
        have hne : decide (cb = 0) = false := by simp; omega
        have hfile : heapGet h1'.files f = .ok { fo with Stmt := es ++ [ex] } := by
          rw [hfl]; exact heapGet_listSet_same _ hinv.file
        have hcg1 : heapGet h1'.cbs cb = .ok (cbG c) := by rw [hc1]; exact hcg
        obtain ⟨h2, hset, hinv2, hc2⟩ := stmt_setBefore hinv hc1 hpl hpb hfl hrx hnl hnew c.comments.before
        dsimp (config := { instances := true }) only [embP_file]
        simp only [hne, Bool.not_false, if_true, hcg1, hfile, bind_ok, idxL_last]
        have hset' : (do
            let t25 ← Generated.Parse.Expr_getComments ex h1'
            Generated.Parse.Expr_setComments ex { t25 with Before := (cbG c).Comments.Before } h1') = .ok h2 := hset
        simp only [bind_pair _ _ _ h2 hset']
        refine ih i1 (_ :: stmtsRev) none hw1 (by omega) g (by omega) h2 fo (es ++ [ex]) 0 ?_ rfl
        rw [List.reverse_cons]
        exact hinv2
    · rw [hS] at key
      simp only [hS, key, bind_error, ebind_error]

end ModVerif.TieFnParse
