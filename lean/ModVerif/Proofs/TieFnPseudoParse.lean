/-
  Tie helpers for IsPseudoVersion / parsePseudoVersion / PseudoVersionRev of module/pseudo.go: the regenerated
  definitions (Generated/FnModule.lean) compute the hand model (Model/Pseudo.lean).

  Bridging conventions (see Tie/FnPseudo.lean): `pseudoRE` (pseudoVersionRE.MatchString) is instantiated with the
  model's matcher; a Go `error` is `Option String`, the model has `Except Pseudo.Err`; `errOf` maps the model's
  error kinds to the error values the translator emits; the model's `.panic` is the generated code's `Err.panic`.
-/
import ModVerif.Generated.FnModule
import ModVerif.Model.Pseudo
import ModVerif.Proofs.GoRtLemmas
import ModVerif.Proofs.GoRtLemmasPseudo
import ModVerif.Proofs.PseudoLists
import ModVerif.Tie.FnSemver
namespace ModVerif.TieFnPseudo
open ModVerif ModVerif.GoRt ModVerif.GoRtPseudo

/-! ### error values -/

/-- the Go error value (as the translator renders it) of each error kind of the model -/
def errOf : Pseudo.Err → Option String
  | .syntax => wrapErr "InvalidVersionError" (some "errPseudoSyntax")
  | .time => wrapErr "InvalidVersionError" (some "malformed time %q")
  | .build => wrapErr "InvalidVersionError" (some "lacks base version, but has build metadata %q")
  | .negative => wrapErr "InvalidVersionError" (some "version before %s would have negative patch number")
  | .panic => none

theorem errOf_isSome_of_ne_panic : ∀ e : Pseudo.Err, e ≠ .panic → (errOf e).isSome = true := by
  intro e h; cases e <;> simp_all [errOf, wrapErr]

/-- the five results of parsePseudoVersion -/
def parseOut : Except Pseudo.Err Pseudo.PseudoParts → M (Bytes × Bytes × Bytes × Bytes × Option String)
  | .ok p => .ok (p.base, p.timestamp, p.rev, p.build, none)
  | .error .panic => .error .panic
  | .error e => .ok ([], [], [], [], errOf e)

/-- (string, error) results: the string is "" whenever the error is non-nil -/
def strErrOut : Except Pseudo.Err Bytes → M (Bytes × Option String)
  | .ok r => .ok (r, none)
  | .error .panic => .error .panic
  | .error e => .ok ([], errOf e)

/-! ### the last occurrence of a byte: strings.LastIndex and the slices around it = the model's splitLast -/

theorem last_cases (c : UInt8) (v : Bytes) :
    (c ∉ v ∧ lastIndex v [c] = -1 ∧ Pseudo.splitLast c v = none) ∨
    ∃ a b, v = a ++ c :: b ∧ c ∉ b ∧ lastIndex v [c] = (a.length : Int) ∧ Pseudo.splitLast c v = some (a, b) ∧
      sliceTo v (a.length : Int) = .ok a ∧ sliceFrom v ((a.length : Int) + 1) = .ok b := by
  by_cases h : c ∈ v
  · obtain ⟨a, b, e, hb⟩ := Proofs.Pseudo.exists_last_split c v h
    refine Or.inr ⟨a, b, e, hb, ?_, ?_, ?_, ?_⟩
    · rw [e]; exact lastIndex_single_split c a b hb
    · rw [e]; exact Proofs.Pseudo.splitLast_append c a b hb
    · rw [e, sliceTo_natCast (by simp)]; simp
    · have : ((a.length : Int) + 1) = ((a.length + 1 : Nat) : Int) := by simp
      rw [e, this, sliceFrom_natCast (by simp)]; simp
  · exact Or.inl ⟨h, lastIndex_single_notMem c v h, Proofs.Pseudo.splitLast_none c v h⟩

/-! ### IsPseudoVersion -/

theorem IsPseudoVersion_ok (re : Bytes → Bool) (v : Bytes) (fuel : Nat) (hf : 2 * v.length ≤ fuel) :
    Generated.Module.IsPseudoVersion re fuel v =
      .ok (decide (v.count 45 ≥ 2) && Semver.isValid v && re v) := by
  unfold Generated.Module.IsPseudoVersion
  rw [count_single 45 v, Tie.FnSemver.IsValid_tie v fuel hf]
  by_cases h : v.count 45 ≥ 2
  · have h' : ((v.count 45 : Nat) : Int) ≥ 2 := by omega
    simp [h, h']
  · have h' : ¬ (((v.count 45 : Nat) : Int) ≥ 2) := by omega
    simp [h, h']

/-! ### parsePseudoVersion -/

/-- parsePseudoVersion after `build = semver.Build(v)` -/
def parseRest (v build : Bytes) : M (Bytes × Bytes × Bytes × Bytes × (Option String)) := do
    let v := (trimSuffix v build)
    let j := (lastIndex v ([45] : Bytes))
    let t3 ← sliceTo v j
    let a4 := t3
    let t5 ← sliceFrom v (j + (1 : Int))
    let a6 := t5
    let v := a4
    let rev := a6
    let i := (lastIndex v ([45] : Bytes))
    let j_1 := (lastIndex v ([46] : Bytes))
    if (decide (j_1 > i)) then (do
      let t7 ← sliceTo v j_1
      let base := t7
      let t8 ← sliceFrom v (j_1 + (1 : Int))
      let timestamp := t8
      pure (base, timestamp, rev, build, (none : Option String))) else (do
      let t9 ← sliceTo v i
      let base := t9
      let t10 ← sliceFrom v (i + (1 : Int))
      let timestamp := t10
      pure (base, timestamp, rev, build, (none : Option String)))

theorem parsePseudoVersion_unfold (re : Bytes → Bool) (fuel : Nat) (v : Bytes) :
    Generated.Module.parsePseudoVersion re fuel v =
      (Generated.Module.IsPseudoVersion re fuel v >>= fun t1 =>
        if (!t1) then (pure (([] : Bytes), ([] : Bytes), ([] : Bytes), ([] : Bytes),
            (wrapErr "InvalidVersionError" (some "errPseudoSyntax"))))
        else (ModVerif.Generated.Semver.Build fuel v >>= fun t2 => parseRest v t2)) := by
  unfold Generated.Module.parsePseudoVersion parseRest
  rfl

/-- the model's parsePseudoVersion after the IsPseudoVersion test -/
def parseRestModel (v build : Bytes) : Except Pseudo.Err Pseudo.PseudoParts :=
  match Pseudo.splitLast 45 (Pseudo.trimSuffix v build) with
  | none => .error .panic
  | some (v, rev) =>
    let i : Int := match Pseudo.splitLast 45 v with
      | none => -1
      | some (a, _) => a.length
    match Pseudo.splitLast 46 v with
    | some (a, b) =>
      if (a.length : Int) > i then .ok ⟨a, b, rev, build⟩
      else
        match Pseudo.splitLast 45 v with
        | none => .error .panic
        | some (a, b) => .ok ⟨a, b, rev, build⟩
    | none =>
      match Pseudo.splitLast 45 v with
      | none => .error .panic
      | some (a, b) => .ok ⟨a, b, rev, build⟩

theorem parsePseudoVersion_model_unfold (v : Bytes) :
    Pseudo.parsePseudoVersion v =
      if !Pseudo.isPseudoVersion v then .error .syntax else parseRestModel v (Semver.build v) := rfl

theorem parseRest_ok (v build : Bytes) : parseRest v build = parseOut (parseRestModel v build) := by
  unfold parseRest parseRestModel
  have htrim : trimSuffix v build = Pseudo.trimSuffix v build := rfl
  rw [htrim]
  generalize Pseudo.trimSuffix v build = w
  rcases last_cases 45 w with ⟨_, hi, hs⟩ | ⟨a, rev, _, _, hi, hs, hto, hfrom⟩
  · -- no '-' at all: v[:-1] panics
    simp only [hi, hs, parseOut]
    rw [sliceTo_panic (by omega)]; rfl
  · simp only [hi, hs, hto, hfrom, bind_ok]
    rcases last_cases 45 a with ⟨_, hi1, hs1⟩ | ⟨a1, a2, _, _, hi1, hs1, hto1, hfrom1⟩
    · rcases last_cases 46 a with ⟨_, hj, ht⟩ | ⟨p, q, _, _, hj, ht, htoj, hfromj⟩
      · have hgt : ¬ ((-1 : Int) > -1) := by omega
        simp only [hi1, hs1, hj, ht, hgt, decide_false, Bool.false_eq_true, if_false, parseOut]
        rw [sliceTo_panic (by omega)]; rfl
      · have hgt : ((p.length : Int) > -1) := by omega
        simp [hi1, hs1, hj, ht, hgt, htoj, hfromj, parseOut]
    · rcases last_cases 46 a with ⟨_, hj, ht⟩ | ⟨p, q, _, _, hj, ht, htoj, hfromj⟩
      · have hgt : ¬ ((-1 : Int) > (a1.length : Int)) := by omega
        simp [hi1, hs1, hj, ht, hgt, hto1, hfrom1, parseOut]
      · by_cases hgt : (p.length : Int) > (a1.length : Int)
        · simp [hi1, hs1, hj, ht, hgt, htoj, hfromj, parseOut]
        · simp [hi1, hs1, hj, ht, hgt, hto1, hfrom1, parseOut]

theorem parsePseudoVersion_ok (v : Bytes) (fuel : Nat) (hf : 2 * v.length ≤ fuel) :
    Generated.Module.parsePseudoVersion Pseudo.matchPseudoVersionRE fuel v =
      parseOut (Pseudo.parsePseudoVersion v) := by
  rw [parsePseudoVersion_unfold, IsPseudoVersion_ok _ v fuel hf, bind_ok, parsePseudoVersion_model_unfold]
  have hp : (decide (v.count 45 ≥ 2) && Semver.isValid v && Pseudo.matchPseudoVersionRE v) = Pseudo.isPseudoVersion v := rfl
  rw [hp]
  by_cases h : Pseudo.isPseudoVersion v = true
  · simp only [h, Bool.not_true, Bool.false_eq_true, if_false]
    rw [Tie.FnSemver.Build_tie v fuel hf, bind_ok, parseRest_ok]
  · have h' : Pseudo.isPseudoVersion v = false := by simpa using h
    simp [h', parseOut, errOf]

/-! ### PseudoVersionRev -/

theorem PseudoVersionRev_ok (v : Bytes) (fuel : Nat) (hf : 2 * v.length ≤ fuel) :
    Generated.Module.PseudoVersionRev Pseudo.matchPseudoVersionRE fuel v =
      strErrOut (Pseudo.pseudoVersionRev v) := by
  unfold Generated.Module.PseudoVersionRev Pseudo.pseudoVersionRev
  rw [parsePseudoVersion_ok v fuel hf]
  cases h : Pseudo.parsePseudoVersion v with
  | ok p => simp [parseOut, strErrOut]
  | error e => cases e <;> simp [parseOut, strErrOut]

end ModVerif.TieFnPseudo
