/-
  EditMore, part 4 — **the universal start-state lemma** (C15 `typed_eq_tree` (i)): a strictly parsed go.mod file with
  well-formed keys satisfies the tree invariant `Edit.Inv` after `load`, and the refinement's start condition `StartOK`.
  Syntax-layer facts used: line ids pairwise different (C20 `parse_ids_nodup`), the `inBlock` flags (`parse_flags`), one
  verb per block (strict mode rejects anything else); the fourth, no end-of-line comment on a `LineBlock`, is a
  hypothesis (`NoBlockSuffix`): it fails exactly for a one-line empty block `verb () // comment`.
-/
import ModVerif.Proofs.EditMoreStartB
set_option linter.unusedSimpArgs false
namespace ModVerif.Modfile.Edit
open ModVerif ModVerif.Modfile ModVerif.Proofs.ModfileC20 ModVerif.Proofs.EditMore

theorem addBlockLines_flag (block : Comments) (verb : Bytes) (fix : Option Fixer) (strict : Bool) :
    ∀ (ls : List Line) (st : AddState), (∀ l ∈ ls, l.inBlock = true) →
      ∀ l ∈ (addBlockLines block verb fix strict st ls).2, l.inBlock = true := by
  intro ls
  induction ls with
  | nil => intro st _ l hl; simp [addBlockLines] at hl
  | cons l0 rest ih =>
    intro st h l hl
    unfold addBlockLines at hl
    simp only [List.mem_cons] at hl
    rcases hl with rfl | hl
    · exact h l0 List.mem_cons_self
    · exact ih _ (fun x hx => h x (List.mem_cons_of_mem _ hx)) l hl

theorem addStmts_flag (fix : Option Fixer) (strict : Bool) : ∀ (xs : List Expr) (st : AddState), (∀ x ∈ xs, FlagOK x) →
    ∀ x ∈ (addStmts fix strict st xs).2, FlagOK x := by
  intro xs
  induction xs with
  | nil => intro st _ x hx; simp [addStmts] at hx
  | cons x0 rest ih =>
    intro st h x hx
    have h0 := h x0 List.mem_cons_self
    have hrest := fun st' => ih st' (fun y hy => h y (List.mem_cons_of_mem _ hy))
    unfold addStmts at hx
    cases x0 with
    | line l =>
      cases htok : l.token with
      | nil =>
        simp only [htok, List.mem_cons] at hx
        rcases hx with rfl | hx
        · exact h0
        · exact hrest _ x hx
      | cons verb args =>
        simp only [htok, List.mem_cons] at hx
        rcases hx with rfl | hx
        · exact h0
        · exact hrest _ x hx
    | lineBlock b =>
      simp only at hx
      split at hx
      · split at hx
        · simp only [List.mem_cons] at hx
          rcases hx with rfl | hx
          · exact addBlockLines_flag _ _ _ _ _ _ h0
          · exact hrest _ x hx
        · simp only [List.mem_cons] at hx
          rcases hx with rfl | hx
          · exact h0
          · exact hrest _ x hx
      · simp only [List.mem_cons] at hx
        rcases hx with rfl | hx
        · exact h0
        · exact hrest _ x hx
    | commentBlock c =>
      simp only [List.mem_cons] at hx
      rcases hx with rfl | hx
      · trivial
      · exact hrest _ x hx
    | lparen c =>
      simp only [List.mem_cons] at hx
      rcases hx with rfl | hx
      · trivial
      · exact hrest _ x hx
    | rparen c =>
      simp only [List.mem_cons] at hx
      rcases hx with rfl | hx
      · trivial
      · exact hrest _ x hx

theorem treeIds_eq_linesOf (xs : List Expr) : treeIds xs = (linesOf xs).map (·.id) := by
  have := allLines_eq_loc { stmts := xs }
  unfold linesOf
  rw [this, List.map_map]
  rfl

/-- what a strict parse guarantees of the typed lists and the tree, before `load` renumbers the lines -/
structure ParsedOK (f : File) : Prop where
  mtch : Match (entsAll f) (view f.syn.stmts)
  nodup : (treeIds f.syn.stmts).Nodup
  blockTok : ∀ b, Expr.lineBlock b ∈ f.syn.stmts → ∃ v, b.token = [v]
  flags : ∀ x ∈ f.syn.stmts, FlagOK x

theorem view_ids_sublist (xs : List Expr) : ((view xs).map (·.id)).Sublist (treeIds xs) := by
  unfold view treeIds
  rw [List.map_map]
  exact (List.filter_sublist.map _)

theorem parseToFile_ok {name data : Bytes} {f : File} (h : parseToFile name data none true = .ok f) : ParsedOK f := by
  unfold parseToFile at h
  cases hp : parse name data with
  | error e => simp [hp] at h
  | ok fs =>
    simp only [hp] at h
    cases hA : addStmts none true { file := { syn := fs } } fs.stmts with
    | mk st stmts =>
      simp only [hA, fixRetract] at h
      split at h
      · rename_i he
        simp only [Except.ok.injEq] at h
        subst h
        have he' : st.errsRev = [] := by simpa using he
        rcases addStmts_step fs.stmts _ st stmts hA he' with ⟨_, es, hperm, hpair, hblk⟩
        have hids : treeIds stmts = treeIds fs.stmts := by
          rw [treeIds_eq_linesOf, treeIds_eq_linesOf]
          have := addStmts_keys none true fs.stmts { file := { syn := fs } }
          rw [hA] at this
          have := congrArg (List.map Prod.fst) this
          simpa [List.map_map, lineKey, Function.comp_def] using this
        have hnd : (treeIds stmts).Nodup := by
          rw [hids, treeIds_eq_linesOf]; exact parse_ids_nodup hp
        refine ⟨?_, hnd, hblk, ?_⟩
        · refine Match.of_paired hpair ?_ (List.Nodup.sublist (view_ids_sublist _) hnd)
          have : entsAll ({ st.file with syn := { fs with stmts := stmts } } : File) = entsAll st.file := rfl
          rw [this]
          simpa [entsAll, segs] using hperm
        · have := addStmts_flag none true fs.stmts { file := { syn := fs } } (parse_flags hp)
          rw [hA] at this
          exact this
      · cases h


/-! ### `load`: renumbering the lines -/

def shiftE (en : Ent) : Ent := ⟨en.id + 1, en.acc⟩
def shiftV (v : VLine) : VLine := { v with id := v.id + 1 }

theorem Match.shift {es : List Ent} {vs : List VLine} (h : Match es vs) : Match (es.map shiftE) (vs.map shiftV) := by
  refine ⟨?_, ?_, ?_⟩
  · have : (es.map shiftE).map (·.id) = (es.map (·.id)).map (· + 1) := by simp [List.map_map, shiftE, Function.comp_def]
    rw [this]
    have hn := h.nodup
    unfold List.Nodup at *
    rw [List.pairwise_map]
    exact hn.imp (fun hab e => hab (Nat.succ.inj e))
  · intro en hen
    rcases List.mem_map.1 hen with ⟨en0, hen0, rfl⟩
    rcases h.cover en0 hen0 with ⟨v, hv, hid, hacc⟩
    exact ⟨shiftV v, List.mem_map.2 ⟨v, hv, rfl⟩, by simp [shiftV, shiftE, hid], hacc⟩
  · intro v hv
    rcases List.mem_map.1 hv with ⟨v0, hv0, rfl⟩
    rcases h.surj v0 hv0 with ⟨en, hen, hid⟩
    exact ⟨shiftE en, List.mem_map.2 ⟨en, hen, rfl⟩, by simp [shiftV, shiftE, hid]⟩

theorem shiftSyntax_stmts (fs : FileSyntax) : (shiftSyntax fs).stmts = fs.stmts.map (mapLinesStmt shiftLine) := by
  unfold shiftSyntax
  simp only
  apply List.map_congr_left
  intro x _
  cases x <;> rfl

theorem view_shift (stmts : List Expr) : view (stmts.map (mapLinesStmt shiftLine)) = (view stmts).map shiftV := by
  unfold view
  rw [loc_mapLines, List.filter_map, List.map_map, List.map_map]
  rfl

theorem treeIds_shift (stmts : List Expr) : treeIds (stmts.map (mapLinesStmt shiftLine)) = (treeIds stmts).map (· + 1) := by
  unfold treeIds
  rw [loc_mapLines, List.map_map, List.map_map]
  rfl

theorem entsOf_live_all {α : Type} (live : α → Bool) (mk : α → Ent) (l : List α) (h : ∀ x ∈ l, live x = true) :
    entsOf live mk l = l.map mk := by
  unfold entsOf; rw [List.filter_eq_self.2 h]

theorem ne_nil_live' {p : Bytes} (h : p ≠ []) : (!p.isEmpty) = true := by
  cases p with
  | nil => exact absurd rfl h
  | cons _ _ => rfl

/-- the entries of the loaded file are the shifted entries of the parsed file (every entry is live) -/
theorem entries_load (f : File) (h : WellFormedKeys f) : entries (load f).f = (entsAll f).map shiftE := by
  have e4 : entsOf liveG entG (load f).f.godebug = (f.godebug.map entG).map shiftE := by
    rw [entsOf_live_all]
    · simp only [load, List.map_map]; rfl
    · intro x hx; simp only [load] at hx; rcases List.mem_map.1 hx with ⟨y, hy, rfl⟩; exact ne_nil_live' (h.godebug y hy)
  have e5 : entsOf liveRq entRq (load f).f.require = (f.require.map entRq).map shiftE := by
    rw [entsOf_live_all]
    · simp only [load, List.map_map]; rfl
    · intro x hx; simp only [load] at hx; rcases List.mem_map.1 hx with ⟨y, hy, rfl⟩; exact ne_nil_live' (h.require y hy)
  have e6 : entsOf liveX entX (load f).f.exclude = (f.exclude.map entX).map shiftE := by
    rw [entsOf_live_all]
    · simp only [load, List.map_map]; rfl
    · intro x hx; simp only [load] at hx; rcases List.mem_map.1 hx with ⟨y, hy, rfl⟩; exact ne_nil_live' (h.exclude y hy)
  have e7 : entsOf liveRp entRp (load f).f.replace = (f.replace.map entRp).map shiftE := by
    rw [entsOf_live_all]
    · simp only [load, List.map_map]; rfl
    · intro x hx; simp only [load] at hx; rcases List.mem_map.1 hx with ⟨y, hy, rfl⟩; exact ne_nil_live' (h.replace y hy)
  have e8 : entsOf liveRt entRt (load f).f.retract = (f.retract.map entRt).map shiftE := by
    rw [entsOf_live_all]
    · simp only [load, List.map_map]; rfl
    · intro x hx; simp only [load] at hx; rcases List.mem_map.1 hx with ⟨y, hy, rfl⟩
      simp only [liveRt]
      rcases h.retract y hy with h1 | h1
      · simp [ne_nil_live' h1]
      · simp [ne_nil_live' h1]
  have e9 : entsOf liveT entT (load f).f.tool = (f.tool.map entT).map shiftE := by
    rw [entsOf_live_all]
    · simp only [load, List.map_map]; rfl
    · intro x hx; simp only [load] at hx; rcases List.mem_map.1 hx with ⟨y, hy, rfl⟩; exact ne_nil_live' (h.tool y hy)
  have e1 : (load f).f.module.toList.map entM = (f.module.toList.map entM).map shiftE := by
    simp only [load]; cases f.module <;> rfl
  have e2 : (load f).f.go.toList.map entGo = (f.go.toList.map entGo).map shiftE := by
    simp only [load]; cases f.go <;> rfl
  have e3 : (load f).f.toolchain.toList.map entTc = (f.toolchain.toList.map entTc).map shiftE := by
    simp only [load]; cases f.toolchain <;> rfl
  unfold entries
  rw [e1, e2, e3, e4, e5, e6, e7, e8, e9]
  simp [entsAll, segs, List.map_append]

/-- the absence of an end-of-line comment on a `LineBlock`: holds for every parsed block that spans more than one source
    line (`assignComments` skips those); it fails only for a one-line empty block `verb () // comment`, where Cleanup
    after an Add would hand the comment to the new line (finding `C15_violated_empty_block_suffix_comment`) -/
def NoBlockSuffix (fs : FileSyntax) : Prop := ∀ b, Expr.lineBlock b ∈ fs.stmts → b.comments.suffix = []

theorem ParsedOK.treeWF_load {f : File} (h : ParsedOK f) (hs : NoBlockSuffix f.syn) :
    TreeWF (load f).f.syn.stmts (load f).next := by
  have hst : (load f).f.syn.stmts = f.syn.stmts.map (mapLinesStmt shiftLine) := shiftSyntax_stmts f.syn
  rw [hst]
  refine ⟨?_, ?_, ?_, ?_, ?_, ?_, ?_⟩
  · rw [treeIds_shift]
    have hn := h.nodup
    unfold List.Nodup at *
    rw [List.pairwise_map]
    exact hn.imp (fun hab e => hab (Nat.succ.inj e))
  · intro i hi
    rw [treeIds_shift] at hi
    rcases List.mem_map.1 hi with ⟨j, hj, rfl⟩
    rw [treeIds_eq_linesOf] at hj
    rcases List.mem_map.1 hj with ⟨l, hl, rfl⟩
    exact id_lt_next_load f l hl
  · intro i hi
    rw [treeIds_shift] at hi
    rcases List.mem_map.1 hi with ⟨j, _, rfl⟩
    exact Nat.succ_ne_zero _
  · intro b hb
    rcases mem_mapLines_block hb with ⟨b0, hb0, rfl⟩
    exact h.blockTok b0 hb0
  · intro l hl
    rcases mem_mapLines_line hl with ⟨l0, hl0, rfl⟩
    exact h.flags _ hl0
  · intro b hb l hl
    rcases mem_mapLines_block hb with ⟨b0, hb0, rfl⟩
    simp only [List.mem_map] at hl
    rcases hl with ⟨l0, hl0, rfl⟩
    exact h.flags _ hb0 l0 hl0
  · intro b hb
    rcases mem_mapLines_block hb with ⟨b0, hb0, rfl⟩
    exact hs b0 hb0

theorem ParsedOK.startOK {f : File} (h : ParsedOK f) (hk : WellFormedKeys f) : StartOK f := by
  have hsub : (dupIds f).Sublist ((entsAll f).map (·.id)) := by
    simp only [dupIds, entsAll, segs, List.flatten_cons, List.flatten_nil, List.append_nil, List.map_append, List.map_map]
    refine List.Sublist.trans ?_ (List.sublist_append_right _ _)
    refine List.Sublist.trans ?_ (List.sublist_append_right _ _)
    refine List.Sublist.trans ?_ (List.sublist_append_right _ _)
    refine List.Sublist.trans ?_ (List.sublist_append_right _ _)
    refine List.Sublist.trans ?_ (List.sublist_append_right _ _)
    refine List.Sublist.append (List.Sublist.refl _) ?_
    refine List.Sublist.append (List.Sublist.refl _) ?_
    exact List.sublist_append_right _ _
  refine ⟨hk, List.Nodup.sublist hsub h.mtch.nodup, ?_⟩
  intro i hi
  rcases List.mem_map.1 (hsub.subset hi) with ⟨en, hen, rfl⟩
  rcases h.mtch.cover en hen with ⟨v, hv, hid, _⟩
  have := view_id_mem_treeIds hv
  rw [treeIds_eq_linesOf] at this
  rcases List.mem_map.1 this with ⟨l, hl, hl2⟩
  exact ⟨l, hl, hl2.trans hid⟩

theorem ParsedOK.inv_load {f : File} (h : ParsedOK f) (hk : WellFormedKeys f) (hs : NoBlockSuffix f.syn) : Inv (load f) := by
  refine ⟨h.treeWF_load hs, ?_, TInv_load f (h.startOK hk)⟩
  rw [entries_load f hk]
  have hst : (load f).f.syn.stmts = f.syn.stmts.map (mapLinesStmt shiftLine) := shiftSyntax_stmts f.syn
  rw [hst, view_shift]
  exact h.mtch.shift

/-- **the universal start-state lemma (go.mod)**: every strictly parsed file with well-formed keys (and no end-of-line
    comment on an empty one-line block) satisfies the tree invariant after `load` -/
theorem parseStrict_inv {name data : Bytes} {f : File} (h : parseToFile name data none true = .ok f)
    (hk : WellFormedKeys f) (hs : NoBlockSuffix f.syn) : Inv (load f) :=
  (parseToFile_ok h).inv_load hk hs

/-- … and the refinement's start condition: `StartOK` is `WellFormedKeys` for a strictly parsed file -/
theorem parseStrict_startOK {name data : Bytes} {f : File} (h : parseToFile name data none true = .ok f)
    (hk : WellFormedKeys f) : StartOK f :=
  (parseToFile_ok h).startOK hk

end ModVerif.Modfile.Edit
