/- Helper lemmas for C18: `Semver.parse` on a version given by its parts, and the parts of a parsed version.
   (Own copy for the pseudo-version proofs; Model/Semver.lean is not touched.) -/
import ModVerif.Model.Semver
import ModVerif.Spec.PseudoSpec
import ModVerif.Proofs.PseudoLists
namespace ModVerif.Proofs.Pseudo
open ModVerif ModVerif.PseudoSpec

theorem B_dot00 : B ".0.0" = [46, 48, 46, 48] := by decide +kernel
theorem B_dot0 : B ".0" = [46, 48] := by decide +kernel

def identOrDot (c : UInt8) : Bool := Semver.isIdentChar c || c == 46

/-- `r` does not start with a digit -/
def NoDigitHead (r : Bytes) : Prop := ∀ c r', r = c :: r' → Semver.isDigit c = false

/-- what parsePrerelease accepts: nothing, or '-' and dot-separated non-empty identifiers, numeric ones without leading zero -/
def PreOK (pre : Bytes) : Prop :=
  pre = [] ∨ ∃ body, pre = 45 :: body ∧ (∀ c ∈ body, identOrDot c = true) ∧
    (∀ s ∈ splitOn 46 body, s ≠ [] ∧ Semver.isBadNum s = false)

/-- what parseBuild accepts: nothing, or '+' and dot-separated non-empty identifiers -/
def BuildOK (bld : Bytes) : Prop :=
  bld = [] ∨ ∃ rest, bld = 43 :: rest ∧ (∀ c ∈ rest, identOrDot c = true) ∧ (∀ s ∈ splitOn 46 rest, s ≠ [])

theorem dropWhile_head {α} (p : α → Bool) : ∀ (l : List α) (c : α) (r : List α),
    l.dropWhile p = c :: r → p c = false
  | [], _, _, h => by simp at h
  | x :: l, c, r, h => by
    by_cases hx : p x = true
    · rw [List.dropWhile_cons_of_pos hx] at h; exact dropWhile_head p l c r h
    · rw [List.dropWhile_cons_of_neg hx] at h
      injection h with h1 _
      subst h1; simpa using hx

theorem takeWhile_all_append {α} (p : α → Bool) (l r : List α) (hl : ∀ x ∈ l, p x = true)
    (hr : ∀ c r', r = c :: r' → p c = false) : (l ++ r).takeWhile p = l ∧ (l ++ r).dropWhile p = r := by
  rw [List.takeWhile_append_of_pos hl, List.dropWhile_append_of_pos hl]
  cases r with
  | nil => simp
  | cons c r' =>
    have := hr c r' rfl
    simp [this]

theorem parseInt_append {d r : Bytes} (hd : Num d) (hr : NoDigitHead r) :
    Semver.parseInt (d ++ r) = some (d, r) := by
  obtain ⟨hne, hdig, hlead⟩ := hd
  cases d with
  | nil => exact absurd rfl hne
  | cons c m =>
    have hc : Semver.isDigit c = true := hdig c (by simp)
    have hm : ∀ x ∈ m, Semver.isDigit x = true := fun x hx => hdig x (by simp [hx])
    obtain ⟨t1, t2⟩ := takeWhile_all_append Semver.isDigit m r hm hr
    simp only [List.cons_append, Semver.parseInt, hc, t1, t2]
    rcases hlead with h | h
    · injection h with h1 h2; subst h2; simp
    · have : (c == 48) = false := by simpa using h
      simp [this]

theorem parseInt_some {v d r : Bytes} (h : Semver.parseInt v = some (d, r)) :
    v = d ++ r ∧ Num d ∧ NoDigitHead r := by
  cases v with
  | nil => simp [Semver.parseInt] at h
  | cons c rest =>
    simp only [Semver.parseInt] at h
    by_cases hc : Semver.isDigit c = true
    · simp only [hc, Bool.not_true, Bool.false_eq_true, if_false] at h
      split at h
      · simp at h
      · rename_i hz
        injection h with h
        injection h with h1 h2
        subst h1; subst h2
        refine ⟨by simp, ⟨by simp, ?_, ?_⟩, ?_⟩
        · intro x hx
          rcases List.mem_cons.mp hx with rfl | hx
          · exact hc
          · exact (List.all_eq_true.mp (List.all_takeWhile (p := Semver.isDigit))) x hx
        · by_cases h48 : c = 48
          · subst h48
            left
            simp at hz
            simp [hz]
          · right; simpa using h48
        · intro x r' e; exact dropWhile_head _ _ _ _ e
    · simp [hc] at h

theorem not_identOrDot_plus : identOrDot 43 = false := by decide

theorem parsePrerelease_append {body bld : Bytes} (hb : ∀ c ∈ body, identOrDot c = true)
    (hs : ∀ s ∈ splitOn 46 body, s ≠ [] ∧ Semver.isBadNum s = false)
    (hbld : ∀ c r', bld = c :: r' → c = 43) :
    Semver.parsePrerelease (45 :: body ++ bld) = some (45 :: body, bld) := by
  have hp : ∀ x ∈ body, (x != 43) = true := by
    intro x hx
    have := hb x hx
    simp; intro e; subst e; simp [not_identOrDot_plus] at this
  have hr : ∀ c r', bld = c :: r' → (c != 43) = false := by
    intro c r' e; simp [hbld c r' e]
  obtain ⟨t1, t2⟩ := takeWhile_all_append (· != 43) body bld hp hr
  simp only [List.cons_append, Semver.parsePrerelease, t1, t2]
  have h1 : body.all (fun c => Semver.isIdentChar c || c == 46) = true := by
    rw [List.all_eq_true]; exact hb
  have h2 : (splitOn 46 body).all (fun s => !s.isEmpty && !Semver.isBadNum s) = true := by
    rw [List.all_eq_true]
    intro s hs'
    obtain ⟨a, b⟩ := hs s hs'
    cases s with
    | nil => exact absurd rfl a
    | cons _ _ => simp [b]
  simp [h1, h2]

theorem parsePrerelease_some {v pre r : Bytes} (h : Semver.parsePrerelease v = some (pre, r)) :
    v = pre ++ r ∧ (∃ body, pre = 45 :: body ∧ (∀ c ∈ body, identOrDot c = true) ∧
      (∀ s ∈ splitOn 46 body, s ≠ [] ∧ Semver.isBadNum s = false)) ∧ (∀ c r', r = c :: r' → c = 43) := by
  unfold Semver.parsePrerelease at h
  split at h
  · rename_i rest
    split at h
    · rename_i hc
      injection h with h
      injection h with h1 h2
      subst h1; subst h2
      simp only [Bool.and_eq_true, List.all_eq_true] at hc
      refine ⟨by simp, ⟨_, rfl, ?_, ?_⟩, ?_⟩
      · intro c hc'; exact hc.1 c hc'
      · intro s hs
        have := hc.2 s hs
        simp at this
        exact ⟨by intro e; subst e; simp at this, this.2⟩
      · intro c r' e
        have := dropWhile_head _ _ _ _ e
        simpa using this
    · simp at h
  · simp at h

theorem parseBuild_ok {rest : Bytes} (hb : ∀ c ∈ rest, identOrDot c = true)
    (hs : ∀ s ∈ splitOn 46 rest, s ≠ []) :
    Semver.parseBuild (43 :: rest) = some (43 :: rest, []) := by
  have h1 : rest.all (fun c => Semver.isIdentChar c || c == 46) = true := by
    rw [List.all_eq_true]; exact hb
  have h2 : (splitOn 46 rest).all (fun s => !s.isEmpty) = true := by
    rw [List.all_eq_true]
    intro s hs'
    have := hs s hs'
    cases s with
    | nil => exact absurd rfl this
    | cons _ _ => simp
  simp [Semver.parseBuild, h1, h2]

theorem parseBuild_some {v b r : Bytes} (h : Semver.parseBuild v = some (b, r)) :
    v = b ∧ r = [] ∧ ∃ rest, b = 43 :: rest ∧ (∀ c ∈ rest, identOrDot c = true) ∧ (∀ s ∈ splitOn 46 rest, s ≠ []) := by
  unfold Semver.parseBuild at h
  split at h
  · rename_i rest
    split at h
    · rename_i hc
      injection h with h
      injection h with h1 h2
      subst h1; subst h2
      simp only [Bool.and_eq_true, List.all_eq_true] at hc
      refine ⟨rfl, rfl, _, rfl, fun c hc' => hc.1 c hc', ?_⟩
      intro s hs
      have := hc.2 s hs
      intro e; subst e; simp at this
    · simp at h
  · simp at h

/-- parseTail on `pre ++ bld` -/
theorem parseTail_append (maj min pat : Bytes) {pre bld : Bytes} (hpre : PreOK pre) (hbld : BuildOK bld) :
    Semver.parseTail { major := maj, minor := min, patch := pat } (pre ++ bld)
      = some { major := maj, minor := min, patch := pat, prerelease := pre, build := bld } := by
  have hb43 : ∀ c r', bld = c :: r' → c = 43 := by
    intro c r' e
    rcases hbld with h | ⟨rest, h, _⟩
    · rw [h] at e; simp at e
    · rw [h] at e; injection e with e1 _; exact e1.symm
  rcases hpre with rfl | ⟨body, rfl, hb, hs⟩
  · rcases hbld with rfl | ⟨rest, rfl, hr, hrs⟩
    · simp [Semver.parseTail, Semver.parsePreOpt, Semver.parseBuildOpt]
    · simp [Semver.parseTail, Semver.parsePreOpt, Semver.parseBuildOpt, parseBuild_ok hr hrs]
  · have hp := parsePrerelease_append hb hs hb43
    rcases hbld with rfl | ⟨rest, rfl, hr, hrs⟩
    · simp only [List.append_nil] at hp ⊢
      simp [Semver.parseTail, Semver.parsePreOpt, Semver.parseBuildOpt, hp]
    · simp only [List.cons_append] at hp ⊢
      simp [Semver.parseTail, Semver.parsePreOpt, Semver.parseBuildOpt, hp, parseBuild_ok hr hrs]

theorem noDigitHead_dot (r : Bytes) : NoDigitHead (46 :: r) := by
  intro c r' e; injection e with e1 _; subst e1; decide

theorem noDigitHead_tail {pre bld : Bytes} (hpre : PreOK pre) (hbld : BuildOK bld) : NoDigitHead (pre ++ bld) := by
  intro c r' e
  rcases hpre with rfl | ⟨body, rfl, _⟩
  · rcases hbld with rfl | ⟨rest, rfl, _⟩
    · simp at e
    · simp at e; rw [← e.1]; decide
  · simp at e; rw [← e.1]; decide

/-- a version given by its parts parses to those parts -/
theorem parse_full {maj min pat pre bld : Bytes} (hmaj : Num maj) (hmin : Num min) (hpat : Num pat)
    (hpre : PreOK pre) (hbld : BuildOK bld) :
    Semver.parse (118 :: maj ++ 46 :: min ++ 46 :: pat ++ pre ++ bld)
      = some { major := maj, minor := min, patch := pat, prerelease := pre, build := bld } := by
  have e : (118 :: maj ++ 46 :: min ++ 46 :: pat ++ pre ++ bld : Bytes)
      = 118 :: (maj ++ 46 :: (min ++ 46 :: (pat ++ (pre ++ bld)))) := by simp
  rw [e]
  simp only [Semver.parse, parseInt_append hmaj (noDigitHead_dot _), parseInt_append hmin (noDigitHead_dot _),
    parseInt_append hpat (noDigitHead_tail hpre hbld)]
  exact parseTail_append maj min pat hpre hbld


theorem parseBuildOpt_tail {p1 p2 : Semver.Parsed} {v v2 : Bytes}
    (h : Semver.parseBuildOpt p1 v = some (p2, v2)) (hv2 : v2.isEmpty = true) (hb1 : p1.build = []) :
    ∃ bld, v = bld ∧ BuildOK bld ∧ p2 = { p1 with build := bld } := by
  unfold Semver.parseBuildOpt at h
  split at h
  · rename_i rest
    split at h
    · rename_i t r hb
      injection h with h
      injection h with h1 h2
      obtain ⟨e1, e2, rest', e3, hr, hs⟩ := parseBuild_some hb
      subst h1
      exact ⟨t, e1, Or.inr ⟨rest', e3, hr, hs⟩, rfl⟩
    · simp at h
  · injection h with h
    injection h with h1 h2
    subst h1; subst h2
    have : v = [] := by simpa using hv2
    subst this
    exact ⟨[], rfl, Or.inl rfl, by
      cases p1; simp_all⟩

/-- parseTail: what was parsed -/
theorem parseTail_some {maj min pat v : Bytes} {p : Semver.Parsed}
    (h : Semver.parseTail { major := maj, minor := min, patch := pat } v = some p) :
    ∃ pre bld, v = pre ++ bld ∧ PreOK pre ∧ BuildOK bld ∧
      p = { major := maj, minor := min, patch := pat, prerelease := pre, build := bld } := by
  unfold Semver.parseTail at h
  split at h
  · simp at h
  · rename_i p1 v1 hpre
    split at h
    · simp at h
    · rename_i p2 v2 hbld
      split at h
      · rename_i hv2
        injection h with h
        subst h
        unfold Semver.parsePreOpt at hpre
        split at hpre
        · rename_i rest
          split at hpre
          · rename_i t r hp
            injection hpre with hpre
            injection hpre with h1 h2
            obtain ⟨f1, ⟨body, f2, f3, f4⟩, _⟩ := parsePrerelease_some hp
            subst h1; subst h2
            obtain ⟨bld, e1, e2, e3⟩ := parseBuildOpt_tail hbld hv2 rfl
            refine ⟨t, bld, by rw [f1, e1], Or.inr ⟨body, f2, f3, f4⟩, e2, by rw [e3]⟩
          · simp at hpre
        · injection hpre with hpre
          injection hpre with h1 h2
          subst h1; subst h2
          obtain ⟨bld, e1, e2, e3⟩ := parseBuildOpt_tail hbld hv2 rfl
          exact ⟨[], bld, by simp [e1], Or.inl rfl, e2, by rw [e3]⟩
      · simp at h

/-- the parts of a parsed version, and how its text is made of them -/
theorem parse_inv {v : Bytes} {p : Semver.Parsed} (h : Semver.parse v = some p) :
    Num p.major ∧ Num p.minor ∧ Num p.patch ∧ PreOK p.prerelease ∧ BuildOK p.build ∧
    ((v = 118 :: p.major ∧ p.minor = [48] ∧ p.patch = [48] ∧ p.prerelease = [] ∧ p.build = [] ∧ p.short = [46, 48, 46, 48]) ∨
     (v = 118 :: p.major ++ 46 :: p.minor ∧ p.patch = [48] ∧ p.prerelease = [] ∧ p.build = [] ∧ p.short = [46, 48]) ∨
     (v = 118 :: p.major ++ 46 :: p.minor ++ 46 :: p.patch ++ p.prerelease ++ p.build ∧ p.short = [])) := by
  have num0 : Num [48] := ⟨by simp, by intro c hc; simp at hc; subst hc; decide, Or.inl rfl⟩
  unfold Semver.parse at h
  split at h
  · rename_i v1
    split at h
    · simp at h
    · rename_i maj v2 hmaj
      obtain ⟨e1, n1, _⟩ := parseInt_some hmaj
      split at h
      · injection h with h; subst h
        refine ⟨n1, num0, num0, Or.inl rfl, Or.inl rfl, Or.inl ⟨by simp [e1], rfl, rfl, rfl, rfl, B_dot00⟩⟩
      · rename_i v3
        split at h
        · simp at h
        · rename_i min v4 hmin
          obtain ⟨e2, n2, _⟩ := parseInt_some hmin
          split at h
          · injection h with h; subst h
            refine ⟨n1, n2, num0, Or.inl rfl, Or.inl rfl, Or.inr (Or.inl ⟨by simp [e1, e2], rfl, rfl, rfl, B_dot0⟩)⟩
          · rename_i v5
            split at h
            · simp at h
            · rename_i pat v6 hpat
              obtain ⟨e3, n3, _⟩ := parseInt_some hpat
              obtain ⟨pre, bld, e4, hpre, hbld, e5⟩ := parseTail_some h
              subst e5
              refine ⟨n1, n2, n3, hpre, hbld, Or.inr (Or.inr ⟨by simp [e1, e2, e3, e4], rfl⟩)⟩
          · simp at h
      · simp at h
  · simp at h

/-- Canonical of a valid version, by parts -/
theorem canonical_of_parse {v : Bytes} {p : Semver.Parsed} (h : Semver.parse v = some p) :
    Semver.canonical v = 118 :: p.major ++ 46 :: p.minor ++ 46 :: p.patch ++ p.prerelease := by
  obtain ⟨_, _, _, _, _, hc⟩ := parse_inv h
  unfold Semver.canonical
  rw [h]
  rcases hc with ⟨e, h1, h2, h3, h4, h5⟩ | ⟨e, h2, h3, h4, h5⟩ | ⟨e, h5⟩
  · simp [h4, h5, e, h1, h2, h3]
  · simp [h4, h5, e, h2, h3]
  · by_cases hbe : p.build = []
    · simp [hbe, h5, e]
    · have : (!p.build.isEmpty) = true := by simpa using hbe
      simp only [this, if_true]
      conv => lhs; rw [e]
      have : (118 :: p.major ++ 46 :: p.minor ++ 46 :: p.patch ++ p.prerelease ++ p.build).length - p.build.length
          = (118 :: p.major ++ 46 :: p.minor ++ 46 :: p.patch ++ p.prerelease).length := by
        simp only [List.length_append]; omega
      rw [this, List.take_left]

theorem build_of_parse {v : Bytes} {p : Semver.Parsed} (h : Semver.parse v = some p) : Semver.build v = p.build := by
  simp [Semver.build, h]

theorem prerelease_of_parse {v : Bytes} {p : Semver.Parsed} (h : Semver.parse v = some p) :
    Semver.prerelease v = p.prerelease := by
  simp [Semver.prerelease, h]

end ModVerif.Proofs.Pseudo
